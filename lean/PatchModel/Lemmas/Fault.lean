/-
  Lemmas/Fault — the fault schedule of the driver model (C10).

  `Good k m`: the computation `m : DM α` treats the fault schedule `faultAt = some k` correctly:
    * `Mono`: a run with no fault ahead (`Clear`: none scheduled, or the scheduled one is behind) only increases the operation
      counter, keeps `faultAt`, only extends the trace, and the tree is the tree before with the new trace entries replayed;
    * `Sim k`: the run from `s` (no fault) and the run from `wf k s` (`faultAt := some k`), `s.opCount ≤ k`, are in lock
      step until the k-th operation is attempted (`Out k`): either they end with the same result in states that differ
      in `faultAt` only and the counter is still `≤ k`, or the faulty run ended with an exception at counter `k + 1` with
      a trace that is a prefix of the fault-free one, whose counter is `> k`, or the fault was tolerated (`Tol`, D105): it hit
      a `chmod` to the permissions which the file has at that moment (both runs did the same operations up to there; nothing
      is said about the rest of the faulty run: in `Model/Fs` a `chmod` which changes nothing still moves the node to the
      end of the list, so the two trees are not the same value from there on).
  Closure rules (`Good.pure`, `.bind`, `.get_bind`, `.modify`, `.ite`, `.forIn`, …), the primitives (`good_doOp`, …), a small
  tactic `dm_good` that walks over an elaborated `do` block, and `Good k (processPatchM o)`.
-/
import PatchModel.Model.Driver
import Lean
namespace PatchModel.Fault
open PatchModel

/-! ## running a `DM` computation -/

def run {α} (m : DM α) (s : DState) : Except Exn α × DState := m.run s

theorem run_pure {α} (a : α) (s) : run (pure a) s = (.ok a, s) := rfl
theorem run_throw {α} (e : Exn) (s) : run (throw e : DM α) s = (.error e, s) := rfl
theorem run_get (s) : run (get : DM DState) s = (.ok s, s) := rfl
theorem run_set (x s) : run (set x : DM PUnit) s = (.ok ⟨⟩, x) := rfl
theorem run_modify (f : DState → DState) (s) : run (modify f : DM PUnit) s = (.ok ⟨⟩, f s) := rfl

theorem run_bind {α β} (m : DM α) (f : α → DM β) (s) :
    run (m >>= f) s = match run m s with
      | (.ok a, s') => run (f a) s'
      | (.error e, s') => (.error e, s') := by
  show run (m >>= f) s = match m.run s with
      | (.ok a, s') => run (f a) s'
      | (.error e, s') => (.error e, s')
  simp only [run, bind, ExceptT.bind, ExceptT.run, ExceptT.mk, StateT.bind, ExceptT.bindCont]
  rcases h : m s with ⟨r, s'⟩
  cases r <;> simp <;> rfl

theorem run_bind_ok {α β} {m : DM α} {f : α → DM β} {s a s'} (h : run m s = (.ok a, s')) :
    run (m >>= f) s = run (f a) s' := by rw [run_bind, h]

theorem run_bind_error {α β} {m : DM α} {f : α → DM β} {s e s'} (h : run m s = (.error e, s')) :
    run (m >>= f) s = (.error e, s') := by rw [run_bind, h]

theorem run_map {α β} (m : DM α) (f : α → β) (s) :
    run (f <$> m) s = match run m s with
      | (.ok a, s') => (.ok (f a), s')
      | (.error e, s') => (.error e, s') := by
  rw [map_eq_pure_bind, run_bind]; rfl

theorem run_liftE {α} (e : Except Exn α) (s) : run (liftE e) s = (e, s) := by
  cases e <;> rfl

/-! ## the predicates -/

/-- the same state with the fault scheduled at operation `k` -/
def wf (k : Nat) (s : DState) : DState := { s with faultAt := some k }

@[simp] theorem wf_opCount (k s) : (wf k s).opCount = s.opCount := rfl
@[simp] theorem wf_faultAt (k s) : (wf k s).faultAt = some k := rfl
@[simp] theorem wf_trace (k s) : (wf k s).trace = s.trace := rfl
@[simp] theorem wf_fs (k s) : (wf k s).fs = s.fs := rfl
@[simp] theorem wf_out (k s) : (wf k s).out = s.out := rfl
@[simp] theorem wf_hadFailure (k s) : (wf k s).hadFailure = s.hadFailure := rfl

/-- replay a list of operations on a tree -/
def replay : Fs → List FsOp → Option Fs
  | fs, [] => some fs
  | fs, op :: rest =>
    match fs.apply op with
    | .ok fs' => replay fs' rest
    | .error _ => none

theorem replay_append (fs : Fs) (a b : List FsOp) : replay fs (a ++ b) = (replay fs a).bind fun fs' => replay fs' b := by
  induction a generalizing fs with
  | nil => rfl
  | cons op a ih =>
    simp only [List.cons_append, replay]
    cases fs.apply op with
    | ok fs' => exact ih fs'
    | error e => rfl

theorem replay_trans {fs fs1 fs2 : Fs} {a b : List FsOp} (h1 : replay fs a = some fs1) (h2 : replay fs1 b = some fs2) :
    replay fs (a ++ b) = some fs2 := by
  rw [replay_append, h1]; exact h2

/-- no fault ahead: none is scheduled, or the scheduled one is behind -/
def Clear (s : DState) : Prop := ∀ k, s.faultAt = some k → k < s.opCount

theorem Clear.of_none {s : DState} (h : s.faultAt = none) : Clear s := fun k hk => by rw [h] at hk; cases hk

theorem Clear.beq {s : DState} (h : Clear s) : (s.faultAt == some s.opCount) = false := by
  cases hf : s.faultAt with
  | none => rfl
  | some k =>
    have := h k hf
    simp only [beq_eq_false_iff_ne, ne_eq, Option.some.injEq]
    omega

/-- what a run with no fault ahead does to the bookkeeping fields -/
def MonoAt (s s' : DState) : Prop :=
  s.opCount ≤ s'.opCount ∧ s'.faultAt = s.faultAt ∧ ∃ t, s'.trace = s.trace ++ t ∧ replay s.fs t = some s'.fs

def Mono {α} (m : DM α) : Prop := ∀ s, Clear s → MonoAt s (run m s).2

/-- the permissions of a node (`filesystem::get_permissions`) are `m` -/
def hasMode (n : Option Node) (m : Nat) : Bool :=
  match n with
  | some (.file _ m') => m' == m | some (.dir m') => m' == m | some (.other m') => m' == m | _ => false

/-- a fault-free run from `s0` ended in `free`, the run with the fault in `faulty`: both did the operations `t1`, then the
    fault-free run did `chmod path m` — where the tree after `t1` already has `m` as the permissions of `path` — and the other
    run, in which this operation failed, went on without it (D105) -/
def ToleratedChmod (s0 free faulty : DState) : Prop :=
  ∃ t1 path m fs1, (∃ t2, free.trace = s0.trace ++ t1 ++ .chmod path m :: t2) ∧ (∃ t2, faulty.trace = s0.trace ++ t1 ++ t2) ∧
    replay s0.fs t1 = some fs1 ∧ hasMode (fs1.stat path) m = true

/-- the fault was reached and tolerated -/
def Tol {α} (k : Nat) (s : DState) (p q : Except Exn α × DState) : Prop :=
  k < p.2.opCount ∧ k < q.2.opCount ∧ q.2.faultAt = some k ∧ p.2.faultAt = none ∧ ToleratedChmod s p.2 q.2

/-- the outcomes `p` of a fault-free run from `s` and `q` of the run with the fault scheduled at `k` -/
def Out {α} (k : Nat) (s : DState) (p q : Except Exn α × DState) : Prop :=
  (q.1 = p.1 ∧ q.2 = wf k p.2 ∧ p.2.opCount ≤ k) ∨
  (k < p.2.opCount ∧ q.2.opCount = k + 1 ∧ q.2.faultAt = some k ∧ (∃ e, q.1 = .error e) ∧ ∃ t, p.2.trace = q.2.trace ++ t) ∨
  Tol k s p q

def Sim {α} (k : Nat) (m : DM α) : Prop :=
  ∀ s, s.faultAt = none → s.opCount ≤ k → Out k s (run m s) (run m (wf k s))

structure Good {α} (k : Nat) (m : DM α) : Prop where
  mono : Mono m
  sim : Sim k m

theorem MonoAt.refl (s : DState) : MonoAt s s := ⟨Nat.le_refl _, rfl, [], by simp, rfl⟩

theorem MonoAt.trans {a b c : DState} (h1 : MonoAt a b) (h2 : MonoAt b c) : MonoAt a c := by
  obtain ⟨h1a, h1b, t1, h1c, h1d⟩ := h1
  obtain ⟨h2a, h2b, t2, h2c, h2d⟩ := h2
  exact ⟨Nat.le_trans h1a h2a, h2b.trans h1b, t1 ++ t2, by rw [h2c, h1c, List.append_assoc], replay_trans h1d h2d⟩

theorem MonoAt.clear {a b : DState} (h : MonoAt a b) (ha : Clear a) : Clear b := fun k hk => by
  rw [h.2.1] at hk; exact Nat.lt_of_lt_of_le (ha k hk) h.1

/-- a tolerated fault seen from an earlier state -/
theorem Tol.lift {α k} {s s' : DState} {p q : Except Exn α × DState} (hm : MonoAt s s') (h : Tol k s' p q) : Tol k s p q := by
  obtain ⟨_, _, t0, e0, r0⟩ := hm
  obtain ⟨h1, h2, h3, h4, t1, path, m, fs1, ⟨t2, e1⟩, ⟨t2', e2⟩, r1, hm⟩ := h
  refine ⟨h1, h2, h3, h4, t0 ++ t1, path, m, fs1, ⟨t2, ?_⟩, ⟨t2', ?_⟩, replay_trans r0 r1, hm⟩
  · rw [e1, e0]; simp only [List.append_assoc]
  · rw [e2, e0]; simp only [List.append_assoc]

/-- a tolerated fault stays one, whatever the two runs go on to do -/
theorem Tol.extend {α β k} {s : DState} {p q : Except Exn α × DState} {p' q' : Except Exn β × DState} (h : Tol k s p q)
    (hp : MonoAt p.2 p'.2) (hq : MonoAt q.2 q'.2) : Tol k s p' q' := by
  obtain ⟨h1, h2, h3, h4, t1, path, m, fs1, ⟨t2, e1⟩, ⟨t2', e2⟩, r1, hm⟩ := h
  obtain ⟨p1, p2, tp, p3, _⟩ := hp
  obtain ⟨q1, q2, tq, q3, _⟩ := hq
  refine ⟨Nat.lt_of_lt_of_le h1 p1, Nat.lt_of_lt_of_le h2 q1, q2.trans h3, p2.trans h4, t1, path, m, fs1,
    ⟨t2 ++ tp, ?_⟩, ⟨t2' ++ tq, ?_⟩, r1, hm⟩
  · rw [p3, e1]; simp only [List.append_assoc, List.cons_append]
  · rw [q3, e2]; simp only [List.append_assoc]

theorem Tol.clear {α k} {s : DState} {p q : Except Exn α × DState} (h : Tol k s p q) : Clear q.2 := fun k' hk => by
  rw [h.2.2.1] at hk; cases hk; exact h.2.1

/-! ## closure rules -/

theorem Good.pure {α k} (a : α) : Good k (pure a : DM α) where
  mono := fun s _ => by rw [run_pure]; exact MonoAt.refl s
  sim := fun s _ hc => by rw [run_pure, run_pure]; exact .inl ⟨rfl, rfl, hc⟩

theorem Good.throw {α k} (e : Exn) : Good k (throw e : DM α) where
  mono := fun s _ => by rw [run_throw]; exact MonoAt.refl s
  sim := fun s _ hc => by rw [run_throw, run_throw]; exact .inl ⟨rfl, rfl, hc⟩

theorem Good.liftE {α k} (e : Except Exn α) : Good k (liftE e : DM α) where
  mono := fun s _ => by rw [run_liftE]; exact MonoAt.refl s
  sim := fun s _ hc => by rw [run_liftE, run_liftE]; exact .inl ⟨rfl, rfl, hc⟩

theorem Mono.bind {α β} {m : DM α} {f : α → DM β} (hm : Mono m) (hf : ∀ a, Mono (f a)) : Mono (m >>= f) := fun s h => by
  have h1 := hm s h
  rcases hr : run m s with ⟨r, s'⟩
  rw [hr] at h1
  cases r with
  | error e => rw [run_bind_error hr]; exact h1
  | ok a => rw [run_bind_ok hr]; exact h1.trans (hf a s' (h1.clear h))

theorem Good.bind {α β k} {m : DM α} {f : α → DM β} (hm : Good k m) (hf : ∀ a, Good k (f a)) :
    Good k (m >>= f) where
  mono := Mono.bind hm.mono fun a => (hf a).mono
  sim := fun s h hc => by
    have h1 := hm.mono s (.of_none h)
    have h2 := hm.sim s h hc
    rcases hr : run m s with ⟨r, s'⟩
    rcases hq : run m (wf k s) with ⟨r2, s2⟩
    rw [hr] at h1
    rw [hr, hq] at h2
    have hs' : s'.faultAt = none := h1.2.1.trans h
    rcases h2 with ⟨e1, e2, e3⟩ | ⟨e1, e2, e3, ⟨e, e4⟩, t, e5⟩ | ht
    · simp only at e1 e2 e3
      subst e1 e2
      cases r2 with
      | error e => rw [run_bind_error hr, run_bind_error hq]; exact .inl ⟨rfl, rfl, e3⟩
      | ok a =>
        rw [run_bind_ok hr, run_bind_ok hq]
        rcases (hf a).sim s' hs' e3 with h3 | h3 | h3
        · exact .inl h3
        · exact .inr (.inl h3)
        · exact .inr (.inr (h3.lift h1))
    · simp only at e1 e2 e3 e4 e5
      subst e4
      rw [run_bind_error hq]
      cases r with
      | error e' => rw [run_bind_error hr]; exact .inr (.inl ⟨e1, e2, e3, ⟨e, rfl⟩, t, e5⟩)
      | ok a =>
        rw [run_bind_ok hr]
        obtain ⟨m1, _, t', m3, _⟩ := (hf a).mono s' (.of_none hs')
        refine .inr (.inl ⟨Nat.lt_of_lt_of_le e1 m1, e2, e3, ⟨e, rfl⟩, t ++ t', ?_⟩)
        simp only at *
        rw [m3, e5, List.append_assoc]
    · refine .inr (.inr ?_)
      have hp : MonoAt s' (run (m >>= f) s).2 := by
        cases r with
        | error e' => rw [run_bind_error hr]; exact MonoAt.refl _
        | ok a => rw [run_bind_ok hr]; exact (hf a).mono s' (.of_none hs')
      have hq' : MonoAt s2 (run (m >>= f) (wf k s)).2 := by
        cases r2 with
        | error e' => rw [run_bind_error hq]; exact MonoAt.refl _
        | ok a => rw [run_bind_ok hq]; exact (hf a).mono s2 ht.clear
      exact ht.extend hp hq'

/-- `let s ← get` — the continuation must not look at the fault schedule -/
theorem Good.get_bind {β k} {f : DState → DM β} (hinv : ∀ s x, f { s with faultAt := x } = f s)
    (hf : ∀ s, Good k (f s)) : Good k (get >>= f) where
  mono := fun s h => by rw [run_bind_ok (run_get s)]; exact (hf s).mono s h
  sim := fun s h hc => by
    rw [run_bind_ok (run_get s), run_bind_ok (run_get (wf k s))]
    have : f (wf k s) = f s := hinv s (some k)
    rw [this]
    exact (hf s).sim s h hc

/-- `modify` of fields other than `opCount`, `faultAt`, `trace`, `fs` -/
theorem Good.modify {k} {f : DState → DState}
    (h1 : ∀ s x, f { s with faultAt := x } = { f s with faultAt := x })
    (h2 : ∀ s, (f s).opCount = s.opCount) (h3 : ∀ s, (f s).trace = s.trace) (h4 : ∀ s, (f s).fs = s.fs) :
    Good k (modify f : DM PUnit) where
  mono := fun s _ => by
    rw [run_modify]
    refine ⟨Nat.le_of_eq (h2 s).symm, ?_, [], by simp [h3], by rw [h4]; rfl⟩
    have := h1 s s.faultAt
    have e : ({ s with faultAt := s.faultAt } : DState) = s := rfl
    rw [e] at this
    show (f s).faultAt = s.faultAt
    rw [this]
  sim := fun s _ hc => by
    rw [run_modify, run_modify]
    exact .inl ⟨rfl, h1 s (some k), by simp only [h2]; exact hc⟩

theorem Good.map {α β k} {m : DM α} (f : α → β) (hm : Good k m) : Good k (f <$> m) := by
  rw [map_eq_pure_bind]; exact Good.bind hm fun _ => Good.pure _

theorem Good.ite {α k} {c : Prop} [Decidable c] {a b : DM α} (ha : Good k a) (hb : Good k b) :
    Good k (if c then a else b) := by
  split <;> assumption

theorem Good.forIn {α β k} (l : List α) (init : β) (f : α → β → DM (ForInStep β))
    (hf : ∀ a b, Good k (f a b)) : Good k (forIn l init f) := by
  induction l generalizing init with
  | nil => simp only [List.forIn_nil]; exact Good.pure _
  | cons a l ih =>
    simp only [List.forIn_cons]
    refine Good.bind (hf a init) fun r => ?_
    cases r with
    | done b => exact Good.pure _
    | yield b => exact ih b

/-! ## the primitives -/

theorem run_doOp (op s) : run (doOp op) s =
    if s.faultAt == some s.opCount then (.error .systemError, { s with opCount := s.opCount + 1 })
    else match s.fs.apply op with
      | .ok fs' => (.ok ⟨⟩, { s with fs := fs', trace := s.trace ++ [op], opCount := s.opCount + 1 })
      | .error _ => (.error .systemError, { s with opCount := s.opCount + 1 }) := by
  unfold doOp
  simp only [run_bind, run_get]
  split
  · simp [run_bind, run_set, run_throw]
  · cases s.fs.apply op <;> simp [run_bind, run_set, run_throw]

theorem run_tryOp (op tol s) : run (tryOp op tol) s =
    if s.faultAt == some s.opCount then (.error .systemError, { s with opCount := s.opCount + 1 })
    else match s.fs.apply op with
      | .ok fs' => (.ok true, { s with fs := fs', trace := s.trace ++ [op], opCount := s.opCount + 1 })
      | .error e => (if tol e then .ok false else .error .systemError, { s with opCount := s.opCount + 1 }) := by
  unfold tryOp
  simp only [run_bind, run_get]
  split
  · simp [run_bind, run_set, run_throw]
  · cases h : s.fs.apply op with
    | ok fs' => simp [run_map, run_set]
    | error e =>
      simp only [run_bind, run_set]
      cases tol e <;> simp [run_pure, run_throw]

theorem replay_one {fs fs' : Fs} {op : FsOp} (h : fs.apply op = .ok fs') : replay fs [op] = some fs' := by
  simp only [replay, h]

theorem good_doOp {k} (op : FsOp) : Good k (doOp op) where
  mono := fun s h => by
    rw [run_doOp]
    simp only [h.beq]
    cases ha : s.fs.apply op with
    | ok fs' => exact ⟨Nat.le_succ _, rfl, [op], rfl, replay_one ha⟩
    | error e => exact ⟨Nat.le_succ _, rfl, [], by simp, rfl⟩
  sim := fun s h hc => by
    rw [run_doOp, run_doOp]
    simp only [h, wf_faultAt, wf_opCount, wf_fs]
    by_cases hk : k = s.opCount
    · subst hk
      refine .inr (.inl ?_)
      cases s.fs.apply op <;> simp [wf]
    · refine .inl ?_
      have : s.opCount + 1 ≤ k := by omega
      cases s.fs.apply op <;> simp [wf, hk, this]

theorem good_tryOp {k} (op : FsOp) (tol) : Good k (tryOp op tol) where
  mono := fun s h => by
    rw [run_tryOp]
    simp only [h.beq]
    cases ha : s.fs.apply op with
    | ok fs' => exact ⟨Nat.le_succ _, rfl, [op], rfl, replay_one ha⟩
    | error e => exact ⟨Nat.le_succ _, rfl, [], by simp, rfl⟩
  sim := fun s h hc => by
    rw [run_tryOp, run_tryOp]
    simp only [h, wf_faultAt, wf_opCount, wf_fs]
    by_cases hk : k = s.opCount
    · subst hk
      refine .inr (.inl ?_)
      cases s.fs.apply op <;> simp [wf]
    · refine .inl ?_
      have : s.opCount + 1 ≤ k := by omega
      cases s.fs.apply op <;> simp [wf, hk, this]

/-- `opChmod`: a fault which hits it is tolerated if the path has these permissions already (D105) -/
theorem run_opChmod (p : Bytes) (m : Nat) (s : DState) : run (opChmod p m) s =
    if s.faultAt == some s.opCount then
      (if hasMode (s.fs.stat (absPath s p)) m then .ok ⟨⟩ else .error .systemError, { s with opCount := s.opCount + 1 })
    else run (doOp (.chmod (absPath s p) m)) s := by
  unfold opChmod
  rw [run_bind_ok (run_get s)]
  split
  · rw [run_bind_ok (run_set _ s)]
    show run (if hasMode (s.fs.stat (absPath s p)) m = true then Pure.pure () else throw Exn.systemError) _ = _
    cases hasMode (s.fs.stat (absPath s p)) m <;> rfl
  · rfl

theorem run_opChmod_clear {p : Bytes} {m : Nat} {s : DState} (h : Clear s) :
    run (opChmod p m) s = run (doOp (.chmod (absPath s p) m)) s := by
  rw [run_opChmod, h.beq]; rfl

theorem apply_chmod_of_hasMode {fs : Fs} {p : Bytes} {m : Nat} (h : hasMode (fs.stat p) m = true) :
    ∃ fs', fs.apply (.chmod p m) = .ok fs' := by
  unfold hasMode at h
  simp only [Fs.apply]
  split at h
  · rename_i hs; rw [hs]; simp only; split <;> exact ⟨_, rfl⟩
  · rename_i hs; rw [hs]; exact ⟨_, rfl⟩
  · rename_i hs; rw [hs]; exact ⟨_, rfl⟩
  · cases h

theorem run_doOp_clear {op : FsOp} {s : DState} (h : Clear s) : run (doOp op) s =
    match s.fs.apply op with
    | .ok fs' => (.ok ⟨⟩, { s with fs := fs', trace := s.trace ++ [op], opCount := s.opCount + 1 })
    | .error _ => (.error .systemError, { s with opCount := s.opCount + 1 }) := by
  rw [run_doOp, h.beq]; rfl

theorem good_opChmod {k} (p m) : Good k (opChmod p m) where
  mono := fun s h => by rw [run_opChmod_clear h]; exact (good_doOp (k := k) _).mono s h
  sim := fun s h hc => by
    by_cases hk : k = s.opCount
    · subst hk
      have ep : run (opChmod p m) s = run (doOp (.chmod (absPath s p) m)) s := run_opChmod_clear (.of_none h)
      have eq : run (opChmod p m) (wf s.opCount s) =
          (if hasMode (s.fs.stat (absPath s p)) m then .ok ⟨⟩ else .error .systemError,
            { wf s.opCount s with opCount := s.opCount + 1 }) := by
        rw [run_opChmod]; simp only [wf_faultAt, wf_opCount, beq_self_eq_true, if_true]; rfl
      rw [ep, eq]
      cases hm : hasMode (s.fs.stat (absPath s p)) m with
      | false =>
        have e2 : run (doOp (.chmod (absPath s p) m)) (wf s.opCount s) =
            (.error .systemError, { wf s.opCount s with opCount := s.opCount + 1 }) := by
          rw [run_doOp]; simp
        show Out _ s _ (.error .systemError, _)
        rw [← e2]
        exact (good_doOp _).sim s h hc
      | true =>
        obtain ⟨fs', ha⟩ := apply_chmod_of_hasMode hm
        rw [run_doOp_clear (.of_none h), ha]
        refine .inr (.inr ⟨Nat.lt_succ_self _, Nat.lt_succ_self _, rfl, h, [], absPath s p, m, s.fs, ⟨[], ?_⟩, ⟨[], ?_⟩, rfl, hm⟩)
        · simp
        · simp [wf]
    · have e : run (opChmod p m) (wf k s) = run (doOp (.chmod (absPath s p) m)) (wf k s) := by
        rw [run_opChmod]
        have : ((wf k s).faultAt == some (wf k s).opCount) = false := by
          simp only [wf_faultAt, wf_opCount, beq_eq_false_iff_ne, ne_eq, Option.some.injEq]; exact hk
        rw [this]; rfl
      rw [run_opChmod_clear (.of_none h), e]
      exact (good_doOp _).sim s h hc

/-! ## a tactic that walks over an elaborated `do` block -/

theorem Good.letGen {α β k} (P : β → Prop) (v : β) (body : β → DM α) (hv : P v)
    (h : ∀ x, P x → Good k (body x)) : Good k (body v) := h v hv

open Lean Elab Tactic Meta in
/-- goal `Good k (have x := v; b)`: a join point (`v` a function into `DM`) is generalised — first goal: `v` is good for all
    arguments, second goal: `b` is good for every such `x`; any other value is substituted -/
elab "dm_have" : tactic => liftMetaTactic fun g => g.withContext do
  let tgt ← instantiateMVars (← g.getType)
  let .app gk e := tgt | throwError "dm_have: not an application"
  unless gk.getAppFn.isConstOf ``Good do throwError "dm_have: not a Good goal"
  let .letE n t v b _ := e | throwError "dm_have: no let"
  if t.isForall then
    let k := gk.appArg!
    let mkP (x : Expr) : MetaM Expr :=
      forallTelescope t fun args _ => do
        let goal ← mkAppM ``Good #[k, (mkAppN x args).headBeta]
        mkForallFVars args goal
    let P ← withLocalDeclD n t fun x => do mkLambdaFVars #[x] (← mkP x)
    let hv ← mkFreshExprSyntheticOpaqueMVar (← mkP v)
    let hTy ← withLocalDeclD n t fun x => do
      withLocalDeclD `hjp (← mkP x) fun hx => do
        mkForallFVars #[x, hx] (mkApp gk (b.instantiate1 x))
    let h ← mkFreshExprSyntheticOpaqueMVar hTy
    let pf ← mkAppOptM ``Good.letGen #[none, none, k, P, v, Expr.lam n t b .default, hv, h]
    g.assign pf
    return [hv.mvarId!, h.mvarId!]
  else
    return [← g.replaceTargetDefEq (mkApp gk (b.instantiate1 v))]

open Lean Elab Tactic Meta in
/-- close `Good k (jp a)` with a join point hypothesis -/
elab "dm_hyp" : tactic => liftMetaTactic fun g => g.withContext do
  for d in (← getLCtx) do
    if d.isImplementationDetail then continue
    let ty ← instantiateMVars d.type
    if ty.getForallBody.getAppFn.isConstOf ``Good then
      if let some gs ← observing? (withReducible (g.apply d.toExpr)) then
        return gs
  throwError "dm_hyp: no hypothesis applies"

/-- the lemma data base: `Good k (f …)` for the functions of the model (extended by `macro_rules`) -/
syntax "dm_prim" : tactic
macro_rules | `(tactic| dm_prim) => `(tactic| with_reducible exact good_doOp _)
macro_rules | `(tactic| dm_prim) => `(tactic| with_reducible exact good_tryOp _ _)

macro "dm_step" : tactic => `(tactic| first
  | dm_have
  | dm_hyp
  | dm_prim
  | with_reducible exact Good.pure _
  | with_reducible exact Good.throw _
  | with_reducible exact Good.liftE _
  | (with_reducible refine Good.get_bind ?_ (fun _ => ?_)); (· intros; rfl)
  | (with_reducible refine Good.modify ?_ ?_ ?_ ?_) <;> (intros; rfl)
  | with_reducible refine Good.bind ?_ (fun _ => ?_)
  | with_reducible refine Good.map _ ?_
  | with_reducible refine Good.ite ?_ ?_
  | with_reducible refine Good.forIn _ _ _ (fun _ _ => ?_)
  | intro _
  | split)

macro "dm_good" : tactic => `(tactic| repeat' dm_step)

/-! ## the functions of the driver -/

theorem good_emit {k} (e) : Good k (emit e) := by unfold emit; dm_good
macro_rules | `(tactic| dm_prim) => `(tactic| with_reducible exact good_emit _)

theorem good_failNow {k} : Good k failNow := by unfold failNow; dm_good
macro_rules | `(tactic| dm_prim) => `(tactic| with_reducible exact good_failNow)

theorem good_fsExists {k} (p) : Good k (fsExists p) := by unfold fsExists; dm_good
macro_rules | `(tactic| dm_prim) => `(tactic| with_reducible exact good_fsExists _)

theorem good_opCreat {k} (p) : Good k (opCreat p) := by unfold opCreat; dm_good
macro_rules | `(tactic| dm_prim) => `(tactic| with_reducible exact good_opCreat _)

theorem good_ensureParentDirs {k} (p) : Good k (ensureParentDirs p) := by unfold ensureParentDirs; dm_good
macro_rules | `(tactic| dm_prim) => `(tactic| with_reducible exact good_ensureParentDirs _)

theorem good_removeFileAndEmptyParents {k} (p) : Good k (removeFileAndEmptyParents p) := by
  unfold removeFileAndEmptyParents; dm_good
macro_rules | `(tactic| dm_prim) => `(tactic| with_reducible exact good_removeFileAndEmptyParents _)


theorem good_fsIsRegular {k} (p) : Good k (fsIsRegular p) := by unfold fsIsRegular; dm_good
macro_rules | `(tactic| dm_prim) => `(tactic| with_reducible exact good_fsIsRegular _)
theorem good_fsIsSymlink {k} (p) : Good k (fsIsSymlink p) := by unfold fsIsSymlink; dm_good
macro_rules | `(tactic| dm_prim) => `(tactic| with_reducible exact good_fsIsSymlink _)

theorem good_fsGetPerms {k} (p) : Good k (fsGetPerms p) := by unfold fsGetPerms; dm_good
macro_rules | `(tactic| dm_prim) => `(tactic| with_reducible exact good_fsGetPerms _)

theorem good_opWrite {k} (p b) : Good k (opWrite p b) := by unfold opWrite; dm_good
macro_rules | `(tactic| dm_prim) => `(tactic| with_reducible exact good_opWrite _ _)

macro_rules | `(tactic| dm_prim) => `(tactic| with_reducible exact good_opChmod _ _)

theorem good_opRename {k} (a b) : Good k (opRename a b) := by unfold opRename; dm_good
macro_rules | `(tactic| dm_prim) => `(tactic| with_reducible exact good_opRename _ _)

theorem good_createTemp {k} : Good k createTemp := by unfold createTemp; dm_good
macro_rules | `(tactic| dm_prim) => `(tactic| with_reducible exact good_createTemp)

theorem good_writeFile {k} (p c) : Good k (writeFile p c) := by unfold writeFile; dm_good
macro_rules | `(tactic| dm_prim) => `(tactic| with_reducible exact good_writeFile _ _)

theorem good_fixPermissionsIfNeeded {k} (o f) : Good k (fixPermissionsIfNeeded o f) := by
  unfold fixPermissionsIfNeeded; dm_good
macro_rules | `(tactic| dm_prim) => `(tactic| with_reducible exact good_fixPermissionsIfNeeded _ _)

theorem good_permissionCallback {k} (a b c) : Good k (permissionCallback a b c) := by
  unfold permissionCallback; dm_good
macro_rules | `(tactic| dm_prim) => `(tactic| with_reducible exact good_permissionCallback _ _ _)

/-- `Good` only depends on the runs -/
theorem Good.congr {α k} {m m' : DM α} (h : ∀ s, run m s = run m' s) (hm : Good k m') : Good k m where
  mono := fun s hs => by rw [h]; exact hm.mono s hs
  sim := fun s hs hc => by rw [h, h]; exact hm.sim s hs hc

theorem good_makeWayFor {k} (p) : Good k (makeWayFor p) := by unfold makeWayFor; dm_good
macro_rules | `(tactic| dm_prim) => `(tactic| with_reducible exact good_makeWayFor _)

/-- `openRejects` with its `set { s with … }` written as a `modify` -/
def openRejects' (o : Options) (rej : Bytes) : DM Unit := do
  let s ← get
  if s.rejWritten.contains rej then
    if !(← fsExists rej) then opCreat rej
  else
    modify fun s => { s with rejWritten := s.rejWritten ++ [rej] }
    if o.rejectFile.isEmpty then makeWayFor rej
    opCreat rej

theorem good_openRejects {k} (o rej) : Good k (openRejects o rej) := by
  refine Good.congr (m' := openRejects' o rej) (fun s => ?_) (by unfold openRejects'; dm_good)
  unfold openRejects openRejects'
  simp only [run_bind, run_get]
  split
  · rfl
  · simp only [run_bind, run_set, run_modify]
macro_rules | `(tactic| dm_prim) => `(tactic| with_reducible exact good_openRejects _ _)

theorem good_writeRejects {k} (o rej b) : Good k (writeRejects o rej b) := by unfold writeRejects; dm_good
macro_rules | `(tactic| dm_prim) => `(tactic| with_reducible exact good_writeRejects _ _ _)

theorem good_refuseToPatch {k} (a b c) : Good k (refuseToPatch a b c) := by
  unfold refuseToPatch; dm_good
macro_rules | `(tactic| dm_prim) => `(tactic| with_reducible exact good_refuseToPatch _ _ _)

theorem good_guessFilepath {k} (a b) : Good k (guessFilepath a b) := by
  unfold guessFilepath; dm_good
macro_rules | `(tactic| dm_prim) => `(tactic| with_reducible exact good_guessFilepath _ _)


theorem run_readTty (s) : run readTty s =
    match s.tty with
    | none => (.error .systemError, s)
    | some [] => (.ok [], s)
    | some (a :: rest) => (.ok a, { s with tty := some rest }) := by
  unfold readTty
  simp only [run_bind, run_get]
  split <;> simp [run_throw, run_pure, run_map, run_set, *]

theorem good_readTty {k} : Good k readTty where
  mono := fun s h => by
    rw [run_readTty]
    split <;> exact ⟨Nat.le_refl _, rfl, [], by simp, rfl⟩
  sim := fun s h hc => by
    rw [run_readTty, run_readTty]
    refine .inl ?_
    show _ ∧ _ ∧ _
    have : (wf k s).tty = s.tty := rfl
    rw [this]
    split <;> simp [hc] <;> rfl
macro_rules | `(tactic| dm_prim) => `(tactic| with_reducible exact good_readTty)

theorem good_checkWithUser {k} (q d) : Good k (checkWithUser q d) := by unfold checkWithUser; dm_good
macro_rules | `(tactic| dm_prim) => `(tactic| with_reducible exact good_checkWithUser _ _)

theorem good_promptForFilepath {k} (fuel) : Good k (promptForFilepath fuel) := by
  induction fuel with
  | zero => unfold promptForFilepath; dm_good
  | succ n ih => unfold promptForFilepath; dm_good
macro_rules | `(tactic| dm_prim) => `(tactic| with_reducible exact good_promptForFilepath _)


/-- `makeBackupFor` with its `set { s with … }` written as a `modify` -/
def makeBackupFor' (o : Options) (p : Bytes) : DM Unit := do
  if (← fsExists p) && !(← fsIsRegular p) then return
  let s ← get
  if !s.backedUp.contains (backupName o p) then
    modify fun s => { s with backedUp := s.backedUp ++ [backupName o p] }
    ensureParentDirs (backupName o p)
    if (← fsExists p) then opRename p (backupName o p) else do makeWayFor (backupName o p); opCreat (backupName o p)

theorem run_fsExists (p : Bytes) (s : DState) : run (fsExists p) s = (.ok (s.fs.stat (absPath s p)).isSome, s) := rfl
theorem run_fsIsRegular (p : Bytes) (s : DState) :
    run (fsIsRegular p) s = (.ok (match s.fs.stat (absPath s p) with | some (.file _ _) => true | _ => false), s) := rfl

theorem run_ite_congr {α} {c : Prop} [Decidable c] {a b b' : DM α} {s : DState} (h : run b s = run b' s) :
    run (if c then a else b) s = run (if c then a else b') s := by
  split
  · rfl
  · exact h

theorem good_makeBackupFor {k} (o p) : Good k (makeBackupFor o p) := by
  refine Good.congr (m' := makeBackupFor' o p) (fun s => ?_) (by unfold makeBackupFor'; dm_good)
  unfold makeBackupFor makeBackupFor'
  simp only [run_bind, run_fsExists, run_fsIsRegular]
  refine run_ite_congr ?_
  simp only [run_bind, run_get]
  split
  · simp only [run_bind, run_set, run_modify]
  · rfl
macro_rules | `(tactic| dm_prim) => `(tactic| with_reducible exact good_makeBackupFor _ _)

theorem good_makeWritable {k} (a b) : Good k (makeWritable a b) := by
  unfold makeWritable; dm_good
macro_rules | `(tactic| dm_prim) => `(tactic| with_reducible exact good_makeWritable _ _)

theorem good_writePatchedResult {k} (o a b c sb d) : Good k (writePatchedResult o a b c sb d) := by
  unfold writePatchedResult; dm_good
macro_rules | `(tactic| dm_prim) => `(tactic| with_reducible exact good_writePatchedResult _ _ _ _ _ _)

theorem good_finalizeDeferred {k} (o) : Good k (finalizeDeferred o) := by
  unfold finalizeDeferred; dm_good
macro_rules | `(tactic| dm_prim) => `(tactic| with_reducible exact good_finalizeDeferred _)

theorem good_parseBodyM {k} (a b) : Good k (parseBodyM a b) := by
  unfold parseBodyM; dm_good
macro_rules | `(tactic| dm_prim) => `(tactic| with_reducible exact good_parseBodyM _ _)


theorem good_processSection {k} (o f) : Good k (processSection o f) := by
  unfold processSection; dm_good
macro_rules | `(tactic| dm_prim) => `(tactic| with_reducible exact good_processSection _ _)

theorem good_sectionLoop {k} (o f fuel) : Good k (sectionLoop o f fuel) := by
  induction fuel with
  | zero => unfold sectionLoop; dm_good
  | succ n ih => unfold sectionLoop; dm_good
macro_rules | `(tactic| dm_prim) => `(tactic| with_reducible exact good_sectionLoop _ _ _)

theorem good_chdir {k β} (d : Bytes) (jp : Unit → DM β) (hjp : ∀ x, Good k (jp x)) :
    Good k (do
      let s ← get
      match s.fs.stat d with
      | some (.dir _) => do let r ← set { s with cwd := d }; jp r
      | _ => do let r ← throw Exn.systemError; jp r) := by
  refine Good.congr (m' := do
      let s ← get
      match s.fs.stat d with
      | some (.dir _) => do let r ← modify fun s => { s with cwd := d }; jp r
      | _ => do let r ← throw Exn.systemError; jp r) (fun s => ?_) (by dm_good)
  simp only [run_bind, run_get]
  split <;> simp only [run_bind, run_set, run_modify]

theorem good_processPatchM {k} (o) : Good k (processPatchM o) := by
  unfold processPatchM
  dm_have
  · dm_good
  · intro jp hjp
    refine Good.ite ?_ (hjp _)
    exact good_chdir _ _ hjp

/-! ## `runPatch` -/

theorem runPatch_eq (o : Options) (s : DState) (hh : (o.showHelp || o.showVersion) = false) :
    runPatch o s = match run (processPatchM o) s with
      | (.ok (), s') => (if s'.hadFailure then 1 else 0, s')
      | (.error _, s') => (2, s') := by
  simp only [runPatch, hh]; rfl

theorem runPatch_help (o : Options) (s : DState) (hh : (o.showHelp || o.showVersion) = true) :
    runPatch o s = (0, s) := by
  simp only [runPatch, hh]; rfl

/-- the fault-free run and the run with the fault scheduled at `k`, at the level of `runPatch` -/
theorem runPatch_out (o : Options) (s : DState) (k : Nat) (hs : s.faultAt = none) (hc : s.opCount ≤ k) :
    ((runPatch o (wf k s)).1 = (runPatch o s).1 ∧ (runPatch o (wf k s)).2 = wf k (runPatch o s).2 ∧
      (runPatch o s).2.opCount ≤ k) ∨
    (k < (runPatch o s).2.opCount ∧ (runPatch o (wf k s)).2.opCount = k + 1 ∧ (runPatch o (wf k s)).1 = 2 ∧
      ∃ t, (runPatch o s).2.trace = (runPatch o (wf k s)).2.trace ++ t) ∨
    (k < (runPatch o s).2.opCount ∧ k < (runPatch o (wf k s)).2.opCount ∧
      ToleratedChmod s (runPatch o s).2 (runPatch o (wf k s)).2) := by
  cases hh : (o.showHelp || o.showVersion)
  · rw [runPatch_eq o s hh, runPatch_eq o (wf k s) hh]
    have h := (good_processPatchM (k := k) o).sim s hs hc
    rcases hp : run (processPatchM o) s with ⟨r, s'⟩
    rcases hq : run (processPatchM o) (wf k s) with ⟨r2, s2⟩
    rw [hp, hq] at h
    rcases h with ⟨e1, e2, e3⟩ | ⟨e1, e2, _, ⟨e, e4⟩, t, e5⟩ | ⟨e1, e2, _, _, e3⟩
    · simp only at e1 e2 e3
      subst e1 e2
      refine .inl ?_
      cases r2 with
      | error e => exact ⟨rfl, rfl, e3⟩
      | ok u => exact ⟨rfl, rfl, e3⟩
    · simp only at e1 e2 e4 e5
      subst e4
      refine .inr (.inl ?_)
      cases r with
      | error e => exact ⟨e1, e2, rfl, t, e5⟩
      | ok u => exact ⟨e1, e2, rfl, t, e5⟩
    · simp only at e1 e2 e3
      refine .inr (.inr ?_)
      cases r <;> cases r2 <;> exact ⟨e1, e2, e3⟩
  · rw [runPatch_help o s hh, runPatch_help o (wf k s) hh]
    exact .inl ⟨rfl, rfl, hc⟩

end PatchModel.Fault
