/-
  Lemmas/Fault — the fault schedule of the driver model (C10).

  `Good k m`: the computation `m : DM α` treats the fault schedule `faultAt = some k` correctly:
    * `Mono`: a fault-free run only increases the operation counter, only extends the trace, keeps `faultAt = none`;
    * `Sim k`: the run from `s` (no fault) and the run from `wf k s` (`faultAt := some k`), `s.opCount ≤ k`, are in lock
      step until the k-th operation is attempted (`Out k`): either they end with the same result in states that differ
      in `faultAt` only and the counter is still `≤ k`, or the faulty run ended with an exception at counter `k + 1` with
      a trace that is a prefix of the fault-free one, whose counter is `> k`.
  Closure rules (`Good.pure`, `.bind`, `.get_bind`, `.modify`, `.ite`, `.forIn`, …), the primitives (`good_doOp`, …), a small
  tactic `dm_good` that walks over an elaborated `do` block, and `Good k (processPatchM o)`.
-/
import PatchModel.Model.Driver
namespace PatchModel.Fault
open PatchModel

/-! ## running a `DM` computation -/

def run {α} (m : DM α) (s : DState) : Except Exn α × DState := m.run s

theorem run_pure {α} (a : α) (s) : run (pure a) s = (.ok a, s) := rfl
theorem run_throw {α} (e : Exn) (s) : run (throw e : DM α) s = (.error e, s) := rfl
theorem run_get (s) : run (get : DM DState) s = (.ok s, s) := rfl
theorem run_set (x s) : run (set x : DM PUnit) s = (.ok ⟨⟩, x) := rfl
theorem run_modify (f : DState → DState) (s) : run (modify f : DM PUnit) s = (.ok ⟨⟩, f s) := rfl

theorem run_bind {α β} (m : DM α) (f : α → DM β) (s) :
    run (m >>= f) s = match run m s with
      | (.ok a, s') => run (f a) s'
      | (.error e, s') => (.error e, s') := by
  show run (m >>= f) s = match m.run s with
      | (.ok a, s') => run (f a) s'
      | (.error e, s') => (.error e, s')
  simp only [run, bind, ExceptT.bind, ExceptT.run, ExceptT.mk, StateT.bind, ExceptT.bindCont]
  rcases h : m s with ⟨r, s'⟩
  cases r <;> simp <;> rfl

theorem run_bind_ok {α β} {m : DM α} {f : α → DM β} {s a s'} (h : run m s = (.ok a, s')) :
    run (m >>= f) s = run (f a) s' := by rw [run_bind, h]

theorem run_bind_error {α β} {m : DM α} {f : α → DM β} {s e s'} (h : run m s = (.error e, s')) :
    run (m >>= f) s = (.error e, s') := by rw [run_bind, h]

theorem run_map {α β} (m : DM α) (f : α → β) (s) :
    run (f <$> m) s = match run m s with
      | (.ok a, s') => (.ok (f a), s')
      | (.error e, s') => (.error e, s') := by
  rw [map_eq_pure_bind, run_bind]; rfl

theorem run_liftE {α} (e : Except Exn α) (s) : run (liftE e) s = (e, s) := by
  cases e <;> rfl

/-! ## the predicates -/

/-- the same state with the fault scheduled at operation `k` -/
def wf (k : Nat) (s : DState) : DState := { s with faultAt := some k }

@[simp] theorem wf_opCount (k s) : (wf k s).opCount = s.opCount := rfl
@[simp] theorem wf_faultAt (k s) : (wf k s).faultAt = some k := rfl
@[simp] theorem wf_trace (k s) : (wf k s).trace = s.trace := rfl
@[simp] theorem wf_fs (k s) : (wf k s).fs = s.fs := rfl
@[simp] theorem wf_out (k s) : (wf k s).out = s.out := rfl
@[simp] theorem wf_hadFailure (k s) : (wf k s).hadFailure = s.hadFailure := rfl

/-- what a fault-free run does to the bookkeeping fields -/
def MonoAt (s s' : DState) : Prop :=
  s.opCount ≤ s'.opCount ∧ s'.faultAt = none ∧ ∃ t, s'.trace = s.trace ++ t

def Mono {α} (m : DM α) : Prop := ∀ s, s.faultAt = none → MonoAt s (run m s).2

/-- the outcomes `p` of a fault-free run and `q` of the run with the fault scheduled at `k` -/
def Out {α} (k : Nat) (p q : Except Exn α × DState) : Prop :=
  (q.1 = p.1 ∧ q.2 = wf k p.2 ∧ p.2.opCount ≤ k) ∨
  (k < p.2.opCount ∧ q.2.opCount = k + 1 ∧ q.2.faultAt = some k ∧ (∃ e, q.1 = .error e) ∧ ∃ t, p.2.trace = q.2.trace ++ t)

def Sim {α} (k : Nat) (m : DM α) : Prop :=
  ∀ s, s.faultAt = none → s.opCount ≤ k → Out k (run m s) (run m (wf k s))

structure Good {α} (k : Nat) (m : DM α) : Prop where
  mono : Mono m
  sim : Sim k m

theorem MonoAt.refl {s : DState} (h : s.faultAt = none) : MonoAt s s := ⟨Nat.le_refl _, h, [], by simp⟩

theorem MonoAt.trans {a b c : DState} (h1 : MonoAt a b) (h2 : MonoAt b c) : MonoAt a c := by
  obtain ⟨h1a, h1b, t1, h1c⟩ := h1
  obtain ⟨h2a, h2b, t2, h2c⟩ := h2
  exact ⟨Nat.le_trans h1a h2a, h2b, t1 ++ t2, by rw [h2c, h1c, List.append_assoc]⟩

/-! ## closure rules -/

theorem Good.pure {α k} (a : α) : Good k (pure a : DM α) where
  mono := fun s h => by rw [run_pure]; exact MonoAt.refl h
  sim := fun s _ hc => by rw [run_pure, run_pure]; exact .inl ⟨rfl, rfl, hc⟩

theorem Good.throw {α k} (e : Exn) : Good k (throw e : DM α) where
  mono := fun s h => by rw [run_throw]; exact MonoAt.refl h
  sim := fun s _ hc => by rw [run_throw, run_throw]; exact .inl ⟨rfl, rfl, hc⟩

theorem Good.liftE {α k} (e : Except Exn α) : Good k (liftE e : DM α) where
  mono := fun s h => by rw [run_liftE]; exact MonoAt.refl h
  sim := fun s _ hc => by rw [run_liftE, run_liftE]; exact .inl ⟨rfl, rfl, hc⟩

theorem Good.bind {α β k} {m : DM α} {f : α → DM β} (hm : Good k m) (hf : ∀ a, Good k (f a)) :
    Good k (m >>= f) where
  mono := fun s h => by
    have h1 := hm.mono s h
    rcases hr : run m s with ⟨r, s'⟩
    rw [hr] at h1
    cases r with
    | error e => rw [run_bind_error hr]; exact h1
    | ok a => rw [run_bind_ok hr]; exact h1.trans ((hf a).mono s' h1.2.1)
  sim := fun s h hc => by
    have h1 := hm.mono s h
    have h2 := hm.sim s h hc
    rcases hr : run m s with ⟨r, s'⟩
    rcases hq : run m (wf k s) with ⟨r2, s2⟩
    rw [hr] at h1
    rw [hr, hq] at h2
    rcases h2 with ⟨e1, e2, e3⟩ | ⟨e1, e2, e3, ⟨e, e4⟩, t, e5⟩
    · simp only at e1 e2 e3
      subst e1 e2
      cases r2 with
      | error e => rw [run_bind_error hr, run_bind_error hq]; exact .inl ⟨rfl, rfl, e3⟩
      | ok a => rw [run_bind_ok hr, run_bind_ok hq]; exact (hf a).sim s' h1.2.1 e3
    · simp only at e1 e2 e3 e4 e5
      subst e4
      rw [run_bind_error hq]
      cases r with
      | error e' => rw [run_bind_error hr]; exact .inr ⟨e1, e2, e3, ⟨e, rfl⟩, t, e5⟩
      | ok a =>
        rw [run_bind_ok hr]
        obtain ⟨m1, _, t', m3⟩ := (hf a).mono s' h1.2.1
        refine .inr ⟨Nat.lt_of_lt_of_le e1 m1, e2, e3, ⟨e, rfl⟩, t ++ t', ?_⟩
        simp only at *
        rw [m3, e5, List.append_assoc]

/-- `let s ← get` — the continuation must not look at the fault schedule -/
theorem Good.get_bind {β k} {f : DState → DM β} (hinv : ∀ s x, f { s with faultAt := x } = f s)
    (hf : ∀ s, Good k (f s)) : Good k (get >>= f) where
  mono := fun s h => by rw [run_bind_ok (run_get s)]; exact (hf s).mono s h
  sim := fun s h hc => by
    rw [run_bind_ok (run_get s), run_bind_ok (run_get (wf k s))]
    have : f (wf k s) = f s := hinv s (some k)
    rw [this]
    exact (hf s).sim s h hc

/-- `modify` of fields other than `opCount`, `faultAt`, `trace` -/
theorem Good.modify {k} {f : DState → DState}
    (h1 : ∀ s x, f { s with faultAt := x } = { f s with faultAt := x })
    (h2 : ∀ s, (f s).opCount = s.opCount) (h3 : ∀ s, (f s).trace = s.trace) : Good k (modify f : DM PUnit) where
  mono := fun s h => by
    rw [run_modify]
    refine ⟨Nat.le_of_eq (h2 s).symm, ?_, [], by simp [h3]⟩
    have := h1 s none
    have e : ({ s with faultAt := none } : DState) = s := by cases s; cases h; rfl
    rw [e] at this
    show (f s).faultAt = none
    rw [this]
  sim := fun s _ hc => by
    rw [run_modify, run_modify]
    exact .inl ⟨rfl, h1 s (some k), by simp only [h2]; exact hc⟩

theorem Good.map {α β k} {m : DM α} (f : α → β) (hm : Good k m) : Good k (f <$> m) := by
  rw [map_eq_pure_bind]; exact Good.bind hm fun _ => Good.pure _

theorem Good.ite {α k} {c : Prop} [Decidable c] {a b : DM α} (ha : Good k a) (hb : Good k b) :
    Good k (if c then a else b) := by
  split <;> assumption

theorem Good.forIn {α β k} (l : List α) (init : β) (f : α → β → DM (ForInStep β))
    (hf : ∀ a b, Good k (f a b)) : Good k (forIn l init f) := by
  induction l generalizing init with
  | nil => simp only [List.forIn_nil]; exact Good.pure _
  | cons a l ih =>
    simp only [List.forIn_cons]
    refine Good.bind (hf a init) fun r => ?_
    cases r with
    | done b => exact Good.pure _
    | yield b => exact ih b

/-! ## the primitives -/

theorem run_doOp (op s) : run (doOp op) s =
    if s.faultAt == some s.opCount then (.error .systemError, { s with opCount := s.opCount + 1 })
    else match s.fs.apply op with
      | .ok fs' => (.ok ⟨⟩, { s with fs := fs', trace := s.trace ++ [op], opCount := s.opCount + 1 })
      | .error _ => (.error .systemError, { s with opCount := s.opCount + 1 }) := by
  unfold doOp
  simp only [run_bind, run_get]
  split
  · simp [run_bind, run_set, run_throw]
  · cases s.fs.apply op <;> simp [run_bind, run_set, run_throw]

theorem run_tryOp (op tol s) : run (tryOp op tol) s =
    if s.faultAt == some s.opCount then (.error .systemError, { s with opCount := s.opCount + 1 })
    else match s.fs.apply op with
      | .ok fs' => (.ok true, { s with fs := fs', trace := s.trace ++ [op], opCount := s.opCount + 1 })
      | .error e => (if tol e then .ok false else .error .systemError, { s with opCount := s.opCount + 1 }) := by
  unfold tryOp
  simp only [run_bind, run_get]
  split
  · simp [run_bind, run_set, run_throw]
  · cases h : s.fs.apply op with
    | ok fs' => simp [run_map, run_set]
    | error e =>
      simp only [run_bind, run_set]
      cases tol e <;> simp [run_pure, run_throw]

theorem good_doOp {k} (op : FsOp) : Good k (doOp op) where
  mono := fun s h => by
    rw [run_doOp]
    simp only [h]
    cases s.fs.apply op <;> simp [MonoAt, h]
  sim := fun s h hc => by
    rw [run_doOp, run_doOp]
    simp only [h, wf_faultAt, wf_opCount, wf_fs]
    by_cases hk : k = s.opCount
    · subst hk
      refine .inr ?_
      cases s.fs.apply op <;> simp [wf]
    · refine .inl ?_
      have : s.opCount + 1 ≤ k := by omega
      cases s.fs.apply op <;> simp [wf, hk, this]

theorem good_tryOp {k} (op : FsOp) (tol) : Good k (tryOp op tol) where
  mono := fun s h => by
    rw [run_tryOp]
    simp only [h]
    cases s.fs.apply op <;> simp [MonoAt, h]
  sim := fun s h hc => by
    rw [run_tryOp, run_tryOp]
    simp only [h, wf_faultAt, wf_opCount, wf_fs]
    by_cases hk : k = s.opCount
    · subst hk
      refine .inr ?_
      cases s.fs.apply op <;> simp [wf]
    · refine .inl ?_
      have : s.opCount + 1 ≤ k := by omega
      cases s.fs.apply op <;> simp [wf, hk, this]

end PatchModel.Fault
