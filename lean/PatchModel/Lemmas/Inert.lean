/-
  Lemmas/Inert — the header scan over inert lines (helper lemmas for C11).
-/
import PatchModel.Spec.Inert
namespace PatchModel.Inert
open PatchModel

/-! ### prefixes -/

theorem consumeStr_none_of_startsWith {l : Bytes} {p : String} (h : startsWith l p = false) :
    consumeStr (str p) l = none := by
  unfold startsWith at h
  unfold consumeStr
  simp [h]

/-- the first character of the line is no digit -/
def noDigitHead (l : Bytes) : Bool := !(match l with | c :: _ => isDigit c | [] => false)

theorem consumeLineNumber_noDigit (l : Bytes) (cur : Int) (h : noDigitHead l = true) :
    consumeLineNumber l cur = (false, cur, l) := by
  unfold consumeLineNumber
  cases l with
  | nil => rfl
  | cons c r =>
    have : isDigit c = false := by simpa [noDigitHead] using h
    simp [this]

/-! ### the range readers on a line that is no range -/

theorem parseUnifiedRange_none (h : Hunk) (l : Bytes) (hp : startsWith l "@@ -" = false) :
    parseUnifiedRange h l = (false, h) := by
  unfold parseUnifiedRange
  simp only [consumeStr_none_of_startsWith hp]

theorem parseNormalRange_noDigit (h : Hunk) (l : Bytes) (hd : noDigitHead l = true) :
    parseNormalRange h l = (false, h) := by
  unfold parseNormalRange
  simp only [consumeLineNumber_noDigit l _ hd]
  rfl

/-! ### what `inertLine` says -/

structure InertFacts (l : Bytes) : Prop where
  old4 : startsWith l "*** " = false
  plus4 : startsWith l "+++ " = false
  new4 : startsWith l "--- " = false
  index : startsWith l "Index: " = false
  prereq : startsWith l "Prereq: " = false
  git : startsWith l "diff --git " = false
  stars : startsWith l "***************" = false
  atat : startsWith l "@@ -" = false
  digit : noDigitHead l = true

theorem inertLine_facts {l : Bytes} (h : inertLine l = true) : InertFacts l := by
  unfold inertLine at h
  simp only [Bool.and_eq_true, Bool.not_eq_true'] at h
  obtain ⟨⟨⟨⟨⟨⟨⟨⟨h1, h2⟩, h3⟩, h4⟩, h5⟩, h6⟩, h7⟩, h8⟩, h9⟩ := h
  refine ⟨h1, h2, h3, h4, h5, h6, h7, h8, ?_⟩
  cases l <;> simp_all [noDigitHead]

theorem inertGitLine_inert {l : Bytes} (h : inertGitLine l = true) : inertLine l = true := by
  unfold inertGitLine at h
  simp only [Bool.and_eq_true] at h
  exact h.1.1.1.1.1.1.1.1.1.1

theorem parseGitExtendedInfo_inert (l : Bytes) (p : Patch) (strip : Int) (h : inertGitLine l = true) :
    parseGitExtendedInfo l p strip = .ok (false, p) := by
  unfold inertGitLine at h
  simp only [Bool.and_eq_true, Bool.not_eq_true'] at h
  obtain ⟨⟨⟨⟨⟨⟨⟨⟨⟨⟨_, h1⟩, h2⟩, h3⟩, h4⟩, h5⟩, h6⟩, h7⟩, h8⟩, h9⟩, h10⟩ := h
  unfold parseGitExtendedInfo
  simp only [consumeStr_none_of_startsWith h1, consumeStr_none_of_startsWith h2, consumeStr_none_of_startsWith h3,
    consumeStr_none_of_startsWith h4, consumeStr_none_of_startsWith h5, consumeStr_none_of_startsWith h6,
    consumeStr_none_of_startsWith h7, consumeStr_none_of_startsWith h8, consumeStr_none_of_startsWith h9,
    consumeStr_none_of_startsWith h10]

/-! ### one step of the header scan -/

/-- the state after a line that had no effect -/
def skipped (st : HState) : HState := { st with lines := st.lines + 1, thisLooks := .unknown }

/-- `headerStep` unfolded once: a line with none of the keywords, on which the git extended header reader and
    both range readers do nothing, and which is no continuation of a unified / normal range seen on the line before -/
theorem headerStep_skip (st : HState) (l : Bytes) (strip : Int) (f : InertFacts l)
    (hext : (if st.isGit then parseGitExtendedInfo l st.patch strip else .ok (false, st.patch)) = .ok (false, st.patch))
    (hU : ¬ (st.thisLooks = .unified ∧ (startsWith l "+" ∨ startsWith l "-" ∨ startsWith l " " ∨
      (l = [] ∧ (0 : Int) < st.hunk.old.count ∧ (0 : Int) < st.hunk.new.count))))
    (hN : ¬ (st.thisLooks = .normal ∧ (startsWith l "> " ∨ startsWith l "< "))) :
    headerStep st l strip = .ok (skipped st, true) := by
  have hu := parseUnifiedRange_none st.hunk l f.atat
  have hn := parseNormalRange_noDigit st.hunk l f.digit
  unfold headerStep
  simp only [consumeStr_none_of_startsWith f.old4, consumeStr_none_of_startsWith f.plus4,
    consumeStr_none_of_startsWith f.new4, consumeStr_none_of_startsWith f.index,
    consumeStr_none_of_startsWith f.prereq, consumeStr_none_of_startsWith f.git, ite_self, hext, hU, hN, hu, hn,
    f.old4, f.stars, if_false, and_false, Bool.false_eq_true]
  rfl

/-- a "looks like" marker after which no continuation line is recognised -/
def calm (f : Format) : Prop := f ≠ .unified ∧ f ≠ .normal

theorem calm_unknown : calm .unknown := by constructor <;> decide

theorem headerStep_inert (st : HState) (l : Bytes) (strip : Int) (hi : inertLine l = true) (hg : st.isGit = false)
    (hl : calm st.thisLooks) : headerStep st l strip = .ok (skipped st, true) :=
  headerStep_skip st l strip (inertLine_facts hi) (by simp [hg]) (fun h => hl.1 h.1) (fun h => hl.2 h.1)

/-- a line that is inert also inside a git section is skipped whether or not the scan is in a git section -/
theorem headerStep_inertGit (st : HState) (l : Bytes) (strip : Int) (hi : inertGitLine l = true)
    (hl : calm st.thisLooks) : headerStep st l strip = .ok (skipped st, true) :=
  headerStep_skip st l strip (inertLine_facts (inertGitLine_inert hi))
    (by rw [parseGitExtendedInfo_inert l st.patch strip hi]; simp) (fun h => hl.1 h.1) (fun h => hl.2 h.1)

/-- what an inert line has to satisfy, depending on whether the scan is inside a git section -/
def inertFor (git : Bool) (l : Bytes) : Bool := if git then inertGitLine l else inertLine l

theorem headerStep_inertFor (st : HState) (l : Bytes) (strip : Int) (hi : inertFor st.isGit l = true)
    (hl : calm st.thisLooks) : headerStep st l strip = .ok (skipped st, true) := by
  unfold inertFor at hi
  cases hg : st.isGit with
  | false => rw [hg] at hi; exact headerStep_inert st l strip (by simpa using hi) hg hl
  | true => rw [hg] at hi; exact headerStep_inertGit st l strip (by simpa using hi) hl

/-! ### reading lines -/

theorem getLine_cons (par : Parser) (l : Line) (r : List Line) (heof : par.s.eof = false) (hbad : par.s.bad = false)
    (hrest : par.s.rest = l :: r) (hterm : l.newline ≠ .none) :
    par.getLine = (some l, { s := { par.s with rest := r }, lineNo := par.lineNo + 1 }) := by
  unfold Parser.getLine PStream.getLine
  simp [heof, hbad, hrest, hterm]

theorem getLine_nil (par : Parser) (heof : par.s.eof = false) (hbad : par.s.bad = false) (hrest : par.s.rest = []) :
    par.getLine = (none, { par with s := { par.s with eof := true } }) := by
  unfold Parser.getLine PStream.getLine
  simp [heof, hbad, hrest]

/-! ### the header loop over a block of inert lines -/

/-- the scan state after `n` skipped lines, `rest` being what is left of the stream -/
def advance (st : HState) (rest : List Line) (n : Nat) (looks : Format) : HState :=
  { st with par := { s := { st.par.s with rest := rest }, lineNo := st.par.lineNo + n },
            lines := st.lines + n, thisLooks := looks }

theorem headerLoop_skip (strip : Int) (filler : List Line) (st : HState)
    (hin : ∀ l ∈ filler, inertFor st.isGit l.content = true) (hterm : ∀ l ∈ filler, l.newline ≠ .none)
    (hl : filler = [] ∨ calm st.thisLooks)
    (heof : st.par.s.eof = false) (hbad : st.par.s.bad = false)
    (rest : List Line) (hrest : st.par.s.rest = filler ++ rest) (fuel : Nat) :
    headerLoop strip (fuel + filler.length) st =
      headerLoop strip fuel (advance st rest filler.length (if filler = [] then st.thisLooks else .unknown)) := by
  induction filler generalizing st with
  | nil =>
    obtain ⟨⟨⟨r0, e0, b0⟩, n0⟩, p, tl, li, g, sb, h, lt⟩ := st
    simp only [List.nil_append] at hrest
    subst hrest
    rfl
  | cons l ls ih =>
    have hl' : calm st.thisLooks := by
      rcases hl with h | h
      · cases h
      · exact h
    have hgl := getLine_cons st.par l (ls ++ rest) heof hbad (by simpa using hrest) (hterm l List.mem_cons_self)
    have hstep := headerStep_inertFor
      { st with par := { s := { st.par.s with rest := ls ++ rest }, lineNo := st.par.lineNo + 1 } } l.content strip
      (hin l List.mem_cons_self) hl'
    rw [show fuel + (l :: ls).length = (fuel + ls.length) + 1 from by simp; omega]
    rw [headerLoop, hgl]
    simp only [hstep]
    rw [ih (skipped { st with par := { s := { st.par.s with rest := ls ++ rest }, lineNo := st.par.lineNo + 1 } })
      (fun x hx => hin x (List.mem_cons_of_mem _ hx)) (fun x hx => hterm x (List.mem_cons_of_mem _ hx))
      (Or.inr calm_unknown) heof hbad rfl]
    congr 1
    simp only [advance, skipped, List.length_cons, reduceCtorEq, if_false]
    have e1 : st.par.lineNo + 1 + ls.length = st.par.lineNo + (ls.length + 1) := by omega
    have e2 : st.lines + 1 + ls.length = st.lines + (ls.length + 1) := by omega
    rw [e1, e2]
    split <;> rfl

theorem headerLoop_exhausted (strip : Int) (fuel : Nat) (st : HState) (heof : st.par.s.eof = false)
    (hbad : st.par.s.bad = false) (hrest : st.par.s.rest = []) :
    headerLoop strip (fuel + 1) st = .ok { st with par := { st.par with s := { st.par.s with eof := true } } } := by
  rw [headerLoop, getLine_nil st.par heof hbad hrest]

/-! ### a stream of inert lines only -/

/-- the header scan over text that is inert to its end: nothing is found — no first hunk, so the format of the
    returned patch is `unknown` WHATEVER format `pt` was given with (a format forced by -u / -c / -n included);
    the rest of the patch is returned as it was given, and the parser is back at the start of the text.
    (Before the `foundFirstHunk` rule the result was `pt` itself with `format := pt.format`.) -/
theorem parseHeader_filler (strip : Int) (par : Parser) (pt : Patch)
    (hin : ∀ l ∈ par.s.rest, inertLine l.content = true) (hterm : ∀ l ∈ par.s.rest, l.newline ≠ .none)
    (heof : par.s.eof = false) (hbad : par.s.bad = false) :
    parseHeader par pt strip =
      .ok (true, { pt with format := .unknown }, { linesTillFirstHunk := 0, format := .unknown }, par) := by
  unfold parseHeader
  have h := headerLoop_skip strip par.s.rest { par := par, patch := pt } (by simpa [inertFor] using hin) hterm
    (Or.inr calm_unknown) heof hbad [] (by simp) 2
  simp only [Nat.add_comm par.s.rest.length 2]
  simp only [h]
  rw [headerLoop_exhausted strip 1 _ heof hbad rfl]
  obtain ⟨⟨r0, e0, b0⟩, n0⟩ := par
  simp only at heof hbad
  subst heof hbad
  simp [advance, skipLines, PStream.clear, PStream.seek, defaultHunk, defaultRange]

end PatchModel.Inert
