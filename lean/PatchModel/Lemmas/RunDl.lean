/-
  Lemmas/RunDl — the pieces needed to run the whole modelled program (`runPatch`) on the text of a plain (non-git) unified diff that
  REMOVES a file:

      --- f
      +++ /dev/null
      @@ -1,n +0,0 @@
      -line 1
      …
      -line n

  * header: `headerLoop_bare`, `parseHeader_bare` (two file name lines whose names `parse_file_line` reads — with or without a time
    stamp —, the range line and a first body line, outside a git section: the operation is `Header.inferredOp` of the first range,
    "delete" for `+0,0`);
  * the deleting hunk: `delHunk`, `valid_delHunk`, `splice_delHunk`, `writable_delHunk`;
  * text: `fileField`, `FieldOk`, `bareText` / `bareLines` / `splitLines_bareText` (names with or without a TAB and a time stamp
    after them); parse: `parse_bareLines`;
  * the applier on a file that is not there (any more): `locateHunk_del_empty`, `admissibleB_del_empty`, `applyPatch_del_again_N`
    (through `RunV.C06_N_full`);
  * driver: `DelSection`, `processSection_delete(_dry)` (the file is unlinked), `run_guessFilepath_gone`, `AgainSection`,
    `processSection_delete_again` (some of the patch failed or was skipped, nothing at the name: only the rejects are written).
-/
import PatchModel.Lemmas.RunG
import PatchModel.Props.C01Driver
import PatchModel.Lemmas.RunV
namespace PatchModel.RunDl
open PatchModel PatchModel.DriverFacts PatchModel.Section PatchModel.Unified PatchModel.Run PatchModel.Header
  PatchModel.Inert PatchModel.RunB PatchModel.RunG

/-! ### the header: two bare file name lines, the range line, a first body line -/

/-- the header loop over `--- ro`, `+++ rn`, a range line and a first body line, outside a git section; `ro`, `rn` whatever
    `parse_file_line` reads a name (and perhaps a time stamp) from -/
theorem headerLoop_bare (strip : Int) (st : HState) (ro rn po pn : Bytes) (to tn : Option Bytes) (h : Hunk) (first : Line)
    (more : List Line) (fuel : Nat)
    (hfo : parseFileLine ro strip = .ok (po, to)) (hfn : parseFileLine rn strip = .ok (pn, tn)) (hr : rangeOk h)
    (hb : firstLineOk h first.content) (hterm : first.newline ≠ .none)
    (hg : st.isGit = false) (hf : st.patch.format = .unknown ∨ st.patch.format = .unified)
    (hlooks : st.thisLooks ≠ .unified)
    (heof : st.par.s.eof = false) (hbad : st.par.s.bad = false)
    (hrest : st.par.s.rest = ⟨str "--- " ++ ro, .lf⟩ :: ⟨str "+++ " ++ rn, .lf⟩ :: ⟨Unified.rangeText h, .lf⟩ :: first :: more) :
    headerLoop strip (fuel + 4) st =
      .ok { st with par := { s := { st.par.s with rest := more }, lineNo := st.par.lineNo + 4 },
                    patch := { st.patch with format := .unified, oldPath := po, newPath := pn,
                                             oldTime := to.getD st.patch.newTime, newTime := tn.getD st.patch.oldTime },
                    lines := st.lines + 4, thisLooks := .unknown,
                    hunk := { st.hunk with old := h.old, new := h.new }, ltfh := st.lines + 3,
                    foundFirstHunk := true } := by
  obtain ⟨⟨⟨r0, e0, b0⟩, n0⟩, p, tl, li, g, sb, hk, lt⟩ := st
  simp only at hg hf heof hbad hrest hlooks
  subst hg heof hbad hrest
  obtain ⟨h1, h2, h3, h4, h5, h6, h7, h8⟩ := hr
  have hrng := fun h0 => Unified.unified_range_roundtrip h h0 h1 h3 h5 h7 h2 h4 h6 h8
  -- line 1
  rw [show fuel + 4 = (fuel + 3) + 1 from rfl,
    headerLoop_step strip _ _ _ ⟨_, .lf⟩ _ rfl rfl rfl (by simp) true (by
      simp only []
      rw [headerStep_minus _ _ _ (not_firstBodyLine_of_looks hlooks), hfo]
      rfl)]
  simp only [if_true]
  -- line 2
  rw [show fuel + 3 = (fuel + 2) + 1 from rfl,
    headerLoop_step strip _ _ _ ⟨_, .lf⟩ _ rfl rfl rfl (by simp) true (by
      simp only []
      rw [headerStep_plus _ _ _ (not_firstBodyLine_of_looks (by simp)), hfn]
      rfl)]
  simp only [if_true]
  -- line 3
  rw [show fuel + 2 = (fuel + 1) + 1 from rfl,
    headerLoop_step strip _ _ _ ⟨_, .lf⟩ _ rfl rfl rfl (by simp) true
      (headerStep_range _ _ strip (noKeyword_rangeText h) rfl hf _
        (fun hh => not_bodyStart_rangeText h hh.2) (hrng _))]
  simp only [if_true]
  -- line 4
  rw [headerLoop_step strip _ _ _ first _ rfl rfl rfl hterm false
      (by exact headerStep_firstBody _ _ strip ⟨hf, rfl, hb⟩)]
  simp only [Bool.false_eq_true, if_false]
  cases to <;> cases tn <;> rfl

/-- **the header of a plain unified diff whose names end their lines (or carry a time stamp) is read back**: the operation is
    inferred from the first range — `+0,0` says that the file is removed -/
theorem parseHeader_bare (strip : Int) (par : Parser) (pt : Patch) (ro rn po pn : Bytes) (to tn : Option Bytes) (h : Hunk)
    (first : Line) (more : List Line)
    (hfo : parseFileLine ro strip = .ok (po, to)) (hfn : parseFileLine rn strip = .ok (pn, tn)) (hr : rangeOk h)
    (hb : firstLineOk h first.content) (hterm : first.newline ≠ .none)
    (hf : pt.format = .unknown ∨ pt.format = .unified) (hop : pt.operation = .change)
    (heof : par.s.eof = false) (hbad : par.s.bad = false)
    (hrest : par.s.rest = ⟨str "--- " ++ ro, .lf⟩ :: ⟨str "+++ " ++ rn, .lf⟩ :: ⟨Unified.rangeText h, .lf⟩ :: first :: more) :
    parseHeader par pt strip =
      .ok (true,
           { pt with format := .unified, operation := inferredOp h, oldPath := po, newPath := pn,
                     oldTime := to.getD pt.newTime, newTime := tn.getD pt.oldTime },
           { linesTillFirstHunk := 3, format := .unified },
           { s := { rest := ⟨Unified.rangeText h, .lf⟩ :: first :: more, eof := false, bad := false },
             lineNo := par.lineNo + 2 }) := by
  have hloop := headerLoop_bare strip { par := par, patch := pt } ro rn po pn to tn h first more (more.length + 2)
    hfo hfn hr hb hterm rfl hf (by simp) heof hbad hrest
  have hlen : par.s.rest.length + 2 = (more.length + 2) + 4 := by
    rw [hrest]; simp only [List.length_cons]
  unfold parseHeader
  rw [hlen, hloop]
  simp only [PStream.clear, PStream.seek, Bool.false_eq_true, if_false, hop, if_true, Bool.not_true, Bool.not_false, true_or,
    and_true]
  have hsk := skipLines_terminated
    [⟨str "--- " ++ ro, .lf⟩, (⟨str "+++ " ++ rn, .lf⟩ : Line)]
    (⟨Unified.rangeText h, .lf⟩ :: first :: more) { s := { rest := par.s.rest }, lineNo := par.lineNo } rfl rfl
    (by rw [hrest]; rfl)
    (by intro l hl; simp only [List.mem_cons, List.not_mem_nil, or_false] at hl; rcases hl with rfl | rfl <;> simp)
  have e : 0 + 3 - 1 = [(⟨str "--- " ++ ro, .lf⟩ : Line), ⟨str "+++ " ++ rn, .lf⟩].length := rfl
  rw [e, hsk]
  simp only [List.length_cons, List.length_nil, inferredOp]
  split
  · rfl
  · split <;> rfl

/-! ### the hunk that removes all lines of a file -/

/-- `@@ -1,n +0,0 @@` followed by every line of the file with `-` in front -/
def delHunk (old : List Line) : Hunk := ⟨⟨1, old.length⟩, ⟨0, 0⟩, old.map fun l => ⟨MINUS, l⟩⟩

theorem oldOf_minus (old : List Line) : oldOf (old.map fun l => (⟨MINUS, l⟩ : PatchLine)) = old := by
  have h : (MINUS != PLUS) = true := by decide
  induction old with
  | nil => rfl
  | cons l ls ih =>
    unfold oldOf at ih ⊢
    simp only [List.map_cons, List.filter_cons, h, if_true, ih]

theorem newOf_minus (old : List Line) : newOf (old.map fun l => (⟨MINUS, l⟩ : PatchLine)) = [] := by
  have h : (MINUS != MINUS) = false := by decide
  induction old with
  | nil => rfl
  | cons l ls ih =>
    unfold newOf at ih ⊢
    simp only [List.map_cons, List.filter_cons, h, Bool.false_eq_true, if_false, ih]

theorem delHunk_wf (old : List Line) : (delHunk old).WF := by
  refine ⟨?_, ?_, ?_⟩
  · intro pl hpl
    obtain ⟨l, _, rfl⟩ := List.mem_map.1 hpl
    exact Or.inr (Or.inr rfl)
  · show (old.length : Int) = _
    rw [show (delHunk old).lines = old.map fun l => (⟨MINUS, l⟩ : PatchLine) from rfl, oldOf_minus]
  · show (0 : Int) = _
    rw [show (delHunk old).lines = old.map fun l => (⟨MINUS, l⟩ : PatchLine) from rfl, newOf_minus]; rfl

/-- the deleting hunk is a valid script of the file it was made from -/
theorem valid_delHunk (old : List Line) (hne : old ≠ []) : Valid old 0 0 [delHunk old] := by
  have hlen : (old.length : Int) ≠ 0 := by
    cases old with
    | nil => exact absurd rfl hne
    | cons _ _ => simp only [List.length_cons]; omega
  have hl : (delHunk old).lines = old.map fun l => (⟨MINUS, l⟩ : PatchLine) := rfl
  refine Valid.cons 0 0 (delHunk old) [] 0 (delHunk_wf old) ?_ (Nat.le_refl _) ?_ ?_ ?_ ?_ (Valid.nil _ _ ?_)
  · show expectedLine (delHunk old) - 1 = _
    unfold expectedLine
    rw [if_neg (show ¬ (delHunk old).old.count = 0 from hlen)]
    rfl
  · rw [hl, oldOf_minus]; simp
  · rw [hl, oldOf_minus]; simp
  · show (if (delHunk old).new.count = 0 then (delHunk old).new.start + 1 else (delHunk old).new.start) - 1 = _
    rw [if_pos (show (delHunk old).new.count = 0 from rfl)]; rfl
  · intro hh; exact hlen hh.1
  · rw [hl, oldOf_minus]; simp

/-- … and what it leaves of the file is nothing -/
theorem splice_delHunk (old : List Line) (hne : old ≠ []) : splice old 0 [delHunk old] = [] := by
  have hlen : (old.length : Int) ≠ 0 := by
    cases old with
    | nil => exact absurd rfl hne
    | cons _ _ => simp only [List.length_cons]; omega
  have hp : (delHunk old).pos0 = 0 := by
    show expectedLine (delHunk old) - 1 = _
    unfold expectedLine
    rw [if_neg (show ¬ (delHunk old).old.count = 0 from hlen)]
    rfl
  have hl : (delHunk old).lines = old.map fun l => (⟨MINUS, l⟩ : PatchLine) := rfl
  simp only [splice, hp, hl, oldOf_minus, newOf_minus]
  simp

theorem noNlOnlyLast_minus (old : List Line) (h : ∀ l ∈ old, l.newline ≠ .none) :
    noNlOnlyLast (old.map fun l => (⟨MINUS, l⟩ : PatchLine)) = true := by
  induction old with
  | nil => rfl
  | cons l ls ih =>
    simp only [List.map_cons, noNlOnlyLast, if_neg (h l List.mem_cons_self), Bool.true_and]
    exact ih (fun x hx => h x (List.mem_cons_of_mem _ hx))

/-- the deleting hunk of a file of plain, terminated lines (not absurdly many) can be written to a diff and read back -/
theorem writable_delHunk (old : List Line) (hne : old ≠ []) (hplain : ∀ l ∈ old, plainLine l = true)
    (hterm : ∀ l ∈ old, l.newline ≠ .none) (hlen : (old.length : Int) + 1 ≤ i64Max / 4) :
    (delHunk old).writable = true := by
  have hwf := delHunk_wf old
  have hl : (delHunk old).lines = old.map fun l => (⟨MINUS, l⟩ : PatchLine) := rfl
  unfold Hunk.writable Hunk.wfB
  simp only [Bool.and_eq_true, List.all_eq_true, Bool.or_eq_true, beq_iff_eq, decide_eq_true_eq,
    Bool.not_eq_true', List.isEmpty_eq_false_iff]
  refine ⟨⟨⟨⟨⟨⟨⟨⟨⟨?_, hwf.2.1⟩, hwf.2.2⟩, ?_⟩, ?_⟩, ?_⟩, ?_⟩, ?_⟩, ?_⟩, ?_⟩
  · intro pl hpl
    rcases hwf.1 pl hpl with h | h | h
    · exact Or.inl (Or.inl h)
    · exact Or.inl (Or.inr h)
    · exact Or.inr h
  · rw [hl]; simpa using hne
  · intro pl hpl
    rw [hl] at hpl
    obtain ⟨l, hlm, rfl⟩ := List.mem_map.1 hpl
    exact hplain l hlm
  · rw [hl]; exact noNlOnlyLast_minus old hterm
  · show (0 : Int) ≤ 1; omega
  · show (0 : Int) ≤ 0; omega
  · show (1 : Int) + (old.length : Int) ≤ _; omega
  · show (0 : Int) + 0 ≤ i64Max / 4; omega

/-! ### the text of a plain unified diff: names with or without a time stamp -/

/-- what follows the keyword on a file name line: the name, or the name, a TAB and a time stamp -/
def fileField (a : Bytes) : Option Bytes → Bytes
  | none => a
  | some t => a ++ TAB :: t

/-- what is asked of a name and its optional time stamp for `parse_file_line` to read them back: a name that stands alone is cut
    at its first blank; before a TAB it may have blanks; a time stamp is not empty -/
def FieldOk (a : Bytes) : Option Bytes → Prop
  | none => wordName a
  | some t => plainName a ∧ t ≠ []

theorem parseFileLine_field (a : Bytes) (ta : Option Bytes) (strip : Int) (h : FieldOk a ta) :
    parseFileLine (fileField a ta) strip = .ok (stripped a strip, ta) := by
  cases ta with
  | none => exact Names.file_line_word a strip h.1 h.2.2.2 h.2.1 h.2.2.1
  | some t =>
    have := Names.file_line_plain a t strip h.1.1 h.1.2.2 h.1.2.1
    rw [if_neg h.2] at this
    exact this

/-- `--- a[TAB ta]`, `+++ b[TAB tb]`, the hunks as `write_hunk_as_unified` writes them -/
def bareText (a b : Bytes) (ta tb : Option Bytes) (hs : List Hunk) : Bytes :=
  (str "--- " ++ fileField a ta) ++ NL :: ((str "+++ " ++ fileField b tb) ++ NL :: hs.flatMap writeHunkUnified)

/-- … and its lines -/
def bareLines (a b : Bytes) (ta tb : Option Bytes) (hs : List Hunk) : List Line :=
  ⟨str "--- " ++ fileField a ta, .lf⟩ :: ⟨str "+++ " ++ fileField b tb, .lf⟩ :: hs.flatMap hunkLines

theorem splitLines_bareText (a b : Bytes) (ta tb : Option Bytes) (hs : List Hunk)
    (ha : endField (fileField a ta)) (hb : endField (fileField b tb))
    (hw : ∀ h ∈ hs, h.writable = true) : splitLines (bareText a b ta tb hs) = bareLines a b ta tb hs := by
  have hM : NL ∉ str "--- " := by rw [str_new4]; decide
  have hP : NL ∉ str "+++ " := by rw [str_plus4]; decide
  have lM : (str "--- ").getLast? ≠ some CR := by rw [str_new4]; decide
  have lP : (str "+++ ").getLast? ≠ some CR := by rw [str_plus4]; decide
  unfold bareText bareLines
  rw [splitLines_line _ _ (by simp only [List.mem_append, not_or]; exact ⟨hM, ha.1⟩) (getLast?_append_ne lM ha.2),
    splitLines_line _ _ (by simp only [List.mem_append, not_or]; exact ⟨hP, hb.1⟩) (getLast?_append_ne lP hb.2),
    splitLines_hunks hs (fun h hh => (writable_spec h (hw h hh)).1) (fun h hh => (writable_spec h (hw h hh)).2.2.2.2.1)]

/-- a name with a time stamp after it ends its line like the time stamp does -/
theorem endField_stamped {a t : Bytes} (ha : NL ∉ a) (hne : t ≠ []) (ht : NL ∉ t) (hcr : t.getLast? ≠ some CR) :
    endField (fileField a (some t)) := by
  refine ⟨?_, ?_⟩
  · show NL ∉ a ++ TAB :: t
    simp only [List.mem_append, List.mem_cons, not_or]
    exact ⟨ha, by decide, ht⟩
  · show (a ++ TAB :: t).getLast? ≠ some CR
    rw [List.getLast?_append]
    cases t with
    | nil => exact absurd rfl hne
    | cons c r =>
      rw [List.getLast?_cons_cons]
      cases h : (c :: r).getLast? with
      | none => simp at h
      | some d => rw [h] at hcr; simpa using hcr

/-- the operation the header scan infers from the first range of the script -/
def firstOp : List Hunk → Operation
  | h :: _ => inferredOp h
  | [] => .change

/-- header scan + body parse of a whole plain unified diff: the patch the scan hands back is known field by field, the body
    parser gives the hunks back and leaves the stream at its end -/
theorem parse_bareLines (strip : Int) (fmt : Format) (hfmt : fmt = .unknown ∨ fmt = .unified)
    (a b : Bytes) (ta tb : Option Bytes) (hs : List Hunk) (lineNo : Nat)
    (ha : FieldOk a ta) (hb : FieldOk b tb) (hne : hs ≠ []) (hw : ∀ h ∈ hs, h.writable = true) :
    ∃ info par1 par2,
      parseHeader { s := { rest := bareLines a b ta tb hs }, lineNo := lineNo } { format := fmt } strip
        = .ok (true, { format := .unified, operation := firstOp hs, oldPath := stripped a strip, newPath := stripped b strip,
                       oldTime := ta.getD [], newTime := tb.getD [] },
               info, par1) ∧
      parseBody par1 { format := .unified, operation := firstOp hs, oldPath := stripped a strip, newPath := stripped b strip,
                       oldTime := ta.getD [], newTime := tb.getD [] }
        = .ok ({ format := .unified, operation := firstOp hs, oldPath := stripped a strip, newPath := stripped b strip,
                 oldTime := ta.getD [], newTime := tb.getD [], hunks := hs }, par2) ∧
      par2.s.eof = true := by
  cases hs with
  | nil => exact absurd rfl hne
  | cons h hs' =>
    have hwh := hw h List.mem_cons_self
    obtain ⟨pl, more, -, hop, hlines⟩ := flatMap_hunkLines_first h hs' hwh
    have hbs : Header.bodyStart (pl.op :: pl.line.content) := by
      rcases hop with e | e | e
      · exact Or.inr (Or.inr ((Header.startsWith_one _ _ _ Header.str_sp).2 (by rw [e]; rfl)))
      · exact Or.inl ((Header.startsWith_one _ _ _ Header.str_plus).2 (by rw [e]; rfl))
      · exact Or.inr (Or.inl ((Header.startsWith_one _ _ _ Header.str_minus).2 (by rw [e]; rfl)))
    have hp := parseHeader_bare strip
      { s := { rest := bareLines a b ta tb (h :: hs') }, lineNo := lineNo } { format := fmt } (fileField a ta) (fileField b tb)
      _ _ _ _ h ⟨pl.op :: pl.line.content, wireNl pl.line⟩ more
      (parseFileLine_field a ta strip ha) (parseFileLine_field b tb strip hb)
      (rangeOk_of_writable h hwh) (Or.inl hbs) (wireNl_ne_none _) hfmt rfl rfl rfl (by simp only [bareLines]; rw [hlines])
    obtain ⟨par2, hbody, _, heof, _⟩ := unified_roundtrip_eof (h :: hs') hne hw (lineNo + 2)
    rw [hlines] at hbody
    refine ⟨_, _, par2, hp, ?_, heof⟩
    simp only [parseBody]
    rw [hbody]
    rfl

/-! ### the applier when the file is not there (any more): the deleting hunk is not found, its reversal is -/

theorem delHunk_lines (old : List Line) : (delHunk old).lines = old.map fun l => (⟨MINUS, l⟩ : PatchLine) := rfl

theorem delHunk_count_ne (old : List Line) (hne : old ≠ []) : (delHunk old).old.count ≠ 0 := by
  show (old.length : Int) ≠ 0
  cases old with
  | nil => exact absurd rfl hne
  | cons _ _ => simp only [List.length_cons]; omega

theorem prefixCtx_minus (old : List Line) : prefixCtx (old.map fun l => (⟨MINUS, l⟩ : PatchLine)) = 0 := by
  cases old with
  | nil => rfl
  | cons l ls => simp [prefixCtx, show (MINUS == SP) = false by decide]

theorem suffixCtx_minus (old : List Line) : suffixCtx (old.map fun l => (⟨MINUS, l⟩ : PatchLine)) = 0 := by
  unfold suffixCtx
  rw [← List.map_reverse]
  exact prefixCtx_minus _

theorem hunkMatchesAt_del_empty (old : List Line) (hne : old ≠ []) (iw : Bool) (line : Nat) :
    hunkMatchesAt [] (delHunk old) iw 0 0 line = false := by
  have : 0 < old.length := List.length_pos_iff.2 hne
  unfold hunkMatchesAt
  rw [if_pos]
  rw [oldLineCount_eq, delHunk_lines, oldOf_minus]
  simp only [List.length_nil]; omega

/-- the hunk that removes the lines of the file is not found in a file without lines -/
theorem locateHunk_del_empty (old : List Line) (hne : old ≠ []) (iw : Bool) (mf : Int) :
    locateHunk [] (delHunk old) iw 0 mf 0 = none := by
  unfold locateHunk
  simp only [if_neg (delHunk_count_ne old hne), delHunk_lines, prefixCtx_minus, suffixCtx_minus]
  show locateLoop [] (delHunk old) iw _ 0 _ 0 0 (0 + 1) 0 = none
  unfold locateLoop
  split
  · rfl
  · simp only []
    split
    · rfl
    · rw [List.find?_eq_none.2 (fun x _ => by
        rw [show (0 + 0 - max 0 0 : Nat) = 0 from rfl, hunkMatchesAt_del_empty old hne]; simp)]
      rfl

/-- … nor is it admissible at its stated line -/
theorem admissibleB_del_empty (old : List Line) (hne : old ≠ []) (iw : Bool) (mf : Int) (p : Nat) :
    admissibleB [] (delHunk old) iw mf p 0 = false := by
  have : 0 < old.length := List.length_pos_iff.2 hne
  unfold admissibleB fuzzPair
  simp only [delHunk_lines, prefixCtx_minus, suffixCtx_minus, oldOf_minus]
  have : decide (p + old.length ≤ ([] : List Line).length + (0 + 0 - max 0 0)) = false := by
    simp only [List.length_nil]; apply decide_eq_false; omega
  simp only [this, Bool.and_false, Bool.false_and]

/-- the two facts about the script `[delHunk old]` that `RunV.C06_N_full` asks for -/
theorem del_firstHunkNoLongerFits (old : List Line) (hne : old ≠ []) (o : ApplyOpts) :
    C06.FirstHunkNoLongerFits [] (delHunk old) o :=
  Or.inl ⟨delHunk_count_ne old hne, admissibleB_del_empty old hne _ _ _, Or.inr (locateHunk_del_empty old hne _ _)⟩

theorem del_noReversedD2 (old : List Line) (hne : old ≠ []) : C06.NoReversedD2 old [delHunk old] := by
  intro h _ hh
  exact hh.2.2 (splice_delHunk old hne)

/-- **the removal run again with `-N` on a file without lines** (the file is gone: it is read as empty): the hunk is not found, its
    reversal — the insertion of all the lines into an empty file — fits exactly: "reversed (or previously applied) patch detected",
    `-N` skips; the output is empty, the hunk goes to the rejects after the header -/
theorem applyPatch_del_again_N (old : List Line) (hne : old ≠ []) (p0 : Patch) (o : ApplyOpts) (tty : Option (List Bool))
    (hp : p0.hunks = [delHunk old]) (hN : o.ignoreReversed = true) (hf : o.force = false) (hR : o.reverse = false)
    (hF : 0 ≤ o.maxFuzz) (hq : o.verbose = false) (hu : rejectAsUnified o.rejectFormat p0.format = true) :
    ∃ r, applyPatch [] p0 o tty = .ok r ∧ r.out = [] ∧ r.skipped = true ∧ r.failed = 1 ∧
      r.rejBytes = writeHeaderUnified p0 ++ writeHunkUnified (delHunk old) ∧
      r.msgs = [Msg.reversedDetected false, Msg.skippingPatch] ∧ r.tty = tty ∧ r.patch = p0 := by
  have hs := splice_delHunk old hne
  obtain ⟨r, hap, hout, hskip, _, hfail, hrb, _, _, hmsgs, htty, hpatch⟩ :=
    RunV.C06_N_full old (delHunk old) [] p0 o tty (valid_delHunk old hne) (del_noReversedD2 old hne) hp
      (by rw [hs]; exact del_firstHunkNoLongerFits old hne o) hN hf hR hF hu
  rw [hs] at hap hout
  refine ⟨r, hap, List.map_eq_nil_iff.1 hout, hskip, hfail, ?_, hmsgs hq, htty, hpatch⟩
  rw [hrb]; simp

/-! ### one section that removes its file

`DelSection` = `Section.PlainSection` for the operation "delete" with an EMPTY result under `-E` (`o.removeEmptyFiles = .yes`, what
`apply_defaults` makes of an option left alone outside POSIX mode); the file to patch is the operand, or the old name of the header
(`target`).  `processSection_delete`: the target is unlinked (its name has no directory part: nothing else is removed), nothing is
written. -/

structure DelSection (o : Options) (fmt : Format) (s : DState) (p bytes : Bytes) (m : Nat)
    (patch0 patch2 : Patch) (info : HeaderInfo) (par1 par2 : Parser) (r : ApplyResult) : Prop where
  target : o.fileToPatch = p ∨ (o.fileToPatch = [] ∧ patch0.oldPath = p ∧ p ≠ devNull)
  noOut : o.outFile = []
  noBackup : o.saveBackup = false
  removeEmpty : o.removeEmptyFiles = .yes
  pathNe : p ≠ []
  flat : dirPrefixes p = []
  cwd : s.cwd = []
  hdr : parseHeader s.par { format := fmt } o.strip = .ok (true, patch0, info, par1)
  fmt : patch0.format = .unified ∨ patch0.format = .context ∨ patch0.format = .normal
  op : patch0.operation = .delete
  pre : patch0.prerequisite = []
  body : parseBody par1 patch0 = .ok (patch2, par2)
  fmt2 : patch2.format = patch0.format
  op2 : patch2.operation = .delete
  file : s.fs.lookup p = some (.file bytes m)
  writable : m &&& writeMask ≠ 0
  root : s.fs.isRoot = true
  noFault : s.faultAt = none
  apply : applyPatch (splitLines bytes) patch2 (applyOptsOf o)
      (Option.map (fun l => List.map (fun a => !List.isEmpty a && List.head? a != some 110) l) s.tty) = .ok r
  failed : r.failed = 0
  perfect : r.perfect = true
  skipped : r.skipped = false
  msgs : r.msgs = []
  ttyLeft : r.tty = Option.map (fun l => List.map (fun a => !List.isEmpty a && List.head? a != some 110) l) s.tty
  patch : r.patch = patch2
  /-- nothing is left of the file -/
  empty : (render o.newlineOutput r.out).isEmpty = true

section
variable {o : Options} {fmt : Format} {s : DState} {p bytes : Bytes} {m : Nat}
  {patch0 patch2 : Patch} {info : HeaderInfo} {par1 par2 : Parser} {r : ApplyResult}

/-- `Section.section_run` for a "delete" section with an empty result -/
syntax "del_run " "[" Lean.Parser.Tactic.simpLemma,* "]" : tactic
set_option hygiene false in
macro_rules | `(tactic| del_run [$ls,*]) => `(tactic| (
  have hfu : (patch0.format == Format.unknown) = false := by
    rcases H.fmt with h | h | h <;> rw [h] <;> rfl
  have hfg : (patch2.format == Format.git) = false := by
    rw [H.fmt2]; rcases H.fmt with h | h | h <;> rw [h] <;> rfl
  have hob : (patch0.operation == Operation.binary) = false := by rw [H.op]; rfl
  have hor : (patch0.operation == Operation.rename) = false := by rw [H.op]; rfl
  have hoc : (patch0.operation == Operation.copy) = false := by rw [H.op]; rfl
  have hod : (patch0.operation == Operation.delete) = true := by rw [H.op]; rfl
  have hoa2 : (patch2.operation == Operation.add) = false := by rw [H.op2]; rfl
  have hor2 : (patch2.operation == Operation.rename) = false := by rw [H.op2]; rfl
  have hoc2 : (patch2.operation == Operation.copy) = false := by rw [H.op2]; rfl
  have hod2 : (patch2.operation == Operation.delete) = true := by rw [H.op2]; rfl
  have hE : (o.removeEmptyFiles == OptionalBool.yes) = true := by rw [H.removeEmpty]; rfl
  have hpe : List.isEmpty p = false := by
    cases p with
    | nil => exact absurd rfl H.pathNe
    | cons _ _ => rfl
  have hout : outputPath o patch0 p = p := by
    unfold outputPath; simp [H.noOut, hor, hoc]
  have hdash : (o.outFile == [45]) = false := by rw [H.noOut]; rfl
  have hguess : ∀ s' : DState, patch0.oldPath = p → p ≠ devNull → s'.cwd = [] → s'.fs.lookup p = some (.file bytes m) →
      (guessFilepath patch0 o.reverse).run s' = (.ok p, s') := by
    intro s' h0 hnn h1 h2
    have := run_guessFilepath_old patch0 o.reverse (s := s') (b := bytes) (m := m) h1 (by rw [hor, hoc]; simp)
      (by rw [h0]; exact hnn) (by rw [h0]; exact h2)
    rw [h0] at this
    exact this
  unfold processSection
  simp only [↓run_bind, ↓run_get, ↓run_liftE, ↓run_modify, ↓run_pure, ↓run_emit,
    H.hdr, hfu, hob, hpe, hout, hor, hdash,
    Bool.false_eq_true, ↓reduceIte, Bool.false_and, Bool.and_false, Bool.not_true, Bool.not_false,
    Bool.or_false, Bool.false_or, Bool.and_true, Bool.true_and, Bool.or_true, Bool.true_or,
    run_createTemp, H.noFault, H.cwd,
    run_fsExists_file (b := bytes) (m := m), run_fsIsRegular_file (b := bytes) (m := m),
    run_fsIsSymlink_file (b := bytes) (m := m), H.file,
    (fun s' => @run_fixPermissions_writable o s' p bytes m), H.writable, ne_eq, not_false_eq_true,
    absPath_nil, readFile_root (b := bytes) (m := m), H.root,
    H.pre, List.isEmpty_nil,
    run_parseBodyM_true (pt' := patch2) (par' := par2), H.body,
    H.apply, H.msgs, H.failed, H.perfect, H.skipped, H.patch, H.noBackup, hoa2, hor2, hoc2, hod2, hE, H.empty,
    bne_self_eq_false, beq_self_eq_true, H.ttyLeft, hfg, $ls,*]))

/-- **a section that removes its file, real run**: the target is unlinked — nothing else happens to the tree, nothing is
    written, no failure is recorded -/
theorem processSection_delete (H : DelSection o fmt s p bytes m patch0 patch2 info par1 par2 r) (hreal : o.dryRun = false) :
    ∃ s', (processSection o fmt).run s = (.ok true, s') ∧
      s'.fs = s.fs.erase p ∧
      s'.trace = s.trace ++ [.tmpCreate, .tmpUnlink] ++ [.tmpCreate, .tmpUnlink] ++ [.unlink p] ∧
      s'.rejWritten = s.rejWritten ∧
      SectionDone s s' p par2 false := by
  rcases H.target with ht | ⟨hno, h0, hnn⟩
  · del_run [ht, hreal, (fun s' => @run_removeFile_flat s' p bytes m H.flat)]
    refine ⟨_, rfl, rfl, rfl, rfl, ⟨rfl, rfl, rfl, rfl, ?_, ?_, H.cwd.symm, H.noFault.symm, rfl, rfl, rfl, rfl, rfl⟩⟩
    · generalize s.tty = t
      cases t <;> simp
    · simp
  · del_run [hno, hguess, h0, hnn, hreal, (fun s' => @run_removeFile_flat s' p bytes m H.flat)]
    refine ⟨_, rfl, rfl, rfl, rfl, ⟨rfl, rfl, rfl, rfl, ?_, ?_, H.cwd.symm, H.noFault.symm, rfl, rfl, rfl, rfl, rfl⟩⟩
    · generalize s.tty = t
      cases t <;> simp
    · simp

/-- the same under --dry-run: the tree is untouched -/
theorem processSection_delete_dry (H : DelSection o fmt s p bytes m patch0 patch2 info par1 par2 r) (hdry : o.dryRun = true) :
    ∃ s', (processSection o fmt).run s = (.ok true, s') ∧
      s'.fs = s.fs ∧
      s'.trace = s.trace ++ [.tmpCreate, .tmpUnlink] ++ [.tmpCreate, .tmpUnlink] ∧
      SectionDone s s' p par2 true := by
  rcases H.target with ht | ⟨hno, h0, hnn⟩
  · del_run [ht, hdry]
    refine ⟨_, rfl, rfl, rfl, ⟨rfl, rfl, rfl, rfl, ?_, ?_, H.cwd.symm, H.noFault.symm, rfl, rfl, rfl, rfl, rfl⟩⟩
    · generalize s.tty = t
      cases t <;> simp
    · simp
  · del_run [hno, hguess, h0, hnn, hdry]
    refine ⟨_, rfl, rfl, rfl, ⟨rfl, rfl, rfl, rfl, ?_, ?_, H.cwd.symm, H.noFault.symm, rfl, rfl, rfl, rfl, rfl⟩⟩
    · generalize s.tty = t
      cases t <;> simp
    · simp

end

/-! ### one section that would remove a file which is not there (any more)

The file to patch is named by the operand, or by the old name of the header although nothing is there (`guess_filepath` falls back
to the old name for a removal); it is read as empty.  If some of the patch fails (it does: its hunk removes lines) — for `-N`
because the patch is recognised as applied and skipped — the rejects are written and NOTHING else: in the removal block the patch
was not applied and there is no file, so no empty file appears under the name. -/

theorem stat_absent {fs : Fs} {p : Bytes} (h : fs.lookup p = none) : fs.stat p = none := by
  unfold Fs.stat; rw [h]

theorem readFile_absent {fs : Fs} {p : Bytes} (h : fs.lookup p = none) : fs.readFile p = .error .enoent := by
  unfold Fs.readFile; rw [stat_absent h]

/-- `guess_filepath` for a removal whose file is gone: the old name of the header (the new one is `/dev/null`, no `Index:` line) -/
theorem run_guessFilepath_gone (pt : Patch) (r : Bool) {s : DState} (hcwd : s.cwd = []) (hop : pt.operation = .delete)
    (hne : pt.oldPath ≠ []) (hnn : pt.oldPath ≠ devNull) (hnew : pt.newPath = devNull) (hidx : pt.indexPath = [])
    (hold : s.fs.lookup pt.oldPath = none) (hnil : s.fs.lookup [] = none) :
    (guessFilepath pt r).run s = (.ok pt.oldPath, s) := by
  have hr : (pt.operation == Operation.rename) = false := by rw [hop]; rfl
  have hc : (pt.operation == Operation.copy) = false := by rw [hop]; rfl
  have ha : (pt.operation == Operation.add) = false := by rw [hop]; rfl
  have hd : (pt.operation == Operation.delete) = true := by rw [hop]; rfl
  have h1 : (pt.oldPath != devNull) = true := by simpa using hnn
  have h3 : (([] : Bytes) != devNull) = true := by
    have := devNull_ne_nil
    simpa using this.symm
  unfold guessFilepath
  simp only [run_bind, run_fsExists, run_pure, hr, hc, ha, hd, hnew, hidx, absPath_nil hcwd, stat_absent hold,
    stat_absent hnil, Bool.or_self, Bool.and_false, Bool.false_and, Bool.false_eq_true, ↓reduceIte, bne_self_eq_false,
    Option.isSome_none, h1, h3, Bool.true_and, firstNameOf_cons_of_name hne hnn]

structure AgainSection (o : Options) (fmt : Format) (s : DState) (p : Bytes)
    (patch0 patch2 : Patch) (info : HeaderInfo) (par1 par2 : Parser) (r : ApplyResult) : Prop where
  target : o.fileToPatch = p ∨
    (o.fileToPatch = [] ∧ patch0.oldPath = p ∧ p ≠ devNull ∧ patch0.newPath = devNull ∧ patch0.indexPath = [] ∧
      s.fs.lookup [] = none)
  noOut : o.outFile = []
  removeEmpty : o.removeEmptyFiles = .yes
  pathNe : p ≠ []
  cwd : s.cwd = []
  hdr : parseHeader s.par { format := fmt } o.strip = .ok (true, patch0, info, par1)
  fmt : patch0.format = .unified ∨ patch0.format = .context ∨ patch0.format = .normal
  op : patch0.operation = .delete
  pre : patch0.prerequisite = []
  body : parseBody par1 patch0 = .ok (patch2, par2)
  fmt2 : patch2.format = patch0.format
  op2 : patch2.operation = .delete
  absent : s.fs.lookup p = none
  noFault : s.faultAt = none
  apply : applyPatch (splitLines []) patch2 (applyOptsOf o)
      (Option.map (fun l => List.map (fun a => !List.isEmpty a && List.head? a != some 110) l) s.tty) = .ok r
  ttyLeft : r.tty = Option.map (fun l => List.map (fun a => !List.isEmpty a && List.head? a != some 110) l) s.tty
  patch : r.patch = patch2
  empty : (render o.newlineOutput r.out).isEmpty = true

section
variable {o : Options} {fmt : Format} {s : DState} {p : Bytes}
  {patch0 patch2 : Patch} {info : HeaderInfo} {par1 par2 : Parser} {r : ApplyResult}

syntax "again_run " "[" Lean.Parser.Tactic.simpLemma,* "]" : tactic
set_option hygiene false in
macro_rules | `(tactic| again_run [$ls,*]) => `(tactic| (
  have hfu : (patch0.format == Format.unknown) = false := by
    rcases H.fmt with h | h | h <;> rw [h] <;> rfl
  have hfg : (patch2.format == Format.git) = false := by
    rw [H.fmt2]; rcases H.fmt with h | h | h <;> rw [h] <;> rfl
  have hob : (patch0.operation == Operation.binary) = false := by rw [H.op]; rfl
  have hor : (patch0.operation == Operation.rename) = false := by rw [H.op]; rfl
  have hoc : (patch0.operation == Operation.copy) = false := by rw [H.op]; rfl
  have hoa : (patch0.operation == Operation.add) = false := by rw [H.op]; rfl
  have hod : (patch0.operation == Operation.delete) = true := by rw [H.op]; rfl
  have hoa2 : (patch2.operation == Operation.add) = false := by rw [H.op2]; rfl
  have hor2 : (patch2.operation == Operation.rename) = false := by rw [H.op2]; rfl
  have hoc2 : (patch2.operation == Operation.copy) = false := by rw [H.op2]; rfl
  have hod2 : (patch2.operation == Operation.delete) = true := by rw [H.op2]; rfl
  have hE : (o.removeEmptyFiles == OptionalBool.yes) = true := by rw [H.removeEmpty]; rfl
  have hpe : List.isEmpty p = false := by
    cases p with
    | nil => exact absurd rfl H.pathNe
    | cons _ _ => rfl
  have hout : outputPath o patch0 p = p := by
    unfold outputPath; simp [H.noOut, hor, hoc]
  have hdash : (o.outFile == [45]) = false := by rw [H.noOut]; rfl
  have hguess : ∀ s' : DState, patch0.oldPath = p → p ≠ devNull → patch0.newPath = devNull → patch0.indexPath = [] →
      s'.cwd = [] → s'.fs.lookup p = none → s'.fs.lookup [] = none →
      (guessFilepath patch0 o.reverse).run s' = (.ok p, s') := by
    intro s' h0 hnn hnw hix h1 h2 h3
    have := run_guessFilepath_gone patch0 o.reverse (s := s') h1 H.op (by rw [h0]; exact H.pathNe) (by rw [h0]; exact hnn)
      hnw hix (by rw [h0]; exact h2) h3
    rw [h0] at this
    exact this
  unfold processSection
  simp only [↓run_bind, ↓run_get, ↓run_liftE, ↓run_modify, ↓run_pure, ↓run_emit,
    H.hdr, hfu, hob, hpe, hout, hor, hdash,
    Bool.false_eq_true, ↓reduceIte, Bool.false_and, Bool.and_false, Bool.not_true, Bool.not_false,
    Bool.or_false, Bool.false_or, Bool.and_true, Bool.true_and, Bool.or_true, Bool.true_or,
    run_createTemp, H.noFault, H.cwd,
    run_fsExists_absent, run_fsIsRegular_absent, run_fsIsSymlink_absent, H.absent,
    (fun s' => @run_fixPermissions_absent o s' p), ne_eq, not_false_eq_true,
    absPath_nil, readFile_absent, Option.isNone_none,
    H.pre, List.isEmpty_nil, hoa, hod,
    run_parseBodyM_true (pt' := patch2) (par' := par2), H.body,
    H.apply, H.patch, hoa2, hor2, hoc2, hod2, hE, H.empty,
    bne_self_eq_false, beq_self_eq_true, H.ttyLeft, hfg, $ls,*]))

/-- **a removal of a file which is not there, some of it failing (skipped by `-N`, or its hunk rejected), real run**: the failure
    flag is set, the rejects are written to `p.rej`, a new file — and that is all: no node appears at `p` -/
theorem processSection_delete_again (H : AgainSection o fmt s p patch0 patch2 info par1 par2 r)
    (hfail : r.failed ≠ 0) (hrf : o.rejectFile = []) (hreal : o.dryRun = false)
    (hnot : s.rejWritten.contains (p ++ str ".rej") = false) (hfree : s.fs.lookup (p ++ str ".rej") = none)
    (hdirs : DirsThere s.fs (p ++ str ".rej")) (hrdir : s.fs.dirExists (parentOf (p ++ str ".rej")) = true) :
    ∃ s', (processSection o fmt).run s = (.ok true, s') ∧
      s'.fs = s.fs.set (p ++ str ".rej") (.file r.rejBytes (0o666 - (0o666 &&& s.fs.umask))) ∧
      s'.trace = s.trace ++ [.tmpCreate, .tmpUnlink] ++ [.tmpCreate, .tmpUnlink] ++ writeOps (p ++ str ".rej") r.rejBytes ∧
      s'.backedUp = s.backedUp ∧ s'.rejWritten = s.rejWritten ++ [p ++ str ".rej"] ∧
      s'.hadFailure = true ∧
      s'.out = s.out ++ [.file p false] ++ r.msgs.map DEv.msg ++
        [.failed r.failed patch2.hunks.length r.skipped (some (p ++ str ".rej"))] ∧
      SectionEnd s s' p par2 := by
  have hfb : (r.failed != 0) = true := by simpa using hfail
  have hfe : (r.failed == 0) = false := by simpa using hfail
  have hrne : p ++ str ".rej" ≠ [] := by rw [str_rej]; simp
  have hpr : p ≠ p ++ str ".rej" := by
    intro e
    have := congrArg List.length e
    rw [str_rej] at this; simp at this
  have hlk : ∀ n, (s.fs.set (p ++ str ".rej") n).lookup p = none := by
    intro n; rw [Fs.lookup_set_ne _ _ _ _ hpr]; exact H.absent
  rcases H.target with ht | ⟨hno, h0, hnn, hnw, hix, hnil⟩
  · again_run [ht, hfb, hfe, hreal, ↓run_failNow, rejectPath_default o p hrf,
      (fun s' => @run_ensureParentDirs_there s' (p ++ str ".rej") hrne), hdirs,
      (fun s' b => @run_writeRejects_new o s' (p ++ str ".rej") b), hnot, hfree, hrdir, hlk]
    refine ⟨_, rfl, rfl, ?_, rfl, rfl, rfl, ?_, ⟨rfl, rfl, rfl, ?_, H.cwd.symm, H.noFault.symm, rfl, rfl, rfl, rfl⟩⟩
    · simp [List.append_assoc]
    · simp [List.append_assoc]
    · generalize s.tty = t
      cases t <;> simp
  · again_run [hno, hguess, h0, hnn, hnw, hix, hnil, hfb, hfe, hreal, ↓run_failNow, rejectPath_default o p hrf,
      (fun s' => @run_ensureParentDirs_there s' (p ++ str ".rej") hrne), hdirs,
      (fun s' b => @run_writeRejects_new o s' (p ++ str ".rej") b), hnot, hfree, hrdir, hlk]
    refine ⟨_, rfl, rfl, ?_, rfl, rfl, rfl, ?_, ⟨rfl, rfl, rfl, ?_, H.cwd.symm, H.noFault.symm, rfl, rfl, rfl, rfl⟩⟩
    · simp [List.append_assoc]
    · simp [List.append_assoc]
    · generalize s.tty = t
      cases t <;> simp

end

end PatchModel.RunDl
