/-
  Lemmas/Locate — the search of `locate_hunk` (Model/Locator) against the placement spec
  `admissibleB` (Spec/Place): per-position matcher, fuzz trimming, candidate positions, fuzz loop.
-/
import PatchModel.Spec.Script
import PatchModel.Lemmas.Ws
namespace PatchModel

/-! ### old side of a hunk body -/

theorem oldOf_nil : oldOf [] = [] := rfl

theorem oldOf_cons_plus {pl : PatchLine} {rest : List PatchLine} (h : (pl.op == PLUS) = true) :
    oldOf (pl :: rest) = oldOf rest := by
  have h' : (pl.op != PLUS) = false := by simp [bne, h]
  simp [oldOf, h']

theorem oldOf_cons_nplus {pl : PatchLine} {rest : List PatchLine} (h : (pl.op == PLUS) = false) :
    oldOf (pl :: rest) = pl.line :: oldOf rest := by
  have h' : (pl.op != PLUS) = true := by simp [bne, h]
  simp [oldOf, h']

theorem oldOf_append (xs ys : List PatchLine) : oldOf (xs ++ ys) = oldOf xs ++ oldOf ys := by
  simp [oldOf]

theorem oldLineCount_eq (ls : List PatchLine) : oldLineCount ls = (oldOf ls).length := by
  simp [oldLineCount, oldOf]

theorem SP_ne_PLUS : (SP == PLUS) = false := by decide

/-- a block of context lines is its own old side -/
theorem oldOf_of_all_SP (xs : List PatchLine) (h : ∀ x ∈ xs, (x.op == SP) = true) :
    oldOf xs = xs.map (·.line) := by
  induction xs with
  | nil => rfl
  | cons x xs ih =>
    have hx : x.op = SP := by simpa using h x (by simp)
    have : (x.op == PLUS) = false := by rw [hx]; exact SP_ne_PLUS
    rw [oldOf_cons_nplus this, ih (fun y hy => h y (by simp [hy]))]
    rfl

theorem oldOf_length_of_all_SP (xs : List PatchLine) (h : ∀ x ∈ xs, (x.op == SP) = true) :
    (oldOf xs).length = xs.length := by
  rw [oldOf_of_all_SP xs h]; simp

/-! ### the per-position matcher -/

/-- `matchFrom` compares the old side of `ls`, line by line, with the file from `pos` on -/
theorem matchFrom_iff (content : List Line) (iw : Bool) : ∀ (ls : List PatchLine) (pos : Nat),
    matchFrom content iw ls pos = true ↔
      ∀ i, i < (oldOf ls).length →
        ∃ a b, content[pos + i]? = some a ∧ (oldOf ls)[i]? = some b ∧ lineMatches a b iw = true := by
  intro ls
  induction ls with
  | nil => intro pos; simp [matchFrom, oldOf]
  | cons pl rest ih =>
    intro pos
    by_cases hop : (pl.op == PLUS) = true
    · rw [oldOf_cons_plus hop]
      simp only [matchFrom, hop, if_true]
      exact ih pos
    · have hop' : (pl.op == PLUS) = false := by simpa using hop
      rw [oldOf_cons_nplus hop']
      simp only [matchFrom, hop', Bool.false_eq_true, if_false]
      constructor
      · intro hm i hi
        cases hc : content[pos]? with
        | none => simp [hc] at hm
        | some l =>
          simp only [hc, Bool.and_eq_true] at hm
          cases i with
          | zero => exact ⟨l, pl.line, by simpa using hc, by simp, hm.1⟩
          | succ j =>
            obtain ⟨a, b, h1, h2, h3⟩ := (ih (pos + 1)).1 hm.2 j (by simpa using hi)
            refine ⟨a, b, ?_, by simpa using h2, h3⟩
            rw [← h1]; congr 1; omega
      · intro hall
        obtain ⟨a, b, h1, h2, h3⟩ := hall 0 (by simp)
        simp only [Nat.add_zero, List.getElem?_cons_zero, Option.some.injEq] at h1 h2
        subst h2
        rw [h1]
        simp only [h3, Bool.true_and]
        apply (ih (pos + 1)).2
        intro i hi
        obtain ⟨a, b, h1, h2, h3⟩ := hall (i + 1) (by simpa using hi)
        refine ⟨a, b, ?_, by simpa using h2, h3⟩
        rw [← h1]; congr 1; omega

/-! ### fuzz trimming -/

theorem all_take_of_le_takeWhile {α : Type} (q : α → Bool) : ∀ (l : List α) (n : Nat),
    n ≤ (l.takeWhile q).length → ∀ x ∈ l.take n, q x = true := by
  intro l
  induction l with
  | nil => intro n _ x hx; simp at hx
  | cons a l ih =>
    intro n hn x hx
    cases n with
    | zero => simp at hx
    | succ n =>
      by_cases ha : q a = true
      · simp only [List.takeWhile_cons, ha, if_true, List.length_cons] at hn
        simp only [List.take_succ_cons, List.mem_cons] at hx
        rcases hx with rfl | hx
        · exact ha
        · exact ih n (by omega) x hx
      · simp [ha] at hn

theorem all_SP_take (ls : List PatchLine) (pf : Nat) (h : pf ≤ prefixCtx ls) :
    ∀ x ∈ ls.take pf, (x.op == SP) = true :=
  all_take_of_le_takeWhile (fun x : PatchLine => x.op == SP) ls pf h

theorem all_SP_drop (ls : List PatchLine) (sf : Nat) (h : sf ≤ suffixCtx ls) :
    ∀ x ∈ ls.drop (ls.length - sf), (x.op == SP) = true := by
  intro x hx
  have h2 := all_take_of_le_takeWhile (fun x : PatchLine => x.op == SP) ls.reverse sf h x
  rw [List.take_reverse] at h2
  exact h2 (by simpa using hx)

theorem split_trimmed (ls : List PatchLine) (pf sf : Nat) (h : pf + sf ≤ ls.length) :
    ls = ls.take pf ++ (trimmed ls pf sf ++ ls.drop (ls.length - sf)) := by
  have e : ls.drop (ls.length - sf) = (ls.drop pf).drop (ls.length - pf - sf) := by
    rw [List.drop_drop]; congr 1; omega
  unfold trimmed
  rw [e, List.take_append_drop, List.take_append_drop]

theorem drop_take_mid {α : Type} (A M B : List α) :
    ((A ++ (M ++ B)).drop A.length).take ((A ++ (M ++ B)).length - A.length - B.length) = M := by
  have : (A ++ (M ++ B)).length - A.length - B.length = M.length := by
    simp only [List.length_append]; omega
  rw [this]
  simp

/-- trimming `pf` leading / `sf` trailing context lines of the hunk trims the same number of lines of its old side -/
theorem oldOf_trimmed (ls : List PatchLine) (pf sf : Nat) (hp : pf ≤ prefixCtx ls) (hs : sf ≤ suffixCtx ls)
    (h : pf + sf ≤ ls.length) :
    oldOf (trimmed ls pf sf) = ((oldOf ls).drop pf).take ((oldOf ls).length - pf - sf) := by
  have hA : (oldOf (ls.take pf)).length = pf := by
    rw [oldOf_length_of_all_SP _ (all_SP_take ls pf hp), List.length_take]; omega
  have hB : (oldOf (ls.drop (ls.length - sf))).length = sf := by
    rw [oldOf_length_of_all_SP _ (all_SP_drop ls sf hs), List.length_drop]; omega
  have e : oldOf ls = oldOf (ls.take pf) ++ (oldOf (trimmed ls pf sf) ++ oldOf (ls.drop (ls.length - sf))) := by
    rw [← oldOf_append, ← oldOf_append, ← split_trimmed ls pf sf h]
  have := drop_take_mid (oldOf (ls.take pf)) (oldOf (trimmed ls pf sf)) (oldOf (ls.drop (ls.length - sf)))
  rw [hA, hB, ← e] at this
  exact this.symm

theorem oldOf_trimmed_length (ls : List PatchLine) (pf sf : Nat) (hp : pf ≤ prefixCtx ls) (hs : sf ≤ suffixCtx ls)
    (h : pf + sf ≤ ls.length) :
    (oldOf (trimmed ls pf sf)).length = (oldOf ls).length - pf - sf := by
  rw [oldOf_trimmed ls pf sf hp hs h, List.length_take, List.length_drop]; omega

theorem oldOf_trimmed_getElem? (ls : List PatchLine) (pf sf : Nat) (hp : pf ≤ prefixCtx ls) (hs : sf ≤ suffixCtx ls)
    (h : pf + sf ≤ ls.length) (i : Nat) (hi : i < (oldOf ls).length - pf - sf) :
    (oldOf (trimmed ls pf sf))[i]? = (oldOf ls)[pf + i]? := by
  rw [oldOf_trimmed ls pf sf hp hs h, List.getElem?_take, if_pos hi, List.getElem?_drop]

/-! ### one probe of the scan = the index-wise spec -/

theorem hunkMatchesAt_iff (content : List Line) (h : Hunk) (iw : Bool) (pf sf p : Nat)
    (hp : pf ≤ prefixCtx h.lines) (hs : sf ≤ suffixCtx h.lines) (hl : pf + sf ≤ h.lines.length) :
    hunkMatchesAt content h iw pf sf p = true ↔
      p + (oldOf h.lines).length ≤ content.length + sf ∧
      ∀ j, j < (oldOf h.lines).length → j < pf ∨ (oldOf h.lines).length - sf ≤ j ∨
        ∃ a b, content[p + j]? = some a ∧ (oldOf h.lines)[j]? = some b ∧ lineEqB iw a b = true := by
  unfold hunkMatchesAt
  rw [oldLineCount_eq]
  by_cases hfit : p + (oldOf h.lines).length > content.length + sf
  · simp only [hfit, if_true]
    constructor
    · intro hf; cases hf
    · intro ⟨h1, _⟩; omega
  · simp only [hfit, if_false, matchFrom_iff, oldOf_trimmed_length h.lines pf sf hp hs hl]
    constructor
    · intro hm
      refine ⟨by omega, ?_⟩
      intro j hj
      by_cases h1 : j < pf
      · exact Or.inl h1
      by_cases h2 : (oldOf h.lines).length - sf ≤ j
      · exact Or.inr (Or.inl h2)
      refine Or.inr (Or.inr ?_)
      obtain ⟨a, b, e1, e2, e3⟩ := hm (j - pf) (by omega)
      rw [oldOf_trimmed_getElem? h.lines pf sf hp hs hl _ (by omega)] at e2
      have ej : p + pf + (j - pf) = p + j := by omega
      have ej' : pf + (j - pf) = j := by omega
      rw [ej] at e1
      rw [ej'] at e2
      exact ⟨a, b, e1, e2, by rw [← lineMatches_eq_lineEqB]; exact e3⟩
    · intro ⟨_, hall⟩ i hi
      rcases hall (pf + i) (by omega) with h1 | h1 | ⟨a, b, e1, e2, e3⟩
      · omega
      · omega
      · refine ⟨a, b, ?_, ?_, by rw [lineMatches_eq_lineEqB]; exact e3⟩
        · rw [← e1]; congr 1; omega
        · rw [oldOf_trimmed_getElem? h.lines pf sf hp hs hl _ hi]; exact e2

theorem takeWhile_length_le {α : Type} (q : α → Bool) (l : List α) : (l.takeWhile q).length ≤ l.length := by
  induction l with
  | nil => simp
  | cons a l ih => simp only [List.takeWhile_cons]; split <;> simp <;> omega

/-- the trailing context of a hunk is part of its old side -/
theorem suffixCtx_le_oldOf_length (ls : List PatchLine) : suffixCtx ls ≤ (oldOf ls).length := by
  have hle : suffixCtx ls ≤ ls.length := by
    unfold suffixCtx prefixCtx
    have := takeWhile_length_le (fun x : PatchLine => x.op == SP) ls.reverse
    simpa using this
  have e : oldOf ls = oldOf (ls.take (ls.length - suffixCtx ls)) ++ oldOf (ls.drop (ls.length - suffixCtx ls)) := by
    rw [← oldOf_append, List.take_append_drop]
  have hB : (oldOf (ls.drop (ls.length - suffixCtx ls))).length = suffixCtx ls := by
    rw [oldOf_length_of_all_SP _ (all_SP_drop ls (suffixCtx ls) (Nat.le_refl _)), List.length_drop]; omega
  rw [e, List.length_append, hB]; omega

theorem fuzzPair_fst (ls : List PatchLine) (f : Nat) :
    (fuzzPair ls f).1 = (f + prefixCtx ls) - max (prefixCtx ls) (suffixCtx ls) := rfl

theorem fuzzPair_snd (ls : List PatchLine) (f : Nat) :
    (fuzzPair ls f).2 = (f + suffixCtx ls) - max (prefixCtx ls) (suffixCtx ls) := rfl

/-- `admissibleB` spelled out.  The conjunct `p ≤ file.length` is a consequence of the others (the lines which fuzz ignores at
    the end of the hunk are old-side lines), spelled out for the users; since D109 the end of the file itself is a position. -/
theorem admissibleB_iff (file : List Line) (h : Hunk) (iw : Bool) (maxFuzz : Int) (p f : Nat) :
    admissibleB file h iw maxFuzz p f = true ↔
      (f : Int) ≤ maxFuzz ∧ f ≤ max (prefixCtx h.lines) (suffixCtx h.lines) ∧
      (fuzzPair h.lines f).1 + (fuzzPair h.lines f).2 < h.lines.length ∧
      p + (oldOf h.lines).length ≤ file.length + (fuzzPair h.lines f).2 ∧ p ≤ file.length ∧
      ∀ j, j < (oldOf h.lines).length →
        j < (fuzzPair h.lines f).1 ∨ (oldOf h.lines).length - (fuzzPair h.lines f).2 ≤ j ∨
        ∃ a b, file[p + j]? = some a ∧ (oldOf h.lines)[j]? = some b ∧ lineEqB iw a b = true := by
  unfold admissibleB
  simp only [Bool.and_eq_true, decide_eq_true_eq, List.all_eq_true, List.mem_range, Bool.or_eq_true,
    and_assoc, or_assoc]
  constructor
  · rintro ⟨a, b, c, d, e⟩
    have d' : p ≤ file.length := by
      have h1 := suffixCtx_le_oldOf_length h.lines
      have h2 := fuzzPair_snd h.lines f
      omega
    refine ⟨a, b, c, d, d', fun j hj => ?_⟩
    rcases e j hj with h1 | h1 | h1
    · exact Or.inl h1
    · exact Or.inr (Or.inl h1)
    · refine Or.inr (Or.inr ?_)
      split at h1
      · next a b ea eb => exact ⟨a, b, ea, eb, h1⟩
      · cases h1
  · rintro ⟨a, b, c, d, _, e⟩
    refine ⟨a, b, c, d, fun j hj => ?_⟩
    rcases e j hj with h1 | h1 | ⟨a, b, ea, eb, h1⟩
    · exact Or.inl h1
    · exact Or.inr (Or.inl h1)
    · refine Or.inr (Or.inr ?_)
      rw [ea, eb]; exact h1

/-- under the side conditions on the fuzz, the probe of the scan is the placement spec — at every position, the end of the
    file included (D109; the hypothesis `p < file.length` of the D99 round is gone with the conjunct of `admissibleB`) -/
theorem hunkMatchesAt_iff_admissibleB (file : List Line) (h : Hunk) (iw : Bool) (maxFuzz : Int) (p f : Nat)
    (h1 : (f : Int) ≤ maxFuzz) (h2 : f ≤ max (prefixCtx h.lines) (suffixCtx h.lines))
    (h3 : (fuzzPair h.lines f).1 + (fuzzPair h.lines f).2 < h.lines.length) :
    hunkMatchesAt file h iw (fuzzPair h.lines f).1 (fuzzPair h.lines f).2 p = true ↔
      admissibleB file h iw maxFuzz p f = true := by
  rw [admissibleB_iff, hunkMatchesAt_iff file h iw _ _ p
    (by rw [fuzzPair_fst]; omega) (by rw [fuzzPair_snd]; omega) (by omega)]
  constructor
  · intro ⟨a, b⟩
    have hle : p ≤ file.length := by
      have g1 := suffixCtx_le_oldOf_length h.lines
      have g2 := fuzzPair_snd h.lines f
      omega
    exact ⟨h1, h2, h3, a, hle, b⟩
  · intro ⟨_, _, _, a, _, b⟩; exact ⟨a, b⟩

/-! ### D99: what of an admissible placement lies beyond the end of the file is context -/

theorem filter_nplus_of_all_SP (xs : List PatchLine) (h : ∀ x ∈ xs, (x.op == SP) = true) :
    xs.filter (·.op != PLUS) = xs := by
  apply List.filter_eq_self.2
  intro x hx
  have hx : x.op = SP := by simpa using h x hx
  rw [hx]; decide

theorem old_ignored_SP_aux (A M B : List PatchLine) (hA : ∀ x ∈ A, (x.op == SP) = true)
    (hB : ∀ x ∈ B, (x.op == SP) = true) (k : Nat)
    (hk : k < A.length ∨ (oldOf (A ++ (M ++ B))).length - B.length ≤ k) (pl : PatchLine)
    (h : ((A ++ (M ++ B)).filter (·.op != PLUS))[k]? = some pl) : pl.op = SP := by
  have hlen : (oldOf (A ++ (M ++ B))).length = A.length + (M.filter (·.op != PLUS)).length + B.length := by
    simp only [oldOf, List.length_map, List.filter_append, List.length_append,
      filter_nplus_of_all_SP A hA, filter_nplus_of_all_SP B hB]
    omega
  rw [List.filter_append, List.filter_append, filter_nplus_of_all_SP A hA, filter_nplus_of_all_SP B hB] at h
  rcases hk with hk | hk
  · rw [List.getElem?_append_left hk] at h
    simpa using hA pl (List.mem_of_getElem? h)
  · rw [hlen] at hk
    rw [List.getElem?_append_right (by omega), List.getElem?_append_right (by omega)] at h
    simpa using hB pl (List.mem_of_getElem? h)

/-- an old-side line which fuzz ignores (one of the first `pf` or of the last `sf`) is a context line -/
theorem old_ignored_SP (ls : List PatchLine) (pf sf : Nat) (hp : pf ≤ prefixCtx ls) (hs : sf ≤ suffixCtx ls)
    (hl : pf + sf ≤ ls.length) (k : Nat) (hk : k < pf ∨ (oldOf ls).length - sf ≤ k) (pl : PatchLine)
    (h : (ls.filter (·.op != PLUS))[k]? = some pl) : pl.op = SP := by
  have e := split_trimmed ls pf sf hl
  have hA : (ls.take pf).length = pf := by rw [List.length_take]; omega
  have hB : (ls.drop (ls.length - sf)).length = sf := by rw [List.length_drop]; omega
  refine old_ignored_SP_aux (ls.take pf) (trimmed ls pf sf) (ls.drop (ls.length - sf))
    (all_SP_take ls pf hp) (all_SP_drop ls sf hs) k ?_ pl ?_
  · rw [← e, hA, hB]; exact hk
  · rw [← e]; exact h

/-- the old-side lines of an admissible placement which have no line of the file under them are context lines
    (they are among those at the end of the hunk which fuzz ignores) -/
theorem admissible_beyond_SP (file : List Line) (h : Hunk) (iw : Bool) (maxFuzz : Int) (p f : Nat)
    (hadm : admissibleB file h iw maxFuzz p f = true) (k : Nat) (hk : file.length ≤ p + k) (pl : PatchLine)
    (hpl : (h.lines.filter (·.op != PLUS))[k]? = some pl) : pl.op = SP := by
  obtain ⟨_, a2, a3, _, _, hall⟩ := (admissibleB_iff file h iw maxFuzz p f).1 hadm
  have hklt : k < (oldOf h.lines).length := by
    have := (List.getElem?_eq_some_iff.1 hpl).1
    simpa [oldOf] using this
  refine old_ignored_SP h.lines (fuzzPair h.lines f).1 (fuzzPair h.lines f).2
    (by rw [fuzzPair_fst]; omega) (by rw [fuzzPair_snd]; omega) (by omega) k ?_ pl hpl
  rcases hall k hklt with h1 | h1 | ⟨a, _, ea, _, _⟩
  · exact Or.inl h1
  · exact Or.inr h1
  · have := (List.getElem?_eq_some_iff.1 ea).1
    omega

/-! ### candidate positions -/

theorem mem_candidates (ss ml size p : Nat) (h1 : ml ≤ ss) (h2 : ss ≤ max ml size) :
    p ∈ candidates ss ml size ↔ ml ≤ p ∧ p ≤ size := by
  unfold candidates
  simp only [List.mem_append, List.mem_reverse, List.mem_range'_1]
  omega

theorem searchStart_ge (g : Int) (ml size : Nat) : ml ≤ searchStart g ml size := by
  unfold searchStart; omega

theorem searchStart_le (g : Int) (ml size : Nat) : searchStart g ml size ≤ max ml size := by
  unfold searchStart; omega

/-- the scan probes exactly the positions from `minLine` to the end of the file, the end itself included (D109) -/
theorem mem_candidates_searchStart (g : Int) (ml size p : Nat) :
    p ∈ candidates (searchStart g ml size) ml size ↔ ml ≤ p ∧ p ≤ size :=
  mem_candidates _ ml size p (searchStart_ge g ml size) (searchStart_le g ml size)

theorem searchStart_eq (g ml size : Nat) (h1 : ml ≤ g) (h2 : g ≤ size) :
    searchStart (g : Int) ml size = g := by
  unfold searchStart; omega

/-- the first position probed is the search start -/
theorem find?_candidates_head (g ml size : Nat) (P : Nat → Bool) (hle : g ≤ size) (hP : P g = true) :
    (candidates g ml size).find? P = some g := by
  unfold candidates
  have : size + 1 - g = (size - g) + 1 := by omega
  rw [this, List.range'_succ]
  simp [hP]

/-! ### the fuzz loop -/

/-- what a successful `locateLoop` returns: the first fuzz `f ≥ fuzz` within the limit at which some
    candidate position matches, and the first such candidate -/
theorem locateLoop_some (content : List Line) (h : Hunk) (iw : Bool) (guess : Int) (ml : Nat) (mf : Int)
    (pc sc : Nat) : ∀ (fuel fuzz : Nat) (loc : Location),
    locateLoop content h iw guess ml mf pc sc fuel fuzz = some loc →
    ∃ p f : Nat, fuzz ≤ f ∧ loc = ⟨(p : Int), (f : Int), (p : Int) - guess⟩ ∧ (f : Int) ≤ mf ∧
      ((f + pc) - max pc sc) + ((f + sc) - max pc sc) < h.lines.length ∧
      p ∈ candidates (searchStart guess ml content.length) ml content.length ∧
      hunkMatchesAt content h iw ((f + pc) - max pc sc) ((f + sc) - max pc sc) p = true ∧
      ∀ f', fuzz ≤ f' → f' < f → ∀ q ∈ candidates (searchStart guess ml content.length) ml content.length,
        hunkMatchesAt content h iw ((f' + pc) - max pc sc) ((f' + sc) - max pc sc) q = false := by
  intro fuel
  induction fuel with
  | zero => intro fuzz loc hl; simp [locateLoop] at hl
  | succ fuel ih =>
    intro fuzz loc hl
    rw [locateLoop] at hl
    simp only at hl
    split at hl
    · cases hl
    · split at hl
      · cases hl
      · split at hl
        · next p hfind =>
          injection hl with hl
          subst hl
          refine ⟨p, fuzz, Nat.le_refl _, rfl, by omega, by omega, List.mem_of_find?_eq_some hfind,
            List.find?_some hfind, ?_⟩
          intro f' h1 h2; omega
        · next hfind =>
          obtain ⟨p, f, hf, e, h1, h2, h3, h4, h5⟩ := ih (fuzz + 1) loc hl
          refine ⟨p, f, by omega, e, h1, h2, h3, h4, ?_⟩
          intro f' g1 g2 q hq
          by_cases e : f' = fuzz
          · subst e
            have := List.find?_eq_none.1 hfind q hq
            simpa using this
          · exact h5 f' (by omega) g2 q hq

/-- `locateLoop` succeeds as soon as some fuzz within limit and fuel has a matching candidate -/
theorem locateLoop_complete (content : List Line) (h : Hunk) (iw : Bool) (guess : Int) (ml : Nat) (mf : Int)
    (pc sc : Nat) : ∀ (fuel fuzz f q : Nat), fuzz ≤ f → f < fuzz + fuel → (f : Int) ≤ mf →
    ((f + pc) - max pc sc) + ((f + sc) - max pc sc) < h.lines.length →
    q ∈ candidates (searchStart guess ml content.length) ml content.length →
    hunkMatchesAt content h iw ((f + pc) - max pc sc) ((f + sc) - max pc sc) q = true →
    ∃ loc, locateLoop content h iw guess ml mf pc sc fuel fuzz = some loc := by
  intro fuel
  induction fuel with
  | zero => intro fuzz f q h1 h2; omega
  | succ fuel ih =>
    intro fuzz f q h1 h2 h3 h4 h5 h6
    rw [locateLoop]
    simp only
    have g1 : ¬ ((fuzz : Int) > mf) := by omega
    have g2 : ¬ ((fuzz + sc) - max pc sc + ((fuzz + pc) - max pc sc) ≥ h.lines.length) := by omega
    rw [if_neg g1, if_neg g2]
    split
    · exact ⟨_, rfl⟩
    · next hfind =>
      by_cases e : fuzz = f
      · subst e
        have := List.find?_eq_none.1 hfind q h5
        exact absurd h6 this
      · exact ih (fuzz + 1) f q (by omega) (by omega) h3 h4 h5 h6

/-! ### `locate_hunk` for a hunk with an old side -/

theorem locateHunk_eq_loop (file : List Line) (h : Hunk) (iw : Bool) (offset maxFuzz : Int) (ml : Nat)
    (hc : h.old.count ≠ 0) :
    locateHunk file h iw offset maxFuzz ml =
      locateLoop file h iw (expectedLine h - 1 + offset) ml
        (min maxFuzz ((max (prefixCtx h.lines) (suffixCtx h.lines) : Nat) : Int))
        (prefixCtx h.lines) (suffixCtx h.lines) (max (prefixCtx h.lines) (suffixCtx h.lines) + 1) 0 := by
  unfold locateHunk
  simp only [hc, if_false]

/-- an admissible position is inside the file or its very end (the end only if every old-side line is among those at the end of
    the hunk which fuzz ignores: D109) -/
theorem admissible_le_length (file : List Line) (h : Hunk) (iw : Bool) (maxFuzz : Int) (p f : Nat)
    (hadm : admissibleB file h iw maxFuzz p f = true) : p ≤ file.length := by
  obtain ⟨_, _, _, _, hle, _⟩ := (admissibleB_iff file h iw maxFuzz p f).1 hadm
  exact hle

/-- an admissible position at which fuzz does not ignore the whole old side is inside the file (what `admissible_lt_length`
    said for every admissible position between D99 and D109) -/
theorem admissible_lt_length_of_lt (file : List Line) (h : Hunk) (iw : Bool) (maxFuzz : Int) (p f : Nat)
    (hsf : (fuzzPair h.lines f).2 < (oldOf h.lines).length)
    (hadm : admissibleB file h iw maxFuzz p f = true) : p < file.length := by
  obtain ⟨_, _, _, hfit, _, _⟩ := (admissibleB_iff file h iw maxFuzz p f).1 hadm
  omega

/-- everything a successful `locate_hunk` tells (old side present): the returned position is admissible with
    the returned fuzz, and no position from `minLine` on is admissible with a smaller fuzz -/
theorem locateHunk_some (file : List Line) (h : Hunk) (iw : Bool) (offset maxFuzz : Int) (ml : Nat) (loc : Location)
    (hc : h.old.count ≠ 0) (hloc : locateHunk file h iw offset maxFuzz ml = some loc) :
    ∃ p f : Nat, loc = ⟨(p : Int), (f : Int), (p : Int) - (expectedLine h - 1 + offset)⟩ ∧
      ml ≤ p ∧ p ≤ file.length ∧ admissibleB file h iw maxFuzz p f = true ∧
      ∀ p' f' : Nat, ml ≤ p' → admissibleB file h iw maxFuzz p' f' = true → f ≤ f' := by
  rw [locateHunk_eq_loop file h iw offset maxFuzz ml hc] at hloc
  obtain ⟨p, f, _, e, h1, h2, h3, h4, h5⟩ := locateLoop_some _ _ _ _ _ _ _ _ _ _ _ hloc
  have hmem := (mem_candidates_searchStart _ ml file.length p).1 h3
  have hf1 : (f : Int) ≤ maxFuzz := by omega
  have hf2 : f ≤ max (prefixCtx h.lines) (suffixCtx h.lines) := by omega
  refine ⟨p, f, e, hmem.1, hmem.2, ?_, ?_⟩
  · exact (hunkMatchesAt_iff_admissibleB file h iw maxFuzz p f hf1 hf2 h2).1 h4
  · intro p' f' hp1 hadm
    apply Nat.le_of_not_lt
    intro hlt
    obtain ⟨a1, a2, a3, _, hp2, _⟩ := (admissibleB_iff file h iw maxFuzz p' f').1 hadm
    have hm := (hunkMatchesAt_iff_admissibleB file h iw maxFuzz p' f' a1 a2 a3).2 hadm
    have := h5 f' (Nat.zero_le _) hlt p' ((mem_candidates_searchStart _ ml file.length p').2 ⟨hp1, hp2⟩)
    rw [fuzzPair_fst, fuzzPair_snd] at hm
    rw [hm] at this
    cases this

/-- `locate_hunk` finds a hunk (old side present) whenever some position from `minLine` on is admissible -/
theorem locateHunk_complete (file : List Line) (h : Hunk) (iw : Bool) (offset maxFuzz : Int) (ml : Nat)
    (p f : Nat) (hc : h.old.count ≠ 0) (hp : ml ≤ p)
    (hadm : admissibleB file h iw maxFuzz p f = true) :
    ∃ loc, locateHunk file h iw offset maxFuzz ml = some loc := by
  rw [locateHunk_eq_loop file h iw offset maxFuzz ml hc]
  obtain ⟨a1, a2, a3, _, hle, _⟩ := (admissibleB_iff file h iw maxFuzz p f).1 hadm
  have hm := (hunkMatchesAt_iff_admissibleB file h iw maxFuzz p f a1 a2 a3).2 hadm
  rw [fuzzPair_fst, fuzzPair_snd] at hm a3
  exact locateLoop_complete _ _ _ _ _ _ _ _ _ 0 f p (Nat.zero_le _) (by omega) (by omega) a3
    ((mem_candidates_searchStart _ ml file.length p).2 ⟨hp, hle⟩) hm

/-- a hunk (old side present) that is admissible without fuzz at the guessed position is placed exactly there -/
theorem locateHunk_exact (file : List Line) (h : Hunk) (iw : Bool) (offset maxFuzz : Int) (ml g : Nat)
    (hc : h.old.count ≠ 0) (hg : expectedLine h - 1 + offset = (g : Int)) (hm : ml ≤ g)
    (hadm : admissibleB file h iw maxFuzz g 0 = true) :
    locateHunk file h iw offset maxFuzz ml = some ⟨g, 0, 0⟩ := by
  rw [locateHunk_eq_loop file h iw offset maxFuzz ml hc, hg]
  obtain ⟨a1, a2, a3, _, hle, _⟩ := (admissibleB_iff file h iw maxFuzz g 0).1 hadm
  have hmt := (hunkMatchesAt_iff_admissibleB file h iw maxFuzz g 0 a1 a2 a3).2 hadm
  rw [fuzzPair_fst, fuzzPair_snd] at hmt a3
  rw [locateLoop]
  simp only
  have g1 : ¬ (((0 : Nat) : Int) > min maxFuzz ((max (prefixCtx h.lines) (suffixCtx h.lines) : Nat) : Int)) := by
    omega
  have g2 : ¬ ((0 + suffixCtx h.lines) - max (prefixCtx h.lines) (suffixCtx h.lines)
      + ((0 + prefixCtx h.lines) - max (prefixCtx h.lines) (suffixCtx h.lines)) ≥ h.lines.length) := by omega
  rw [if_neg g1, if_neg g2, searchStart_eq g ml file.length hm hle,
    find?_candidates_head g ml file.length _ hle hmt]
  simp

end PatchModel
