/-
  One section that would remove its file, but the file holds MORE than the patch removes (no backup).

  `LeftSection` = `RunDl.DelSection` with the last field turned round: the applier's output, rendered, is NOT empty
  (`nonEmpty`), and the new name of the patch is `/dev/null` (`newNull`: what makes `process_patch` say "not deleting file … as
  content differs from patch" and fail).  `processSection_leftover`: the section is NOT an error of the applier (no hunk fails,
  no reject file), yet the failure flag is set, the event `notDeleting` is logged, and the target is re-written with what is
  left, keeping its mode — it is not unlinked.  `valid_delHunk_more` / `splice_delHunk_more`: the removing hunk of `old` on
  `old ++ extra` is a valid script, and leaves `extra`.
-/
import PatchModel.Lemmas.RunDl
namespace PatchModel.RunDlL
open PatchModel PatchModel.DriverFacts PatchModel.Section PatchModel.Run PatchModel.RunB PatchModel.RunG PatchModel.RunDl

/-- the removing hunk of `old` is a valid script of a file that starts with `old` -/
theorem valid_delHunk_more (old extra : List Line) (hne : old ≠ []) : Valid (old ++ extra) 0 0 [delHunk old] := by
  have hlen : (old.length : Int) ≠ 0 := by
    cases old with
    | nil => exact absurd rfl hne
    | cons _ _ => simp only [List.length_cons]; omega
  have hl : (delHunk old).lines = old.map fun l => (⟨MINUS, l⟩ : PatchLine) := rfl
  refine Valid.cons 0 0 (delHunk old) [] 0 (delHunk_wf old) ?_ (Nat.le_refl _) ?_ ?_ ?_ ?_ (Valid.nil _ _ ?_)
  · show expectedLine (delHunk old) - 1 = _
    unfold expectedLine
    rw [if_neg (show ¬ (delHunk old).old.count = 0 from hlen)]
    rfl
  · rw [hl, oldOf_minus]; simp
  · rw [hl, oldOf_minus]; simp
  · show (if (delHunk old).new.count = 0 then (delHunk old).new.start + 1 else (delHunk old).new.start) - 1 = _
    rw [if_pos (show (delHunk old).new.count = 0 from rfl)]; rfl
  · intro hh; exact hlen hh.1
  · rw [hl, oldOf_minus]; simp

/-- … and what it leaves of the file is the rest -/
theorem splice_delHunk_more (old extra : List Line) (hne : old ≠ []) : splice (old ++ extra) 0 [delHunk old] = extra := by
  have hlen : (old.length : Int) ≠ 0 := by
    cases old with
    | nil => exact absurd rfl hne
    | cons _ _ => simp only [List.length_cons]; omega
  have hp : (delHunk old).pos0 = 0 := by
    show expectedLine (delHunk old) - 1 = _
    unfold expectedLine
    rw [if_neg (show ¬ (delHunk old).old.count = 0 from hlen)]
    rfl
  have hl : (delHunk old).lines = old.map fun l => (⟨MINUS, l⟩ : PatchLine) := rfl
  simp only [splice, hp, hl, oldOf_minus, newOf_minus]
  simp

structure LeftSection (o : Options) (fmt : Format) (s : DState) (p bytes : Bytes) (m : Nat)
    (patch0 patch2 : Patch) (info : HeaderInfo) (par1 par2 : Parser) (r : ApplyResult) : Prop where
  target : o.fileToPatch = p ∨ (o.fileToPatch = [] ∧ patch0.oldPath = p ∧ p ≠ devNull)
  noOut : o.outFile = []
  noBackup : o.saveBackup = false
  removeEmpty : o.removeEmptyFiles = .yes
  pathNe : p ≠ []
  cwd : s.cwd = []
  hdr : parseHeader s.par { format := fmt } o.strip = .ok (true, patch0, info, par1)
  fmt : patch0.format = .unified ∨ patch0.format = .context ∨ patch0.format = .normal
  op : patch0.operation = .delete
  pre : patch0.prerequisite = []
  body : parseBody par1 patch0 = .ok (patch2, par2)
  fmt2 : patch2.format = patch0.format
  op2 : patch2.operation = .delete
  newMode2 : patch2.newMode = 0
  /-- the new name is `/dev/null`: the patch says the file goes away -/
  newNull : patch2.newPath = devNull
  file : s.fs.lookup p = some (.file bytes m)
  writable : m &&& writeMask ≠ 0
  root : s.fs.isRoot = true
  noFault : s.faultAt = none
  apply : applyPatch (splitLines bytes) patch2 (applyOptsOf o)
      (Option.map (fun l => List.map (fun a => !List.isEmpty a && List.head? a != some 110) l) s.tty) = .ok r
  failed : r.failed = 0
  perfect : r.perfect = true
  skipped : r.skipped = false
  msgs : r.msgs = []
  ttyLeft : r.tty = Option.map (fun l => List.map (fun a => !List.isEmpty a && List.head? a != some 110) l) s.tty
  patch : r.patch = patch2
  /-- something is left of the file -/
  nonEmpty : (render o.newlineOutput r.out).isEmpty = false

section
variable {o : Options} {fmt : Format} {s : DState} {p bytes : Bytes} {m : Nat}
  {patch0 patch2 : Patch} {info : HeaderInfo} {par1 par2 : Parser} {r : ApplyResult}

/-- `RunDl.del_run` for a "delete" section with a result that is not empty -/
syntax "left_run " "[" Lean.Parser.Tactic.simpLemma,* "]" : tactic
set_option hygiene false in
macro_rules | `(tactic| left_run [$ls,*]) => `(tactic| (
  have hfu : (patch0.format == Format.unknown) = false := by
    rcases H.fmt with h | h | h <;> rw [h] <;> rfl
  have hfg : (patch2.format == Format.git) = false := by
    rw [H.fmt2]; rcases H.fmt with h | h | h <;> rw [h] <;> rfl
  have hob : (patch0.operation == Operation.binary) = false := by rw [H.op]; rfl
  have hor : (patch0.operation == Operation.rename) = false := by rw [H.op]; rfl
  have hoc : (patch0.operation == Operation.copy) = false := by rw [H.op]; rfl
  have hod : (patch0.operation == Operation.delete) = true := by rw [H.op]; rfl
  have hoa2 : (patch2.operation == Operation.add) = false := by rw [H.op2]; rfl
  have hor2 : (patch2.operation == Operation.rename) = false := by rw [H.op2]; rfl
  have hoc2 : (patch2.operation == Operation.copy) = false := by rw [H.op2]; rfl
  have hod2 : (patch2.operation == Operation.delete) = true := by rw [H.op2]; rfl
  have hE : (o.removeEmptyFiles == OptionalBool.yes) = true := by rw [H.removeEmpty]; rfl
  have hpe : List.isEmpty p = false := by
    cases p with
    | nil => exact absurd rfl H.pathNe
    | cons _ _ => rfl
  have hout : outputPath o patch0 p = p := by
    unfold outputPath; simp [H.noOut, hor, hoc]
  have hdash : (o.outFile == [45]) = false := by rw [H.noOut]; rfl
  have hguess : ∀ s' : DState, patch0.oldPath = p → p ≠ devNull → s'.cwd = [] → s'.fs.lookup p = some (.file bytes m) →
      (guessFilepath patch0 o.reverse).run s' = (.ok p, s') := by
    intro s' h0 hnn h1 h2
    have := run_guessFilepath_old patch0 o.reverse (s := s') (b := bytes) (m := m) h1 (by rw [hor, hoc]; simp)
      (by rw [h0]; exact hnn) (by rw [h0]; exact h2)
    rw [h0] at this
    exact this
  unfold processSection
  simp only [↓run_bind, ↓run_get, ↓run_liftE, ↓run_modify, ↓run_pure, ↓run_emit, ↓run_failNow,
    H.hdr, hfu, hob, hpe, hout, hor, hdash,
    Bool.false_eq_true, ↓reduceIte, Bool.false_and, Bool.and_false, Bool.not_true, Bool.not_false,
    Bool.or_false, Bool.false_or, Bool.and_true, Bool.true_and, Bool.or_true, Bool.true_or,
    run_createTemp, H.noFault, H.cwd,
    run_fsExists_file (b := bytes) (m := m), run_fsIsRegular_file (b := bytes) (m := m),
    run_fsIsSymlink_file (b := bytes) (m := m), H.file,
    (fun s' => @run_fixPermissions_writable o s' p bytes m), H.writable, ne_eq, not_false_eq_true,
    absPath_nil, readFile_root (b := bytes) (m := m), H.root,
    H.pre, List.isEmpty_nil,
    run_parseBodyM_true (pt' := patch2) (par' := par2), H.body,
    H.apply, H.msgs, H.failed, H.perfect, H.skipped, H.patch, H.noBackup, hoa2, hor2, hoc2, hod2, hE, H.nonEmpty,
    H.newNull, H.newMode2,
    bne_self_eq_false, beq_self_eq_true, H.ttyLeft, hfg, $ls,*]))

/-- **a section that would remove its file, but something is left of it, real run**: no hunk fails and no reject file is written,
    yet the failure flag is set and "not deleting file … as content differs from patch" is logged; the target is not unlinked: it
    is re-written with what is left and keeps its mode -/
theorem processSection_leftover (H : LeftSection o fmt s p bytes m patch0 patch2 info par1 par2 r) (hreal : o.dryRun = false)
    (hdir : s.fs.dirExists (parentOf p) = true) :
    ∃ s', (processSection o fmt).run s = (.ok true, s') ∧
      s'.fs = s.fs.set p (.file (render o.newlineOutput r.out) m) ∧
      s'.trace = s.trace ++ [.tmpCreate, .tmpUnlink] ++ [.tmpCreate, .tmpUnlink] ++
        resultOps p (render o.newlineOutput r.out) m ∧
      s'.rejWritten = s.rejWritten ∧ s'.backedUp = s.backedUp ∧
      s'.hadFailure = true ∧
      s'.out = s.out ++ [.file p false, .notDeleting] ∧
      SectionEnd s s' p par2 := by
  rcases H.target with ht | ⟨hno, h0, hnn⟩
  · left_run [ht, hreal, (fun s' pt c perm => @run_writePatchedResult_plain s' p bytes m o pt c m perm), hdir]
    refine ⟨_, rfl, rfl, rfl, rfl, rfl, rfl, ?_, ⟨rfl, rfl, rfl, ?_, H.cwd.symm, H.noFault.symm, rfl, rfl, rfl, rfl⟩⟩
    · simp [List.append_assoc]
    · generalize s.tty = t
      cases t <;> simp
  · left_run [hno, hguess, h0, hnn, hreal, (fun s' pt c perm => @run_writePatchedResult_plain s' p bytes m o pt c m perm), hdir]
    refine ⟨_, rfl, rfl, rfl, rfl, rfl, rfl, ?_, ⟨rfl, rfl, rfl, ?_, H.cwd.symm, H.noFault.symm, rfl, rfl, rfl, rfl⟩⟩
    · simp [List.append_assoc]
    · generalize s.tty = t
      cases t <;> simp

end

end PatchModel.RunDlL
