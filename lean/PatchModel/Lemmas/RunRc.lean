/-
  One section of `process_patch` that UN-creates a file: the header says "add" (`--- /dev/null`, `+++ name`), the run is with `-R`:
  the applier hands back the reversed patch (`patch3`, operation "delete"), its result is empty, and — `-E` in force — the file to
  patch (the operand, or — found by `guess_filepath` — the new name of the header) is unlinked.  `RcSection` is `RunDl.DelSection` with `op : patch0.operation = .add` and the applier's patch
  `patch3` as a separate parameter; `processSection_uncreate` is `RunDl.processSection_delete` for it.
-/
import PatchModel.Lemmas.RunDl
namespace PatchModel.RunRc
open PatchModel PatchModel.DriverFacts PatchModel.Section PatchModel.Run PatchModel.RunB PatchModel.RunG PatchModel.RunDl

/-- `guess_filepath` for a patch whose old name is `/dev/null` and whose new name is a file of the tree: the new name -/
theorem run_guessFilepath_new (pt : Patch) (r : Bool) {s : DState} {b : Bytes} {m : Nat} (hcwd : s.cwd = [])
    (hrc : (r && (pt.operation == .rename || pt.operation == .copy)) = false)
    (hold : pt.oldPath = devNull) (hnd : pt.newPath ≠ devNull) (h : s.fs.lookup pt.newPath = some (.file b m)) :
    (guessFilepath pt r).run s = (.ok pt.newPath, s) := by
  have hne : (pt.newPath != devNull) = true := by simpa using hnd
  unfold guessFilepath
  simp only [run_bind, run_fsExists_file hcwd h, hrc, hold, hne, bne_self_eq_false, Bool.false_and, Bool.false_eq_true,
    if_false, Bool.and_self, if_true, run_fsExists]
  rfl

structure RcSection (o : Options) (fmt : Format) (s : DState) (p bytes : Bytes) (m : Nat)
    (patch0 patch2 patch3 : Patch) (info : HeaderInfo) (par1 par2 : Parser) (r : ApplyResult) : Prop where
  target : o.fileToPatch = p ∨ (o.fileToPatch = [] ∧ patch0.oldPath = devNull ∧ patch0.newPath = p ∧ p ≠ devNull)
  noOut : o.outFile = []
  noBackup : o.saveBackup = false
  removeEmpty : o.removeEmptyFiles = .yes
  pathNe : p ≠ []
  flat : dirPrefixes p = []
  cwd : s.cwd = []
  hdr : parseHeader s.par { format := fmt } o.strip = .ok (true, patch0, info, par1)
  fmt : patch0.format = .unified ∨ patch0.format = .context ∨ patch0.format = .normal
  op : patch0.operation = .add
  pre : patch0.prerequisite = []
  body : parseBody par1 patch0 = .ok (patch2, par2)
  fmt3 : patch3.format = patch0.format
  op3 : patch3.operation = .delete
  file : s.fs.lookup p = some (.file bytes m)
  writable : m &&& writeMask ≠ 0
  root : s.fs.isRoot = true
  noFault : s.faultAt = none
  apply : applyPatch (splitLines bytes) patch2 (applyOptsOf o)
      (Option.map (fun l => List.map (fun a => !List.isEmpty a && List.head? a != some 110) l) s.tty) = .ok r
  failed : r.failed = 0
  perfect : r.perfect = true
  skipped : r.skipped = false
  msgs : r.msgs = []
  ttyLeft : r.tty = Option.map (fun l => List.map (fun a => !List.isEmpty a && List.head? a != some 110) l) s.tty
  patch : r.patch = patch3
  /-- nothing is left of the file -/
  empty : (render o.newlineOutput r.out).isEmpty = true

section
variable {o : Options} {fmt : Format} {s : DState} {p bytes : Bytes} {m : Nat}
  {patch0 patch2 patch3 : Patch} {info : HeaderInfo} {par1 par2 : Parser} {r : ApplyResult}

syntax "rc_run " "[" Lean.Parser.Tactic.simpLemma,* "]" : tactic
set_option hygiene false in
macro_rules | `(tactic| rc_run [$ls,*]) => `(tactic| (
  have hfu : (patch0.format == Format.unknown) = false := by
    rcases H.fmt with h | h | h <;> rw [h] <;> rfl
  have hfg : (patch3.format == Format.git) = false := by
    rw [H.fmt3]; rcases H.fmt with h | h | h <;> rw [h] <;> rfl
  have hob : (patch0.operation == Operation.binary) = false := by rw [H.op]; rfl
  have hor : (patch0.operation == Operation.rename) = false := by rw [H.op]; rfl
  have hoc : (patch0.operation == Operation.copy) = false := by rw [H.op]; rfl
  have hoa : (patch0.operation == Operation.add) = true := by rw [H.op]; rfl
  have hoa2 : (patch3.operation == Operation.add) = false := by rw [H.op3]; rfl
  have hor2 : (patch3.operation == Operation.rename) = false := by rw [H.op3]; rfl
  have hoc2 : (patch3.operation == Operation.copy) = false := by rw [H.op3]; rfl
  have hod2 : (patch3.operation == Operation.delete) = true := by rw [H.op3]; rfl
  have hE : (o.removeEmptyFiles == OptionalBool.yes) = true := by rw [H.removeEmpty]; rfl
  have hpe : List.isEmpty p = false := by
    cases p with
    | nil => exact absurd rfl H.pathNe
    | cons _ _ => rfl
  have hout : outputPath o patch0 p = p := by
    unfold outputPath; simp [H.noOut, hor, hoc]
  have hdash : (o.outFile == [45]) = false := by rw [H.noOut]; rfl
  unfold processSection
  simp only [↓run_bind, ↓run_get, ↓run_liftE, ↓run_modify, ↓run_pure, ↓run_emit,
    H.hdr, hfu, hob, hpe, hout, hor, hdash, hoa,
    Bool.false_eq_true, ↓reduceIte, Bool.false_and, Bool.and_false, Bool.not_true, Bool.not_false,
    Bool.or_false, Bool.false_or, Bool.and_true, Bool.true_and, Bool.or_true, Bool.true_or,
    run_createTemp, H.noFault, H.cwd,
    run_fsExists_file (b := bytes) (m := m), run_fsIsRegular_file (b := bytes) (m := m),
    run_fsIsSymlink_file (b := bytes) (m := m), H.file,
    (fun s' => @run_fixPermissions_writable o s' p bytes m), H.writable, ne_eq, not_false_eq_true,
    absPath_nil, readFile_root (b := bytes) (m := m), H.root,
    H.pre, List.isEmpty_nil,
    run_parseBodyM_true (pt' := patch2) (par' := par2), H.body,
    H.apply, H.msgs, H.failed, H.perfect, H.skipped, H.patch, H.noBackup, hoa2, hor2, hoc2, hod2, hE, H.empty,
    bne_self_eq_false, beq_self_eq_true, H.ttyLeft, hfg, $ls,*]))

/-- **a section that un-creates its file (`-R` on a creating patch), real run**: the target is unlinked — nothing else happens to
    the tree, nothing is written, no failure is recorded -/
theorem processSection_uncreate (H : RcSection o fmt s p bytes m patch0 patch2 patch3 info par1 par2 r) (hreal : o.dryRun = false) :
    ∃ s', (processSection o fmt).run s = (.ok true, s') ∧
      s'.fs = s.fs.erase p ∧
      s'.trace = s.trace ++ [.tmpCreate, .tmpUnlink] ++ [.tmpCreate, .tmpUnlink] ++ [.unlink p] ∧
      s'.rejWritten = s.rejWritten ∧
      SectionDone s s' p par2 false := by
  rcases H.target with ht | ⟨hno, h0, h1, hnn⟩
  · rc_run [ht, hreal, (fun s' => @run_removeFile_flat s' p bytes m H.flat)]
    refine ⟨_, rfl, rfl, rfl, rfl, ⟨rfl, rfl, rfl, rfl, ?_, ?_, H.cwd.symm, H.noFault.symm, rfl, rfl, rfl, rfl, rfl⟩⟩
    · generalize s.tty = t
      cases t <;> simp
    · simp
  · have hguess : ∀ s' : DState, s'.cwd = [] → s'.fs.lookup p = some (.file bytes m) →
        (guessFilepath patch0 o.reverse).run s' = (.ok p, s') := by
      intro s' hc hl
      have := run_guessFilepath_new patch0 o.reverse (s := s') (b := bytes) (m := m) hc (by rw [H.op]; simp) h0
        (by rw [h1]; exact hnn) (by rw [h1]; exact hl)
      rw [h1] at this
      exact this
    rc_run [hno, hguess, hreal, (fun s' => @run_removeFile_flat s' p bytes m H.flat)]
    refine ⟨_, rfl, rfl, rfl, rfl, ⟨rfl, rfl, rfl, rfl, ?_, ?_, H.cwd.symm, H.noFault.symm, rfl, rfl, rfl, rfl, rfl⟩⟩
    · generalize s.tty = t
      cases t <;> simp
    · simp

end
end PatchModel.RunRc
