/-
  Lemmas/Splice — facts about `copyRange`, `hunkOutput`, `writeHunk` and `spliceAt`
  (which original lines appear in the output of a list of placements, and in which order).
-/
import PatchModel.Spec.Script
namespace PatchModel.Splice

/-! ### operation bytes -/

@[simp] theorem SP_beq_PLUS : (SP == PLUS) = false := by decide
@[simp] theorem SP_beq_MINUS : (SP == MINUS) = false := by decide
@[simp] theorem PLUS_beq_SP : (PLUS == SP) = false := by decide
@[simp] theorem PLUS_beq_MINUS : (PLUS == MINUS) = false := by decide
@[simp] theorem MINUS_beq_SP : (MINUS == SP) = false := by decide
@[simp] theorem MINUS_beq_PLUS : (MINUS == PLUS) = false := by decide

/-- the three operations of a well-formed hunk line -/
def OpsOK (ls : List PatchLine) : Prop := ∀ pl ∈ ls, pl.op = SP ∨ pl.op = PLUS ∨ pl.op = MINUS

theorem OpsOK.tail {pl : PatchLine} {ls : List PatchLine} (h : OpsOK (pl :: ls)) : OpsOK ls :=
  fun x hx => h x (List.mem_cons_of_mem _ hx)

theorem OpsOK.head {pl : PatchLine} {ls : List PatchLine} (h : OpsOK (pl :: ls)) :
    pl.op = SP ∨ pl.op = PLUS ∨ pl.op = MINUS := h pl (List.mem_cons_self ..)

/-! ### old side / new side -/

theorem oldOf_nil : oldOf [] = [] := rfl
theorem newOf_nil : newOf [] = [] := rfl

theorem oldOf_cons_plus {pl : PatchLine} {ls : List PatchLine} (h : pl.op = PLUS) :
    oldOf (pl :: ls) = oldOf ls := by simp [oldOf, h]

theorem oldOf_cons_not_plus {pl : PatchLine} {ls : List PatchLine} (h : (pl.op == PLUS) = false) :
    oldOf (pl :: ls) = pl.line :: oldOf ls := by simp [oldOf, bne, h]

theorem newOf_cons_minus {pl : PatchLine} {ls : List PatchLine} (h : pl.op = MINUS) :
    newOf (pl :: ls) = newOf ls := by simp [newOf, h]

theorem newOf_cons_not_minus {pl : PatchLine} {ls : List PatchLine} (h : (pl.op == MINUS) = false) :
    newOf (pl :: ls) = pl.line :: newOf ls := by simp [newOf, bne, h]

theorem oldOf_length (ls : List PatchLine) : (oldOf ls).length = oldLineCount ls := by
  simp [oldOf, oldLineCount]

/-! ### source indices of output items -/

/-- index of the original line an output item was copied from -/
def Out.srcIdx : Out → Option Nat
  | .fromFile i _ => some i
  | _ => none

/-- the original line numbers that occur in a list of output items, in order -/
def srcIdxs (os : List Out) : List Nat := os.filterMap Out.srcIdx

@[simp] theorem srcIdxs_nil : srcIdxs [] = [] := rfl
@[simp] theorem srcIdxs_append (a b : List Out) : srcIdxs (a ++ b) = srcIdxs a ++ srcIdxs b := by
  simp [srcIdxs]
@[simp] theorem srcIdxs_cons_fromFile (i : Nat) (l : Line) (os : List Out) :
    srcIdxs (.fromFile i l :: os) = i :: srcIdxs os := by simp [srcIdxs, Out.srcIdx]
@[simp] theorem srcIdxs_cons_fromPatch (l : Line) (os : List Out) :
    srcIdxs (.fromPatch l :: os) = srcIdxs os := by
  unfold srcIdxs; rw [List.filterMap_cons]; rfl

/-- every `fromFile i l` in the list carries line `i` of the file -/
def Faithful (file : List Line) (os : List Out) : Prop :=
  ∀ o ∈ os, ∀ i l, o = Out.fromFile i l → file[i]? = some l

theorem Faithful.nil (file : List Line) : Faithful file [] := by intro o ho; cases ho

theorem Faithful.append {file : List Line} {a b : List Out} (ha : Faithful file a) (hb : Faithful file b) :
    Faithful file (a ++ b) := by
  intro o ho
  rcases List.mem_append.1 ho with h | h
  · exact ha o h
  · exact hb o h

/-! ### copyRange -/

theorem copyRange_zero (file : List Line) (c : Nat) : copyRange file c 0 = [] := by
  simp [copyRange]

theorem copyRange_succ (file : List Line) (c n : Nat) :
    copyRange file c (n + 1) =
      match file[c]? with
      | none => []
      | some l => Out.fromFile c l :: copyRange file (c + 1) n := by
  unfold copyRange
  by_cases hc : c < file.length
  · rw [List.getElem?_eq_getElem hc]
    simp only []
    rw [List.drop_eq_getElem_cons hc, List.take_succ_cons, List.zipIdx_cons, List.map_cons]
    congr 1
    rw [List.zipIdx_succ, List.map_map]
    apply List.map_congr_left
    intro ⟨x, k⟩ _
    simp only [Function.comp]
    congr 1
    omega
  · have : file[c]? = none := by simp; omega
    rw [this]
    simp only []
    rw [List.drop_eq_nil_of_le (by omega)]
    simp

theorem copyRange_faithful (file : List Line) : ∀ n c, Faithful file (copyRange file c n) := by
  intro n
  induction n with
  | zero => intro c; rw [copyRange_zero]; exact Faithful.nil _
  | succ n ih =>
    intro c
    rw [copyRange_succ]
    split
    · exact Faithful.nil _
    · next l hl =>
      intro o ho i l' he
      rcases List.mem_cons.1 ho with h | h
      · subst h; cases he; exact hl
      · exact ih (c + 1) o h i l' he

theorem srcIdxs_copyRange (file : List Line) : ∀ n c,
    srcIdxs (copyRange file c n) = List.range' c (min n (file.length - c)) := by
  intro n
  induction n with
  | zero => intro c; simp [copyRange_zero]
  | succ n ih =>
    intro c
    rw [copyRange_succ]
    split
    · next h =>
      have : file.length ≤ c := by simpa using h
      have : min (n + 1) (file.length - c) = 0 := by omega
      simp [this]
    · next l hl =>
      have hc : c < file.length := by
        rcases List.getElem?_eq_some_iff.1 hl with ⟨h, _⟩; exact h
      have : min (n + 1) (file.length - c) = min n (file.length - (c + 1)) + 1 := by omega
      rw [srcIdxs_cons_fromFile, ih, this, List.range'_succ]

theorem mem_srcIdxs_copyRange {file : List Line} {n c i : Nat} :
    i ∈ srcIdxs (copyRange file c n) ↔ c ≤ i ∧ i < c + n ∧ i < file.length := by
  rw [srcIdxs_copyRange, List.mem_range'_1]
  omega

theorem srcIdxs_copyRange_sorted (file : List Line) (n c : Nat) :
    (srcIdxs (copyRange file c n)).Pairwise (· < ·) := by
  rw [srcIdxs_copyRange]; exact List.pairwise_lt_range'

/-! ### hunkOutput -/

theorem hunkOutput_faithful (file : List Line) : ∀ ls p, Faithful file (hunkOutput file ls p) := by
  intro ls
  induction ls with
  | nil => intro p; exact Faithful.nil _
  | cons pl rest ih =>
    intro p
    rw [hunkOutput]
    split
    · intro o ho i l he
      rcases List.mem_cons.1 ho with h | h
      · subst h; cases he
      · exact ih p o h i l he
    · split
      · apply Faithful.append _ (ih (p + 1))
        split
        · next l hl =>
          intro o ho i l' he
          rcases List.mem_singleton.1 ho with h
          subst h; cases he; exact hl
        · exact Faithful.nil _
      · exact ih (p + 1)

theorem srcIdxs_hunkOutput_bounds (file : List Line) : ∀ ls p i,
    i ∈ srcIdxs (hunkOutput file ls p) → p ≤ i ∧ i < p + (oldOf ls).length := by
  intro ls
  induction ls with
  | nil => intro p i h; simp [hunkOutput] at h
  | cons pl rest ih =>
    intro p i h
    rw [hunkOutput] at h
    split at h
    · next hp =>
      rw [srcIdxs_cons_fromPatch] at h
      rw [oldOf_cons_plus (by simpa using hp)]
      exact ih p i h
    · next hp =>
      have hp' : (pl.op == PLUS) = false := by simpa using hp
      rw [oldOf_cons_not_plus hp', List.length_cons]
      split at h
      · rw [srcIdxs_append, List.mem_append] at h
        rcases h with h | h
        · split at h
          · simp at h; omega
          · simp at h
        · have := ih (p + 1) i h; omega
      · have := ih (p + 1) i h; omega

theorem srcIdxs_hunkOutput_sorted (file : List Line) : ∀ ls p,
    (srcIdxs (hunkOutput file ls p)).Pairwise (· < ·) := by
  intro ls
  induction ls with
  | nil => intro p; simp [hunkOutput]
  | cons pl rest ih =>
    intro p
    rw [hunkOutput]
    split
    · rw [srcIdxs_cons_fromPatch]; exact ih p
    · split
      · rw [srcIdxs_append, List.pairwise_append]
        refine ⟨?_, ih (p + 1), ?_⟩
        · split <;> simp
        · intro a ha b hb
          have hb := srcIdxs_hunkOutput_bounds file rest (p + 1) b hb
          split at ha
          · simp at ha; omega
          · simp at ha
      · exact ih (p + 1)

/-- the `k`-th old-side line of the hunk body is a deletion -/
def delAt (ls : List PatchLine) (k : Nat) : Bool :=
  match (ls.filter (·.op != PLUS))[k]? with
  | some pl => pl.op == MINUS
  | none => false

theorem delAt_cons_plus {pl : PatchLine} {ls : List PatchLine} (h : pl.op = PLUS) (k : Nat) :
    delAt (pl :: ls) k = delAt ls k := by simp [delAt, h]

theorem delAt_cons_zero {pl : PatchLine} {ls : List PatchLine} (h : (pl.op == PLUS) = false) :
    delAt (pl :: ls) 0 = (pl.op == MINUS) := by simp [delAt, bne, h]

theorem delAt_cons_succ {pl : PatchLine} {ls : List PatchLine} (h : (pl.op == PLUS) = false) (k : Nat) :
    delAt (pl :: ls) (k + 1) = delAt ls k := by simp [delAt, bne, h]

theorem delAt_of_ge {ls : List PatchLine} {k : Nat} (h : (oldOf ls).length ≤ k) : delAt ls k = false := by
  have : (ls.filter (·.op != PLUS))[k]? = none := by
    apply List.getElem?_eq_none; simpa [oldOf] using h
  simp [delAt, this]

theorem mem_srcIdxs_hunkOutput (file : List Line) : ∀ ls p i, OpsOK ls →
    i < file.length → p ≤ i → i < p + (oldOf ls).length →
    (i ∈ srcIdxs (hunkOutput file ls p) ↔ delAt ls (i - p) = false) := by
  intro ls
  induction ls with
  | nil => intro p i _ _ h1 h2; simp [oldOf] at h2; omega
  | cons pl rest ih =>
    intro p i hops hfit h1 h2
    rw [hunkOutput]
    rcases hops.head with hop | hop | hop
    · -- context line
      have hp' : (pl.op == PLUS) = false := by simp [hop]
      rw [oldOf_cons_not_plus hp', List.length_cons] at h2
      have hlt : p < file.length := by omega
      simp only [hop, SP_beq_PLUS, if_false, beq_self_eq_true, if_true, Bool.false_eq_true,
        List.getElem?_eq_getElem hlt, srcIdxs_append, srcIdxs_cons_fromFile, srcIdxs_nil]
      by_cases hi : i = p
      · subst hi
        simp [delAt_cons_zero hp', hop]
      · have : i - p = (i - (p + 1)) + 1 := by omega
        rw [this, delAt_cons_succ hp', ← ih (p + 1) i hops.tail hfit (by omega) (by omega)]
        simp [hi]
    · -- addition
      rw [oldOf_cons_plus hop] at h2
      simp only [hop, beq_self_eq_true, if_true, srcIdxs_cons_fromPatch, delAt_cons_plus hop]
      exact ih p i hops.tail hfit h1 h2
    · -- deletion
      have hp' : (pl.op == PLUS) = false := by simp [hop]
      rw [oldOf_cons_not_plus hp', List.length_cons] at h2
      simp only [hop, MINUS_beq_PLUS, MINUS_beq_SP, if_false, Bool.false_eq_true]
      by_cases hi : i = p
      · subst hi
        simp only [Nat.sub_self, delAt_cons_zero hp', hop, beq_self_eq_true]
        constructor
        · intro h; have := srcIdxs_hunkOutput_bounds file rest (i + 1) i h; omega
        · intro h; cases h
      · have : i - p = (i - (p + 1)) + 1 := by omega
        rw [this, delAt_cons_succ hp']
        exact ih (p + 1) i hops.tail hfit (by omega) (by omega)

/-- an output item copied from the file comes from a line of the file -/
theorem srcIdxs_hunkOutput_lt (file : List Line) (ls : List PatchLine) (p i : Nat)
    (h : i ∈ srcIdxs (hunkOutput file ls p)) : i < file.length := by
  have hf := hunkOutput_faithful file ls p
  simp only [srcIdxs, List.mem_filterMap] at h
  obtain ⟨o, ho, hoi⟩ := h
  cases o with
  | fromFile j l =>
    simp only [Out.srcIdx, Option.some.injEq] at hoi
    subst hoi
    have := hf _ ho j l rfl
    exact (List.getElem?_eq_some_iff.1 this).1
  | fromPatch l => simp [Out.srcIdx] at hoi
  | directive l => simp [Out.srcIdx] at hoi

/-- beyond the end of the file a hunk writes its additions only, wherever it is put -/
theorem hunkOutput_beyond (file : List Line) : ∀ ls c c', file.length ≤ c → file.length ≤ c' →
    hunkOutput file ls c = hunkOutput file ls c' := by
  intro ls
  induction ls with
  | nil => intros; rfl
  | cons pl rest ih =>
    intro c c' hc hc'
    rw [hunkOutput, hunkOutput]
    have h1 : file[c]? = none := List.getElem?_eq_none hc
    have h2 : file[c']? = none := List.getElem?_eq_none hc'
    rw [h1, h2, ih c c' hc hc', ih (c + 1) (c' + 1) (by omega) (by omega)]

/-! ### write_hunk writes `hunkOutput` -/

theorem writeHunk_eq (file : List Line) : ∀ ls p, OpsOK ls → p + (oldOf ls).length ≤ file.length →
    writeHunk file ls p = some (hunkOutput file ls p, p + (oldOf ls).length) := by
  intro ls
  induction ls with
  | nil => intro p _ _; simp [writeHunk, hunkOutput, oldOf]
  | cons pl rest ih =>
    intro p hops hfit
    rw [writeHunk, hunkOutput]
    rcases hops.head with hop | hop | hop
    · have hp' : (pl.op == PLUS) = false := by simp [hop]
      rw [oldOf_cons_not_plus hp', List.length_cons] at hfit ⊢
      have hlt : p < file.length := by omega
      have hne : (p == file.length) = false := by simp; omega
      simp only [hop, SP_beq_PLUS, if_false, beq_self_eq_true, if_true, Bool.false_eq_true,
        List.getElem?_eq_getElem hlt, hne]
      rw [ih (p + 1) hops.tail (by omega)]
      simp; omega
    · rw [oldOf_cons_plus hop] at hfit ⊢
      simp only [hop, beq_self_eq_true, if_true, PLUS_beq_SP, if_false, Bool.false_eq_true]
      rw [ih p hops.tail hfit]
      simp
    · have hp' : (pl.op == PLUS) = false := by simp [hop]
      rw [oldOf_cons_not_plus hp', List.length_cons] at hfit ⊢
      simp only [hop, MINUS_beq_PLUS, MINUS_beq_SP, if_false, beq_self_eq_true, if_true, Bool.false_eq_true]
      rw [ih (p + 1) hops.tail (by omega)]
      simp; omega

/-- D99: at the end of the file a hunk without further deletions writes its additions and stays there -/
theorem writeHunk_at_end (file : List Line) : ∀ ls, OpsOK ls → (∀ k, delAt ls k = false) →
    writeHunk file ls file.length = some (hunkOutput file ls file.length, file.length) := by
  intro ls
  induction ls with
  | nil => intro _ _; simp [writeHunk, hunkOutput]
  | cons pl rest ih =>
    intro hops hdel
    rw [writeHunk, hunkOutput]
    rcases hops.head with hop | hop | hop
    · have hp' : (pl.op == PLUS) = false := by simp [hop]
      have hdel' : ∀ k, delAt rest k = false := fun k => by
        have := hdel (k + 1); rwa [delAt_cons_succ hp'] at this
      have h1 : file[file.length]? = none := List.getElem?_eq_none (Nat.le_refl _)
      simp only [hop, SP_beq_PLUS, if_false, beq_self_eq_true, if_true, Bool.false_eq_true, h1]
      rw [ih hops.tail hdel', hunkOutput_beyond file rest (file.length + 1) file.length (by omega) (by omega)]
      simp
    · have hdel' : ∀ k, delAt rest k = false := fun k => by
        have := hdel k; rwa [delAt_cons_plus hop] at this
      simp only [hop, beq_self_eq_true, if_true, PLUS_beq_SP, if_false, Bool.false_eq_true]
      rw [ih hops.tail hdel']
      simp
    · have hp' : (pl.op == PLUS) = false := by simp [hop]
      have := hdel 0
      rw [delAt_cons_zero hp'] at this
      simp [hop] at this

/-- D99: `write_hunk` for a hunk whose lines beyond the end of the file are all context: it writes `hunkOutput` and
    stops behind its old side or at the end of the file -/
theorem writeHunk_eq_min (file : List Line) : ∀ ls p, OpsOK ls → p ≤ file.length →
    (∀ k, file.length ≤ p + k → delAt ls k = false) →
    writeHunk file ls p = some (hunkOutput file ls p, min (p + (oldOf ls).length) file.length) := by
  intro ls
  induction ls with
  | nil => intro p _ hp _; simp [writeHunk, hunkOutput, oldOf]; omega
  | cons pl rest ih =>
    intro p hops hple hdel
    by_cases hpe : p = file.length
    · subst hpe
      rw [writeHunk_at_end file _ hops (fun k => hdel k (by omega))]
      congr 2; omega
    have hlt : p < file.length := by omega
    rw [writeHunk, hunkOutput]
    rcases hops.head with hop | hop | hop
    · have hp' : (pl.op == PLUS) = false := by simp [hop]
      have hdel' : ∀ k, file.length ≤ p + 1 + k → delAt rest k = false := fun k hk => by
        have := hdel (k + 1) (by omega); rwa [delAt_cons_succ hp'] at this
      rw [oldOf_cons_not_plus hp', List.length_cons]
      have hne : (p == file.length) = false := by simp; omega
      simp only [hop, SP_beq_PLUS, if_false, beq_self_eq_true, if_true, Bool.false_eq_true,
        List.getElem?_eq_getElem hlt, hne]
      rw [ih (p + 1) hops.tail (by omega) hdel']
      simp; omega
    · have hdel' : ∀ k, file.length ≤ p + k → delAt rest k = false := fun k hk => by
        have := hdel k hk; rwa [delAt_cons_plus hop] at this
      rw [oldOf_cons_plus hop]
      simp only [hop, beq_self_eq_true, if_true, PLUS_beq_SP, if_false, Bool.false_eq_true]
      rw [ih p hops.tail hple hdel']
      simp
    · have hp' : (pl.op == PLUS) = false := by simp [hop]
      have hdel' : ∀ k, file.length ≤ p + 1 + k → delAt rest k = false := fun k hk => by
        have := hdel (k + 1) (by omega); rwa [delAt_cons_succ hp'] at this
      rw [oldOf_cons_not_plus hp', List.length_cons]
      simp only [hop, MINUS_beq_PLUS, MINUS_beq_SP, if_false, beq_self_eq_true, if_true, Bool.false_eq_true]
      rw [ih (p + 1) hops.tail (by omega) hdel']
      simp; omega

/-! ### spliceAt -/

theorem spliceAt_nil (file : List Line) (c : Nat) :
    spliceAt file c [] = copyRange file c (file.length - c) := rfl

theorem spliceAt_cons (file : List Line) (c : Nat) (h : Hunk) (p : Nat) (rest : List (Hunk × Nat)) :
    spliceAt file c ((h, p) :: rest) =
      copyRange file c (p - c) ++ hunkOutput file h.lines p ++ spliceAt file (nextCursor file h p) rest := rfl

theorem nextCursor_le (file : List Line) (h : Hunk) (p : Nat) : nextCursor file h p ≤ file.length := by
  unfold nextCursor; omega

theorem nextCursor_le_old (file : List Line) (h : Hunk) (p : Nat) : nextCursor file h p ≤ p + (oldOf h.lines).length := by
  unfold nextCursor; omega

theorem le_nextCursor {file : List Line} (h : Hunk) {p : Nat} (hp : p ≤ file.length) : p ≤ nextCursor file h p := by
  unfold nextCursor; omega

/-- inside the file the cursor goes on behind the old side, as it always did -/
theorem nextCursor_of_fit {file : List Line} {h : Hunk} {p : Nat} (hfit : p + (oldOf h.lines).length ≤ file.length) :
    nextCursor file h p = p + (oldOf h.lines).length := by
  unfold nextCursor; omega

theorem spliceAt_cons_of_fit (file : List Line) (c : Nat) (h : Hunk) (p : Nat) (rest : List (Hunk × Nat))
    (hfit : p + (oldOf h.lines).length ≤ file.length) :
    spliceAt file c ((h, p) :: rest) =
      copyRange file c (p - c) ++ hunkOutput file h.lines p ++ spliceAt file (p + (oldOf h.lines).length) rest := by
  rw [spliceAt_cons, nextCursor_of_fit hfit]

theorem increasingB_cons {file : List Line} {c : Nat} {h : Hunk} {p : Nat} {rest : List (Hunk × Nat)} :
    increasingB file c ((h, p) :: rest) = true ↔
      c ≤ p ∧ p ≤ file.length ∧
        increasingB file (nextCursor file h p) rest = true := by
  simp [increasingB, and_assoc]

theorem increasingB_cons_of_fit {file : List Line} {c : Nat} {h : Hunk} {p : Nat} {rest : List (Hunk × Nat)}
    (hfit : p + (oldOf h.lines).length ≤ file.length) :
    increasingB file c ((h, p) :: rest) = true ↔
      c ≤ p ∧ increasingB file (p + (oldOf h.lines).length) rest = true := by
  rw [increasingB_cons, nextCursor_of_fit hfit]
  constructor
  · rintro ⟨a, _, b⟩; exact ⟨a, b⟩
  · rintro ⟨a, b⟩; exact ⟨a, by omega, b⟩

theorem increasingB_nil {file : List Line} {c : Nat} : increasingB file c [] = true ↔ c ≤ file.length := by
  simp [increasingB]

theorem spliceAt_faithful (file : List Line) : ∀ pls c, Faithful file (spliceAt file c pls) := by
  intro pls
  induction pls with
  | nil => intro c; exact copyRange_faithful file _ _
  | cons hp rest ih =>
    intro c
    obtain ⟨h, p⟩ := hp
    rw [spliceAt_cons]
    exact ((copyRange_faithful file _ _).append (hunkOutput_faithful file _ _)).append (ih _)

theorem srcIdxs_spliceAt_ge (file : List Line) : ∀ pls c, increasingB file c pls = true →
    ∀ i ∈ srcIdxs (spliceAt file c pls), c ≤ i := by
  intro pls
  induction pls with
  | nil =>
    intro c _ i hi
    rw [spliceAt_nil] at hi
    exact (mem_srcIdxs_copyRange.1 hi).1
  | cons hp rest ih =>
    intro c hinc i hi
    obtain ⟨h, p⟩ := hp
    obtain ⟨h1, h2, h3⟩ := increasingB_cons.1 hinc
    have hnc : nextCursor file h p = min (p + (oldOf h.lines).length) file.length := rfl
    rw [spliceAt_cons, srcIdxs_append, srcIdxs_append, List.mem_append, List.mem_append] at hi
    rcases hi with (hi | hi) | hi
    · exact (mem_srcIdxs_copyRange.1 hi).1
    · have := srcIdxs_hunkOutput_bounds file _ _ _ hi; omega
    · have := ih _ h3 i hi; omega

theorem srcIdxs_spliceAt_sorted (file : List Line) : ∀ pls c, increasingB file c pls = true →
    (srcIdxs (spliceAt file c pls)).Pairwise (· < ·) := by
  intro pls
  induction pls with
  | nil => intro c _; rw [spliceAt_nil]; exact srcIdxs_copyRange_sorted ..
  | cons hp rest ih =>
    intro c hinc
    obtain ⟨h, p⟩ := hp
    obtain ⟨h1, h2, h3⟩ := increasingB_cons.1 hinc
    have hnc : nextCursor file h p = min (p + (oldOf h.lines).length) file.length := rfl
    rw [spliceAt_cons, srcIdxs_append, srcIdxs_append, List.pairwise_append, List.pairwise_append]
    refine ⟨⟨srcIdxs_copyRange_sorted .., srcIdxs_hunkOutput_sorted .., ?_⟩, ih _ h3, ?_⟩
    · intro a ha b hb
      have := mem_srcIdxs_copyRange.1 ha
      have := srcIdxs_hunkOutput_bounds file _ _ _ hb
      omega
    · intro a ha b hb
      have hb := srcIdxs_spliceAt_ge file _ _ h3 b hb
      rcases List.mem_append.1 ha with ha | ha
      · have := mem_srcIdxs_copyRange.1 ha; omega
      · have := srcIdxs_hunkOutput_bounds file _ _ _ ha
        have := srcIdxs_hunkOutput_lt file _ _ _ ha; omega

/-- original line `i` lies under a '-' line of one of the placements -/
def delB (pls : List (Hunk × Nat)) (i : Nat) : Bool :=
  pls.any fun (h, p) => decide (p ≤ i) && delAt h.lines (i - p)

theorem delB_cons (h : Hunk) (p : Nat) (rest : List (Hunk × Nat)) (i : Nat) :
    delB ((h, p) :: rest) i = ((decide (p ≤ i) && delAt h.lines (i - p)) || delB rest i) := by
  simp [delB]

theorem delB_of_lt (file : List Line) : ∀ pls c i, increasingB file c pls = true → i < c → delB pls i = false := by
  intro pls
  induction pls with
  | nil => intros; rfl
  | cons hp rest ih =>
    intro c i hinc hi
    obtain ⟨h, p⟩ := hp
    obtain ⟨h1, h2, h3⟩ := increasingB_cons.1 hinc
    have hnc : nextCursor file h p = min (p + (oldOf h.lines).length) file.length := rfl
    rw [delB_cons, ih _ i h3 (by omega)]
    have : ¬ p ≤ i := by omega
    simp [this]

theorem mem_srcIdxs_spliceAt (file : List Line) : ∀ pls c, increasingB file c pls = true →
    (∀ hp ∈ pls, OpsOK hp.1.lines) → ∀ i, c ≤ i → i < file.length →
    (i ∈ srcIdxs (spliceAt file c pls) ↔ delB pls i = false) := by
  intro pls
  induction pls with
  | nil =>
    intro c _ _ i h1 h2
    rw [spliceAt_nil, mem_srcIdxs_copyRange]
    simp [delB]; omega
  | cons hp rest ih =>
    intro c hinc hops i hi1 hi2
    obtain ⟨h, p⟩ := hp
    obtain ⟨h1, h2, h3⟩ := increasingB_cons.1 hinc
    have hnc : nextCursor file h p = min (p + (oldOf h.lines).length) file.length := rfl
    have hops' : ∀ hp ∈ rest, OpsOK hp.1.lines := fun x hx => hops x (List.mem_cons_of_mem _ hx)
    have hopsh : OpsOK h.lines := hops (h, p) (List.mem_cons_self ..)
    rw [spliceAt_cons, srcIdxs_append, srcIdxs_append, List.mem_append, List.mem_append, delB_cons]
    by_cases hA : i < p
    · -- copied before the hunk
      have hd : delB rest i = false := delB_of_lt file rest _ i h3 (by omega)
      have : ¬ p ≤ i := by omega
      simp only [hd, this, decide_false, Bool.false_and, Bool.or_false, iff_true]
      exact Or.inl (Or.inl (mem_srcIdxs_copyRange.2 ⟨hi1, by omega, hi2⟩))
    · by_cases hB : i < p + (oldOf h.lines).length
      · -- under the hunk
        have hd : delB rest i = false := delB_of_lt file rest _ i h3 (by omega)
        have hpi : p ≤ i := by omega
        simp only [hd, hpi, decide_true, Bool.true_and, Bool.or_false]
        rw [← mem_srcIdxs_hunkOutput file h.lines p i hopsh hi2 hpi hB]
        constructor
        · rintro ((hm | hm) | hm)
          · have := mem_srcIdxs_copyRange.1 hm; omega
          · exact hm
          · have := srcIdxs_spliceAt_ge file _ _ h3 i hm; omega
        · intro hm; exact Or.inl (Or.inr hm)
      · -- after the hunk
        have hda : delAt h.lines (i - p) = false := delAt_of_ge (by omega)
        simp only [hda, Bool.and_false, Bool.false_or]
        rw [← ih _ h3 hops' i (by omega) hi2]
        constructor
        · rintro ((hm | hm) | hm)
          · have := mem_srcIdxs_copyRange.1 hm; omega
          · have := srcIdxs_hunkOutput_bounds file _ _ _ hm; omega
          · exact hm
        · intro hm; exact Or.inr hm

end PatchModel.Splice
