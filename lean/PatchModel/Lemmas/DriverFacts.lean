/-
  Lemmas/DriverFacts — reasoning about the driver monad `DM = ExceptT Exn (StateM DState)` of Model/Driver
  (used by Wip/C18: C18 backups, C04 exit status, C09 atomicity / ordering).

  * `run_*`: how `pure`/`bind`/`throw`/`get`/`set`/`modify`/`if`/`liftE`/`emit`/`failNow` run (a `DM α` is a function
    `DState → Except Exn α × DState`); `doOp_run`/`tryOp_run`/`doOp_cases`/`tryOp_cases`/`doOp_run_ok`: the exact
    behaviour of the two primitives; `run_opCreat` … `run_opRename`, `makeBackupFor_run`;
  * `Fs.lookup_set_self`/`_ne`, `Fs.lookup_erase_self`/`_ne`, `Fs.stat_of_file`: the tree after `set`/`erase`;
  * `Spec R E m`: relational specification — `R s s'` for every normal completion of `m` from `s` in `s'`,
    `E e s s'` for every abort with exception `e`; `Spec.bind'` (general), and for `Good R E` (preorder + absorption)
    `Spec.bind/pure/get/ite/forIn/liftE`, primitives `Spec.doOp/tryOp/modify/emit/failNow/throw`, `ReadOnly`;
  * tactic `spec_walk g` (`g : Good R E`): walks through an unfolded `do` block (binds, ifs, matches, `for` loops, the
    join points `have __do_jp := …`, each proved once); leaves are closed by the extensible `spec_leaf`;
  * instances:
      `TrExt A`   the trace grows by operations satisfying `A`, whatever the outcome (`…_trExt`, `TrExt.seq2`);
      `Quiet`     failure flag unchanged, only harmless events, only `system_error` thrown (`…_quiet`, `quiet_leaf`);
      `Neutral`   the same on normal completion only (`neutral_leaf`);
      `NoText`    no `parser_error`/`invalid_argument` is thrown (`applyPatch_error`, `allRejectBytes_error`, …);
      `Atomic`    an abort by a text exception has performed only `Tame` operations (`atomic_walk`,
                  `processSection_atomic`);
      `Tr P Q`    Hoare triples on normal completion; `Honest s := (hadFailure ↔ a bad event was printed)`
                  (`honest_walk`, `processSection_honest`, `sectionLoop_honest`, `processPatchM_honest`);
  * `writeNow` (backup, make writable, write, permission callback — the common part of the direct write and of
    `DeferredWriter::finalize`: `writePatchedResult_direct`, `finalizeDeferred_eq`), `writeNow_shape` (its operations),
    `removeNow` (one deferred removal: backup if due, then removal if the file is still there; `removeNow_trExt`),
    `ChmodLate` / `Late` (`late_walk`, `processSection_late`, `finalizeDeferred_late`, `processPatchM_late`),
    `ensureParentDirs_keeps`.
-/
import PatchModel.Model.Driver
import PatchModel.Lemmas.Apply
namespace PatchModel.DriverFacts
open PatchModel

/-! ### running the monad -/

theorem run_pure {α} (a : α) (s : DState) : (pure a : DM α).run s = (.ok a, s) := rfl

theorem run_bind {α β} (m : DM α) (f : α → DM β) (s : DState) :
    (m >>= f).run s = match m.run s with
      | (.ok a, s') => (f a).run s'
      | (.error e, s') => (.error e, s') := by
  show (ExceptT.bind m f).run s = _
  simp only [ExceptT.bind, ExceptT.run, ExceptT.mk, ExceptT.bindCont, bind, StateT.bind]
  cases h : m s with
  | mk r s' => cases r <;> rfl

theorem run_throw {α} (e : Exn) (s : DState) : (throw e : DM α).run s = (.error e, s) := rfl
theorem run_get (s : DState) : (get : DM DState).run s = (.ok s, s) := rfl
theorem run_set (s' s : DState) : (set s' : DM Unit).run s = (.ok (), s') := rfl
theorem run_modify (f : DState → DState) (s : DState) : (modify f : DM Unit).run s = (.ok (), f s) := rfl
theorem run_ite {α} (c : Prop) [Decidable c] (a b : DM α) (s : DState) :
    (if c then a else b).run s = if c then a.run s else b.run s := by split <;> rfl

theorem run_liftE {α} (x : Except Exn α) (s : DState) :
    (liftE x).run s = (x, s) := by
  cases x <;> rfl

theorem run_emit (e : DEv) (s : DState) : (emit e).run s = (.ok (), { s with out := s.out ++ [e] }) := rfl
theorem run_failNow (s : DState) : failNow.run s = (.ok (), { s with hadFailure := true }) := rfl

/-- `doOp`, exactly -/
theorem doOp_run (op : FsOp) (s : DState) : (doOp op).run s =
    if s.faultAt = some s.opCount then (.error .systemError, { s with opCount := s.opCount + 1 })
    else match s.fs.apply op with
      | .ok fs' => (.ok (), { s with fs := fs', trace := s.trace ++ [op], opCount := s.opCount + 1 })
      | .error _ => (.error .systemError, { s with opCount := s.opCount + 1 }) := by
  unfold doOp
  simp only [run_bind, run_get, run_ite, run_set, run_throw, beq_iff_eq]
  split
  · rfl
  · cases h : s.fs.apply op <;> simp only [run_bind, run_set, run_throw]

/-- `tryOp`, exactly -/
theorem tryOp_run (op : FsOp) (tol : Errno → Bool) (s : DState) : (tryOp op tol).run s =
    if s.faultAt = some s.opCount then (.error .systemError, { s with opCount := s.opCount + 1 })
    else match s.fs.apply op with
      | .ok fs' => (.ok true, { s with fs := fs', trace := s.trace ++ [op], opCount := s.opCount + 1 })
      | .error e => (if tol e then .ok false else .error .systemError, { s with opCount := s.opCount + 1 }) := by
  unfold tryOp
  simp only [run_bind, run_get, run_ite, run_set, run_throw, beq_iff_eq]
  split
  · rfl
  · cases h : s.fs.apply op
    · simp only [run_bind, run_set, run_ite, run_pure, run_throw]
      split <;> rfl
    · simp only [run_bind, run_set, run_pure]

/-- the three ways `doOp` can go -/
theorem doOp_cases {op : FsOp} {s s' : DState} {r : Except Exn Unit} (h : (doOp op).run s = (r, s')) :
    (r = .ok () ∧ ∃ fs', s.fs.apply op = .ok fs' ∧
        s' = { s with fs := fs', trace := s.trace ++ [op], opCount := s.opCount + 1 }) ∨
    (r = .error .systemError ∧ s' = { s with opCount := s.opCount + 1 }) := by
  rw [doOp_run] at h
  split at h
  · right; cases h; exact ⟨rfl, rfl⟩
  · split at h
    · next fs' hfs => left; cases h; exact ⟨rfl, fs', hfs, rfl⟩
    · right; cases h; exact ⟨rfl, rfl⟩

theorem tryOp_cases {op : FsOp} {tol : Errno → Bool} {s s' : DState} {r : Except Exn Bool}
    (h : (tryOp op tol).run s = (r, s')) :
    (r = .ok true ∧ ∃ fs', s.fs.apply op = .ok fs' ∧
        s' = { s with fs := fs', trace := s.trace ++ [op], opCount := s.opCount + 1 }) ∨
    ((r = .ok false ∨ r = .error .systemError) ∧ s' = { s with opCount := s.opCount + 1 }) := by
  rw [tryOp_run] at h
  split at h
  · right; cases h; exact ⟨Or.inr rfl, rfl⟩
  · split at h
    · next fs' hfs => left; cases h; exact ⟨rfl, fs', hfs, rfl⟩
    · right; cases h
      refine ⟨?_, rfl⟩
      split
      · exact Or.inl rfl
      · exact Or.inr rfl

/-! ### relational specifications -/

/-- `R s s'` for every normal completion of `m` from `s` in `s'`; `E e s s'` for every abort with `e` -/
structure Spec {α} (R : DState → DState → Prop) (E : Exn → DState → DState → Prop) (m : DM α) : Prop where
  ok : ∀ s a s', m.run s = (.ok a, s') → R s s'
  err : ∀ s e s', m.run s = (.error e, s') → E e s s'

/-- `R` is a preorder and `E` absorbs an `R` step on the left -/
structure Good (R : DState → DState → Prop) (E : Exn → DState → DState → Prop) : Prop where
  refl : ∀ s, R s s
  trans : ∀ {s s1 s2}, R s s1 → R s1 s2 → R s s2
  absorb : ∀ {e s s1 s2}, R s s1 → E e s1 s2 → E e s s2

section
variable {α β : Type} {R R1 R2 R3 : DState → DState → Prop} {E E1 E2 E3 : Exn → DState → DState → Prop}

theorem Spec.weaken {m : DM α} (h : Spec R1 E1 m) (hR : ∀ s s', R1 s s' → R2 s s')
    (hE : ∀ e s s', E1 e s s' → E2 e s s') : Spec R2 E2 m :=
  ⟨fun s a s' hr => hR _ _ (h.ok s a s' hr), fun s e s' hr => hE _ _ _ (h.err s e s' hr)⟩

/-- the general rule for `>>=` -/
theorem Spec.bind' {m : DM α} {f : α → DM β} (hm : Spec R1 E1 m) (hf : ∀ a, Spec R2 E2 (f a))
    (hR : ∀ s s1 s2, R1 s s1 → R2 s1 s2 → R3 s s2)
    (hE1 : ∀ e s s1, E1 e s s1 → E3 e s s1)
    (hE2 : ∀ e s s1 s2, R1 s s1 → E2 e s1 s2 → E3 e s s2) : Spec R3 E3 (m >>= f) := by
  constructor
  · intro s b s2 hr
    rw [run_bind] at hr
    split at hr
    · next a s1 h1 => exact hR _ _ _ (hm.ok _ _ _ h1) ((hf a).ok _ _ _ hr)
    · cases hr
  · intro s e s2 hr
    rw [run_bind] at hr
    split at hr
    · next a s1 h1 => exact hE2 _ _ _ _ (hm.ok _ _ _ h1) ((hf a).err _ _ _ hr)
    · next e' s1 h1 => cases hr; exact hE1 _ _ _ (hm.err _ _ _ h1)

theorem Spec.bind (g : Good R E) {m : DM α} {f : α → DM β} (hm : Spec R E m) (hf : ∀ a, Spec R E (f a)) :
    Spec R E (m >>= f) :=
  Spec.bind' hm hf (fun _ _ _ => g.trans) (fun _ _ _ h => h) (fun _ _ _ _ => g.absorb)

theorem Spec.pure (g : Good R E) (a : α) : Spec R E (pure a : DM α) :=
  ⟨fun s _ s' h => by cases h; exact g.refl s, fun s e s' h => by cases h⟩

theorem Spec.pure' (a : α) (h : ∀ s, R s s) : Spec R E (Pure.pure a : DM α) :=
  ⟨fun s _ s' hr => by cases hr; exact h s, fun s e s' hr => by cases hr⟩

theorem Spec.throw (e : Exn) (h : ∀ s, E e s s) : Spec R E (throw e : DM α) :=
  ⟨fun s _ s' hr => (by cases hr), fun s e' s' hr => by cases hr; exact h s⟩

theorem Spec.get (g : Good R E) : Spec R E (get : DM DState) :=
  ⟨fun s _ s' h => by cases h; exact g.refl s, fun s e s' h => by cases h⟩

theorem Spec.modify (f : DState → DState) (h : ∀ s, R s (f s)) : Spec R E (modify f : DM Unit) :=
  ⟨fun s _ s' hr => by cases hr; exact h s, fun s e s' hr => by cases hr⟩

theorem Spec.set (s1 : DState) (h : ∀ s, R s s1) : Spec R E (set s1 : DM Unit) :=
  ⟨fun s _ s' hr => by cases hr; exact h s, fun s e s' hr => by cases hr⟩

theorem Spec.emit (ev : DEv) (h : ∀ s, R s { s with out := s.out ++ [ev] }) : Spec R E (emit ev) :=
  Spec.modify _ h

theorem Spec.failNow (h : ∀ s, R s { s with hadFailure := true }) : Spec R E failNow :=
  Spec.modify _ h

theorem Spec.ite {c : Prop} [Decidable c] {a b : DM α} (ha : Spec R E a) (hb : Spec R E b) :
    Spec R E (if c then a else b) := by
  split
  · exact ha
  · exact hb

theorem Spec.liftE (g : Good R E) (x : Except Exn α) (h : ∀ e, x = .error e → ∀ s, E e s s) :
    Spec R E (liftE x) := by
  cases x with
  | ok a => exact Spec.pure g a
  | error e => exact Spec.throw e (h e rfl)

theorem Spec.doOp (op : FsOp)
    (hok : ∀ s fs', s.fs.apply op = .ok fs' →
      R s { s with fs := fs', trace := s.trace ++ [op], opCount := s.opCount + 1 })
    (herr : ∀ s, E .systemError s { s with opCount := s.opCount + 1 }) : Spec R E (doOp op) := by
  constructor
  · intro s a s' h
    rcases doOp_cases h with ⟨_, fs', hfs, rfl⟩ | ⟨h1, _⟩
    · exact hok s fs' hfs
    · cases h1
  · intro s e s' h
    rcases doOp_cases h with ⟨h1, _⟩ | ⟨h1, rfl⟩
    · cases h1
    · cases h1; exact herr s

theorem Spec.tryOp (op : FsOp) (tol : Errno → Bool)
    (hok : ∀ s fs', s.fs.apply op = .ok fs' →
      R s { s with fs := fs', trace := s.trace ++ [op], opCount := s.opCount + 1 })
    (htol : ∀ s, R s { s with opCount := s.opCount + 1 })
    (herr : ∀ s, E .systemError s { s with opCount := s.opCount + 1 }) : Spec R E (tryOp op tol) := by
  constructor
  · intro s a s' h
    rcases tryOp_cases h with ⟨_, fs', hfs, rfl⟩ | ⟨_, rfl⟩
    · exact hok s fs' hfs
    · exact htol s
  · intro s e s' h
    rcases tryOp_cases h with ⟨h1, _⟩ | ⟨h1 | h1, rfl⟩
    · cases h1
    · cases h1
    · cases h1; exact herr s

/-- `for x in l do …` (with or without mutable variables) -/
theorem Spec.forIn (g : Good R E) {γ : Type} (l : List γ) (f : γ → β → DM (ForInStep β))
    (h : ∀ x b, Spec R E (f x b)) : ∀ init, Spec R E (forIn l init f) := by
  induction l with
  | nil => intro init; rw [List.forIn_nil]; exact Spec.pure g init
  | cons x xs ih =>
    intro init
    rw [List.forIn_cons]
    refine Spec.bind g (h x init) ?_
    intro r
    cases r with
    | done b => exact Spec.pure g b
    | yield b => exact ih b

end

/-! ### read-only computations -/

/-- `m` returns normally and leaves the state alone -/
def ReadOnly {α} (m : DM α) : Prop := ∀ s, ∃ a, m.run s = (.ok a, s)

theorem ReadOnly.pure {α} (a : α) : ReadOnly (pure a : DM α) := fun _ => ⟨a, rfl⟩
theorem ReadOnly.get : ReadOnly (get : DM DState) := fun s => ⟨s, rfl⟩
theorem ReadOnly.bind {α β} {m : DM α} {f : α → DM β} (hm : ReadOnly m) (hf : ∀ a, ReadOnly (f a)) :
    ReadOnly (m >>= f) := by
  intro s
  obtain ⟨a, ha⟩ := hm s
  obtain ⟨b, hb⟩ := hf a s
  exact ⟨b, by rw [run_bind, ha]; exact hb⟩
theorem ReadOnly.ite {α} {c : Prop} [Decidable c] {a b : DM α} (ha : ReadOnly a) (hb : ReadOnly b) :
    ReadOnly (if c then a else b) := by
  split
  · exact ha
  · exact hb

theorem ReadOnly.spec {α} {R E} (g : Good R E) {m : DM α} (h : ReadOnly m) : Spec R E m := by
  constructor
  · intro s a s' hr
    obtain ⟨a', ha'⟩ := h s
    rw [ha'] at hr; cases hr; exact g.refl s
  · intro s e s' hr
    obtain ⟨a', ha'⟩ := h s
    rw [ha'] at hr; cases hr

theorem fsExists_readOnly (p : Bytes) : ReadOnly (fsExists p) := fun _ => ⟨_, rfl⟩
theorem fsIsRegular_readOnly (p : Bytes) : ReadOnly (fsIsRegular p) := fun _ => ⟨_, rfl⟩
theorem fsIsSymlink_readOnly (p : Bytes) : ReadOnly (fsIsSymlink p) := fun _ => ⟨_, rfl⟩
theorem fsGetPerms_readOnly (p : Bytes) : ReadOnly (fsGetPerms p) := fun _ => ⟨_, rfl⟩

/-- `ReadOnly` of a block made of the `fs…` queries, `pure`, `if` and (local) functions already known to be read-only -/
syntax "readonly_walk" : tactic
macro_rules | `(tactic| readonly_walk) => `(tactic| first
  | (with_reducible first
      | exact ReadOnly.pure _
      | exact ReadOnly.get
      | exact fsExists_readOnly _
      | exact fsIsRegular_readOnly _
      | exact fsIsSymlink_readOnly _
      | exact fsGetPerms_readOnly _
      | assumption
      | apply_assumption -exfalso -symm only [*])
  | ((with_reducible refine ReadOnly.bind ?_ (fun _ => ?_)) <;> readonly_walk)
  | ((with_reducible refine ReadOnly.ite ?_ ?_) <;> readonly_walk))

theorem run_fsExists (p : Bytes) (s : DState) :
    (fsExists p).run s = (.ok (s.fs.stat (absPath s p)).isSome, s) := rfl

/-! ### the tree: `lookup` after `set` / `erase` -/

theorem find?_filter_ne (l : List (Bytes × Node)) (p q : Bytes) (h : q ≠ p) :
    (l.filter (·.1 != p)).find? (·.1 == q) = l.find? (·.1 == q) := by
  induction l with
  | nil => rfl
  | cons x xs ih =>
    by_cases hx : x.1 = p
    · have h2 : (x.1 == q) = false := by
        apply beq_false_of_ne; intro h'; exact h (h'.symm.trans hx)
      have h1 : (x.1 != p) = false := by simp [hx]
      rw [List.filter_cons, List.find?_cons, h1, h2]
      exact ih
    · have h1 : (x.1 != p) = true := by simp [hx]
      rw [List.filter_cons, h1, if_pos rfl, List.find?_cons, List.find?_cons, ih]

theorem find?_filter_self (l : List (Bytes × Node)) (p : Bytes) :
    (l.filter (·.1 != p)).find? (·.1 == p) = none := by
  simp [List.find?_eq_none]

theorem Fs.lookup_erase_self (fs : Fs) (p : Bytes) : (fs.erase p).lookup p = none := by
  unfold Fs.lookup Fs.erase; rw [find?_filter_self]; rfl
theorem Fs.lookup_erase_ne (fs : Fs) (p q : Bytes) (h : q ≠ p) : (fs.erase p).lookup q = fs.lookup q := by
  unfold Fs.lookup Fs.erase; rw [find?_filter_ne _ _ _ h]
theorem Fs.lookup_set_self (fs : Fs) (p : Bytes) (n : Node) : (fs.set p n).lookup p = some n := by
  unfold Fs.lookup Fs.set; simp only [List.find?_append, find?_filter_self]; simp
theorem Fs.lookup_set_ne (fs : Fs) (p q : Bytes) (n : Node) (h : q ≠ p) : (fs.set p n).lookup q = fs.lookup q := by
  unfold Fs.lookup Fs.set; simp only [List.find?_append, find?_filter_ne _ _ _ h]
  have : (p == q) = false := beq_false_of_ne (Ne.symm h)
  simp [this]

theorem absPath_cwd {s s' : DState} (h : s'.cwd = s.cwd) (p : Bytes) : absPath s' p = absPath s p := by
  unfold absPath; rw [h]

theorem Fs.stat_of_file {fs : Fs} {p : Bytes} {b : Bytes} {m : Nat} (h : fs.lookup p = some (.file b m)) :
    fs.stat p = some (.file b m) := by
  unfold Fs.stat; rw [h]


theorem doOp_run_ok {op : FsOp} {s : DState} {fs' : Fs} (hf : s.faultAt = none) (h : s.fs.apply op = .ok fs') :
    (doOp op).run s = (.ok (), { s with fs := fs', trace := s.trace ++ [op], opCount := s.opCount + 1 }) := by
  rw [doOp_run, hf, h]; simp

/-- `ensure_parent_directories`, without the join point of the `do` block -/
theorem ensureParentDirs_eq (p : Bytes) : ensureParentDirs p =
    (if p.isEmpty = true then throw Exn.systemError else
      forIn (dirPrefixes p) PUnit.unit (fun d (_ : PUnit) => (do
          let s ← get
          let _ ← tryOp (FsOp.mkdir (absPath s d)) fun x => x == Errno.eexist
          pure (ForInStep.yield PUnit.unit) : DM (ForInStep PUnit)))) := by
  unfold ensureParentDirs
  split
  · rfl
  · simp

theorem apply_mkdir_lookup {fs fs' : Fs} {a : Bytes} (h : fs.apply (.mkdir a) = .ok fs') {q : Bytes} {n : Node}
    (hq : fs.lookup q = some n) : fs'.lookup q = some n := by
  simp only [Fs.apply] at h
  split at h
  · cases h
  · next hnone =>
    split at h
    · cases h
    · cases h
      have hqa : q ≠ a := by
        rintro rfl
        rw [hq] at hnone; simp at hnone
      rw [Fs.lookup_set_ne _ _ _ _ hqa, hq]

/-- the `mkdir` loop: only the tree, the trace and the operation counter change; the operations are `mkdir`s of the listed
    directories; the only exception is `system_error`; whatever was in the tree is still there -/
theorem mkdirLoop_shape (tol : Errno → Bool) (D : List Bytes) : ∀ (l : List Bytes), (∀ d ∈ l, d ∈ D) →
    ∀ {s s' : DState} {r : Except Exn PUnit},
    (forIn l PUnit.unit (fun d (_ : PUnit) => (do
          let s ← get
          let _ ← tryOp (FsOp.mkdir (absPath s d)) tol
          pure (ForInStep.yield PUnit.unit) : DM (ForInStep PUnit)))).run s = (r, s') →
    (∃ fs' t n, s' = { s with fs := fs', trace := t, opCount := n }) ∧
    (∃ M, s'.trace = s.trace ++ M ∧ ∀ op ∈ M, ∃ d ∈ D, op = FsOp.mkdir (absPath s d)) ∧
    (∀ e, r = .error e → e = .systemError) ∧
    ∀ q n, s.fs.lookup q = some n → s'.fs.lookup q = some n
  | [], _, s, s', r, h => by
    rw [List.forIn_nil] at h; cases h
    exact ⟨⟨_, _, _, rfl⟩, ⟨[], by simp, by simp⟩, fun e he => (by cases he), fun _ _ h => h⟩
  | d :: l, hl, s, s', r, h => by
    rw [List.forIn_cons, run_bind, run_bind, run_get] at h
    simp only [] at h
    rw [run_bind] at h
    rcases ht : (tryOp (FsOp.mkdir (absPath s d)) tol).run s with ⟨r1, s1⟩
    rw [ht] at h
    rcases tryOp_cases ht with ⟨rfl, fs', hfs, rfl⟩ | ⟨hr1, rfl⟩
    · simp only [run_pure] at h
      obtain ⟨⟨a, b, c, e1⟩, ⟨M, t, hM⟩, herr, hkeep⟩ :=
        mkdirLoop_shape tol D l (fun x hx => hl x (List.mem_cons_of_mem _ hx)) h
      refine ⟨⟨a, b, c, e1⟩, ⟨FsOp.mkdir (absPath s d) :: M, ?_, ?_⟩, herr, fun q n hq => hkeep q n (apply_mkdir_lookup hfs hq)⟩
      · rw [t]; simp
      · intro op hop
        rcases List.mem_cons.1 hop with rfl | hop
        · exact ⟨d, hl d List.mem_cons_self, rfl⟩
        · exact hM op hop
    · rcases hr1 with rfl | rfl
      · simp only [run_pure] at h
        obtain ⟨⟨a, b, c, e1⟩, ⟨M, t, hM⟩, herr, hkeep⟩ :=
          mkdirLoop_shape tol D l (fun x hx => hl x (List.mem_cons_of_mem _ hx)) h
        exact ⟨⟨a, b, c, e1⟩, ⟨M, t, hM⟩, herr, hkeep⟩
      · cases h
        exact ⟨⟨_, _, _, rfl⟩, ⟨[], by simp, by simp⟩, fun e he => (by cases he; rfl), fun _ _ h => h⟩

/-- `ensure_parent_directories p`: only the tree, the trace and the operation counter change; the operations are `mkdir`s of
    directory prefixes of `p`; the only exception is `system_error`; whatever was in the tree is still there -/
theorem ensureParentDirs_shape (p : Bytes) {s s' : DState} {r : Except Exn Unit} (h : (ensureParentDirs p).run s = (r, s')) :
    (∃ fs' t n, s' = { s with fs := fs', trace := t, opCount := n }) ∧
    (∃ M, s'.trace = s.trace ++ M ∧ ∀ op ∈ M, ∃ d ∈ dirPrefixes p, op = FsOp.mkdir (absPath s d)) ∧
    (∀ e, r = .error e → e = .systemError) ∧
    ∀ q n, s.fs.lookup q = some n → s'.fs.lookup q = some n := by
  rw [ensureParentDirs_eq] at h
  split at h
  · cases h
    exact ⟨⟨_, _, _, rfl⟩, ⟨[], by simp, by simp⟩, fun e he => (by cases he; rfl), fun _ _ h => h⟩
  · exact mkdirLoop_shape _ (dirPrefixes p) (dirPrefixes p) (fun _ h => h) h

theorem apply_mkdir_lookup_ne {fs fs' : Fs} {a q : Bytes} (h : fs.apply (.mkdir a) = .ok fs') (hq : q ≠ a) :
    fs'.lookup q = fs.lookup q := by
  simp only [Fs.apply] at h
  split at h
  · cases h
  · split at h
    · cases h
    · cases h; exact Fs.lookup_set_ne _ _ _ _ hq

/-- the `mkdir` loop leaves every other name alone -/
theorem mkdirLoop_frame (tol : Errno → Bool) (D : List Bytes) : ∀ (l : List Bytes), (∀ d ∈ l, d ∈ D) →
    ∀ {s s' : DState} {r : Except Exn PUnit},
    (forIn l PUnit.unit (fun d (_ : PUnit) => (do
          let s ← get
          let _ ← tryOp (FsOp.mkdir (absPath s d)) tol
          pure (ForInStep.yield PUnit.unit) : DM (ForInStep PUnit)))).run s = (r, s') →
    ∀ q, (∀ d ∈ D, q ≠ absPath s d) → s'.fs.lookup q = s.fs.lookup q
  | [], _, s, s', r, h => by
    rw [List.forIn_nil] at h; cases h
    exact fun _ _ => rfl
  | d :: l, hl, s, s', r, h => by
    rw [List.forIn_cons, run_bind, run_bind, run_get] at h
    simp only [] at h
    rw [run_bind] at h
    rcases ht : (tryOp (FsOp.mkdir (absPath s d)) tol).run s with ⟨r1, s1⟩
    rw [ht] at h
    intro q hq
    rcases tryOp_cases ht with ⟨rfl, fs', hfs, rfl⟩ | ⟨hr1, rfl⟩
    · simp only [run_pure] at h
      have := mkdirLoop_frame tol D l (fun x hx => hl x (List.mem_cons_of_mem _ hx)) h q hq
      rw [this]
      exact apply_mkdir_lookup_ne hfs (hq d (hl d List.mem_cons_self))
    · rcases hr1 with rfl | rfl
      · simp only [run_pure] at h
        exact mkdirLoop_frame tol D l (fun x hx => hl x (List.mem_cons_of_mem _ hx)) h q hq
      · cases h; rfl

/-- `ensure_parent_directories p` leaves every name which is not that of a directory prefix of `p` alone -/
theorem ensureParentDirs_frame (p : Bytes) {s s' : DState} {r : Except Exn Unit} (h : (ensureParentDirs p).run s = (r, s')) :
    ∀ q, (∀ d ∈ dirPrefixes p, q ≠ absPath s d) → s'.fs.lookup q = s.fs.lookup q := by
  rw [ensureParentDirs_eq] at h
  split at h
  · cases h; exact fun _ _ => rfl
  · exact mkdirLoop_frame _ (dirPrefixes p) (dirPrefixes p) (fun _ h => h) h

theorem mem_dirPrefixes {p d : Bytes} (h : d ∈ dirPrefixes p) : ∃ i, i < p.length ∧ d = p.take i ∧ d ≠ [] := by
  unfold dirPrefixes at h
  simp only [List.mem_filter, List.mem_map, List.mem_range] at h
  obtain ⟨⟨i, ⟨hi, _⟩, rfl⟩, hne⟩ := h
  exact ⟨i, hi, rfl, by intro e; rw [e] at hne; simp at hne⟩

/-- a directory prefix of a path is not the path -/
theorem absPath_dirPrefix_ne (s : DState) {p d : Bytes} (h : d ∈ dirPrefixes p) : absPath s p ≠ absPath s d := by
  obtain ⟨i, hi, rfl, hne⟩ := mem_dirPrefixes h
  have hlen : (p.take i).length < p.length := by rw [List.length_take]; omega
  have hhead : (p.take i).head? = p.head? := by
    cases p with
    | nil => simp at hi
    | cons a l =>
      cases i with
      | zero => simp at hne
      | succ j => simp
  unfold absPath
  rw [hhead]
  split
  · intro e; rw [← e] at hlen; omega
  · intro e
    have := congrArg List.length e
    simp only [List.length_append] at this
    omega

/-- a name which is that of a regular file, or of nothing (D106: only then does `make_backup_for` act, whatever directories are made) -/
def PlainAt (s : DState) (p : Bytes) : Prop :=
  s.fs.lookup (absPath s p) = none ∨ ∃ b m, s.fs.lookup (absPath s p) = some (.file b m)

/-- all the directories exist already (as whatever): `ensure_parent_directories` performs no operation -/
theorem ensureParentDirs_run_exist (p : Bytes) (s : DState) (hp : p ≠ []) (hf : s.faultAt = none)
    (hex : ∀ d ∈ dirPrefixes p, (s.fs.lookup (absPath s d)).isSome = true) :
    (ensureParentDirs p).run s = (.ok (), { s with opCount := s.opCount + (dirPrefixes p).length }) := by
  rw [ensureParentDirs_eq, if_neg (by simpa using hp)]
  generalize dirPrefixes p = l at hex
  induction l generalizing s with
  | nil => rfl
  | cons d l ih =>
    rw [List.forIn_cons, run_bind, run_bind, run_get]
    simp only []
    have h1 : s.fs.apply (FsOp.mkdir (absPath s d)) = .error .eexist := by
      simp only [Fs.apply, hex d List.mem_cons_self, ↓reduceIte]
    have h2 : (tryOp (FsOp.mkdir (absPath s d)) fun x => x == Errno.eexist).run s =
        (.ok false, { s with opCount := s.opCount + 1 }) := by
      rw [tryOp_run, h1, if_neg (by rw [hf]; simp)]
      simp
    rw [run_bind, h2]
    simp only [run_pure]
    rw [ih { s with opCount := s.opCount + 1 } hf (fun d hd => hex d (List.mem_cons_of_mem _ hd))]
    simp only [List.length_cons]
    congr 2
    omega

/-- exactly one directory prefix, and it is missing: one `mkdir` -/
theorem ensureParentDirs_run_one (p d : Bytes) (s : DState) (hp : p ≠ []) (hf : s.faultAt = none)
    (hd : dirPrefixes p = [d]) (hnew : s.fs.lookup (absPath s d) = none)
    (hpar : s.fs.dirExists (parentOf (absPath s d)) = true) :
    (ensureParentDirs p).run s =
      (.ok (), { s with fs := s.fs.set (absPath s d) (.dir (0o777 - (0o777 &&& s.fs.umask))),
                        trace := s.trace ++ [.mkdir (absPath s d)], opCount := s.opCount + 1 }) := by
  rw [ensureParentDirs_eq, if_neg (by simpa using hp), hd, List.forIn_cons, run_bind, run_bind, run_get]
  simp only []
  have h1 : s.fs.apply (FsOp.mkdir (absPath s d)) = .ok (s.fs.set (absPath s d) (.dir (0o777 - (0o777 &&& s.fs.umask)))) := by
    simp only [Fs.apply, hnew, hpar]; rfl
  have h2 : (tryOp (FsOp.mkdir (absPath s d)) fun x => x == Errno.eexist).run s =
      (.ok true, { s with fs := s.fs.set (absPath s d) (.dir (0o777 - (0o777 &&& s.fs.umask))),
                          trace := s.trace ++ [.mkdir (absPath s d)], opCount := s.opCount + 1 }) := by
    rw [tryOp_run, h1, if_neg (by rw [hf]; simp)]
  rw [run_bind, h2]
  rfl

/-- is the name that of a symbolic link (`lstat`) -/
def isLinkAt (s : DState) (p : Bytes) : Bool :=
  match s.fs.lookup (absPath s p) with | some (.symlink _) => true | _ => false

theorem isLinkAt_of_lookup {s : DState} {p : Bytes} {t : Bytes} (h : s.fs.lookup (absPath s p) = some (.symlink t)) :
    isLinkAt s p = true := by unfold isLinkAt; rw [h]
theorem isLinkAt_of_not_link {s : DState} {p : Bytes} (h : ∀ t, s.fs.lookup (absPath s p) ≠ some (.symlink t)) :
    isLinkAt s p = false := by
  unfold isLinkAt
  split
  · next t ht => exact absurd ht (h t)
  · rfl
theorem isLinkAt_of_none {s : DState} {p : Bytes} (h : s.fs.lookup (absPath s p) = none) : isLinkAt s p = false :=
  isLinkAt_of_not_link (fun t ht => by rw [h] at ht; cases ht)
theorem isLinkAt_of_file {s : DState} {p : Bytes} {b m} (h : s.fs.lookup (absPath s p) = some (.file b m)) :
    isLinkAt s p = false :=
  isLinkAt_of_not_link (fun t ht => by rw [h] at ht; cases ht)

theorem doOp_cwd {op : FsOp} {s s' : DState} {r : Except Exn Unit} (h : (doOp op).run s = (r, s')) : s'.cwd = s.cwd := by
  rcases doOp_cases h with ⟨_, _, _, rfl⟩ | ⟨_, rfl⟩ <;> rfl

/-- is the name that of something `make_way_for` removes: a symbolic link (`lstat`) or a regular file -/
def inWayAt (s : DState) (p : Bytes) : Bool :=
  match s.fs.lookup (absPath s p) with | some (.symlink _) => true | some (.file _ _) => true | _ => false

theorem inWayAt_of_link {s : DState} {p : Bytes} {t : Bytes} (h : s.fs.lookup (absPath s p) = some (.symlink t)) :
    inWayAt s p = true := by unfold inWayAt; rw [h]
theorem inWayAt_of_file {s : DState} {p : Bytes} {b m} (h : s.fs.lookup (absPath s p) = some (.file b m)) :
    inWayAt s p = true := by unfold inWayAt; rw [h]
theorem inWayAt_of_isLinkAt {s : DState} {p : Bytes} (h : isLinkAt s p = true) : inWayAt s p = true := by
  unfold isLinkAt at h
  unfold inWayAt
  split at h
  · next t ht => rw [ht]
  · cases h
theorem inWayAt_of_free {s : DState} {p : Bytes} (h1 : ∀ t, s.fs.lookup (absPath s p) ≠ some (.symlink t))
    (h2 : ∀ b m, s.fs.lookup (absPath s p) ≠ some (.file b m)) : inWayAt s p = false := by
  unfold inWayAt
  split
  · next t ht => exact absurd ht (h1 t)
  · next b m ht => exact absurd ht (h2 b m)
  · rfl
theorem inWayAt_of_none {s : DState} {p : Bytes} (h : s.fs.lookup (absPath s p) = none) : inWayAt s p = false :=
  inWayAt_of_free (fun t ht => by rw [h] at ht; cases ht) (fun b m ht => by rw [h] at ht; cases ht)
theorem inWayAt_of_dir {s : DState} {p : Bytes} {m} (h : s.fs.lookup (absPath s p) = some (.dir m)) : inWayAt s p = false :=
  inWayAt_of_free (fun t ht => by rw [h] at ht; cases ht) (fun b m ht => by rw [h] at ht; cases ht)
theorem inWayAt_cases {s : DState} {p : Bytes} (h : inWayAt s p = true) :
    (∃ t, s.fs.lookup (absPath s p) = some (.symlink t)) ∨ (∃ b m, s.fs.lookup (absPath s p) = some (.file b m)) := by
  unfold inWayAt at h
  split at h
  · next t ht => exact .inl ⟨t, ht⟩
  · next b m ht => exact .inr ⟨b, m, ht⟩
  · cases h

/-- the two tests of `make_way_for` (`is_symlink`: lstat; `is_regular_file`: stat) together, on the entry of that name itself -/
theorem fsIsSymlink_or_fsIsRegular (s : DState) (p : Bytes) :
    ((match s.fs.lookup (absPath s p) with | some (.symlink _) => true | _ => false) ||
     (match s.fs.stat (absPath s p) with | some (.file _ _) => true | _ => false)) = inWayAt s p := by
  unfold inWayAt Fs.stat
  rcases hl : s.fs.lookup (absPath s p) with _ | n
  · rfl
  · cases n <;> simp

/-- `make_way_for`, exactly: a symbolic link or a regular file of that name is unlinked, anything else is left alone -/
theorem makeWayFor_run (p : Bytes) (s : DState) :
    (makeWayFor p).run s =
      if inWayAt s p = true then (doOp (.unlink (absPath s p))).run s else (.ok (), s) := by
  have h1 : (fsIsSymlink p).run s =
      (.ok (match s.fs.lookup (absPath s p) with | some (.symlink _) => true | _ => false), s) := rfl
  have h2 : (fsIsRegular p).run s =
      (.ok (match s.fs.stat (absPath s p) with | some (.file _ _) => true | _ => false), s) := rfl
  unfold makeWayFor
  rw [run_bind, h1]
  dsimp only
  rw [run_bind, h2]
  dsimp only
  rw [fsIsSymlink_or_fsIsRegular]
  cases inWayAt s p
  · rfl
  · simp only [↓reduceIte]
    rw [run_bind, run_get]

/-- the name is that of something which is not a regular file (a directory, a device: what `-o` may name): it has no backup (D106) -/
def notFileAt (s : DState) (p : Bytes) : Bool :=
  (s.fs.stat (absPath s p)).isSome && !(match s.fs.stat (absPath s p) with | some (.file _ _) => true | _ => false)

theorem notFileAt_of_file {s : DState} {p : Bytes} {b m} (h : s.fs.stat (absPath s p) = some (.file b m)) :
    notFileAt s p = false := by unfold notFileAt; rw [h]; rfl
theorem notFileAt_of_none {s : DState} {p : Bytes} (h : s.fs.stat (absPath s p) = none) :
    notFileAt s p = false := by unfold notFileAt; rw [h]; rfl
theorem notFileAt_of_lookup_file {s : DState} {p : Bytes} {b m} (h : s.fs.lookup (absPath s p) = some (.file b m)) :
    notFileAt s p = false := notFileAt_of_file (Fs.stat_of_file h)
theorem notFileAt_of_lookup_none {s : DState} {p : Bytes} (h : s.fs.lookup (absPath s p) = none) :
    notFileAt s p = false := notFileAt_of_none (by unfold Fs.stat; rw [h])
theorem notFileAt_false {s : DState} {p : Bytes} (h : notFileAt s p = false) :
    s.fs.stat (absPath s p) = none ∨ ∃ b m, s.fs.stat (absPath s p) = some (.file b m) := by
  unfold notFileAt at h
  rcases hs : s.fs.stat (absPath s p) with _ | n
  · exact .inl rfl
  · cases n with
    | file b m => exact .inr ⟨b, m, rfl⟩
    | _ => rw [hs] at h; simp at h

/-- `stat` in a tree which has grown (`ensure_parent_directories`: whatever was there is still there) -/
theorem stat_none_of_grown {fs fs1 : Fs} (hkeep : ∀ q n, fs.lookup q = some n → fs1.lookup q = some n) {q : Bytes}
    (h : fs1.stat q = none) : fs.stat q = none := by
  unfold Fs.stat at h ⊢
  rcases hl : fs.lookup q with _ | n
  · rfl
  · rw [hkeep _ _ hl] at h
    cases n with
    | symlink t =>
      simp only at h ⊢
      rcases hl2 : fs.lookup (if (parentOf q).isEmpty || t.head? == some SLASHB then t else parentOf q ++ [SLASHB] ++ t) with _ | n'
      · rfl
      · rw [hkeep _ _ hl2] at h; cases h
    | _ => cases h

/-- what is a regular file after `ensure_parent_directories` was a regular file or nothing before -/
theorem notFileAt_of_grown_file {s : DState} {fs1 : Fs} (hkeep : ∀ q n, s.fs.lookup q = some n → fs1.lookup q = some n) {p b m}
    (hfile : fs1.lookup (absPath s p) = some (.file b m)) : notFileAt s p = false := by
  rcases hl : s.fs.lookup (absPath s p) with _ | n
  · exact notFileAt_of_lookup_none hl
  · have h1 := hkeep _ _ hl
    rw [hfile] at h1
    cases h1
    exact notFileAt_of_lookup_file hl

theorem PlainAt.notFileAt {s : DState} {p : Bytes} (h : PlainAt s p) : notFileAt s p = false := by
  rcases h with h | ⟨b, m, h⟩
  · exact notFileAt_of_lookup_none h
  · exact notFileAt_of_lookup_file h

/-- `ensure_parent_directories p` does not make `p` anything else than it was -/
theorem PlainAt.ensureParentDirs {s s1 : DState} {r : Except Exn Unit} {p : Bytes} (h : (ensureParentDirs p).run s = (r, s1))
    (hp : PlainAt s p) : PlainAt s1 p := by
  have hfr := ensureParentDirs_frame p h (absPath s p) (fun d hd => absPath_dirPrefix_ne s hd)
  obtain ⟨⟨fs', t, n, rfl⟩, -, -, hkeep⟩ := ensureParentDirs_shape p h
  rcases hp with hp | ⟨b, m, hp⟩
  · exact .inl (hfr.trans hp)
  · exact .inr ⟨b, m, hkeep _ _ hp⟩

theorem makeBackupFor_run (o : Options) (p : Bytes) (s : DState) :
    (makeBackupFor o p).run s =
      if notFileAt s p = true then (.ok (), s)
      else if s.backedUp.contains (backupName o p) = true then (.ok (), s)
      else match (ensureParentDirs (backupName o p)).run { s with backedUp := s.backedUp ++ [backupName o p] } with
        | (.ok _, s1) =>
          if (s1.fs.stat (absPath s1 p)).isSome = true then
            (doOp (.rename (absPath s1 p) (absPath s1 (backupName o p)))).run s1
          else if inWayAt s1 (backupName o p) = true then
            match (doOp (.unlink (absPath s1 (backupName o p)))).run s1 with
            | (.ok _, s2) => (doOp (.creat (absPath s1 (backupName o p)))).run s2
            | (.error e, s2) => (.error e, s2)
          else (doOp (.creat (absPath s1 (backupName o p)))).run s1
        | (.error e, s1) => (.error e, s1) := by
  have h2 : (fsIsRegular p).run s =
      (.ok (match s.fs.stat (absPath s p) with | some (.file _ _) => true | _ => false), s) := rfl
  unfold makeBackupFor opRename opCreat
  rw [run_bind, run_fsExists]
  dsimp only
  rw [run_bind, h2]
  dsimp only
  show (if notFileAt s p = true then _ else _ : DM Unit).run s = _
  cases notFileAt s p
  rotate_left
  · rfl
  simp only [run_bind, run_get, run_ite, run_set, run_fsExists, run_pure, makeWayFor_run, Bool.false_eq_true, ↓reduceIte]
  cases hc : s.backedUp.contains (backupName o p)
  · simp only [Bool.not_false, Bool.false_eq_true, ↓reduceIte]
    rcases (ensureParentDirs (backupName o p)).run { s with backedUp := s.backedUp ++ [backupName o p] } with ⟨r, s1⟩
    cases r
    · rfl
    · dsimp only
      split
      · rfl
      · cases inWayAt s1 (backupName o p)
        · rfl
        · simp only [↓reduceIte]
          rcases hr : (doOp (.unlink (absPath s1 (backupName o p)))).run s1 with ⟨r2, s2⟩
          cases r2
          · rfl
          · show (doOp (.creat (absPath s2 (backupName o p)))).run s2 = _
            rw [absPath_cwd (doOp_cwd hr)]
  · simp only [Bool.not_true, Bool.false_eq_true, ↓reduceIte]

/-- `openRejects`, exactly: a later opening in the same run adds to the file (and creates it if it is gone), the first one
    replaces what was there — when the name is derived (no `-r`), a symbolic link or a regular file of that name is removed first,
    it is not written through or into; a file named with `-r` is written as it is -/
theorem openRejects_run (o : Options) (rej : Bytes) (s : DState) :
    (openRejects o rej).run s =
      if s.rejWritten.contains rej = true then
        (if (s.fs.stat (absPath s rej)).isSome = true then (.ok (), s) else (doOp (.creat (absPath s rej))).run s)
      else if (o.rejectFile.isEmpty && inWayAt s rej) = true then
        match (doOp (.unlink (absPath s rej))).run { s with rejWritten := s.rejWritten ++ [rej] } with
        | (.ok _, s2) => (doOp (.creat (absPath s rej))).run s2
        | (.error e, s2) => (.error e, s2)
      else (doOp (.creat (absPath s rej))).run { s with rejWritten := s.rejWritten ++ [rej] } := by
  unfold openRejects opCreat
  simp only [run_bind, run_get, run_ite, run_set, run_fsExists, run_pure, makeWayFor_run]
  cases hc : s.rejWritten.contains rej
  · simp only [Bool.false_eq_true, ↓reduceIte]
    have e1 : inWayAt { s with rejWritten := s.rejWritten ++ [rej] } rej = inWayAt s rej := rfl
    rw [e1]
    cases o.rejectFile.isEmpty
    · simp only [Bool.false_eq_true, ↓reduceIte, Bool.false_and]
      rfl
    · simp only [↓reduceIte, Bool.true_and]
      cases inWayAt s rej
      · rfl
      · simp only [↓reduceIte]
        have e2 : absPath { s with rejWritten := s.rejWritten ++ [rej] } rej = absPath s rej := rfl
        rw [e2]
        rcases hr : (doOp (.unlink (absPath s rej))).run { s with rejWritten := s.rejWritten ++ [rej] } with ⟨r2, s2⟩
        cases r2
        · rfl
        · show (doOp (.creat (absPath s2 rej))).run s2 = _
          have hc2 := doOp_cwd hr
          rw [absPath_cwd hc2]
          rfl
  · simp only [↓reduceIte]
    cases (s.fs.stat (absPath s rej)).isSome <;> simp

/-! ### the `op…` wrappers -/

theorem run_opCreat (p : Bytes) (s : DState) : (opCreat p).run s = (doOp (.creat (absPath s p))).run s := by
  unfold opCreat; rw [run_bind, run_get]
theorem run_opWrite (p b : Bytes) (s : DState) :
    (opWrite p b).run s = if b.isEmpty then (.ok (), s) else (doOp (.write (absPath s p) b)).run s := by
  unfold opWrite; rw [run_ite]; split
  · rfl
  · rw [run_bind, run_get]
/-- the permissions of a node (`filesystem::get_permissions`) are `m` -/
def hasMode (n : Option Node) (m : Nat) : Bool :=
  match n with
  | some (.file _ m') => m' == m | some (.dir m') => m' == m | some (.other m') => m' == m | _ => false

/-- `opChmod`, exactly: a fault which hits it is tolerated if there is nothing to change (D105) -/
theorem run_opChmod (p : Bytes) (m : Nat) (s : DState) :
    (opChmod p m).run s =
      if s.faultAt = some s.opCount then
        (if hasMode (s.fs.stat (absPath s p)) m = true then .ok () else .error .systemError, { s with opCount := s.opCount + 1 })
      else (doOp (.chmod (absPath s p) m)).run s := by
  unfold opChmod
  rw [run_bind, run_get]
  dsimp only
  simp only [beq_iff_eq, run_ite]
  split
  · rw [run_bind, run_set]
    dsimp only
    show (if hasMode (s.fs.stat (absPath s p)) m = true then Pure.pure () else throw Exn.systemError : DM Unit).run _ = _
    cases hasMode (s.fs.stat (absPath s p)) m <;> rfl
  · rfl

theorem run_opChmod_nofault {p : Bytes} {m : Nat} {s : DState} (hf : s.faultAt = none) :
    (opChmod p m).run s = (doOp (.chmod (absPath s p) m)).run s := by
  rw [run_opChmod, if_neg (by rw [hf]; simp)]

/-- the two ways `opChmod` differs from `doOp`: none when it returns with the trace longer, or throws -/
theorem opChmod_cases {p : Bytes} {m : Nat} {s s' : DState} {r : Except Exn Unit} (h : (opChmod p m).run s = (r, s')) :
    (doOp (.chmod (absPath s p) m)).run s = (r, s') ∨
    (r = .ok () ∧ s' = { s with opCount := s.opCount + 1 } ∧ s.faultAt = some s.opCount ∧
      hasMode (s.fs.stat (absPath s p)) m = true) := by
  rw [run_opChmod] at h
  split at h
  · next hf =>
    cases hm : hasMode (s.fs.stat (absPath s p)) m
    · left
      rw [hm] at h
      rw [doOp_run, if_pos hf]
      exact h
    · right
      rw [hm] at h
      cases h
      exact ⟨rfl, rfl, hf, rfl⟩
  · exact .inl h

/-- `opChmod` in any specification that holds of the `chmod` and lets a tolerated fault pass -/
theorem Spec.opChmod {R E} (p : Bytes) (m : Nat) (h : ∀ a, Spec R E (PatchModel.doOp (.chmod a m)))
    (htol : ∀ s, R s { s with opCount := s.opCount + 1 }) : Spec R E (opChmod p m) := by
  constructor
  · intro s a s' hr
    rcases opChmod_cases hr with h1 | ⟨_, rfl, _, _⟩
    · exact (h _).ok _ _ _ h1
    · exact htol s
  · intro s e s' hr
    rcases opChmod_cases hr with h1 | ⟨h2, _⟩
    · exact (h _).err _ _ _ h1
    · cases h2
theorem run_opRename (a b : Bytes) (s : DState) :
    (opRename a b).run s = (doOp (.rename (absPath s a) (absPath s b))).run s := by
  unfold opRename; rw [run_bind, run_get]


/-! ### `first_name_of` (D104) -/

theorem devNull_ne_nil : devNull ≠ [] := by decide +kernel

/-- a real name comes first -/
theorem firstNameOf_cons_of_name {n : Bytes} {ns : List Bytes} (h1 : n ≠ []) (h2 : n ≠ devNull) : firstNameOf (n :: ns) = n := by
  unfold firstNameOf
  have : (!n.isEmpty && n != devNull) = true := by
    cases n with
    | nil => exact absurd rfl h1
    | cons a l => simpa using h2
  rw [List.find?_cons, this]; rfl

/-- `/dev/null` and a name which was left out are passed over -/
theorem firstNameOf_cons_skip {n : Bytes} {ns : List Bytes} (h : n = [] ∨ n = devNull) : firstNameOf (n :: ns) = firstNameOf ns := by
  unfold firstNameOf
  have : (!n.isEmpty && n != devNull) = false := by
    rcases h with rfl | rfl <;> simp
  rw [List.find?_cons, this]

/-- whatever it is, it is not `/dev/null` -/
theorem firstNameOf_ne_devNull (ns : List Bytes) : firstNameOf ns ≠ devNull := by
  unfold firstNameOf
  rcases h : ns.find? (fun n => !n.isEmpty && n != devNull) with _ | n
  · rw [h]; exact fun e => devNull_ne_nil e.symm
  · rw [h]
    have := List.find?_some h
    simp only [Bool.and_eq_true, bne_iff_ne, ne_eq] at this
    exact this.2

/-- it is one of the names, or none (the empty name: the patch is skipped) -/
theorem firstNameOf_mem (ns : List Bytes) : firstNameOf ns = [] ∨ firstNameOf ns ∈ ns := by
  unfold firstNameOf
  rcases h : ns.find? (fun n => !n.isEmpty && n != devNull) with _ | n
  · rw [h]; exact .inl rfl
  · rw [h]; exact .inr (List.mem_of_find?_eq_some h)

/-! ### a walk through `do` blocks

`spec_walk g` (with `g : Good R E`) decomposes a goal `Spec R E m` along the structure of an unfolded `do` block:
binds, `if`s, matches, `for` loops and the join points `have __do_jp := …` the `do` elaborator generates (each join
point is proved once and then used as a hypothesis).  Calls of other programs are closed by `spec_leaf g`, which is
extended with `macro_rules` as lemmas become available; what it cannot close is left to the caller. -/

section
variable {α β γ : Type} {R : DState → DState → Prop} {E : Exn → DState → DState → Prop}
theorem Spec.cut1 (jp : β → DM α) {m : DM γ} (h1 : ∀ x, Spec R E (jp x))
    (h2 : (∀ x, Spec R E (jp x)) → Spec R E m) : Spec R E m := h2 h1
theorem Spec.cut2 {β' : Type} (jp : β → β' → DM α) {m : DM γ} (h1 : ∀ x y, Spec R E (jp x y))
    (h2 : (∀ x y, Spec R E (jp x y)) → Spec R E m) : Spec R E m := h2 h1
/-- a local function of a `do` block that only asks the file system (`notRegular` of `processSection`): it is kept as a
    read-only program, which can be called anywhere in the block, whatever the specification being proved -/
theorem Spec.cutRO (jp : β → DM α) {m : DM γ} (h1 : ∀ x, ReadOnly (jp x))
    (h2 : (∀ x, ReadOnly (jp x)) → Spec R E m) : Spec R E m := h2 h1
theorem Spec.fsExists (g : Good R E) (p : Bytes) : Spec R E (fsExists p) := (fsExists_readOnly p).spec g
theorem Spec.fsIsRegular (g : Good R E) (p : Bytes) : Spec R E (fsIsRegular p) := (fsIsRegular_readOnly p).spec g
theorem Spec.fsIsSymlink (g : Good R E) (p : Bytes) : Spec R E (fsIsSymlink p) := (fsIsSymlink_readOnly p).spec g
theorem Spec.fsGetPerms (g : Good R E) (p : Bytes) : Spec R E (fsGetPerms p) := (fsGetPerms_readOnly p).spec g
end

set_option linter.tactic.unusedName false

syntax "spec_leaf " term:max : tactic
syntax "spec_walk " term:max : tactic

macro_rules | `(tactic| spec_leaf $g) => `(tactic| with_reducible first
  | exact Spec.pure $g _
  | exact Spec.get $g
  | assumption
  | apply_assumption -exfalso -symm only [*]
  | exact Spec.fsExists $g _
  | exact Spec.fsIsRegular $g _
  | exact Spec.fsIsSymlink $g _
  | (refine ReadOnly.spec $g ?_; readonly_walk; done)
  | exact Spec.fsGetPerms $g _)

syntax "spec_step " term:max : tactic
macro_rules | `(tactic| spec_step $g) => `(tactic| (
  first
  | (extract_lets -underBinder +onlyGivenNames jp
     first
     | (refine Spec.cutRO jp (fun x => ?_) (fun hjp => ?_)
        rotate_left; focus (clear_value jp)
        rotate_right; focus (dsimp -zeta only [jp]; readonly_walk; done))
     | (refine Spec.cut2 jp (fun x y => ?_) (fun hjp => ?_)
        rotate_left; focus (clear_value jp)
        rotate_right; focus (dsimp -zeta only [jp]))
     | (refine Spec.cut1 jp (fun x => ?_) (fun hjp => ?_)
        rotate_left; focus (clear_value jp)
        rotate_right; focus (dsimp -zeta only [jp]))
     | (clear_value jp))
  | (with_reducible refine Spec.bind $g ?_ (fun _ => ?_))
  | (with_reducible refine Spec.ite ?_ ?_)
  | (with_reducible refine Spec.forIn $g _ _ (fun _ _ => ?_) _)
  | spec_leaf $g
  | split))

macro_rules | `(tactic| spec_walk $g) => `(tactic| repeat' spec_step $g)

/-! ### `TrExt A`: the trace grows by operations in `A` (whatever the outcome) -/

def ExtR (A : FsOp → Prop) (s s' : DState) : Prop := ∃ ops, s'.trace = s.trace ++ ops ∧ ∀ op ∈ ops, A op

theorem ExtR.refl (A) (s : DState) : ExtR A s s := ⟨[], by simp, by simp⟩
theorem ExtR.of_eq {A} {s s' : DState} (h : s'.trace = s.trace) : ExtR A s s' := ⟨[], by simp [h], by simp⟩
theorem ExtR.step {A} {s s' : DState} {op : FsOp} (h : s'.trace = s.trace ++ [op]) (ha : A op) : ExtR A s s' :=
  ⟨[op], h, by simpa using ha⟩
theorem ExtR.trans {A} {s s1 s2 : DState} (h1 : ExtR A s s1) (h2 : ExtR A s1 s2) : ExtR A s s2 := by
  obtain ⟨o1, e1, a1⟩ := h1
  obtain ⟨o2, e2, a2⟩ := h2
  refine ⟨o1 ++ o2, by rw [e2, e1, List.append_assoc], ?_⟩
  intro op hop
  rcases List.mem_append.1 hop with h | h
  · exact a1 op h
  · exact a2 op h
theorem ExtR.mono {A A' : FsOp → Prop} (h : ∀ op, A op → A' op) {s s' : DState} (h1 : ExtR A s s') :
    ExtR A' s s' := by
  obtain ⟨o1, e1, a1⟩ := h1
  exact ⟨o1, e1, fun op hop => h op (a1 op hop)⟩

abbrev TrExt {α} (A : FsOp → Prop) (m : DM α) : Prop := Spec (ExtR A) (fun _ => ExtR A) m

theorem good_ext (A : FsOp → Prop) : Good (ExtR A) (fun _ => ExtR A) :=
  ⟨ExtR.refl A, ExtR.trans, ExtR.trans⟩

theorem TrExt.mono {α} {A A' : FsOp → Prop} {m : DM α} (h : TrExt A m) (hA : ∀ op, A op → A' op) : TrExt A' m :=
  Spec.weaken h (fun _ _ => ExtR.mono hA) (fun _ _ _ => ExtR.mono hA)

/-- the definition, spelled out -/
theorem TrExt.run {α} {A : FsOp → Prop} {m : DM α} (h : TrExt A m) {s s' : DState} {r : Except Exn α}
    (hr : m.run s = (r, s')) : ∃ ops, s'.trace = s.trace ++ ops ∧ ∀ op ∈ ops, A op := by
  cases r with
  | ok a => exact h.ok _ _ _ hr
  | error e => exact h.err _ _ _ hr

section
variable {α : Type} {A : FsOp → Prop}
theorem TrExt.throw (e : Exn) : TrExt A (throw e : DM α) := Spec.throw e (fun s => ExtR.refl A s)
theorem TrExt.modify (f : DState → DState) (h : ∀ s, (f s).trace = s.trace) : TrExt A (modify f : DM Unit) :=
  Spec.modify f (fun s => ExtR.of_eq (h s))
theorem TrExt.emit (ev : DEv) : TrExt A (emit ev) := Spec.emit ev (fun _ => ExtR.of_eq rfl)
theorem TrExt.failNow : TrExt A failNow := Spec.failNow (fun _ => ExtR.of_eq rfl)
theorem TrExt.liftE (x : Except Exn α) : TrExt A (liftE x) := Spec.liftE (good_ext A) x (fun _ _ s => ExtR.refl A s)
theorem TrExt.doOp {op : FsOp} (h : A op) : TrExt A (doOp op) :=
  Spec.doOp op (fun _ _ _ => ExtR.step rfl h) (fun _ => ExtR.of_eq rfl)
theorem TrExt.tryOp {op : FsOp} (tol : Errno → Bool) (h : A op) : TrExt A (tryOp op tol) :=
  Spec.tryOp op tol (fun _ _ _ => ExtR.step rfl h) (fun _ => ExtR.of_eq rfl) (fun _ => ExtR.of_eq rfl)
end

/-- leaves of a `TrExt` walk; side conditions `A op` are tried with `assumption`/`simp` -/
syntax "trext_side" : tactic
macro_rules | `(tactic| trext_side) => `(tactic| first | assumption | apply_assumption -exfalso -symm only [*] | (intros; simp [FsOp.isTmp]; done))

macro_rules | `(tactic| spec_leaf $_) => `(tactic| with_reducible first
  | exact TrExt.throw _
  | exact TrExt.emit _
  | exact TrExt.failNow
  | exact TrExt.liftE _
  | exact TrExt.modify _ (fun _ => rfl)
  | exact TrExt.doOp (by trext_side)
  | exact TrExt.tryOp _ (by trext_side))

section
variable {A : FsOp → Prop}

theorem createTemp_trExt (h1 : A .tmpCreate) (h2 : A .tmpUnlink) : TrExt A createTemp := by
  unfold createTemp; spec_walk (good_ext A)
theorem opCreat_trExt (h : ∀ p, A (.creat p)) (p : Bytes) : TrExt A (opCreat p) := by
  unfold opCreat; spec_walk (good_ext A)
theorem opWrite_trExt (h : ∀ p b, A (.write p b)) (p b : Bytes) : TrExt A (opWrite p b) := by
  unfold opWrite; spec_walk (good_ext A)
theorem opChmod_trExt (h : ∀ p m, A (.chmod p m)) (p : Bytes) (m : Nat) : TrExt A (opChmod p m) :=
  Spec.opChmod p m (fun _ => TrExt.doOp (h _ _)) (fun _ => ExtR.of_eq rfl)
theorem writeFile_trExt (h1 : ∀ p, A (.creat p)) (h2 : ∀ p b, A (.write p b)) (p b : Bytes) :
    TrExt A (writeFile p b) := by
  unfold writeFile; spec_walk (good_ext A)
  · exact opCreat_trExt h1 _
  · exact opWrite_trExt h2 _ _
theorem ensureParentDirs_trExt (h : ∀ p, A (.mkdir p)) (p : Bytes) : TrExt A (ensureParentDirs p) := by
  unfold ensureParentDirs; spec_walk (good_ext A)
theorem permissionCallback_trExt (h : ∀ p m, A (.chmod p m)) (nm : Nat) (perm : PermResult) (p : Bytes) :
    TrExt A (permissionCallback nm perm p) := by
  unfold permissionCallback; spec_walk (good_ext A) <;> exact opChmod_trExt h _ _
theorem removeFileAndEmptyParents_trExt (h1 : ∀ p, A (.unlink p)) (h2 : ∀ p, A (.rmdir p)) (p : Bytes) :
    TrExt A (removeFileAndEmptyParents p) := by
  unfold removeFileAndEmptyParents; spec_walk (good_ext A)
/-- `fix_permissions_if_needed` performs no operation at all (the `chmod` is `makeWritable`'s, right before the write) -/
theorem fixPermissionsIfNeeded_trExt (o : Options) (p : Bytes) : TrExt A (fixPermissionsIfNeeded o p) := by
  unfold fixPermissionsIfNeeded; spec_walk (good_ext A)
theorem makeWritable_trExt (h : ∀ p m, A (.chmod p m)) (perm : PermResult) (p : Bytes) : TrExt A (makeWritable perm p) := by
  unfold makeWritable; spec_walk (good_ext A)
  all_goals exact opChmod_trExt h _ _

end

/-- two phases -/
theorem TrExt.seq2 {α β} {A B : FsOp → Prop} {m1 : DM α} {m2 : α → DM β} (h1 : TrExt A m1) (h2 : ∀ a, TrExt B (m2 a))
    {s s' : DState} {r : Except Exn β} (h : (m1 >>= m2).run s = (r, s')) :
    ∃ ws rs, s'.trace = s.trace ++ ws ++ rs ∧ (∀ op ∈ ws, A op) ∧ (∀ op ∈ rs, B op) := by
  rw [run_bind] at h
  split at h
  · next a s1 hm =>
    obtain ⟨ws, e1, hw⟩ := h1.run hm
    obtain ⟨rs, e2, hr⟩ := (h2 a).run h
    exact ⟨ws, rs, by rw [e2, e1], hw, hr⟩
  · next e s1 hm =>
    cases h
    obtain ⟨ws, e1, hw⟩ := h1.run hm
    exact ⟨ws, [], by rw [e1]; simp, hw, by simp⟩


/-! ### `Quiet`: failure flag unchanged, only harmless events printed, only `system_error` thrown -/

/-- the events that make a run "not clean" (same as `C04x.badEvent`) -/
def isBadEv : DEv → Bool
  | .failed _ _ _ _ => true
  | .skipping => true
  | .refusing => true
  | .notDeleting => true
  | .binary => true
  | _ => false

def QR (s s' : DState) : Prop :=
  s'.hadFailure = s.hadFailure ∧ ∃ evs, s'.out = s.out ++ evs ∧ ∀ ev ∈ evs, isBadEv ev = false

theorem QR.refl (s : DState) : QR s s := ⟨rfl, [], by simp, by simp⟩
theorem QR.of_eq {s s' : DState} (h1 : s'.hadFailure = s.hadFailure) (h2 : s'.out = s.out) : QR s s' :=
  ⟨h1, [], by simp [h2], by simp⟩
theorem QR.trans {s s1 s2 : DState} (h1 : QR s s1) (h2 : QR s1 s2) : QR s s2 := by
  obtain ⟨f1, o1, e1, a1⟩ := h1
  obtain ⟨f2, o2, e2, a2⟩ := h2
  refine ⟨f2.trans f1, o1 ++ o2, by rw [e2, e1, List.append_assoc], ?_⟩
  intro ev hev
  rcases List.mem_append.1 hev with h | h
  · exact a1 ev h
  · exact a2 ev h

abbrev Quiet {α} (m : DM α) : Prop := Spec QR (fun e s s' => e = .systemError ∧ QR s s') m
abbrev Neutral {α} (m : DM α) : Prop := Spec QR (fun _ _ _ => True) m

theorem good_quiet : Good QR (fun e s s' => e = .systemError ∧ QR s s') :=
  ⟨QR.refl, QR.trans, fun h1 h2 => ⟨h2.1, QR.trans h1 h2.2⟩⟩
theorem good_neutral : Good QR (fun _ _ _ => True) := ⟨QR.refl, QR.trans, fun _ _ => trivial⟩

theorem Neutral.of_quiet {α} {m : DM α} (h : Quiet m) : Neutral m :=
  Spec.weaken h (fun _ _ h => h) (fun _ _ _ _ => trivial)

section
variable {α : Type}
theorem Quiet.throw_sys : Quiet (throw .systemError : DM α) := Spec.throw _ (fun s => ⟨rfl, QR.refl s⟩)
theorem Quiet.emit (ev : DEv) (h : isBadEv ev = false) : Quiet (emit ev) :=
  Spec.emit ev (fun s => ⟨rfl, [ev], rfl, by simpa using h⟩)
theorem Quiet.modify (f : DState → DState) (h1 : ∀ s, (f s).hadFailure = s.hadFailure) (h2 : ∀ s, (f s).out = s.out) :
    Quiet (modify f : DM Unit) := Spec.modify f (fun s => QR.of_eq (h1 s) (h2 s))
theorem Quiet.doOp (op : FsOp) : Quiet (doOp op) :=
  Spec.doOp op (fun _ _ _ => QR.of_eq rfl rfl) (fun _ => ⟨rfl, QR.of_eq rfl rfl⟩)
theorem Quiet.tryOp (op : FsOp) (tol : Errno → Bool) : Quiet (tryOp op tol) :=
  Spec.tryOp op tol (fun _ _ _ => QR.of_eq rfl rfl) (fun _ => QR.of_eq rfl rfl) (fun _ => ⟨rfl, QR.of_eq rfl rfl⟩)
theorem Neutral.throw (e : Exn) : Neutral (throw e : DM α) := Spec.throw _ (fun _ => trivial)
theorem Neutral.liftE (x : Except Exn α) : Neutral (liftE x) := Spec.liftE good_neutral x (fun _ _ _ => trivial)
theorem Neutral.modify (f : DState → DState) (h1 : ∀ s, (f s).hadFailure = s.hadFailure) (h2 : ∀ s, (f s).out = s.out) :
    Neutral (modify f : DM Unit) := Spec.modify f (fun s => QR.of_eq (h1 s) (h2 s))
end

macro_rules | `(tactic| spec_leaf $_) => `(tactic| with_reducible first
  | exact Quiet.throw_sys
  | exact Quiet.emit _ rfl
  | exact Quiet.modify _ (fun _ => rfl) (fun _ => rfl)
  | exact Quiet.doOp _
  | exact Quiet.tryOp _ _
  | exact Neutral.throw _
  | exact Neutral.liftE _
  | exact Neutral.modify _ (fun _ => rfl) (fun _ => rfl))

theorem readTty_quiet : Quiet readTty := by
  constructor
  · intro s a s' h
    unfold readTty at h
    rw [run_bind, run_get] at h
    simp only [] at h
    split at h
    · cases h
    · cases h; exact QR.refl s
    · rw [run_bind, run_set] at h; cases h; exact QR.of_eq rfl rfl
  · intro s e s' h
    unfold readTty at h
    rw [run_bind, run_get] at h
    simp only [] at h
    split at h
    · cases h; exact ⟨rfl, QR.refl s⟩
    · cases h
    · rw [run_bind, run_set] at h; cases h

theorem createTemp_quiet : Quiet createTemp := by unfold createTemp; spec_walk good_quiet
theorem opCreat_quiet (p : Bytes) : Quiet (opCreat p) := by unfold opCreat; spec_walk good_quiet
theorem opWrite_quiet (p b : Bytes) : Quiet (opWrite p b) := by unfold opWrite; spec_walk good_quiet
theorem opChmod_quiet (p : Bytes) (m : Nat) : Quiet (opChmod p m) :=
  Spec.opChmod p m (fun _ => Quiet.doOp _) (fun _ => QR.of_eq rfl rfl)
theorem opRename_quiet (a b : Bytes) : Quiet (opRename a b) := by unfold opRename; spec_walk good_quiet

macro_rules | `(tactic| spec_leaf $_) => `(tactic| with_reducible first
  | exact readTty_quiet | exact createTemp_quiet | exact opCreat_quiet _ | exact opWrite_quiet _ _
  | exact opChmod_quiet _ _ | exact opRename_quiet _ _)

theorem writeFile_quiet (p b : Bytes) : Quiet (writeFile p b) := by unfold writeFile; spec_walk good_quiet
theorem ensureParentDirs_quiet (p : Bytes) : Quiet (ensureParentDirs p) := by
  unfold ensureParentDirs; spec_walk good_quiet
theorem permissionCallback_quiet (nm : Nat) (perm : PermResult) (p : Bytes) : Quiet (permissionCallback nm perm p) := by
  unfold permissionCallback; spec_walk good_quiet
theorem removeFileAndEmptyParents_quiet (p : Bytes) : Quiet (removeFileAndEmptyParents p) := by
  unfold removeFileAndEmptyParents; spec_walk good_quiet
theorem fixPermissionsIfNeeded_quiet (o : Options) (p : Bytes) : Quiet (fixPermissionsIfNeeded o p) := by
  unfold fixPermissionsIfNeeded; spec_walk good_quiet
theorem guessFilepath_quiet (p : Patch) (r : Bool) : Quiet (guessFilepath p r) := by
  unfold guessFilepath; spec_walk good_quiet
theorem checkWithUser_quiet (q : String) (d : Bool) : Quiet (checkWithUser q d) := by
  unfold checkWithUser; spec_walk good_quiet

macro_rules | `(tactic| spec_leaf $_) => `(tactic| with_reducible first
  | exact writeFile_quiet _ _ | exact ensureParentDirs_quiet _ | exact permissionCallback_quiet _ _ _
  | exact removeFileAndEmptyParents_quiet _ | exact fixPermissionsIfNeeded_quiet _ _
  | exact guessFilepath_quiet _ _ | exact checkWithUser_quiet _ _)

theorem promptForFilepath_quiet : ∀ n, Quiet (promptForFilepath n)
  | 0 => by unfold promptForFilepath; spec_walk good_quiet
  | n + 1 => by
    have ih := promptForFilepath_quiet n
    unfold promptForFilepath; spec_walk good_quiet

/-- `make_way_for` in any `Good` specification that tolerates the `unlink` -/
theorem makeWayFor_spec {R E} (g : Good R E) (p : Bytes) (h3 : ∀ a, Spec R E (doOp (.unlink a))) :
    Spec R E (makeWayFor p) := by
  constructor
  · intro s a s' h
    rw [makeWayFor_run] at h
    split at h
    · exact (h3 _).ok _ _ _ h
    · cases h; exact g.refl s
  · intro s e s' h
    rw [makeWayFor_run] at h
    split at h
    · exact (h3 _).err _ _ _ h
    · cases h

/-- `makeBackupFor` in any `Good` specification that tolerates the bookkeeping, the creation of the directories of the backup name and
    the three possible operations (the `unlink` is that of a symbolic link or regular file which has the name of the empty backup) -/
theorem makeBackupFor_spec {R E} (g : Good R E) (o : Options) (p : Bytes)
    (hb : ∀ s bn, R s { s with backedUp := s.backedUp ++ [bn] })
    (h0 : Spec R E (ensureParentDirs (backupName o p)))
    (h1 : ∀ a b, Spec R E (doOp (.rename a b))) (h2 : ∀ a, Spec R E (doOp (.creat a)))
    (h3 : ∀ a, Spec R E (doOp (.unlink a))) :
    Spec R E (makeBackupFor o p) := by
  constructor
  · intro s a s' h
    rw [makeBackupFor_run] at h
    split at h
    · cases h; exact g.refl s
    split at h
    · cases h; exact g.refl s
    · split at h
      · next _ s1 h0' =>
        have r1 := g.trans (hb s _) (h0.ok _ _ _ h0')
        split at h
        · exact g.trans r1 ((h1 _ _).ok _ _ _ h)
        · split at h
          · split at h
            · next _ s2 hu => exact g.trans r1 (g.trans ((h3 _).ok _ _ _ hu) ((h2 _).ok _ _ _ h))
            · cases h
          · exact g.trans r1 ((h2 _).ok _ _ _ h)
      · cases h
  · intro s e s' h
    rw [makeBackupFor_run] at h
    split at h
    · cases h
    split at h
    · cases h
    · split at h
      · next _ s1 h0' =>
        have r1 := g.trans (hb s _) (h0.ok _ _ _ h0')
        split at h
        · exact g.absorb r1 ((h1 _ _).err _ _ _ h)
        · split at h
          · split at h
            · next _ s2 hu => exact g.absorb r1 (g.absorb ((h3 _).ok _ _ _ hu) ((h2 _).err _ _ _ h))
            · next e' s2 hu => cases h; exact g.absorb r1 ((h3 _).err _ _ _ hu)
          · exact g.absorb r1 ((h2 _).err _ _ _ h)
      · next e' s1 h0' =>
        cases h
        exact g.absorb (hb s _) (h0.err _ _ _ h0')

theorem makeBackupFor_quiet (o : Options) (p : Bytes) : Quiet (makeBackupFor o p) :=
  makeBackupFor_spec good_quiet o p (fun _ _ => QR.of_eq rfl rfl) (ensureParentDirs_quiet _) (fun _ _ => Quiet.doOp _)
    (fun _ => Quiet.doOp _) (fun _ => Quiet.doOp _)

theorem makeBackupFor_trExt {A : FsOp → Prop} (h0 : ∀ a, A (.mkdir a)) (h1 : ∀ a b, A (.rename a b)) (h2 : ∀ a, A (.creat a))
    (h3 : ∀ a, A (.unlink a)) (o : Options) (p : Bytes) : TrExt A (makeBackupFor o p) :=
  makeBackupFor_spec (good_ext A) o p (fun _ _ => ExtR.of_eq rfl) (ensureParentDirs_trExt h0 _) (fun _ _ => TrExt.doOp (h1 _ _))
    (fun _ => TrExt.doOp (h2 _)) (fun _ => TrExt.doOp (h3 _))

/-- `openRejects` in any `Good` specification that tolerates the bookkeeping, the `creat`, and the `unlink` of a symbolic link or regular
    file which has the (derived) name of the reject file -/
theorem openRejects_spec {R E} (g : Good R E) (o : Options) (rej : Bytes)
    (hb : ∀ s x, R s { s with rejWritten := s.rejWritten ++ [x] })
    (h2 : ∀ a, Spec R E (doOp (.creat a))) (h3 : ∀ a, Spec R E (doOp (.unlink a))) : Spec R E (openRejects o rej) := by
  constructor
  · intro s a s' h
    rw [openRejects_run] at h
    split at h
    · split at h
      · cases h; exact g.refl s
      · exact (h2 _).ok _ _ _ h
    · split at h
      · split at h
        · next _ s2 hu => exact g.trans (hb s _) (g.trans ((h3 _).ok _ _ _ hu) ((h2 _).ok _ _ _ h))
        · cases h
      · exact g.trans (hb s _) ((h2 _).ok _ _ _ h)
  · intro s e s' h
    rw [openRejects_run] at h
    split at h
    · split at h
      · cases h
      · exact (h2 _).err _ _ _ h
    · split at h
      · split at h
        · next _ s2 hu => exact g.absorb (hb s _) (g.absorb ((h3 _).ok _ _ _ hu) ((h2 _).err _ _ _ h))
        · next e' s2 hu => cases h; exact g.absorb (hb s _) ((h3 _).err _ _ _ hu)
      · exact g.absorb (hb s _) ((h2 _).err _ _ _ h)

theorem openRejects_quiet (o : Options) (rej : Bytes) : Quiet (openRejects o rej) :=
  openRejects_spec good_quiet o rej (fun _ _ => QR.of_eq rfl rfl) (fun _ => Quiet.doOp _) (fun _ => Quiet.doOp _)
theorem openRejects_trExt {A : FsOp → Prop} (h : ∀ p, A (.creat p)) (h3 : ∀ p, A (.unlink p)) (o : Options) (rej : Bytes) :
    TrExt A (openRejects o rej) :=
  openRejects_spec (good_ext A) o rej (fun _ _ => ExtR.of_eq rfl) (fun _ => TrExt.doOp (h _)) (fun _ => TrExt.doOp (h3 _))
theorem writeRejects_quiet (o : Options) (rej b : Bytes) : Quiet (writeRejects o rej b) := by
  have := openRejects_quiet
  unfold writeRejects; spec_walk good_quiet
theorem writeRejects_trExt {A : FsOp → Prop} (h1 : ∀ p, A (.creat p)) (h2 : ∀ p b, A (.write p b)) (hu : ∀ p, A (.unlink p))
    (o : Options) (rej b : Bytes) : TrExt A (writeRejects o rej b) := by
  have := openRejects_trExt h1 hu
  have := opWrite_trExt h2
  unfold writeRejects; spec_walk (good_ext A)

theorem makeWritable_quiet (perm : PermResult) (p : Bytes) : Quiet (makeWritable perm p) := by
  unfold makeWritable; spec_walk good_quiet

macro_rules | `(tactic| spec_leaf $_) => `(tactic| with_reducible first
  | exact promptForFilepath_quiet _ | exact makeBackupFor_quiet _ _ | exact makeWritable_quiet _ _
  | exact openRejects_quiet _ _ | exact writeRejects_quiet _ _ _)

theorem writePatchedResult_quiet (o : Options) (p : Patch) (f : Bytes) (perm : PermResult) (sb : Bool) (c : Bytes) :
    Quiet (writePatchedResult o p f perm sb c) := by
  unfold writePatchedResult; spec_walk good_quiet

macro_rules | `(tactic| spec_leaf $_) => `(tactic| with_reducible first
  | exact writePatchedResult_quiet _ _ _ _ _ _)

theorem finalizeDeferred_quiet (o : Options) : Quiet (finalizeDeferred o) := by
  unfold finalizeDeferred; spec_walk good_quiet

/-! ### which exceptions can come out of the applier and the reject writer -/

/-- the exceptions caused by the patch text -/
def TextErr (e : Exn) : Prop := e = .parserError ∨ e = .invalidArgument
instance : DecidablePred TextErr := fun e => by unfold TextErr; exact inferInstance

theorem ctxStep_error {h : Hunk} {s : CtxState} {pl : PatchLine} {e : Exn} (he : ctxStep h s pl = .error e) :
    e = .runtimeError := by
  unfold ctxStep at he
  repeat' split at he
  all_goals first | (cases he; rfl) | cases he

theorem ctxFold_error {h : Hunk} : ∀ {ls : List PatchLine} {s : CtxState} {e : Exn}, ctxFold h s ls = .error e →
    e = .runtimeError
  | [], s, e, he => by simp [ctxFold] at he
  | pl :: rest, s, e, he => by
    unfold ctxFold at he
    split at he
    · next e' h1 => cases he; exact ctxStep_error h1
    · exact ctxFold_error he

theorem writeHunkContext_error {h : Hunk} {e : Exn} (he : writeHunkContext h = .error e) : e = .runtimeError := by
  unfold writeHunkContext at he
  split at he
  · next e' h1 => cases he; exact ctxFold_error h1
  · repeat' split at he
    all_goals first | (cases he; rfl) | cases he

theorem writeReject_error {p : Patch} {fmt : RejectFormat} {n : Nat} {h : Hunk} {e : Exn}
    (he : writeReject p fmt n h = .error e) : e = .runtimeError := by
  unfold writeReject at he
  split at he
  · cases he
  · split at he
    · next e' h1 => cases he; exact writeHunkContext_error h1
    · cases he

theorem allRejectBytes_error {p : Patch} {fmt : RejectFormat} : ∀ {hs : List Hunk} {n : Nat} {e : Exn},
    allRejectBytes p fmt n hs = .error e → e = .runtimeError
  | [], n, e, he => by simp [allRejectBytes] at he
  | h :: hs, n, e, he => by
    unfold allRejectBytes at he
    split at he
    · next e' h1 => cases he; exact writeReject_error h1
    · next b h1 =>
      cases h2 : allRejectBytes p fmt (n + 1) hs with
      | error e' => rw [h2] at he; cases he; exact allRejectBytes_error h2
      | ok b' => rw [h2] at he; cases he

theorem finishHunk_error {file : List Line} {o : ApplyOpts} {p : Patch} {s : AState} {num : Nat} {h : Hunk}
    {loc : Option Location} {e : Exn} (he : finishHunk file o p s num h loc = .error e) :
    e = .outOfRange ∨ e = .runtimeError := by
  unfold finishHunk at he
  simp only [] at he
  split at he
  · next e' h1 =>
    cases he
    split at h1
    · split at h1
      · cases h1; exact Or.inl rfl
      · split at h1
        · cases h1; exact Or.inl rfl
        · cases h1
    · split at h1
      · next e'' h2 => cases h1; exact Or.inr (writeReject_error h2)
      · cases h1
  · cases he

theorem applyRest_error {file : List Line} {o : ApplyOpts} {p : Patch} : ∀ {hs : List Hunk} {s : AState} {num : Nat} {e : Exn},
    applyRest file o p s num hs = .error e → e = .outOfRange ∨ e = .runtimeError
  | [], s, num, e, he => by simp [applyRest] at he
  | h :: hs, s, num, e, he => by
    unfold applyRest at he
    simp only [] at he
    split at he
    · next e' h1 => cases he; exact finishHunk_error h1
    · exact applyRest_error he

theorem applyPatch_error {file : List Line} {p0 : Patch} {o : ApplyOpts} {tty : Option (List Bool)} {e : Exn}
    (he : applyPatch file p0 o tty = .error e) : e = .outOfRange ∨ e = .runtimeError ∨ e = .systemError := by
  rcases Apply.applyPatch_cases file p0 o tty with ⟨h1, _⟩ | ⟨p', s1, _, _, h1⟩
  · rw [h1] at he; cases he; exact Or.inr (Or.inr rfl)
  · rw [h1] at he
    unfold Apply.runLoop at he
    split at he
    · next e' h2 =>
      cases he
      rcases applyRest_error h2 with h | h
      · exact Or.inl h
      · exact Or.inr (Or.inl h)
    · cases he


/-! ### `NoText`: no exception caused by the patch text (`parser_error`, `invalid_argument`) is thrown -/

abbrev NoText {α} (m : DM α) : Prop := Spec (fun _ _ => True) (fun e _ _ => ¬ TextErr e) m

theorem good_noText : Good (fun _ _ => True) (fun e _ _ => ¬ TextErr e) :=
  ⟨fun _ => trivial, fun _ _ => trivial, fun _ h => h⟩

theorem NoText.of_quiet {α} {m : DM α} (h : Quiet m) : NoText m :=
  Spec.weaken h (fun _ _ _ => trivial) (fun _ _ _ h => by rw [h.1]; decide)

section
variable {α : Type}
theorem NoText.throw (e : Exn) (h : ¬ TextErr e) : NoText (throw e : DM α) := Spec.throw _ (fun _ => h)
theorem NoText.modify (f : DState → DState) : NoText (modify f : DM Unit) := Spec.modify f (fun _ => trivial)
theorem NoText.emit (ev : DEv) : NoText (emit ev) := Spec.emit ev (fun _ => trivial)
theorem NoText.failNow : NoText failNow := Spec.failNow (fun _ => trivial)
theorem NoText.liftE (x : Except Exn α) (h : ∀ e, x = .error e → ¬ TextErr e) : NoText (liftE x) :=
  Spec.liftE good_noText x (fun e he _ => h e he)
end

/-- the `Quiet` facts, as a tactic -/
syntax "quiet_leaf" : tactic
macro_rules | `(tactic| quiet_leaf) => `(tactic| with_reducible first
  | exact readTty_quiet | exact createTemp_quiet | exact opCreat_quiet _ | exact opWrite_quiet _ _
  | exact opChmod_quiet _ _ | exact opRename_quiet _ _
  | exact writeFile_quiet _ _ | exact ensureParentDirs_quiet _ | exact permissionCallback_quiet _ _ _
  | exact removeFileAndEmptyParents_quiet _ | exact fixPermissionsIfNeeded_quiet _ _
  | exact guessFilepath_quiet _ _ | exact checkWithUser_quiet _ _
  | exact promptForFilepath_quiet _ | exact makeBackupFor_quiet _ _ | exact writePatchedResult_quiet _ _ _ _ _ _
  | exact makeWritable_quiet _ _
  | exact openRejects_quiet _ _ | exact writeRejects_quiet _ _ _
  | exact finalizeDeferred_quiet _
  | exact Quiet.doOp _ | exact Quiet.tryOp _ _)

macro_rules | `(tactic| spec_leaf $_) => `(tactic| with_reducible first
  | exact NoText.throw _ (by decide)
  | exact NoText.emit _
  | exact NoText.failNow
  | exact NoText.modify _
  | exact NoText.of_quiet (by quiet_leaf)
  | exact Neutral.of_quiet (by quiet_leaf))

theorem refuseToPatch_noText (o : Options) (f : Bytes) (p : Patch) : NoText (refuseToPatch o f p) := by
  unfold refuseToPatch; spec_walk good_noText
  next e h => rw [allRejectBytes_error h]; exact NoText.throw _ (by decide)

theorem applyPatch_noText (file : List Line) (p : Patch) (o : ApplyOpts) (tty : Option (List Bool)) :
    NoText (liftE (applyPatch file p o tty)) := by
  refine NoText.liftE _ ?_
  intro e he
  rcases applyPatch_error he with h | h | h <;> rw [h] <;> decide

macro_rules | `(tactic| spec_leaf $_) => `(tactic| with_reducible first
  | exact refuseToPatch_noText _ _ _
  | exact applyPatch_noText _ _ _ _)

theorem parseBodyM_trExt {A : FsOp → Prop} (b : Bool) (p : Patch) : TrExt A (parseBodyM b p) := by
  unfold parseBodyM; spec_walk (good_ext A)
theorem parseBodyM_neutral (b : Bool) (p : Patch) : Neutral (parseBodyM b p) := by
  unfold parseBodyM; spec_walk good_neutral

theorem trExt_of_readOnly {α} {A : FsOp → Prop} {m : DM α} (h : ReadOnly m) : TrExt A m := h.spec (good_ext A)

theorem readTty_trExt {A : FsOp → Prop} : TrExt A readTty := by
  constructor
  · intro s a s' h
    unfold readTty at h
    rw [run_bind, run_get] at h
    simp only [] at h
    split at h
    · cases h
    · cases h; exact ExtR.refl A s
    · rw [run_bind, run_set] at h; cases h; exact ExtR.of_eq rfl
  · intro s e s' h
    unfold readTty at h
    rw [run_bind, run_get] at h
    simp only [] at h
    split at h
    · cases h; exact ExtR.refl A s
    · cases h
    · rw [run_bind, run_set] at h; cases h

macro_rules | `(tactic| spec_leaf $_) => `(tactic| with_reducible first
  | exact parseBodyM_trExt _ _ | exact parseBodyM_neutral _ _ | exact readTty_trExt)

theorem guessFilepath_trExt {A : FsOp → Prop} (p : Patch) (r : Bool) : TrExt A (guessFilepath p r) := by
  unfold guessFilepath; spec_walk (good_ext A)
theorem checkWithUser_trExt {A : FsOp → Prop} (q : String) (d : Bool) : TrExt A (checkWithUser q d) := by
  unfold checkWithUser; spec_walk (good_ext A)
theorem promptForFilepath_trExt {A : FsOp → Prop} : ∀ n, TrExt A (promptForFilepath n)
  | 0 => by unfold promptForFilepath; spec_walk (good_ext A)
  | n + 1 => by
    have ih := @promptForFilepath_trExt A n
    have := @checkWithUser_trExt A
    unfold promptForFilepath; spec_walk (good_ext A)

/-! ### `Atomic`: an abort caused by the patch text has only performed harmless operations -/

/-- operations on anonymous temporaries (before the `chmod` of a read-only target was moved to `makeWritable`, a `chmod` was
    `Tame` too) -/
def Tame (op : FsOp) : Prop := op.isTmp = true

abbrev Atomic {α} (m : DM α) : Prop := Spec (fun _ _ => True) (fun e s s' => TextErr e → ExtR Tame s s') m

section
variable {α β : Type}
theorem Atomic.bind {m : DM α} {f : α → DM β} (hm : TrExt Tame m) (hf : ∀ a, Atomic (f a)) : Atomic (m >>= f) :=
  Spec.bind' hm hf (fun _ _ _ _ _ => trivial) (fun _ _ _ h _ => h) (fun _ _ _ _ h1 h2 ht => ExtR.trans h1 (h2 ht))
theorem Atomic.of_trExt {m : DM α} (h : TrExt Tame m) : Atomic m :=
  Spec.weaken h (fun _ _ _ => trivial) (fun _ _ _ h _ => h)
theorem Atomic.of_noText {m : DM α} (h : NoText m) : Atomic m :=
  Spec.weaken h (fun _ _ _ => trivial) (fun _ _ _ h ht => absurd ht h)
theorem Atomic.of_noText_bind {m : DM α} {f : α → DM β} (h : NoText (m >>= f)) : Atomic (m >>= f) := Atomic.of_noText h
theorem Atomic.of_noText_createTemp {f : Unit → DM β} (h : NoText (createTemp >>= f)) : Atomic (createTemp >>= f) :=
  Atomic.of_noText h
theorem Atomic.pure (a : α) : Atomic (Pure.pure a : DM α) := Spec.pure' a (fun _ => trivial)
theorem Atomic.throw (e : Exn) : Atomic (throw e : DM α) := Spec.throw e (fun s _ => ExtR.refl Tame s)
end

theorem tame_tmpCreate : Tame .tmpCreate := rfl
theorem tame_tmpUnlink : Tame .tmpUnlink := rfl

/-- programs that only perform `Tame` operations -/
syntax "tame_leaf" : tactic
macro_rules | `(tactic| tame_leaf) => `(tactic| with_reducible first
  | exact Spec.get (good_ext Tame)
  | exact Spec.pure (good_ext Tame) _
  | exact TrExt.liftE _
  | exact TrExt.modify _ (fun _ => rfl)
  | exact TrExt.emit _
  | exact TrExt.failNow
  | exact TrExt.throw _
  | exact createTemp_trExt tame_tmpCreate tame_tmpUnlink
  | exact fixPermissionsIfNeeded_trExt _ _
  | exact Spec.fsExists (good_ext Tame) _
  | exact Spec.fsIsRegular (good_ext Tame) _
  | exact Spec.fsIsSymlink (good_ext Tame) _
  | (refine trExt_of_readOnly ?_; readonly_walk; done)
  | exact Spec.fsGetPerms (good_ext Tame) _
  | exact guessFilepath_trExt _ _
  | exact promptForFilepath_trExt _
  | exact checkWithUser_trExt _ _
  | exact parseBodyM_trExt _ _)

/-- the walk for `Atomic`: as long as the statements are `Tame` the walk goes on; the first other statement must start
    a block that cannot throw a text exception any more -/
syntax "atomic_step" : tactic
syntax "atomic_walk" : tactic
macro_rules | `(tactic| atomic_step) => `(tactic| (
  first
  | (with_reducible first | exact Atomic.pure _ | exact Atomic.throw _ | assumption | apply_assumption -exfalso -symm only [*])
  | (refine Atomic.of_trExt (trExt_of_readOnly ?_); readonly_walk; done)
  | (extract_lets -underBinder +onlyGivenNames jp
     first
     | (refine Spec.cutRO jp (fun x => ?_) (fun hjp => ?_)
        rotate_left; focus (clear_value jp)
        rotate_right; focus (dsimp -zeta only [jp]; readonly_walk; done))
     | (refine Spec.cut2 jp (fun x y => ?_) (fun hjp => ?_)
        rotate_left; focus (clear_value jp)
        rotate_right; focus (dsimp -zeta only [jp]))
     | (refine Spec.cut1 jp (fun x => ?_) (fun hjp => ?_)
        rotate_left; focus (clear_value jp)
        rotate_right; focus (dsimp -zeta only [jp]))
     | (clear_value jp))
  | ((with_reducible refine Atomic.of_noText_createTemp ?_); spec_walk good_noText; done)
  | ((with_reducible refine Atomic.bind ?_ (fun _ => ?_)); focus (tame_leaf; done))
  | (with_reducible refine Spec.ite ?_ ?_)
  | ((with_reducible refine Atomic.of_noText_bind ?_); spec_walk good_noText)
  | split))
macro_rules | `(tactic| atomic_walk) => `(tactic| repeat' atomic_step)

theorem processSection_atomic (o : Options) (format : Format) : Atomic (processSection o format) := by
  unfold processSection
  atomic_walk

/-! ### Hoare triples on normal completion; the failure flag tells the truth -/

abbrev Tr {α} (P Q : DState → Prop) (m : DM α) : Prop := Spec (fun s s' => P s → Q s') (fun _ _ _ => True) m

theorem good_tr (P : DState → Prop) : Good (fun s s' => P s → P s') (fun _ _ _ => True) :=
  ⟨fun _ h => h, fun h1 h2 h => h2 (h1 h), fun _ _ => trivial⟩

/-- the failure flag is set -/
def HF (s : DState) : Prop := s.hadFailure = true
/-- a bad event has been printed -/
def HB (s : DState) : Prop := ∃ ev ∈ s.out, isBadEv ev = true
/-- the failure flag is set exactly when a bad event has been printed -/
def Honest (s : DState) : Prop := HF s ↔ HB s

/-- preserved by `QR` steps -/
def StableQ (P : DState → Prop) : Prop := ∀ s s', QR s s' → P s → P s'

theorem QR.hf {s s' : DState} (h : QR s s') : HF s' ↔ HF s := by unfold HF; rw [h.1]
theorem QR.hb {s s' : DState} (h : QR s s') : HB s' ↔ HB s := by
  obtain ⟨_, evs, e, hn⟩ := h
  unfold HB; rw [e]
  constructor
  · rintro ⟨ev, hm, hb⟩
    rcases List.mem_append.1 hm with h | h
    · exact ⟨ev, h, hb⟩
    · rw [hn ev h] at hb; cases hb
  · rintro ⟨ev, hm, hb⟩
    exact ⟨ev, List.mem_append.2 (Or.inl hm), hb⟩

theorem stable_HF : StableQ HF := fun _ _ h hp => h.hf.2 hp
theorem stable_HB : StableQ HB := fun _ _ h hp => h.hb.2 hp
theorem stable_Honest : StableQ Honest := fun _ _ h hp => by unfold Honest; rw [h.hf, h.hb]; exact hp

section
variable {α β : Type} {P Q R : DState → Prop}
theorem Tr.bind {m : DM α} {f : α → DM β} (hm : Tr P Q m) (hf : ∀ a, Tr Q R (f a)) : Tr P R (m >>= f) :=
  Spec.bind' hm hf (fun _ _ _ h1 h2 h => h2 (h1 h)) (fun _ _ _ _ => trivial) (fun _ _ _ _ _ _ => trivial)
theorem Tr.of_neutral {m : DM α} (hP : StableQ P) (h : Neutral m) : Tr P P m :=
  Spec.weaken h (fun s s' hq => hP s s' hq) (fun _ _ _ _ => trivial)
theorem Tr.pure_self (a : α) : Tr P P (Pure.pure a : DM α) := Spec.pure' a (fun _ h => h)
theorem Tr.throw (e : Exn) : Tr P Q (throw e : DM α) := Spec.throw e (fun _ => trivial)
end

theorem HB.emit {s : DState} {ev : DEv} (h : isBadEv ev = true) : HB { s with out := s.out ++ [ev] } :=
  ⟨ev, by simp, h⟩
theorem HB.mono_emit {s : DState} {ev : DEv} (h : HB s) : HB { s with out := s.out ++ [ev] } := by
  obtain ⟨e, hm, hb⟩ := h
  exact ⟨e, List.mem_append.2 (Or.inl hm), hb⟩

theorem Tr.emit_bad_honest (ev : DEv) (h : isBadEv ev = true) : Tr Honest HB (emit ev) :=
  Spec.emit ev (fun _ _ => HB.emit h)
theorem Tr.emit_bad_any {P : DState → Prop} (ev : DEv) (h : isBadEv ev = true) : Tr P HB (emit ev) :=
  Spec.emit ev (fun _ _ => HB.emit h)
theorem Tr.emit_bad_hf (ev : DEv) (h : isBadEv ev = true) : Tr HF Honest (emit ev) :=
  Spec.emit ev (fun _ hf => ⟨fun _ => HB.emit h, fun _ => hf⟩)
theorem Tr.emit_hb (ev : DEv) : Tr HB HB (emit ev) := Spec.emit ev (fun _ h => HB.mono_emit h)
theorem Tr.failNow_honest : Tr Honest HF failNow := Spec.failNow (fun _ _ => rfl)
theorem Tr.failNow_hb : Tr HB Honest failNow :=
  Spec.failNow (fun _ hb => ⟨fun _ => hb, fun _ => rfl⟩)

theorem Neutral.emit (ev : DEv) (h : isBadEv ev = false) : Neutral (emit ev) := Neutral.of_quiet (Quiet.emit ev h)
theorem Neutral.msgs (f : DState → DState) (ms : List Msg) (h1 : ∀ s, (f s).hadFailure = s.hadFailure)
    (h2 : ∀ s, (f s).out = s.out ++ ms.map DEv.msg) : Neutral (_root_.modify f : DM Unit) :=
  Spec.modify f (fun s => ⟨h1 s, ms.map DEv.msg, h2 s, by
    intro ev hev
    obtain ⟨m, _, rfl⟩ := List.mem_map.1 hev
    rfl⟩)

/-- programs that leave the failure flag alone and print nothing bad (on normal completion) -/
syntax "neutral_leaf" : tactic
macro_rules | `(tactic| neutral_leaf) => `(tactic| with_reducible first
  | exact Spec.get good_neutral
  | exact Spec.pure good_neutral _
  | exact Neutral.of_quiet (by quiet_leaf)
  | exact Neutral.liftE _
  | exact Neutral.throw _
  | exact Neutral.emit _ rfl
  | exact Neutral.modify _ (fun _ => rfl) (fun _ => rfl)
  | exact Neutral.msgs _ _ (fun _ => rfl) (fun _ => rfl)
  | exact parseBodyM_neutral _ _
  | exact Spec.fsExists good_neutral _
  | exact Spec.fsIsRegular good_neutral _
  | exact Spec.fsIsSymlink good_neutral _
  | (refine ReadOnly.spec good_neutral ?_; readonly_walk; done)
  | exact Spec.fsGetPerms good_neutral _)

syntax "stable_leaf" : tactic
macro_rules | `(tactic| stable_leaf) => `(tactic| first
  | exact stable_Honest | exact stable_HB | exact stable_HF)

macro_rules | `(tactic| spec_leaf $_) => `(tactic| with_reducible first
  | exact Tr.emit_hb _
  | (refine Tr.of_neutral ?_ ?_ <;> first | stable_leaf | neutral_leaf))

/-- `refuse_to_patch` always prints a bad event -/
theorem refuseToPatch_hb {P : DState → Prop} (o : Options) (f : Bytes) (p : Patch) : Tr P HB (refuseToPatch o f p) := by
  unfold refuseToPatch
  refine Tr.bind (Tr.emit_bad_any _ rfl) (fun _ => ?_)
  spec_walk (good_tr HB)

/-- the statements that change the failure flag or print a bad event -/
syntax "honest_leaf" : tactic
macro_rules | `(tactic| honest_leaf) => `(tactic| with_reducible first
  | (refine Tr.emit_bad_honest _ ?_; with_unfolding_all rfl)
  | (refine Tr.emit_bad_hf _ ?_; with_unfolding_all rfl)
  | exact Tr.emit_hb _
  | exact Tr.failNow_honest
  | exact Tr.failNow_hb
  | exact refuseToPatch_hb _ _ _
  | (refine Tr.of_neutral ?_ ?_ <;> first | stable_leaf | neutral_leaf))

syntax "honest_step" : tactic
syntax "honest_walk" : tactic
macro_rules | `(tactic| honest_step) => `(tactic| (
  first
  | (extract_lets -underBinder +onlyGivenNames jp
     first
     | (refine Spec.cutRO jp (fun x => ?_) (fun hjp => ?_)
        rotate_left; focus (clear_value jp)
        rotate_right; focus (dsimp -zeta only [jp]; readonly_walk; done))
     | (refine Spec.cut2 jp (fun x y => ?_) (fun hjp => ?_)
        rotate_left; focus (clear_value jp)
        rotate_right; focus (dsimp -zeta only [jp]))
     | (refine Spec.cut1 jp (fun x => ?_) (fun hjp => ?_)
        rotate_left; focus (clear_value jp)
        rotate_right; focus (dsimp -zeta only [jp]))
     | (clear_value jp))
  | ((with_reducible refine Tr.bind (Q := ?_) ?_ (fun _ => ?_)); rotate_left; focus (honest_leaf; done))
  | (with_reducible refine Spec.ite ?_ ?_)
  | (with_reducible first
      | exact Tr.pure_self _
      | exact Tr.throw _
      | assumption
      | apply_assumption -exfalso -symm only [*])
  | (with_reducible (refine Tr.of_neutral ?_ ?_ <;> first | stable_leaf | neutral_leaf))
  | split))
macro_rules | `(tactic| honest_walk) => `(tactic| repeat' honest_step)

theorem processSection_honest (o : Options) (format : Format) : Tr Honest Honest (processSection o format) := by
  unfold processSection
  honest_walk

theorem sectionLoop_honest (o : Options) (format : Format) : ∀ n, Tr Honest Honest (sectionLoop o format n)
  | 0 => by unfold sectionLoop; exact Tr.throw _
  | n + 1 => by
    have ih := sectionLoop_honest o format n
    have hs := processSection_honest o format
    unfold sectionLoop
    spec_walk (good_tr Honest)

theorem processPatchM_honest (o : Options) : Tr Honest Honest (processPatchM o) := by
  unfold processPatchM
  extract_lets -underBinder +onlyGivenNames jp
  refine Spec.cut1 jp (fun x => ?_) (fun hjp => ?_)
  · dsimp -zeta only [jp]
    have hl := sectionLoop_honest o
    spec_walk (good_tr Honest)
  · clear_value jp
    split
    · constructor
      · intro s a s' hr
        rw [run_bind, run_get] at hr
        simp only [] at hr
        split at hr
        · rw [run_bind, run_set] at hr
          intro hs
          exact (hjp ()).ok _ _ _ hr hs
        · rw [run_bind, run_throw] at hr; cases hr
      · intros; trivial
    · exact hjp ()

/-- the exit status of `main` -/
theorem runPatch_honest (o : Options) (s0 s : DState) (h0 : Honest s0) (h : (processPatchM o).run s0 = (.ok (), s)) :
    Honest s := (processPatchM_honest o).ok _ _ _ h h0

/-! ### the write of one file (`writeNow`): backup, `make_writable`, `creat`/`write`, permission callback

`writeNow` is the common part of the direct branch of `writePatchedResult` (`writePatchedResult_direct`) and of the loop
body of `finalizeDeferred` (`finalizeDeferred_eq`).  `writeNow_shape`: the operations it performs are `M ++ B ++ W ++ C` with
`M` the `mkdir`s of the directories of the backup name, `B` the backup (`BackupOps`: `rename` to the backup name / `creat` of an empty
backup, after the `unlink` of a symbolic link of that name / nothing), `W` the `chmod` of a read-only target that is still there (or nothing), `C` the `creat` of the target followed by
its `write` and the `chmod` of the permission callback.
`ChmodLate`: every `chmod` comes after the `creat` of the same path, or directly before the creation it prepares
(or is the last operation before an I/O error); `Late m := Spec LateR LateE m`, `processSection_late`, `finalizeDeferred_late`,
`processPatchM_late`. -/

/-- the immediate write of one file -/
def writeNow (o : Options) (out : Bytes) (perm : PermResult) (sb : Bool) (content : Bytes) (nm : Nat) : DM Unit :=
  (if sb = true then makeBackupFor o out else pure ()) >>= fun _ =>
  makeWritable perm out >>= fun _ =>
  writeFile out content >>= fun _ =>
  permissionCallback nm perm out

theorem writePatchedResult_direct (o : Options) (p : Patch) (out : Bytes) (perm : PermResult) (sb : Bool) (content : Bytes)
    (hc : (p.format == .git && p.operation != .delete) = false) :
    writePatchedResult o p out perm sb content =
      ((if (p.operation == .add) = true then ensureParentDirs out else pure ()) >>= fun _ =>
        writeNow o out perm sb content p.newMode) := by
  unfold writePatchedResult writeNow
  simp only [hc]
  cases sb <;> split <;> simp

/-- the removal of the source of a git rename, once everything has been written: with a backup due the file is MOVED to its
    backup name (and removed only if it is still there: its backup was made by an earlier section), else removed -/
def removeNow (o : Options) (p : Bytes) (backup : Bool) : DM Unit :=
  (if backup = true then makeBackupFor o p else pure ()) >>= fun _ =>
  fsExists p >>= fun ex =>
  if (!backup || ex) = true then removeFileAndEmptyParents p else pure ()

theorem finalizeDeferred_eq (o : Options) :
    finalizeDeferred o = (do
      let s ← get
      for w in s.dWrites do
        ensureParentDirs w.dest
        writeNow o w.dest w.perm w.backup w.content w.newMode
      for e in s.dRemovals do
        if !(s.dWrites.any (·.dest == e.1)) then removeNow o e.1 e.2) := by
  unfold finalizeDeferred writeNow removeNow
  congr; funext s; congr
  · funext w u
    cases w.backup <;> simp
  · funext _; congr; funext e u
    obtain ⟨p, b⟩ := e
    cases b
    · simp
    · simp only [Bool.not_true, Bool.false_or, ↓reduceIte, bind_assoc]
      split
      · congr; funext _; congr; funext a
        cases a <;> simp
      · rfl

theorem removeNow_trExt {A : FsOp → Prop} (h0 : ∀ a, A (.mkdir a)) (h1 : ∀ a b, A (.rename a b)) (h2 : ∀ a, A (.creat a))
    (h3 : ∀ p, A (.unlink p)) (h4 : ∀ p, A (.rmdir p)) (o : Options) (p : Bytes) (b : Bool) : TrExt A (removeNow o p b) := by
  have := makeBackupFor_trExt h0 h1 h2 h3 o
  have := removeFileAndEmptyParents_trExt h3 h4
  unfold removeNow; spec_walk (good_ext A)

theorem makeWritable_shape (perm : PermResult) (p : Bytes) {s s1 : DState} {r : Except Exn Unit}
    (h : (makeWritable perm p).run s = (r, s1)) :
    s1.cwd = s.cwd ∧ s1.backedUp = s.backedUp ∧ ∃ W, s1.trace = s.trace ++ W ∧
      (W = [] ∨ ∃ m, W = [FsOp.chmod (absPath s p) m]) ∧ (∀ e, r = .error e → e = .systemError ∧ W = []) := by
  unfold makeWritable at h
  rw [run_bind, run_fsExists] at h
  dsimp only at h
  split at h
  · split at h
    · rcases opChmod_cases h with h | ⟨rfl, rfl, -, -⟩
      · rcases doOp_cases h with ⟨rfl, fs', _, rfl⟩ | ⟨rfl, rfl⟩
        · exact ⟨rfl, rfl, [_], rfl, Or.inr ⟨_, rfl⟩, fun e he => by cases he⟩
        · exact ⟨rfl, rfl, [], by simp, Or.inl rfl, fun e he => by cases he; exact ⟨rfl, rfl⟩⟩
      · exact ⟨rfl, rfl, [], by simp, Or.inl rfl, fun e he => by cases he⟩
    · cases h; exact ⟨rfl, rfl, [], by simp, Or.inl rfl, fun e he => by cases he⟩
  · cases h; exact ⟨rfl, rfl, [], by simp, Or.inl rfl, fun e he => by cases he⟩

/-- the possible backup operations `B` for the file `p` with backup name `bn` (absolute paths): nothing, the `rename` of the file to its
    backup name, or — for a file which does not exist — the `creat` of an empty backup, preceded by the `unlink` of a symbolic link
    which has the backup name (`[unlink bn]` alone: the `creat` then failed) -/
def BackupOps (p bn : Bytes) (B : List FsOp) : Prop :=
  B = [] ∨ B = [FsOp.rename p bn] ∨ B = [FsOp.creat bn] ∨ B = [FsOp.unlink bn] ∨ B = [FsOp.unlink bn, FsOp.creat bn]

/-- the backup step: the `mkdir`s `M` of the directories of the backup name (a prefix like `bak/` may name a directory that does
    not exist yet), then the backup operation `B` itself -/
theorem backupStep_shape (o : Options) (sb : Bool) (p : Bytes) {s s1 : DState} {r : Except Exn Unit}
    (h : (if sb = true then makeBackupFor o p else pure ()).run s = (r, s1)) :
    s1.cwd = s.cwd ∧ ∃ M B, s1.trace = s.trace ++ M ++ B ∧
      (∀ op ∈ M, ∃ d ∈ dirPrefixes (backupName o p), op = FsOp.mkdir (absPath s d)) ∧
      BackupOps (absPath s p) (absPath s (backupName o p)) B ∧
      (sb = true → notFileAt s p = false → s.backedUp.contains (backupName o p) = false → r = .ok () →
        B ≠ [] ∧ B ≠ [FsOp.unlink (absPath s (backupName o p))]) ∧
      (sb = false ∨ s.backedUp.contains (backupName o p) = true ∨ notFileAt s p = true → M = [] ∧ B = []) ∧
      (∀ e, r = .error e → e = .systemError ∧ (B = [] ∨ B = [FsOp.unlink (absPath s (backupName o p))])) := by
  split at h
  · next hsb =>
    rw [makeBackupFor_run] at h
    split at h
    · next hnf =>
      cases h
      exact ⟨rfl, [], [], by simp, by simp, Or.inl rfl, fun _ hn => (by rw [hnf] at hn; cases hn), fun _ => ⟨rfl, rfl⟩,
        fun e he => by cases he⟩
    next hnf =>
    split at h
    · next hc =>
      cases h
      exact ⟨rfl, [], [], by simp, by simp, Or.inl rfl, fun _ _ hn => (by rw [hc] at hn; cases hn), fun _ => ⟨rfl, rfl⟩,
        fun e he => by cases he⟩
    · next hc =>
      have hc' : ¬ (sb = false ∨ s.backedUp.contains (backupName o p) = true ∨ notFileAt s p = true) := by
        rintro (h | h | h)
        · rw [hsb] at h; cases h
        · exact hc h
        · exact hnf h
      split at h
      · next _ s2 h0 =>
        obtain ⟨⟨fs', t, n, rfl⟩, ⟨M, tM, hM⟩, -⟩ := ensureParentDirs_shape _ h0
        have tM : t = s.trace ++ M := tM
        have hM : ∀ op ∈ M, ∃ d ∈ dirPrefixes (backupName o p), op = FsOp.mkdir (absPath s d) := hM
        split at h
        · rcases doOp_cases h with ⟨rfl, fs2, _, rfl⟩ | ⟨rfl, rfl⟩
          · exact ⟨rfl, M, [_], by show t ++ _ = _; rw [tM]; rfl, hM, Or.inr (Or.inl rfl), fun _ _ _ _ => ⟨by simp, by simp⟩,
              fun h => absurd h hc', fun e he => by cases he⟩
          · exact ⟨rfl, M, [], by show t = _; rw [tM]; simp, hM, Or.inl rfl, fun _ _ _ he => (by cases he), fun h => absurd h hc',
              fun e he => by cases he; exact ⟨rfl, Or.inl rfl⟩⟩
        · split at h
          · split at h
            · next _ s3 hu =>
              rcases doOp_cases hu with ⟨_, fs2, _, rfl⟩ | ⟨hu', _⟩
              · rcases doOp_cases h with ⟨rfl, fs3, _, rfl⟩ | ⟨rfl, rfl⟩
                · exact ⟨rfl, M, [FsOp.unlink (absPath s (backupName o p)), FsOp.creat (absPath s (backupName o p))],
                    by show t ++ [_] ++ [_] = _; rw [tM]; simp only [List.append_assoc]; rfl, hM, Or.inr (Or.inr (Or.inr (Or.inr rfl))),
                    fun _ _ _ _ => ⟨by simp, by simp⟩, fun h => absurd h hc', fun e he => by cases he⟩
                · exact ⟨rfl, M, [_], by show t ++ _ = _; rw [tM]; rfl, hM, Or.inr (Or.inr (Or.inr (Or.inl rfl))),
                    fun _ _ _ he => (by cases he), fun h => absurd h hc', fun e he => by cases he; exact ⟨rfl, Or.inr rfl⟩⟩
              · cases hu'
            · next e s3 hu =>
              cases h
              rcases doOp_cases hu with ⟨hu', _⟩ | ⟨hu', rfl⟩
              · cases hu'
              · cases hu'
                exact ⟨rfl, M, [], by show t = _; rw [tM]; simp, hM, Or.inl rfl, fun _ _ _ he => (by cases he),
                  fun h => absurd h hc', fun e he => by cases he; exact ⟨rfl, Or.inl rfl⟩⟩
          · rcases doOp_cases h with ⟨rfl, fs2, _, rfl⟩ | ⟨rfl, rfl⟩
            · exact ⟨rfl, M, [_], by show t ++ _ = _; rw [tM]; rfl, hM, Or.inr (Or.inr (Or.inl rfl)), fun _ _ _ _ => ⟨by simp, by simp⟩,
                fun h => absurd h hc', fun e he => by cases he⟩
            · exact ⟨rfl, M, [], by show t = _; rw [tM]; simp, hM, Or.inl rfl, fun _ _ _ he => (by cases he), fun h => absurd h hc',
                fun e he => by cases he; exact ⟨rfl, Or.inl rfl⟩⟩
      · next e s2 h0 =>
        cases h
        obtain ⟨⟨fs', t, n, rfl⟩, ⟨M, tM, hM⟩, herr, -⟩ := ensureParentDirs_shape _ h0
        have tM : t = s.trace ++ M := tM
        have hM : ∀ op ∈ M, ∃ d ∈ dirPrefixes (backupName o p), op = FsOp.mkdir (absPath s d) := hM
        exact ⟨rfl, M, [], by show t = _; rw [tM]; simp, hM, Or.inl rfl, fun _ _ _ he => (by cases he), fun h => absurd h hc',
          fun e' he => by cases he; exact ⟨herr _ rfl, Or.inl rfl⟩⟩
  · next hsb =>
    cases h
    exact ⟨rfl, [], [], by simp, by simp, Or.inl rfl, fun h => absurd h hsb, fun _ => ⟨rfl, rfl⟩, fun e he => by cases he⟩

theorem writeFile_shape (p content : Bytes) {s s1 : DState} {r : Except Exn Unit}
    (h : (writeFile p content).run s = (r, s1)) :
    s1.cwd = s.cwd ∧ ∃ C, s1.trace = s.trace ++ C ∧
      (C = [] ∨ ∃ C', C = FsOp.creat (absPath s p) :: C' ∧ ∀ op ∈ C', ∃ b, op = FsOp.write (absPath s p) b) ∧
      (r = .ok () → C ≠ []) ∧ (∀ e, r = .error e → e = .systemError) := by
  unfold writeFile at h
  rw [run_bind, run_opCreat] at h
  split at h
  · next a s2 h1 =>
    rcases doOp_cases h1 with ⟨_, fs', _, rfl⟩ | ⟨h2, _⟩
    · rw [run_opWrite] at h
      split at h
      · cases h
        exact ⟨rfl, [_], rfl, Or.inr ⟨[], rfl, by simp⟩, fun _ => by simp, fun e he => by cases he⟩
      · rcases doOp_cases h with ⟨rfl, fs2, _, rfl⟩ | ⟨rfl, rfl⟩
        · refine ⟨rfl, [.creat (absPath s p), .write (absPath s p) content], List.append_assoc _ _ _, Or.inr ⟨[_], rfl, ?_⟩, fun _ => by simp, fun e he => by cases he⟩
          intro op hop
          rw [List.mem_singleton.1 hop]
          exact ⟨_, rfl⟩
        · exact ⟨rfl, [_], rfl, Or.inr ⟨[], rfl, by simp⟩, fun _ => by simp, fun e he => by cases he; rfl⟩
    · cases h2
  · next e s2 h1 =>
    cases h
    rcases doOp_cases h1 with ⟨h2, _⟩ | ⟨h2, rfl⟩
    · cases h2
    · cases h2
      exact ⟨rfl, [], by simp, Or.inl rfl, fun he => (by cases he), fun e he => by cases he; rfl⟩

theorem permissionCallback_shape (nm : Nat) (perm : PermResult) (p : Bytes) {s s1 : DState} {r : Except Exn Unit}
    (h : (permissionCallback nm perm p).run s = (r, s1)) :
    s1.cwd = s.cwd ∧ ∃ C, s1.trace = s.trace ++ C ∧ (C = [] ∨ ∃ m, C = [FsOp.chmod (absPath s p) m]) ∧
      (∀ e, r = .error e → e = .systemError) := by
  have key : ∀ m, (opChmod p m).run s = (r, s1) → s1.cwd = s.cwd ∧ ∃ C, s1.trace = s.trace ++ C ∧
      (C = [] ∨ ∃ m, C = [FsOp.chmod (absPath s p) m]) ∧ (∀ e, r = .error e → e = .systemError) := by
    intro m h
    rcases opChmod_cases h with h | ⟨rfl, rfl, -, -⟩
    · rcases doOp_cases h with ⟨rfl, fs', _, rfl⟩ | ⟨rfl, rfl⟩
      · exact ⟨rfl, [_], rfl, Or.inr ⟨_, rfl⟩, fun e he => by cases he⟩
      · exact ⟨rfl, [], by simp, Or.inl rfl, fun e he => by cases he; rfl⟩
    · exact ⟨rfl, [], by simp, Or.inl rfl, fun e he => by cases he⟩
  unfold permissionCallback at h
  split at h
  · exact key _ h
  · split at h
    · exact key _ h
    · cases h; exact ⟨rfl, [], by simp, Or.inl rfl, fun e he => by cases he⟩


theorem writeNow_shape (o : Options) (out : Bytes) (perm : PermResult) (sb : Bool) (content : Bytes) (nm : Nat)
    {s s' : DState} {r : Except Exn Unit} (h : (writeNow o out perm sb content nm).run s = (r, s')) :
    s'.cwd = s.cwd ∧ ∃ M B W C, s'.trace = s.trace ++ M ++ B ++ W ++ C ∧
      (∀ op ∈ M, ∃ d ∈ dirPrefixes (backupName o out), op = FsOp.mkdir (absPath s d)) ∧
      BackupOps (absPath s out) (absPath s (backupName o out)) B ∧
      (W = [] ∨ ∃ m, W = [FsOp.chmod (absPath s out) m]) ∧
      (C = [] ∨ ∃ C', C = FsOp.creat (absPath s out) :: C' ∧
        ∀ op ∈ C', (∃ b, op = FsOp.write (absPath s out) b) ∨ ∃ m, op = FsOp.chmod (absPath s out) m) ∧
      (sb = true → notFileAt s out = false → s.backedUp.contains (backupName o out) = false →
        B = [] ∨ B = [FsOp.unlink (absPath s (backupName o out))] → W = [] ∧ C = []) ∧
      (sb = false ∨ s.backedUp.contains (backupName o out) = true ∨ notFileAt s out = true → M = [] ∧ B = []) ∧
      (r = .ok () → C ≠ []) ∧ (∀ e, r = .error e → e = .systemError) := by
  unfold writeNow at h
  rw [run_bind] at h
  split at h
  · next _ s1 h1 =>
    obtain ⟨c1, M, B, t1, hM, hB, hB1, hB2, -⟩ := backupStep_shape _ _ _ h1
    rw [run_bind] at h
    split at h
    · next _ s2 h2 =>
      obtain ⟨c2, -, W, t2, hW, -⟩ := makeWritable_shape _ _ h2
      rw [absPath_cwd c1] at hW
      rw [run_bind] at h
      split at h
      · next _ s3 h3 =>
        obtain ⟨c3, C1, t3, hC1, hne, -⟩ := writeFile_shape _ _ h3
        obtain ⟨c4, C2, t4, hC2, herr⟩ := permissionCallback_shape _ _ _ h
        rw [absPath_cwd (c2.trans c1)] at hC1
        rw [absPath_cwd (c3.trans (c2.trans c1))] at hC2
        have hne := hne rfl
        refine ⟨c4.trans (c3.trans (c2.trans c1)), M, B, W, C1 ++ C2, ?_, hM, hB, hW, ?_, ?_, hB2, ?_, herr⟩
        · rw [t4, t3, t2, t1]; simp only [List.append_assoc]
        · rcases hC1 with h | ⟨C', rfl, hC'⟩
          · exact absurd h hne
          · refine Or.inr ⟨C' ++ C2, rfl, ?_⟩
            intro op hop
            rcases List.mem_append.1 hop with h | h
            · exact Or.inl (hC' op h)
            · rcases hC2 with rfl | ⟨m, rfl⟩
              · cases h
              · rw [List.mem_singleton.1 h]; exact Or.inr ⟨m, rfl⟩
        · intro hsb hnf hn hb
          rcases hb with hb | hb
          · exact absurd hb (hB1 hsb hnf hn rfl).1
          · exact absurd hb (hB1 hsb hnf hn rfl).2
        · intro _ hc
          exact hne (List.append_eq_nil_iff.1 hc).1
      · next e s3 h3 =>
        cases h
        obtain ⟨c3, C1, t3, hC1, -, herr⟩ := writeFile_shape _ _ h3
        rw [absPath_cwd (c2.trans c1)] at hC1
        refine ⟨c3.trans (c2.trans c1), M, B, W, C1, ?_, hM, hB, hW, ?_, ?_, hB2, fun he => (by cases he),
          fun e he => (by cases he; exact herr _ rfl)⟩
        · rw [t3, t2, t1]
        · rcases hC1 with h | ⟨C', rfl, hC'⟩
          · exact Or.inl h
          · exact Or.inr ⟨C', rfl, fun op hop => Or.inl (hC' op hop)⟩
        · intro hsb hnf hn hb
          rcases hb with hb | hb
          · exact absurd hb (hB1 hsb hnf hn rfl).1
          · exact absurd hb (hB1 hsb hnf hn rfl).2
    · next e s2 h2 =>
      cases h
      obtain ⟨c2, -, W, t2, hW, herr⟩ := makeWritable_shape _ _ h2
      rw [absPath_cwd c1] at hW
      refine ⟨c2.trans c1, M, B, W, [], ?_, hM, hB, hW, Or.inl rfl, ?_, hB2, fun he => (by cases he),
        fun e he => (by cases he; exact (herr _ rfl).1)⟩
      · rw [t2, t1]; simp
      · intro hsb hnf hn hb
        rcases hb with hb | hb
        · exact absurd hb (hB1 hsb hnf hn rfl).1
        · exact absurd hb (hB1 hsb hnf hn rfl).2
  · next e s1 h1 =>
    cases h
    obtain ⟨c1, M, B, t1, hM, hB, -, hB2, herr⟩ := backupStep_shape _ _ _ h1
    refine ⟨c1, M, B, [], [], ?_, hM, hB, Or.inl rfl, Or.inl rfl, fun _ _ _ _ => ⟨rfl, rfl⟩, hB2, fun he => (by cases he),
      fun e he => (by cases he; exact (herr _ rfl).1)⟩
    rw [t1]; simp


/-! ### `ChmodLate` -/

abbrev NoChmod (op : FsOp) : Prop := ∀ p m, op ≠ FsOp.chmod p m

/-- every `chmod p` among `ops` comes after a `creat p` (the permission callback after the write), or is DIRECTLY followed by the
    `creat p` it prepares (`make_writable` runs right before the write, after the backup), or — only if `dangling` — is the very
    last operation.

    CHANGED with the model change "the backup is taken before `make_writable`" (D93): the `chmod` of a read-only target now comes
    after the backup (and its `mkdir`s) and directly before the `creat` of the target, so the statement is the strong one again
    ("directly followed", and by the re-creation of the very path) — it had been weakened to "followed, with only `mkdir`s in
    between, by the backup / a creation" when `Backup::make_backup_for` began to create the directories of the backup name. -/
def ChmodLate (dangling : Prop) (ops : List FsOp) : Prop :=
  ∀ i p m, ops[i]? = some (FsOp.chmod p m) →
    (∃ j, j < i ∧ ops[j]? = some (FsOp.creat p)) ∨
    ops[i + 1]? = some (FsOp.creat p) ∨
    (dangling ∧ i + 1 = ops.length)

theorem ChmodLate.of_noChmod {d : Prop} {ops : List FsOp} (h : ∀ op ∈ ops, NoChmod op) : ChmodLate d ops := by
  intro i p m hi
  exact absurd rfl (h _ (List.mem_of_getElem? hi) p m)

theorem ChmodLate.nil {d : Prop} : ChmodLate d [] := ChmodLate.of_noChmod (by simp)

theorem ChmodLate.mono {d : Prop} {ops : List FsOp} (h : ChmodLate False ops) : ChmodLate d ops := by
  intro i p m hi
  rcases h i p m hi with x | x | ⟨f, _⟩
  · exact .inl x
  · exact .inr (.inl x)
  · exact f.elim

theorem getElem?_lt_of_some {α} {l : List α} {i : Nat} {x : α} (h : l[i]? = some x) : i < l.length := by
  rcases Nat.lt_or_ge i l.length with h' | h'
  · exact h'
  · rw [List.getElem?_eq_none h'] at h; cases h

theorem ChmodLate.append {d : Prop} {a b : List FsOp} (ha : ChmodLate False a) (hb : ChmodLate d b) :
    ChmodLate d (a ++ b) := by
  intro i p m hi
  by_cases hlt : i < a.length
  · rw [List.getElem?_append_left hlt] at hi
    rcases ha i p m hi with ⟨j, hj, e⟩ | e | ⟨f, _⟩
    · exact .inl ⟨j, hj, by rw [List.getElem?_append_left (by omega)]; exact e⟩
    · have h1 : i + 1 < a.length := getElem?_lt_of_some e
      exact .inr (.inl (by rw [List.getElem?_append_left h1]; exact e))
    · exact f.elim
  · have hge : a.length ≤ i := by omega
    rw [List.getElem?_append_right hge] at hi
    rcases hb _ p m hi with ⟨j, hj, e⟩ | e | ⟨f, hl⟩
    · refine .inl ⟨j + a.length, by omega, ?_⟩
      rw [List.getElem?_append_right (by omega)]
      have : j + a.length - a.length = j := by omega
      rw [this]; exact e
    · refine .inr (.inl ?_)
      rw [List.getElem?_append_right (by omega)]
      have : i + 1 - a.length = i - a.length + 1 := by omega
      rw [this]; exact e
    · refine .inr (.inr ⟨f, ?_⟩)
      rw [List.length_append]
      omega

/-- one more operation in front: a `chmod` must be directly followed by the `creat` it prepares (or, dangling, by nothing) -/
theorem ChmodLate.cons {d : Prop} {x : FsOp} {l : List FsOp}
    (hx : ∀ p m, x = FsOp.chmod p m → l[0]? = some (FsOp.creat p) ∨ (d ∧ l = []))
    (h : ChmodLate d l) : ChmodLate d (x :: l) := by
  intro i p m hi
  cases i with
  | zero =>
    simp only [List.getElem?_cons_zero, Option.some.injEq] at hi
    rcases hx p m hi with e | ⟨hd, hl⟩
    · exact .inr (.inl (by rw [List.getElem?_cons_succ]; exact e))
    · exact .inr (.inr ⟨hd, by rw [hl]; rfl⟩)
  | succ n =>
    have hi' : l[n]? = some (FsOp.chmod p m) := by simpa using hi
    rcases h n p m hi' with ⟨j, hj, e⟩ | e | ⟨f, hl⟩
    · exact .inl ⟨j + 1, by omega, by simpa using e⟩
    · exact .inr (.inl (by rw [List.getElem?_cons_succ]; exact e))
    · exact .inr (.inr ⟨f, by simp only [List.length_cons]; omega⟩)

/-- after its `creat`, a file may be written and `chmod`ed at will -/
theorem ChmodLate.created {q : Bytes} {C' : List FsOp}
    (h : ∀ op ∈ C', (∃ b, op = FsOp.write q b) ∨ ∃ m, op = FsOp.chmod q m) : ChmodLate False (FsOp.creat q :: C') := by
  intro i p m hi
  cases i with
  | zero => simp at hi
  | succ n =>
    have hi' : C'[n]? = some (FsOp.chmod p m) := by simpa using hi
    rcases h _ (List.mem_of_getElem? hi') with ⟨b, e⟩ | ⟨m', e⟩
    · cases e
    · cases e
      exact .inl ⟨0, by omega, rfl⟩

/-- the blocks `M ++ B ++ W ++ C` of `writeNow_shape` -/
theorem ChmodLate.of_shape {d : Prop} {q : Bytes} {M B W C : List FsOp}
    (hM : ∀ op ∈ M, ∃ x, op = FsOp.mkdir x)
    (hB : ∀ op ∈ B, NoChmod op)
    (hW : W = [] ∨ ∃ m, W = [FsOp.chmod q m])
    (hC : C = [] ∨ ∃ C', C = FsOp.creat q :: C' ∧ ∀ op ∈ C', (∃ b, op = FsOp.write q b) ∨ ∃ m, op = FsOp.chmod q m)
    (hd : d ∨ C ≠ []) : ChmodLate d (M ++ B ++ W ++ C) := by
  have lM : ChmodLate False M := by
    refine ChmodLate.of_noChmod ?_
    intro op hop
    obtain ⟨x, rfl⟩ := hM op hop
    exact fun _ _ => nofun
  have lB : ChmodLate False B := ChmodLate.of_noChmod hB
  have lC : ChmodLate False C := by
    rcases hC with rfl | ⟨C', rfl, h⟩
    · exact ChmodLate.nil
    · exact ChmodLate.created h
  have lWC : ChmodLate d (W ++ C) := by
    rcases hW with rfl | ⟨m, rfl⟩
    · exact lC.mono
    · show ChmodLate d (FsOp.chmod q m :: C)
      refine ChmodLate.cons ?_ lC.mono
      intro p m' hpm
      cases hpm
      rcases hC with rfl | ⟨C', rfl, _⟩
      · rcases hd with hd | hd
        · exact .inr ⟨hd, rfl⟩
        · exact absurd rfl hd
      · exact .inl rfl
  rw [List.append_assoc, List.append_assoc]
  exact lM.append (lB.append lWC)

def LateR (s s' : DState) : Prop := ∃ ops, s'.trace = s.trace ++ ops ∧ ChmodLate False ops
def LateE (e : Exn) (s s' : DState) : Prop := ∃ ops, s'.trace = s.trace ++ ops ∧ ChmodLate (e = .systemError) ops

theorem good_late : Good LateR LateE := by
  refine ⟨fun s => ⟨[], by simp, ChmodLate.nil⟩, ?_, ?_⟩
  · rintro s s1 s2 ⟨o1, e1, l1⟩ ⟨o2, e2, l2⟩
    exact ⟨o1 ++ o2, by rw [e2, e1, List.append_assoc], l1.append l2⟩
  · rintro e s s1 s2 ⟨o1, e1, l1⟩ ⟨o2, e2, l2⟩
    exact ⟨o1 ++ o2, by rw [e2, e1, List.append_assoc], l1.append l2⟩

abbrev Late {α} (m : DM α) : Prop := Spec LateR LateE m

theorem Late.of_trExt {α} {m : DM α} (h : TrExt NoChmod m) : Late m :=
  Spec.weaken h (fun _ _ ⟨ops, e, hn⟩ => ⟨ops, e, ChmodLate.of_noChmod hn⟩)
    (fun _ _ _ ⟨ops, e, hn⟩ => ⟨ops, e, ChmodLate.of_noChmod hn⟩)

theorem writeNow_late (o : Options) (out : Bytes) (perm : PermResult) (sb : Bool) (content : Bytes) (nm : Nat) :
    Late (writeNow o out perm sb content nm) := by
  have key : ∀ s s' r, (writeNow o out perm sb content nm).run s = (r, s') → ∀ d : Prop, (d ∨ r = .ok ()) →
      ∃ ops, s'.trace = s.trace ++ ops ∧ ChmodLate d ops := by
    intro s s' r h d hd
    obtain ⟨-, M, B, W, C, t, hM, hB, hW, hC, -, -, hok, -⟩ := writeNow_shape o out perm sb content nm h
    refine ⟨M ++ B ++ W ++ C, by rw [t]; simp only [List.append_assoc],
      ChmodLate.of_shape (fun op hop => let ⟨_, _, e⟩ := hM op hop; ⟨_, e⟩) ?_ hW hC (hd.imp id hok)⟩
    intro op hop
    rcases hB with h | h | h | h | h <;> rw [h] at hop <;> simp at hop
    · rw [hop]; exact fun _ _ => nofun
    · rw [hop]; exact fun _ _ => nofun
    · rw [hop]; exact fun _ _ => nofun
    · rcases hop with hop | hop <;> rw [hop] <;> exact fun _ _ => nofun
  constructor
  · intro s a s' h
    exact key s s' _ h False (Or.inr rfl)
  · intro s e s' h
    obtain ⟨-, M, B, W, C, -, -, -, -, -, -, -, -, herr⟩ := writeNow_shape o out perm sb content nm h
    exact key s s' _ h _ (Or.inl (herr e rfl))


theorem refuseToPatch_trExt {A : FsOp → Prop} (h1 : ∀ p, A (.mkdir p)) (h2 : ∀ p, A (.creat p)) (h3 : ∀ p b, A (.write p b))
    (hu : ∀ p, A (.unlink p)) (o : Options) (f : Bytes) (p : Patch) : TrExt A (refuseToPatch o f p) := by
  have := ensureParentDirs_trExt h1
  have := openRejects_trExt h2 hu
  have := opWrite_trExt h3
  unfold refuseToPatch; spec_walk (good_ext A)

theorem noChmod_mkdir (p : Bytes) : NoChmod (.mkdir p) := fun _ _ h => by cases h
theorem noChmod_rmdir (p : Bytes) : NoChmod (.rmdir p) := fun _ _ h => by cases h
theorem noChmod_creat (p : Bytes) : NoChmod (.creat p) := fun _ _ h => by cases h
theorem noChmod_unlink (p : Bytes) : NoChmod (.unlink p) := fun _ _ h => by cases h
theorem noChmod_write (p b : Bytes) : NoChmod (.write p b) := fun _ _ h => by cases h
theorem noChmod_rename (a b : Bytes) : NoChmod (.rename a b) := fun _ _ h => by cases h
theorem noChmod_symlink (a b : Bytes) : NoChmod (.symlink a b) := fun _ _ h => by cases h
theorem noChmod_tmpCreate : NoChmod .tmpCreate := fun _ _ h => by cases h
theorem noChmod_tmpUnlink : NoChmod .tmpUnlink := fun _ _ h => by cases h

/-- programs that perform no `chmod` -/
syntax "nochmod_leaf" : tactic
macro_rules | `(tactic| nochmod_leaf) => `(tactic| with_reducible first
  | exact Spec.get (good_ext NoChmod)
  | exact Spec.pure (good_ext NoChmod) _
  | exact TrExt.liftE _
  | exact TrExt.modify _ (fun _ => rfl)
  | exact TrExt.emit _
  | exact TrExt.failNow
  | exact TrExt.throw _
  | exact TrExt.doOp (noChmod_symlink _ _)
  | exact createTemp_trExt noChmod_tmpCreate noChmod_tmpUnlink
  | exact fixPermissionsIfNeeded_trExt _ _
  | exact Spec.fsExists (good_ext NoChmod) _
  | exact Spec.fsIsRegular (good_ext NoChmod) _
  | exact Spec.fsIsSymlink (good_ext NoChmod) _
  | (refine trExt_of_readOnly ?_; readonly_walk; done)
  | exact Spec.fsGetPerms (good_ext NoChmod) _
  | exact guessFilepath_trExt _ _
  | exact promptForFilepath_trExt _
  | exact checkWithUser_trExt _ _
  | exact parseBodyM_trExt _ _
  | exact ensureParentDirs_trExt noChmod_mkdir _
  | exact writeFile_trExt noChmod_creat noChmod_write _ _
  | exact makeBackupFor_trExt noChmod_mkdir noChmod_rename noChmod_creat noChmod_unlink _ _
  | exact removeFileAndEmptyParents_trExt noChmod_unlink noChmod_rmdir _
  | exact removeNow_trExt noChmod_mkdir noChmod_rename noChmod_creat noChmod_unlink noChmod_rmdir _ _ _
  | exact openRejects_trExt noChmod_creat noChmod_unlink _ _
  | exact writeRejects_trExt noChmod_creat noChmod_write noChmod_unlink _ _ _
  | exact refuseToPatch_trExt noChmod_mkdir noChmod_creat noChmod_write noChmod_unlink _ _ _)

syntax "late_leaf" : tactic
macro_rules | `(tactic| late_leaf) => `(tactic| with_reducible first
  | exact Spec.get good_late
  | exact Spec.pure good_late _
  | assumption
  | apply_assumption -exfalso -symm only [*]
  | exact writeNow_late _ _ _ _ _ _
  | exact Late.of_trExt (by nochmod_leaf))

syntax "late_step" : tactic
syntax "late_walk" : tactic
macro_rules | `(tactic| late_step) => `(tactic| (
  first
  | (extract_lets -underBinder +onlyGivenNames jp
     first
     | (refine Spec.cutRO jp (fun x => ?_) (fun hjp => ?_)
        rotate_left; focus (clear_value jp)
        rotate_right; focus (dsimp -zeta only [jp]; readonly_walk; done))
     | (refine Spec.cut2 jp (fun x y => ?_) (fun hjp => ?_)
        rotate_left; focus (clear_value jp)
        rotate_right; focus (dsimp -zeta only [jp]))
     | (refine Spec.cut1 jp (fun x => ?_) (fun hjp => ?_)
        rotate_left; focus (clear_value jp)
        rotate_right; focus (dsimp -zeta only [jp]))
     | (clear_value jp))
  | (with_reducible refine Spec.bind good_late ?_ (fun _ => ?_))
  | (with_reducible refine Spec.ite ?_ ?_)
  | (with_reducible refine Spec.forIn good_late _ _ (fun _ _ => ?_) _)
  | late_leaf
  | split))
macro_rules | `(tactic| late_walk) => `(tactic| repeat' late_step)

theorem writePatchedResult_late (o : Options) (p : Patch) (out : Bytes) (perm : PermResult) (sb : Bool) (content : Bytes) :
    Late (writePatchedResult o p out perm sb content) := by
  cases hc : (p.format == .git && p.operation != .delete)
  · rw [writePatchedResult_direct o p out perm sb content hc]
    late_walk
  · unfold writePatchedResult
    simp only [hc, ↓reduceIte]
    late_walk

theorem finalizeDeferred_late (o : Options) : Late (finalizeDeferred o) := by
  rw [finalizeDeferred_eq]
  late_walk

theorem processSection_late (o : Options) (format : Format) : Late (processSection o format) := by
  have := writePatchedResult_late
  unfold processSection
  late_walk

theorem sectionLoop_late (o : Options) (format : Format) : ∀ n, Late (sectionLoop o format n)
  | 0 => by unfold sectionLoop; late_walk
  | n + 1 => by
    have ih := sectionLoop_late o format n
    have hs := processSection_late o format
    unfold sectionLoop
    late_walk


theorem processPatchM_late (o : Options) : Late (processPatchM o) := by
  unfold processPatchM
  extract_lets -underBinder +onlyGivenNames jp
  refine Spec.cut1 jp (fun x => ?_) (fun hjp => ?_)
  · dsimp -zeta only [jp]
    have hl := sectionLoop_late o
    have hf := finalizeDeferred_late o
    late_walk
  · clear_value jp
    split
    · constructor
      · intro s a s' hr
        rw [run_bind, run_get] at hr
        simp only [] at hr
        split at hr
        · rw [run_bind, run_set] at hr
          exact (hjp ()).ok { s with cwd := o.directory } _ _ hr
        · rw [run_bind, run_throw] at hr; cases hr
      · intro s e s' hr
        rw [run_bind, run_get] at hr
        simp only [] at hr
        split at hr
        · rw [run_bind, run_set] at hr
          exact (hjp ()).err { s with cwd := o.directory } _ _ hr
        · rw [run_bind, run_throw] at hr; cases hr
          exact ⟨[], by simp, ChmodLate.nil⟩
    · exact hjp ()

/-- creating the parent directories changes nothing but the tree, the trace and the operation counter -/
theorem ensureParentDirs_keeps {β : Type} (f : DState → β)
    (hf : ∀ (s : DState) fs' t n, f { s with fs := fs', trace := t, opCount := n } = f s)
    (p : Bytes) {s s' : DState} {r : Except Exn Unit} (h : (ensureParentDirs p).run s = (r, s')) : f s' = f s := by
  have g : Good (fun s s' : DState => f s' = f s) (fun _ s s' => f s' = f s) :=
    ⟨fun _ => rfl, fun h1 h2 => h2.trans h1, fun h1 h2 => h2.trans h1⟩
  have h1 : ∀ op tol, Spec (fun s s' : DState => f s' = f s) (fun _ s s' => f s' = f s) (tryOp op tol) :=
    fun op tol => Spec.tryOp op tol (fun s _ _ => hf s _ _ _) (fun s => hf s s.fs s.trace _) (fun s => hf s s.fs s.trace _)
  have h2 : ∀ (α : Type) (e : Exn), Spec (fun s s' : DState => f s' = f s) (fun _ s s' => f s' = f s)
      (throw e : DM α) := fun _ e => Spec.throw e (fun _ => rfl)
  have key : Spec (fun s s' : DState => f s' = f s) (fun _ s s' => f s' = f s) (ensureParentDirs p) := by
    unfold ensureParentDirs; spec_walk g
  cases r with
  | ok a => exact key.ok _ _ _ h
  | error e => exact key.err _ _ _ h

end PatchModel.DriverFacts
