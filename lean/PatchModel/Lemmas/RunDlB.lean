/-
  Lemmas/RunDlB — one section that REMOVES its file, with a backup asked for (`-b`, `o.saveBackup = true`).

  `RunDl.DelSection` carries `noBackup : o.saveBackup = false`; `DelSectionB` is the same record without that field
  (`DelSectionB.of_del`: every `DelSection` is one).  In the removal block of `process_patch`

      if shouldBackup then makeBackupFor o outputFile
      if (← fsExists outputFile) then removeFileAndEmptyParents outputFile

  the backup is ONE `rename` of the target to its backup name — bytes and mode move —, after which nothing is at the target's name
  and nothing is unlinked:

  * `processSection_delete_backup` — real run, `-b`: the tree is `(fs.erase p).set (backupName o p) (.file bytes m)`; all that is done
    to it (after the two anonymous temporaries) is `rename p (backupName o p)`; the backup name is recorded; no failure.
  * `processSection_delete_backup_dry` — under --dry-run, whatever `-b` says: the tree untouched, no backup recorded.
-/
import PatchModel.Lemmas.RunDl
namespace PatchModel.RunDlB
open PatchModel PatchModel.DriverFacts PatchModel.Section PatchModel.Run PatchModel.RunB PatchModel.RunG PatchModel.RunDl

/-- `RunDl.DelSection` without `noBackup` -/
structure DelSectionB (o : Options) (fmt : Format) (s : DState) (p bytes : Bytes) (m : Nat)
    (patch0 patch2 : Patch) (info : HeaderInfo) (par1 par2 : Parser) (r : ApplyResult) : Prop where
  target : o.fileToPatch = p ∨ (o.fileToPatch = [] ∧ patch0.oldPath = p ∧ p ≠ devNull)
  noOut : o.outFile = []
  removeEmpty : o.removeEmptyFiles = .yes
  pathNe : p ≠ []
  flat : dirPrefixes p = []
  cwd : s.cwd = []
  hdr : parseHeader s.par { format := fmt } o.strip = .ok (true, patch0, info, par1)
  fmt : patch0.format = .unified ∨ patch0.format = .context ∨ patch0.format = .normal
  op : patch0.operation = .delete
  pre : patch0.prerequisite = []
  body : parseBody par1 patch0 = .ok (patch2, par2)
  fmt2 : patch2.format = patch0.format
  op2 : patch2.operation = .delete
  file : s.fs.lookup p = some (.file bytes m)
  writable : m &&& writeMask ≠ 0
  root : s.fs.isRoot = true
  noFault : s.faultAt = none
  apply : applyPatch (splitLines bytes) patch2 (applyOptsOf o)
      (Option.map (fun l => List.map (fun a => !List.isEmpty a && List.head? a != some 110) l) s.tty) = .ok r
  failed : r.failed = 0
  perfect : r.perfect = true
  skipped : r.skipped = false
  msgs : r.msgs = []
  ttyLeft : r.tty = Option.map (fun l => List.map (fun a => !List.isEmpty a && List.head? a != some 110) l) s.tty
  patch : r.patch = patch2
  /-- nothing is left of the file -/
  empty : (render o.newlineOutput r.out).isEmpty = true

section
variable {o : Options} {fmt : Format} {s : DState} {p bytes : Bytes} {m : Nat}
  {patch0 patch2 : Patch} {info : HeaderInfo} {par1 par2 : Parser} {r : ApplyResult}

theorem DelSectionB.of_del (H : DelSection o fmt s p bytes m patch0 patch2 info par1 par2 r) :
    DelSectionB o fmt s p bytes m patch0 patch2 info par1 par2 r :=
  { target := H.target, noOut := H.noOut, removeEmpty := H.removeEmpty, pathNe := H.pathNe, flat := H.flat, cwd := H.cwd,
    hdr := H.hdr, fmt := H.fmt, op := H.op, pre := H.pre, body := H.body, fmt2 := H.fmt2, op2 := H.op2, file := H.file,
    writable := H.writable, root := H.root, noFault := H.noFault, apply := H.apply, failed := H.failed, perfect := H.perfect,
    skipped := H.skipped, msgs := H.msgs, ttyLeft := H.ttyLeft, patch := H.patch, empty := H.empty }

/-- `RunDl.del_run` for `H : DelSectionB …` (the value of `o.saveBackup` goes into the list) -/
syntax "delb_run " "[" Lean.Parser.Tactic.simpLemma,* "]" : tactic
set_option hygiene false in
macro_rules | `(tactic| delb_run [$ls,*]) => `(tactic| (
  have hfu : (patch0.format == Format.unknown) = false := by
    rcases H.fmt with h | h | h <;> rw [h] <;> rfl
  have hfg : (patch2.format == Format.git) = false := by
    rw [H.fmt2]; rcases H.fmt with h | h | h <;> rw [h] <;> rfl
  have hob : (patch0.operation == Operation.binary) = false := by rw [H.op]; rfl
  have hor : (patch0.operation == Operation.rename) = false := by rw [H.op]; rfl
  have hoc : (patch0.operation == Operation.copy) = false := by rw [H.op]; rfl
  have hod : (patch0.operation == Operation.delete) = true := by rw [H.op]; rfl
  have hoa2 : (patch2.operation == Operation.add) = false := by rw [H.op2]; rfl
  have hor2 : (patch2.operation == Operation.rename) = false := by rw [H.op2]; rfl
  have hoc2 : (patch2.operation == Operation.copy) = false := by rw [H.op2]; rfl
  have hod2 : (patch2.operation == Operation.delete) = true := by rw [H.op2]; rfl
  have hE : (o.removeEmptyFiles == OptionalBool.yes) = true := by rw [H.removeEmpty]; rfl
  have hpe : List.isEmpty p = false := by
    cases p with
    | nil => exact absurd rfl H.pathNe
    | cons _ _ => rfl
  have hout : outputPath o patch0 p = p := by
    unfold outputPath; simp [H.noOut, hor, hoc]
  have hdash : (o.outFile == [45]) = false := by rw [H.noOut]; rfl
  have hguess : ∀ s' : DState, patch0.oldPath = p → p ≠ devNull → s'.cwd = [] → s'.fs.lookup p = some (.file bytes m) →
      (guessFilepath patch0 o.reverse).run s' = (.ok p, s') := by
    intro s' h0 hnn h1 h2
    have := run_guessFilepath_old patch0 o.reverse (s := s') (b := bytes) (m := m) h1 (by rw [hor, hoc]; simp)
      (by rw [h0]; exact hnn) (by rw [h0]; exact h2)
    rw [h0] at this
    exact this
  unfold processSection
  simp only [↓run_bind, ↓run_get, ↓run_liftE, ↓run_modify, ↓run_pure, ↓run_emit,
    H.hdr, hfu, hob, hpe, hout, hor, hdash,
    Bool.false_eq_true, ↓reduceIte, Bool.false_and, Bool.and_false, Bool.not_true, Bool.not_false,
    Bool.or_false, Bool.false_or, Bool.and_true, Bool.true_and, Bool.or_true, Bool.true_or,
    run_createTemp, H.noFault, H.cwd,
    run_fsExists_file (b := bytes) (m := m), run_fsIsRegular_file (b := bytes) (m := m),
    run_fsIsSymlink_file (b := bytes) (m := m), H.file,
    (fun s' => @run_fixPermissions_writable o s' p bytes m), H.writable, ne_eq, not_false_eq_true,
    absPath_nil, readFile_root (b := bytes) (m := m), H.root,
    H.pre, List.isEmpty_nil,
    run_parseBodyM_true (pt' := patch2) (par' := par2), H.body,
    H.apply, H.msgs, H.failed, H.perfect, H.skipped, H.patch, hoa2, hor2, hoc2, hod2, hE, H.empty,
    bne_self_eq_false, beq_self_eq_true, H.ttyLeft, hfg, $ls,*]))

/-- **a section that removes its file, `-b`, real run**: the target is MOVED to its backup name (one `rename`: bytes and mode) —
    nothing is at its name afterwards, nothing is unlinked, nothing is written, no failure is recorded, the backup name is
    recorded (`hnd`: the backup name is not that of a directory; whatever else is there is replaced) -/
theorem processSection_delete_backup (H : DelSectionB o fmt s p bytes m patch0 patch2 info par1 par2 r)
    (hb : o.saveBackup = true) (hreal : o.dryRun = false)
    (hnot : s.backedUp.contains (backupName o p) = false)
    (hdirs : DirsThere s.fs (backupName o p)) (hbdir : s.fs.dirExists (parentOf (backupName o p)) = true)
    (hnd : NotDir s.fs (backupName o p)) :
    ∃ s', (processSection o fmt).run s = (.ok true, s') ∧
      s'.fs = (s.fs.erase p).set (backupName o p) (.file bytes m) ∧
      s'.trace = s.trace ++ [.tmpCreate, .tmpUnlink] ++ [.tmpCreate, .tmpUnlink] ++ [.rename p (backupName o p)] ∧
      s'.backedUp = s.backedUp ++ [backupName o p] ∧
      s'.rejWritten = s.rejWritten ∧
      s'.hadFailure = s.hadFailure ∧ s'.out = s.out ++ [.file p false] ∧
      SectionEnd s s' p par2 := by
  have hne : p ≠ backupName o p := fun e => backupName_ne o p e.symm
  have hgone : ((s.fs.erase p).set (backupName o p) (.file bytes m)).lookup p = none := by
    rw [Fs.lookup_set_ne _ _ _ _ hne, Fs.lookup_erase_self]
  rcases H.target with ht | ⟨hno, h0, hnn⟩
  · delb_run [ht, hb, hreal, (fun s' => @run_makeBackupFor_file o s' p bytes m), hnot, hdirs, hbdir, hnd,
      (fun s' => @run_fsExists_absent s' p), hgone]
    refine ⟨_, rfl, rfl, rfl, rfl, rfl, rfl, ?_, ⟨rfl, rfl, rfl, ?_, H.cwd.symm, H.noFault.symm, rfl, rfl, rfl, rfl⟩⟩
    · simp
    · generalize s.tty = t
      cases t <;> simp
  · delb_run [hno, hguess, h0, hnn, hb, hreal, (fun s' => @run_makeBackupFor_file o s' p bytes m), hnot, hdirs, hbdir, hnd,
      (fun s' => @run_fsExists_absent s' p), hgone]
    refine ⟨_, rfl, rfl, rfl, rfl, rfl, rfl, ?_, ⟨rfl, rfl, rfl, ?_, H.cwd.symm, H.noFault.symm, rfl, rfl, rfl, rfl⟩⟩
    · simp
    · generalize s.tty = t
      cases t <;> simp

/-- the same under --dry-run, with or without `-b`: the tree is untouched, no backup is recorded -/
theorem processSection_delete_backup_dry (H : DelSectionB o fmt s p bytes m patch0 patch2 info par1 par2 r)
    (hdry : o.dryRun = true) :
    ∃ s', (processSection o fmt).run s = (.ok true, s') ∧
      s'.fs = s.fs ∧
      s'.trace = s.trace ++ [.tmpCreate, .tmpUnlink] ++ [.tmpCreate, .tmpUnlink] ∧
      SectionDone s s' p par2 true := by
  rcases H.target with ht | ⟨hno, h0, hnn⟩
  · delb_run [ht, hdry]
    refine ⟨_, rfl, rfl, rfl, ⟨rfl, rfl, rfl, rfl, ?_, ?_, H.cwd.symm, H.noFault.symm, rfl, rfl, rfl, rfl, rfl⟩⟩
    · generalize s.tty = t
      cases t <;> simp
    · simp
  · delb_run [hno, hguess, h0, hnn, hdry]
    refine ⟨_, rfl, rfl, rfl, ⟨rfl, rfl, rfl, rfl, ?_, ?_, H.cwd.symm, H.noFault.symm, rfl, rfl, rfl, rfl, rfl⟩⟩
    · generalize s.tty = t
      cases t <;> simp
    · simp

end

end PatchModel.RunDlB
