/-
  Lemmas/Concat — a patch stream with several sections (C11 "a patch stream is the sum of its sections").

  * body: `unified_roundtrip_tail` — the unified body parser over the emitted hunks followed by a NON-EMPTY tail, stream flags
    included (the flags are what the next header scan and the `while (!eof)` loop look at; `Unified.unified_roundtrip` only says
    where the stream is left);
  * one section in a stream: `Sec`, `Sec.lines`, `Sec.patch`, `parse_section` (header scan + body parse with anything that
    does not continue the last hunk after it), `parseAll_section` (one pass of the parser's section loop);
  * n sections: `streamLines`, `parseAll_sections`;
  * text: `splitLines_streamText` (the bytes of such a stream split into exactly those lines);
  * `inertLineK`, `fillerOk_of_all`, `noMarkerHead_of_head` (filler checked by evaluation in the kernel);
  * driver: `sectionLoop_step`, `sectionLoop_eof`, `sectionLoop_garbage`, `Job`, `guessSection_of_job`, `sectionLoop_job`,
    `applyJobs`, `lookup_applyJobs_*`, `sectionLoop_jobs` (the section loop of `process_patch` over n clean sections for
    pairwise distinct targets), `runPatch_jobs` (the whole program).
-/
import PatchModel.Props.C01Run
import PatchModel.Lemmas.Inert
namespace PatchModel.Concat
open PatchModel PatchModel.Unified PatchModel.Run PatchModel.Section PatchModel.DriverFacts

/-! ### the unified body parser with something after the hunks: where the stream is left, flags included -/

/-- what may follow the hunks of a section: nothing, or a line that has its terminator, is no range line and no `\` line -/
def TailOk (tail : List Line) : Prop :=
  tailOkUnified tail = true ∧ ∀ l, tail.head? = some l → l.newline ≠ .none

theorem afterHunk_tail_flags (fuel n : Nat) (hunks : List Hunk) (hk : Hunk) (l : Line) (r : List Line)
    (ht : tailOkUnified (l :: r) = true) (hterm : l.newline ≠ .none) :
    ∃ st', afterHunk fuel ⟨⟨⟨l :: r, false, false⟩, n⟩, hunks, hk, true, 0, 0⟩ = .ok (true, st') ∧
      st'.hunks = hunks ∧ st'.par.s = ⟨l :: r, false, false⟩ := by
  unfold afterHunk
  have hp : (parseUnifiedRange hk l.content).1 = false := by
    rw [parseUnifiedRange_fst_indep hk defaultHunk]
    unfold tailOkUnified at ht
    simp only [Bool.and_eq_true, Bool.not_eq_true'] at ht
    exact ht.1
  have hg : Parser.getLine ⟨⟨l :: r, false, false⟩, n⟩ = (some l, ⟨⟨r, false, false⟩, n + 1⟩) := by
    simp [Parser.getLine, PStream.getLine, hterm]
  simp only [hg]
  generalize parseUnifiedRange hk l.content = res at hp
  rcases res with ⟨ok, h'⟩
  simp only at hp
  subst hp
  exact ⟨_, rfl, rfl, rfl⟩

/-- `Unified.unifiedLoop_hunks` over a non-empty tail, flags included -/
theorem unifiedLoop_hunks_tail : ∀ (hs : List Hunk) (h : Hunk) (fuel n : Nat) (hunks : List Hunk) (l : Line) (r : List Line),
    (∀ x ∈ h :: hs, x.writable = true) → tailOkUnified (l :: r) = true → l.newline ≠ .none →
    (bodyLines h.lines ++ (hs.flatMap hunkLines ++ l :: r)).length + 1 ≤ fuel →
    ∃ st', unifiedLoop fuel ⟨⟨⟨bodyLines h.lines ++ (hs.flatMap hunkLines ++ l :: r), false, false⟩, n⟩, hunks,
          ⟨h.old, h.new, []⟩, true, h.old.count, h.new.count⟩ = .ok (true, st') ∧
      st'.hunks = hunks ++ (h :: hs) ∧ st'.par.s = ⟨l :: r, false, false⟩ := by
  intro hs
  induction hs with
  | nil =>
    intro h fuel n hunks l r hw ht hterm hfuel
    obtain ⟨hops, hoc, hnc, hne, _, hnl, _⟩ := writable_spec h (hw h List.mem_cons_self)
    simp only [List.flatMap_nil, List.nil_append] at hfuel ⊢
    obtain ⟨fuel', n', _, h2⟩ := unifiedLoop_body h.lines fuel n hunks h.old h.new [] (l :: r) hne hops hnl
      (afterOK_tail _ ht) hfuel
    rw [hoc, hnc, h2, hunk_eq]
    obtain ⟨st', e1, e2, e3⟩ := afterHunk_tail_flags fuel' n' (hunks ++ [h]) ⟨h.old, h.new, []⟩ l r ht hterm
    exact ⟨st', e1, by rw [e2], e3⟩
  | cons h2 hs ih =>
    intro h fuel n hunks l r hw ht hterm hfuel
    obtain ⟨hops, hoc, hnc, hne, _, hnl, _⟩ := writable_spec h (hw h List.mem_cons_self)
    have hw2 : h2.writable = true := hw h2 (by simp)
    rw [List.flatMap_cons, List.append_assoc] at hfuel ⊢
    obtain ⟨fuel', n', h1, h2'⟩ := unifiedLoop_body h.lines fuel n hunks h.old h.new []
      (hunkLines h2 ++ (hs.flatMap hunkLines ++ l :: r)) hne hops hnl (afterOK_hunkLines _ _) hfuel
    rw [hoc, hnc, h2', hunk_eq]
    unfold afterHunk
    simp only [hunkLines, List.cons_append, getLine_lf, parseUnifiedRange_rangeText _ h2 hw2, Bool.not_true,
      Bool.false_eq_true, if_false]
    obtain ⟨st', e1, e2, e3⟩ := ih h2 fuel' (n' + 1) (hunks ++ [h]) l r
      (fun x hx => hw x (List.mem_cons_of_mem _ hx)) ht hterm
      (by simp only [hunkLines, List.cons_append, List.length_cons] at h1; omega)
    refine ⟨st', e1, ?_, e3⟩
    rw [e2]; simp

/-- **unified round trip in the middle of a stream**: the hunks come back and the stream is left exactly at the tail,
    with both flags clear -/
theorem unified_roundtrip_tail (hs : List Hunk) (hne : hs ≠ []) (hw : ∀ h ∈ hs, h.writable = true)
    (l : Line) (r : List Line) (ht : tailOkUnified (l :: r) = true) (hterm : l.newline ≠ .none) (lineNo : Nat) :
    ∃ par', parseUnifiedBody { s := { rest := hs.flatMap hunkLines ++ l :: r }, lineNo := lineNo }
        = .ok (hs, par') ∧ par'.s = ⟨l :: r, false, false⟩ := by
  cases hs with
  | nil => exact absurd rfl hne
  | cons h hs =>
    unfold parseUnifiedBody
    simp only [List.flatMap_cons, hunkLines, List.cons_append, List.length_cons]
    rw [unifiedLoop_range _ _ ⟨rangeText h, .lf⟩ _ _ (getLine_lf _ _ _) rfl
      (parseUnifiedRange_rangeText defaultHunk h (hw h List.mem_cons_self))]
    obtain ⟨st', e1, e2, e3⟩ := unifiedLoop_hunks_tail hs h
      ((bodyLines h.lines ++ (List.flatMap hunkLines hs ++ l :: r)).length + 2) (lineNo + 1) [] l r hw ht hterm (by omega)
    simp only [defaultHunk, List.append_assoc]
    rw [e1]
    exact ⟨st'.par, by simp [e2], e3⟩

/-! ### one section of a stream -/

/-- a section of a stream: filler lines, the two header lines of a unified diff, hunks -/
structure Sec where
  filler : List Line
  old : Bytes
  new : Bytes
  oldt : Bytes
  newt : Bytes
  hs : List Hunk

/-- its lines: `filler`, `--- old TAB oldt`, `+++ new TAB newt`, the hunks as `write_hunk_as_unified` writes them -/
def Sec.lines (s : Sec) : List Line := diffLines s.filler s.old s.new s.oldt s.newt s.hs

/-- the operation the header scan infers from the first range -/
def Sec.op (s : Sec) : Operation :=
  match s.hs with
  | h :: _ => Header.inferredOp h
  | [] => .change

/-- what the header scan makes of the section under `-p strip` -/
def Sec.header (s : Sec) (strip : Int) : Patch :=
  { format := .unified, operation := s.op, oldPath := Header.stripped s.old strip, newPath := Header.stripped s.new strip,
    oldTime := s.oldt, newTime := s.newt }

/-- the patch the section denotes under `-p strip` -/
def Sec.patch (s : Sec) (strip : Int) : Patch := { s.header strip with hunks := s.hs }

/-- the side conditions on a section (those of `C11.unified_header_after_filler` and `C13.unified_roundtrip`) -/
structure Sec.Ok (s : Sec) : Prop where
  fillerInert : ∀ l ∈ s.filler, inertLine l.content = true
  fillerTerm : ∀ l ∈ s.filler, l.newline ≠ .none
  oldName : Header.plainName s.old
  newName : Header.plainName s.new
  oldStamp : s.oldt ≠ []
  newStamp : s.newt ≠ []
  nonEmpty : s.hs ≠ []
  writable : ∀ h ∈ s.hs, h.writable = true

theorem Sec.lines_ne_nil (s : Sec) : s.lines ≠ [] := by
  unfold Sec.lines diffLines
  simp

theorem Sec.lines_length (s : Sec) : 2 ≤ s.lines.length := by
  unfold Sec.lines diffLines
  simp only [List.length_append, List.length_cons]
  omega

/-- header scan + body parse of one section with `tail` after it: the section's patch comes back, and the stream is left at
    the tail with clear flags — or, if nothing follows, with the end-of-file flag set -/
theorem parse_section (strip : Int) (fmt : Format) (hfmt : fmt = .unknown ∨ fmt = .unified) (s : Sec) (hok : s.Ok)
    (tail : List Line) (htail : TailOk tail) (par : Parser) (hpar : par.s = ⟨s.lines ++ tail, false, false⟩) :
    ∃ info par1 par2,
      parseHeader par { format := fmt } strip = .ok (true, s.header strip, info, par1) ∧
      parseBody par1 (s.header strip) = .ok (s.patch strip, par2) ∧
      (tail ≠ [] → par2.s = ⟨tail, false, false⟩) ∧ (tail = [] → par2.s.eof = true) := by
  rcases s with ⟨filler, old, new, oldt, newt, hs⟩
  obtain ⟨hin, hft, hold, hnew, hot, hnt, hne, hw⟩ := hok
  simp only at hin hft hold hnew hot hnt hne hw
  cases hs with
  | nil => exact absurd rfl hne
  | cons h hs' =>
    have hwh := hw h List.mem_cons_self
    obtain ⟨pl, more, -, hop, hlines⟩ := flatMap_hunkLines_first h hs' hwh
    have hb : Header.bodyStart (pl.op :: pl.line.content) := by
      rcases hop with e | e | e
      · exact Or.inr (Or.inr ((Header.startsWith_one _ _ _ Header.str_sp).2 (by rw [e]; rfl)))
      · exact Or.inl ((Header.startsWith_one _ _ _ Header.str_plus).2 (by rw [e]; rfl))
      · exact Or.inr (Or.inl ((Header.startsWith_one _ _ _ Header.str_minus).2 (by rw [e]; rfl)))
    have hp := Header.parseHeader_unified' strip par { format := fmt } filler
      old new oldt newt h ⟨pl.op :: pl.line.content, wireNl pl.line⟩ (more ++ tail) hin hft hold hnew hot hnt
      (rangeOk_of_writable h hwh) hb (wireNl_ne_none _) hfmt rfl (by rw [hpar]) (by rw [hpar])
      (by rw [hpar]; simp only [Sec.lines, diffLines]; rw [hlines]; simp)
    have hrest : (⟨rangeText h, .lf⟩ :: ⟨pl.op :: pl.line.content, wireNl pl.line⟩ :: (more ++ tail) : List Line)
        = (h :: hs').flatMap hunkLines ++ tail := by rw [hlines]; rfl
    rw [hrest] at hp
    cases tail with
    | nil =>
      obtain ⟨par2, hbody, _, heof, _⟩ := unified_roundtrip_eof (h :: hs') hne hw (par.lineNo + (filler.length + 2))
      refine ⟨_, _, par2, hp, ?_, fun hc => absurd rfl hc, fun _ => heof⟩
      simp only [parseBody, Sec.header, List.append_nil]
      rw [hbody]
      rfl
    | cons l r =>
      obtain ⟨par2, hbody, hs2⟩ := unified_roundtrip_tail (h :: hs') hne hw l r htail.1 (htail.2 l rfl)
        (par.lineNo + (filler.length + 2))
      refine ⟨_, _, par2, hp, ?_, fun _ => hs2, fun hc => by cases hc⟩
      simp only [parseBody, Sec.header]
      rw [hbody]
      rfl

/-- one pass of the parser's section loop over such a section -/
theorem parseAll_section (strip : Int) (fmt : Format) (hfmt : fmt = .unknown ∨ fmt = .unified) (s : Sec) (hok : s.Ok)
    (tail : List Line) (htail : TailOk tail) (par : Parser) (hpar : par.s = ⟨s.lines ++ tail, false, false⟩)
    (acc : List Patch) (fuel : Nat) :
    ∃ par2, parseAll fmt strip (fuel + 1) par acc = parseAll fmt strip fuel par2 (acc ++ [s.patch strip]) ∧
      (tail ≠ [] → par2.s = ⟨tail, false, false⟩) ∧ (tail = [] → par2.s.eof = true) := by
  obtain ⟨info, par1, par2, hh, hb, h1, h2⟩ := parse_section strip fmt hfmt s hok tail htail par hpar
  refine ⟨par2, ?_, h1, h2⟩
  have he : par.s.eof = false := by rw [hpar]
  rw [parseAll]
  simp only [he, Bool.false_eq_true, if_false, hh]
  rw [if_neg (by simp [Sec.header]), if_pos trivial, hb]

/-! ### what may stand between, before and after sections -/

/-- filler: inert lines (`inertLine`: nothing that looks like diff syntax), each with its terminator -/
structure FillerOk (f : List Line) : Prop where
  inert : ∀ l ∈ f, inertLine l.content = true
  term : ∀ l ∈ f, l.newline ≠ .none

/-- the first line (if any) does not begin with a backslash: REQUIRED of text that directly follows a hunk, because a line
    `\ …` after the last line of a side of a hunk is the "no newline at end of file" marker of that line
    (`Instance.marker_after_hunk_*` in Props/C11Concat.lean) -/
def NoMarkerHead (ls : List Line) : Prop := ∀ l, ls.head? = some l → l.content.head? ≠ some BACKSLASH

theorem tailOk_nil : TailOk [] := ⟨rfl, fun _ h => by cases h⟩

theorem tailOk_filler (f rest : List Line) (hne : f ≠ []) (hf : FillerOk f) (hm : NoMarkerHead f) : TailOk (f ++ rest) := by
  cases f with
  | nil => exact absurd rfl hne
  | cons l r =>
    have hi := Inert.inertLine_facts (hf.inert l List.mem_cons_self)
    refine ⟨?_, ?_⟩
    · simp only [List.cons_append, tailOkUnified, Bool.and_eq_true, Bool.not_eq_true', bne_iff_ne, ne_eq]
      exact ⟨by rw [Inert.parseUnifiedRange_none _ _ hi.atat], hm l rfl⟩
    · intro l' hl'
      simp only [List.cons_append, List.head?_cons, Option.some.injEq] at hl'
      subst hl'
      exact hf.term l List.mem_cons_self

theorem startsWith_atat_minus_line (r : Bytes) : startsWith (str "--- " ++ r) "@@ -" = false := by
  apply Header.startsWith_false_of_head _ _ 64 [64, 32, 45] str_atat_minus
  rw [Header.str_new4]; simp

theorem tailOk_section (s : Sec) (rest : List Line) (hf : FillerOk s.filler) (hm : NoMarkerHead s.filler) :
    TailOk (s.lines ++ rest) := by
  by_cases hne : s.filler = []
  · simp only [Sec.lines, diffLines, hne, List.nil_append, List.cons_append]
    refine ⟨?_, ?_⟩
    · simp only [tailOkUnified, Bool.and_eq_true, Bool.not_eq_true', bne_iff_ne, ne_eq, List.append_assoc]
      refine ⟨by rw [Inert.parseUnifiedRange_none _ _ (startsWith_atat_minus_line _)], ?_⟩
      rw [Header.str_new4]; simp [BACKSLASH]
    · intro l hl
      simp only [List.head?_cons, Option.some.injEq] at hl
      subst hl
      simp
  · simp only [Sec.lines, diffLines, List.append_assoc]
    exact tailOk_filler _ _ hne hf hm

/-! ### n sections -/

/-- the lines of a stream: the sections one after the other (each with its own filler in front), then a trailer -/
def streamLines (secs : List Sec) (trailer : List Line) : List Line := secs.flatMap Sec.lines ++ trailer

theorem streamLines_cons (s : Sec) (secs : List Sec) (trailer : List Line) :
    streamLines (s :: secs) trailer = s.lines ++ streamLines secs trailer := by
  simp [streamLines]

theorem streamLines_eq_nil {secs : List Sec} {trailer : List Line} (h : streamLines secs trailer = []) :
    secs = [] ∧ trailer = [] := by
  cases secs with
  | nil => exact ⟨rfl, by simpa [streamLines] using h⟩
  | cons s secs =>
    rw [streamLines_cons] at h
    exact absurd (List.append_eq_nil_iff.1 h).1 s.lines_ne_nil

/-- what directly follows the hunks of a section in a stream is acceptable: the filler of the next section (or its `---` line
    if it has none), or the trailer -/
theorem tailOk_stream (secs : List Sec) (trailer : List Line) (hok : ∀ s ∈ secs, s.Ok)
    (hm : ∀ s, secs.head? = some s → NoMarkerHead s.filler) (ht : FillerOk trailer) (hmt : secs = [] → NoMarkerHead trailer) :
    TailOk (streamLines secs trailer) := by
  cases secs with
  | nil =>
    by_cases hne : trailer = []
    · rw [hne]; exact tailOk_nil
    · have := tailOk_filler trailer [] hne ht (hmt rfl)
      simpa [streamLines] using this
  | cons s secs =>
    rw [streamLines_cons]
    have hs := hok s List.mem_cons_self
    exact tailOk_section s _ ⟨hs.fillerInert, hs.fillerTerm⟩ (hm s rfl)

/-- the parser's section loop on a stream that is only filler: no patch, no error, loop left -/
theorem parseAll_filler (fmt : Format) (strip : Int) (par : Parser) (f : List Line) (hf : FillerOk f)
    (hpar : par.s = ⟨f, false, false⟩) (acc : List Patch) (fuel : Nat) :
    parseAll fmt strip (fuel + 1) par acc = .ok (acc, par, false) := by
  have hh := Inert.parseHeader_filler strip par { format := fmt } (by rw [hpar]; exact hf.inert) (by rw [hpar]; exact hf.term)
    (by rw [hpar]) (by rw [hpar])
  have he : par.s.eof = false := by rw [hpar]
  rw [parseAll]
  simp only [he, Bool.false_eq_true, if_false, hh, if_true]

/-- **the parser's section loop on a stream of n sections**: the patches of the sections, in order, and nothing else -/
theorem parseAll_sections (fmt : Format) (hfmt : fmt = .unknown ∨ fmt = .unified) (strip : Int) :
    ∀ (secs : List Sec) (trailer : List Line) (par : Parser) (acc : List Patch) (fuel : Nat),
    (∀ s ∈ secs, s.Ok) → (∀ s ∈ secs.drop 1, NoMarkerHead s.filler) → FillerOk trailer →
    (secs ≠ [] → NoMarkerHead trailer) →
    par.s = ⟨streamLines secs trailer, false, false⟩ → secs.length + 1 ≤ fuel →
    ∃ par', parseAll fmt strip fuel par acc = .ok (acc ++ secs.map (·.patch strip), par', false) := by
  intro secs
  induction secs with
  | nil =>
    intro trailer par acc fuel _ _ ht _ hpar hfuel
    obtain ⟨f, rfl⟩ : ∃ f, fuel = f + 1 := ⟨fuel - 1, by simp at hfuel; omega⟩
    exact ⟨par, by rw [parseAll_filler fmt strip par trailer ht (by simpa [streamLines] using hpar)]; simp⟩
  | cons s secs ih =>
    intro trailer par acc fuel hok hm ht hmt hpar hfuel
    obtain ⟨f, rfl⟩ : ∃ f, fuel = f + 1 := ⟨fuel - 1, by simp at hfuel; omega⟩
    have hok' : ∀ x ∈ secs, x.Ok := fun x hx => hok x (List.mem_cons_of_mem _ hx)
    have hm' : ∀ x ∈ secs, NoMarkerHead x.filler := by simpa using hm
    have htail : TailOk (streamLines secs trailer) :=
      tailOk_stream secs trailer hok' (fun x hx => hm' x (List.mem_of_mem_head? hx)) ht (fun _ => hmt (by simp))
    rw [streamLines_cons] at hpar
    obtain ⟨par2, hstep, h1, h2⟩ := parseAll_section strip fmt hfmt s (hok s List.mem_cons_self) _ htail par hpar acc f
    rw [hstep]
    by_cases hnil : streamLines secs trailer = []
    · obtain ⟨hs, _⟩ := streamLines_eq_nil hnil
      subst hs
      obtain ⟨g, rfl⟩ : ∃ g, f = g + 1 := ⟨f - 1, by simp at hfuel; omega⟩
      refine ⟨par2, ?_⟩
      rw [parseAll]
      simp [h2 hnil]
    · obtain ⟨par', hp'⟩ := ih trailer par2 (acc ++ [s.patch strip]) f hok'
        (fun x hx => hm' x (List.mem_of_mem_drop hx)) ht (fun _ => hmt (by simp)) (h1 hnil)
        (by simp at hfuel ⊢; omega)
      exact ⟨par', by rw [hp']; simp⟩

/-! ### the bytes of a stream -/

theorem splitLines_hunks_rest (hs : List Hunk) (rest : Bytes) (hw : ∀ h ∈ hs, h.writable = true) :
    splitLines (hs.flatMap writeHunkUnified ++ rest) = hs.flatMap hunkLines ++ splitLines rest := by
  induction hs with
  | nil => rfl
  | cons h hs ih =>
    have hsp := writable_spec h (hw h List.mem_cons_self)
    rw [List.flatMap_cons, List.flatMap_cons, List.append_assoc, splitLines_hunk h _ hsp.1 hsp.2.2.2.2.1,
      ih (fun x hx => hw x (List.mem_cons_of_mem _ hx)), List.append_assoc]

theorem splitLines_diffText_rest (old new oldt newt : Bytes) (hs : List Hunk) (rest : Bytes)
    (ho : NL ∉ old) (hn : NL ∉ new) (hot : NL ∉ oldt) (hnt : NL ∉ newt) (hote : oldt ≠ []) (hnte : newt ≠ [])
    (hoc : oldt.getLast? ≠ some CR) (hnc : newt.getLast? ≠ some CR) (hw : ∀ h ∈ hs, h.writable = true) :
    splitLines (diffText old new oldt newt hs ++ rest) =
      ⟨str "--- " ++ old ++ [TAB] ++ oldt, .lf⟩ :: ⟨str "+++ " ++ new ++ [TAB] ++ newt, .lf⟩ ::
        (hs.flatMap hunkLines ++ splitLines rest) := by
  have e : diffText old new oldt newt hs ++ rest =
      str "--- " ++ old ++ [TAB] ++ oldt ++ [NL] ++
        (str "+++ " ++ new ++ [TAB] ++ newt ++ [NL] ++ (hs.flatMap writeHunkUnified ++ rest)) := by
    simp only [diffText, List.append_assoc]
  rw [e, headerLine_split "--- " old oldt _ (by rw [Header.str_new4]; decide) ho hot hote hoc,
    headerLine_split "+++ " new newt _ (by rw [Header.str_plus4]; decide) hn hnt hnte hnc,
    splitLines_hunks_rest hs rest hw]

/-- the bytes of a section -/
def Sec.text (s : Sec) : Bytes := C01.patchText s.filler s.old s.new s.oldt s.newt s.hs

/-- the side conditions under which the bytes of a section split into its lines -/
structure Sec.TextOk (s : Sec) : Prop where
  fillerPlain : ∀ l ∈ s.filler, lfPlain l = true
  oldField : C01.fieldOk s.old
  newField : C01.fieldOk s.new
  oldStamp : C01.stampOk s.oldt
  newStamp : C01.stampOk s.newt
  writable : ∀ h ∈ s.hs, h.writable = true

theorem splitLines_secText (s : Sec) (ht : s.TextOk) (rest : Bytes) :
    splitLines (s.text ++ rest) = s.lines ++ splitLines rest := by
  unfold Sec.text C01.patchText Sec.lines diffLines
  rw [List.append_assoc, splitLines_linesText _ _ ht.fillerPlain,
    splitLines_diffText_rest s.old s.new s.oldt s.newt s.hs rest ht.oldField ht.newField ht.oldStamp.2.1 ht.newStamp.2.1
      ht.oldStamp.1 ht.newStamp.1 ht.oldStamp.2.2 ht.newStamp.2.2 ht.writable]
  simp

/-- the bytes of a stream -/
def streamText (secs : List Sec) (trailer : List Line) : Bytes := secs.flatMap Sec.text ++ linesText trailer

theorem splitLines_streamText (secs : List Sec) (trailer : List Line) (hs : ∀ s ∈ secs, s.TextOk)
    (ht : ∀ l ∈ trailer, lfPlain l = true) :
    splitLines (streamText secs trailer) = streamLines secs trailer := by
  induction secs with
  | nil =>
    have := splitLines_linesText trailer [] ht
    have e : splitLines [] = [] := rfl
    rw [e, List.append_nil, List.append_nil] at this
    simpa [streamText, streamLines] using this
  | cons s secs ih =>
    have e : streamText (s :: secs) trailer = s.text ++ streamText secs trailer := by simp [streamText]
    rw [e, splitLines_secText s (hs s List.mem_cons_self), ih (fun x hx => hs x (List.mem_cons_of_mem _ hx)), streamLines_cons]

theorem lfPlain_term {l : Line} (h : lfPlain l = true) : l.newline ≠ .none := by
  unfold lfPlain at h
  simp only [Bool.and_eq_true, beq_iff_eq] at h
  rw [h.1]; simp

/-! ### `inertLine` with the keywords spelled out as bytes (for evaluation in the kernel) -/

theorem str_stars15 : str "***************" = [42, 42, 42, 42, 42, 42, 42, 42, 42, 42, 42, 42, 42, 42, 42] := by
  unfold str String.toUTF8; rw [Cpp.byteArray_toList_eq_data]; rfl

def inertLineK (l : Bytes) : Bool :=
  !(([42, 42, 42, 32] : Bytes).isPrefixOf l) && !(([43, 43, 43, 32] : Bytes).isPrefixOf l) &&
  !(([45, 45, 45, 32] : Bytes).isPrefixOf l) && !(([73, 110, 100, 101, 120, 58, 32] : Bytes).isPrefixOf l) &&
  !(([80, 114, 101, 114, 101, 113, 58, 32] : Bytes).isPrefixOf l) &&
  !(([100, 105, 102, 102, 32, 45, 45, 103, 105, 116, 32] : Bytes).isPrefixOf l) &&
  !(([42, 42, 42, 42, 42, 42, 42, 42, 42, 42, 42, 42, 42, 42, 42] : Bytes).isPrefixOf l) &&
  !(([64, 64, 32, 45] : Bytes).isPrefixOf l) && !(match l with | c :: _ => isDigit c | [] => false)

theorem inertLine_eq_K (l : Bytes) : inertLine l = inertLineK l := by
  simp only [inertLine, inertLineK, startsWith, Header.str_old4, Header.str_plus4, Header.str_new4, Header.str_index,
    Header.str_prereq, Header.str_git, str_stars15, str_atat_minus]
  cases l <;> rfl

/-- a block of filler, checked by evaluation -/
theorem fillerOk_of_all (f : List Line) (h : (f.all fun l => inertLineK l.content && lfPlain l) = true) :
    (∀ l ∈ f, inertLine l.content = true) ∧ (∀ l ∈ f, lfPlain l = true) := by
  simp only [List.all_eq_true, Bool.and_eq_true] at h
  exact ⟨fun l hl => by rw [inertLine_eq_K]; exact (h l hl).1, fun l hl => (h l hl).2⟩

theorem noMarkerHead_of_head (f : List Line) (h : (f.head?.all fun l => l.content.head? != some BACKSLASH) = true) :
    NoMarkerHead f := by
  intro l hl
  rw [hl] at h
  simpa using h

/-! ### the section loop of `process_patch` -/

/-- one pass that ends normally and asks for another -/
theorem sectionLoop_step (o : Options) (fmt : Format) (fuel : Nat) (s s' : DState) (h0 : s.par.s.eof = false)
    (hrun : (processSection o fmt).run s = (.ok true, s')) :
    (sectionLoop o fmt (fuel + 1)).run s = (sectionLoop o fmt fuel).run s' := by
  rw [sectionLoop]
  simp only [run_bind, run_get, h0, Bool.false_eq_true, if_false, hrun, if_true]

/-- the loop test fails: the end of the input has been seen -/
theorem sectionLoop_eof (o : Options) (fmt : Format) (fuel : Nat) (s : DState) (h : s.par.s.eof = true) :
    (sectionLoop o fmt (fuel + 1)).run s = (.ok (), s) := by
  rw [sectionLoop]
  simp only [run_bind, run_get, h, if_true, run_pure]

/-- a pass over what is only filler after at least one patch: "trailing garbage", silently ignored (no `--verbose`), the loop is
    left by `break`, nothing at all has changed -/
theorem processSection_garbage (o : Options) (fmt : Format) (s : DState) (f : List Line) (hf : FillerOk f)
    (hpar : s.par.s = ⟨f, false, false⟩) (hfp : s.firstPatch = false) (hq : o.verbose = false) :
    (processSection o fmt).run s = (.ok false, s) := by
  have hh := Inert.parseHeader_filler o.strip s.par { format := fmt } (by rw [hpar]; exact hf.inert)
    (by rw [hpar]; exact hf.term) (by rw [hpar]) (by rw [hpar])
  have hfp' : (s.firstPatch = true) = False := by simp [hfp]
  unfold processSection
  simp only [↓run_bind, ↓run_get, ↓run_liftE, ↓run_modify, ↓run_pure, hh, hfp', hq, beq_self_eq_true, ↓reduceIte,
    Bool.false_eq_true]

theorem sectionLoop_garbage (o : Options) (fmt : Format) (fuel : Nat) (s : DState) (f : List Line) (hf : FillerOk f)
    (hpar : s.par.s = ⟨f, false, false⟩) (hfp : s.firstPatch = false) (hq : o.verbose = false) :
    (sectionLoop o fmt (fuel + 1)).run s = (.ok (), s) := by
  have h0 : s.par.s.eof = false := by rw [hpar]
  rw [sectionLoop]
  simp only [run_bind, run_get, h0, Bool.false_eq_true, if_false, processSection_garbage o fmt s f hf hpar hfp hq, run_pure]

/-! ### a clean section for a target named by its header, anywhere in the stream -/

/-- what the loop needs of the state between two sections -/
structure LoopState (s : DState) : Prop where
  cwd : s.cwd = []
  noFault : s.faultAt = none
  root : s.fs.isRoot = true

/-- a section together with its target: the name, the content and the mode of the file it is for -/
structure Job where
  sec : Sec
  name : Bytes
  bytes : Bytes
  m : Nat

/-- the section is a unified diff whose `---` line yields (under `-p`) the name `name`, a name without slash (so it is not
    `/dev/null` and its directory is the working directory), and its hunks are a valid script of the lines of `bytes`; the
    first range states a change (neither creation nor removal: scope, as in `C01_run`) -/
structure Job.Ok (o : Options) (j : Job) : Prop where
  sec : j.sec.Ok
  change : changeStart j.sec.hs = true
  named : Header.stripped j.sec.old o.strip = j.name
  nameNe : j.name ≠ []
  flat : ∀ c ∈ j.name, c ≠ SLASHB
  writable : j.m &&& writeMask ≠ 0
  valid : Valid (splitLines j.bytes) 0 0 j.sec.hs

/-- what the target holds afterwards -/
def Job.result (o : Options) (j : Job) : Node :=
  .file (Render.renderText o.newlineOutput (splice (splitLines j.bytes) 0 j.sec.hs)) j.m

theorem Sec.op_change (s : Sec) (h : changeStart s.hs = true) : s.op = .change := by
  unfold Sec.op
  cases hh : s.hs with
  | nil => rfl
  | cons h0 _ =>
    rw [hh] at h
    have hc : h0.old.start ≠ 0 ∧ h0.new.start ≠ 0 := by simpa [changeStart] using h
    simp only [Header.inferredOp]
    rw [if_neg hc.2, if_neg hc.1]

section
open PatchModel.C01
variable {o : Options} {pname : Bytes}

theorem forced_cases (o : Options) : forced o = .unknown ∨ forced o = .unified := by
  unfold forced; split
  · exact Or.inr rfl
  · exact Or.inl rfl

/-- header scan, body parse and the applier's verdict for a section somewhere in the stream, in any state of the loop -/
theorem guessSection_of_job (ho : GuessOpts o pname) (s : DState) (hs : LoopState s) (j : Job) (hj : j.Ok o)
    (tail : List Line) (htail : TailOk tail) (hpar : s.par.s = ⟨j.sec.lines ++ tail, false, false⟩)
    (htarget : s.fs.lookup j.name = some (.file j.bytes j.m)) :
    ∃ info par1 par2 r,
      GuessSection o (forced o) s j.name j.bytes j.m (j.sec.header o.strip) (j.sec.patch o.strip) info par1 par2 r ∧
      render o.newlineOutput r.out = Render.renderText o.newlineOutput (splice (splitLines j.bytes) 0 j.sec.hs) ∧
      (tail ≠ [] → par2.s = ⟨tail, false, false⟩) ∧ (tail = [] → par2.s.eof = true) := by
  obtain ⟨info, par1, par2, hhdr, hbody, h1, h2⟩ :=
    parse_section o.strip (forced o) (forced_cases o) j.sec hj.sec tail htail s.par hpar
  have hrev : (applyOptsOf o).reverse = false := ho.noReverse
  have hopc : (j.sec.header o.strip).operation = .change := j.sec.op_change hj.change
  obtain ⟨r, hap, hrout, _, hrfail, _, hrperf, hrskip, _, hrmsgs, hrtty, hrpatch⟩ :=
    applyPatch_valid (splitLines j.bytes) j.sec.hs (j.sec.patch o.strip) (applyOptsOf o)
      (Option.map (fun l => List.map (fun a => !List.isEmpty a && List.head? a != some 110) l) s.tty)
      hj.valid (by rw [hrev]; rfl) ho.noDefine ho.fuzz
  refine ⟨info, par1, par2, r, ?_, C01.render_of_lines _ ho.noDefine hap hrout, h1, h2⟩
  exact {
    noOperand := ho.noOperand,
    oldPath := hj.named,
    notNull := flat_ne_devNull hj.flat, noOut := ho.noOut, noBackup := ho.noBackup, pathNe := hj.nameNe, cwd := hs.cwd,
    hdr := hhdr, fmt := Or.inl rfl, op := hopc, pre := rfl, body := hbody, fmt2 := rfl, op2 := hopc, newMode2 := rfl,
    file := htarget, writable := hj.writable, root := hs.root, noFault := hs.noFault, apply := hap, failed := hrfail,
    perfect := hrperf, skipped := hrskip, msgs := hrmsgs ho.quiet, ttyLeft := hrtty,
    patch := by rw [hrpatch, hrev]; rfl }

/-- **one pass of the section loop over a clean section**: the target gets its result, nothing else in the tree moves, the
    loop goes on in a state that is again a loop state, at the tail -/
theorem sectionLoop_job (ho : GuessOpts o pname) (hreal : o.dryRun = false) (s : DState) (hs : LoopState s) (j : Job)
    (hj : j.Ok o) (tail : List Line) (htail : TailOk tail) (hpar : s.par.s = ⟨j.sec.lines ++ tail, false, false⟩)
    (htarget : s.fs.lookup j.name = some (.file j.bytes j.m)) (fuel : Nat) :
    ∃ s', (sectionLoop o (forced o) (fuel + 1)).run s = (sectionLoop o (forced o) fuel).run s' ∧
      s'.fs = s.fs.set j.name (j.result o) ∧ LoopState s' ∧ s'.firstPatch = false ∧
      s'.hadFailure = s.hadFailure ∧ s'.dWrites = s.dWrites ∧ s'.dRemovals = s.dRemovals ∧
      (tail ≠ [] → s'.par.s = ⟨tail, false, false⟩) ∧ (tail = [] → s'.par.s.eof = true) := by
  obtain ⟨info, par1, par2, r, H, hrender, h1, h2⟩ := guessSection_of_job ho s hs j hj tail htail hpar htarget
  obtain ⟨s', hrun, hfs, _, hdone⟩ := processSection_guess H hreal (dirExists_parent_of_noSlash s.fs hj.flat)
  have h0 : s.par.s.eof = false := by rw [hpar]
  refine ⟨s', sectionLoop_step o (forced o) fuel s s' h0 hrun, ?_, ⟨?_, ?_, ?_⟩, hdone.firstPatch, hdone.hadFailure,
    hdone.dWrites, hdone.dRemovals, ?_, ?_⟩
  · rw [hfs, hrender]; rfl
  · rw [hdone.cwd]; exact hs.cwd
  · rw [hdone.faultAt]; exact hs.noFault
  · rw [hfs]; exact hs.root
  · intro hne; rw [hdone.par]; exact h1 hne
  · intro hnil; rw [hdone.par]; exact h2 hnil

/-- the tree after the jobs: every target holds its result -/
def applyJobs (o : Options) (js : List Job) (fs : Fs) : Fs := js.foldl (fun fs j => fs.set j.name (j.result o)) fs

theorem lookup_applyJobs_of_not_mem (o : Options) : ∀ (js : List Job) (fs : Fs) (q : Bytes), (∀ j ∈ js, q ≠ j.name) →
    (applyJobs o js fs).lookup q = fs.lookup q
  | [], _, _, _ => rfl
  | j :: js, fs, q, h => by
    show (applyJobs o js (fs.set j.name (j.result o))).lookup q = _
    rw [lookup_applyJobs_of_not_mem o js _ q (fun x hx => h x (List.mem_cons_of_mem _ hx)),
      Fs.lookup_set_ne _ _ _ _ (h j List.mem_cons_self)]

theorem lookup_applyJobs_of_mem (o : Options) : ∀ (js : List Job) (fs : Fs) (j : Job), j ∈ js →
    js.Pairwise (fun a b => a.name ≠ b.name) → (applyJobs o js fs).lookup j.name = some (j.result o)
  | [], _, _, h, _ => by cases h
  | j0 :: js, fs, j, h, hp => by
    show (applyJobs o js (fs.set j0.name (j0.result o))).lookup j.name = _
    rcases List.mem_cons.1 h with rfl | hm
    · rw [lookup_applyJobs_of_not_mem o js _ _ (fun x hx => (List.pairwise_cons.1 hp).1 x hx), Fs.lookup_set_self]
    · exact lookup_applyJobs_of_mem o js _ j hm (List.pairwise_cons.1 hp).2

theorem isRoot_applyJobs (o : Options) : ∀ (js : List Job) (fs : Fs), (applyJobs o js fs).isRoot = fs.isRoot
  | [], _ => rfl
  | j :: js, fs => by
    show (applyJobs o js (fs.set j.name (j.result o))).isRoot = _
    rw [isRoot_applyJobs o js]; rfl

/-- **the section loop of `process_patch` over a stream of n clean sections for pairwise distinct targets** (each found through
    its `---` line), filler before, between and after: the loop ends normally, every target holds its result, nothing else
    in the tree has moved, no failure is recorded and nothing is left deferred -/
theorem sectionLoop_jobs (ho : GuessOpts o pname) (hreal : o.dryRun = false) :
    ∀ (js : List Job) (trailer : List Line) (s : DState) (fuel : Nat),
    LoopState s → (js = [] → s.firstPatch = false) → (∀ j ∈ js, j.Ok o) →
    (∀ j ∈ js, s.fs.lookup j.name = some (.file j.bytes j.m)) → js.Pairwise (fun a b => a.name ≠ b.name) →
    (∀ j ∈ js.drop 1, NoMarkerHead j.sec.filler) → FillerOk trailer → (js ≠ [] → NoMarkerHead trailer) →
    s.par.s = ⟨streamLines (js.map (·.sec)) trailer, false, false⟩ → js.length + 1 ≤ fuel →
    ∃ s', (sectionLoop o (forced o) fuel).run s = (.ok (), s') ∧ s'.fs = applyJobs o js s.fs ∧
      s'.hadFailure = s.hadFailure ∧ s'.dWrites = s.dWrites ∧ s'.dRemovals = s.dRemovals := by
  intro js
  induction js with
  | nil =>
    intro trailer s fuel _ hfp _ _ _ _ ht _ hpar hfuel
    obtain ⟨f, rfl⟩ : ∃ f, fuel = f + 1 := ⟨fuel - 1, by simp at hfuel; omega⟩
    exact ⟨s, sectionLoop_garbage o (forced o) f s trailer ht (by simpa [streamLines] using hpar) (hfp rfl) ho.quiet,
      rfl, rfl, rfl, rfl⟩
  | cons j js ih =>
    intro trailer s fuel hs _ hok htg hpw hm ht hmt hpar hfuel
    obtain ⟨f, rfl⟩ : ∃ f, fuel = f + 1 := ⟨fuel - 1, by simp at hfuel; omega⟩
    have hok' : ∀ x ∈ js, x.Ok o := fun x hx => hok x (List.mem_cons_of_mem _ hx)
    have hm' : ∀ x ∈ js, NoMarkerHead x.sec.filler := by simpa using hm
    have htail : TailOk (streamLines (js.map (·.sec)) trailer) :=
      tailOk_stream _ trailer (by intro x hx; obtain ⟨y, hy, rfl⟩ := List.mem_map.1 hx; exact (hok' y hy).sec)
        (by
          intro x hx
          cases js with
          | nil => cases hx
          | cons y ys =>
            simp only [List.map_cons, List.head?_cons, Option.some.injEq] at hx
            subst hx
            exact hm' y List.mem_cons_self)
        ht (fun _ => hmt (by simp))
    rw [List.map_cons, streamLines_cons] at hpar
    obtain ⟨s1, hstep, hfs, hs1, hfp1, hf1, hw1, hr1, h1, h2⟩ :=
      sectionLoop_job ho hreal s hs j (hok j List.mem_cons_self) _ htail hpar (htg j List.mem_cons_self) f
    rw [hstep]
    by_cases hnil : streamLines (js.map (·.sec)) trailer = []
    · obtain ⟨hjs, _⟩ := streamLines_eq_nil hnil
      have hjs' : js = [] := by simpa using hjs
      subst hjs'
      obtain ⟨g, rfl⟩ : ∃ g, f = g + 1 := ⟨f - 1, by simp at hfuel; omega⟩
      exact ⟨s1, sectionLoop_eof o (forced o) g s1 (h2 hnil), by rw [hfs]; rfl, hf1, hw1, hr1⟩
    · have hpw' := List.pairwise_cons.1 hpw
      obtain ⟨s', hrun, hfs', hf', hw', hr'⟩ := ih trailer s1 f hs1 (fun _ => hfp1) hok'
        (by
          intro x hx
          rw [hfs, Fs.lookup_set_ne _ _ _ _ (fun e => hpw'.1 x hx e.symm)]
          exact htg x (List.mem_cons_of_mem _ hx))
        hpw'.2 (fun x hx => hm' x (List.mem_of_mem_drop hx)) ht (fun _ => hmt (by simp)) (h1 hnil)
        (by simp at hfuel ⊢; omega)
      exact ⟨s', hrun, by rw [hfs', hfs]; rfl, by rw [hf', hf1], by rw [hw', hw1], by rw [hr', hr1]⟩

theorem length_le_streamLines : ∀ (secs : List Sec) (trailer : List Line), secs.length ≤ (streamLines secs trailer).length
  | [], _ => Nat.zero_le _
  | s :: secs, trailer => by
    rw [streamLines_cons, List.length_append, List.length_cons]
    have := length_le_streamLines secs trailer
    have := s.lines_length
    omega

/-- **the whole program on a stream of n clean sections** (`patch [-pN] -i pname`, no file operand): exit status 0 and the tree
    is the old tree with every target replaced by its result -/
theorem runPatch_jobs (ho : GuessOpts o pname) (hreal : o.dryRun = false) {s0 : DState} (hs0 : CleanStart s0)
    (hpn : pname ≠ []) (hpd : pname ≠ [45]) (js : List Job) (trailer : List Line) (pm : Nat)
    (hpatch : s0.fs.lookup pname = some (.file (streamText (js.map (·.sec)) trailer) pm))
    (hne : js ≠ []) (hok : ∀ j ∈ js, j.Ok o) (htext : ∀ j ∈ js, j.sec.TextOk)
    (htg : ∀ j ∈ js, s0.fs.lookup j.name = some (.file j.bytes j.m)) (hpw : js.Pairwise (fun a b => a.name ≠ b.name))
    (hm : ∀ j ∈ js.drop 1, NoMarkerHead j.sec.filler) (ht : FillerOk trailer) (htp : ∀ l ∈ trailer, lfPlain l = true)
    (hmt : NoMarkerHead trailer) :
    (runPatch o s0).1 = 0 ∧ (runPatch o s0).2.fs = applyJobs o js s0.fs := by
  have hsplit : splitLines (streamText (js.map (·.sec)) trailer) = streamLines (js.map (·.sec)) trailer :=
    splitLines_streamText _ trailer (by intro x hx; obtain ⟨y, hy, rfl⟩ := List.mem_map.1 hx; exact htext y hy) htp
  obtain ⟨s', hloop, hfs, hf, hw, hr⟩ := sectionLoop_jobs ho hreal js trailer
    (loopStart s0 (streamLines (js.map (·.sec)) trailer)) ((streamLines (js.map (·.sec)) trailer).length + 2)
    ⟨hs0.cwd, hs0.noFault, hs0.root⟩ (fun h => absurd h hne) hok htg hpw hm ht (fun _ => hmt) rfl
    (by have := length_le_streamLines (js.map (·.sec)) trailer; simp at this; omega)
  have hrunP := run_processPatchM o s0 s' pname (streamText (js.map (·.sec)) trailer) pm (forced o) ho.file.noDir
    ho.file.patchFile hpn hpd hs0.cwd hpatch hs0.root (diffFormat_plain o ho.file.noContext ho.file.noNormal ho.file.noEd)
    (by rw [hsplit]; exact hloop) (by rw [hw]; exact hs0.noWrites) (by rw [hr]; exact hs0.noRemovals)
  rw [runPatch_of_run o s0 s' ho.file.noHelp ho.file.noVersion hrunP]
  have : s'.hadFailure = false := by rw [hf]; exact hs0.noFailure
  rw [this]
  exact ⟨rfl, hfs⟩

end

end PatchModel.Concat
