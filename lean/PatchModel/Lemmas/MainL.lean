/-
  Lemmas/MainL — helpers for Props/C19Main (the command line composed with the run):
  * `Except.toOption` back to `Except`;
  * command lines as sequences of WORDS (operand / flag / option with argument), each in any of its spellings
    (`Spells`, `Spelled`), and the calls `CmdLineParser::parse` makes on them (`parse_spelled`);
  * `commandLine` from the calls (`commandLine_of_calls`, `commandLine_of_words`);
  * `applyDefaults` only touches posix, quotingStyle, backupIfMismatch, removeEmptyFiles (`applyDefaults_frame`);
  * permutations of two and three words.
-/
import PatchModel.Props.C19
namespace PatchModel.MainL
open PatchModel PatchModel.Cmdline PatchModel.C19

/-! ### `Except` -/

theorem eq_ok_of_toOption {ε α : Type} {x : Except ε α} {a : α} (h : x.toOption = some a) : x = .ok a := by
  cases x with
  | error e => simp [Except.toOption] at h
  | ok b => simp [Except.toOption] at h; rw [h]

theorem exists_error_of_toOption {ε α : Type} {x : Except ε α} (h : x.toOption = none) : ∃ e, x = .error e := by
  cases x with
  | error e => exact ⟨e, rfl⟩
  | ok b => simp [Except.toOption] at h

/-! ### `commandLine` from the calls -/

theorem commandLine_of_calls (t : List Opt) (argv : List Bytes) (env : Env) (cs : List OptCall) (st : HandlerState)
    (hp : parse t argv = (cs, none)) (hf : foldCalls { o := defaultOptions } cs = .ok st) :
    commandLine t argv env = .ok (applyDefaults st.o env) := by
  have hp' : parseArgs t (argv.length + 1) argv = (cs, none) := hp
  unfold commandLine
  rw [hp']
  simp only [hf]

/-- a failing call makes the fold fail, whatever comes before and after it -/
theorem foldCalls_bad_call (st : HandlerState) (a b : List OptCall) (c : OptCall)
    (hc : ∀ st', (processOption st' c).toOption = none) : (foldCalls st (a ++ c :: b)).toOption = none := by
  rw [foldCalls_append]
  cases foldCalls st a with
  | error e => rfl
  | ok s =>
    show (foldCalls s (c :: b)).toOption = none
    rw [foldCalls_cons]
    obtain ⟨e, he⟩ := exists_error_of_toOption (hc s)
    rw [he]; rfl

/-! ### words and their spellings -/

/-- what a command line consists of -/
inductive Word where
  | operand (x : Bytes)
  | flag (o : Opt)
  | opt (o : Opt) (v : Bytes)
  deriving DecidableEq

/-- the `process_option` call a word gives rise to -/
def Word.call : Word → OptCall
  | .operand x => (OPERAND, x)
  | .flag o => (o.shortName, [])
  | .opt o v => (o.shortName, v)

/-- `f` names the option `o` in long form: the long name itself, or a prefix of it (longer than "--") that is a prefix of no
    other long name of the table -/
def longNameOf (t : List Opt) (o : Opt) (f : Bytes) : Bool :=
  f == o.longName ||
  (decide (f.length > 2) && f.isPrefixOf o.longName && t.all fun o' => !f.isPrefixOf o'.longName || o' == o)

/-- the spellings of one word: the arguments it occupies -/
inductive Spells (t : List Opt) : Word → List Bytes → Prop
  /-- an operand: anything that does not start with '-', or "-" itself -/
  | operand (x : Bytes) (hx : x.head? ≠ some MINUS ∨ x = [MINUS]) : Spells t (.operand x) [x]
  /-- `--flag`, `--fl` -/
  | flagLong (o : Opt) (ho : o ∈ t) (hflag : o.hasArg = false) (f : Bytes) (hf : longNameOf t o f = true) :
      Spells t (.flag o) [f]
  /-- `-f` -/
  | flagShort (o : Opt) (ho : o ∈ t) (hflag : o.hasArg = false) (c : UInt8) (hc : shortByte o = some c) :
      Spells t (.flag o) [[MINUS, c]]
  /-- `--option value`, `--opt value` -/
  | optLongSep (o : Opt) (ho : o ∈ t) (harg : o.hasArg = true) (f : Bytes) (hf : longNameOf t o f = true) (v : Bytes) :
      Spells t (.opt o v) [f, v]
  /-- `--option=value`, `--opt=value` -/
  | optLongEq (o : Opt) (ho : o ∈ t) (harg : o.hasArg = true) (f : Bytes) (hf : longNameOf t o f = true) (v : Bytes) :
      Spells t (.opt o v) [f ++ EQ :: v]
  /-- `-o value` -/
  | optShortSep (o : Opt) (ho : o ∈ t) (harg : o.hasArg = true) (c : UInt8) (hc : shortByte o = some c) (v : Bytes) :
      Spells t (.opt o v) [[MINUS, c], v]
  /-- `-ovalue` (the value is not empty) -/
  | optShortAtt (o : Opt) (ho : o ∈ t) (harg : o.hasArg = true) (c : UInt8) (hc : shortByte o = some c) (v : Bytes)
      (hv : v ≠ []) : Spells t (.opt o v) [MINUS :: c :: v]

/-- `argv` spells the words `ws`, one after the other; after `--` everything is an operand -/
inductive Spelled (t : List Opt) : List Word → List Bytes → Prop
  | nil : Spelled t [] []
  | cons {w : Word} {a : List Bytes} {ws : List Word} {rest : List Bytes} :
      Spells t w a → Spelled t ws rest → Spelled t (w :: ws) (a ++ rest)
  | dashdash (xs : List Bytes) : Spelled t (xs.map .operand) ([MINUS, MINUS] :: xs)

/-- a long spelling (exact or unambiguous prefix) with or without `=value` is parsed like the full name -/
theorem parse_longName (t : List Opt) (hw : tableWF t = true) (o : Opt) (ho : o ∈ t) (f : Bytes)
    (hf : longNameOf t o f = true) (suffix : Bytes) (hs : suffix = [] ∨ suffix.head? = some EQ) (rest : List Bytes) :
    parse t ((f ++ suffix) :: rest) = stepResult t rest (handleLong (!suffix.isEmpty) (suffix.drop 1) rest o) := by
  unfold longNameOf at hf
  rw [Bool.or_eq_true] at hf
  rcases hf with hf | hf
  · rw [beq_iff_eq] at hf
    rw [hf]
    exact parse_longopt t hw o ho suffix hs rest
  · simp only [Bool.and_eq_true, decide_eq_true_eq, List.all_eq_true, Bool.or_eq_true, Bool.not_eq_true',
      beq_iff_eq] at hf
    obtain ⟨⟨hlen, hp⟩, hu⟩ := hf
    have huniq : ∀ o' ∈ t, f.isPrefixOf o'.longName = true → o' = o := by
      intro o' ho' hp'
      rcases hu o' ho' with h | h
      · rw [hp'] at h; cases h
      · exact h
    obtain ⟨c, more, hn⟩ := ((wf_parts t hw).2.2 o ho).1
    have h2' : [MINUS, MINUS].isPrefixOf (o.longName ++ suffix) = true := by rw [hn]; simp [List.isPrefixOf]
    have hl' : (o.longName ++ suffix).length > 2 := by rw [hn]; simp
    have h2 : [MINUS, MINUS].isPrefixOf (f ++ suffix) = true := by
      rw [hn] at hp
      match f, hlen, hp with
      | a :: b :: d :: f', _, hp =>
        simp only [List.isPrefixOf, Bool.and_eq_true, beq_iff_eq] at hp
        obtain ⟨rfl, rfl, _⟩ := hp
        simp [List.isPrefixOf]
    have hl : (f ++ suffix).length > 2 := by rw [List.length_append]; omega
    rw [parse_long t (f ++ suffix) rest h2 hl, prefix_unambiguous t hw o ho f hlen hp huniq suffix hs rest,
      ← parse_long t (o.longName ++ suffix) rest h2' hl']
    exact parse_longopt t hw o ho suffix hs rest

/-- one word, in any spelling, makes its one call and parsing continues behind it -/
theorem parse_word (t : List Opt) (hw : tableWF t = true) (w : Word) (a : List Bytes) (h : Spells t w a)
    (rest : List Bytes) : parse t (a ++ rest) = (w.call :: (parse t rest).1, (parse t rest).2) := by
  cases h with
  | operand x hx => exact parse_operand t x rest hx
  | flagLong o ho hflag f hf =>
    have := parse_longName t hw o ho f hf [] (.inl rfl) rest
    rw [List.append_nil] at this
    show parse t (f :: rest) = _
    rw [this]
    show stepResult t rest (handleLong false [] rest o) = _
    rw [handleLong_flag _ _ _ hflag]
    rfl
  | flagShort o ho hflag c hc =>
    show parse t ([MINUS, c] :: rest) = _
    rw [parse_shortname t hw o ho c hc, handleLong_flag _ _ _ hflag]
    rfl
  | optLongSep o ho harg f hf v =>
    have := parse_longName t hw o ho f hf [] (.inl rfl) (v :: rest)
    rw [List.append_nil] at this
    show parse t (f :: v :: rest) = _
    rw [this]
    show stepResult t (v :: rest) (handleLong false [] (v :: rest) o) = _
    rw [handleLong_arg_next _ _ _ _ harg]
    rfl
  | optLongEq o ho harg f hf v =>
    show parse t ((f ++ EQ :: v) :: rest) = _
    rw [parse_longName t hw o ho f hf (EQ :: v) (.inr rfl) rest]
    show stepResult t rest (handleLong true v rest o) = _
    rw [handleLong_arg_sep _ _ _ harg]
    rfl
  | optShortSep o ho harg c hc v =>
    show parse t ([MINUS, c] :: v :: rest) = _
    rw [parse_shortname t hw o ho c hc, handleLong_arg_next _ _ _ _ harg]
    rfl
  | optShortAtt o ho harg c hc v hv =>
    show parse t ((MINUS :: c :: v) :: rest) = _
    rw [parse_shortopt t hw o ho c hc, parseShort_arg t (wf_parts t hw).1 o ho c (shortByte_spec t hw o ho c hc).1 harg]
    have : v.isEmpty = false := by cases v <;> simp at hv ⊢
    simp only [this]
    rfl

/-- the calls made on a command line that spells the words `ws`: one per word, in order, and no parse error -/
theorem parse_spelled (t : List Opt) (hw : tableWF t = true) (ws : List Word) (argv : List Bytes)
    (h : Spelled t ws argv) : parse t argv = (ws.map Word.call, none) := by
  induction h with
  | nil => rfl
  | cons hsp _ ih => rw [parse_word t hw _ _ hsp, ih]; rfl
  | dashdash xs => rw [parse_dashdash, List.map_map]; rfl

/-- operands, then one word: the calls -/
theorem parse_operands_word (t : List Opt) (hw : tableWF t = true) (pre : List Bytes)
    (hpre : ∀ a ∈ pre, a.head? ≠ some MINUS) (w : Word) (a : List Bytes) (h : Spells t w a) (rest : List Bytes) :
    parse t (pre ++ (a ++ rest)) = (pre.map (fun x => (OPERAND, x)) ++ w.call :: (parse t rest).1, (parse t rest).2) := by
  rw [parse_operands t pre _ hpre, parse_word t hw w a h]

/-- `commandLine` on a command line that spells `ws` -/
theorem commandLine_of_words (t : List Opt) (hw : tableWF t = true) (ws : List Word) (argv : List Bytes) (env : Env)
    (st : HandlerState) (h : Spelled t ws argv) (hf : foldCalls { o := defaultOptions } (ws.map Word.call) = .ok st) :
    commandLine t argv env = .ok (applyDefaults st.o env) :=
  commandLine_of_calls t argv env _ st (parse_spelled t hw ws argv h) hf

/-! ### `applyDefaults` -/

/-- `apply_environment_defaults`, POSIXLY_CORRECT -/
def envPosix (o : Options) (env : Env) : Options := if !o.posix then { o with posix := env.posixlyCorrect } else o

/-- `apply_environment_defaults`, QUOTING_STYLE -/
def envQuoting (o1 : Options) (env : Env) : Options :=
  if o1.quotingStyle = .unset then
    match env.quotingStyle with
    | none => { o1 with quotingStyle := .shell }
    | some v =>
      if v == str "literal" then { o1 with quotingStyle := .literal }
      else if v == str "shell" then { o1 with quotingStyle := .shell }
      else if v == str "shell-always" then { o1 with quotingStyle := .shellAlways }
      else if v == str "c" then { o1 with quotingStyle := .c }
      else { o1 with quotingStyle := .shell }
  else o1

theorem applyDefaults_eq (o : Options) (env : Env) :
    applyDefaults o env =
      { envQuoting (envPosix o env) env with
        backupIfMismatch := if (envQuoting (envPosix o env) env).backupIfMismatch = .unset then
            (if (envQuoting (envPosix o env) env).posix then .no else .yes) else (envQuoting (envPosix o env) env).backupIfMismatch,
        removeEmptyFiles := if (envQuoting (envPosix o env) env).removeEmptyFiles = .unset then
            (if (envQuoting (envPosix o env) env).posix then .no else .yes) else (envQuoting (envPosix o env) env).removeEmptyFiles } :=
  rfl

theorem envPosix_frame (o : Options) (env : Env) : ∃ p, envPosix o env = { o with posix := p } := by
  unfold envPosix
  split
  · exact ⟨_, rfl⟩
  · exact ⟨o.posix, rfl⟩

theorem envQuoting_frame (o : Options) (env : Env) : ∃ q, envQuoting o env = { o with quotingStyle := q } := by
  unfold envQuoting
  repeat' split
  all_goals first | exact ⟨_, rfl⟩ | exact ⟨o.quotingStyle, rfl⟩

/-- the environment defaults only touch four fields -/
theorem applyDefaults_frame (o : Options) (env : Env) :
    ∃ p q b r, applyDefaults o env = { o with posix := p, quotingStyle := q, backupIfMismatch := b, removeEmptyFiles := r } := by
  obtain ⟨p, hp⟩ := envPosix_frame o env
  obtain ⟨q, hq⟩ := envQuoting_frame (envPosix o env) env
  rw [applyDefaults_eq, hq, hp]
  exact ⟨_, _, _, _, rfl⟩

/-- a field other than those four is what it was before the defaults -/
theorem applyDefaults_proj {α : Type} (f : Options → α)
    (hf : ∀ (o : Options) p q b r,
      f { o with posix := p, quotingStyle := q, backupIfMismatch := b, removeEmptyFiles := r } = f o)
    (o : Options) (env : Env) : f (applyDefaults o env) = f o := by
  obtain ⟨p, q, b, r, e⟩ := applyDefaults_frame o env
  rw [e, hf]

/-! ### permutations of two and three -/

theorem perm_cons_split {α : Type} {l l' : List α} {a : α} (h : l.Perm (a :: l')) :
    ∃ l1 l2, l = l1 ++ a :: l2 ∧ (l1 ++ l2).Perm l' := by
  obtain ⟨l1, l2, rfl⟩ := List.append_of_mem (h.symm.subset List.mem_cons_self)
  exact ⟨l1, l2, rfl, (List.perm_middle.symm.trans h).cons_inv⟩

theorem append_eq_single {α : Type} {l1 l2 : List α} {b : α} (h : l1 ++ l2 = [b]) :
    (l1 = [] ∧ l2 = [b]) ∨ (l1 = [b] ∧ l2 = []) := by
  cases l1 with
  | nil => exact .inl ⟨rfl, h⟩
  | cons x l1 =>
    rw [List.cons_append] at h
    injection h with h1 h2
    have := List.append_eq_nil_iff.1 h2
    exact .inr ⟨by rw [h1, this.1], this.2⟩

theorem perm_two {α : Type} {l : List α} {a b : α} (h : l.Perm [a, b]) : l = [a, b] ∨ l = [b, a] := by
  obtain ⟨l1, l2, rfl, h'⟩ := perm_cons_split h
  rcases append_eq_single (List.perm_singleton.1 h') with ⟨rfl, rfl⟩ | ⟨rfl, rfl⟩
  · exact .inl rfl
  · exact .inr rfl

theorem append_eq_pair {α : Type} {l1 l2 : List α} {b c : α} (h : l1 ++ l2 = [b, c]) :
    (l1 = [] ∧ l2 = [b, c]) ∨ (l1 = [b] ∧ l2 = [c]) ∨ (l1 = [b, c] ∧ l2 = []) := by
  cases l1 with
  | nil => exact .inl ⟨rfl, h⟩
  | cons x l1 =>
    rw [List.cons_append] at h
    injection h with h1 h2
    rcases append_eq_single h2 with ⟨rfl, rfl⟩ | ⟨rfl, rfl⟩
    · exact .inr (.inl ⟨by rw [h1], rfl⟩)
    · exact .inr (.inr ⟨by rw [h1], rfl⟩)

theorem perm_three {α : Type} {l : List α} {a b c : α} (h : l.Perm [a, b, c]) :
    l = [a, b, c] ∨ l = [b, a, c] ∨ l = [b, c, a] ∨ l = [a, c, b] ∨ l = [c, a, b] ∨ l = [c, b, a] := by
  obtain ⟨l1, l2, rfl, h'⟩ := perm_cons_split h
  rcases perm_two h' with e | e <;> rcases append_eq_pair e with ⟨rfl, rfl⟩ | ⟨rfl, rfl⟩ | ⟨rfl, rfl⟩ <;> simp

end PatchModel.MainL
