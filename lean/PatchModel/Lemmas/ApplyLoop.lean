/-
  Lemmas/ApplyLoop — the hunk loop of `apply_patch` once more, with what `Lemmas/Apply` leaves out:
  the exact effect of one iteration on `offset_old_lines_to_new`, the fact that the loop starts with that
  offset at zero, and an induction principle for invariants that are indexed by the hunk number.
-/
import PatchModel.Lemmas.Apply
import PatchModel.Lemmas.Render
namespace PatchModel.ApplyLoop
open PatchModel PatchModel.Apply PatchModel.Splice

/-! ### one iteration, including `offNew` -/

/-- `offset_old_lines_to_new` grows by the net growth of the hunk exactly when the hunk is written -/
theorem finishHunk_offNew_eq {file : List Line} {o : ApplyOpts} {p : Patch} {s s' : AState} {num : Nat} {h : Hunk}
    {loc : Option Location} (hs : finishHunk file o p s num h loc = .ok s') :
    s'.offNew = if (!s.skip && loc.isSome) = true then s.offNew + (h.new.count - h.old.count) else s.offNew := by
  unfold finishHunk at hs
  simp only [] at hs
  split at hs
  · cases hs
  · next s1 hs1 =>
    have h1 : s1.offNew = s.offNew := by
      split at hs1
      · split at hs1
        · cases hs1
        · split at hs1
          · cases hs1
          · cases hs1; rfl
      · split at hs1
        · cases hs1
        · cases hs1; rfl
    cases hs
    rw [← h1]
    by_cases hc : (!s.skip && loc.isSome) = true
    · simp only [hc, if_true]
      (repeat' split) <;> simp
    · simp only [hc]
      (repeat' split) <;> simp

/-- `Apply.finishHunk_ok` together with the new value of `offNew` -/
theorem finishHunk_ok' {file : List Line} {o : ApplyOpts} {p : Patch} {s s' : AState} {num : Nat} {h : Hunk}
    {loc : Option Location} (hs : finishHunk file o p s num h loc = .ok s') :
    (∃ l emitted cur, s.skip = false ∧ loc = some l ∧
        ¬ (l.line.toNat > s.cursor ∧ l.line.toNat > file.length) ∧
        writeHunkD file o.define h.lines l.line.toNat = some (emitted, cur) ∧
        s'.out = s.out ++ copyRange file s.cursor (l.line.toNat - s.cursor) ++ emitted ∧
        s'.cursor = cur ∧ s'.offErr = s.offErr + l.offset ∧
        s'.applied = s.applied ++ [(num, l)] ∧ s'.rejected = s.rejected ∧ s'.skip = false ∧
        s'.offNew = s.offNew + (h.new.count - h.old.count)) ∨
    ((s.skip = true ∨ loc = none) ∧ s'.out = s.out ∧ s'.cursor = s.cursor ∧ s'.offErr = s.offErr ∧
        s'.applied = s.applied ∧ s'.rejected = s.rejected ++ [(num, shiftHunk h s.offNew)] ∧
        s'.skip = s.skip ∧ s'.offNew = s.offNew) := by
  have hoff := finishHunk_offNew_eq hs
  rcases finishHunk_ok hs with ⟨l, emitted, cur, h1, h2, h3, h4, h5, h6, h7, h8, h9, h10⟩ |
      ⟨h1, h2, h3, h4, h5, h6, h7⟩
  · left
    refine ⟨l, emitted, cur, h1, h2, h3, h4, h5, h6, h7, h8, h9, h10, ?_⟩
    rw [hoff, h1, h2]; rfl
  · right
    refine ⟨h1, h2, h3, h4, h5, h6, h7, ?_⟩
    rw [hoff]
    rcases h1 with h1 | h1
    · rw [h1]; rfl
    · rw [h1]; simp

/-! ### the loop starts with `offNew = 0` -/

/-- `Apply.applyPatch_cases` with the additional fact that the loop starts with `offset_old_lines_to_new = 0` -/
theorem applyPatch_cases_off (file : List Line) (p0 : Patch) (o : ApplyOpts) (tty : Option (List Bool)) :
    (applyPatch file p0 o tty = .error .systemError ∧ o.ignoreReversed = false ∧ o.batch = false ∧
        o.force = false ∧ tty = none) ∨
    ∃ p' s1, InitState s1 ∧ s1.offNew = 0 ∧
      (p'.hunks = p0.hunks ∨ p'.hunks = p0.hunks.map reverseHunk ∨
        p'.hunks = (p0.hunks.map reverseHunk).map reverseHunk) ∧
      applyPatch file p0 o tty = runLoop file o p' s1 := by
  have hp : ∃ p : Patch, (if o.reverse then reversePatch p0 else p0) = p ∧
      (p.hunks = p0.hunks ∨ p.hunks = p0.hunks.map reverseHunk) := by
    refine ⟨_, rfl, ?_⟩
    split
    · right; rfl
    · left; rfl
  obtain ⟨p, hpe, hph⟩ := hp
  suffices H : ∀ res, applyPatch file p0 o tty = res →
      (res = .error .systemError ∧ o.ignoreReversed = false ∧ o.batch = false ∧ o.force = false ∧ tty = none) ∨
      ∃ p' s1, InitState s1 ∧ s1.offNew = 0 ∧
        (p'.hunks = p0.hunks ∨ p'.hunks = p0.hunks.map reverseHunk ∨
          p'.hunks = (p0.hunks.map reverseHunk).map reverseHunk) ∧ res = runLoop file o p' s1 from H _ rfl
  intro res hres
  unfold applyPatch at hres
  simp only [hpe] at hres
  have hph' : p.hunks = p0.hunks ∨ p.hunks = p0.hunks.map reverseHunk ∨
          p.hunks = (p0.hunks.map reverseHunk).map reverseHunk := by
    rcases hph with h | h
    · exact Or.inl h
    · exact Or.inr (Or.inl h)
  split at hres
  · next hh =>
    right
    refine ⟨p, { tty := tty }, ⟨rfl, rfl, rfl, rfl, rfl⟩, rfl, hph', ?_⟩
    rw [← hres]; unfold runLoop; rw [hh]; rfl
  · next h0 rest hh =>
    split at hres
    · next hchk =>
      split at hres
      · next e hdec =>
        left
        split at hdec
        · split at hdec
          · next e' he' =>
            cases hdec
            obtain ⟨h1, h2, h3, h4⟩ := checkReversed_error he'
            subst h1
            exact ⟨hres.symm, h2, h3, shouldCheckReversed_force hchk, h4⟩
          · cases hdec
        · cases hdec
      · next rh ms tty' hdec =>
        right
        split at hres
        · have hrh : (reversePatch p).hunks = reverseHunk h0 :: rest.map reverseHunk := by
            show p.hunks.map reverseHunk = _
            rw [hh, List.map_cons]
          refine ⟨reversePatch p, { msgs := ms, tty := tty' },
            ⟨rfl, rfl, rfl, rfl, rfl⟩, rfl, ?_, ?_⟩
          · have hrm : (reversePatch p).hunks = p.hunks.map reverseHunk := rfl
            rcases hph with h | h
            · exact Or.inr (Or.inl (by rw [hrm, h]))
            · exact Or.inr (Or.inr (by rw [hrm, h]))
          · rw [runLoop_cons (h := reverseHunk h0) (rest := rest.map reverseHunk) hrh rfl rfl]
            exact hres.symm
        · refine ⟨p, { skip := true, msgs := ms, tty := tty' }, ⟨rfl, rfl, rfl, rfl, rfl⟩, rfl, hph', ?_⟩
          rw [runLoop_cons hh rfl rfl]
          exact hres.symm
        · refine ⟨p, { msgs := ms, tty := tty' }, ⟨rfl, rfl, rfl, rfl, rfl⟩, rfl, hph', ?_⟩
          rw [runLoop_cons hh rfl rfl]
          exact hres.symm
    · right
      refine ⟨p, { tty := tty }, ⟨rfl, rfl, rfl, rfl, rfl⟩, rfl, hph', ?_⟩
      rw [runLoop_cons hh rfl rfl]
      exact hres.symm

/-- what a successful `applyPatch` returned: one run of the loop over the hunks of `r.patch`, from an initial
    state with `offNew = 0` -/
theorem applyPatch_ok_cases_off {file : List Line} {p0 : Patch} {o : ApplyOpts} {tty : Option (List Bool)}
    {r : ApplyResult} (hr : applyPatch file p0 o tty = .ok r) :
    ∃ p' s1 s3, InitState s1 ∧ s1.offNew = 0 ∧
      (p'.hunks = p0.hunks ∨ p'.hunks = p0.hunks.map reverseHunk ∨
        p'.hunks = (p0.hunks.map reverseHunk).map reverseHunk) ∧
      applyRest file o p' s1 0 p'.hunks = .ok s3 ∧ r = finishResult file p' s3 := by
  rcases applyPatch_cases_off file p0 o tty with ⟨he, _⟩ | ⟨p', s1, hi, h0, hp, he⟩
  · rw [he] at hr; cases hr
  · rw [he] at hr
    unfold runLoop at hr
    split at hr
    · cases hr
    · next s3 h3 => cases hr; exact ⟨p', s1, s3, hi, h0, hp, h3, rfl⟩

/-! ### induction over the loop for invariants indexed by the hunk number -/

theorem getElem?_of_drop_eq_cons {α} {all : List α} {num : Nat} {h : α} {rest : List α}
    (hdrop : all.drop num = h :: rest) : all[num]? = some h ∧ all.drop (num + 1) = rest := by
  constructor
  · have := List.getElem?_drop (xs := all) (i := num) (j := 0)
    rw [hdrop] at this
    simpa using this.symm
  · rw [← List.drop_drop, hdrop]; rfl

/-- an invariant `P num s` ("`s` is the state before hunk number `num`") that every iteration preserves holds at
    the end of the loop; the iteration is given with the location that `applyRest` computes -/
theorem applyRest_induct {file : List Line} {o : ApplyOpts} {p : Patch} {all : List Hunk} (P : Nat → AState → Prop)
    (step : ∀ (s s' : AState) (num : Nat) (h : Hunk), all[num]? = some h → P num s →
      finishHunk file o p s num h (locateHunk file h o.ignoreWhitespace s.offErr o.maxFuzz s.cursor) = .ok s' →
      P (num + 1) s') :
    ∀ (hs : List Hunk) (s : AState) (num : Nat) (s' : AState), applyRest file o p s num hs = .ok s' →
      all.drop num = hs → P num s → P (num + hs.length) s' := by
  intro hs
  induction hs with
  | nil => intro s num s' hr _ hinv; rw [applyRest] at hr; cases hr; exact hinv
  | cons h rest ih =>
    intro s num s' hr hdrop hinv
    rw [applyRest] at hr
    split at hr
    · cases hr
    · next s1 hs1 =>
      obtain ⟨hnum, hdrop'⟩ := getElem?_of_drop_eq_cons hdrop
      have := ih s1 (num + 1) s' hr hdrop' (step s s1 num h hnum hinv hs1)
      rw [List.length_cons, ← Nat.add_assoc, Nat.add_right_comm]
      exact this

/-- the same for a whole run of `applyPatch`: an invariant that holds for every initial state with `offNew = 0`
    and is preserved by the iterations over the hunks of the patch as applied holds for the final state -/
theorem applyPatch_induct {file : List Line} {p0 : Patch} {o : ApplyOpts} {tty : Option (List Bool)}
    {r : ApplyResult} (hr : applyPatch file p0 o tty = .ok r) (P : Nat → AState → Prop)
    (init : ∀ s1, InitState s1 → s1.offNew = 0 → P 0 s1)
    (step : ∀ (s s' : AState) (num : Nat) (h : Hunk), r.patch.hunks[num]? = some h → P num s →
      finishHunk file o r.patch s num h (locateHunk file h o.ignoreWhitespace s.offErr o.maxFuzz s.cursor) = .ok s' →
      P (num + 1) s') :
    ∃ s3, P r.patch.hunks.length s3 ∧ r = finishResult file r.patch s3 ∧
      (r.patch.hunks = p0.hunks ∨ r.patch.hunks = p0.hunks.map reverseHunk ∨
        r.patch.hunks = (p0.hunks.map reverseHunk).map reverseHunk) := by
  obtain ⟨p', s1, s3, hi, h0, hp, h3, rfl⟩ := applyPatch_ok_cases_off hr
  refine ⟨s3, ?_, rfl, hp⟩
  have := applyRest_induct (all := p'.hunks) P step p'.hunks s1 0 s3 h3 rfl (init s1 hi h0)
  rw [Nat.zero_add] at this
  exact this

/-! ### without `-D` no item of the output is a bare terminator -/

/-- **without `-D`** the output consists of lines of the file and added lines of the hunks only: the writer's rule (D97) acts on it
    as `Render.terminate` acts on its lines (`Render.render_eq_renderText`) -/
theorem applyPatch_noBare {file : List Line} {p0 : Patch} {o : ApplyOpts} {tty : Option (List Bool)} {r : ApplyResult}
    (hD : o.define = []) (hr : applyPatch file p0 o tty = .ok r) : Render.NoBare r.out := by
  obtain ⟨s3, h3, he, _⟩ := applyPatch_induct hr (fun _ s => Render.NoBare s.out)
    (by intro s1 hi _; rw [hi.out]; exact Render.NoBare.nil)
    (by
      intro s s' num h _ hP hf
      rcases finishHunk_ok' hf with ⟨l, emitted, cur, _, _, _, hw, hout, _⟩ | ⟨_, hout, _⟩
      · rw [hout]
        rw [hD, writeHunkD_nil] at hw
        exact (hP.append (Render.noBare_copyRange _ _ _)).append (Render.noBare_writeHunk hw)
      · rw [hout]; exact hP)
  rw [he]
  exact h3.append (Render.noBare_copyRange _ _ _)

/-- the bytes of the output without `-D`: the intended bytes of its lines -/
theorem applyPatch_render {file : List Line} {p0 : Patch} {o : ApplyOpts} {tty : Option (List Bool)} {r : ApplyResult}
    (hD : o.define = []) (hr : applyPatch file p0 o tty = .ok r) (mode : NewlineOutput) :
    render mode r.out = Render.renderText mode (r.out.map Out.line) :=
  Render.render_eq_renderText mode r.out (applyPatch_noBare hD hr)

/-! ### all lines terminated: so is everything that is written (with or without `-D`), and `render` is `renderLines` -/

/-- the writer state of `write_define_hunk` holds terminated lines only -/
def TermW (w : DefW) : Prop := (∀ o ∈ w.out, o.line.newline ≠ .none) ∧ w.lastUnterm = false ∧ w.lastTerm ≠ .none

theorem terminatorOf_ne_none (l : Line) : terminatorOf l ≠ .none := by
  unfold terminatorOf; split <;> simp_all

theorem termW_directive {w : DefW} (t : Bytes) {nl : NewLine} (hw : TermW w) (hnl : nl ≠ .none) : TermW (w.directive t nl) := by
  obtain ⟨h1, h2, h3⟩ := hw
  refine ⟨?_, rfl, h3⟩
  intro o ho
  simp only [DefW.directive, h2, Bool.false_eq_true, if_false, List.mem_append, List.mem_singleton] at ho
  rcases ho with ho | ho
  · exact h1 o ho
  · rw [ho]; exact hnl

theorem termW_line {w : DefW} (o : Out) (hw : TermW w) (ho : o.line.newline ≠ .none) : TermW (w.line o) := by
  obtain ⟨h1, h2, h3⟩ := hw
  refine ⟨?_, ?_, terminatorOf_ne_none _⟩
  · intro o' ho'
    simp only [DefW.line, h2, Bool.false_eq_true, if_false, List.mem_append, List.mem_singleton] at ho'
    rcases ho' with ho' | ho'
    · exact h1 o' ho'
    · rw [ho']; exact ho
  · simp [DefW.line, ho]

theorem defineLoop_terminated (file : List Line) (sym : Bytes) (hfile : ∀ l ∈ file, l.newline ≠ .none) :
    ∀ (ls : List PatchLine) (cur : Nat) (st : DefState) (w : DefW) (r : DefW × Nat × DefState),
      (∀ pl ∈ ls, pl.line.newline ≠ .none) → TermW w → defineLoop file sym ls cur st w = some r → TermW r.1 := by
  intro ls
  induction ls with
  | nil =>
    intro cur st w r _ hw h
    simp only [defineLoop] at h
    cases h; exact hw
  | cons pl rest ih =>
    intro cur st w r hpl hw h
    have hrest : ∀ q ∈ rest, q.line.newline ≠ .none := fun q hq => hpl q (List.mem_cons_of_mem _ hq)
    have hp := hpl pl List.mem_cons_self
    rw [defineLoop] at h
    split at h
    · split at h
      · exact ih _ _ _ r hrest hw h
      split at h
      · cases h
      · next l hl =>
        have hlf := hfile l (List.mem_of_getElem? hl)
        refine ih _ _ _ r hrest (termW_line (.fromFile cur l) ?_ hlf) h
        split
        · exact termW_directive _ hw (terminatorOf_ne_none _)
        · exact hw
    · split at h
      · generalize hx : (if st = DefState.outside then _ else _ : DefW × DefState) = x at h
        obtain ⟨w1, st1⟩ := x
        refine ih _ _ _ r hrest (termW_line (.fromPatch pl.line) ?_ hp) h
        split at hx
        · cases hx; exact termW_directive _ hw (terminatorOf_ne_none _)
        · split at hx
          · cases hx; exact termW_directive _ hw (terminatorOf_ne_none _)
          · split at hx
            · cases hx
              exact termW_directive _ (termW_directive _ hw (terminatorOf_ne_none _)) (terminatorOf_ne_none _)
            · cases hx; exact hw
      · split at h
        · split at h
          · cases h
          · next l hl =>
            have hlf := hfile l (List.mem_of_getElem? hl)
            generalize hx : (if st = DefState.outside then _ else _ : DefW × DefState) = x at h
            obtain ⟨w1, st1⟩ := x
            refine ih _ _ _ r hrest (termW_line (.fromFile cur l) ?_ hlf) h
            split at hx
            · cases hx; exact termW_directive _ hw (terminatorOf_ne_none _)
            · split at hx
              · cases hx; exact termW_directive _ hw (terminatorOf_ne_none _)
              · split at hx
                · cases hx
                  exact termW_directive _ (termW_directive _ hw (terminatorOf_ne_none _)) (terminatorOf_ne_none _)
                · cases hx; exact hw
        · exact ih _ _ _ r hrest hw h

/-- what `write_define_hunk` emits is terminated throughout when the file and the hunk are -/
theorem writeDefineHunk_terminated (file : List Line) (sym : Bytes) (hfile : ∀ l ∈ file, l.newline ≠ .none)
    (ls : List PatchLine) (hls : ∀ pl ∈ ls, pl.line.newline ≠ .none) (p n : Nat) (outs : List Out)
    (h : writeDefineHunk file sym ls p = some (outs, n)) : ∀ o ∈ outs, o.line.newline ≠ .none := by
  unfold writeDefineHunk at h
  split at h
  · cases h
  · next w cur st hd =>
    have hg := defineLoop_terminated file sym hfile ls p .outside {} (w, cur, st) hls
      ⟨by simp, rfl, by simp⟩ hd
    simp only [Option.some.injEq, Prod.mk.injEq] at h
    obtain ⟨h1, _⟩ := h
    rw [← h1]
    split
    · exact (termW_directive dEndif hg hg.2.2).1
    · exact hg.1

theorem writeHunkD_terminated (file : List Line) (define : Bytes) (hfile : ∀ l ∈ file, l.newline ≠ .none)
    (ls : List PatchLine) (hls : ∀ pl ∈ ls, pl.line.newline ≠ .none) (p n : Nat) (outs : List Out)
    (h : writeHunkD file define ls p = some (outs, n)) : ∀ o ∈ outs, o.line.newline ≠ .none := by
  unfold writeHunkD at h
  split at h
  · exact writeDefineHunk_terminated file define hfile ls hls p n outs h
  · intro o ho
    rcases Render.mem_writeHunk file ls p outs n h o ho with ⟨k, l, rfl, hk⟩ | ⟨pl, hpl, _, rfl⟩
    · exact hfile l (List.mem_of_getElem? hk)
    · exact hls pl hpl

theorem reverseHunk_lines_terminated {h : Hunk} (hh : ∀ pl ∈ h.lines, pl.line.newline ≠ .none) :
    ∀ pl ∈ (reverseHunk h).lines, pl.line.newline ≠ .none := by
  intro pl hpl
  simp only [reverseHunk, List.mem_map] at hpl
  obtain ⟨q, hq, rfl⟩ := hpl
  have := hh q hq
  (repeat' split) <;> exact this

/-- **a file and a patch all of whose lines are terminated** (any options, `-D` included, any outcome of the hunks): every
    item written is terminated -/
theorem applyPatch_all_terminated {file : List Line} {p0 : Patch} {o : ApplyOpts} {tty : Option (List Bool)} {r : ApplyResult}
    (hfile : ∀ l ∈ file, l.newline ≠ .none) (hpatch : ∀ h ∈ p0.hunks, ∀ pl ∈ h.lines, pl.line.newline ≠ .none)
    (hr : applyPatch file p0 o tty = .ok r) : ∀ x ∈ r.out, x.line.newline ≠ .none := by
  have hstep : ∀ (hunks : List Hunk), (∀ h ∈ hunks, ∀ pl ∈ h.lines, pl.line.newline ≠ .none) →
      ∀ h ∈ hunks.map reverseHunk, ∀ pl ∈ h.lines, pl.line.newline ≠ .none := by
    intro hunks hh h hm
    obtain ⟨h', hh', rfl⟩ := List.mem_map.1 hm
    exact reverseHunk_lines_terminated (hh h' hh')
  obtain ⟨s3, h3, he, hp⟩ := applyPatch_induct hr (fun _ s => ∀ x ∈ s.out, x.line.newline ≠ .none)
    (by intro s1 hi _ x hx; rw [hi.out] at hx; cases hx)
    (by
      intro s s' num h hnum hP hf
      have hh : ∀ pl ∈ h.lines, pl.line.newline ≠ .none := by
        have hm : h ∈ r.patch.hunks := List.mem_of_getElem? hnum
        obtain ⟨_, _, _, hp⟩ := applyPatch_induct hr (fun _ _ => True) (fun _ _ _ => trivial) (fun _ _ _ _ _ _ _ => trivial)
        rcases hp with hp | hp | hp
        · rw [hp] at hm; exact hpatch h hm
        · rw [hp] at hm; exact hstep _ hpatch h hm
        · rw [hp] at hm; exact hstep _ (hstep _ hpatch) h hm
      rcases finishHunk_ok' hf with ⟨l, emitted, cur, _, _, _, hw, hout, _⟩ | ⟨_, hout, _⟩
      · rw [hout]
        intro x hx
        rcases List.mem_append.1 hx with hx | hx
        · rcases List.mem_append.1 hx with hx | hx
          · exact hP x hx
          · exact Render.copyRange_all_terminated_of_all hfile _ _ x hx
        · exact writeHunkD_terminated file _ hfile _ hh _ _ _ hw x hx
      · rw [hout]; exact hP)
  rw [he]
  intro x hx
  rcases List.mem_append.1 hx with hx | hx
  · exact h3 x hx
  · exact Render.copyRange_all_terminated_of_all hfile _ _ x hx

/-- … and the bytes of the output are its lines one by one -/
theorem applyPatch_render_terminated {file : List Line} {p0 : Patch} {o : ApplyOpts} {tty : Option (List Bool)}
    {r : ApplyResult} (hfile : ∀ l ∈ file, l.newline ≠ .none)
    (hpatch : ∀ h ∈ p0.hunks, ∀ pl ∈ h.lines, pl.line.newline ≠ .none)
    (hr : applyPatch file p0 o tty = .ok r) (mode : NewlineOutput) :
    render mode r.out = renderLines mode (r.out.map Out.line) :=
  Render.render_of_all_terminated mode (applyPatch_all_terminated hfile hpatch hr)

end PatchModel.ApplyLoop
