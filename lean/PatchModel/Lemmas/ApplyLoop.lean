/-
  Lemmas/ApplyLoop — the hunk loop of `apply_patch` once more, with what `Lemmas/Apply` leaves out:
  the exact effect of one iteration on `offset_old_lines_to_new`, the fact that the loop starts with that
  offset at zero, and an induction principle for invariants that are indexed by the hunk number.
-/
import PatchModel.Lemmas.Apply
namespace PatchModel.ApplyLoop
open PatchModel PatchModel.Apply PatchModel.Splice

/-! ### one iteration, including `offNew` -/

/-- `offset_old_lines_to_new` grows by the net growth of the hunk exactly when the hunk is written -/
theorem finishHunk_offNew_eq {file : List Line} {o : ApplyOpts} {p : Patch} {s s' : AState} {num : Nat} {h : Hunk}
    {loc : Option Location} (hs : finishHunk file o p s num h loc = .ok s') :
    s'.offNew = if (!s.skip && loc.isSome) = true then s.offNew + (h.new.count - h.old.count) else s.offNew := by
  unfold finishHunk at hs
  simp only [] at hs
  split at hs
  · cases hs
  · next s1 hs1 =>
    have h1 : s1.offNew = s.offNew := by
      split at hs1
      · split at hs1
        · cases hs1
        · split at hs1
          · cases hs1
          · cases hs1; rfl
      · split at hs1
        · cases hs1
        · cases hs1; rfl
    cases hs
    rw [← h1]
    by_cases hc : (!s.skip && loc.isSome) = true
    · simp only [hc, if_true]
      (repeat' split) <;> simp
    · simp only [hc]
      (repeat' split) <;> simp

/-- `Apply.finishHunk_ok` together with the new value of `offNew` -/
theorem finishHunk_ok' {file : List Line} {o : ApplyOpts} {p : Patch} {s s' : AState} {num : Nat} {h : Hunk}
    {loc : Option Location} (hs : finishHunk file o p s num h loc = .ok s') :
    (∃ l emitted cur, s.skip = false ∧ loc = some l ∧
        ¬ (l.line.toNat > s.cursor ∧ l.line.toNat > file.length) ∧
        writeHunkD file o.define h.lines l.line.toNat = some (emitted, cur) ∧
        s'.out = s.out ++ copyRange file s.cursor (l.line.toNat - s.cursor) ++ emitted ∧
        s'.cursor = cur ∧ s'.offErr = s.offErr + l.offset ∧
        s'.applied = s.applied ++ [(num, l)] ∧ s'.rejected = s.rejected ∧ s'.skip = false ∧
        s'.offNew = s.offNew + (h.new.count - h.old.count)) ∨
    ((s.skip = true ∨ loc = none) ∧ s'.out = s.out ∧ s'.cursor = s.cursor ∧ s'.offErr = s.offErr ∧
        s'.applied = s.applied ∧ s'.rejected = s.rejected ++ [(num, shiftHunk h s.offNew)] ∧
        s'.skip = s.skip ∧ s'.offNew = s.offNew) := by
  have hoff := finishHunk_offNew_eq hs
  rcases finishHunk_ok hs with ⟨l, emitted, cur, h1, h2, h3, h4, h5, h6, h7, h8, h9, h10⟩ |
      ⟨h1, h2, h3, h4, h5, h6, h7⟩
  · left
    refine ⟨l, emitted, cur, h1, h2, h3, h4, h5, h6, h7, h8, h9, h10, ?_⟩
    rw [hoff, h1, h2]; rfl
  · right
    refine ⟨h1, h2, h3, h4, h5, h6, h7, ?_⟩
    rw [hoff]
    rcases h1 with h1 | h1
    · rw [h1]; rfl
    · rw [h1]; simp

/-! ### the loop starts with `offNew = 0` -/

/-- `Apply.applyPatch_cases` with the additional fact that the loop starts with `offset_old_lines_to_new = 0` -/
theorem applyPatch_cases_off (file : List Line) (p0 : Patch) (o : ApplyOpts) (tty : Option (List Bool)) :
    (applyPatch file p0 o tty = .error .systemError ∧ o.ignoreReversed = false ∧ o.batch = false ∧
        o.force = false ∧ tty = none) ∨
    ∃ p' s1, InitState s1 ∧ s1.offNew = 0 ∧
      (p'.hunks = p0.hunks ∨ p'.hunks = p0.hunks.map reverseHunk ∨
        p'.hunks = (p0.hunks.map reverseHunk).map reverseHunk) ∧
      applyPatch file p0 o tty = runLoop file o p' s1 := by
  have hp : ∃ p : Patch, (if o.reverse then reversePatch p0 else p0) = p ∧
      (p.hunks = p0.hunks ∨ p.hunks = p0.hunks.map reverseHunk) := by
    refine ⟨_, rfl, ?_⟩
    split
    · right; rfl
    · left; rfl
  obtain ⟨p, hpe, hph⟩ := hp
  suffices H : ∀ res, applyPatch file p0 o tty = res →
      (res = .error .systemError ∧ o.ignoreReversed = false ∧ o.batch = false ∧ o.force = false ∧ tty = none) ∨
      ∃ p' s1, InitState s1 ∧ s1.offNew = 0 ∧
        (p'.hunks = p0.hunks ∨ p'.hunks = p0.hunks.map reverseHunk ∨
          p'.hunks = (p0.hunks.map reverseHunk).map reverseHunk) ∧ res = runLoop file o p' s1 from H _ rfl
  intro res hres
  unfold applyPatch at hres
  simp only [hpe] at hres
  have hph' : p.hunks = p0.hunks ∨ p.hunks = p0.hunks.map reverseHunk ∨
          p.hunks = (p0.hunks.map reverseHunk).map reverseHunk := by
    rcases hph with h | h
    · exact Or.inl h
    · exact Or.inr (Or.inl h)
  split at hres
  · next hh =>
    right
    refine ⟨p, { tty := tty }, ⟨rfl, rfl, rfl, rfl, rfl⟩, rfl, hph', ?_⟩
    rw [← hres]; unfold runLoop; rw [hh]; rfl
  · next h0 rest hh =>
    split at hres
    · next hchk =>
      split at hres
      · next e hdec =>
        left
        split at hdec
        · split at hdec
          · next e' he' =>
            cases hdec
            obtain ⟨h1, h2, h3, h4⟩ := checkReversed_error he'
            subst h1
            exact ⟨hres.symm, h2, h3, shouldCheckReversed_force hchk, h4⟩
          · cases hdec
        · cases hdec
      · next rh ms tty' hdec =>
        right
        split at hres
        · have hrh : (reversePatch p).hunks = reverseHunk h0 :: rest.map reverseHunk := by
            show p.hunks.map reverseHunk = _
            rw [hh, List.map_cons]
          refine ⟨reversePatch p, { msgs := ms, tty := tty' },
            ⟨rfl, rfl, rfl, rfl, rfl⟩, rfl, ?_, ?_⟩
          · have hrm : (reversePatch p).hunks = p.hunks.map reverseHunk := rfl
            rcases hph with h | h
            · exact Or.inr (Or.inl (by rw [hrm, h]))
            · exact Or.inr (Or.inr (by rw [hrm, h]))
          · rw [runLoop_cons (h := reverseHunk h0) (rest := rest.map reverseHunk) hrh rfl rfl]
            exact hres.symm
        · refine ⟨p, { skip := true, msgs := ms, tty := tty' }, ⟨rfl, rfl, rfl, rfl, rfl⟩, rfl, hph', ?_⟩
          rw [runLoop_cons hh rfl rfl]
          exact hres.symm
        · refine ⟨p, { msgs := ms, tty := tty' }, ⟨rfl, rfl, rfl, rfl, rfl⟩, rfl, hph', ?_⟩
          rw [runLoop_cons hh rfl rfl]
          exact hres.symm
    · right
      refine ⟨p, { tty := tty }, ⟨rfl, rfl, rfl, rfl, rfl⟩, rfl, hph', ?_⟩
      rw [runLoop_cons hh rfl rfl]
      exact hres.symm

/-- what a successful `applyPatch` returned: one run of the loop over the hunks of `r.patch`, from an initial
    state with `offNew = 0` -/
theorem applyPatch_ok_cases_off {file : List Line} {p0 : Patch} {o : ApplyOpts} {tty : Option (List Bool)}
    {r : ApplyResult} (hr : applyPatch file p0 o tty = .ok r) :
    ∃ p' s1 s3, InitState s1 ∧ s1.offNew = 0 ∧
      (p'.hunks = p0.hunks ∨ p'.hunks = p0.hunks.map reverseHunk ∨
        p'.hunks = (p0.hunks.map reverseHunk).map reverseHunk) ∧
      applyRest file o p' s1 0 p'.hunks = .ok s3 ∧ r = finishResult file p' s3 := by
  rcases applyPatch_cases_off file p0 o tty with ⟨he, _⟩ | ⟨p', s1, hi, h0, hp, he⟩
  · rw [he] at hr; cases hr
  · rw [he] at hr
    unfold runLoop at hr
    split at hr
    · cases hr
    · next s3 h3 => cases hr; exact ⟨p', s1, s3, hi, h0, hp, h3, rfl⟩

/-! ### induction over the loop for invariants indexed by the hunk number -/

theorem getElem?_of_drop_eq_cons {α} {all : List α} {num : Nat} {h : α} {rest : List α}
    (hdrop : all.drop num = h :: rest) : all[num]? = some h ∧ all.drop (num + 1) = rest := by
  constructor
  · have := List.getElem?_drop (xs := all) (i := num) (j := 0)
    rw [hdrop] at this
    simpa using this.symm
  · rw [← List.drop_drop, hdrop]; rfl

/-- an invariant `P num s` ("`s` is the state before hunk number `num`") that every iteration preserves holds at
    the end of the loop; the iteration is given with the location that `applyRest` computes -/
theorem applyRest_induct {file : List Line} {o : ApplyOpts} {p : Patch} {all : List Hunk} (P : Nat → AState → Prop)
    (step : ∀ (s s' : AState) (num : Nat) (h : Hunk), all[num]? = some h → P num s →
      finishHunk file o p s num h (locateHunk file h o.ignoreWhitespace s.offErr o.maxFuzz s.cursor) = .ok s' →
      P (num + 1) s') :
    ∀ (hs : List Hunk) (s : AState) (num : Nat) (s' : AState), applyRest file o p s num hs = .ok s' →
      all.drop num = hs → P num s → P (num + hs.length) s' := by
  intro hs
  induction hs with
  | nil => intro s num s' hr _ hinv; rw [applyRest] at hr; cases hr; exact hinv
  | cons h rest ih =>
    intro s num s' hr hdrop hinv
    rw [applyRest] at hr
    split at hr
    · cases hr
    · next s1 hs1 =>
      obtain ⟨hnum, hdrop'⟩ := getElem?_of_drop_eq_cons hdrop
      have := ih s1 (num + 1) s' hr hdrop' (step s s1 num h hnum hinv hs1)
      rw [List.length_cons, ← Nat.add_assoc, Nat.add_right_comm]
      exact this

/-- the same for a whole run of `applyPatch`: an invariant that holds for every initial state with `offNew = 0`
    and is preserved by the iterations over the hunks of the patch as applied holds for the final state -/
theorem applyPatch_induct {file : List Line} {p0 : Patch} {o : ApplyOpts} {tty : Option (List Bool)}
    {r : ApplyResult} (hr : applyPatch file p0 o tty = .ok r) (P : Nat → AState → Prop)
    (init : ∀ s1, InitState s1 → s1.offNew = 0 → P 0 s1)
    (step : ∀ (s s' : AState) (num : Nat) (h : Hunk), r.patch.hunks[num]? = some h → P num s →
      finishHunk file o r.patch s num h (locateHunk file h o.ignoreWhitespace s.offErr o.maxFuzz s.cursor) = .ok s' →
      P (num + 1) s') :
    ∃ s3, P r.patch.hunks.length s3 ∧ r = finishResult file r.patch s3 ∧
      (r.patch.hunks = p0.hunks ∨ r.patch.hunks = p0.hunks.map reverseHunk ∨
        r.patch.hunks = (p0.hunks.map reverseHunk).map reverseHunk) := by
  obtain ⟨p', s1, s3, hi, h0, hp, h3, rfl⟩ := applyPatch_ok_cases_off hr
  refine ⟨s3, ?_, rfl, hp⟩
  have := applyRest_induct (all := p'.hunks) P step p'.hunks s1 0 s3 h3 rfl (init s1 hi h0)
  rw [Nat.zero_add] at this
  exact this

end PatchModel.ApplyLoop
