/-
  Lemmas/DM — a small Hoare-style toolkit for the driver monad `DM = ExceptT Exn (StateM DState)` (Model/Driver).

  * `run m s`            result and final state of a program (`ExceptT.run m s`); `run_pure`, `run_bind`, `run_get`, …
  * `Tr P m Q`           from a state with `P`, `m` ends — normally or by an exception — in a state with `Q`
  * `Inv I m := Tr I m I`
  * rules                `tr_bind tr_get_bind tr_set tr_modify tr_pure tr_throw tr_weaken`,
                         `inv_pure inv_throw inv_get inv_liftE inv_modify inv_bind inv_get_bind inv_ite inv_forIn inv_and
                          inv_exists inv_jp1 inv_switch`
  * primitives           `inv_doOp`, `inv_tryOp` (side conditions `TickOk I`, `OpOk I op`)
  * `Framed I`           `I` only reads fs/trace/cwd/sections/dWrites/dRemovals/faultAt: every other `modify` is free
  * tactic `dm_walk [r₁, …]`  walks through an unfolded `do` block (binds, ifs, matches, `for` loops, join points),
                         trying the given rules (terms for `refine`) and the hypotheses first; side goals that are not
                         `Tr`/`Inv` goals are left to the caller
  * generic results      `inv_emit … inv_parseBodyM` (no file system access), `PathOk`/`RenameOk`/`SecOk`,
                         `inv_opCreat … inv_makeWritable … inv_refuseToPatch`, `inv_processSection`, `inv_sectionLoop`, `tr_finalizeDeferred`,
                         `tr_processPatchM`, `runPatch_snd`, `runPatch_of_tr`
-/
import Lean.Elab.Tactic
import PatchModel.Model.Driver
namespace PatchModel.DM
open PatchModel

/-- final state and result of running a driver program -/
abbrev run {α} (m : DM α) (s : DState) : Except Exn α × DState := ExceptT.run m s

theorem run_pure {α} (a : α) (s : DState) : run (pure a : DM α) s = (.ok a, s) := rfl
theorem run_throw {α} (e : Exn) (s : DState) : run (throw e : DM α) s = (.error e, s) := rfl
theorem run_get (s : DState) : run (get : DM DState) s = (.ok s, s) := rfl
theorem run_set (s' s : DState) : run (set s' : DM PUnit) s = (.ok ⟨⟩, s') := rfl
theorem run_modify (f : DState → DState) (s : DState) : run (modify f : DM PUnit) s = (.ok ⟨⟩, f s) := rfl
theorem run_bind {α β} (m : DM α) (f : α → DM β) (s : DState) :
    run (m >>= f) s = match run m s with
      | (.ok a, s') => run (f a) s'
      | (.error e, s') => (.error e, s') := by
  show (ExceptT.run (m >>= f)) s = _
  simp only [run, ExceptT.run_bind]
  simp only [bind, StateT.bind]
  rcases h : ExceptT.run m s with ⟨r, s'⟩
  cases r <;> rfl
theorem run_liftE {α} (e : Except Exn α) (s : DState) : run (liftE e) s = (e, s) := by
  cases e <;> rfl

/-- `Tr P m Q`: from a state satisfying `P`, the program `m` ends (normally or by an exception) in a state satisfying `Q`.
    (A structure, so that `apply` never unfolds it.) -/
structure Tr {α} (P : DState → Prop) (m : DM α) (Q : DState → Prop) : Prop where
  out : ∀ s, P s → Q (run m s).2

/-- `Inv I m`: `I` is preserved by `m`, also when `m` aborts -/
abbrev Inv {α} (I : DState → Prop) (m : DM α) : Prop := Tr I m I

/-- side condition of `modify f` -/
structure Stable (I : DState → Prop) (f : DState → DState) : Prop where
  out : ∀ s, I s → I (f s)

theorem tr_weaken {α} {P P' Q Q' : DState → Prop} {m : DM α} (h : Tr P' m Q') (hp : ∀ s, P s → P' s) (hq : ∀ s, Q' s → Q s) :
    Tr P m Q := ⟨fun s hs => hq _ (h.out s (hp s hs))⟩

theorem tr_pure {α} {P Q : DState → Prop} (a : α) (h : ∀ s, P s → Q s) : Tr P (pure a : DM α) Q := ⟨fun s hs => h s hs⟩
theorem tr_throw {α} {P Q : DState → Prop} (e : Exn) (h : ∀ s, P s → Q s) : Tr P (throw e : DM α) Q := ⟨fun s hs => h s hs⟩
theorem tr_set {P Q : DState → Prop} (s' : DState) (h : ∀ s, P s → Q s') : Tr P (set s' : DM PUnit) Q := ⟨fun s hs => h s hs⟩
theorem tr_modify {P Q : DState → Prop} (f : DState → DState) (h : ∀ s, P s → Q (f s)) : Tr P (modify f : DM PUnit) Q :=
  ⟨fun s hs => h s hs⟩

/-- sequencing: the intermediate assertion `R` must imply `Q` for the case that `m` aborts -/
theorem tr_bind {α β} {P R Q : DState → Prop} {m : DM α} {f : α → DM β}
    (hm : Tr P m R) (hr : ∀ s, R s → Q s) (hf : ∀ a, Tr R (f a) Q) : Tr P (m >>= f) Q := by
  constructor
  intro s hs
  have h1 := hm.out s hs
  rw [run_bind]
  rcases h : run m s with ⟨r, s'⟩
  rw [h] at h1
  cases r with
  | ok a => exact (hf a).out s' h1
  | error e => exact hr s' h1

/-- `let s ← get; f s`: `f s` runs from exactly the state `s` -/
theorem tr_get_bind {β} {P Q : DState → Prop} {f : DState → DM β}
    (h : ∀ s0, P s0 → Tr (fun s => s = s0) (f s0) Q) : Tr P (get >>= f) Q := by
  constructor
  intro s hs
  rw [run_bind, run_get]
  exact (h s hs).out s rfl

theorem inv_pure {α} {I : DState → Prop} (a : α) : Inv I (pure a : DM α) := ⟨fun _ hs => hs⟩
theorem inv_throw {α} {I : DState → Prop} (e : Exn) : Inv I (throw e : DM α) := ⟨fun _ hs => hs⟩
theorem inv_get {I : DState → Prop} : Inv I (get : DM DState) := ⟨fun _ hs => hs⟩
theorem inv_liftE {α} {I : DState → Prop} (e : Except Exn α) : Inv I (liftE e) := by
  constructor; intro s hs; rw [run_liftE]; exact hs
theorem inv_modify {I : DState → Prop} {f : DState → DState} (h : Stable I f) : Inv I (modify f : DM PUnit) :=
  ⟨fun s hs => h.out s hs⟩
theorem inv_bind {α β} {I : DState → Prop} {m : DM α} {f : α → DM β}
    (hm : Inv I m) (hf : ∀ a, Inv I (f a)) : Inv I (m >>= f) := tr_bind hm (fun _ h => h) hf
/-- `let s ← get; f s`: the state read satisfies the invariant -/
theorem inv_get_bind {β} {I : DState → Prop} {f : DState → DM β}
    (h : ∀ s, I s → Inv I (f s)) : Inv I (get >>= f) := by
  constructor
  intro s hs
  rw [run_bind, run_get]
  exact (h s hs).out s hs
theorem inv_ite {α} {I : DState → Prop} {c : Prop} [Decidable c] {a b : DM α}
    (ha : c → Inv I a) (hb : ¬ c → Inv I b) : Inv I (if c then a else b) := by
  split
  · exact ha ‹_›
  · exact hb ‹_›
theorem inv_forIn {α β} {I : DState → Prop} (l : List α) (init : β) (f : α → β → DM (ForInStep β))
    (h : ∀ a, a ∈ l → ∀ b, Inv I (f a b)) : Inv I (forIn l init f) := by
  induction l generalizing init with
  | nil => exact inv_pure _
  | cons a l ih =>
    rw [List.forIn_cons]
    refine inv_bind (h a (List.mem_cons_self) init) ?_
    intro r
    cases r with
    | done b => exact inv_pure _
    | yield b => exact ih b (fun a ha => h a (List.mem_cons_of_mem _ ha))
theorem inv_and {α} {I J : DState → Prop} {m : DM α} (hi : Inv I m) (hj : Inv J m) : Inv (fun s => I s ∧ J s) m :=
  ⟨fun s hs => ⟨hi.out s hs.1, hj.out s hs.2⟩⟩
theorem inv_exists {α ι} {I : ι → DState → Prop} {m : DM α} (h : ∀ i, Inv (I i) m) : Inv (fun s => ∃ i, I i s) m :=
  ⟨fun s ⟨i, hs⟩ => ⟨i, (h i).out s hs⟩⟩

/-- join points of `do` blocks: prove the join point once, then use it as a hypothesis -/
theorem inv_jp1 {α β γ} {I : DState → Prop} {jp : β → DM γ} {m : DM α}
    (hv : ∀ x, Inv I (jp x)) (h : (∀ x, Inv I (jp x)) → Inv I m) : Inv I m := h hv

/-! ### the two primitives -/

/-- an operation that succeeds keeps the invariant -/
structure OpOk (I : DState → Prop) (op : FsOp) : Prop where
  out : ∀ s fs', I s → s.fs.apply op = .ok fs' →
    I { s with fs := fs', trace := s.trace ++ [op], opCount := s.opCount + 1 }
/-- an operation that fails (or is made to fail) keeps the invariant -/
structure TickOk (I : DState → Prop) : Prop where
  out : ∀ s, I s → I { s with opCount := s.opCount + 1 }

theorem inv_doOp {I : DState → Prop} {op : FsOp} (ht : TickOk I) (ho : OpOk I op) : Inv I (doOp op) := by
  constructor
  intro s hs
  unfold PatchModel.doOp
  rw [run_bind, run_get]
  dsimp only
  split
  · exact ht.out s hs
  · split
    · next fs' h => exact ho.out s fs' hs h
    · exact ht.out s hs

theorem inv_tryOp {I : DState → Prop} {op : FsOp} {tol : Errno → Bool} (ht : TickOk I) (ho : OpOk I op) :
    Inv I (tryOp op tol) := by
  constructor
  intro s hs
  unfold PatchModel.tryOp
  rw [run_bind, run_get]
  dsimp only
  split
  · exact ht.out s hs
  · split
    · next fs' h => exact ho.out s fs' hs h
    · next e h =>
      rw [run_bind, run_set]
      dsimp only
      split
      · exact ht.out s hs
      · exact ht.out s hs

/-! ### invariants that only look at the file system side of the state -/

/-- `I` depends only on `fs`, `trace`, `cwd`, `sections`, `dWrites`, `dRemovals`, `faultAt` -/
structure Framed (I : DState → Prop) : Prop where
  frame : ∀ s s', I s → s'.fs = s.fs → s'.trace = s.trace → s'.cwd = s.cwd → s'.sections = s.sections →
    s'.dWrites = s.dWrites → s'.dRemovals = s.dRemovals → s'.faultAt = s.faultAt → I s'

theorem Framed.stable {I : DState → Prop} (hF : Framed I) {f : DState → DState}
    (h : ∀ s, (f s).fs = s.fs ∧ (f s).trace = s.trace ∧ (f s).cwd = s.cwd ∧ (f s).sections = s.sections ∧
      (f s).dWrites = s.dWrites ∧ (f s).dRemovals = s.dRemovals ∧ (f s).faultAt = s.faultAt) : Stable I f :=
  ⟨fun s hs => hF.frame s (f s) hs (h s).1 (h s).2.1 (h s).2.2.1 (h s).2.2.2.1 (h s).2.2.2.2.1 (h s).2.2.2.2.2.1 (h s).2.2.2.2.2.2⟩

theorem Framed.tick {I : DState → Prop} (hF : Framed I) : TickOk I :=
  ⟨fun s hs => hF.frame s _ hs rfl rfl rfl rfl rfl rfl rfl⟩

open Lean Elab Tactic Meta in
/-- if the program of the goal `Tr P (have x := v; b) Q` starts with a `have`/`let`, move it into the context as `x := v` -/
elab "dm_intro_let " x:ident : tactic => do
  let g ← getMainGoal
  let t := (← instantiateMVars (← g.getType)).consumeMData
  let args := t.getAppArgs
  unless (t.isAppOf ``PatchModel.DM.Tr || t.isAppOf ``PatchModel.DM.Inv) && args.size ≥ 3 do
    throwError "dm_intro_let: not a Tr/Inv goal"
  match args[2]!.consumeMData with
  | .letE n ty v b _ =>
    let t' := Expr.letE n ty v (mkAppN t.getAppFn (args.set! 2 b)) false
    let g' ← g.replaceTargetDefEq t'
    let (_, g'') ← g'.intro x.getId
    replaceMainGoal [g'']
  | _ => throwError "dm_intro_let: the program does not start with a let"

/-- one step of the walk through a `do` block (see `dm_walk`) -/
syntax "dm_step" : tactic
macro_rules
  | `(tactic| dm_step) => `(tactic| first
      | with_reducible apply_assumption -exfalso -symm only [*]
      | (dm_intro_let jp
         first
           | (refine inv_jp1 (jp := jp) (fun _ => ?_) (fun _ => ?_)
              unfold jp
              try clear jp
              rotate_left
              clear_value jp
              rotate_right)
           | (unfold jp; try clear jp)
           | clear jp)
      | with_reducible exact inv_pure _
      | with_reducible exact inv_throw _
      | with_reducible exact inv_get
      | with_reducible exact inv_liftE _
      | with_reducible refine inv_get_bind (fun _ _ => ?_)
      | with_reducible refine inv_bind ?_ (fun _ => ?_)
      | with_reducible refine inv_ite (fun _ => ?_) (fun _ => ?_)
      | with_reducible refine inv_forIn _ _ _ (fun _ _ _ => ?_)
      | (with_reducible refine inv_modify (Framed.stable ?_ (fun _ => ⟨rfl, rfl, rfl, rfl, rfl, rfl, rfl⟩)); apply_assumption -exfalso -symm only [*])
      | with_reducible refine inv_modify ?_
      | split)

/-- walk through a `do` block proving `Inv I _`: user rules (terms for `refine`) first, then the structural rules -/
syntax "dm_walk" (" [" term,* "]")? : tactic
macro_rules
  | `(tactic| dm_walk) => `(tactic| repeat' dm_step)
  | `(tactic| dm_walk [$rs,*]) => `(tactic| repeat' (first $[| with_reducible refine $rs]* | dm_step))

/-! ### programs that do not touch the file system -/

section generic
variable {I : DState → Prop}

theorem inv_emit (hF : Framed I) (e : DEv) : Inv I (emit e) := by unfold emit; dm_walk
theorem inv_failNow (hF : Framed I) : Inv I failNow := by unfold failNow; dm_walk
theorem inv_fsExists (p : Bytes) : Inv I (fsExists p) := by unfold fsExists; dm_walk
theorem inv_fsIsRegular (p : Bytes) : Inv I (fsIsRegular p) := by unfold fsIsRegular; dm_walk
theorem inv_fsIsSymlink (p : Bytes) : Inv I (fsIsSymlink p) := by unfold fsIsSymlink; dm_walk
theorem inv_fsGetPerms (p : Bytes) : Inv I (fsGetPerms p) := by unfold fsGetPerms; dm_walk
theorem inv_readTty (hF : Framed I) : Inv I readTty := by
  constructor
  intro s hs
  unfold readTty
  rw [run_bind, run_get]
  dsimp only
  split
  · exact hs
  · exact hs
  · rw [run_bind, run_set]
    exact hF.frame s _ hs rfl rfl rfl rfl rfl rfl rfl
theorem inv_checkWithUser (hF : Framed I) (q : String) (d : Bool) : Inv I (checkWithUser q d) := by
  unfold checkWithUser; dm_walk [inv_emit hF _, inv_readTty hF]
theorem inv_promptForFilepath (hF : Framed I) : ∀ n, Inv I (promptForFilepath n)
  | 0 => by unfold promptForFilepath; dm_walk
  | n + 1 => by
    have ih := inv_promptForFilepath hF n
    unfold promptForFilepath
    dm_walk [inv_emit hF _, inv_readTty hF, inv_checkWithUser hF _ _, inv_fsIsRegular _]
theorem inv_guessFilepath (p : Patch) (r : Bool) : Inv I (guessFilepath p r) := by
  unfold guessFilepath; dm_walk [inv_fsExists _]
theorem inv_parseBodyM (hF : Framed I) (b : Bool) (p : Patch) : Inv I (parseBodyM b p) := by
  unfold parseBodyM; dm_walk
end generic

/-! ### programs that operate on given paths -/

/-- what an invariant must allow for the relative path `p` to be written, removed, chmod'ed, … together with the
    directories leading to it -/
structure PathOk (I : DState → Prop) (p : Bytes) : Prop where
  creat : ∀ s, I s → OpOk I (.creat (absPath s p))
  write : ∀ s b, I s → OpOk I (.write (absPath s p) b)
  unlink : ∀ s, I s → OpOk I (.unlink (absPath s p))
  chmod : ∀ s m, I s → OpOk I (.chmod (absPath s p) m)
  symlink : ∀ s t, I s → OpOk I (.symlink t (absPath s p))
  mkdir : ∀ s d, I s → d ∈ dirPrefixes p → OpOk I (.mkdir (absPath s d))
  rmdir : ∀ s d, I s → d ∈ dirPrefixes p → OpOk I (.rmdir (absPath s d))

structure RenameOk (I : DState → Prop) (a b : Bytes) : Prop where
  out : ∀ s, I s → OpOk I (.rename (absPath s a) (absPath s b))

section generic
variable {I : DState → Prop}

theorem inv_createTemp (ht : TickOk I) (h1 : OpOk I .tmpCreate) (h2 : OpOk I .tmpUnlink) : Inv I createTemp := by
  unfold createTemp; dm_walk [inv_doOp ht ?_]
theorem inv_opCreat (hF : Framed I) {p : Bytes} (h : PathOk I p) : Inv I (opCreat p) := by
  unfold opCreat; dm_walk [inv_doOp hF.tick (h.creat _ ?_)]
theorem inv_opWrite (hF : Framed I) {p : Bytes} (h : PathOk I p) (b : Bytes) : Inv I (opWrite p b) := by
  unfold opWrite; dm_walk [inv_doOp hF.tick (h.write _ _ ?_)]
theorem inv_opChmod (hF : Framed I) {p : Bytes} (h : PathOk I p) (m : Nat) : Inv I (opChmod p m) := by
  unfold opChmod
  refine inv_get_bind fun s hs => ?_
  refine inv_ite (fun _ => ?_) (fun _ => inv_doOp hF.tick (h.chmod _ _ hs))
  refine inv_bind ⟨fun _ _ => hF.tick.out s hs⟩ fun _ => ?_
  exact inv_ite (fun _ => inv_pure _) (fun _ => inv_throw _)
theorem inv_opRename (hF : Framed I) {a b : Bytes} (h : RenameOk I a b) : Inv I (opRename a b) := by
  unfold opRename; dm_walk [inv_doOp hF.tick (h.out _ ?_)]
theorem inv_writeFile (hF : Framed I) {p : Bytes} (h : PathOk I p) (b : Bytes) : Inv I (writeFile p b) := by
  unfold writeFile; dm_walk [inv_opCreat hF h, inv_opWrite hF h _]
theorem inv_ensureParentDirs (hF : Framed I) {p : Bytes} (h : PathOk I p) : Inv I (ensureParentDirs p) := by
  unfold ensureParentDirs; dm_walk [inv_tryOp hF.tick (h.mkdir _ _ ?_ ?_)]
theorem inv_removeFileAndEmptyParents (hF : Framed I) {p : Bytes} (h : PathOk I p) : Inv I (removeFileAndEmptyParents p) := by
  unfold removeFileAndEmptyParents
  dm_walk [inv_tryOp hF.tick (h.rmdir _ _ ?_ ?_), inv_doOp hF.tick (h.unlink _ ?_)]
  simp_all
theorem inv_permissionCallback (hF : Framed I) {p : Bytes} (h : PathOk I p) (m : Nat) (perm : PermResult) :
    Inv I (permissionCallback m perm p) := by
  unfold permissionCallback; dm_walk [inv_opChmod hF h _]
theorem inv_makeWayFor (hF : Framed I) {p : Bytes} (h : PathOk I p) : Inv I (makeWayFor p) := by
  unfold makeWayFor; dm_walk [inv_fsIsSymlink _, inv_fsIsRegular _, inv_doOp hF.tick (h.unlink _ ?_)]
theorem inv_makeBackupFor (hF : Framed I) {o : Options} {p : Bytes} (h : PathOk I (backupName o p))
    (hr : RenameOk I p (backupName o p)) : Inv I (makeBackupFor o p) := by
  unfold makeBackupFor
  dsimp only
  refine inv_bind (inv_fsExists _) fun a => inv_bind (inv_fsIsRegular _) fun b => ?_
  split
  · exact inv_pure _
  constructor
  intro s hs
  rw [run_bind, run_get]
  dsimp only
  split
  · rw [run_bind, run_set]
    dsimp only
    have : Inv I (do ensureParentDirs (backupName o p)
                     if (← fsExists p) then opRename p (backupName o p)
                     else do makeWayFor (backupName o p); opCreat (backupName o p)) := by
      dm_walk [inv_ensureParentDirs hF h, inv_fsExists _, inv_opRename hF hr, inv_opCreat hF h, inv_makeWayFor hF h]
    exact this.out _ (hF.frame s _ hs rfl rfl rfl rfl rfl rfl rfl)
  · exact hs
theorem inv_makeWritable (hF : Framed I) {p : Bytes} (h : PathOk I p) (perm : PermResult) : Inv I (makeWritable perm p) := by
  unfold makeWritable; dm_walk [inv_opChmod hF h _, inv_fsExists _]
theorem inv_writePatchedResult (hF : Framed I) {o : Options} {out : Bytes} (h : PathOk I out)
    (hb : PathOk I (backupName o out)) (hr : RenameOk I out (backupName o out))
    (hw : ∀ w : DeferredWrite, w.dest = out → Stable I (fun s => { s with dWrites := s.dWrites ++ [w] }))
    (p : Patch) (perm : PermResult) (sb : Bool) (content : Bytes) : Inv I (writePatchedResult o p out perm sb content) := by
  unfold writePatchedResult
  dm_walk [inv_ensureParentDirs hF h, inv_writeFile hF h _, inv_permissionCallback hF h _ _, inv_makeWritable hF h _,
    inv_makeBackupFor hF hb hr,
    inv_doOp hF.tick (h.symlink _ _ ?_), inv_modify (hw _ rfl)]

/-- `fix_permissions_if_needed` only reads the mode and reports: no path condition is needed any more -/
theorem inv_fixPermissionsIfNeeded (hF : Framed I) (o : Options) (out : Bytes) :
    Inv I (fixPermissionsIfNeeded o out) := by
  unfold fixPermissionsIfNeeded
  dm_walk [inv_fsGetPerms _, inv_emit hF _]

/-- `set` of a state that differs from a state with the invariant only in fields the invariant does not read -/
theorem inv_set_framed (hF : Framed I) {s s' : DState} (hs : I s) (h1 : s'.fs = s.fs) (h2 : s'.trace = s.trace)
    (h3 : s'.cwd = s.cwd) (h4 : s'.sections = s.sections) (h5 : s'.dWrites = s.dWrites) (h6 : s'.dRemovals = s.dRemovals)
    (h7 : s'.faultAt = s.faultAt) : Inv I (set s' : DM PUnit) :=
  ⟨fun _ _ => hF.frame s s' hs h1 h2 h3 h4 h5 h6 h7⟩

theorem inv_openRejects (hF : Framed I) {o : Options} {rej : Bytes} (h : PathOk I rej) : Inv I (openRejects o rej) := by
  unfold openRejects
  dm_walk [inv_fsExists _, inv_opCreat hF h, inv_makeWayFor hF h, inv_set_framed hF ?_ rfl rfl rfl rfl rfl rfl rfl]
  next s hs _ => exact hF.frame s _ hs rfl rfl rfl rfl rfl rfl rfl
theorem inv_writeRejects (hF : Framed I) {o : Options} {rej : Bytes} (h : PathOk I rej) (b : Bytes) : Inv I (writeRejects o rej b) := by
  unfold writeRejects; dm_walk [inv_openRejects hF h, inv_opWrite hF h _]

theorem inv_refuseToPatch (hF : Framed I) {o : Options} {out : Bytes} (h : o.dryRun = false → PathOk I (rejectPath o out))
    (p : Patch) : Inv I (refuseToPatch o out p) := by
  unfold refuseToPatch
  dm_walk [inv_emit hF _, inv_ensureParentDirs hF (h ?_), inv_openRejects hF (h ?_), inv_opWrite hF (h ?_) _]
  all_goals simp_all
end generic

/-! ### the section loop -/

/-- `modify f` moves from the invariant `I` to the stronger invariant `I'`, which then holds to the end of the block -/
theorem inv_switch {β} {I I' : DState → Prop} {f : DState → DState} {g : PUnit → DM β}
    (hsw : ∀ s, I s → I' (f s)) (hback : ∀ s, I' s → I s) (h : ∀ u, Inv I' (g u)) : Inv I (modify f >>= g) :=
  tr_bind (tr_modify f hsw) hback (fun u => tr_weaken (h u) (fun _ h => h) hback)

/-- what an invariant must allow for a section with file to patch `ftp` and output file `out` (when not --dry-run) -/
structure SecOk (I : DState → Prop) (o : Options) (ftp out : Bytes) : Prop where
  pFtp : PathOk I ftp
  pOut : PathOk I out
  pRej : PathOk I (rejectPath o out)
  pBak : PathOk I (backupName o out)
  ren : RenameOk I out (backupName o out)
  defW : ∀ w : DeferredWrite, w.dest = out → Stable I (fun s => { s with dWrites := s.dWrites ++ [w] })
  defR : ∀ b : Bool, Stable I (fun s => { s with dRemovals := s.dRemovals ++ [(ftp, b)] })

theorem inv_processSection {I : DState → Prop} {I' : Bytes → Bytes → DState → Prop} {o : Options} (format : Format)
    (hF : Framed I) (hF' : ∀ a b, Framed (I' a b)) (hct : ∀ a b, Inv (I' a b) createTemp)
    (hsw : ∀ a b s, I s → I' a b { s with sections := s.sections ++ [(a, b)] })
    (hback : ∀ a b s, I' a b s → I s)
    (hlive : o.dryRun = false → ∀ a b, SecOk (I' a b) o a b) : Inv I (processSection o format) := by
  unfold processSection
  dm_walk [inv_switch (I' := I' _ _) (hsw _ _) (hback _ _) (fun _ => ?_),
    hct _ _,
    inv_guessFilepath _ _, inv_promptForFilepath hF _, inv_parseBodyM hF _ _, inv_emit hF _, inv_failNow hF,
    inv_fsExists _, inv_fsIsRegular _, inv_fsIsSymlink _, inv_fsGetPerms _,
    inv_parseBodyM (hF' _ _) _ _, inv_emit (hF' _ _) _, inv_failNow (hF' _ _), inv_checkWithUser (hF' _ _) _ _,
    inv_refuseToPatch (hF' _ _) (fun h => (hlive h _ _).pRej) _,
    inv_fixPermissionsIfNeeded (hF' _ _) _ _,
    inv_ensureParentDirs (hF' _ _) (hlive ?_ _ _).pRej,
    inv_ensureParentDirs (hF' _ _) (hlive ?_ _ _).pOut,
    inv_writeRejects (hF' _ _) (hlive ?_ _ _).pRej _,
    inv_makeBackupFor (hF' _ _) (hlive ?_ _ _).pBak (hlive ?_ _ _).ren,
    inv_removeFileAndEmptyParents (hF' _ _) (hlive ?_ _ _).pOut,
    inv_removeFileAndEmptyParents (hF' _ _) (hlive ?_ _ _).pFtp,
    inv_writePatchedResult (hF' _ _) (hlive ?_ _ _).pOut (hlive ?_ _ _).pBak (hlive ?_ _ _).ren (hlive ?_ _ _).defW _ _ _ _,
    inv_modify ((hlive ?_ _ _).defR _)]
  all_goals simp_all

theorem inv_sectionLoop {I : DState → Prop} {o : Options} {format : Format} (h : Inv I (processSection o format)) :
    ∀ fuel, Inv I (sectionLoop o format fuel)
  | 0 => by unfold sectionLoop; dm_walk
  | fuel + 1 => by
    have ih := inv_sectionLoop h fuel
    unfold sectionLoop
    dm_walk

/-- `finalizeDeferred` reads the deferred lists once, at its start -/
theorem tr_finalizeDeferred {P Q : DState → Prop} {o : Options}
    (h : ∀ s0, P s0 → ∃ I : DState → Prop, Framed I ∧ I s0 ∧
      (∀ w ∈ s0.dWrites, PathOk I w.dest ∧ PathOk I (backupName o w.dest) ∧ RenameOk I w.dest (backupName o w.dest)) ∧
      (∀ p ∈ s0.dRemovals, PathOk I p.1 ∧
        (p.2 = true → PathOk I (backupName o p.1) ∧ RenameOk I p.1 (backupName o p.1))) ∧ ∀ s, I s → Q s) :
    Tr P (finalizeDeferred o) Q := by
  unfold finalizeDeferred
  refine tr_get_bind (fun s0 hs0 => ?_)
  obtain ⟨I, hF, hI, hw, hr, hQ⟩ := h s0 hs0
  refine tr_weaken (P' := I) (Q' := I) ?_ (fun s hs => hs ▸ hI) hQ
  dm_walk [inv_ensureParentDirs hF (hw _ ?_).1, inv_writeFile hF (hw _ ?_).1 _, inv_permissionCallback hF (hw _ ?_).1 _ _,
    inv_makeWritable hF (hw _ ?_).1 _, inv_makeBackupFor hF (hw _ ?_).2.1 (hw _ ?_).2.2,
    inv_removeFileAndEmptyParents hF (hr _ ?_).1, inv_makeBackupFor hF ((hr _ ?_).2 ?_).1 ((hr _ ?_).2 ?_).2,
    inv_fsExists _]

/-- `process_patch`: `P` at the start (also after `-d`), `I` from then on -/
theorem tr_processPatchM {P I : DState → Prop} {o : Options} (hF : Framed I)
    (h0 : ∀ s, P s → I s) (hcwd : ∀ s, P s → I { s with cwd := o.directory })
    (hct : Inv I createTemp)
    (hsec : ∀ format, Inv I (processSection o format)) (hfin : Inv I (finalizeDeferred o)) :
    Tr P (processPatchM o) I := by
  unfold processPatchM
  dm_intro_let jp
  have hjp : ∀ x, Inv I (jp x) := by
    intro x
    unfold jp
    dm_walk [inv_sectionLoop (hsec _) _]
  clear_value jp
  split
  · refine tr_get_bind (fun s0 hs0 => ?_)
    split
    · exact tr_bind (R := I) (tr_set _ (fun s hs => hs ▸ hcwd s0 hs0)) (fun _ h => h) (fun _ => hjp _)
    · exact tr_bind (R := I) (tr_throw _ (fun s hs => hs ▸ h0 s0 hs0)) (fun _ h => h) (fun _ => hjp _)
  · exact tr_weaken (hjp _) h0 (fun _ h => h)
/-! ### `main` -/

theorem runPatch_snd (o : Options) (s0 : DState) :
    (runPatch o s0).2 = if (o.showHelp || o.showVersion) = true then s0 else (run (processPatchM o) s0).2 := by
  unfold runPatch
  split
  · rfl
  · show (match run (processPatchM o) s0 with | (.ok (), s) => _ | (.error _, s) => _ : Nat × DState).2 = _
    rcases run (processPatchM o) s0 with ⟨r, s⟩
    cases r <;> rfl

/-- a property established by `process_patch` holds of the final state of `main` -/
theorem runPatch_of_tr {P Q : DState → Prop} {o : Options} {s0 : DState}
    (h : Tr P (processPatchM o) Q) (hP : P s0) (hQ : Q s0) : Q (runPatch o s0).2 := by
  rw [runPatch_snd]
  split
  · exact hQ
  · exact h.out s0 hP

end PatchModel.DM
