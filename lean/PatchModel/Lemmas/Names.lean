/-
  Lemmas/Names — helper lemmas for C12: `stripLoop`/`stripPath` against `stripSpec`, `basename`,
  `stripSpec` on slash-joined components, the C-quoting round trip through `parseQuotedGo`,
  and the unquoted/quoted branches of `parseFileLine`.
-/
import PatchModel.Spec.Names
import PatchModel.Lemmas.Cpp
namespace PatchModel.Names
open PatchModel

/-! ### generic list facts -/

theorem dropWhile_head_neg {α} (p : α → Bool) (l : List α) (a : α) (t : List α)
    (h : l.dropWhile p = a :: t) : p a = false := by
  induction l with
  | nil => simp at h
  | cons x l ih =>
    simp only [List.dropWhile] at h
    split at h
    · exact ih h
    · rename_i hx
      simp only [List.cons.injEq] at h
      rw [← h.1]; simpa using hx

theorem takeWhile_append_of_neg {α} (p : α → Bool) (l : List α) (a : α) (t : List α)
    (h : p a = false) : (l ++ a :: t).takeWhile p = l.takeWhile p := by
  induction l with
  | nil => simp [List.takeWhile, h]
  | cons x l ih =>
    simp only [List.cons_append, List.takeWhile]
    split
    · rw [ih]
    · rfl

theorem dropWhile_append_of_all {α} (p : α → Bool) (l : List α) (t : List α)
    (h : ∀ x ∈ l, p x = true) : (l ++ t).dropWhile p = t.dropWhile p := by
  induction l with
  | nil => rfl
  | cons x l ih =>
    have hx : p x = true := h x (by simp)
    simp only [List.cons_append, List.dropWhile, hx]
    exact ih (fun y hy => h y (by simp [hy]))

theorem takeWhile_eq_self_of_all {α} (p : α → Bool) (l : List α)
    (h : ∀ x ∈ l, p x = true) : l.takeWhile p = l := by
  induction l with
  | nil => rfl
  | cons x l ih =>
    have hx : p x = true := h x (by simp)
    simp only [List.takeWhile, hx]
    rw [ih (fun y hy => h y (by simp [hy]))]

/-! ### stripLoop / stripPath -/

theorem stripLoop_nonpos (s : Bytes) (r : Int) (b : Bytes) (hr : r ≤ 0) :
    (stripLoop s r b).2 = b ∧ (stripLoop s r b).1 ≤ 0 := by
  fun_induction stripLoop s r b with
  | case1 r b => exact ⟨rfl, hr⟩
  | case2 c rest r b hc after r' b' ih =>
    have h1 : r' ≤ 0 := by omega
    have h2 : b' = b := by
      show (if r' ≥ 0 then after else b) = b
      have : ¬ r' ≥ 0 := by omega
      simp [this]
    have := ih h1
    rw [h2] at this ⊢
    exact this
  | case3 c rest r b hc ih => exact ih hr

theorem stripLoop_skip (s : Bytes) (r : Int) (b : Bytes) :
    stripLoop s r b = stripLoop (s.dropWhile (· != SLASH)) r b := by
  induction s with
  | nil => rfl
  | cons c rest ih =>
    by_cases hc : c == SLASH
    · have : (c != SLASH) = false := by simp [bne, hc]
      simp [List.dropWhile, this]
    · have : (c != SLASH) = true := by simp [bne, hc]
      rw [stripLoop]
      simp only [hc, List.dropWhile, this]
      simpa using ih

/-- the result of `stripPath` for a non-negative amount, in terms of `stripLoop` -/
def stripRes (x : Int × Bytes) : Bytes := if x.2 = [] ∨ x.1 > 0 then [] else x.2

theorem stripPath_nonneg (p : Bytes) (n : Nat) : stripPath p (n : Int) = stripRes (stripLoop p n p) := by
  unfold stripPath stripRes
  have : ¬ ((n : Int) < 0) := by omega
  simp only [this, if_false]

theorem stripLoop_spec (p : Bytes) (n : Nat) : stripRes (stripLoop p n p) = stripSpec p n := by
  induction n generalizing p with
  | zero =>
    have h := stripLoop_nonpos p ((0:Nat):Int) p (by omega)
    unfold stripRes
    rw [h.1]
    have : ¬ ((stripLoop p ((0:Nat):Int) p).1 > 0) := by have := h.2; simp at this ⊢; omega
    rw [stripSpec]
    by_cases hp : p = []
    · simp [hp]
    · simp [hp]; simpa using h.2
  | succ n ih =>
    rw [stripSpec, stripLoop_skip]
    cases hrest : p.dropWhile (· != SLASH) with
    | nil => simp [stripLoop, stripRes]
    | cons c rest =>
      have hc := dropWhile_head_neg _ _ _ _ hrest
      have hc' : (c == SLASH) = true := by simpa [bne] using hc
      rw [stripLoop]
      simp only [hc', if_true]
      have e1 : ((n + 1 : Nat) : Int) - 1 = (n : Int) := by omega
      rw [e1]
      have e2 : ((n : Int) ≥ 0) := by omega
      simp only [e2, if_true]
      rw [ih]
      simp [List.dropWhile, hc']


/-! ### basename, stripSpec -/

theorem not_mem_takeWhile_ne {α} [BEq α] [LawfulBEq α] (a : α) (l : List α) :
    a ∉ l.takeWhile (· != a) := by
  induction l with
  | nil => simp
  | cons x l ih =>
    simp only [List.takeWhile]
    split
    · rename_i hx
      intro hm
      rcases List.mem_cons.1 hm with h | h
      · subst h; simp at hx
      · exact ih h
    · simp

theorem basenameSpec_eq (p : Bytes) : basenameSpec p = basename p := rfl

theorem basename_no_slash (p : Bytes) : SLASH ∉ basename p := by
  unfold basename
  rw [List.mem_reverse]
  exact not_mem_takeWhile_ne SLASH _

theorem basename_suffix (p : Bytes) :
    basename p = p ∨ ∃ pre, p = pre ++ [SLASH] ++ basename p := by
  unfold basename
  have h := @List.takeWhile_append_dropWhile _ (· != SLASH) p.reverse
  have h2 : p = (p.reverse.dropWhile (· != SLASH)).reverse ++ (p.reverse.takeWhile (· != SLASH)).reverse := by
    rw [← List.reverse_append, h, List.reverse_reverse]
  cases hd : p.reverse.dropWhile (· != SLASH) with
  | nil =>
    left
    rw [hd] at h2
    simpa using h2.symm
  | cons c t =>
    right
    have hc := dropWhile_head_neg _ _ _ _ hd
    have hc' : c = SLASH := by simpa using hc
    subst hc'
    refine ⟨t.reverse, ?_⟩
    rw [hd] at h2
    simpa using h2

theorem stripSpec_nil (m : Nat) : stripSpec [] m = [] := by
  cases m with
  | zero => rw [stripSpec]
  | succ m => rw [stripSpec]; simp

theorem stripSpec_add (p : Bytes) (n m : Nat) : stripSpec (stripSpec p n) m = stripSpec p (n + m) := by
  induction n generalizing p with
  | zero => rw [stripSpec]; simp
  | succ n ih =>
    have e : n + 1 + m = (n + m) + 1 := by omega
    rw [e, stripSpec, stripSpec]
    by_cases h : p.dropWhile (· != SLASH) = []
    · simp [h, stripSpec_nil]
    · simp only [h, if_false]; exact ih _

theorem dropWhile_ne_of_not_mem (c : Bytes) (h : SLASH ∉ c) (t : Bytes) :
    (c ++ SLASH :: t).dropWhile (· != SLASH) = SLASH :: t := by
  induction c with
  | nil => simp
  | cons x c ih =>
    have hx : (x != SLASH) = true := by
      have : x ≠ SLASH := fun e => h (by simp [e])
      simpa using this
    simp only [List.cons_append, List.dropWhile, hx]
    exact ih (fun hm => h (by simp [hm]))

theorem dropWhile_ne_eq_nil_of_not_mem (c : Bytes) (h : SLASH ∉ c) :
    c.dropWhile (· != SLASH) = [] := by
  induction c with
  | nil => rfl
  | cons x c ih =>
    have hx : (x != SLASH) = true := by
      have : x ≠ SLASH := fun e => h (by simp [e])
      simpa using this
    simp only [List.dropWhile, hx]
    exact ih (fun hm => h (by simp [hm]))

/-- a non-empty list of non-empty slash-free components, joined, does not start with a slash -/
theorem dropWhile_slash_intercalate (c : Bytes) (cs : List Bytes) (hc : c ≠ [] ∧ SLASH ∉ c) :
    (List.intercalate [SLASH] (c :: cs)).dropWhile (· == SLASH) = List.intercalate [SLASH] (c :: cs) := by
  obtain ⟨hne, hns⟩ := hc
  cases c with
  | nil => exact absurd rfl hne
  | cons x c =>
    have hx : (x == SLASH) = false := by
      have : x ≠ SLASH := fun e => hns (by simp [e])
      simpa using this
    cases cs with
    | nil => simp [hx]
    | cons c' cs => simp [hx]

theorem stripSpec_intercalate_step (c c' : Bytes) (cs : List Bytes) (n : Nat)
    (hc : SLASH ∉ c) (hc' : c' ≠ [] ∧ SLASH ∉ c') :
    stripSpec (List.intercalate [SLASH] (c :: c' :: cs)) (n + 1) =
      stripSpec (List.intercalate [SLASH] (c' :: cs)) n := by
  rw [stripSpec, List.intercalate_cons_cons, List.append_assoc, List.singleton_append,
    dropWhile_ne_of_not_mem c hc]
  simp only [List.cons_ne_nil, if_false]
  have : (SLASH == SLASH) = true := by simp
  simp only [List.dropWhile, this]
  rw [dropWhile_slash_intercalate c' cs hc']

theorem stripSpec_components (comps : List Bytes) (n : Nat)
    (hne : ∀ c ∈ comps, c ≠ [] ∧ SLASH ∉ c) (hn : n < comps.length) :
    stripSpec (List.intercalate [SLASH] comps) n = List.intercalate [SLASH] (comps.drop n) := by
  induction n generalizing comps with
  | zero => rw [stripSpec]; simp
  | succ n ih =>
    match comps, hne, hn with
    | c :: c' :: cs, hne, hn =>
      rw [stripSpec_intercalate_step c c' cs n (hne c (by simp)).2 (hne c' (by simp))]
      rw [ih (c' :: cs) (fun x hx => hne x (by simp [hx])) (by simpa using hn)]
      simp
    | [c], _, hn => simp at hn
    | [], _, hn => simp at hn

theorem stripSpec_too_few (comps : List Bytes) (n : Nat)
    (hne : ∀ c ∈ comps, c ≠ [] ∧ SLASH ∉ c) (hn : comps.length ≤ n) (hpos : 0 < n) :
    stripSpec (List.intercalate [SLASH] comps) n = [] := by
  induction n generalizing comps with
  | zero => omega
  | succ n ih =>
    match comps, hne, hn with
    | c :: c' :: cs, hne, hn =>
      rw [stripSpec_intercalate_step c c' cs n (hne c (by simp)).2 (hne c' (by simp))]
      have hl : (c' :: cs).length ≤ n := by simp at hn ⊢; omega
      exact ih (c' :: cs) (fun x hx => hne x (by simp [hx])) hl (by simp at hl; omega)
    | [c], hne, _ =>
      rw [stripSpec]
      simp [dropWhile_ne_eq_nil_of_not_mem c (hne c (by simp)).2]
    | [], _, _ => rw [stripSpec]; simp


/-! ### C-quoting round trip -/

theorem beq_false_of_toNat_ne (d k : UInt8) (h : d.toNat ≠ k.toNat) : (d == k) = false := by
  apply beq_eq_false_iff_ne.2
  intro e; exact h (by rw [e])

theorem isOctal_of_toNat (d : UInt8) (h1 : 48 ≤ d.toNat) (h2 : d.toNat ≤ 55) : isOctal d = true := by
  unfold isOctal
  simp [UInt8.le_iff_toNat_le]
  omega

theorem go_octal_aux (fuel : Nat) (d0 d1 d2 c : UInt8) (rest acc : Bytes)
    (h0 : d0.toNat = 48 + c.toNat / 64) (h1 : d1.toNat = 48 + c.toNat / 8 % 8)
    (h2 : d2.toNat = 48 + c.toNat % 8) :
    parseQuotedGo (fuel + 1) (BACKSLASH :: d0 :: d1 :: d2 :: rest) acc
      = parseQuotedGo fuel rest (acc ++ [c]) := by
  have hc : c.toNat < 256 := UInt8.toNat_lt c
  have a1 : (BACKSLASH == DQUOTE) = false := by decide
  have a2 : (BACKSLASH == BACKSLASH) = true := by decide
  have e0 : (d0 == 0) = false := beq_false_of_toNat_ne _ _ (by rw [h0]; show _ ≠ 0; omega)
  have e1 : (d0 == BACKSLASH) = false := beq_false_of_toNat_ne _ _ (by rw [h0]; show _ ≠ 92; omega)
  have e2 : (d0 == DQUOTE) = false := beq_false_of_toNat_ne _ _ (by rw [h0]; show _ ≠ 34; omega)
  have e3 : (d0 == 110) = false := beq_false_of_toNat_ne _ _ (by rw [h0]; show _ ≠ 110; omega)
  have e4 : (d0 == 116) = false := beq_false_of_toNat_ne _ _ (by rw [h0]; show _ ≠ 116; omega)
  have e5 : (d0 == 97) = false := beq_false_of_toNat_ne _ _ (by rw [h0]; show _ ≠ 97; omega)
  have e6 : (d0 == 98) = false := beq_false_of_toNat_ne _ _ (by rw [h0]; show _ ≠ 98; omega)
  have e7 : (d0 == 102) = false := beq_false_of_toNat_ne _ _ (by rw [h0]; show _ ≠ 102; omega)
  have e8 : (d0 == 114) = false := beq_false_of_toNat_ne _ _ (by rw [h0]; show _ ≠ 114; omega)
  have e9 : (d0 == 118) = false := beq_false_of_toNat_ne _ _ (by rw [h0]; show _ ≠ 118; omega)
  have o0 : isOctal d0 = true := isOctal_of_toNat _ (by omega) (by omega)
  have o1 : isOctal d1 = true := isOctal_of_toNat _ (by omega) (by omega)
  have o2 : isOctal d2 = true := isOctal_of_toNat _ (by omega) (by omega)
  rw [parseQuotedGo]
  simp only [a1, a2, e0, e1, e2, e3, e4, e5, e6, e7, e8, e9, o0, o1, o2, if_true, if_false, Bool.false_eq_true]
  have : UInt8.ofNat ((((d0.toNat - 48) * 8 + (d1.toNat - 48)) * 8 + (d2.toNat - 48)) % 256) = c := by
    have : (((d0.toNat - 48) * 8 + (d1.toNat - 48)) * 8 + (d2.toNat - 48)) % 256 = c.toNat := by
      rw [h0, h1, h2]; omega
    rw [this, UInt8.ofNat_toNat]
  rw [this]

theorem toNat_ofNat_lt (n : Nat) (h : n < 256) : (UInt8.ofNat n).toNat = n := by
  rw [UInt8.toNat_ofNat']; exact Nat.mod_eq_of_lt h

theorem go_octal (fuel : Nat) (c : UInt8) (rest acc : Bytes) :
    parseQuotedGo (fuel + 1) (BACKSLASH :: (octal3 c ++ rest)) acc
      = parseQuotedGo fuel rest (acc ++ [c]) := by
  have hc : c.toNat < 256 := UInt8.toNat_lt c
  unfold octal3
  exact go_octal_aux fuel _ _ _ c rest acc
    (toNat_ofNat_lt _ (by omega)) (toNat_ofNat_lt _ (by omega)) (toNat_ofNat_lt _ (by omega))

theorem go_plain (fuel : Nat) (c : UInt8) (rest acc : Bytes)
    (h1 : (c == DQUOTE) = false) (h2 : (c == BACKSLASH) = false) :
    parseQuotedGo (fuel + 1) (c :: rest) acc = parseQuotedGo fuel rest (acc ++ [c]) := by
  rw [parseQuotedGo.eq_def]; simp only [h1, h2, if_false, Bool.false_eq_true]

theorem go_escape (fuel : Nat) (rest acc : Bytes) :
    parseQuotedGo (fuel + 1) (BACKSLASH :: BACKSLASH :: rest) acc = parseQuotedGo fuel rest (acc ++ [BACKSLASH]) ∧
    parseQuotedGo (fuel + 1) (BACKSLASH :: DQUOTE :: rest) acc = parseQuotedGo fuel rest (acc ++ [DQUOTE]) ∧
    parseQuotedGo (fuel + 1) (BACKSLASH :: 110 :: rest) acc = parseQuotedGo fuel rest (acc ++ [NL]) ∧
    parseQuotedGo (fuel + 1) (BACKSLASH :: 116 :: rest) acc = parseQuotedGo fuel rest (acc ++ [TAB]) := by
  refine ⟨?_, ?_, ?_, ?_⟩ <;> rw [parseQuotedGo.eq_def] <;> simp [BACKSLASH, DQUOTE]

theorem go_cQuoteBody (s tail : Bytes) (fuel : Nat) (acc : Bytes) (hf : s.length < fuel) :
    parseQuotedGo fuel (cQuoteBody s ++ DQUOTE :: tail) acc = .ok (acc ++ s, DQUOTE :: tail) := by
  induction s generalizing fuel acc with
  | nil =>
    cases fuel with
    | zero => simp at hf
    | succ f => rw [cQuoteBody, List.nil_append, parseQuotedGo.eq_def]; simp
  | cons c s ih =>
    cases fuel with
    | zero => simp at hf
    | succ f =>
      have hf' : s.length < f := by simp at hf; omega
      have hfin : acc ++ [c] ++ s = acc ++ c :: s := by simp
      rw [cQuoteBody]
      split
      · rename_i h
        have : c = BACKSLASH := by simpa using h
        subst this
        simp only [List.cons_append, List.nil_append]
        rw [(go_escape f _ acc).1, ih _ _ hf', hfin]
      split
      · rename_i h
        have : c = DQUOTE := by simpa using h
        subst this
        simp only [List.cons_append, List.nil_append]
        rw [(go_escape f _ acc).2.1, ih _ _ hf', hfin]
      split
      · rename_i h
        have : c = NL := by simpa using h
        subst this
        simp only [List.cons_append, List.nil_append]
        rw [(go_escape f _ acc).2.2.1, ih _ _ hf', hfin]
      split
      · rename_i h
        have : c = TAB := by simpa using h
        subst this
        simp only [List.cons_append, List.nil_append]
        rw [(go_escape f _ acc).2.2.2, ih _ _ hf', hfin]
      split
      · simp only [List.cons_append, List.append_assoc]
        rw [go_octal, ih _ _ hf', hfin]
      · rename_i hb hd _ _ _
        simp only [List.cons_append, List.nil_append]
        rw [go_plain f c _ acc (by simpa using hd) (by simpa using hb), ih _ _ hf', hfin]

theorem length_le_cQuoteBody (s : Bytes) : s.length ≤ (cQuoteBody s).length := by
  induction s with
  | nil => simp
  | cons c s ih =>
    rw [cQuoteBody, List.length_append, List.length_cons]
    have : 1 ≤ (if (c == BACKSLASH) = true then [BACKSLASH, BACKSLASH]
        else if (c == DQUOTE) = true then [BACKSLASH, DQUOTE]
        else if (c == NL) = true then [BACKSLASH, 110]
        else if (c == TAB) = true then [BACKSLASH, 116]
        else if (decide (c < 32) || decide (c ≥ 127)) = true then BACKSLASH :: octal3 c else [c]).length := by
      repeat' split
      all_goals simp
    omega

theorem quote_roundtrip (s tail : Bytes) :
    parseQuotedString (cQuote s ++ tail) = .ok (s, DQUOTE :: tail) := by
  unfold cQuote parseQuotedString
  simp only [List.cons_append, List.nil_append, List.append_assoc]
  have : (DQUOTE == DQUOTE) = true := by decide
  simp only [this, if_true]
  rw [go_cQuoteBody s tail _ [] ?_]
  · simp
  · have := length_le_cQuoteBody s
    simp only [List.length_cons, List.length_append]; omega


/-! ### parseFileLine -/

theorem devNull_eq : devNull = [47, 100, 101, 118, 47, 110, 117, 108, 108] := by
  unfold devNull str String.toUTF8; rw [Cpp.byteArray_toList_eq_data]; rfl

theorem getElem!_append_length (l : Bytes) (a : UInt8) (t : Bytes) : (l ++ a :: t)[l.length]! = a := by
  simp

/-- the unquoted branch of `parseFileLine`: scan to the first TAB or SP, then to the first TAB -/
def scanName (r : Bytes) : Except Exn (Bytes × Bytes) :=
  let k := (r.takeWhile fun x => x != TAB && x != SP).length
  if k ≥ r.length then .ok (r, [])
  else if r[k]! == TAB then .ok (r.take k, r.drop k)
  else
    match findIdx TAB (r.drop k) with
    | none => .ok (r.take k, r.drop k)
    | some j => .ok (r.take (k + j), r.drop (k + j))

/-- what `parseFileLine` does with the (name, rest) pair -/
def finishFileLine (strip : Int) (res : Except Exn (Bytes × Bytes)) : Except Exn (Bytes × Option Bytes) :=
  match res with
  | .error e => .error e
  | .ok (path, it) =>
    .ok (if path = devNull then path else stripPath path strip,
         if it.length ≥ 2 then some (it.drop 1) else none)

theorem parseFileLine_cons (c : UInt8) (rest : Bytes) (strip : Int) :
    parseFileLine (c :: rest) strip =
      finishFileLine strip (if c == DQUOTE then parseQuotedString (c :: rest) else scanName (c :: rest)) := rfl

theorem findIdx_append (l : Bytes) (a : UInt8) (t : Bytes) (h : a ∉ l) :
    findIdx a (l ++ a :: t) = some l.length := by
  unfold findIdx
  have h1 : ((fun x => x != a) a) = false := by simp
  rw [takeWhile_append_of_neg (fun x => x != a) l a t h1, takeWhile_eq_self_of_all]
  · simp
  · intro x hx
    have : x ≠ a := fun e => h (e ▸ hx)
    simpa using this

theorem scanName_plain (name ts : Bytes) (ht : TAB ∉ name) :
    scanName (name ++ TAB :: ts) = .ok (name, TAB :: ts) := by
  have hP : ((fun x => x != TAB && x != SP) TAB) = false := by simp
  have hk : ((name ++ TAB :: ts).takeWhile fun x => x != TAB && x != SP)
      = name.takeWhile fun x => x != TAB && x != SP := takeWhile_append_of_neg _ name TAB ts hP
  have hsplit := @List.takeWhile_append_dropWhile _ (fun x => x != TAB && x != SP) name
  unfold scanName
  simp only [hk]
  generalize htw : name.takeWhile (fun x => x != TAB && x != SP) = tw at hsplit
  cases hdw : name.dropWhile (fun x => x != TAB && x != SP) with
  | nil =>
    rw [hdw, List.append_nil] at hsplit
    subst hsplit
    have h1 : ¬ (tw.length ≥ (tw ++ TAB :: ts).length) := by simp
    have h2 : (TAB == TAB) = true := by decide
    simp only [h1, if_false, getElem!_append_length, h2, if_true]
    rw [List.take_left, List.drop_left]
  | cons x dw =>
    rw [hdw] at hsplit
    subst hsplit
    have hx : x ≠ TAB := fun e => ht (by simp [e])
    have hdwt : TAB ∉ x :: dw := fun hm => ht (by simp at hm ⊢; right; exact hm)
    have h1 : ¬ (tw.length ≥ (tw ++ x :: dw ++ TAB :: ts).length) := by simp
    have h2 : (x == TAB) = false := by simpa using hx
    have e1 : tw ++ x :: dw ++ TAB :: ts = tw ++ x :: (dw ++ TAB :: ts) := by simp
    have h3 : (tw ++ x :: dw ++ TAB :: ts)[tw.length]! = x := by rw [e1]; exact getElem!_append_length _ _ _
    have h4 : (tw ++ x :: dw ++ TAB :: ts).drop tw.length = (x :: dw) ++ TAB :: ts := by
      rw [e1]; simp
    simp only [h1, if_false, h3, h2, h4, Bool.false_eq_true]
    rw [findIdx_append _ _ _ hdwt]
    have e2 : tw.length + (x :: dw).length = (tw ++ x :: dw).length := by simp
    dsimp only
    rw [List.take_left' e2.symm, List.drop_left' e2.symm]

theorem finish_tab (strip : Int) (name ts : Bytes) :
    finishFileLine strip (.ok (name, TAB :: ts)) =
      .ok (if name = devNull then name else stripPath name strip, if ts = [] then none else some ts) := by
  unfold finishFileLine
  cases ts with
  | nil => simp
  | cons a t => simp

theorem file_line_plain (name ts : Bytes) (strip : Int)
    (hne : name ≠ []) (hq : name.head? ≠ some DQUOTE) (ht : TAB ∉ name) :
    parseFileLine (name ++ TAB :: ts) strip =
      .ok (if name = devNull then name else stripPath name strip, if ts = [] then none else some ts) := by
  cases name with
  | nil => exact absurd rfl hne
  | cons c nm =>
    have hc : (c == DQUOTE) = false := by simpa using hq
    rw [List.cons_append, parseFileLine_cons]
    simp only [hc, if_false, Bool.false_eq_true]
    rw [← List.cons_append, scanName_plain _ _ ht, finish_tab]

/-- a bare word (no TAB, no blank, not quoted) with nothing after it: taken as it is, no time stamp -/
theorem scanName_word (w : Bytes) (ht : TAB ∉ w) (hs : SP ∉ w) : scanName w = .ok (w, []) := by
  have hall : w.takeWhile (fun x => x != TAB && x != SP) = w := by
    apply takeWhile_eq_self_of_all
    intro x hx
    have h1 : x ≠ TAB := fun e => ht (e ▸ hx)
    have h2 : x ≠ SP := fun e => hs (e ▸ hx)
    simp [h1, h2]
  unfold scanName
  simp only [hall, ge_iff_le, Nat.le_refl, if_true]

/-- `parse_file_line` on a bare word: the word, stripped like a path by `-p strip` — and left alone by a strip count of 0,
    which is what the `Prereq: ` line passes -/
theorem file_line_word (w : Bytes) (strip : Int) (hne : w ≠ []) (hq : w.head? ≠ some DQUOTE) (ht : TAB ∉ w) (hs : SP ∉ w) :
    parseFileLine w strip = .ok (if w = devNull then w else stripPath w strip, none) := by
  cases w with
  | nil => exact absurd rfl hne
  | cons c r =>
    have hc : (c == DQUOTE) = false := by simpa using hq
    rw [parseFileLine_cons]
    simp only [hc, if_false, Bool.false_eq_true]
    rw [scanName_word _ ht hs]
    simp [finishFileLine]

theorem file_line_quoted (name ts : Bytes) (strip : Int) :
    parseFileLine (cQuote name ++ TAB :: ts) strip =
      .ok (if name = devNull then name else stripPath name strip, some (TAB :: ts)) := by
  have h := quote_roundtrip name (TAB :: ts)
  have e : cQuote name ++ TAB :: ts = DQUOTE :: (cQuoteBody name ++ [DQUOTE] ++ TAB :: ts) := by
    simp [cQuote]
  rw [e] at h ⊢
  have hd : (DQUOTE == DQUOTE) = true := by decide
  rw [parseFileLine_cons]
  simp only [hd, if_true]
  rw [h]
  simp [finishFileLine]

theorem devnull_never_stripped (ts : Bytes) (strip : Int) :
    ∃ t, parseFileLine (devNull ++ TAB :: ts) strip = .ok (devNull, t) := by
  refine ⟨if ts = [] then none else some ts, ?_⟩
  rw [file_line_plain devNull ts strip]
  · simp
  · rw [devNull_eq]; simp
  · rw [devNull_eq]; simp [DQUOTE]
  · rw [devNull_eq]; simp [TAB]

/-! ### git: names on the extended header lines and on the `diff --git` line -/

theorem str_rename_from : str "rename from " = [114, 101, 110, 97, 109, 101, 32, 102, 114, 111, 109, 32] := by
  unfold str String.toUTF8; rw [Cpp.byteArray_toList_eq_data]; rfl
theorem str_rename_to : str "rename to " = [114, 101, 110, 97, 109, 101, 32, 116, 111, 32] := by
  unfold str String.toUTF8; rw [Cpp.byteArray_toList_eq_data]; rfl
theorem str_copy_from : str "copy from " = [99, 111, 112, 121, 32, 102, 114, 111, 109, 32] := by
  unfold str String.toUTF8; rw [Cpp.byteArray_toList_eq_data]; rfl
theorem str_copy_to : str "copy to " = [99, 111, 112, 121, 32, 116, 111, 32] := by
  unfold str String.toUTF8; rw [Cpp.byteArray_toList_eq_data]; rfl
theorem str_a : str "a/" = [97, 47] := by
  unfold str String.toUTF8; rw [Cpp.byteArray_toList_eq_data]; rfl
theorem str_b : str "b/" = [98, 47] := by
  unfold str String.toUTF8; rw [Cpp.byteArray_toList_eq_data]; rfl
theorem str_sp_b : str " b/" = [32, 98, 47] := by
  unfold str String.toUTF8; rw [Cpp.byteArray_toList_eq_data]; rfl

/-- `-p0` leaves every name as it is -/
theorem stripPath_zero (p : Bytes) : stripPath p 0 = p := by
  have h := stripPath_nonneg p 0
  rw [stripLoop_spec] at h
  simpa [stripSpec] using h

theorem consumeStr_self_append (s r : Bytes) : consumeStr s (s ++ r) = some r := by
  unfold consumeStr
  have : s.isPrefixOf (s ++ r) = true := by
    rw [List.isPrefixOf_iff_prefix]; exact List.prefix_append s r
  simp [this]

/-- the `parse_filename` closure of `parseGitExtendedInfo` with `-p0`, on a name that is not quoted -/
theorem gitFilename_p0 (n : Bytes) (hq : n.head? ≠ some DQUOTE) :
    (match n with
      | c :: _ =>
        if c == DQUOTE then
          match parseQuotedString n with
          | .error e => (.error e : Except Exn Bytes)
          | .ok (s, _) => .ok (stripPath s 0)
        else .ok (stripPath n 0)
      | [] => .ok (stripPath n 0)) = .ok n := by
  cases n with
  | nil => simp [stripPath_zero]
  | cons c r =>
    have hc : (c == DQUOTE) = false := by simpa using hq
    simp [hc, stripPath_zero]

theorem findSome?_range_first {α} (f : Nat → Option α) (a : α) (k : Nat) (hf : f k = some a)
    (hnone : ∀ j, j < k → f j = none) : ∀ n, k < n → (List.range n).findSome? f = some a := by
  intro n
  induction n with
  | zero => intro h; omega
  | succ n ih =>
    intro hk
    rw [List.range_succ, List.findSome?_append]
    by_cases h : k < n
    · rw [ih h]; rfl
    · have hkn : k = n := by omega
      subst hkn
      have : (List.range k).findSome? f = none := by
        rw [List.findSome?_eq_none_iff]
        intro j hj
        exact hnone j (List.mem_range.1 hj)
      rw [this]
      simp [hf]

/-- where the two halves of a `diff --git` line can name the same file: only in the middle of the text -/
theorem git_split_middle (r : Bytes) (pos : Nat) (ha : (str "a/").isPrefixOf r = true)
    (hb : (str " b/").isPrefixOf (r.drop pos) = true)
    (heq : (r.take pos).drop 2 = r.drop (pos + 3)) : 2 * pos + 1 = r.length := by
  rw [str_a] at ha
  rw [str_sp_b] at hb
  have h3 : pos + 3 ≤ r.length := by
    have := List.IsPrefix.length_le (List.isPrefixOf_iff_prefix.1 hb)
    simp only [List.length_cons, List.length_nil, List.length_drop] at this
    omega
  have h2 : 2 ≤ pos := by
    match r, pos, ha, hb with
    | c0 :: c1 :: _, 0, ha, hb =>
      simp only [List.isPrefixOf, List.drop_zero, Bool.and_eq_true, beq_iff_eq] at ha hb
      exact absurd (ha.1.trans hb.1.symm) (by decide)
    | c0 :: c1 :: _, 1, ha, hb =>
      simp only [List.isPrefixOf, List.drop_succ_cons, List.drop_zero, Bool.and_eq_true, beq_iff_eq] at ha hb
      exact absurd (ha.2.1.trans hb.1.symm) (by decide)
    | _, n + 2, _, _ => omega
    | [], 0, ha, _ => simp [List.isPrefixOf] at ha
    | [], 1, ha, _ => simp [List.isPrefixOf] at ha
    | [_], 0, ha, _ => simp [List.isPrefixOf] at ha
    | [_], 1, ha, _ => simp [List.isPrefixOf] at ha
  have := congrArg List.length heq
  simp only [List.length_drop, List.length_take] at this
  omega

theorem git_rename_from_p0 (n : Bytes) (p : Patch) (hq : n.head? ≠ some DQUOTE) :
    parseGitExtendedInfo (str "rename from " ++ n) p 0
      = .ok (true, { p with operation := .rename, oldPath := str "a/" ++ n }) := by
  unfold parseGitExtendedInfo
  simp only [consumeStr_self_append, if_true]
  cases n with
  | nil => simp [stripPath_zero, Except.map]
  | cons c r =>
    have hc : (c == DQUOTE) = false := by simpa using hq
    simp [hc, stripPath_zero, Except.map]

theorem git_rename_to_p0 (n : Bytes) (p : Patch) (hq : n.head? ≠ some DQUOTE) :
    parseGitExtendedInfo (str "rename to " ++ n) p 0
      = .ok (true, { p with operation := .rename, newPath := str "b/" ++ n }) := by
  have h1 : consumeStr (str "rename from ") (str "rename to " ++ n) = none := by
    rw [str_rename_from, str_rename_to]; simp [consumeStr, List.isPrefixOf]
  unfold parseGitExtendedInfo
  simp only [h1, consumeStr_self_append, if_true]
  cases n with
  | nil => simp [stripPath_zero, Except.map]
  | cons c r =>
    have hc : (c == DQUOTE) = false := by simpa using hq
    simp [hc, stripPath_zero, Except.map]

theorem git_copy_to_p0 (n : Bytes) (p : Patch) (hq : n.head? ≠ some DQUOTE) :
    parseGitExtendedInfo (str "copy to " ++ n) p 0
      = .ok (true, { p with operation := .copy, newPath := str "b/" ++ n }) := by
  have h1 : consumeStr (str "rename from ") (str "copy to " ++ n) = none := by
    rw [str_rename_from, str_copy_to]; simp [consumeStr, List.isPrefixOf]
  have h2 : consumeStr (str "rename to ") (str "copy to " ++ n) = none := by
    rw [str_rename_to, str_copy_to]; simp [consumeStr, List.isPrefixOf]
  unfold parseGitExtendedInfo
  simp only [h1, h2, consumeStr_self_append, if_true]
  cases n with
  | nil => simp [stripPath_zero, Except.map]
  | cons c r =>
    have hc : (c == DQUOTE) = false := by simpa using hq
    simp [hc, stripPath_zero, Except.map]

theorem git_copy_from_p0 (n : Bytes) (p : Patch) (hq : n.head? ≠ some DQUOTE) :
    parseGitExtendedInfo (str "copy from " ++ n) p 0
      = .ok (true, { p with operation := .copy, oldPath := str "a/" ++ n }) := by
  have h1 : consumeStr (str "rename from ") (str "copy from " ++ n) = none := by
    rw [str_rename_from, str_copy_from]; simp [consumeStr, List.isPrefixOf]
  have h2 : consumeStr (str "rename to ") (str "copy from " ++ n) = none := by
    rw [str_rename_to, str_copy_from]; simp [consumeStr, List.isPrefixOf]
  have h3 : consumeStr (str "copy to ") (str "copy from " ++ n) = none := by
    rw [str_copy_to, str_copy_from]; simp [consumeStr, List.isPrefixOf]
  unfold parseGitExtendedInfo
  simp only [h1, h2, h3, consumeStr_self_append, if_true]
  cases n with
  | nil => simp [stripPath_zero, Except.map]
  | cons c r =>
    have hc : (c == DQUOTE) = false := by simpa using hq
    simp [hc, stripPath_zero, Except.map]

/-- the position where the two halves of `a/X b/X` name the same file -/
theorem git_header_same_name (x : Bytes) (strip : Int) :
    parseGitHeaderName (str "a/" ++ x ++ str " b/" ++ x) strip = .ok (stripPath (str "a/" ++ x) strip) := by
  have hr : str "a/" ++ x ++ str " b/" ++ x = 97 :: 47 :: (x ++ 32 :: 98 :: 47 :: x) := by
    rw [str_a, str_sp_b]; simp
  generalize hR : str "a/" ++ x ++ str " b/" ++ x = r at hr
  have hlen : r.length = 2 * x.length + 5 := by rw [hr]; simp; omega
  have hpre : (str "a/").isPrefixOf r = true := by rw [str_a, hr]; simp [List.isPrefixOf]
  have htake : r.take (x.length + 2) = str "a/" ++ x := by
    rw [str_a, hr]; simp [List.take_succ_cons]
  have hdrop : r.drop (x.length + 2) = str " b/" ++ x := by
    rw [str_sp_b, hr]; simp
  have hdrop3 : r.drop (x.length + 2 + 3) = x := by
    rw [hr]; simp [List.drop_succ_cons]
  have hsplit : (if (str "a/").isPrefixOf r then
          (List.range r.length).findSome? fun pos =>
            if (str " b/").isPrefixOf (r.drop pos) ∧ (r.take pos).drop 2 = r.drop (pos + 3) then some (r.take pos) else none
        else none) = some (str "a/" ++ x) := by
    rw [if_pos hpre]
    apply findSome?_range_first _ _ (x.length + 2) _ _ _ (by omega)
    · have h1 : (str " b/").isPrefixOf (str " b/" ++ x) = true := by
        rw [List.isPrefixOf_iff_prefix]; exact List.prefix_append _ _
      have h2 : (str "a/" ++ x).drop 2 = x := by rw [str_a]; rfl
      simp only [hdrop, hdrop3, htake, h1, h2, and_self, if_true]
    · intro j hj
      split
      · rename_i hc
        have := git_split_middle r j hpre hc.1 hc.2
        omega
      · rfl
  cases r with
  | nil => simp at hlen
  | cons c rest =>
    have hc : (c == DQUOTE) = false := by
      have : c = 97 := (List.cons.inj hr).1
      rw [this]; decide
    unfold parseGitHeaderName
    simp only [hc, Bool.false_eq_true, if_false]
    rw [hsplit]

end PatchModel.Names
