/-
  Lemmas/Render — rendering of lines (`renderLines`) and reading of lines (`splitLines`), helper lemmas for C14.
-/
import PatchModel.Spec.Script
import PatchModel.Model.Stream
namespace PatchModel.Render
open PatchModel

/-! ### renderLines -/

@[simp] theorem renderLines_nil (m : NewlineOutput) : renderLines m [] = [] := rfl

@[simp] theorem renderLines_cons (m : NewlineOutput) (l : Line) (ls : List Line) :
    renderLines m (l :: ls) = renderLine m l ++ renderLines m ls := by
  simp [renderLines]

theorem renderLines_append (m : NewlineOutput) (as bs : List Line) :
    renderLines m (as ++ bs) = renderLines m as ++ renderLines m bs := by
  simp [renderLines]

theorem renderLine_lf (m : NewlineOutput) (hm : m = .lf ∨ m = .native) (l : Line) :
    renderLine m l = l.content ++ (if l.newline = .none then [] else [NL]) := by
  rcases l with ⟨c, nl⟩
  rcases hm with rfl | rfl <;> cases nl <;> simp [renderLine, renderNewline]

theorem renderLine_crlf (l : Line) :
    renderLine .crlf l = l.content ++ (if l.newline = .none then [] else [CR, NL]) := by
  rcases l with ⟨c, nl⟩
  cases nl <;> simp [renderLine, renderNewline]

theorem renderLine_keep (l : Line) :
    renderLine .keep l = l.content ++
      (match l.newline with | .none => [] | .lf => [NL] | .crlf => [CR, NL]) := by
  rcases l with ⟨c, nl⟩
  cases nl <;> simp [renderLine, renderNewline]

/-- a terminated line is rendered with a final NL in every mode -/
theorem renderLine_getLast_of_terminated (m : NewlineOutput) (l : Line) (h : l.newline ≠ .none) :
    (renderLine m l).getLast? = some NL := by
  rcases l with ⟨c, nl⟩
  cases nl <;> cases m <;> simp_all [renderLine, renderNewline, List.getLast?_append]

theorem renderLine_of_none (m : NewlineOutput) (l : Line) (h : l.newline = .none) :
    renderLine m l = l.content := by
  rcases l with ⟨c, nl⟩
  simp only at h
  subst h
  simp [renderLine, renderNewline]

/-! ### mkLine / splitLinesGo -/

theorem dropLast_append_of_getLast? {α} (l : List α) (a : α) (h : l.getLast? = some a) :
    l.dropLast ++ [a] = l := by
  rcases List.eq_nil_or_concat l with rfl | ⟨i, b, rfl⟩
  · simp at h
  · simp at h; simp [h]

theorem renderLine_keep_mkLine (cur : Bytes) : renderLine .keep (mkLine cur) = cur ++ [NL] := by
  unfold mkLine
  split
  · rename_i h
    have := dropLast_append_of_getLast? cur CR h
    simp only [renderLine, renderNewline]
    simp only [if_true]
    calc cur.dropLast ++ [CR, NL] = (cur.dropLast ++ [CR]) ++ [NL] := by simp
      _ = cur ++ [NL] := by rw [this]
  · simp [renderLine, renderNewline]

theorem mkLine_newline_ne_none (cur : Bytes) : (mkLine cur).newline ≠ .none := by
  unfold mkLine; split <;> simp

theorem mkLine_content_subset (cur : Bytes) : ∀ b ∈ (mkLine cur).content, b ∈ cur := by
  unfold mkLine
  split
  · intro b hb; exact List.dropLast_subset _ hb
  · intro b hb; exact hb

theorem mkLine_lf (cur : Bytes) (h : (mkLine cur).newline = .lf) :
    (mkLine cur).content.getLast? ≠ some CR := by
  unfold mkLine at h ⊢
  split
  · rename_i h'; simp [h'] at h
  · assumption

theorem renderLines_keep_splitLinesGo (cur bs : Bytes) :
    renderLines .keep (splitLinesGo cur bs) = cur ++ bs := by
  induction bs generalizing cur with
  | nil =>
    unfold splitLinesGo
    split
    · simp_all
    · simp [renderLine, renderNewline]
  | cons c rest ih =>
    unfold splitLinesGo
    split
    · rename_i h
      have : c = NL := by simpa using h
      subst this
      rw [renderLines_cons, ih, renderLine_keep_mkLine]; simp
    · rw [ih]; simp

theorem splitLinesGo_noNL (cur bs : Bytes) (hc : NL ∉ cur) :
    ∀ l ∈ splitLinesGo cur bs, NL ∉ l.content := by
  induction bs generalizing cur with
  | nil =>
    unfold splitLinesGo
    split
    · simp
    · intro l hl; simp at hl; subst hl; exact hc
  | cons c rest ih =>
    unfold splitLinesGo
    split
    · intro l hl
      rcases List.mem_cons.mp hl with rfl | hl
      · intro hm; exact hc (mkLine_content_subset cur _ hm)
      · exact ih [] (by simp) l hl
    · rename_i h
      have hne : c ≠ NL := by simpa using h
      apply ih
      intro hm
      rcases List.mem_append.mp hm with hm | hm
      · exact hc hm
      · simp at hm; exact hne hm.symm

theorem splitLinesGo_none_nonempty (cur bs : Bytes) :
    ∀ l ∈ splitLinesGo cur bs, l.newline = .none → l.content ≠ [] := by
  induction bs generalizing cur with
  | nil =>
    unfold splitLinesGo
    split
    · simp
    · intro l hl; simp at hl; subst hl; intro _; assumption
  | cons c rest ih =>
    unfold splitLinesGo
    split
    · intro l hl hn
      rcases List.mem_cons.mp hl with rfl | hl
      · exact absurd hn (mkLine_newline_ne_none cur)
      · exact ih [] l hl hn
    · exact ih _

theorem splitLinesGo_lf_noCR (cur bs : Bytes) :
    ∀ l ∈ splitLinesGo cur bs, l.newline = .lf → l.content.getLast? ≠ some CR := by
  induction bs generalizing cur with
  | nil =>
    unfold splitLinesGo
    split
    · simp
    · intro l hl; simp at hl; subst hl; intro h; simp at h
  | cons c rest ih =>
    unfold splitLinesGo
    split
    · intro l hl hn
      rcases List.mem_cons.mp hl with rfl | hl
      · exact mkLine_lf cur hn
      · exact ih [] l hl hn
    · exact ih _

theorem splitLinesGo_none_last (cur bs : Bytes) (pre post : List Line) (l : Line)
    (h : splitLinesGo cur bs = pre ++ l :: post) (hn : l.newline = .none) : post = [] := by
  induction bs generalizing cur pre with
  | nil =>
    unfold splitLinesGo at h
    split at h
    · simp at h
    · cases pre with
      | nil => simp at h; exact h.2
      | cons a pre => simp at h
  | cons c rest ih =>
    unfold splitLinesGo at h
    split at h
    · cases pre with
      | nil =>
        simp only [List.nil_append, List.cons.injEq] at h
        exact absurd (h.1 ▸ hn) (mkLine_newline_ne_none cur)
      | cons a pre =>
        simp only [List.cons_append, List.cons.injEq] at h
        exact ih [] pre h.2
    · exact ih _ pre h

/-! ### copyRange -/

theorem mem_copyRange (file : List Line) (i n : Nat) (o : Out) (h : o ∈ copyRange file i n) :
    ∃ k l, o = Out.fromFile k l ∧ file[k]? = some l := by
  unfold copyRange at h
  rw [List.mem_map] at h
  obtain ⟨⟨l, k⟩, hm, rfl⟩ := h
  refine ⟨i + k, l, rfl, ?_⟩
  have := List.mem_zipIdx hm
  simp only [Nat.zero_add, Nat.sub_zero] at this
  obtain ⟨_, _, hget⟩ := this
  have h2 : ((file.drop i).take n)[k]? = some l := by
    rw [hget]; exact List.getElem?_eq_getElem _
  rw [List.getElem?_take] at h2
  split at h2
  · rw [List.getElem?_drop] at h2; exact h2
  · simp at h2

theorem copyRange_map_line (file : List Line) (i n : Nat) :
    (copyRange file i n).map Out.line = (file.drop i).take n := by
  unfold copyRange
  rw [List.map_map]
  have : (Out.line ∘ fun (x : Line × Nat) => Out.fromFile (i + x.2) x.1) = Prod.fst := by
    funext x; rfl
  simp only [this]
  exact List.zipIdx_map_fst _ _

/-! ### the writer's rule (D97): only the last line of the output may lack its newline

  `render mode os = renderLines mode ((terminateInner os).map Out.line)`.  The lemmas below lead back from `render` to
  `renderLines` whenever no item but the last is unterminated (`InnerTerminated` / `LinesTerminated`), give the line-level
  specification of the rule (`terminate`, `renderText`) for outputs without `-D` items, and state the new behaviour positively
  (`render_terminates_inner`). -/

/-- no line but the last lacks its newline -/
def LinesTerminated (ls : List Line) : Prop := ∀ l ∈ ls.dropLast, l.newline ≠ .none

/-- no item but the last has an unterminated line -/
def InnerTerminated (os : List Out) : Prop := ∀ o ∈ os.dropLast, o.line.newline ≠ .none

theorem innerTerminated_iff_map (os : List Out) : InnerTerminated os ↔ LinesTerminated (os.map Out.line) := by
  unfold InnerTerminated LinesTerminated
  rw [← List.map_dropLast]
  constructor
  · intro h l hl
    obtain ⟨o, ho, rfl⟩ := List.mem_map.1 hl
    exact h o ho
  · intro h o ho
    exact h o.line (List.mem_map_of_mem ho)

/-! #### LinesTerminated -/

theorem linesTerminated_nil : LinesTerminated [] := by intro l h; cases h

theorem linesTerminated_singleton (l : Line) : LinesTerminated [l] := by intro l h; cases h

theorem linesTerminated_cons₂ (l l2 : Line) (rest : List Line) :
    LinesTerminated (l :: l2 :: rest) ↔ l.newline ≠ .none ∧ LinesTerminated (l2 :: rest) := by
  unfold LinesTerminated
  rw [List.dropLast_cons_cons]
  simp

theorem linesTerminated_of_all {ls : List Line} (h : ∀ l ∈ ls, l.newline ≠ .none) : LinesTerminated ls :=
  fun l hl => h l (List.dropLast_subset _ hl)

/-- the form in which `splitLinesGo_none_last` states it: an unterminated line has nothing after it -/
theorem linesTerminated_iff (ls : List Line) :
    LinesTerminated ls ↔ ∀ pre l post, ls = pre ++ l :: post → l.newline = .none → post = [] := by
  constructor
  · intro h pre l post he hn
    by_cases hp : post = []
    · exact hp
    · exfalso
      have hd : ls.dropLast = pre ++ l :: post.dropLast := by
        rw [he, List.dropLast_append_of_ne_nil (by simp), List.dropLast_cons_of_ne_nil hp]
      exact h l (by rw [hd]; simp) hn
  · intro h l hl hn
    have hne : ls ≠ [] := by
      intro h0; rw [h0] at hl; cases hl
    obtain ⟨pre, post, hd⟩ := List.append_of_mem hl
    have he : ls = pre ++ l :: (post ++ [ls.getLast hne]) := by
      have := List.dropLast_concat_getLast hne
      rw [hd] at this
      exact this.symm.trans (by simp)
    have := h pre l _ he hn
    simp at this

theorem LinesTerminated.left {as bs : List Line} (h : LinesTerminated (as ++ bs)) : LinesTerminated as := by
  rw [linesTerminated_iff] at h ⊢
  intro pre l post he hn
  have := h pre l (post ++ bs) (by rw [he]; simp) hn
  simp at this; exact this.1

theorem LinesTerminated.right {as bs : List Line} (h : LinesTerminated (as ++ bs)) : LinesTerminated bs := by
  rw [linesTerminated_iff] at h ⊢
  intro pre l post he hn
  exact h (as ++ pre) l post (by rw [he]; simp) hn

/-- what stands in front of something is terminated throughout -/
theorem LinesTerminated.all_left {as bs : List Line} (h : LinesTerminated (as ++ bs)) (hb : bs ≠ []) :
    ∀ l ∈ as, l.newline ≠ .none := by
  rw [linesTerminated_iff] at h
  intro l hl hn
  obtain ⟨pre, post, rfl⟩ := List.append_of_mem hl
  have := h pre l (post ++ bs) (by simp) hn
  simp at this; exact hb this.2

theorem linesTerminated_append {as bs : List Line} (ha : ∀ l ∈ as, l.newline ≠ .none) (hb : LinesTerminated bs) :
    LinesTerminated (as ++ bs) := by
  by_cases hne : bs = []
  · subst hne; rw [List.append_nil]; exact linesTerminated_of_all ha
  · intro l hl
    rw [List.dropLast_append_of_ne_nil hne] at hl
    rcases List.mem_append.1 hl with h | h
    · exact ha l h
    · exact hb l h

theorem linesTerminated_append_iff (as bs : List Line) (hb : bs ≠ []) :
    LinesTerminated (as ++ bs) ↔ (∀ l ∈ as, l.newline ≠ .none) ∧ LinesTerminated bs :=
  ⟨fun h => ⟨h.all_left hb, h.right⟩, fun h => linesTerminated_append h.1 h.2⟩

theorem LinesTerminated.take {ls : List Line} (h : LinesTerminated ls) (n : Nat) : LinesTerminated (ls.take n) := by
  rw [← List.take_append_drop n ls] at h; exact h.left

theorem LinesTerminated.drop {ls : List Line} (h : LinesTerminated ls) (n : Nat) : LinesTerminated (ls.drop n) := by
  rw [← List.take_append_drop n ls] at h; exact h.right

/-- a stretch of the file that stops before its end is terminated throughout -/
theorem LinesTerminated.all_take {ls : List Line} (h : LinesTerminated ls) {n : Nat} (hn : n < ls.length) :
    ∀ l ∈ ls.take n, l.newline ≠ .none := by
  rw [← List.take_append_drop n ls] at h
  exact h.all_left (by
    intro h0
    have := congrArg List.length h0
    simp at this; omega)

theorem LinesTerminated.all_drop_take {ls : List Line} (h : LinesTerminated ls) {i n : Nat} (hn : i + n < ls.length) :
    ∀ l ∈ (ls.drop i).take n, l.newline ≠ .none := by
  intro l hl
  refine h.all_take hn l ?_
  have : (ls.drop i).take n = (ls.take (i + n)).drop i := by
    rw [List.drop_take]; simp
  rw [this] at hl
  exact List.drop_subset _ _ hl

/-- **the lines of a file as read**: only the last can lack its newline -/
theorem linesTerminated_splitLinesGo (cur bs : Bytes) : LinesTerminated (splitLinesGo cur bs) := by
  rw [linesTerminated_iff]
  intro pre l post he hn
  exact splitLinesGo_none_last cur bs pre post l he hn

theorem linesTerminated_splitLines (bs : Bytes) : LinesTerminated (splitLines bs) :=
  linesTerminated_splitLinesGo [] bs

/-- the intended result of a script all of whose lines (the file's and the added ones) are terminated -/
theorem splice_all_terminated (file : List Line) (hf : ∀ l ∈ file, l.newline ≠ .none) :
    ∀ (hs : List Hunk) (c : Nat), (∀ h ∈ hs, ∀ l ∈ newOf h.lines, l.newline ≠ .none) →
      ∀ l ∈ splice file c hs, l.newline ≠ .none := by
  intro hs
  induction hs with
  | nil =>
    intro c _ l hl
    exact hf l (List.drop_subset _ _ hl)
  | cons h rest ih =>
    intro c hn l hl
    simp only [splice, List.mem_append] at hl
    rcases hl with (hl | hl) | hl
    · exact hf l (List.drop_subset _ _ (List.take_subset _ _ hl))
    · exact hn h (by simp) l hl
    · exact ih _ (fun h' hh' => hn h' (by simp [hh'])) l hl

theorem linesTerminated_splice_of_all (file : List Line) (hs : List Hunk) (c : Nat) (hf : ∀ l ∈ file, l.newline ≠ .none)
    (hn : ∀ h ∈ hs, ∀ l ∈ newOf h.lines, l.newline ≠ .none) : LinesTerminated (splice file c hs) :=
  linesTerminated_of_all (splice_all_terminated file hf hs c hn)

/-! #### InnerTerminated -/

theorem innerTerminated_nil : InnerTerminated [] := by intro l h; cases h

theorem innerTerminated_singleton (o : Out) : InnerTerminated [o] := by intro l h; cases h

theorem innerTerminated_cons₂ (o o2 : Out) (rest : List Out) :
    InnerTerminated (o :: o2 :: rest) ↔ o.line.newline ≠ .none ∧ InnerTerminated (o2 :: rest) := by
  unfold InnerTerminated
  rw [List.dropLast_cons_cons]
  simp

theorem innerTerminated_of_all {os : List Out} (h : ∀ o ∈ os, o.line.newline ≠ .none) : InnerTerminated os :=
  fun o ho => h o (List.dropLast_subset _ ho)

theorem innerTerminated_of_lines {os : List Out} {ls : List Line} (h : os.map Out.line = ls) (ht : LinesTerminated ls) :
    InnerTerminated os := by
  rw [innerTerminated_iff_map, h]; exact ht

theorem InnerTerminated.left {as bs : List Out} (h : InnerTerminated (as ++ bs)) : InnerTerminated as := by
  rw [innerTerminated_iff_map, List.map_append] at h
  rw [innerTerminated_iff_map]; exact h.left

theorem InnerTerminated.right {as bs : List Out} (h : InnerTerminated (as ++ bs)) : InnerTerminated bs := by
  rw [innerTerminated_iff_map, List.map_append] at h
  rw [innerTerminated_iff_map]; exact h.right

theorem InnerTerminated.all_left {as bs : List Out} (h : InnerTerminated (as ++ bs)) (hb : bs ≠ []) :
    ∀ o ∈ as, o.line.newline ≠ .none := by
  rw [innerTerminated_iff_map, List.map_append] at h
  intro o ho
  exact h.all_left (by simpa using hb) o.line (List.mem_map_of_mem ho)

theorem innerTerminated_append {as bs : List Out} (ha : ∀ o ∈ as, o.line.newline ≠ .none) (hb : InnerTerminated bs) :
    InnerTerminated (as ++ bs) := by
  rw [innerTerminated_iff_map] at hb ⊢
  rw [List.map_append]
  refine linesTerminated_append ?_ hb
  intro l hl
  obtain ⟨o, ho, rfl⟩ := List.mem_map.1 hl
  exact ha o ho

theorem innerTerminated_append_iff (as bs : List Out) (hb : bs ≠ []) :
    InnerTerminated (as ++ bs) ↔ (∀ o ∈ as, o.line.newline ≠ .none) ∧ InnerTerminated bs :=
  ⟨fun h => ⟨h.all_left hb, h.right⟩, fun h => innerTerminated_append h.1 h.2⟩

/-- a copied stretch of a file as read -/
theorem innerTerminated_copyRange {file : List Line} (hf : LinesTerminated file) (i n : Nat) :
    InnerTerminated (copyRange file i n) := by
  rw [innerTerminated_iff_map, copyRange_map_line]
  exact (hf.drop i).take n

/-- a copied stretch that stops before the end of the file is terminated throughout -/
theorem copyRange_all_terminated {file : List Line} (hf : LinesTerminated file) {i n : Nat} (h : i + n < file.length) :
    ∀ o ∈ copyRange file i n, o.line.newline ≠ .none := by
  intro o ho
  have : o.line ∈ (copyRange file i n).map Out.line := List.mem_map_of_mem ho
  rw [copyRange_map_line] at this
  exact hf.all_drop_take h _ this

theorem copyRange_all_terminated_of_all {file : List Line} (hf : ∀ l ∈ file, l.newline ≠ .none) (i n : Nat) :
    ∀ o ∈ copyRange file i n, o.line.newline ≠ .none := by
  intro o ho
  have : o.line ∈ (copyRange file i n).map Out.line := List.mem_map_of_mem ho
  rw [copyRange_map_line] at this
  exact hf _ (List.drop_subset _ _ (List.take_subset _ _ this))

/-- where the items of `write_hunk` come from: a line of the file, or an added line of the hunk -/
theorem mem_writeHunk (file : List Line) : ∀ (ls : List PatchLine) (cur : Nat) (out : List Out) (c : Nat),
    writeHunk file ls cur = some (out, c) →
    ∀ o ∈ out, (∃ k l, o = Out.fromFile k l ∧ file[k]? = some l) ∨
      (∃ pl ∈ ls, pl.op = PLUS ∧ o = Out.fromPatch pl.line) := by
  intro ls
  induction ls with
  | nil => intro cur out c h o ho; simp [writeHunk] at h; rw [h.1] at ho; cases ho
  | cons pl rest ih =>
    intro cur out c h o ho
    have lift : ((∃ k l, o = Out.fromFile k l ∧ file[k]? = some l) ∨
          (∃ pl' ∈ rest, pl'.op = PLUS ∧ o = Out.fromPatch pl'.line)) →
        ((∃ k l, o = Out.fromFile k l ∧ file[k]? = some l) ∨
          (∃ pl' ∈ pl :: rest, pl'.op = PLUS ∧ o = Out.fromPatch pl'.line)) := by
      rintro (h | ⟨pl', h1, h2⟩)
      · exact Or.inl h
      · exact Or.inr ⟨pl', List.mem_cons_of_mem _ h1, h2⟩
    rw [writeHunk] at h
    split at h
    · split at h
      · exact lift (ih _ _ _ h o ho)
      split at h
      · cases h
      · next l hl =>
        rw [Option.map_eq_some_iff] at h
        obtain ⟨⟨o', c'⟩, h', he⟩ := h
        cases he
        rcases List.mem_cons.1 ho with rfl | ho
        · exact Or.inl ⟨cur, l, rfl, hl⟩
        · exact lift (ih _ _ _ h' o ho)
    · split at h
      · next hplus =>
        rw [Option.map_eq_some_iff] at h
        obtain ⟨⟨o', c'⟩, h', he⟩ := h
        cases he
        rcases List.mem_cons.1 ho with rfl | ho
        · exact Or.inr ⟨pl, by simp, by simpa using hplus, rfl⟩
        · exact lift (ih _ _ _ h' o ho)
      · split at h
        · exact lift (ih _ _ _ h o ho)
        · exact lift (ih _ _ _ h o ho)

/-! #### terminateInner, render -/

@[simp] theorem terminateInner_nil : terminateInner [] = [] := rfl
@[simp] theorem terminateInner_singleton (o : Out) : terminateInner [o] = [o] := rfl

theorem terminateInner_cons₂ (o o2 : Out) (rest : List Out) :
    terminateInner (o :: o2 :: rest) =
      o :: ((if o.line.newline = .none ∧ o2.isBare = false then [Out.directive ⟨[], .lf⟩] else []) ++
        terminateInner (o2 :: rest)) := by
  rw [terminateInner]
  by_cases h1 : o.line.newline = .none <;> cases h2 : o2.isBare <;> simp [h1]

/-- **(b)** nothing is added when no item but the last is unterminated -/
theorem terminateInner_eq_self : ∀ (os : List Out), InnerTerminated os → terminateInner os = os
  | [], _ => rfl
  | [_], _ => rfl
  | o :: o2 :: rest, h => by
    have h' := (innerTerminated_cons₂ o o2 rest).1 h
    rw [terminateInner_cons₂, terminateInner_eq_self (o2 :: rest) h'.2]
    simp [h'.1]

/-- **(c)** back from `render` to `renderLines` -/
theorem render_eq_renderLines (mode : NewlineOutput) (os : List Out) (h : InnerTerminated os) :
    render mode os = renderLines mode (os.map Out.line) := by
  rw [render, terminateInner_eq_self os h]

/-- the form in which the users have it: the lines of the output are known (`hrout : r.out.map Out.line = ls`) -/
theorem render_of_map_line (mode : NewlineOutput) {os : List Out} {ls : List Line} (h : os.map Out.line = ls)
    (ht : LinesTerminated ls) : render mode os = renderLines mode ls := by
  rw [render_eq_renderLines mode os (innerTerminated_of_lines h ht), h]

theorem render_of_all_terminated (mode : NewlineOutput) {os : List Out} (h : ∀ o ∈ os, o.line.newline ≠ .none) :
    render mode os = renderLines mode (os.map Out.line) :=
  render_eq_renderLines mode os (innerTerminated_of_all h)

@[simp] theorem render_nil (mode : NewlineOutput) : render mode [] = [] := rfl

@[simp] theorem render_singleton (mode : NewlineOutput) (o : Out) : render mode [o] = renderLine mode o.line := by
  simp [render]

/-- what the writer puts between two consecutive items -/
def glue (o o2 : Out) : List Out :=
  if o.line.newline = .none ∧ o2.isBare = false then [Out.directive ⟨[], .lf⟩] else []

/-- what the writer puts between two stretches of items -/
def glueL (as bs : List Out) : List Out :=
  match as.getLast?, bs.head? with
  | some o, some o2 => glue o o2
  | _, _ => []

theorem terminateInner_cons_cons (o o2 : Out) (rest : List Out) :
    terminateInner (o :: o2 :: rest) = o :: (glue o o2 ++ terminateInner (o2 :: rest)) :=
  terminateInner_cons₂ o o2 rest

theorem terminateInner_append : ∀ (as bs : List Out),
    terminateInner (as ++ bs) = terminateInner as ++ glueL as bs ++ terminateInner bs
  | [], bs => by simp [glueL]
  | [a], [] => by simp [glueL]
  | [a], b :: bs => by
    simp only [List.cons_append, List.nil_append, terminateInner_cons_cons, terminateInner_singleton, glueL,
      List.getLast?_singleton, List.head?_cons]
  | a :: a2 :: as, bs => by
    have ih := terminateInner_append (a2 :: as) bs
    have hg : glueL (a :: a2 :: as) bs = glueL (a2 :: as) bs := by
      simp [glueL, List.getLast?_cons_cons]
    have ih' : terminateInner (a2 :: (as ++ bs)) = terminateInner (a2 :: as) ++ glueL (a2 :: as) bs ++ terminateInner bs := ih
    show terminateInner (a :: a2 :: (as ++ bs)) = _
    rw [terminateInner_cons_cons, ih', terminateInner_cons_cons, hg]
    simp

theorem render_append (mode : NewlineOutput) (as bs : List Out) :
    render mode (as ++ bs) = render mode as ++ renderLines mode ((glueL as bs).map Out.line) ++ render mode bs := by
  simp only [render, terminateInner_append, List.map_append, renderLines_append]

/-- nothing comes between two stretches when the first ends terminated -/
theorem glueL_of_terminated {as bs : List Out} (h : ∀ o, as.getLast? = some o → o.line.newline ≠ .none) :
    glueL as bs = [] := by
  unfold glueL
  split
  · next o o2 ho _ => simp [glue, h o ho]
  · rfl

/-- nothing comes between two stretches when the second starts with a bare terminator of `write_define_hunk` -/
theorem glueL_of_bare {as bs : List Out} (h : ∀ o, bs.head? = some o → o.isBare = true) : glueL as bs = [] := by
  unfold glueL
  split
  · next o o2 _ ho => simp [glue, h o2 ho]
  · rfl

theorem render_append_of_terminated (mode : NewlineOutput) {as bs : List Out}
    (h : ∀ o, as.getLast? = some o → o.line.newline ≠ .none) :
    render mode (as ++ bs) = render mode as ++ render mode bs := by
  rw [render_append, glueL_of_terminated h]; simp

theorem render_append_of_all_terminated (mode : NewlineOutput) {as bs : List Out}
    (h : ∀ o ∈ as, o.line.newline ≠ .none) :
    render mode (as ++ bs) = renderLines mode (as.map Out.line) ++ render mode bs := by
  rw [render_append_of_terminated mode (fun o ho => h o (List.mem_of_getLast? ho)), render_of_all_terminated mode h]

/-- the bytes of a bare newline in each mode -/
theorem renderLine_bare_lf (mode : NewlineOutput) : renderLine mode ⟨[], .lf⟩ = renderNewline mode .lf := by
  simp [renderLine]

/-- **(e)** the new behaviour, positively: an unterminated line which is followed by anything but a bare terminator gets the
    newline of the mode (`[NL]`, with `--newline-output crlf` `[CR, NL]`) before what follows is written -/
theorem render_terminates_inner (mode : NewlineOutput) (pre : List Out) (o o2 : Out) (rest : List Out)
    (hn : o.line.newline = .none) (hb : o2.isBare = false) :
    render mode (pre ++ [o] ++ o2 :: rest) =
      render mode (pre ++ [o]) ++ renderNewline mode .lf ++ render mode (o2 :: rest) ∧
    ∃ a, render mode (pre ++ [o]) = a ++ o.line.content := by
  constructor
  · rw [render_append]
    have : glueL (pre ++ [o]) (o2 :: rest) = [Out.directive ⟨[], .lf⟩] := by
      simp [glueL, glue, hn, hb]
    rw [this]
    simp [Out.line, renderLine_bare_lf]
  · refine ⟨render mode pre ++ renderLines mode ((glueL pre [o]).map Out.line), ?_⟩
    rw [render_append, render_singleton, renderLine_of_none mode o.line hn]

theorem renderNewline_lf (mode : NewlineOutput) :
    renderNewline mode .lf = (if mode = .crlf then [CR, NL] else [NL]) := by
  cases mode <;> simp [renderNewline]

/-- the reported case (D97): "a\nb\nc" without a final newline and a hunk which adds "d" after it -/
theorem render_example :
    render .lf [.fromFile 2 ⟨[99], .none⟩, .fromPatch ⟨[100], .lf⟩] = [99, 10, 100, 10] := by decide

#guard render .lf [.fromFile 2 ⟨str "c", .none⟩, .fromPatch ⟨str "d", .lf⟩] == str "c\nd\n"
#guard render .lf [.fromFile 0 ⟨str "a", .lf⟩, .fromFile 1 ⟨str "b", .lf⟩, .fromFile 2 ⟨str "c", .none⟩,
  .fromPatch ⟨str "d", .lf⟩] == str "a\nb\nc\nd\n"
#guard render .crlf [.fromFile 2 ⟨str "c", .none⟩, .fromPatch ⟨str "d", .lf⟩] == str "c\r\nd\r\n"
-- the last line may stay as it is; a bare terminator of `write_define_hunk` is not doubled
#guard render .lf [.fromFile 1 ⟨str "b", .lf⟩, .fromFile 2 ⟨str "c", .none⟩] == str "b\nc"
#guard render .lf [.fromFile 2 ⟨str "c", .none⟩, .directive ⟨[], .lf⟩, .directive ⟨str "#endif", .lf⟩] == str "c\n#endif\n"
#guard render .lf [.fromFile 2 ⟨str "c", .none⟩, .directive ⟨str "#ifdef X", .lf⟩] == str "c\n#ifdef X\n"

/-! #### the rule on lines: outputs without `-D` items -/

/-- the writer's rule on a list of lines: a line without newline which is not the last is followed by a bare newline -/
def terminate : List Line → List Line
  | [] => []
  | [l] => [l]
  | l :: l2 :: rest =>
    if l.newline = .none then l :: ⟨[], .lf⟩ :: terminate (l2 :: rest) else l :: terminate (l2 :: rest)

/-- the intended bytes of a list of lines in a mode: every line as it is, except that a line without newline that is not the
    last one gets the newline of the mode -/
def renderText (mode : NewlineOutput) (ls : List Line) : Bytes := renderLines mode (terminate ls)

/-- the same, stated directly: every line but the last is written as if it were terminated -/
def forceNewline (l : Line) : Line := if l.newline = .none then { l with newline := .lf } else l

def terminate' : List Line → List Line
  | [] => []
  | [l] => [l]
  | l :: l2 :: rest => forceNewline l :: terminate' (l2 :: rest)

theorem renderLines_terminate (mode : NewlineOutput) : ∀ ls : List Line,
    renderLines mode (terminate ls) = renderLines mode (terminate' ls)
  | [] => rfl
  | [_] => rfl
  | l :: l2 :: rest => by
    rw [terminate, terminate']
    have ih := renderLines_terminate mode (l2 :: rest)
    by_cases h : l.newline = .none
    · simp only [h, if_true, renderLines_cons, ih, forceNewline]
      rcases l with ⟨c, nl⟩
      simp only at h; subst h
      simp [renderLine, renderNewline]
    · simp only [h, if_false, renderLines_cons, ih, forceNewline]

theorem renderText_eq (mode : NewlineOutput) (ls : List Line) : renderText mode ls = renderLines mode (terminate' ls) :=
  renderLines_terminate mode ls

theorem terminate_eq_self : ∀ (ls : List Line), LinesTerminated ls → terminate ls = ls
  | [], _ => rfl
  | [_], _ => rfl
  | l :: l2 :: rest, h => by
    have h' := (linesTerminated_cons₂ l l2 rest).1 h
    rw [terminate, terminate_eq_self (l2 :: rest) h'.2]
    simp [h'.1]

theorem renderText_eq_renderLines (mode : NewlineOutput) (ls : List Line) (h : LinesTerminated ls) :
    renderText mode ls = renderLines mode ls := by
  rw [renderText, terminate_eq_self ls h]

/-- no item is a bare terminator of `write_define_hunk` (in particular: an output made without `-D`) -/
def NoBare (os : List Out) : Prop := ∀ o ∈ os, o.isBare = false

theorem NoBare.nil : NoBare [] := by intro o h; cases h

theorem NoBare.append {as bs : List Out} (ha : NoBare as) (hb : NoBare bs) : NoBare (as ++ bs) := by
  intro o ho
  rcases List.mem_append.1 ho with h | h
  · exact ha o h
  · exact hb o h

theorem noBare_copyRange (file : List Line) (i n : Nat) : NoBare (copyRange file i n) := by
  intro o ho
  obtain ⟨k, l, rfl, _⟩ := mem_copyRange file i n o ho
  rfl

theorem noBare_writeHunk {file : List Line} {ls : List PatchLine} {cur c : Nat} {out : List Out}
    (h : writeHunk file ls cur = some (out, c)) : NoBare out := by
  intro o ho
  rcases mem_writeHunk file ls cur out c h o ho with ⟨k, l, rfl, _⟩ | ⟨pl, _, _, rfl⟩ <;> rfl

theorem noBare_hunkOutput (file : List Line) : ∀ (ls : List PatchLine) (cur : Nat), NoBare (hunkOutput file ls cur) := by
  intro ls
  induction ls with
  | nil => intro cur; exact NoBare.nil
  | cons pl rest ih =>
    intro cur
    rw [hunkOutput]
    split
    · intro o ho
      rcases List.mem_cons.1 ho with rfl | ho
      · rfl
      · exact ih cur o ho
    · split
      · refine NoBare.append ?_ (ih _)
        split
        · intro o ho; simp at ho; subst ho; rfl
        · exact NoBare.nil
      · exact ih _

theorem noBare_spliceAt (file : List Line) : ∀ (pls : List (Hunk × Nat)) (c : Nat), NoBare (spliceAt file c pls) := by
  intro pls
  induction pls with
  | nil => intro c; exact noBare_copyRange _ _ _
  | cons hp rest ih =>
    intro c
    obtain ⟨h, p⟩ := hp
    rw [spliceAt]
    exact ((noBare_copyRange _ _ _).append (noBare_hunkOutput _ _ _)).append (ih _)

theorem terminateInner_map_line : ∀ (os : List Out), NoBare os →
    (terminateInner os).map Out.line = terminate (os.map Out.line)
  | [], _ => rfl
  | [_], _ => rfl
  | o :: o2 :: rest, h => by
    have ih := terminateInner_map_line (o2 :: rest) (fun x hx => h x (List.mem_cons_of_mem _ hx))
    have hb : o2.isBare = false := h o2 (by simp)
    simp only [List.map_cons] at ih ⊢
    rw [terminateInner_cons₂, terminate]
    by_cases hn : o.line.newline = .none
    · rw [if_pos ⟨hn, hb⟩, if_pos hn, List.map_cons, List.map_append, ih]; rfl
    · rw [if_neg (fun h => hn h.1), if_neg hn, List.map_cons, List.nil_append, ih]

/-- **without `-D`** the bytes of the output are the intended bytes of its lines -/
theorem render_eq_renderText (mode : NewlineOutput) (os : List Out) (h : NoBare os) :
    render mode os = renderText mode (os.map Out.line) := by
  rw [render, terminateInner_map_line os h, renderText]

theorem render_eq_renderText_of_map_line (mode : NewlineOutput) {os : List Out} {ls : List Line} (h : NoBare os)
    (hl : os.map Out.line = ls) : render mode os = renderText mode ls := by
  rw [render_eq_renderText mode os h, hl]

#guard renderText .lf [⟨str "a", .lf⟩, ⟨str "c", .none⟩, ⟨str "d", .lf⟩] == str "a\nc\nd\n"
#guard renderText .keep [⟨str "a", .crlf⟩, ⟨str "c", .none⟩, ⟨str "d", .none⟩] == str "a\r\nc\nd"

/-! #### what the rule leaves as it is -/

theorem forceNewline_newline (l : Line) : (forceNewline l).newline ≠ .none := by
  unfold forceNewline; split <;> simp_all

theorem forceNewline_content (l : Line) : (forceNewline l).content = l.content := by
  unfold forceNewline; split <;> rfl

theorem forceNewline_of_terminated {l : Line} (h : l.newline ≠ .none) : forceNewline l = l := by
  unfold forceNewline; simp [h]

/-- every line but the last is written as if it were terminated, the last as it is -/
theorem terminate'_eq : ∀ ls : List Line, terminate' ls = ls.dropLast.map forceNewline ++ ls.getLast?.toList
  | [] => rfl
  | [_] => rfl
  | l :: l2 :: rest => by
    rw [terminate', terminate'_eq (l2 :: rest), List.dropLast_cons_cons, List.getLast?_cons_cons]
    rfl

theorem linesTerminated_terminate' (ls : List Line) : LinesTerminated (terminate' ls) := by
  rw [terminate'_eq]
  refine linesTerminated_append ?_ ?_
  · intro l hl
    obtain ⟨l', _, rfl⟩ := List.mem_map.1 hl
    exact forceNewline_newline l'
  · cases ls.getLast? with
    | none => exact linesTerminated_nil
    | some l => exact linesTerminated_singleton l

theorem terminate'_length (ls : List Line) : (terminate' ls).length = ls.length := by
  rw [terminate'_eq]
  rcases List.eq_nil_or_concat ls with rfl | ⟨i, b, rfl⟩
  · rfl
  · simp

theorem terminate'_getLast? (ls : List Line) : (terminate' ls).getLast? = ls.getLast? := by
  rw [terminate'_eq]
  rcases List.eq_nil_or_concat ls with rfl | ⟨i, b, rfl⟩
  · rfl
  · simp

theorem terminate'_content (ls : List Line) : (terminate' ls).map (·.content) = ls.map (·.content) := by
  rw [terminate'_eq]
  rcases List.eq_nil_or_concat ls with rfl | ⟨i, b, rfl⟩
  · rfl
  · simp [forceNewline_content]

theorem terminate'_eq_self {ls : List Line} (h : LinesTerminated ls) : terminate' ls = ls := by
  rw [terminate'_eq]
  have : ls.dropLast.map forceNewline = ls.dropLast := by
    conv => rhs; rw [← List.map_id ls.dropLast]
    exact List.map_congr_left (fun l hl => forceNewline_of_terminated (h l hl))
  rw [this]
  rcases List.eq_nil_or_concat ls with rfl | ⟨i, b, rfl⟩
  · rfl
  · simp

/-- the last item is written as it is -/
theorem terminateInner_getLast? : ∀ os : List Out, (terminateInner os).getLast? = os.getLast?
  | [] => rfl
  | [_] => rfl
  | o :: o2 :: rest => by
    have ih := terminateInner_getLast? (o2 :: rest)
    rw [terminateInner_cons_cons, List.getLast?_cons_cons, ← ih]
    have : o :: (glue o o2 ++ terminateInner (o2 :: rest)) = (o :: glue o o2) ++ terminateInner (o2 :: rest) := rfl
    rw [this, List.getLast?_append]
    cases h : (terminateInner (o2 :: rest)).getLast? with
    | none => rw [ih] at h; simp at h
    | some x => rfl

/-- the items of the output are all still there, in order: only bare newlines are added -/
theorem terminateInner_filter : ∀ os : List Out, NoBare os → (terminateInner os).filter (fun o => !o.isBare) = os
  | [], _ => rfl
  | [o], h => by simp [h o (by simp)]
  | o :: o2 :: rest, h => by
    have ih := terminateInner_filter (o2 :: rest) (fun x hx => h x (List.mem_cons_of_mem _ hx))
    have ho : o.isBare = false := h o (by simp)
    have hg : (glue o o2).filter (fun o => !o.isBare) = [] := by
      unfold glue; split <;> simp [Out.isBare]
    rw [terminateInner_cons_cons, List.filter_cons, List.filter_append, hg, ih]
    simp [ho]

theorem terminateInner_cons_head (o : Out) (os : List Out) : ∃ t, terminateInner (o :: os) = o :: t := by
  cases os with
  | nil => exact ⟨[], rfl⟩
  | cons o2 rest => exact ⟨_, terminateInner_cons_cons o o2 rest⟩

/-- in what is written, an unterminated line that is not the last is followed by a bare terminator (one of `write_define_hunk`, or
    the one the writer adds) -/
theorem terminateInner_inner : ∀ (os pre : List Out) (o o2 : Out) (rest : List Out),
    terminateInner os = pre ++ o :: o2 :: rest → o.line.newline = .none → o2.isBare = true
  | [], pre, o, o2, rest, h, _ => by simp at h
  | [x], pre, o, o2, rest, h, _ => by
    have := congrArg List.length h
    simp at this; omega
  | x :: x2 :: xs, pre, o, o2, rest, h, hn => by
    rw [terminateInner_cons_cons] at h
    obtain ⟨t, ht⟩ := terminateInner_cons_head x2 xs
    cases pre with
    | nil =>
      simp only [List.nil_append, List.cons.injEq] at h
      obtain ⟨rfl, h⟩ := h
      unfold glue at h
      split at h
      · simp only [List.cons_append, List.nil_append, List.cons.injEq] at h
        rw [← h.1]; rfl
      · next hc =>
        rw [ht] at h
        simp only [List.nil_append, List.cons.injEq] at h
        rw [← h.1]
        cases hb : x2.isBare with
        | true => rfl
        | false => exact absurd ⟨hn, hb⟩ hc
    | cons a pre' =>
      simp only [List.cons_append, List.cons.injEq] at h
      obtain ⟨_, h⟩ := h
      unfold glue at h
      split at h
      · cases pre' with
        | nil =>
          simp only [List.cons_append, List.nil_append, List.cons.injEq] at h
          rw [← h.1] at hn
          simp [Out.line] at hn
        | cons g pre'' =>
          simp only [List.cons_append, List.nil_append, List.cons.injEq] at h
          exact terminateInner_inner (x2 :: xs) pre'' o o2 rest h.2 hn
      · exact terminateInner_inner (x2 :: xs) pre' o o2 rest (by simpa using h) hn

end PatchModel.Render
