/-
  Lemmas/Render — rendering of lines (`renderLines`) and reading of lines (`splitLines`), helper lemmas for C14.
-/
import PatchModel.Spec.Script
import PatchModel.Model.Stream
namespace PatchModel.Render
open PatchModel

/-! ### renderLines -/

@[simp] theorem renderLines_nil (m : NewlineOutput) : renderLines m [] = [] := rfl

@[simp] theorem renderLines_cons (m : NewlineOutput) (l : Line) (ls : List Line) :
    renderLines m (l :: ls) = renderLine m l ++ renderLines m ls := by
  simp [renderLines]

theorem renderLines_append (m : NewlineOutput) (as bs : List Line) :
    renderLines m (as ++ bs) = renderLines m as ++ renderLines m bs := by
  simp [renderLines]

theorem renderLine_lf (m : NewlineOutput) (hm : m = .lf ∨ m = .native) (l : Line) :
    renderLine m l = l.content ++ (if l.newline = .none then [] else [NL]) := by
  rcases l with ⟨c, nl⟩
  rcases hm with rfl | rfl <;> cases nl <;> simp [renderLine, renderNewline]

theorem renderLine_crlf (l : Line) :
    renderLine .crlf l = l.content ++ (if l.newline = .none then [] else [CR, NL]) := by
  rcases l with ⟨c, nl⟩
  cases nl <;> simp [renderLine, renderNewline]

theorem renderLine_keep (l : Line) :
    renderLine .keep l = l.content ++
      (match l.newline with | .none => [] | .lf => [NL] | .crlf => [CR, NL]) := by
  rcases l with ⟨c, nl⟩
  cases nl <;> simp [renderLine, renderNewline]

/-- a terminated line is rendered with a final NL in every mode -/
theorem renderLine_getLast_of_terminated (m : NewlineOutput) (l : Line) (h : l.newline ≠ .none) :
    (renderLine m l).getLast? = some NL := by
  rcases l with ⟨c, nl⟩
  cases nl <;> cases m <;> simp_all [renderLine, renderNewline, List.getLast?_append]

theorem renderLine_of_none (m : NewlineOutput) (l : Line) (h : l.newline = .none) :
    renderLine m l = l.content := by
  rcases l with ⟨c, nl⟩
  simp only at h
  subst h
  simp [renderLine, renderNewline]

/-! ### mkLine / splitLinesGo -/

theorem dropLast_append_of_getLast? {α} (l : List α) (a : α) (h : l.getLast? = some a) :
    l.dropLast ++ [a] = l := by
  rcases List.eq_nil_or_concat l with rfl | ⟨i, b, rfl⟩
  · simp at h
  · simp at h; simp [h]

theorem renderLine_keep_mkLine (cur : Bytes) : renderLine .keep (mkLine cur) = cur ++ [NL] := by
  unfold mkLine
  split
  · rename_i h
    have := dropLast_append_of_getLast? cur CR h
    simp only [renderLine, renderNewline]
    simp only [if_true]
    calc cur.dropLast ++ [CR, NL] = (cur.dropLast ++ [CR]) ++ [NL] := by simp
      _ = cur ++ [NL] := by rw [this]
  · simp [renderLine, renderNewline]

theorem mkLine_newline_ne_none (cur : Bytes) : (mkLine cur).newline ≠ .none := by
  unfold mkLine; split <;> simp

theorem mkLine_content_subset (cur : Bytes) : ∀ b ∈ (mkLine cur).content, b ∈ cur := by
  unfold mkLine
  split
  · intro b hb; exact List.dropLast_subset _ hb
  · intro b hb; exact hb

theorem mkLine_lf (cur : Bytes) (h : (mkLine cur).newline = .lf) :
    (mkLine cur).content.getLast? ≠ some CR := by
  unfold mkLine at h ⊢
  split
  · rename_i h'; simp [h'] at h
  · assumption

theorem renderLines_keep_splitLinesGo (cur bs : Bytes) :
    renderLines .keep (splitLinesGo cur bs) = cur ++ bs := by
  induction bs generalizing cur with
  | nil =>
    unfold splitLinesGo
    split
    · simp_all
    · simp [renderLine, renderNewline]
  | cons c rest ih =>
    unfold splitLinesGo
    split
    · rename_i h
      have : c = NL := by simpa using h
      subst this
      rw [renderLines_cons, ih, renderLine_keep_mkLine]; simp
    · rw [ih]; simp

theorem splitLinesGo_noNL (cur bs : Bytes) (hc : NL ∉ cur) :
    ∀ l ∈ splitLinesGo cur bs, NL ∉ l.content := by
  induction bs generalizing cur with
  | nil =>
    unfold splitLinesGo
    split
    · simp
    · intro l hl; simp at hl; subst hl; exact hc
  | cons c rest ih =>
    unfold splitLinesGo
    split
    · intro l hl
      rcases List.mem_cons.mp hl with rfl | hl
      · intro hm; exact hc (mkLine_content_subset cur _ hm)
      · exact ih [] (by simp) l hl
    · rename_i h
      have hne : c ≠ NL := by simpa using h
      apply ih
      intro hm
      rcases List.mem_append.mp hm with hm | hm
      · exact hc hm
      · simp at hm; exact hne hm.symm

theorem splitLinesGo_none_nonempty (cur bs : Bytes) :
    ∀ l ∈ splitLinesGo cur bs, l.newline = .none → l.content ≠ [] := by
  induction bs generalizing cur with
  | nil =>
    unfold splitLinesGo
    split
    · simp
    · intro l hl; simp at hl; subst hl; intro _; assumption
  | cons c rest ih =>
    unfold splitLinesGo
    split
    · intro l hl hn
      rcases List.mem_cons.mp hl with rfl | hl
      · exact absurd hn (mkLine_newline_ne_none cur)
      · exact ih [] l hl hn
    · exact ih _

theorem splitLinesGo_lf_noCR (cur bs : Bytes) :
    ∀ l ∈ splitLinesGo cur bs, l.newline = .lf → l.content.getLast? ≠ some CR := by
  induction bs generalizing cur with
  | nil =>
    unfold splitLinesGo
    split
    · simp
    · intro l hl; simp at hl; subst hl; intro h; simp at h
  | cons c rest ih =>
    unfold splitLinesGo
    split
    · intro l hl hn
      rcases List.mem_cons.mp hl with rfl | hl
      · exact mkLine_lf cur hn
      · exact ih [] l hl hn
    · exact ih _

theorem splitLinesGo_none_last (cur bs : Bytes) (pre post : List Line) (l : Line)
    (h : splitLinesGo cur bs = pre ++ l :: post) (hn : l.newline = .none) : post = [] := by
  induction bs generalizing cur pre with
  | nil =>
    unfold splitLinesGo at h
    split at h
    · simp at h
    · cases pre with
      | nil => simp at h; exact h.2
      | cons a pre => simp at h
  | cons c rest ih =>
    unfold splitLinesGo at h
    split at h
    · cases pre with
      | nil =>
        simp only [List.nil_append, List.cons.injEq] at h
        exact absurd (h.1 ▸ hn) (mkLine_newline_ne_none cur)
      | cons a pre =>
        simp only [List.cons_append, List.cons.injEq] at h
        exact ih [] pre h.2
    · exact ih _ pre h

/-! ### copyRange -/

theorem mem_copyRange (file : List Line) (i n : Nat) (o : Out) (h : o ∈ copyRange file i n) :
    ∃ k l, o = Out.fromFile k l ∧ file[k]? = some l := by
  unfold copyRange at h
  rw [List.mem_map] at h
  obtain ⟨⟨l, k⟩, hm, rfl⟩ := h
  refine ⟨i + k, l, rfl, ?_⟩
  have := List.mem_zipIdx hm
  simp only [Nat.zero_add, Nat.sub_zero] at this
  obtain ⟨_, _, hget⟩ := this
  have h2 : ((file.drop i).take n)[k]? = some l := by
    rw [hget]; exact List.getElem?_eq_getElem _
  rw [List.getElem?_take] at h2
  split at h2
  · rw [List.getElem?_drop] at h2; exact h2
  · simp at h2

theorem copyRange_map_line (file : List Line) (i n : Nat) :
    (copyRange file i n).map Out.line = (file.drop i).take n := by
  unfold copyRange
  rw [List.map_map]
  have : (Out.line ∘ fun (x : Line × Nat) => Out.fromFile (i + x.2) x.1) = Prod.fst := by
    funext x; rfl
  simp only [this]
  exact List.zipIdx_map_fst _ _

end PatchModel.Render
