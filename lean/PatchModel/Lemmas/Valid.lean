/-
  Lemmas/Valid — reusable facts about valid scripts (`Valid`, `splice`), hunks whose old side is in
  place (`writeHunk`, `hunkOutput`, `admissibleB` at fuzz 0), reversal (`reverseHunk`, `reversePatch`,
  the reversed script of a valid script is a valid script of the new file), and the reject writer on
  well-formed hunks.  Imports only Spec.Script; no reference to the locator theorems.
-/
import PatchModel.Spec.Script
namespace PatchModel.Script
open PatchModel

theorem sp_ne_plus : (SP == PLUS) = false := by decide
theorem sp_ne_minus : (SP == MINUS) = false := by decide
theorem plus_ne_sp : (PLUS == SP) = false := by decide
theorem plus_ne_minus : (PLUS == MINUS) = false := by decide
theorem minus_ne_sp : (MINUS == SP) = false := by decide
theorem minus_ne_plus : (MINUS == PLUS) = false := by decide

/-- only ' ', '+', '-' lines -/
def OpsOK (ls : List PatchLine) : Prop := ∀ pl ∈ ls, pl.op = SP ∨ pl.op = PLUS ∨ pl.op = MINUS

theorem OpsOK.tail {pl : PatchLine} {ls : List PatchLine} (h : OpsOK (pl :: ls)) : OpsOK ls :=
  fun x hx => h x (List.mem_cons_of_mem _ hx)
theorem OpsOK.head {pl : PatchLine} {ls : List PatchLine} (h : OpsOK (pl :: ls)) :
    pl.op = SP ∨ pl.op = PLUS ∨ pl.op = MINUS := h pl (List.mem_cons_self ..)

theorem oldOf_cons_sp {pl : PatchLine} {ls : List PatchLine} (h : pl.op = SP) :
    oldOf (pl :: ls) = pl.line :: oldOf ls := by simp [oldOf, bne, h, sp_ne_plus]
theorem oldOf_cons_plus {pl : PatchLine} {ls : List PatchLine} (h : pl.op = PLUS) :
    oldOf (pl :: ls) = oldOf ls := by simp [oldOf, h]
theorem oldOf_cons_minus {pl : PatchLine} {ls : List PatchLine} (h : pl.op = MINUS) :
    oldOf (pl :: ls) = pl.line :: oldOf ls := by simp [oldOf, bne, h, minus_ne_plus]
theorem newOf_cons_sp {pl : PatchLine} {ls : List PatchLine} (h : pl.op = SP) :
    newOf (pl :: ls) = pl.line :: newOf ls := by simp [newOf, bne, h, sp_ne_minus]
theorem newOf_cons_plus {pl : PatchLine} {ls : List PatchLine} (h : pl.op = PLUS) :
    newOf (pl :: ls) = pl.line :: newOf ls := by simp [newOf, bne, h, plus_ne_minus]
theorem newOf_cons_minus {pl : PatchLine} {ls : List PatchLine} (h : pl.op = MINUS) :
    newOf (pl :: ls) = newOf ls := by simp [newOf, h]

theorem oldOf_length_le (ls : List PatchLine) : (oldOf ls).length ≤ ls.length := by
  simp only [oldOf, List.length_map]; exact List.length_filter_le _ _

/-! ### `Valid` -/

theorem valid_allWF {file : List Line} {c : Nat} {d : Int} {hs : List Hunk} (hv : Valid file c d hs) :
    ∀ h ∈ hs, h.WF := by
  induction hv with
  | nil => intro h hm; cases hm
  | cons c d h hs p hw _ _ _ _ _ _ _ ih =>
    intro x hm
    rcases List.mem_cons.1 hm with e | e
    · rw [e]; exact hw
    · exact ih x e

/-! ### copyRange -/

theorem copyRange_map_line (file : List Line) (i n : Nat) :
    (copyRange file i n).map Out.line = (file.drop i).take n := by
  unfold copyRange
  rw [List.map_map]
  have : (Out.line ∘ fun (x : Line × Nat) => Out.fromFile (i + x.2) x.1) = Prod.fst := by
    funext x; rfl
  rw [this]
  simp

theorem copyRange_zero (file : List Line) (c : Nat) : copyRange file c 0 = [] := by
  simp [copyRange]

/-! ### write_hunk on a hunk whose old side is in place -/

theorem writeHunk_eq (file : List Line) : ∀ ls p, OpsOK ls → p + (oldOf ls).length ≤ file.length →
    writeHunk file ls p = some (hunkOutput file ls p, p + (oldOf ls).length) := by
  intro ls
  induction ls with
  | nil => intro p _ _; simp [writeHunk, hunkOutput, oldOf]
  | cons pl rest ih =>
    intro p hops hfit
    rw [writeHunk, hunkOutput]
    rcases hops.head with hop | hop | hop
    · rw [oldOf_cons_sp hop, List.length_cons] at hfit ⊢
      have hlt : p < file.length := by omega
      have hne : (p == file.length) = false := by simp; omega
      simp only [hop, sp_ne_plus, if_false, beq_self_eq_true, if_true, Bool.false_eq_true,
        List.getElem?_eq_getElem hlt, hne]
      rw [ih (p + 1) hops.tail (by omega)]
      simp; omega
    · rw [oldOf_cons_plus hop] at hfit ⊢
      simp only [hop, beq_self_eq_true, if_true, plus_ne_sp, if_false, Bool.false_eq_true]
      rw [ih p hops.tail hfit]
      simp
    · rw [oldOf_cons_minus hop, List.length_cons] at hfit ⊢
      simp only [hop, minus_ne_plus, minus_ne_sp, if_false, beq_self_eq_true, if_true, Bool.false_eq_true]
      rw [ih (p + 1) hops.tail (by omega)]
      simp; omega

theorem hunkOutput_map_line (file : List Line) : ∀ ls p, OpsOK ls →
    (file.drop p).take (oldOf ls).length = oldOf ls → p + (oldOf ls).length ≤ file.length →
    (hunkOutput file ls p).map Out.line = newOf ls := by
  intro ls
  induction ls with
  | nil => intro p _ _ _; simp [hunkOutput, newOf]
  | cons pl rest ih =>
    intro p hops hold hfit
    rw [hunkOutput]
    rcases hops.head with hop | hop | hop
    · rw [oldOf_cons_sp hop, List.length_cons] at hfit hold
      have hlt : p < file.length := by omega
      rw [List.drop_eq_getElem_cons hlt, List.take_succ_cons] at hold
      injection hold with h1 h2
      simp only [hop, sp_ne_plus, if_false, beq_self_eq_true, if_true, Bool.false_eq_true,
        List.getElem?_eq_getElem hlt, newOf_cons_sp hop]
      rw [List.map_append, ih (p + 1) hops.tail h2 (by omega)]
      simp [Out.line, h1]
    · rw [oldOf_cons_plus hop] at hfit hold
      simp only [hop, beq_self_eq_true, if_true, newOf_cons_plus hop, List.map_cons, Out.line]
      rw [ih p hops.tail hold hfit]
    · rw [oldOf_cons_minus hop, List.length_cons] at hfit hold
      have hlt : p < file.length := by omega
      rw [List.drop_eq_getElem_cons hlt, List.take_succ_cons] at hold
      injection hold with h1 h2
      simp only [hop, minus_ne_plus, minus_ne_sp, if_false, Bool.false_eq_true, newOf_cons_minus hop]
      exact ih (p + 1) hops.tail h2 (by omega)


/-! ### admissibility at the stated place -/

theorem lineEqB_refl (iw : Bool) (a : Line) : lineEqB iw a a = true := by
  simp [lineEqB]

theorem fuzzPair_zero (ls : List PatchLine) : fuzzPair ls 0 = (0, 0) := by
  simp only [fuzzPair]
  congr 1 <;> omega

theorem getElem?_of_drop_take {α : Type} (file side : List α) (p : Nat)
    (h : (file.drop p).take side.length = side) (i : Nat) (hi : i < side.length) :
    file[p + i]? = side[i]? := by
  have : ((file.drop p).take side.length)[i]? = side[i]? := by rw [h]
  rw [List.getElem?_take_of_lt hi, List.getElem?_drop] at this
  exact this

theorem admissible_of_inplace (file : List Line) (h : Hunk) (iw : Bool) (maxFuzz : Int) (p : Nat)
    (hF : 0 ≤ maxFuzz) (hne : h.lines ≠ [])
    (hold : (file.drop p).take (oldOf h.lines).length = oldOf h.lines)
    (hfit : p + (oldOf h.lines).length ≤ file.length) (_hpos : 0 < (oldOf h.lines).length) :
    admissibleB file h iw maxFuzz p 0 = true := by
  unfold admissibleB
  rw [fuzzPair_zero]
  have hlen : 0 < h.lines.length := List.length_pos_iff.2 hne
  simp only [Bool.and_eq_true, decide_eq_true_eq, List.all_eq_true, List.mem_range, Bool.or_eq_true]
  refine ⟨⟨⟨⟨by simpa using hF, by omega⟩, by omega⟩, by omega⟩, ?_⟩
  intro i hi
  right
  rw [getElem?_of_drop_take file (oldOf h.lines) p hold i hi, List.getElem?_eq_getElem hi]
  exact lineEqB_refl iw _


/-! ### reversal -/

/-- `reverse(Hunk&)` on one line -/
def revLine (pl : PatchLine) : PatchLine :=
  if pl.op == PLUS then { pl with op := MINUS }
  else if pl.op == MINUS then { pl with op := PLUS }
  else pl

theorem reverseHunk_lines (h : Hunk) : (reverseHunk h).lines = h.lines.map revLine := rfl

theorem revLine_revLine (pl : PatchLine) : revLine (revLine pl) = pl := by
  obtain ⟨op, l⟩ := pl
  unfold revLine
  by_cases h1 : op = PLUS
  · subst h1; simp [show (MINUS == PLUS) = false by decide]
  · by_cases h2 : op = MINUS
    · subst h2; simp [show (MINUS == PLUS) = false by decide]
    · simp [h1, h2]

theorem revLine_line (pl : PatchLine) : (revLine pl).line = pl.line := by
  unfold revLine; split
  · rfl
  · split <;> rfl

theorem revLine_op_ne_plus (pl : PatchLine) : ((revLine pl).op != PLUS) = (pl.op != MINUS) := by
  obtain ⟨op, l⟩ := pl
  unfold revLine
  by_cases h1 : op = PLUS
  · subst h1; rfl
  · by_cases h2 : op = MINUS
    · subst h2; rfl
    · have e1 : (op == PLUS) = false := beq_eq_false_iff_ne.2 h1
      have e2 : (op == MINUS) = false := beq_eq_false_iff_ne.2 h2
      simp [bne, e1, e2]

theorem revLine_op_ne_minus (pl : PatchLine) : ((revLine pl).op != MINUS) = (pl.op != PLUS) := by
  obtain ⟨op, l⟩ := pl
  unfold revLine
  by_cases h1 : op = PLUS
  · subst h1; rfl
  · by_cases h2 : op = MINUS
    · subst h2; rfl
    · have e1 : (op == PLUS) = false := beq_eq_false_iff_ne.2 h1
      have e2 : (op == MINUS) = false := beq_eq_false_iff_ne.2 h2
      simp [bne, e1, e2]

theorem oldOf_map_revLine (ls : List PatchLine) : oldOf (ls.map revLine) = newOf ls := by
  induction ls with
  | nil => rfl
  | cons pl rest ih =>
    simp only [oldOf, newOf, List.map_cons, List.filter_cons] at ih ⊢
    rw [revLine_op_ne_plus]
    split
    · simp only [List.map_cons, revLine_line, ih]
    · exact ih

theorem newOf_map_revLine (ls : List PatchLine) : newOf (ls.map revLine) = oldOf ls := by
  induction ls with
  | nil => rfl
  | cons pl rest ih =>
    simp only [oldOf, newOf, List.map_cons, List.filter_cons] at ih ⊢
    rw [revLine_op_ne_minus]
    split
    · simp only [List.map_cons, revLine_line, ih]
    · exact ih

theorem reverseHunk_reverseHunk (h : Hunk) : reverseHunk (reverseHunk h) = h := by
  obtain ⟨o, n, ls⟩ := h
  show Hunk.mk o n ((ls.map revLine).map revLine) = _
  congr 1
  rw [List.map_map]
  conv => rhs; rw [← List.map_id ls]
  apply List.map_congr_left
  intro a _
  exact revLine_revLine a

theorem map_reverseHunk_reverseHunk (hs : List Hunk) : (hs.map reverseHunk).map reverseHunk = hs := by
  rw [List.map_map]
  conv => rhs; rw [← List.map_id hs]
  apply List.map_congr_left
  intro a _
  exact reverseHunk_reverseHunk a

theorem reversePatch_reversePatch (p : Patch) : reversePatch (reversePatch p) = p := by
  obtain ⟨f, op, ip, pr, op', np, ot, nt, om, nm, hs⟩ := p
  simp only [reversePatch, map_reverseHunk_reverseHunk]
  cases op <;> rfl

theorem oldOf_reverseHunk (h : Hunk) : oldOf (reverseHunk h).lines = newOf h.lines :=
  oldOf_map_revLine h.lines
theorem newOf_reverseHunk (h : Hunk) : newOf (reverseHunk h).lines = oldOf h.lines :=
  newOf_map_revLine h.lines

theorem revLine_opsOK {ls : List PatchLine}
    (h : ∀ pl ∈ ls, pl.op = SP ∨ pl.op = PLUS ∨ pl.op = MINUS) :
    ∀ pl ∈ ls.map revLine, pl.op = SP ∨ pl.op = PLUS ∨ pl.op = MINUS := by
  intro pl hpl
  obtain ⟨q, hq, rfl⟩ := List.mem_map.1 hpl
  rcases h q hq with e | e | e
  · left; simp [revLine, e, show (SP == PLUS) = false by decide, show (SP == MINUS) = false by decide]
  · right; right; simp [revLine, e]
  · right; left; simp [revLine, e, show (MINUS == PLUS) = false by decide]

theorem reverseHunk_WF {h : Hunk} (hw : h.WF) : (reverseHunk h).WF := by
  obtain ⟨h1, h2, h3⟩ := hw
  refine ⟨revLine_opsOK h1, ?_, ?_⟩
  · rw [oldOf_reverseHunk]; exact h3
  · rw [newOf_reverseHunk]; exact h2

theorem pos0_reverseHunk (h : Hunk) : (reverseHunk h).pos0 = h.newPos0 := rfl
theorem newPos0_reverseHunk (h : Hunk) : (reverseHunk h).newPos0 = h.pos0 := rfl

theorem drop_split {α : Type} (file : List α) (c p n : Nat) (hcp : c ≤ p) :
    (file.drop c).take (p - c) ++ ((file.drop p).take n ++ file.drop (p + n)) = file.drop c := by
  have h1 : (file.drop p).take n ++ file.drop (p + n) = file.drop p := by
    rw [← List.drop_drop]; exact List.take_append_drop n _
  have h2 : file.drop p = (file.drop c).drop (p - c) := by
    rw [List.drop_drop]; congr 1; omega
  rw [h1, h2]; exact List.take_append_drop _ _

theorem drop_split' {α : Type} (file side : List α) (c p : Nat) (hcp : c ≤ p)
    (hs : (file.drop p).take side.length = side) :
    (file.drop c).take (p - c) ++ (side ++ file.drop (p + side.length)) = file.drop c := by
  have := drop_split file c p side.length hcp
  rwa [hs] at this

theorem reverse_valid_gen (file N : List Line) :
    ∀ (c : Nat) (d : Int) (hs : List Hunk), Valid file c d hs →
    ∀ (pre : List Line), N = pre ++ splice file c hs → (pre.length : Int) = c + d →
    (∀ h ∈ hs, ¬ (h.new.count = 0 ∧ h.new.start = 0 ∧ N ≠ [])) →
    Valid N pre.length (-d) (hs.map reverseHunk) ∧
      splice N pre.length (hs.map reverseHunk) = file.drop c := by
  intro c d hs hv
  induction hv with
  | nil c d hc =>
    intro pre hN hlen _
    simp only [splice] at hN
    subst hN
    refine ⟨Valid.nil _ _ (by simp), ?_⟩
    simp [splice]
  | cons c d h hs p hw hp hcp hold hfit hnew hex hv' ih =>
    intro pre hN hlen hx
    have hp0 : h.pos0.toNat = p := by rw [hp]; simp
    simp only [splice, hp0] at hN
    have hmidlen : ((file.drop c).take (p - c)).length = p - c := by
      rw [List.length_take, List.length_drop]; omega
    have hN' : N = (pre ++ (file.drop c).take (p - c) ++ newOf h.lines) ++
        splice file (p + (oldOf h.lines).length) hs := by
      rw [hN]; simp only [List.append_assoc]
    have hlen' : (((pre ++ (file.drop c).take (p - c) ++ newOf h.lines).length : Nat) : Int) =
        ((p + (oldOf h.lines).length : Nat) : Int) + (d + (h.new.count - h.old.count)) := by
      rw [List.length_append, List.length_append, hmidlen, hw.2.1, hw.2.2]
      omega
    obtain ⟨ihv, ihs⟩ := ih _ hN' hlen' (fun x hxm => hx x (List.mem_cons_of_mem _ hxm))
    have hq : ((pre.length + (p - c) : Nat) : Int) = (p : Int) + d := by omega
    have hdrop : N.drop (pre.length + (p - c)) =
        newOf h.lines ++ splice file (p + (oldOf h.lines).length) hs := by
      rw [hN, ← List.append_assoc, ← List.append_assoc, List.append_assoc _ (newOf h.lines)]
      apply List.drop_left'
      rw [List.length_append, hmidlen]
    have hrp : (reverseHunk h).pos0.toNat = pre.length + (p - c) := by
      rw [pos0_reverseHunk, hnew, ← hq]; omega
    constructor
    · simp only [List.map_cons]
      refine Valid.cons _ _ _ _ (pre.length + (p - c)) (reverseHunk_WF hw) ?_ (by omega) ?_ ?_ ?_ ?_ ?_
      · rw [pos0_reverseHunk, hnew, hq]
      · rw [oldOf_reverseHunk, hdrop]; simp
      · rw [oldOf_reverseHunk]
        have : N.length = pre.length + (p - c) + (newOf h.lines).length +
            (splice file (p + (oldOf h.lines).length) hs).length := by
          rw [hN']; simp [hmidlen]; omega
        omega
      · rw [newPos0_reverseHunk, hp, hq]; omega
      · intro ⟨a, b, c'⟩
        exact hx h (List.mem_cons_self ..) ⟨a, b, c'⟩
      · have e1 : pre.length + (p - c) + (oldOf (reverseHunk h).lines).length =
            (pre ++ (file.drop c).take (p - c) ++ newOf h.lines).length := by
          rw [oldOf_reverseHunk]; simp [hmidlen]; omega
        have e2 : -d + ((reverseHunk h).new.count - (reverseHunk h).old.count) =
            -(d + (h.new.count - h.old.count)) := by
          show -d + (h.old.count - h.new.count) = _
          omega
        rw [e1, e2]; exact ihv
    · simp only [List.map_cons, splice, hrp]
      have e1 : pre.length + (p - c) + (oldOf (reverseHunk h).lines).length =
          (pre ++ (file.drop c).take (p - c) ++ newOf h.lines).length := by
        rw [oldOf_reverseHunk]; simp [hmidlen]; omega
      rw [e1, ihs, newOf_reverseHunk]
      have e3 : (N.drop pre.length).take (pre.length + (p - c) - pre.length) = (file.drop c).take (p - c) := by
        rw [hN, List.drop_left]
        have : pre.length + (p - c) - pre.length = ((file.drop c).take (p - c)).length := by
          rw [hmidlen]; omega
        rw [this, List.append_assoc, List.take_left]
      rw [e3, List.append_assoc]
      exact drop_split' file _ c p hcp hold

/-! ### the reject writer never throws on a well-formed hunk -/

theorem relabelFrom_length (ls : List PatchLine) (i : Nat) : (relabelFrom ls i).length = ls.length := by
  simp [relabelFrom]; omega

theorem makeChange_newLen (s : CtxState) (op : UInt8) :
    (s.makeChange op).newLines.length = s.newLines.length := by
  unfold CtxState.makeChange; split
  · exact relabelFrom_length _ _
  · rfl

theorem makeChange_oldLen (s : CtxState) (op : UInt8) :
    (s.makeChange op).oldLines.length = s.oldLines.length := by
  unfold CtxState.makeChange; split
  · exact relabelFrom_length _ _
  · rfl

theorem sizeEqCount_lt {n : Nat} {count : Int} (h : (n : Int) < count) : sizeEqCount n count = false := by
  unfold sizeEqCount; split
  · rfl
  · simp; omega

theorem sizeEqCount_eq {n : Nat} {count : Int} (h : (n : Int) = count) : sizeEqCount n count = true := by
  unfold sizeEqCount; split
  · omega
  · simp [h]

theorem ctxFold_ok (h : Hunk) : ∀ (ls : List PatchLine) (s : CtxState), OpsOK ls →
    ((s.oldLines.length + (oldOf ls).length : Nat) : Int) = h.old.count →
    ((s.newLines.length + (newOf ls).length : Nat) : Int) = h.new.count →
    ∃ s', ctxFold h s ls = .ok s' ∧ (s'.oldLines.length : Int) = h.old.count ∧
      (s'.newLines.length : Int) = h.new.count := by
  intro ls
  induction ls with
  | nil =>
    intro s _ ho hn
    exact ⟨s, rfl, by simpa [oldOf] using ho, by simpa [newOf] using hn⟩
  | cons pl rest ih =>
    intro s hops ho hn
    rcases hops.head with hop | hop | hop
    · rw [oldOf_cons_sp hop] at ho
      rw [newOf_cons_sp hop] at hn
      simp only [List.length_cons] at ho hn
      have e1 : sizeEqCount s.oldLines.length h.old.count = false := sizeEqCount_lt (by omega)
      have e2 : sizeEqCount s.newLines.length h.new.count = false := sizeEqCount_lt (by omega)
      simp only [ctxFold, ctxStep, hop, beq_self_eq_true, if_true, e1, e2, Bool.false_eq_true, if_false]
      apply ih _ hops.tail
      · simp only [List.length_append, List.length_singleton]; omega
      · simp only [List.length_append, List.length_singleton]; omega
    · rw [oldOf_cons_plus hop] at ho
      rw [newOf_cons_plus hop] at hn
      simp only [List.length_cons] at ho hn
      have e2 : sizeEqCount s.newLines.length h.new.count = false := sizeEqCount_lt (by omega)
      simp only [ctxFold, ctxStep, hop, plus_ne_sp, beq_self_eq_true, if_true, e2, Bool.false_eq_true, if_false]
      apply ih _ hops.tail
      · simp only []
        split
        · rw [makeChange_oldLen]; exact ho
        · exact ho
      · simp only [List.length_append, List.length_singleton]
        split
        · rw [makeChange_newLen]; omega
        · simp only []; omega
    · rw [oldOf_cons_minus hop] at ho
      rw [newOf_cons_minus hop] at hn
      simp only [List.length_cons] at ho hn
      have e1 : sizeEqCount s.oldLines.length h.old.count = false := sizeEqCount_lt (by omega)
      simp only [ctxFold, ctxStep, hop, minus_ne_sp, minus_ne_plus, beq_self_eq_true, if_true, e1,
        Bool.false_eq_true, if_false]
      apply ih _ hops.tail
      · simp only [List.length_append, List.length_singleton]
        split
        · rw [makeChange_oldLen]; omega
        · simp only []; omega
      · simp only []
        split
        · rw [makeChange_newLen]; exact hn
        · exact hn

theorem writeHunkContext_ok (h : Hunk) (hw : h.WF) : ∃ b, writeHunkContext h = .ok b := by
  obtain ⟨s', h1, h2, h3⟩ := ctxFold_ok h h.lines {} hw.1
    (by simp [hw.2.1]) (by simp [hw.2.2])
  unfold writeHunkContext
  rw [h1]
  simp only [sizeEqCount_eq h2, sizeEqCount_eq h3, Bool.not_true, Bool.and_self, Bool.false_eq_true, if_false]
  split
  · exact ⟨_, rfl⟩
  · split <;> exact ⟨_, rfl⟩

theorem writeReject_ok (p : Patch) (fmt : RejectFormat) (n : Nat) (h : Hunk) (hw : h.WF) :
    ∃ b, writeReject p fmt n h = .ok b := by
  unfold writeReject
  split
  · exact ⟨_, rfl⟩
  · obtain ⟨b, hb⟩ := writeHunkContext_ok h hw
    rw [hb]; exact ⟨_, rfl⟩

/-- the hunk as shifted for the reject file is still well formed -/
theorem shift_WF {h : Hunk} (hw : h.WF) (a b : Int) :
    ({ h with new := { h.new with start := a }, old := { h.old with start := b } } : Hunk).WF := hw


/-! ### one iteration of the hunk loop -/

theorem finishHunk_inplace (file : List Line) (o : ApplyOpts) (pt : Patch) (s : AState) (num : Nat)
    (h : Hunk) (p : Nat)
    (hD : o.define = []) (hskip : s.skip = false) (hops : OpsOK h.lines)
    (hfit : p + (oldOf h.lines).length ≤ file.length) :
    ∃ s', finishHunk file o pt s num h (some ⟨p, 0, 0⟩) = .ok s' ∧
      s'.out = s.out ++ copyRange file s.cursor (p - s.cursor) ++ hunkOutput file h.lines p ∧
      s'.cursor = p + (oldOf h.lines).length ∧ s'.offErr = s.offErr ∧ s'.skip = false ∧
      s'.perfect = s.perfect ∧ s'.rejBytes = s.rejBytes ∧ s'.rejected = s.rejected ∧
      s'.applied = s.applied ++ [(num, ⟨p, 0, 0⟩)] ∧
      (o.verbose = false → s'.msgs = s.msgs) ∧ s.msgs <+: s'.msgs ∧ s'.tty = s.tty ∧
      s'.offNew = s.offNew + (h.new.count - h.old.count) := by
  have hw : writeHunkD file o.define h.lines p = some (hunkOutput file h.lines p, p + (oldOf h.lines).length) := by
    unfold writeHunkD; rw [hD]; simp only [ne_eq, not_true_eq_false, if_false]
    exact writeHunk_eq file h.lines p hops hfit
  have hnot : ¬ (p > s.cursor ∧ p > file.length) := by omega
  unfold finishHunk
  simp only [hskip, Bool.false_eq_true, if_false, Int.toNat_natCast, hnot, hw, isPerfect]
  cases hv : o.verbose
  · refine ⟨_, rfl, ?_⟩
    simp
  · refine ⟨_, rfl, ?_⟩
    simp

theorem finishHunk_skip (file : List Line) (o : ApplyOpts) (pt : Patch) (s : AState) (num : Nat)
    (h : Hunk) (loc : Option Location) (hskip : s.skip = true) (hw : h.WF) :
    ∃ s' h', finishHunk file o pt s num h loc = .ok s' ∧ s'.out = s.out ∧ s'.cursor = s.cursor ∧
      s'.skip = true ∧ s'.applied = s.applied ∧ s'.rejected = s.rejected ++ [(num, h')] ∧
      s.msgs <+: s'.msgs ∧ s'.tty = s.tty := by
  obtain ⟨b, hb⟩ := writeReject_ok pt o.rejectFormat s.rejected.length _
    (shift_WF hw (h.new.start + s.offNew) (h.old.start + s.offNew))
  unfold finishHunk
  simp only [hskip, if_true, hb, Bool.not_true, Bool.false_and, Bool.and_false, Bool.or_false,
    Bool.false_eq_true, if_false]
  cases hv : o.verbose
  · refine ⟨_, ⟨⟨h.old.start + s.offNew, h.old.count⟩, ⟨h.new.start + s.offNew, h.new.count⟩, h.lines⟩, rfl, ?_⟩
    simp
  · refine ⟨_, ⟨⟨h.old.start + s.offNew, h.old.count⟩, ⟨h.new.start + s.offNew, h.new.count⟩, h.lines⟩, rfl, ?_⟩
    simp

def isHunkMsg : Msg → Bool
  | .hunk .. => true
  | _ => false

theorem hunkMsg_isHunkMsg (num : Nat) (sk : Bool) (loc : Option Location) (h : Hunk) (a b : Int) :
    isHunkMsg (hunkMsg num sk loc h a b) = true := by
  unfold hunkMsg; split <;> rfl

theorem finishHunk_frame (file : List Line) (o : ApplyOpts) (pt : Patch) (s : AState) (num : Nat)
    (h : Hunk) (loc : Option Location) (s' : AState)
    (hr : finishHunk file o pt s num h loc = .ok s') :
    s'.tty = s.tty ∧ s'.skip = s.skip ∧ (s'.msgs = s.msgs ∨ ∃ m, isHunkMsg m = true ∧ s'.msgs = s.msgs ++ [m]) := by
  unfold finishHunk at hr
  simp only [] at hr
  split at hr
  · cases hr
  · next s1 hs1 =>
    injection hr with hr
    subst hr
    have key : s1.tty = s.tty ∧ s1.skip = s.skip ∧ s1.msgs = s.msgs := by
      split at hs1
      · split at hs1
        · cases hs1
        · split at hs1
          · cases hs1
          · injection hs1 with hs1; subst hs1; exact ⟨rfl, rfl, rfl⟩
      · split at hs1
        · cases hs1
        · injection hs1 with hs1; subst hs1; exact ⟨rfl, rfl, rfl⟩
    obtain ⟨k1, k2, k3⟩ := key
    split <;> split <;> simp [k1, k2, k3, hunkMsg_isHunkMsg]


/-! ### the tty is only carried along -/

def setTty (s : AState) (t : Option (List Bool)) : AState := { s with tty := t }

theorem finishHunk_setTty (file : List Line) (o : ApplyOpts) (pt : Patch) (s : AState) (num : Nat)
    (h : Hunk) (loc : Option Location) (t : Option (List Bool)) :
    finishHunk file o pt (setTty s t) num h loc =
      (finishHunk file o pt s num h loc).map (fun s' => setTty s' t) := by
  obtain ⟨out, cursor, offNew, offErr, skip, perfect, rejBytes, rejected, applied, msgs, tty⟩ := s
  unfold finishHunk
  simp only [setTty]
  cases skip <;> cases loc <;>
    simp only [Bool.false_eq_true, if_false, if_true]
  · generalize writeReject pt o.rejectFormat _ _ = w
    cases w with
    | error e => rfl
    | ok b => simp only [Except.map]; split <;> split <;> rfl
  · next l =>
    by_cases hc : (l.line.toNat > cursor ∧ l.line.toNat > file.length)
    · simp only [hc, and_self, ↓reduceIte]; rfl
    · simp only [hc, ↓reduceIte]
      generalize writeHunkD file o.define h.lines l.line.toNat = w
      cases w with
      | none => rfl
      | some oc => simp only [Except.map]; split <;> split <;> rfl
  · generalize writeReject pt o.rejectFormat _ _ = w
    cases w with
    | error e => rfl
    | ok b => simp only [Except.map]; split <;> split <;> rfl
  · generalize writeReject pt o.rejectFormat _ _ = w
    cases w with
    | error e => rfl
    | ok b => simp only [Except.map]; split <;> split <;> rfl

theorem applyRest_setTty (file : List Line) (o : ApplyOpts) (pt : Patch) (t : Option (List Bool)) :
    ∀ (hs : List Hunk) (s : AState) (num : Nat),
    applyRest file o pt (setTty s t) num hs = (applyRest file o pt s num hs).map (fun s' => setTty s' t) := by
  intro hs
  induction hs with
  | nil => intro s num; rfl
  | cons h hs ih =>
    intro s num
    simp only [applyRest]
    have : (setTty s t).offErr = s.offErr ∧ (setTty s t).cursor = s.cursor := ⟨rfl, rfl⟩
    rw [this.1, this.2, finishHunk_setTty]
    cases finishHunk file o pt s num h _ with
    | error e => rfl
    | ok s' => simp only [Except.map]; exact ih s' (num + 1)

/-! ### the loop over the remaining hunks -/

theorem applyRest_skip (file : List Line) (o : ApplyOpts) (pt : Patch) :
    ∀ (hs : List Hunk) (s : AState) (num : Nat), s.skip = true → (∀ h ∈ hs, h.WF) →
    ∃ s', applyRest file o pt s num hs = .ok s' ∧ s'.out = s.out ∧ s'.cursor = s.cursor ∧
      s'.skip = true ∧ s'.applied = s.applied ∧
      s'.rejected.map (·.1) = s.rejected.map (·.1) ++ List.range' num hs.length ∧
      s.msgs <+: s'.msgs ∧ s'.tty = s.tty := by
  intro hs
  induction hs with
  | nil => intro s num hsk _; exact ⟨s, rfl, rfl, rfl, hsk, rfl, by simp, List.prefix_refl _, rfl⟩
  | cons h hs ih =>
    intro s num hsk hwf
    obtain ⟨s1, h', e, a1, a2, a3, a4, a5, a6, a7⟩ :=
      finishHunk_skip file o pt s num h
        (locateHunk file h o.ignoreWhitespace s.offErr o.maxFuzz s.cursor) hsk (hwf h (List.mem_cons_self ..))
    obtain ⟨s2, e2, b1, b2, b3, b4, b5, b6, b7⟩ :=
      ih s1 (num + 1) a3 (fun x hx => hwf x (List.mem_cons_of_mem _ hx))
    refine ⟨s2, ?_, b1.trans a1, b2.trans a2, b3, b4.trans a4, ?_, a6.trans b6, b7.trans a7⟩
    · simp only [applyRest, e, e2]
    · rw [b5, a5]; simp [List.range'_succ]

theorem applyRest_frame (file : List Line) (o : ApplyOpts) (pt : Patch) :
    ∀ (hs : List Hunk) (s : AState) (num : Nat) (s' : AState),
    applyRest file o pt s num hs = .ok s' →
    s'.tty = s.tty ∧ s'.skip = s.skip ∧ (∀ m ∈ s'.msgs, m ∈ s.msgs ∨ isHunkMsg m = true) := by
  intro hs
  induction hs with
  | nil =>
    intro s num s' hr
    simp only [applyRest] at hr
    injection hr with hr; subst hr
    exact ⟨rfl, rfl, fun m hm => Or.inl hm⟩
  | cons h hs ih =>
    intro s num s' hr
    simp only [applyRest] at hr
    split at hr
    · cases hr
    · next s1 hs1 =>
      obtain ⟨a1, a2, a3⟩ := finishHunk_frame _ _ _ _ _ _ _ _ hs1
      obtain ⟨b1, b2, b3⟩ := ih _ _ _ hr
      refine ⟨b1.trans a1, b2.trans a2, ?_⟩
      intro m hm
      rcases b3 m hm with hm1 | hm1
      · rcases a3 with a3 | ⟨m', hm', a3⟩
        · left; rw [← a3]; exact hm1
        · rw [a3, List.mem_append, List.mem_singleton] at hm1
          rcases hm1 with hm1 | hm1
          · exact Or.inl hm1
          · right; rw [hm1]; exact hm'
      · exact Or.inr hm1

end PatchModel.Script
