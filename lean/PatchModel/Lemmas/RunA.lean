/-
  Lemmas/RunA — helpers for the run-level theorems C09Run (an abort caused by the patch text), C15Run (--dry-run of a rejected
  hunk) and C13Run (a reject file is a patch).

  * body parser on DAMAGED text: `unifiedLoop_prefix` (the loop over the first lines of a hunk body whose remaining lines are not
    there), `unifiedLoop_hunks_next` (complete hunks in front of the damaged one), `parseUnifiedBody_truncated` (the text ends
    inside a hunk: `invalid_argument`), `parseUnifiedBody_garbled` (a line inside a hunk begins with a byte that is none of
    ' ', '+', '-', '\\': `parser_error`);
  * text: `cutHunk`, `splitLines_cut` (the bytes of complete hunks followed by a hunk cut short);
  * driver: `run_parseBodyM_error`, `processSection_bodyError` (a section whose header is fine and whose body makes the body
    parser throw: the exception leaves `processSection` with the tree as it was), `sectionLoop_error`, `run_processPatchM_error`,
    `runPatch_of_error`; `processSection_rejected_dry` (the --dry-run sibling of `RunB.processSection_rejected`).
-/
import PatchModel.Lemmas.Concat
import PatchModel.Lemmas.RunB
namespace PatchModel.RunA
open PatchModel PatchModel.Unified PatchModel.Run PatchModel.Section PatchModel.DriverFacts PatchModel.Concat PatchModel.RunB

/-! ### the unified body parser on a hunk whose body is cut short or garbled -/

/-- the loop over the first lines `pre` of the body of a hunk; its remaining lines `suf` (at least one) are NOT in the text, `X`
    is: the loop arrives at `X` in the middle of the hunk, with the counts of `suf` still to come -/
theorem unifiedLoop_prefixG (w : Line → Line) (hw : WireOK w) : ∀ (pre suf : List PatchLine) (fuel n : Nat) (hunks : List Hunk)
    (o nw : Range) (L : List PatchLine) (X : List Line), suf ≠ [] →
    (∀ pl ∈ pre ++ suf, pl.op = SP ∨ pl.op = PLUS ∨ pl.op = MINUS) → noNlOnlyLast (pre ++ suf) = true → AfterOK X →
    (bodyLinesG w pre ++ X).length + 1 ≤ fuel →
    ∃ fuel' n', X.length + 1 ≤ fuel' ∧
      unifiedLoop fuel ⟨⟨⟨bodyLinesG w pre ++ X, false, false⟩, n⟩, hunks, ⟨o, nw, L⟩, true,
          (oldOf (pre ++ suf)).length, (newOf (pre ++ suf)).length⟩
        = unifiedLoop fuel' ⟨⟨⟨X, false, false⟩, n'⟩, hunks, ⟨o, nw, L ++ pre⟩, true,
            (oldOf suf).length, (newOf suf).length⟩ := by
  intro pre
  induction pre with
  | nil =>
    intro suf fuel n hunks o nw L X _ _ _ _ hfuel
    exact ⟨fuel, n, by simpa [bodyLinesG] using hfuel, by simp [bodyLinesG]⟩
  | cons pl pre' ih =>
    intro suf fuel n hunks o nw L X hsuf hops hnl hX hfuel
    have hop := hops pl (by simp)
    have hops' : ∀ x ∈ pre' ++ suf, x.op = SP ∨ x.op = PLUS ∨ x.op = MINUS :=
      fun x hx => hops x (by simp only [List.cons_append]; exact List.mem_cons_of_mem _ hx)
    have hopsP : ∀ x ∈ pre', x.op = SP ∨ x.op = PLUS ∨ x.op = MINUS :=
      fun x hx => hops' x (List.mem_append_left _ hx)
    rw [bodyLinesG_cons_append] at hfuel ⊢
    obtain ⟨f, rfl⟩ : ∃ f, fuel = f + 1 := ⟨fuel - 1, by simp at hfuel; omega⟩
    rw [unifiedLoop_content f _ ⟨pl.op :: (w pl.line).content, (w pl.line).newline⟩ _ pl.op (w pl.line).content
      (getLine_wire _ _ (hw pl.line).1 _ _) rfl rfl hop]
    simp only [List.cons_append] at hnl ⊢
    obtain ⟨n', hn'⟩ := steps_specG pl (w pl.line) (pre' ++ suf) (n + 1) hunks o nw L (bodyLinesG w pre') X hop
      (peek_bodyG w pre' X hX hopsP false false) hnl (hw pl.line).2.1 (hw pl.line).2.2
    try dsimp only
    rw [hn']
    dsimp only
    have hne : pre' ++ suf ≠ [] := by simp [hsuf]
    rw [if_neg (sides_ne_nil (pre' ++ suf) hne hops')]
    have hnl' : noNlOnlyLast (pre' ++ suf) = true := by
      unfold noNlOnlyLast at hnl; simp only [Bool.and_eq_true] at hnl; exact hnl.2
    obtain ⟨fuel', n'', h1, h2⟩ := ih suf f n' hunks o nw (L ++ [pl]) X hsuf hops' hnl' hX
      (by simp at hfuel ⊢; omega)
    refine ⟨fuel', n'', h1, ?_⟩
    rw [h2]; simp

theorem unifiedLoop_prefix (pre suf : List PatchLine) (fuel n : Nat) (hunks : List Hunk)
    (o nw : Range) (L : List PatchLine) (X : List Line) (hsuf : suf ≠ [])
    (hops : ∀ pl ∈ pre ++ suf, pl.op = SP ∨ pl.op = PLUS ∨ pl.op = MINUS) (hnl : noNlOnlyLast (pre ++ suf) = true)
    (hX : AfterOK X) (hfuel : (bodyLines pre ++ X).length + 1 ≤ fuel) :
    ∃ fuel' n', X.length + 1 ≤ fuel' ∧
      unifiedLoop fuel ⟨⟨⟨bodyLines pre ++ X, false, false⟩, n⟩, hunks, ⟨o, nw, L⟩, true,
          (oldOf (pre ++ suf)).length, (newOf (pre ++ suf)).length⟩
        = unifiedLoop fuel' ⟨⟨⟨X, false, false⟩, n'⟩, hunks, ⟨o, nw, L ++ pre⟩, true,
            (oldOf suf).length, (newOf suf).length⟩ := by
  rw [bodyLines_eq] at hfuel ⊢
  exact unifiedLoop_prefixG wireLf wireOK_wireLf pre suf fuel n hunks o nw L X hsuf hops hnl hX hfuel

/-- the range line of a (readable) hunk directly after the body of a complete hunk: the loop goes on with the next hunk -/
theorem unifiedLoop_hunk_next (h h2 : Hunk) (hw : h.writable = true) (hr2 : Readable h2) (fuel n : Nat) (hunks : List Hunk)
    (Z : List Line) (hfuel : (bodyLines h.lines ++ ⟨rangeText h2, .lf⟩ :: Z).length + 1 ≤ fuel) :
    ∃ fuel' n', Z.length + 1 ≤ fuel' ∧
      unifiedLoop fuel ⟨⟨⟨bodyLines h.lines ++ ⟨rangeText h2, .lf⟩ :: Z, false, false⟩, n⟩, hunks, ⟨h.old, h.new, []⟩, true,
          h.old.count, h.new.count⟩
        = unifiedLoop fuel' ⟨⟨⟨Z, false, false⟩, n'⟩, hunks ++ [h], ⟨h2.old, h2.new, []⟩, true, h2.old.count, h2.new.count⟩ := by
  obtain ⟨hops, hoc, hnc, hne, _, hnl, _⟩ := writable_spec h hw
  have hafter : AfterOK (⟨rangeText h2, .lf⟩ :: Z) := by
    have := afterOK_hunkLines ⟨h2.old, h2.new, []⟩ Z
    simpa [hunkLines, bodyLines, rangeText] using this
  obtain ⟨fuel', n', h1, h2'⟩ := unifiedLoop_body h.lines fuel n hunks h.old h.new [] (⟨rangeText h2, .lf⟩ :: Z) hne hops hnl
    hafter hfuel
  rw [hoc, hnc, h2', hunk_eq]
  obtain ⟨g, rfl⟩ : ∃ g, fuel' = g := ⟨fuel', rfl⟩
  refine ⟨fuel', n' + 1, by simp at h1; omega, ?_⟩
  unfold afterHunk
  simp only [getLine_lf, parseUnifiedRange_rangeText' _ h2 hr2, Bool.not_true, Bool.false_eq_true, if_false]

/-- the range line of `hd` after the bodies of complete hunks `h :: hs` -/
theorem unifiedLoop_hunks_next : ∀ (hs : List Hunk) (h hd : Hunk) (fuel n : Nat) (hunks : List Hunk) (Z : List Line),
    (∀ x ∈ h :: hs, x.writable = true) → Readable hd →
    (bodyLines h.lines ++ (hs.flatMap hunkLines ++ ⟨rangeText hd, .lf⟩ :: Z)).length + 1 ≤ fuel →
    ∃ fuel' n', Z.length + 1 ≤ fuel' ∧
      unifiedLoop fuel ⟨⟨⟨bodyLines h.lines ++ (hs.flatMap hunkLines ++ ⟨rangeText hd, .lf⟩ :: Z), false, false⟩, n⟩, hunks,
          ⟨h.old, h.new, []⟩, true, h.old.count, h.new.count⟩
        = unifiedLoop fuel' ⟨⟨⟨Z, false, false⟩, n'⟩, hunks ++ (h :: hs), ⟨hd.old, hd.new, []⟩, true,
            hd.old.count, hd.new.count⟩ := by
  intro hs
  induction hs with
  | nil =>
    intro h hd fuel n hunks Z hw hr hfuel
    simp only [List.flatMap_nil, List.nil_append] at hfuel ⊢
    exact unifiedLoop_hunk_next h hd (hw h List.mem_cons_self) hr fuel n hunks Z hfuel
  | cons h2 hs ih =>
    intro h hd fuel n hunks Z hw hr hfuel
    have hw2 : h2.writable = true := hw h2 (by simp)
    simp only [List.flatMap_cons, hunkLines, List.cons_append, List.append_assoc] at hfuel ⊢
    obtain ⟨fuel1, n1, hf1, e1⟩ := unifiedLoop_hunk_next h h2 (hw h List.mem_cons_self) (readable_of_writable h2 hw2) fuel n hunks
      (bodyLines h2.lines ++ (hs.flatMap hunkLines ++ ⟨rangeText hd, .lf⟩ :: Z)) hfuel
    obtain ⟨fuel', n', hf', e'⟩ := ih h2 hd fuel1 n1 (hunks ++ [h]) Z (fun x hx => hw x (List.mem_cons_of_mem _ hx)) hr hf1
    refine ⟨fuel', n', hf', ?_⟩
    rw [e1, e']; simp

/-- **where the body parser stands when it reaches the damage**: complete hunks `hs`, then the range line of `hd` and the first
    lines `pre` of its body; `suf`, the rest of the body (at least one line), is missing; `X` follows instead -/
theorem unifiedLoop_damaged (hs : List Hunk) (hd : Hunk) (pre suf : List PatchLine) (X : List Line) (lineNo : Nat)
    (hw : ∀ h ∈ hs, h.writable = true) (hwd : hd.writable = true) (hl : hd.lines = pre ++ suf) (hsuf : suf ≠ [])
    (hX : AfterOK X) :
    ∃ fuel' n' hunks', X.length + 1 ≤ fuel' ∧
      unifiedLoop ((hs.flatMap hunkLines ++ ⟨rangeText hd, .lf⟩ :: (bodyLines pre ++ X)).length + 2)
          { par := { s := { rest := hs.flatMap hunkLines ++ ⟨rangeText hd, .lf⟩ :: (bodyLines pre ++ X) }, lineNo := lineNo } }
        = unifiedLoop fuel' ⟨⟨⟨X, false, false⟩, n'⟩, hunks', ⟨hd.old, hd.new, pre⟩, true,
            (oldOf suf).length, (newOf suf).length⟩ := by
  obtain ⟨hops, hoc, hnc, _, _, hnl, _⟩ := writable_spec hd hwd
  rw [hl] at hops hnl hoc hnc
  have hrd := readable_of_writable hd hwd
  cases hs with
  | nil =>
    simp only [List.flatMap_nil, List.nil_append, List.length_cons]
    rw [unifiedLoop_range _ _ ⟨rangeText hd, .lf⟩ _ _ (getLine_lf _ _ _) rfl
      (parseUnifiedRange_rangeText' defaultHunk hd hrd)]
    obtain ⟨fuel', n', h1, h2⟩ := unifiedLoop_prefix pre suf ((bodyLines pre ++ X).length + 1 + 1) (lineNo + 1) [] hd.old hd.new []
      X hsuf hops hnl hX (by omega)
    refine ⟨fuel', n', [], h1, ?_⟩
    simp only [defaultHunk]
    rw [hoc, hnc, h2]; simp
  | cons h hs =>
    simp only [List.flatMap_cons, hunkLines, List.cons_append, List.length_cons, List.append_assoc]
    rw [unifiedLoop_range _ _ ⟨rangeText h, .lf⟩ _ _ (getLine_lf _ _ _) rfl
      (parseUnifiedRange_rangeText defaultHunk h (hw h List.mem_cons_self))]
    obtain ⟨fuel1, n1, hf1, e1⟩ := unifiedLoop_hunks_next hs h hd
      ((bodyLines h.lines ++ (hs.flatMap hunkLines ++ ⟨rangeText hd, .lf⟩ :: (bodyLines pre ++ X))).length + 1 + 1)
      (lineNo + 1) [] (bodyLines pre ++ X) hw hrd (by omega)
    obtain ⟨fuel', n', h1, h2⟩ := unifiedLoop_prefix pre suf fuel1 n1 ([] ++ (h :: hs)) hd.old hd.new [] X hsuf hops hnl hX hf1
    refine ⟨fuel', n', [] ++ (h :: hs), h1, ?_⟩
    simp only [defaultHunk]
    rw [e1, hoc, hnc, h2]; simp

/-- **the text ends inside a hunk**: after complete hunks `hs` comes the range line of `hd` and only the first lines `pre` of
    its body, then the end of the input — the counts of the range line are not met: `std::invalid_argument` -/
theorem parseUnifiedBody_truncated (hs : List Hunk) (hd : Hunk) (pre suf : List PatchLine) (lineNo : Nat)
    (hw : ∀ h ∈ hs, h.writable = true) (hwd : hd.writable = true) (hl : hd.lines = pre ++ suf) (hsuf : suf ≠ []) :
    parseUnifiedBody { s := { rest := hs.flatMap hunkLines ++ ⟨rangeText hd, .lf⟩ :: bodyLines pre }, lineNo := lineNo }
      = .error .invalidArgument := by
  obtain ⟨hops, _⟩ := writable_spec hd hwd
  obtain ⟨fuel', n', hunks', hf, e⟩ := unifiedLoop_damaged hs hd pre suf [] lineNo hw hwd hl hsuf (fun _ h => by cases h)
  simp only [List.append_nil] at e
  obtain ⟨g, rfl⟩ : ∃ g, fuel' = g + 1 := ⟨fuel' - 1, by simp at hf; omega⟩
  unfold parseUnifiedBody
  simp only []
  rw [e]
  have hstop : unifiedLoop (g + 1) ⟨⟨⟨[], false, false⟩, n'⟩, hunks', ⟨hd.old, hd.new, pre⟩, true,
      (oldOf suf).length, (newOf suf).length⟩ =
      .ok (false, ⟨⟨⟨[], true, false⟩, n'⟩, hunks', ⟨hd.old, hd.new, pre⟩, true, (oldOf suf).length, (newOf suf).length⟩) := rfl
  rw [hstop]
  have hne := sides_ne_nil suf hsuf (fun pl hpl => hops pl (by rw [hl]; exact List.mem_append_right _ hpl))
  simp only [Bool.not_true, Bool.false_eq_true, false_and, if_false, ne_eq]
  split
  · rfl
  · split
    · rfl
    · next a b => exact absurd ⟨Decidable.not_not.1 b, Decidable.not_not.1 a⟩ hne

/-- a line that cannot be a line of a hunk body: it is not empty (an empty line counts as an empty context line) and begins
    with a byte that is none of ' ', '+', '-' — nor a backslash (directly after the last line of a side that is the marker
    "\ No newline at end of file", whatever follows the backslash) -/
def garbage (l : Line) : Prop :=
  ∃ c cs, l.content = c :: cs ∧ c ≠ SP ∧ c ≠ PLUS ∧ c ≠ MINUS ∧ c ≠ BACKSLASH

instance (l : Line) : Decidable (garbage l) :=
  match h : l.content with
  | [] => isFalse (by rintro ⟨c, cs, e, _⟩; rw [h] at e; cases e)
  | c :: cs =>
    if hc : c ≠ SP ∧ c ≠ PLUS ∧ c ≠ MINUS ∧ c ≠ BACKSLASH then isTrue ⟨c, cs, h, hc⟩
    else isFalse (by rintro ⟨c', cs', e, h'⟩; rw [h] at e; cases e; exact hc h')

/-- **a garbage line inside a hunk**: after complete hunks `hs` comes the range line of `hd`, the first lines `pre` of its
    body and then — where `suf`, the rest of the body, should begin — a line `bad` that is no hunk line: `parser_error`,
    whatever follows.
    CHANGED with the parser model change "a CR at the very end of the patch is what is left of a CRLF" (D85): `hcr` is new — a
    lone CR as the unterminated last line of the input is handed out by `Parser.getLine` as an EMPTY line with a CRLF ending,
    which the body loop takes for an empty context line, not for garbage. -/
theorem parseUnifiedBody_garbled (hs : List Hunk) (hd : Hunk) (pre suf : List PatchLine) (bad : Line) (after : List Line)
    (lineNo : Nat)
    (hw : ∀ h ∈ hs, h.writable = true) (hwd : hd.writable = true) (hl : hd.lines = pre ++ suf) (hsuf : suf ≠ [])
    (hbad : garbage bad) (hcr : ¬ (bad.newline = .none ∧ bad.content = [CR])) :
    parseUnifiedBody { s := { rest := hs.flatMap hunkLines ++ ⟨rangeText hd, .lf⟩ :: (bodyLines pre ++ bad :: after) },
                       lineNo := lineNo }
      = .error .parserError := by
  obtain ⟨c, cs, hc, h1, h2, h3, h4⟩ := hbad
  obtain ⟨fuel', n', hunks', hf, e⟩ := unifiedLoop_damaged hs hd pre suf (bad :: after) lineNo hw hwd hl hsuf
    (by intro l hl'; simp only [List.head?_cons, Option.some.injEq] at hl'; subst hl'; rw [hc]; simpa using h4)
  obtain ⟨g, rfl⟩ : ∃ g, fuel' = g + 1 := ⟨fuel' - 1, by simp at hf; omega⟩
  unfold parseUnifiedBody
  simp only []
  rw [e]
  have hg : ∃ l' par5 cs', Parser.getLine ⟨⟨bad :: after, false, false⟩, n'⟩ = (some l', par5) ∧ l'.content = c :: cs' := by
    by_cases hn : bad.newline = .none
    · by_cases hlast : bad.content.getLast? = some CR
      · -- the CR at the very end of the text is taken away (D85); the line still begins with `c`
        have hcs : cs ≠ [] := by
          intro h0; subst h0
          rw [hc] at hlast
          simp only [List.getLast?_singleton, Option.some.injEq] at hlast
          exact hcr ⟨hn, by rw [hc, hlast]⟩
        refine ⟨⟨bad.content.dropLast, .crlf⟩, ⟨⟨after, true, false⟩, n' + 1⟩, cs.dropLast, ?_, ?_⟩
        · simp [Parser.getLine, PStream.getLine, hn, hlast]
        · rw [hc]
          cases cs with
          | nil => exact absurd rfl hcs
          | cons x xs => simp [List.dropLast]
      · refine ⟨⟨bad.content, .lf⟩, ⟨⟨after, true, false⟩, n' + 1⟩, cs, ?_, hc⟩
        simp [Parser.getLine, PStream.getLine, hn, hlast]
    · refine ⟨bad, ⟨⟨after, false, false⟩, n' + 1⟩, cs, ?_, hc⟩
      simp [Parser.getLine, PStream.getLine, hn]
  obtain ⟨l', par5, cs', hg, hl'⟩ := hg
  rw [unifiedLoop_content_bad g _ l' par5 c cs' hg rfl (by rw [hl']; rfl)
    (by rintro (h | h | h) <;> contradiction)]

/-! ### the bytes of a hunk that is cut short -/

/-- a hunk whose body has lost all but its first `k` lines (the range line still promises all of them) -/
def cutHunk (h : Hunk) (k : Nat) : Hunk := { h with lines := h.lines.take k }

theorem hunkLines_cut (h : Hunk) (k : Nat) : hunkLines (cutHunk h k) = ⟨rangeText h, .lf⟩ :: bodyLines (h.lines.take k) := rfl

/-- the text of complete hunks followed by a hunk cut short (and by anything): the lines it splits into -/
theorem splitLines_cut (hs : List Hunk) (hd : Hunk) (k : Nat) (rest : Bytes) (hw : ∀ h ∈ hs, h.writable = true)
    (hwd : hd.writable = true) :
    splitLines ((hs ++ [cutHunk hd k]).flatMap writeHunkUnified ++ rest) =
      hs.flatMap hunkLines ++ ⟨rangeText hd, .lf⟩ :: (bodyLines (hd.lines.take k) ++ splitLines rest) := by
  obtain ⟨hops, _, _, _, hplain, _⟩ := writable_spec hd hwd
  rw [List.flatMap_append, List.append_assoc, splitLines_hunks_rest hs _ hw]
  simp only [List.flatMap_cons, List.flatMap_nil, List.append_nil]
  rw [splitLines_hunk (cutHunk hd k) rest (fun pl hpl => hops pl (List.mem_of_mem_take hpl))
    (fun pl hpl => hplain pl (List.mem_of_mem_take hpl)), hunkLines_cut]
  rfl

/-! ### a section whose body makes the parser throw -/

theorem run_parseBodyM_error {s : DState} {pt : Patch} {e : Exn} (h : parseBody s.par pt = .error e) :
    (parseBodyM true pt).run s = (.error e, s) := by
  unfold parseBodyM
  simp only [if_true, run_bind, run_get, run_liftE, h]

section
variable {o : Options} {fmt : Format} {s : DState} {p bytes : Bytes} {m : Nat}
  {patch0 : Patch} {info : HeaderInfo} {par1 : Parser} {e : Exn}

/-- **a section with a sound header and a body the parser refuses** (no file operand: the target is the file the `---` line
    names; it is there, regular and writable): the exception leaves `processSection` after the header scan, the look at the
    target and the announcement — the tree is as it was; the only operations are the creation and removal of one anonymous
    temporary -/
theorem processSection_bodyError (hno : o.fileToPatch = []) (hnout : o.outFile = [])
    (holdp : patch0.oldPath = p) (hnn : p ≠ devNull) (hpne : p ≠ []) (hcwd : s.cwd = [])
    (hhdr : parseHeader s.par { format := fmt } o.strip = .ok (true, patch0, info, par1))
    (hfmt : patch0.format = .unified ∨ patch0.format = .context ∨ patch0.format = .normal)
    (hop : patch0.operation = .change) (hpre : patch0.prerequisite = [])
    (hbody : parseBody par1 patch0 = .error e)
    (hfile : s.fs.lookup p = some (.file bytes m)) (hw : m &&& writeMask ≠ 0) (hroot : s.fs.isRoot = true)
    (hnf : s.faultAt = none) :
    ∃ s', (processSection o fmt).run s = (.error e, s') ∧ s'.fs = s.fs ∧
      s'.trace = s.trace ++ [.tmpCreate, .tmpUnlink] ∧ s'.out = s.out ++ [.file p o.dryRun] ∧
      s'.hadFailure = s.hadFailure ∧ s'.dWrites = s.dWrites ∧ s'.dRemovals = s.dRemovals ∧ s'.backedUp = s.backedUp ∧
      s'.rejWritten = s.rejWritten := by
  have hfu : (patch0.format == Format.unknown) = false := by
    rcases hfmt with h | h | h <;> rw [h] <;> rfl
  have hob : (patch0.operation == Operation.binary) = false := by rw [hop]; rfl
  have hor : (patch0.operation == Operation.rename) = false := by rw [hop]; rfl
  have hoc : (patch0.operation == Operation.copy) = false := by rw [hop]; rfl
  have hpe : List.isEmpty p = false := by
    cases p with
    | nil => exact absurd rfl hpne
    | cons _ _ => rfl
  have hout : outputPath o patch0 p = p := by
    unfold outputPath; simp [hnout, hor, hoc]
  have hguess : ∀ s' : DState, s'.cwd = [] → s'.fs.lookup p = some (.file bytes m) →
      (guessFilepath patch0 o.reverse).run s' = (.ok p, s') := by
    intro s' h1 h2
    have := run_guessFilepath_old patch0 o.reverse (s := s') (b := bytes) (m := m) h1 (by rw [hor, hoc]; simp)
      (by rw [holdp]; exact hnn)
      (by rw [holdp]; exact h2)
    rw [holdp] at this
    exact this
  unfold processSection
  simp only [↓run_bind, ↓run_get, ↓run_liftE, ↓run_modify, ↓run_pure, ↓run_emit,
    hhdr, hfu, hob, hno, List.isEmpty_nil, hguess, hpe, hout, hor,
    Bool.false_eq_true, ↓reduceIte, Bool.false_and, Bool.and_false, Bool.not_true,
    run_createTemp, hnf, hcwd,
    run_fsExists_file (b := bytes) (m := m), run_fsIsRegular_file (b := bytes) (m := m),
    run_fsIsSymlink_file (b := bytes) (m := m), hfile,
    (fun s' => @run_fixPermissions_writable o s' p bytes m), hw, ne_eq, not_false_eq_true,
    absPath_nil, readFile_root (b := bytes) (m := m), hroot,
    hpre,
    run_parseBodyM_error (e := e), hbody,
    bne_self_eq_false]
  exact ⟨_, rfl, rfl, rfl, rfl, rfl, rfl, rfl, rfl, rfl⟩

end

/-- the section loop is left by the exception of a section -/
theorem sectionLoop_error (o : Options) (fmt : Format) (fuel : Nat) (s s' : DState) (e : Exn) (h0 : s.par.s.eof = false)
    (hrun : (processSection o fmt).run s = (.error e, s')) :
    (sectionLoop o fmt (fuel + 1)).run s = (.error e, s') := by
  rw [sectionLoop]
  simp only [run_bind, run_get, h0, Bool.false_eq_true, if_false, hrun]

/-- `process_patch` when the section loop is left by an exception: nothing is finalized -/
theorem run_processPatchM_error (o : Options) (s0 s' : DState) (pname ptext : Bytes) (pm : Nat) (fmt : Format) (e : Exn)
    (hdir : o.directory = []) (hpf : o.patchFile = pname) (hpne : pname ≠ []) (hpd : pname ≠ [45])
    (hcwd : s0.cwd = []) (hfile : s0.fs.lookup pname = some (.file ptext pm))
    (hread : s0.fs.isRoot = true ∨ pm / 256 % 2 = 1)
    (hfmt : diffFormatFromOptions o = .ok fmt)
    (hloop : (sectionLoop o fmt ((splitLines ptext).length + 2)).run { s0 with par := { s := { rest := splitLines ptext } } }
      = (.error e, s')) :
    (processPatchM o).run s0 = (.error e, s') := by
  have hpe : pname.isEmpty = false := by
    cases pname with
    | nil => exact absurd rfl hpne
    | cons _ _ => rfl
  have hpd' : (pname == [45]) = false := by simpa using hpd
  have hr : (s0.fs.isRoot || pm / 256 % 2 == 1) = true := by
    rcases hread with h | h <;> simp [h]
  unfold processPatchM
  simp only [hdir, List.isEmpty_nil, Bool.not_true, Bool.false_eq_true, if_false, ↓run_bind, ↓run_get, ↓run_pure, hpf,
    hpe, hpd', Bool.or_false, absPath_nil hcwd, Fs.stat_of_file hfile, hr, if_true, ↓run_liftE, hfmt,
    ↓run_modify, hloop]

/-- `main`: an exception is exit status 2, the state is what it was at that instant -/
theorem runPatch_of_error (o : Options) (s0 s' : DState) (e : Exn) (hh : o.showHelp = false) (hv : o.showVersion = false)
    (hrun : (processPatchM o).run s0 = (.error e, s')) :
    runPatch o s0 = (2, s') := by
  unfold runPatch
  simp only [hh, hv, Bool.or_false, Bool.false_eq_true, if_false, hrun]

/-! ### a stream whose last section has a sound header and a body the parser refuses -/

/-- a section of which only the beginning is known to be sound: filler, the two header lines of a unified diff, the range line of
    a first hunk `h`, a first body line `first` — and then whatever (`more`) -/
structure BadSec where
  filler : List Line
  old : Bytes
  new : Bytes
  oldt : Bytes
  newt : Bytes
  h : Hunk
  first : Line
  more : List Line

/-- what follows the two header lines -/
def BadSec.body (b : BadSec) : List Line := ⟨rangeText b.h, .lf⟩ :: b.first :: b.more

def BadSec.lines (b : BadSec) : List Line :=
  b.filler ++ ⟨str "--- " ++ b.old ++ [TAB] ++ b.oldt, .lf⟩ :: ⟨str "+++ " ++ b.new ++ [TAB] ++ b.newt, .lf⟩ :: b.body

/-- the header is that of a "change" diff (what `Header.parseHeader_unified'` asks for), and the unified body parser throws `e`
    on what follows it, whatever its line counter says -/
structure BadSec.Ok (b : BadSec) (e : Exn) : Prop where
  fillerInert : ∀ l ∈ b.filler, inertLine l.content = true
  fillerTerm : ∀ l ∈ b.filler, l.newline ≠ .none
  oldName : Header.plainName b.old
  newName : Header.plainName b.new
  oldStamp : b.oldt ≠ []
  newStamp : b.newt ≠ []
  range : Header.rangeOk b.h
  change : b.h.old.start ≠ 0 ∧ b.h.new.start ≠ 0
  first : Header.bodyStart b.first.content
  firstTerm : b.first.newline ≠ .none
  bad : ∀ n, parseUnifiedBody { s := { rest := b.body }, lineNo := n } = .error e

/-- the bytes of such a section, given the bytes of what follows the header -/
def BadSec.text (b : BadSec) (bodyBytes : Bytes) : Bytes :=
  linesText b.filler ++ (diffText b.old b.new b.oldt b.newt [] ++ bodyBytes)

structure BadSec.TextOk (b : BadSec) : Prop where
  fillerPlain : ∀ l ∈ b.filler, lfPlain l = true
  oldField : C01.fieldOk b.old
  newField : C01.fieldOk b.new
  oldStamp : C01.stampOk b.oldt
  newStamp : C01.stampOk b.newt

theorem splitLines_badText (b : BadSec) (ht : b.TextOk) (bodyBytes : Bytes) (hbody : splitLines bodyBytes = b.body) :
    splitLines (b.text bodyBytes) = b.lines := by
  unfold BadSec.text BadSec.lines
  rw [splitLines_linesText _ _ ht.fillerPlain,
    splitLines_diffText_rest b.old b.new b.oldt b.newt [] bodyBytes ht.oldField ht.newField ht.oldStamp.2.1 ht.newStamp.2.1
      ht.oldStamp.1 ht.newStamp.1 ht.oldStamp.2.2 ht.newStamp.2.2 (by simp), hbody]
  simp

theorem splitLines_secs_rest (secs : List Sec) (rest : Bytes) (hs : ∀ s ∈ secs, s.TextOk) :
    splitLines (secs.flatMap Sec.text ++ rest) = secs.flatMap Sec.lines ++ splitLines rest := by
  induction secs with
  | nil => rfl
  | cons s secs ih =>
    rw [List.flatMap_cons, List.flatMap_cons, List.append_assoc, splitLines_secText s (hs s List.mem_cons_self),
      ih (fun x hx => hs x (List.mem_cons_of_mem _ hx)), List.append_assoc]

/-- the bytes of a stream of complete sections followed by a bad one -/
def badStreamText (secs : List Sec) (b : BadSec) (bodyBytes : Bytes) : Bytes := secs.flatMap Sec.text ++ b.text bodyBytes

theorem splitLines_badStreamText (secs : List Sec) (b : BadSec) (bodyBytes : Bytes) (hs : ∀ s ∈ secs, s.TextOk)
    (ht : b.TextOk) (hbody : splitLines bodyBytes = b.body) :
    splitLines (badStreamText secs b bodyBytes) = streamLines secs b.lines := by
  unfold badStreamText streamLines
  rw [splitLines_secs_rest secs _ hs, splitLines_badText b ht bodyBytes hbody]

theorem BadSec.lines_ne_nil (b : BadSec) : b.lines ≠ [] := by unfold BadSec.lines; simp

theorem tailOk_badLines (b : BadSec) {e : Exn} (hb : b.Ok e) (hm : NoMarkerHead b.filler) : TailOk b.lines := by
  have := tailOk_section ⟨b.filler, b.old, b.new, b.oldt, b.newt, []⟩ b.body ⟨hb.fillerInert, hb.fillerTerm⟩ hm
  simpa [Sec.lines, diffLines, BadSec.lines] using this

section
open PatchModel.C01
variable {o : Options} {pname : Bytes}

/-- **the pass of the section loop over the bad section**: the exception `e`, the tree as it was -/
theorem processSection_bad (ho : GuessOpts o pname) (s : DState) (hs : LoopState s) (b : BadSec) (e : Exn) (hb : b.Ok e)
    (name bytes : Bytes) (m : Nat) (hnamed : Header.stripped b.old o.strip = name) (hne : name ≠ [])
    (hflat : ∀ c ∈ name, c ≠ SLASHB) (hpar : s.par.s = ⟨b.lines, false, false⟩)
    (htarget : s.fs.lookup name = some (.file bytes m)) (hw : m &&& writeMask ≠ 0) :
    ∃ s', (processSection o (forced o)).run s = (.error e, s') ∧ s'.fs = s.fs ∧
      s'.trace = s.trace ++ [.tmpCreate, .tmpUnlink] ∧ s'.out = s.out ++ [.file name o.dryRun] ∧
      s'.hadFailure = s.hadFailure := by
  have hp := Header.parseHeader_unified' o.strip s.par { format := forced o } b.filler b.old b.new b.oldt b.newt b.h b.first b.more
    hb.fillerInert hb.fillerTerm hb.oldName hb.newName hb.oldStamp hb.newStamp hb.range hb.first hb.firstTerm
    (forced_cases o) rfl (by rw [hpar]) (by rw [hpar]) (by rw [hpar]; rfl)
  have hinf : Header.inferredOp b.h = .change := by
    unfold Header.inferredOp; rw [if_neg hb.change.2, if_neg hb.change.1]
  obtain ⟨s', h1, h2, h3, h4, h5, _⟩ := processSection_bodyError (o := o) (fmt := forced o) (s := s) (p := name) (bytes := bytes)
    (m := m) (e := e) ho.noOperand ho.noOut (by exact hnamed) (flat_ne_devNull hflat) hne hs.cwd hp (Or.inl rfl) hinf rfl
    (by
      simp only [parseBody]
      have := hb.bad (s.par.lineNo + (b.filler.length + 2))
      simp only [BadSec.body] at this
      rw [this]; rfl)
    htarget hw hs.root hs.noFault
  exact ⟨s', h1, h2, h3, h4, h5⟩

/-- what directly follows the hunks of the last complete section -/
theorem tailOk_stream_bad (secs : List Sec) (b : BadSec) {e : Exn} (hok : ∀ s ∈ secs, s.Ok)
    (hm : ∀ s, secs.head? = some s → NoMarkerHead s.filler) (hb : b.Ok e) (hbm : secs = [] → NoMarkerHead b.filler) :
    TailOk (streamLines secs b.lines) := by
  cases secs with
  | nil => simpa [streamLines] using tailOk_badLines b hb (hbm rfl)
  | cons s secs =>
    rw [streamLines_cons]
    have hs := hok s List.mem_cons_self
    exact tailOk_section s _ ⟨hs.fillerInert, hs.fillerTerm⟩ (hm s rfl)

/-- **the section loop of `process_patch` over n clean sections followed by a section whose body the parser refuses**: the loop
    is left by the exception; every target of a complete section holds its result, nothing else in the tree has moved -/
theorem sectionLoop_jobs_abort (ho : GuessOpts o pname) (hreal : o.dryRun = false) (b : BadSec) (e : Exn) (hb : b.Ok e)
    (name bytes : Bytes) (m : Nat) (hnamed : Header.stripped b.old o.strip = name) (hne : name ≠ [])
    (hflat : ∀ c ∈ name, c ≠ SLASHB) (hw : m &&& writeMask ≠ 0) :
    ∀ (js : List Job) (s : DState) (fuel : Nat),
    LoopState s → (∀ j ∈ js, j.Ok o) →
    (∀ j ∈ js, s.fs.lookup j.name = some (.file j.bytes j.m)) → js.Pairwise (fun a b => a.name ≠ b.name) →
    (∀ j ∈ js, name ≠ j.name) → s.fs.lookup name = some (.file bytes m) →
    (∀ j ∈ js.drop 1, NoMarkerHead j.sec.filler) → (js ≠ [] → NoMarkerHead b.filler) →
    s.par.s = ⟨streamLines (js.map (·.sec)) b.lines, false, false⟩ → js.length + 1 ≤ fuel →
    ∃ s', (sectionLoop o (forced o) fuel).run s = (.error e, s') ∧ s'.fs = applyJobs o js s.fs ∧
      s'.hadFailure = s.hadFailure := by
  intro js
  induction js with
  | nil =>
    intro s fuel hs _ _ _ _ htarget _ _ hpar hfuel
    obtain ⟨f, rfl⟩ : ∃ f, fuel = f + 1 := ⟨fuel - 1, by simp at hfuel; omega⟩
    have hpar' : s.par.s = ⟨b.lines, false, false⟩ := by simpa [streamLines] using hpar
    obtain ⟨s', hrun, hfs, _, _, hf⟩ := processSection_bad ho s hs b e hb name bytes m hnamed hne hflat hpar' htarget hw
    exact ⟨s', sectionLoop_error o (forced o) f s s' e (by rw [hpar']) hrun, hfs, hf⟩
  | cons j js ih =>
    intro s fuel hs hok htg hpw hnotin htarget hm hbm hpar hfuel
    obtain ⟨f, rfl⟩ : ∃ f, fuel = f + 1 := ⟨fuel - 1, by simp at hfuel; omega⟩
    have hok' : ∀ x ∈ js, x.Ok o := fun x hx => hok x (List.mem_cons_of_mem _ hx)
    have hm' : ∀ x ∈ js, NoMarkerHead x.sec.filler := by simpa using hm
    have htail : TailOk (streamLines (js.map (·.sec)) b.lines) :=
      tailOk_stream_bad _ b (by intro x hx; obtain ⟨y, hy, rfl⟩ := List.mem_map.1 hx; exact (hok' y hy).sec)
        (by
          intro x hx
          cases js with
          | nil => cases hx
          | cons y ys =>
            simp only [List.map_cons, List.head?_cons, Option.some.injEq] at hx
            subst hx
            exact hm' y List.mem_cons_self)
        hb (fun _ => hbm (by simp))
    rw [List.map_cons, streamLines_cons] at hpar
    obtain ⟨s1, hstep, hfs, hs1, _, hf1, _, _, h1, _⟩ :=
      sectionLoop_job ho hreal s hs j (hok j List.mem_cons_self) _ htail hpar (htg j List.mem_cons_self) f
    rw [hstep]
    have hnil : streamLines (js.map (·.sec)) b.lines ≠ [] := by
      intro h
      exact b.lines_ne_nil (streamLines_eq_nil h).2
    have hpw' := List.pairwise_cons.1 hpw
    obtain ⟨s', hrun, hfs', hf'⟩ := ih s1 f hs1 hok'
      (by
        intro x hx
        rw [hfs, Fs.lookup_set_ne _ _ _ _ (fun e => hpw'.1 x hx e.symm)]
        exact htg x (List.mem_cons_of_mem _ hx))
      hpw'.2 (fun x hx => hnotin x (List.mem_cons_of_mem _ hx))
      (by rw [hfs, Fs.lookup_set_ne _ _ _ _ (hnotin j List.mem_cons_self)]; exact htarget)
      (fun x hx => hm' x (List.mem_of_mem_drop hx))
      (fun _ => by
        cases js with
        | nil => exact hbm (by simp)
        | cons y ys => exact hbm (by simp))
      (h1 hnil) (by simp at hfuel ⊢; omega)
    exact ⟨s', hrun, by rw [hfs', hfs]; rfl, by rw [hf', hf1]⟩

/-- **the whole program on a stream of n clean sections followed by a section whose body the parser refuses**: exit status 2,
    the tree is the old tree with the target of every COMPLETE section replaced by its result -/
theorem runPatch_jobs_abort (ho : GuessOpts o pname) (hreal : o.dryRun = false) {s0 : DState} (hs0 : CleanStart s0)
    (hpn : pname ≠ []) (hpd : pname ≠ [45]) (js : List Job) (b : BadSec) (bodyBytes : Bytes) (e : Exn) (pm : Nat)
    (name bytes : Bytes) (m : Nat)
    (hpatch : s0.fs.lookup pname = some (.file (badStreamText (js.map (·.sec)) b bodyBytes) pm))
    (hok : ∀ j ∈ js, j.Ok o) (htext : ∀ j ∈ js, j.sec.TextOk)
    (htg : ∀ j ∈ js, s0.fs.lookup j.name = some (.file j.bytes j.m)) (hpw : js.Pairwise (fun a b => a.name ≠ b.name))
    (hm : ∀ j ∈ js.drop 1, NoMarkerHead j.sec.filler)
    (hb : b.Ok e) (hbt : b.TextOk) (hbm : js ≠ [] → NoMarkerHead b.filler) (hbody : splitLines bodyBytes = b.body)
    (hnamed : Header.stripped b.old o.strip = name) (hne : name ≠ []) (hflat : ∀ c ∈ name, c ≠ SLASHB)
    (hnotin : ∀ j ∈ js, name ≠ j.name) (htarget : s0.fs.lookup name = some (.file bytes m)) (hw : m &&& writeMask ≠ 0) :
    (runPatch o s0).1 = 2 ∧ (runPatch o s0).2.fs = applyJobs o js s0.fs := by
  have hsplit : splitLines (badStreamText (js.map (·.sec)) b bodyBytes) = streamLines (js.map (·.sec)) b.lines :=
    splitLines_badStreamText _ b bodyBytes (by intro x hx; obtain ⟨y, hy, rfl⟩ := List.mem_map.1 hx; exact htext y hy) hbt hbody
  obtain ⟨s', hloop, hfs, _⟩ := sectionLoop_jobs_abort ho hreal b e hb name bytes m hnamed hne hflat hw js
    (loopStart s0 (streamLines (js.map (·.sec)) b.lines)) ((streamLines (js.map (·.sec)) b.lines).length + 2)
    ⟨hs0.cwd, hs0.noFault, hs0.root⟩ hok htg hpw hnotin htarget hm hbm rfl
    (by have := length_le_streamLines (js.map (·.sec)) b.lines; simp at this; omega)
  have hrunP := run_processPatchM_error o s0 s' pname (badStreamText (js.map (·.sec)) b bodyBytes) pm (forced o) e ho.file.noDir
    ho.file.patchFile hpn hpd hs0.cwd hpatch (.inl hs0.root) (diffFormat_plain o ho.file.noContext ho.file.noNormal ho.file.noEd)
    (by rw [hsplit]; exact hloop)
  rw [runPatch_of_error o s0 s' e ho.file.noHelp ho.file.noVersion hrunP]
  exact ⟨rfl, hfs⟩

end

/-! ### a section whose hunks are rejected, under --dry-run -/

section
variable {o : Options} {fmt : Format} {s : DState} {p bytes : Bytes} {m : Nat}
  {patch0 patch2 : Patch} {info : HeaderInfo} {par1 par2 : Parser} {r : ApplyResult}

/-- **a section whose hunks are (partly or all) rejected, --dry-run** (whatever `-b`, `--backup-if-mismatch`, `-r` say): the
    failure flag is set and the verdict is reported as in the real run (`RunB.processSection_rejected`) — except that the
    announcement says "checking" and the `failed` event names no reject file —; the tree is untouched, no reject file is
    recorded, no backup -/
theorem processSection_rejected_dry (H : BaseSection o fmt s p bytes m patch0 patch2 info par1 par2 r)
    (hfail : r.failed ≠ 0) (hdry : o.dryRun = true) :
    ∃ s', (processSection o fmt).run s = (.ok true, s') ∧
      s'.fs = s.fs ∧
      s'.trace = s.trace ++ [.tmpCreate, .tmpUnlink] ++ [.tmpCreate, .tmpUnlink] ∧
      s'.backedUp = s.backedUp ∧ s'.rejWritten = s.rejWritten ∧
      s'.hadFailure = true ∧
      s'.out = s.out ++ [.file p true] ++ r.msgs.map DEv.msg ++ [.failed r.failed patch2.hunks.length r.skipped none] ∧
      SectionEnd s s' p par2 := by
  have hfb : (r.failed != 0) = true := by simpa using hfail
  have hfe : (r.failed == 0) = false := by simpa using hfail
  base_run [hfb, hfe, hdry, ↓run_failNow]
  refine ⟨_, rfl, rfl, ?_, rfl, rfl, rfl, ?_, ⟨rfl, rfl, rfl, ?_, H.cwd.symm, H.noFault.symm, rfl, rfl, rfl, rfl⟩⟩
  · simp [List.append_assoc]
  · simp [List.append_assoc]
  · generalize s.tty = t
    cases t <;> simp

end

end PatchModel.RunA

#print axioms PatchModel.RunA.parseUnifiedBody_truncated
#print axioms PatchModel.RunA.parseUnifiedBody_garbled
#print axioms PatchModel.RunA.runPatch_jobs_abort
