/-
  Lemmas/RunO — what the end-to-end theorems about a hunk that is applied AWAY FROM ITS STATED LINE or WITH FUZZ
  (Props/C03Run) need on top of Lemmas/Locate, Lemmas/Splice, Lemmas/Section and Lemmas/RunB:

  * the search order of `locate_hunk`: `probedBefore` (position `q` is looked at before position `p` for the same fuzz),
    `find?_candidates_first`, `locateLoop_first`, `locateHunk_first` (the first position in the search order at the least
    fuzz at which anything is admissible is what `locate_hunk` returns, with the offset from the stated line),
    `locateHunk_moved` (fuzz 0), `locateHunk_unique` (the only exact place), `locateHunk_fuzz_at_stated`;
  * the reversed-patch probe: `reversed_not_perfect` (a sufficient condition for "the reversed hunk is not found exactly at
    its stated line", in terms of `admissibleB`);
  * the applier on a single hunk that is placed, but not perfectly: `applyPatch_place_one` (nothing is asked, the output is
    `spliceAt file 0 [(h, p)]`, no reject, the statistics line `Hunk #1 succeeded at p+1 [with fuzz f] [(offset d lines)]`);
  * what `spliceAt` writes for one placement, as lines: `spliceAt_one_lines`, `hunkOutput_exact` (over an exact copy of the old
    side the hunk writes its new side), `spliceAt_one_exact`;
  * one section: `processSection_placed` (no failure, no backup due: the target is re-written, what the applier said goes to the
    log), `processSection_placed_backup` (no failure, a backup due — `-b`, or the default `--backup-if-mismatch` after an
    imperfect placement: the old file is moved to the backup name first).
-/
import PatchModel.Lemmas.RunB
import PatchModel.Props.C02Apply
namespace PatchModel.RunO
open PatchModel PatchModel.DriverFacts PatchModel.Section PatchModel.RunB

/-! ### the search order of `locate_hunk` -/

/-- for one fuzz value, `locate_hunk` looks at position `q` before it looks at position `p`: it goes forward from the search
    start `g` to the end of the file (`size` lines; the end itself, position `size`, included: D109), then backward from `g - 1` -/
def probedBefore (g size q p : Nat) : Prop :=
  (g ≤ q ∧ q < p) ∨ (p < g ∧ ((g ≤ q ∧ q ≤ size) ∨ (p < q ∧ q < g)))

instance (g size q p : Nat) : Decidable (probedBefore g size q p) := by unfold probedBefore; infer_instance

theorem probedBefore_ne {g size q p : Nat} (h : probedBefore g size q p) : q ≠ p := by
  unfold probedBefore at h; omega

theorem find?_range'_first (P : Nat → Bool) : ∀ (k a p : Nat), a ≤ p → p < a + k → P p = true →
    (∀ q, a ≤ q → q < p → P q = false) → (List.range' a k).find? P = some p := by
  intro k
  induction k with
  | zero => intro a p h1 h2; omega
  | succ k ih =>
    intro a p h1 h2 hP hq
    rw [List.range'_succ, List.find?_cons]
    by_cases e : a = p
    · subst e; rw [hP]
    · rw [hq a (Nat.le_refl _) (by omega)]
      exact ih (a + 1) p (by omega) (by omega) hP (fun q g1 g2 => hq q (by omega) g2)

theorem find?_range'_reverse_first (P : Nat → Bool) : ∀ (k a p : Nat), a ≤ p → p < a + k → P p = true →
    (∀ q, p < q → q < a + k → P q = false) → (List.range' a k).reverse.find? P = some p := by
  intro k
  induction k with
  | zero => intro a p h1 h2; omega
  | succ k ih =>
    intro a p h1 h2 hP hq
    rw [List.range'_concat, List.reverse_append, List.reverse_singleton, List.singleton_append, List.find?_cons,
      Nat.one_mul]
    by_cases e : a + k = p
    · rw [e, hP]
    · rw [hq (a + k) (by omega) (by omega)]
      exact ih a p h1 (by omega) hP (fun q g1 g2 => hq q g1 (by omega))

theorem find?_range'_none (P : Nat → Bool) (a k : Nat) (h : ∀ q, a ≤ q → q < a + k → P q = false) :
    (List.range' a k).find? P = none := by
  rw [List.find?_eq_none]
  intro q hq
  have := List.mem_range'_1.1 hq
  rw [h q this.1 this.2]; simp

/-- the scan for one fuzz value returns the first position in its order at which the probe succeeds -/
theorem find?_candidates_first (ss ml size p : Nat) (P : Nat → Bool) (hml : ml ≤ p) (hle : p ≤ size) (hss : ss ≤ size)
    (hP : P p = true) (hfirst : ∀ q, probedBefore ss size q p → P q = false) :
    (candidates ss ml size).find? P = some p := by
  unfold candidates
  rw [List.find?_append]
  by_cases hf : ss ≤ p
  · rw [find?_range'_first P (size + 1 - ss) ss p hf (by omega) hP
      (fun q g1 g2 => hfirst q (Or.inl ⟨g1, g2⟩))]
    rfl
  · rw [find?_range'_none P ss (size + 1 - ss) (fun q g1 g2 => hfirst q (Or.inr ⟨by omega, Or.inl ⟨g1, by omega⟩⟩))]
    simp only [Option.none_or]
    exact find?_range'_reverse_first P (ss - ml) ml p hml (by omega) hP
      (fun q g1 g2 => hfirst q (Or.inr ⟨by omega, Or.inr ⟨g1, by omega⟩⟩))

theorem searchStart_le_size (g : Int) (size : Nat) : searchStart g 0 size ≤ size := by
  unfold searchStart; omega

/-- the fuzz loop: no candidate matches for the fuzz values below `f`, and `p` is the first candidate in the search order that
    matches for fuzz `f` — then `(p, f, p - guess)` is returned -/
theorem locateLoop_first (content : List Line) (h : Hunk) (iw : Bool) (guess : Int) (ml : Nat) (mf : Int)
    (pc sc p f : Nat) (hf : (f : Int) ≤ mf) (hlen : ((f + pc) - max pc sc) + ((f + sc) - max pc sc) < h.lines.length)
    (hless : ∀ f', f' < f → ∀ q ∈ candidates (searchStart guess ml content.length) ml content.length,
      hunkMatchesAt content h iw ((f' + pc) - max pc sc) ((f' + sc) - max pc sc) q = false)
    (hfind : (candidates (searchStart guess ml content.length) ml content.length).find?
      (hunkMatchesAt content h iw ((f + pc) - max pc sc) ((f + sc) - max pc sc)) = some p) :
    ∀ (fuel fuzz : Nat), fuzz ≤ f → f < fuzz + fuel →
      locateLoop content h iw guess ml mf pc sc fuel fuzz = some ⟨(p : Int), (f : Int), (p : Int) - guess⟩ := by
  intro fuel
  induction fuel with
  | zero => intro fuzz h1 h2; omega
  | succ fuel ih =>
    intro fuzz h1 h2
    rw [locateLoop]
    simp only
    have g1 : ¬ ((fuzz : Int) > mf) := by omega
    have g2 : ¬ ((fuzz + sc) - max pc sc + ((fuzz + pc) - max pc sc) ≥ h.lines.length) := by omega
    rw [if_neg g1, if_neg g2]
    by_cases e : fuzz = f
    · subst e
      rw [hfind]
    · have hnone : (candidates (searchStart guess ml content.length) ml content.length).find?
          (hunkMatchesAt content h iw ((fuzz + pc) - max pc sc) ((fuzz + sc) - max pc sc)) = none := by
        rw [List.find?_eq_none]
        intro q hq
        rw [hless fuzz (by omega) q hq]; simp
      rw [hnone]
      exact ih (fuzz + 1) (by omega) (by omega)

/-- **the place `locate_hunk` chooses**: nothing is admissible (from `minLine` on) with a fuzz below `f`; position `p` is
    admissible with fuzz `f`, and no position that the scan looks at before `p` is — then the hunk is placed at `p` with fuzz `f`,
    and the offset reported is the distance of `p` from the stated line (plus the offset accumulated so far) -/
theorem locateHunk_first (file : List Line) (h : Hunk) (iw : Bool) (offset maxFuzz : Int) (ml p f : Nat)
    (hwf : h.WF) (hc : h.old.count ≠ 0) (hml : ml ≤ p)
    (hadm : admissibleB file h iw maxFuzz p f = true)
    (hless : ∀ q f', f' < f → ml ≤ q → admissibleB file h iw maxFuzz q f' = false)
    (hfirst : ∀ q, probedBefore (searchStart (expectedLine h - 1 + offset) ml file.length) file.length q p →
      admissibleB file h iw maxFuzz q f = false) :
    locateHunk file h iw offset maxFuzz ml =
      some ⟨(p : Int), (f : Int), (p : Int) - (expectedLine h - 1 + offset)⟩ := by
  have hle := admissible_le_length file h iw maxFuzz p f hadm
  obtain ⟨a1, a2, a3, _, _⟩ := (admissibleB_iff file h iw maxFuzz p f).1 hadm
  have hmt := (hunkMatchesAt_iff_admissibleB file h iw maxFuzz p f a1 a2 a3).2 hadm
  rw [fuzzPair_fst, fuzzPair_snd] at hmt a3
  rw [locateHunk_eq_loop file h iw offset maxFuzz ml hc]
  -- the probe is the placement spec for every fuzz up to `f`
  have hprobe : ∀ f' q, f' ≤ f →
      admissibleB file h iw maxFuzz q f' = false →
      hunkMatchesAt file h iw ((f' + prefixCtx h.lines) - max (prefixCtx h.lines) (suffixCtx h.lines))
        ((f' + suffixCtx h.lines) - max (prefixCtx h.lines) (suffixCtx h.lines)) q = false := by
    intro f' q hle hna
    cases hm : hunkMatchesAt file h iw ((f' + prefixCtx h.lines) - max (prefixCtx h.lines) (suffixCtx h.lines))
        ((f' + suffixCtx h.lines) - max (prefixCtx h.lines) (suffixCtx h.lines)) q with
    | false => rfl
    | true =>
      have := (hunkMatchesAt_iff_admissibleB file h iw maxFuzz q f' (by omega) (by omega)
        (by rw [fuzzPair_fst, fuzzPair_snd]; omega)).1 (by rw [fuzzPair_fst, fuzzPair_snd]; exact hm)
      rw [this] at hna; cases hna
  have hss : ml ≤ searchStart (expectedLine h - 1 + offset) ml file.length := searchStart_ge _ _ _
  have hss2 : searchStart (expectedLine h - 1 + offset) ml file.length ≤ max ml file.length := searchStart_le _ _ _
  refine locateLoop_first file h iw _ ml _ _ _ p f (by omega) a3 ?_ ?_ _ 0 (Nat.zero_le _) (by omega)
  · intro f' hf' q hq
    have hq' := (mem_candidates_searchStart _ ml file.length q).1 hq
    exact hprobe f' q (by omega) (hless q f' hf' hq'.1)
  · exact find?_candidates_first _ ml file.length p _ hml hle (by omega) hmt
      (fun q hq => hprobe f q (Nat.le_refl _) (hfirst q hq))

/-- the text has moved: the old side is found exactly (fuzz 0) at `p`, and at no position that the scan visits before `p` -/
theorem locateHunk_moved (file : List Line) (h : Hunk) (iw : Bool) (maxFuzz : Int) (p : Nat)
    (hwf : h.WF) (hc : h.old.count ≠ 0)
    (hadm : admissibleB file h iw maxFuzz p 0 = true)
    (hfirst : ∀ q, probedBefore (searchStart (h.old.start - 1) 0 file.length) file.length q p →
      admissibleB file h iw maxFuzz q 0 = false) :
    locateHunk file h iw 0 maxFuzz 0 = some ⟨(p : Int), 0, (p : Int) - (h.old.start - 1)⟩ := by
  have he : expectedLine h = h.old.start := by unfold expectedLine; rw [if_neg hc]
  have := locateHunk_first file h iw 0 maxFuzz 0 p 0 hwf hc (Nat.zero_le _) hadm (fun q f' hf' => by omega)
    (by rw [he, Int.add_zero]; exact hfirst)
  rw [he, Int.add_zero] at this
  exact this

/-- … in particular when `p` is the only position at which the old side is found exactly -/
theorem locateHunk_unique (file : List Line) (h : Hunk) (iw : Bool) (maxFuzz : Int) (p : Nat)
    (hwf : h.WF) (hc : h.old.count ≠ 0)
    (hadm : admissibleB file h iw maxFuzz p 0 = true)
    (huniq : ∀ q, q ≠ p → admissibleB file h iw maxFuzz q 0 = false) :
    locateHunk file h iw 0 maxFuzz 0 = some ⟨(p : Int), 0, (p : Int) - (h.old.start - 1)⟩ :=
  locateHunk_moved file h iw maxFuzz p hwf hc hadm (fun q hq => huniq q (probedBefore_ne hq))

/-- fuzz at the stated line: nothing is admissible with a smaller fuzz, the stated line `g + 1` is admissible with fuzz `f` -/
theorem locateHunk_fuzz_at_stated (file : List Line) (h : Hunk) (iw : Bool) (maxFuzz : Int) (g f : Nat)
    (hwf : h.WF) (hc : h.old.count ≠ 0) (hg : h.old.start - 1 = (g : Int))
    (hadm : admissibleB file h iw maxFuzz g f = true)
    (hless : ∀ q f', f' < f → admissibleB file h iw maxFuzz q f' = false) :
    locateHunk file h iw 0 maxFuzz 0 = some ⟨(g : Int), (f : Int), 0⟩ := by
  have he : expectedLine h = h.old.start := by unfold expectedLine; rw [if_neg hc]
  have hle := admissible_le_length file h iw maxFuzz g f hadm
  have hs : searchStart (expectedLine h - 1 + 0) 0 file.length = g := by
    rw [he, Int.add_zero, hg]; exact searchStart_eq g 0 file.length (Nat.zero_le _) (by omega)
  have := locateHunk_first file h iw 0 maxFuzz 0 g f hwf hc (Nat.zero_le _) hadm (fun q f' hf' _ => hless q f' hf')
    (by rw [hs]; intro q hq; unfold probedBefore at hq; omega)
  rw [he, Int.add_zero, hg, Int.sub_self] at this
  exact this

/-! ### the reversed-patch probe -/

/-- a sufficient condition for "the reversed hunk is not found exactly at its stated line" (what makes `apply_patch` ask about a
    reversed patch when the hunk itself is not placed perfectly): the hunk has a new side, and that new side is not exactly at
    the line the NEW range states -/
theorem reversed_not_perfect (file : List Line) (h : Hunk) (iw : Bool) (maxFuzz : Int)
    (hc : h.new.count ≠ 0)
    (hnot : ∀ g : Nat, h.new.start - 1 = (g : Int) → admissibleB file (reverseHunk h) iw maxFuzz g 0 = false) :
    isPerfect (locateHunk file (reverseHunk h) iw 0 maxFuzz 0) = false := by
  cases hl : locateHunk file (reverseHunk h) iw 0 maxFuzz 0 with
  | none => rfl
  | some l =>
    have hc' : (reverseHunk h).old.count ≠ 0 := hc
    obtain ⟨q, f, h1, h2, _, h4, h5⟩ := C02.locate_sound file (reverseHunk h) iw 0 maxFuzz 0 l hl hc'
    have he : expectedLine (reverseHunk h) = h.new.start := by
      unfold expectedLine; rw [if_neg hc']; rfl
    rw [he] at h5
    cases hp : isPerfect (some l) with
    | false => rfl
    | true =>
      simp only [isPerfect, Bool.and_eq_true, beq_iff_eq] at hp
      have hf0 : f = 0 := by omega
      subst hf0
      have := hnot q (by omega)
      rw [this] at h4; cases h4

/-! ### the applier on a single hunk that is placed away from its line, or with fuzz -/

/-- `apply_patch` for a patch with one hunk which `locate_hunk` finds, but not perfectly (an offset, or fuzz), and which,
    reversed, is not found perfectly (or `-f`, which skips that probe; or the hunk has no new side: reversed it has no old lines,
    and being "found" is no evidence — fix 3f5edfc): nothing is asked; the output is the file with the hunk
    laid over position `p` (`spliceAt`: context lines from the file, additions from the patch); no reject; "not perfect" is
    handed back (it decides about the mismatch backup) and the one statistics line is printed -/
theorem applyPatch_place_one (file : List Line) (h : Hunk) (p0 : Patch) (o : ApplyOpts) (tty : Option (List Bool))
    (p : Nat) (f d : Int)
    (hrev : o.reverse = false) (hD : o.define = []) (hp : p0.hunks = [h]) (hops : Splice.OpsOK h.lines)
    (hple : p ≤ file.length) (htail : ∀ k, file.length ≤ p + k → Splice.delAt h.lines k = false)
    (hloc : locateHunk file h o.ignoreWhitespace 0 o.maxFuzz 0 = some ⟨(p : Int), f, d⟩)
    (hnp : ¬ (d = 0 ∧ f = 0))
    -- was (before fix 3f5edfc mirrored in the model): `o.force = true ∨ isPerfect (locateHunk file (reverseHunk h) …) = false`;
    -- the probe only counts when the reversed hunk has old lines, i.e. when the hunk has a new side
    (hrloc : o.force = true ∨ h.new.count = 0 ∨
      isPerfect (locateHunk file (reverseHunk h) o.ignoreWhitespace 0 o.maxFuzz 0) = false) :
    ∃ r, applyPatch file p0 o tty = .ok r ∧ r.out = spliceAt file 0 [(h, p)] ∧ r.rejBytes = [] ∧ r.failed = 0 ∧
      r.skipped = false ∧ r.perfect = false ∧ r.rejected = [] ∧ r.applied = [(0, ⟨(p : Int), f, d⟩)] ∧
      r.msgs = [Msg.hunk 1 "succeeded" ((p : Int) + 1) f d] ∧ r.tty = tty ∧ r.patch = p0 := by
  have hperf : isPerfect (some ⟨(p : Int), f, d⟩) = false := by
    cases hx : isPerfect (some ⟨(p : Int), f, d⟩) with
    | false => rfl
    | true =>
      simp only [isPerfect, Bool.and_eq_true, beq_iff_eq] at hx
      exact absurd ⟨hx.2, hx.1⟩ hnp
  have hne : ¬ (p > 0 ∧ p > file.length) := by omega
  have hfin : finishHunk file o p0 { tty := tty } 0 h (some ⟨(p : Int), f, d⟩) =
      .ok { tty := tty, out := copyRange file 0 p ++ hunkOutput file h.lines p, cursor := nextCursor file h p,
            offErr := d, applied := [(0, ⟨(p : Int), f, d⟩)], perfect := false,
            msgs := [Msg.hunk 1 "succeeded" ((p : Int) + 1) f d], offNew := h.new.count - h.old.count } := by
    unfold finishHunk
    simp [hperf, hD, Apply.writeHunkD_nil, Splice.writeHunk_eq_min file h.lines p hops hple htail, hne, hunkMsg, nextCursor]
  have hsc : shouldCheckReversed (some ⟨(p : Int), f, d⟩) o = !o.force := by
    unfold shouldCheckReversed
    simp only [hnp, if_false]
  have hout : ([] ++ copyRange file 0 p ++ hunkOutput file h.lines p) ++
      copyRange file (nextCursor file h p) (file.length - nextCursor file h p) = spliceAt file 0 [(h, p)] := by
    simp [spliceAt, List.append_assoc]
  unfold applyPatch
  simp only [hrev, Bool.false_eq_true, if_false, hp, hloc, hsc]
  cases hf : o.force
  · have hr : ((reverseHunk h).old.count != 0 &&
        isPerfect (locateHunk file (reverseHunk h) o.ignoreWhitespace 0 o.maxFuzz 0)) = false := by
      rcases hrloc with h1 | h1 | h1
      · rw [hf] at h1; cases h1
      · have : (reverseHunk h).old.count = 0 := h1
        rw [this]; rfl
      · rw [h1, Bool.and_false]
    simp only [Bool.not_false, if_true, hr, Option.isNone_some, Bool.false_and, Bool.or_self,
      Bool.false_eq_true, if_false, hfin, applyRest]
    refine ⟨_, rfl, ?_, rfl, rfl, rfl, rfl, rfl, rfl, rfl, rfl, rfl⟩
    simpa using hout
  · simp only [Bool.not_true, Bool.false_eq_true, if_false, hfin, applyRest]
    refine ⟨_, rfl, ?_, rfl, rfl, rfl, rfl, rfl, rfl, rfl, rfl, rfl⟩
    simpa using hout

/-! ### what one placement writes, as lines -/

/-- the lines of the output for one placement: the file up to `p`, what the hunk writes, the file after the old side -/
theorem drop_nextCursor (file : List Line) (h : Hunk) (p : Nat) :
    file.drop (nextCursor file h p) = file.drop (p + (oldOf h.lines).length) := by
  unfold nextCursor
  by_cases hle : p + (oldOf h.lines).length ≤ file.length
  · rw [Nat.min_eq_left hle]
  · rw [Nat.min_eq_right (by omega), List.drop_eq_nil_of_le (Nat.le_refl _), List.drop_eq_nil_of_le (by omega)]

theorem spliceAt_one_lines (file : List Line) (h : Hunk) (p : Nat) :
    (spliceAt file 0 [(h, p)]).map Out.line =
      file.take p ++ (hunkOutput file h.lines p).map Out.line ++ file.drop (p + (oldOf h.lines).length) := by
  have e : ∀ c, List.take (file.length - c) (List.drop c file) = List.drop c file :=
    fun c => List.take_of_length_le (by simp)
  simp only [spliceAt, List.map_append, Render.copyRange_map_line, List.drop_zero, Nat.sub_zero, List.append_assoc, e]
  rw [drop_nextCursor]

/-- laid over an exact copy of its old side, a hunk writes its new side -/
theorem hunkOutput_exact (file : List Line) : ∀ (ls : List PatchLine) (p : Nat), Splice.OpsOK ls →
    (∀ j, j < (oldOf ls).length → file[p + j]? = (oldOf ls)[j]?) →
    (hunkOutput file ls p).map Out.line = newOf ls := by
  intro ls
  induction ls with
  | nil => intro p _ _; rfl
  | cons pl rest ih =>
    intro p hops hm
    rw [hunkOutput]
    rcases hops.head with hop | hop | hop
    · have hp' : (pl.op == PLUS) = false := by rw [hop]; decide
      have hm' : (pl.op == MINUS) = false := by rw [hop]; decide
      rw [Splice.oldOf_cons_not_plus hp'] at hm
      have h0 := hm 0 (by simp)
      simp only [Nat.add_zero, List.getElem?_cons_zero] at h0
      rw [Splice.newOf_cons_not_minus hm']
      simp only [hop, Splice.SP_beq_PLUS, Bool.false_eq_true, if_false, beq_self_eq_true, if_true, h0,
        List.singleton_append, List.map_cons, Out.line]
      rw [ih (p + 1) hops.tail (fun j hj => by
        have := hm (j + 1) (by simpa using hj)
        rw [List.getElem?_cons_succ] at this
        rw [← this]; congr 1; omega)]
    · have hm' : (pl.op == MINUS) = false := by rw [hop]; decide
      rw [Splice.oldOf_cons_plus hop] at hm
      rw [Splice.newOf_cons_not_minus hm']
      simp only [hop, beq_self_eq_true, if_true, List.map_cons, Out.line]
      rw [ih p hops.tail hm]
    · have hp' : (pl.op == PLUS) = false := by rw [hop]; decide
      have hs' : (pl.op == SP) = false := by rw [hop]; decide
      rw [Splice.oldOf_cons_not_plus hp'] at hm
      rw [Splice.newOf_cons_minus hop]
      simp only [hop, Splice.MINUS_beq_PLUS, Splice.MINUS_beq_SP, Bool.false_eq_true, if_false]
      rw [ih (p + 1) hops.tail (fun j hj => by
        have := hm (j + 1) (by simpa using hj)
        rw [List.getElem?_cons_succ] at this
        rw [← this]; congr 1; omega)]

/-- the file is `X ++ old side ++ Y` and the hunk is placed right after `X`: the output is `X ++ new side ++ Y` -/
theorem spliceAt_one_exact (h : Hunk) (X Y : List Line) (hops : Splice.OpsOK h.lines) :
    (spliceAt (X ++ oldOf h.lines ++ Y) 0 [(h, X.length)]).map Out.line = X ++ newOf h.lines ++ Y := by
  rw [spliceAt_one_lines, hunkOutput_exact _ h.lines X.length hops (fun j hj => by
    rw [List.append_assoc, List.getElem?_append_right (by omega), Nat.add_sub_cancel_left, List.getElem?_append_left hj])]
  congr 1
  · congr 1
    rw [List.append_assoc, List.take_left']
    rfl
  · rw [← List.length_append, List.drop_left']
    rfl

theorem lineEqB_self (iw : Bool) (a : Line) : lineEqB iw a a = true := by
  unfold lineEqB; simp

/-- an exact copy of the (non-empty) old side after `X` is an admissible place without fuzz (with or without `-l`), whatever `-F` allows -/
theorem admissibleB_of_exact (h : Hunk) (iw : Bool) (maxFuzz : Int) (X Y : List Line) (hne : h.lines ≠ [])
    (hold : oldOf h.lines ≠ []) (hmf : 0 ≤ maxFuzz) :
    admissibleB (X ++ oldOf h.lines ++ Y) h iw maxFuzz X.length 0 = true := by
  rw [admissibleB_iff]
  have hl : 0 < h.lines.length := List.length_pos_iff.2 hne
  have hol : 0 < (oldOf h.lines).length := List.length_pos_iff.2 hold
  refine ⟨by simpa using hmf, Nat.zero_le _, ?_, by simp; omega, by simp, ?_⟩
  · rw [fuzzPair_fst, fuzzPair_snd]; omega
  · intro j hj
    refine Or.inr (Or.inr ⟨(oldOf h.lines)[j], (oldOf h.lines)[j], ?_, by simp, lineEqB_self _ _⟩)
    rw [List.append_assoc, List.getElem?_append_right (by omega), Nat.add_sub_cancel_left, List.getElem?_append_left hj]
    simp

/-! ### one section whose hunks are all placed, some of them not perfectly -/

section
variable {o : Options} {fmt : Format} {s : DState} {p bytes : Bytes} {m : Nat}
  {patch0 patch2 : Patch} {info : HeaderInfo} {par1 par2 : Parser} {r : ApplyResult}

/-- **a section without failure and without a backup due, real run** — neither `-b` nor (`--backup-if-mismatch` and an imperfect
    placement): the target is re-written with what the applier put out and keeps its mode; what the applier printed goes to the
    log after the "patching file" line; no failure is recorded -/
theorem processSection_placed (H : BaseSection o fmt s p bytes m patch0 patch2 info par1 par2 r)
    (hfail : r.failed = 0)
    (hnb : o.saveBackup = false) (hsb : (!r.perfect && !r.skipped && o.backupIfMismatch == .yes) = false)
    (hreal : o.dryRun = false) (hdir : s.fs.dirExists (parentOf p) = true) :
    ∃ s', (processSection o fmt).run s = (.ok true, s') ∧
      s'.fs = s.fs.set p (.file (render o.newlineOutput r.out) m) ∧
      s'.trace = s.trace ++ [.tmpCreate, .tmpUnlink] ++ [.tmpCreate, .tmpUnlink] ++
        resultOps p (render o.newlineOutput r.out) m ∧
      s'.backedUp = s.backedUp ∧ s'.rejWritten = s.rejWritten ∧
      s'.hadFailure = s.hadFailure ∧ s'.out = s.out ++ [.file p false] ++ r.msgs.map DEv.msg ∧
      SectionEnd s s' p par2 := by
  base_run [hfail, hnb, hsb, hreal,
    (fun s' pt c perm => @run_writePatchedResult_plain s' p bytes m o pt c m perm), hdir]
  refine ⟨_, rfl, rfl, ?_, rfl, rfl, rfl, rfl, ⟨rfl, rfl, rfl, ?_, H.cwd.symm, H.noFault.symm, rfl, rfl, rfl, rfl⟩⟩
  · simp [List.append_assoc]
  · generalize s.tty = t
    cases t <;> simp

/-- **a section without failure and with a backup due, real run** — `-b`, or `--backup-if-mismatch` (the default outside POSIX
    mode) after a placement that was not perfect: the target's old bytes and mode are found under the backup name (one `rename`),
    the target holds the rendered output with its old mode, the backup name is recorded, the applier's messages go to the log
    (`hnd`: the backup name is not that of a directory — a file is not renamed onto a directory) -/
theorem processSection_placed_backup (H : BaseSection o fmt s p bytes m patch0 patch2 info par1 par2 r)
    (hfail : r.failed = 0)
    (hb : o.saveBackup = true ∨ (r.perfect = false ∧ r.skipped = false ∧ o.backupIfMismatch = .yes))
    (hreal : o.dryRun = false) (hdir : s.fs.dirExists (parentOf p) = true)
    (hnot : s.backedUp.contains (backupName o p) = false)
    (hdirs : DirsThere s.fs (backupName o p)) (hbdir : s.fs.dirExists (parentOf (backupName o p)) = true)
    (hnd : NotDir s.fs (backupName o p)) :
    ∃ s', (processSection o fmt).run s = (.ok true, s') ∧
      s'.fs = ((s.fs.erase p).set (backupName o p) (.file bytes m)).set p (.file (render o.newlineOutput r.out) m) ∧
      s'.trace = s.trace ++ [.tmpCreate, .tmpUnlink] ++ [.tmpCreate, .tmpUnlink] ++
        backupOps o p (render o.newlineOutput r.out) m ∧
      s'.backedUp = s.backedUp ++ [backupName o p] ∧ s'.rejWritten = s.rejWritten ∧
      s'.hadFailure = s.hadFailure ∧ s'.out = s.out ++ [.file p false] ++ r.msgs.map DEv.msg ∧
      SectionEnd s s' p par2 := by
  rcases hb with hb | ⟨hperf, hskip, hbim⟩
  · base_run [hfail, hb, hreal,
      (fun s' pt c perm => @run_writePatchedResult_backup s' p bytes m o pt c m perm), hdir, hnot, hdirs, hbdir, hnd, H.pathNe]
    refine ⟨_, rfl, rfl, ?_, rfl, rfl, rfl, rfl, ⟨rfl, rfl, rfl, ?_, H.cwd.symm, H.noFault.symm, rfl, rfl, rfl, rfl⟩⟩
    · simp [List.append_assoc]
    · generalize s.tty = t
      cases t <;> simp
  · base_run [hfail, hperf, hskip, hbim, hreal,
      (fun s' pt c perm => @run_writePatchedResult_backup s' p bytes m o pt c m perm), hdir, hnot, hdirs, hbdir, hnd, H.pathNe]
    refine ⟨_, rfl, rfl, ?_, rfl, rfl, rfl, rfl, ⟨rfl, rfl, rfl, ?_, H.cwd.symm, H.noFault.symm, rfl, rfl, rfl, rfl⟩⟩
    · simp [List.append_assoc]
    · generalize s.tty = t
      cases t <;> simp

end

end PatchModel.RunO
