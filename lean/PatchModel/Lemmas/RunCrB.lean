/-
  Lemmas/RunCrB — one section that CREATES its file, with a backup asked for (`-b`, `o.saveBackup = true`).

  `RunCr.CreateSection` carries `noBackup : o.saveBackup = false`; `CreateSectionB` is the same record without that field
  (`CreateSectionB.of_create`: every `CreateSection` is one; `CreateSectionB.of_flip`: a `CreateSection` for the options with
  `saveBackup := false` is one for the options themselves — no other field of the record looks at `saveBackup`).

  In `write_patched_result_to_file` the backup comes before the write:

      if shouldBackup then makeBackupFor o outputFile          -- nothing is at outputFile: `make_way_for bn; creat bn`
      makeWritable …; writeFile outputFile content; …

  and `Backup::make_backup_for` of a file that does NOT exist makes an EMPTY regular file at the backup name (mode: what `creat`
  gives, `0666 & ~umask`) and records the name:

  * `run_makeBackupFor_absent` — the closed form of that (nothing at the backup name either);
  * `run_writePatchedResult_create_backup` — the immediate write of a result to a free path with a backup due;
  * `processSection_create_backup` — real run, `-b`: the tree is `(fs.set bn (.file [] m)).set p (.file content m)`, the trace
    `creat bn`, `creat p`, `write p content` after the temporaries; the backup name is recorded;
  * `processSection_create_backup_dry` — under --dry-run, whatever `-b` says: the tree untouched, no backup recorded.
-/
import PatchModel.Lemmas.RunCr
import PatchModel.Props.C18
namespace PatchModel.RunCrB
open PatchModel PatchModel.DriverFacts PatchModel.Section PatchModel.Run PatchModel.RunB PatchModel.RunG PatchModel.RunCr

/-! ### `Backup::make_backup_for` of a file that is not there, closed form -/

/-- the first backup of a path where nothing is, nothing being at the backup name either (all directories of the backup name are
    there): one `creat` — an empty regular file, mode `0666 & ~umask`, at the backup name; the name is recorded -/
theorem run_makeBackupFor_absent (o : Options) {s : DState} {p : Bytes} (hcwd : s.cwd = [])
    (h : s.fs.lookup p = none) (hnot : s.backedUp.contains (backupName o p) = false)
    (hdirs : DirsThere s.fs (backupName o p)) (hdir : s.fs.dirExists (parentOf (backupName o p)) = true)
    (hfree : s.fs.lookup (backupName o p) = none) (hf : s.faultAt = none) :
    (makeBackupFor o p).run s =
      (.ok (), { s with backedUp := s.backedUp ++ [backupName o p],
                        fs := s.fs.set (backupName o p) (.file [] (0o666 - (0o666 &&& s.fs.umask))),
                        trace := s.trace ++ [.creat (backupName o p)],
                        opCount := s.opCount + (dirPrefixes (backupName o p)).length + 1 }) := by
  rw [makeBackupFor_run, if_neg (by rw [notFileAt_of_lookup_none (by rw [absPath_nil hcwd]; exact h)]; simp),
    if_neg (by rw [hnot]; simp),
    ensureParentDirs_run_exist (backupName o p) { s with backedUp := s.backedUp ++ [backupName o p] } (C18.backupName_ne_nil o p) hf
      (by intro d hd; show (s.fs.lookup (absPath s d)).isSome = true; rw [absPath_nil hcwd]; exact hdirs d hd)]
  simp only []
  have e1 : ∀ (bu : List Bytes) (n : Nat) q, absPath { s with backedUp := bu, opCount := n } q = q := fun _ _ q => absPath_nil hcwd q
  simp only [e1]
  have hst : s.fs.stat p = none := by unfold Fs.stat; rw [h]
  rw [if_neg (by rw [hst]; simp),
    if_neg (by
      rw [inWayAt_of_none (s := { s with backedUp := s.backedUp ++ [backupName o p],
                                         opCount := s.opCount + (dirPrefixes (backupName o p)).length })
        (by rw [e1]; exact hfree)]
      simp)]
  exact doOp_run_ok (s := { s with backedUp := s.backedUp ++ [backupName o p], opCount := s.opCount + (dirPrefixes (backupName o p)).length })
    hf (apply_creat_new hfree hdir)

/-- `write_patched_result_to_file` for a non-git "add" patch without a mode line onto a free path, a backup due
    (`shouldBackup = true`), nothing at the backup name: the EMPTY backup is created, then the file is created and written; no
    `chmod` -/
theorem run_writePatchedResult_create_backup {s : DState} {p : Bytes} (o : Options) (pt : Patch) (content : Bytes)
    (perm : PermResult) (hp : p ≠ []) (hfmt : (pt.format == .git) = false) (hop : (pt.operation == .add) = true)
    (hnm : pt.newMode = 0) (hperm : perm.oldPerms = none) (hnf : perm.needFix = false)
    (hcwd : s.cwd = []) (h : s.fs.lookup p = none) (hdirs : DirsThere s.fs p)
    (hdir : s.fs.dirExists (parentOf p) = true)
    (hnot : s.backedUp.contains (backupName o p) = false)
    (hbdirs : DirsThere s.fs (backupName o p)) (hbdir : s.fs.dirExists (parentOf (backupName o p)) = true)
    (hfree : s.fs.lookup (backupName o p) = none) (hf : s.faultAt = none) :
    (writePatchedResult o pt p perm true content).run s =
      (.ok (), { s with backedUp := s.backedUp ++ [backupName o p],
                        fs := (s.fs.set (backupName o p) (.file [] (0o666 - (0o666 &&& s.fs.umask)))).set p
                                (.file content (0o666 - (0o666 &&& s.fs.umask))),
                        trace := s.trace ++ [.creat (backupName o p)] ++ writeOps p content,
                        opCount := s.opCount + (dirPrefixes p).length + (dirPrefixes (backupName o p)).length + 1 +
                                     (writeOps p content).length }) := by
  have hne : p ≠ backupName o p := fun e => backupName_ne o p e.symm
  unfold writePatchedResult
  simp only [hfmt, hop, Bool.false_eq_true, if_false, if_true, Bool.false_and, hnm]
  rw [run_bind, run_ensureParentDirs_there hp hcwd hdirs hf]
  simp only []
  rw [run_bind, run_makeBackupFor_absent o (by exact hcwd) (by exact h) (by exact hnot) (by exact hbdirs) (by exact hbdir)
    (by exact hfree) (by exact hf)]
  simp only []
  rw [run_bind, run_makeWritable_noFix hnf]
  simp only []
  rw [run_bind, run_writeFile_new content (by exact hcwd)
    (by show (Fs.set _ _ _).lookup p = none
        rw [Fs.lookup_set_ne _ _ _ _ hne]; exact h)
    (by show Fs.dirExists (Fs.set _ _ _) _ = true
        rw [Fs.dirExists_set_ne _ _ _ _ (parentOf_ne_backupName o hp)]
        exact hdir)
    (by exact hf)]
  simp only []
  rw [run_permissionCallback_none perm hperm]
  simp [Fs.umask_set]

/-! ### … when a regular file or a symbolic link sits at the backup name (`make_way_for`: it is unlinked first) -/

theorem Fs.set_erase_self (fs : Fs) (p : Bytes) (n : Node) : (fs.erase p).set p n = fs.set p n := by
  unfold Fs.set Fs.erase
  simp only [List.filter_filter, Bool.and_self]

/-- a regular file or a symbolic link -/
def InWay (n : Node) : Prop := (∃ t, n = .symlink t) ∨ ∃ b m, n = .file b m

/-- the first backup of a path where nothing is, a regular file or a symbolic link being at the backup name: `unlink`, `creat` —
    the same tree as when nothing is there -/
theorem run_makeBackupFor_absent_taken (o : Options) {s : DState} {p : Bytes} {n : Node} (hcwd : s.cwd = [])
    (h : s.fs.lookup p = none) (hnot : s.backedUp.contains (backupName o p) = false)
    (hdirs : DirsThere s.fs (backupName o p)) (hdir : s.fs.dirExists (parentOf (backupName o p)) = true)
    (hl : s.fs.lookup (backupName o p) = some n) (hn : InWay n) (hf : s.faultAt = none) :
    (makeBackupFor o p).run s =
      (.ok (), { s with backedUp := s.backedUp ++ [backupName o p],
                        fs := s.fs.set (backupName o p) (.file [] (0o666 - (0o666 &&& s.fs.umask))),
                        trace := s.trace ++ [.unlink (backupName o p), .creat (backupName o p)],
                        opCount := s.opCount + (dirPrefixes (backupName o p)).length + 2 }) := by
  have hunl : s.fs.apply (.unlink (backupName o p)) = .ok (s.fs.erase (backupName o p)) := by
    rcases hn with ⟨t, rfl⟩ | ⟨old, m, rfl⟩ <;> simp only [Fs.apply, hl]
  have e1 : ∀ (bu : List Bytes) (k : Nat) q, absPath { s with backedUp := bu, opCount := k } q = q := fun _ _ q => absPath_nil hcwd q
  have hway : inWayAt { s with backedUp := s.backedUp ++ [backupName o p], opCount := s.opCount + (dirPrefixes (backupName o p)).length }
      (backupName o p) = true := by
    rcases hn with ⟨t, rfl⟩ | ⟨old, m, rfl⟩
    · exact inWayAt_of_link (s := { s with backedUp := s.backedUp ++ [backupName o p], opCount := s.opCount + (dirPrefixes (backupName o p)).length })
        (by rw [e1]; exact hl)
    · exact inWayAt_of_file (s := { s with backedUp := s.backedUp ++ [backupName o p], opCount := s.opCount + (dirPrefixes (backupName o p)).length })
        (by rw [e1]; exact hl)
  have hcr : (s.fs.erase (backupName o p)).apply (.creat (backupName o p)) =
      .ok ((s.fs.erase (backupName o p)).set (backupName o p) (.file [] (0o666 - (0o666 &&& s.fs.umask)))) :=
    apply_creat_new (Fs.lookup_erase_self _ _) (by
      rw [Fs.dirExists_erase_ne _ _ _ (C18.parentOf_ne_self (C18.backupName_ne_nil o p))]; exact hdir)
  rw [makeBackupFor_run, if_neg (by rw [notFileAt_of_lookup_none (by rw [absPath_nil hcwd]; exact h)]; simp),
    if_neg (by rw [hnot]; simp),
    ensureParentDirs_run_exist (backupName o p) { s with backedUp := s.backedUp ++ [backupName o p] } (C18.backupName_ne_nil o p) hf
      (by intro d hd; show (s.fs.lookup (absPath s d)).isSome = true; rw [absPath_nil hcwd]; exact hdirs d hd)]
  simp only []
  simp only [e1]
  have hst : s.fs.stat p = none := by unfold Fs.stat; rw [h]
  rw [if_neg (by rw [hst]; simp), if_pos hway,
    doOp_run_ok (s := { s with backedUp := s.backedUp ++ [backupName o p], opCount := s.opCount + (dirPrefixes (backupName o p)).length }) hf hunl]
  simp only []
  rw [doOp_run_ok (s := { s with backedUp := s.backedUp ++ [backupName o p], fs := s.fs.erase (backupName o p),
                                 trace := s.trace ++ [.unlink (backupName o p)],
                                 opCount := s.opCount + (dirPrefixes (backupName o p)).length + 1 }) hf hcr]
  simp [Fs.set_erase_self]

/-- `run_writePatchedResult_create_backup` when a regular file or a symbolic link sits at the backup name -/
theorem run_writePatchedResult_create_backup_taken {s : DState} {p : Bytes} {n : Node} (o : Options) (pt : Patch) (content : Bytes)
    (perm : PermResult) (hp : p ≠ []) (hn : InWay n) (hfmt : (pt.format == .git) = false) (hop : (pt.operation == .add) = true)
    (hnm : pt.newMode = 0) (hperm : perm.oldPerms = none) (hnf : perm.needFix = false)
    (hcwd : s.cwd = []) (h : s.fs.lookup p = none) (hdirs : DirsThere s.fs p)
    (hdir : s.fs.dirExists (parentOf p) = true)
    (hnot : s.backedUp.contains (backupName o p) = false)
    (hbdirs : DirsThere s.fs (backupName o p)) (hbdir : s.fs.dirExists (parentOf (backupName o p)) = true)
    (hl : s.fs.lookup (backupName o p) = some n) (hf : s.faultAt = none) :
    (writePatchedResult o pt p perm true content).run s =
      (.ok (), { s with backedUp := s.backedUp ++ [backupName o p],
                        fs := (s.fs.set (backupName o p) (.file [] (0o666 - (0o666 &&& s.fs.umask)))).set p
                                (.file content (0o666 - (0o666 &&& s.fs.umask))),
                        trace := s.trace ++ [.unlink (backupName o p), .creat (backupName o p)] ++ writeOps p content,
                        opCount := s.opCount + (dirPrefixes p).length + (dirPrefixes (backupName o p)).length + 2 +
                                     (writeOps p content).length }) := by
  have hne : p ≠ backupName o p := fun e => backupName_ne o p e.symm
  unfold writePatchedResult
  simp only [hfmt, hop, Bool.false_eq_true, if_false, if_true, Bool.false_and, hnm]
  rw [run_bind, run_ensureParentDirs_there hp hcwd hdirs hf]
  simp only []
  rw [run_bind, run_makeBackupFor_absent_taken o (n := n) (by exact hcwd) (by exact h) (by exact hnot) (by exact hbdirs)
    (by exact hbdir) (by exact hl) hn (by exact hf)]
  simp only []
  rw [run_bind, run_makeWritable_noFix hnf]
  simp only []
  rw [run_bind, run_writeFile_new content (by exact hcwd)
    (by show (Fs.set _ _ _).lookup p = none
        rw [Fs.lookup_set_ne _ _ _ _ hne]; exact h)
    (by show Fs.dirExists (Fs.set _ _ _) _ = true
        rw [Fs.dirExists_set_ne _ _ _ _ (parentOf_ne_backupName o hp)]
        exact hdir)
    (by exact hf)]
  simp only []
  rw [run_permissionCallback_none perm hperm]
  simp [Fs.umask_set]

/-! ### one section that creates a file, `-b` -/

/-- `RunCr.CreateSection` without `noBackup` -/
structure CreateSectionB (o : Options) (fmt : Format) (s : DState) (p : Bytes)
    (patch0 patch2 : Patch) (info : HeaderInfo) (par1 par2 : Parser) (r : ApplyResult) : Prop where
  target : o.fileToPatch = p ∨ (o.fileToPatch = [] ∧ s.fs.lookup [] = none ∧ ∀ s' : DState, s'.cwd = [] →
    s'.fs.lookup p = none → s'.fs.lookup [] = none → (guessFilepath patch0 o.reverse).run s' = (.ok p, s'))
  noOut : o.outFile = []
  pathNe : p ≠ []
  cwd : s.cwd = []
  hdr : parseHeader s.par { format := fmt } o.strip = .ok (true, patch0, info, par1)
  fmt : patch0.format = .unified ∨ patch0.format = .context ∨ patch0.format = .normal
  op : patch0.operation = .add
  pre : patch0.prerequisite = []
  body : parseBody par1 patch0 = .ok (patch2, par2)
  fmt2 : patch2.format = patch0.format
  op2 : patch2.operation = .add
  newMode2 : patch2.newMode = 0
  absent : s.fs.lookup p = none
  noFault : s.faultAt = none
  apply : applyPatch [] patch2 (applyOptsOf o)
      (Option.map (fun l => List.map (fun a => !List.isEmpty a && List.head? a != some 110) l) s.tty) = .ok r
  failed : r.failed = 0
  perfect : r.perfect = true
  skipped : r.skipped = false
  msgs : r.msgs = []
  ttyLeft : r.tty = Option.map (fun l => List.map (fun a => !List.isEmpty a && List.head? a != some 110) l) s.tty
  patch : r.patch = patch2

section
variable {o : Options} {fmt : Format} {s : DState} {p : Bytes}
  {patch0 patch2 : Patch} {info : HeaderInfo} {par1 par2 : Parser} {r : ApplyResult}

theorem CreateSectionB.of_create (H : CreateSection o fmt s p patch0 patch2 info par1 par2 r) :
    CreateSectionB o fmt s p patch0 patch2 info par1 par2 r :=
  { target := H.target, noOut := H.noOut, pathNe := H.pathNe, cwd := H.cwd, hdr := H.hdr, fmt := H.fmt, op := H.op, pre := H.pre,
    body := H.body, fmt2 := H.fmt2, op2 := H.op2, newMode2 := H.newMode2, absent := H.absent, noFault := H.noFault,
    apply := H.apply, failed := H.failed, perfect := H.perfect, skipped := H.skipped, msgs := H.msgs, ttyLeft := H.ttyLeft,
    patch := H.patch }

/-- no field of the record looks at `o.saveBackup`: what holds for the options without `-b` holds for the options -/
theorem CreateSectionB.of_flip (H : CreateSection { o with saveBackup := false } fmt s p patch0 patch2 info par1 par2 r) :
    CreateSectionB o fmt s p patch0 patch2 info par1 par2 r :=
  { target := H.target, noOut := H.noOut, pathNe := H.pathNe, cwd := H.cwd, hdr := H.hdr, fmt := H.fmt, op := H.op, pre := H.pre,
    body := H.body, fmt2 := H.fmt2, op2 := H.op2, newMode2 := H.newMode2, absent := H.absent, noFault := H.noFault,
    apply := H.apply, failed := H.failed, perfect := H.perfect, skipped := H.skipped, msgs := H.msgs, ttyLeft := H.ttyLeft,
    patch := H.patch }

/-- `RunCr.create_run` for `H : CreateSectionB …` (the value of `o.saveBackup` goes into the list) -/
syntax "createb_run " "[" Lean.Parser.Tactic.simpLemma,* "]" : tactic
set_option hygiene false in
macro_rules | `(tactic| createb_run [$ls,*]) => `(tactic| (
  have hfu : (patch0.format == Format.unknown) = false := by
    rcases H.fmt with h | h | h <;> rw [h] <;> rfl
  have hfg : (patch2.format == Format.git) = false := by
    rw [H.fmt2]; rcases H.fmt with h | h | h <;> rw [h] <;> rfl
  have hob : (patch0.operation == Operation.binary) = false := by rw [H.op]; rfl
  have hor : (patch0.operation == Operation.rename) = false := by rw [H.op]; rfl
  have hoc : (patch0.operation == Operation.copy) = false := by rw [H.op]; rfl
  have hoa : (patch0.operation == Operation.add) = true := by rw [H.op]; rfl
  have hoa2 : (patch2.operation == Operation.add) = true := by rw [H.op2]; rfl
  have hor2 : (patch2.operation == Operation.rename) = false := by rw [H.op2]; rfl
  have hoc2 : (patch2.operation == Operation.copy) = false := by rw [H.op2]; rfl
  have hod2 : (patch2.operation == Operation.delete) = false := by rw [H.op2]; rfl
  have hpe : List.isEmpty p = false := by
    cases p with
    | nil => exact absurd rfl H.pathNe
    | cons _ _ => rfl
  have hout : outputPath o patch0 p = p := by
    unfold outputPath; simp [H.noOut, hor, hoc]
  have hdash : (o.outFile == [45]) = false := by rw [H.noOut]; rfl
  unfold processSection
  simp only [↓run_bind, ↓run_get, ↓run_liftE, ↓run_modify, ↓run_pure, ↓run_emit,
    H.hdr, hfu, hob, hpe, hout, hor, hdash,
    Bool.false_eq_true, ↓reduceIte, Bool.false_and, Bool.and_false, Bool.not_true, Bool.not_false,
    Bool.or_false, Bool.false_or, Bool.and_true, Bool.true_and, Bool.or_true, Bool.true_or,
    run_createTemp, H.noFault, H.cwd,
    run_fsExists_absent, run_fsIsSymlink_absent, run_fsIsRegular_absent, H.absent,
    (fun s' => @run_fixPermissions_absent o s' p), Option.isNone_none, ne_eq, not_false_eq_true,
    absPath_nil, readFile_absent, splitLines_nil,
    H.pre, List.isEmpty_nil,
    run_parseBodyM_true (pt' := patch2) (par' := par2), H.body,
    H.apply, H.msgs, H.failed, H.perfect, H.skipped, H.patch, hoa, hoa2, hor2, hoc2, hod2,
    bne_self_eq_false, beq_self_eq_true, H.ttyLeft, hfg, H.newMode2, $ls,*]))

/-- **a section that creates a file, `-b`, real run** (all directories of the name and of the backup name are in the tree; nothing
    is at the backup name): the backup is an EMPTY regular file with the mode `creat` gives; the new file holds the rendered
    output, same mode; the trace holds the two pairs of temporaries, `creat` of the backup, `creat` and (unless there is nothing to
    write) `write` of the file; the backup name is recorded; no failure is -/
theorem processSection_create_backup (H : CreateSectionB o fmt s p patch0 patch2 info par1 par2 r)
    (hb : o.saveBackup = true) (hreal : o.dryRun = false)
    (hdirs : DirsThere s.fs p) (hparent : s.fs.dirExists (parentOf p) = true)
    (hnot : s.backedUp.contains (backupName o p) = false)
    (hbdirs : DirsThere s.fs (backupName o p)) (hbdir : s.fs.dirExists (parentOf (backupName o p)) = true)
    (hfree : s.fs.lookup (backupName o p) = none) :
    ∃ s', (processSection o fmt).run s = (.ok true, s') ∧
      s'.fs = (s.fs.set (backupName o p) (.file [] (0o666 - (0o666 &&& s.fs.umask)))).set p
        (.file (render o.newlineOutput r.out) (0o666 - (0o666 &&& s.fs.umask))) ∧
      s'.trace = s.trace ++ [.tmpCreate, .tmpUnlink] ++ [.tmpCreate, .tmpUnlink] ++ [.creat (backupName o p)] ++
        writeOps p (render o.newlineOutput r.out) ∧
      s'.backedUp = s.backedUp ++ [backupName o p] ∧
      s'.rejWritten = s.rejWritten ∧
      s'.hadFailure = s.hadFailure ∧ s'.out = s.out ++ [.file p false] ∧
      SectionEnd s s' p par2 := by
  rcases H.target with hname | ⟨hno, hne0, hguess⟩
  · createb_run [hname, hb, hreal, (fun s' => @run_ensureParentDirs_there s' p H.pathNe), hdirs,
      (fun s' pt c perm => @run_writePatchedResult_create_backup s' p o pt c perm H.pathNe), hparent, hnot, hbdirs, hbdir, hfree]
    refine ⟨_, rfl, rfl, ?_, rfl, rfl, rfl, ?_, ⟨rfl, rfl, rfl, ?_, (by first | rfl | exact H.cwd.symm),
      (by first | rfl | exact H.noFault.symm), rfl, rfl, rfl, rfl⟩⟩
    · simp
    · simp
    · generalize s.tty = t
      cases t <;> simp
  · createb_run [hno, hne0, hguess, hb, hreal, (fun s' => @run_ensureParentDirs_there s' p H.pathNe), hdirs,
      (fun s' pt c perm => @run_writePatchedResult_create_backup s' p o pt c perm H.pathNe), hparent, hnot, hbdirs, hbdir, hfree]
    refine ⟨_, rfl, rfl, ?_, rfl, rfl, rfl, ?_, ⟨rfl, rfl, rfl, ?_, (by first | rfl | exact H.cwd.symm),
      (by first | rfl | exact H.noFault.symm), rfl, rfl, rfl, rfl⟩⟩
    · simp
    · simp
    · generalize s.tty = t
      cases t <;> simp

/-- **… when a regular file or a symbolic link sits at the backup name**: it is unlinked first; the tree afterwards is the same as
    when nothing was there -/
theorem processSection_create_backup_taken (H : CreateSectionB o fmt s p patch0 patch2 info par1 par2 r)
    (hb : o.saveBackup = true) (hreal : o.dryRun = false)
    (hdirs : DirsThere s.fs p) (hparent : s.fs.dirExists (parentOf p) = true)
    (hnot : s.backedUp.contains (backupName o p) = false)
    (hbdirs : DirsThere s.fs (backupName o p)) (hbdir : s.fs.dirExists (parentOf (backupName o p)) = true)
    {n : Node} (hl : s.fs.lookup (backupName o p) = some n) (hn : InWay n) :
    ∃ s', (processSection o fmt).run s = (.ok true, s') ∧
      s'.fs = (s.fs.set (backupName o p) (.file [] (0o666 - (0o666 &&& s.fs.umask)))).set p
        (.file (render o.newlineOutput r.out) (0o666 - (0o666 &&& s.fs.umask))) ∧
      s'.trace = s.trace ++ [.tmpCreate, .tmpUnlink] ++ [.tmpCreate, .tmpUnlink] ++
        [.unlink (backupName o p), .creat (backupName o p)] ++ writeOps p (render o.newlineOutput r.out) ∧
      s'.backedUp = s.backedUp ++ [backupName o p] ∧
      s'.rejWritten = s.rejWritten ∧
      s'.hadFailure = s.hadFailure ∧ s'.out = s.out ++ [.file p false] ∧
      SectionEnd s s' p par2 := by
  rcases H.target with hname | ⟨hno, hne0, hguess⟩
  · createb_run [hname, hb, hreal, (fun s' => @run_ensureParentDirs_there s' p H.pathNe), hdirs,
      (fun s' pt c perm => @run_writePatchedResult_create_backup_taken s' p n o pt c perm H.pathNe hn), hparent, hnot, hbdirs,
      hbdir, hl]
    refine ⟨_, rfl, rfl, ?_, rfl, rfl, rfl, ?_, ⟨rfl, rfl, rfl, ?_, (by first | rfl | exact H.cwd.symm),
      (by first | rfl | exact H.noFault.symm), rfl, rfl, rfl, rfl⟩⟩
    · simp
    · simp
    · generalize s.tty = t
      cases t <;> simp
  · createb_run [hno, hne0, hguess, hb, hreal, (fun s' => @run_ensureParentDirs_there s' p H.pathNe), hdirs,
      (fun s' pt c perm => @run_writePatchedResult_create_backup_taken s' p n o pt c perm H.pathNe hn), hparent, hnot, hbdirs,
      hbdir, hl]
    refine ⟨_, rfl, rfl, ?_, rfl, rfl, rfl, ?_, ⟨rfl, rfl, rfl, ?_, (by first | rfl | exact H.cwd.symm),
      (by first | rfl | exact H.noFault.symm), rfl, rfl, rfl, rfl⟩⟩
    · simp
    · simp
    · generalize s.tty = t
      cases t <;> simp

/-- **the same section under --dry-run, with or without `-b`**: the tree and the trace (apart from the temporaries) are untouched,
    no backup is recorded -/
theorem processSection_create_backup_dry (H : CreateSectionB o fmt s p patch0 patch2 info par1 par2 r) (hdry : o.dryRun = true) :
    ∃ s', (processSection o fmt).run s = (.ok true, s') ∧
      s'.fs = s.fs ∧
      s'.trace = s.trace ++ [.tmpCreate, .tmpUnlink] ++ [.tmpCreate, .tmpUnlink] ∧
      SectionDone s s' p par2 true := by
  rcases H.target with hname | ⟨hno, hne0, hguess⟩
  · createb_run [hname, hdry]
    refine ⟨_, rfl, rfl, rfl, ⟨rfl, rfl, rfl, rfl, ?_, ?_, (by first | rfl | exact H.cwd.symm),
      (by first | rfl | exact H.noFault.symm), rfl, rfl, rfl, rfl, rfl⟩⟩
    · generalize s.tty = t
      cases t <;> simp
    · simp
  · createb_run [hno, hne0, hguess, hdry]
    refine ⟨_, rfl, rfl, rfl, ⟨rfl, rfl, rfl, rfl, ?_, ?_, (by first | rfl | exact H.cwd.symm),
      (by first | rfl | exact H.noFault.symm), rfl, rfl, rfl, rfl, rfl⟩⟩
    · generalize s.tty = t
      cases t <;> simp
    · simp

end

end PatchModel.RunCrB
