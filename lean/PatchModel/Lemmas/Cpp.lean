/-
  Lemmas/Cpp — the four-directive preprocessor `cppGo` over the output of `write_define_hunk` (helper lemmas for C20).
-/
import PatchModel.Spec.Script
import PatchModel.Spec.Cpp
namespace PatchModel.Cpp
open PatchModel

/-! ### the directive texts as explicit byte lists -/

theorem byteArray_toList_loop_eq (bs : ByteArray) (i : Nat) (r : List UInt8) :
    ByteArray.toList.loop bs i r = r.reverse ++ bs.data.toList.drop i := by
  fun_induction ByteArray.toList.loop bs i r with
  | case1 i r h ih =>
    rw [ih]
    have hi : i < bs.data.toList.length := by rw [Array.length_toList, ByteArray.size_data]; exact h
    rw [List.drop_eq_getElem_cons hi]
    have hg : bs.get! i = bs.data.toList[i] := by
      cases bs with
      | mk data =>
        show data[i]! = _
        have : i < data.size := by simpa using hi
        rw [getElem!_pos data i this]; simp
    rw [hg, List.reverse_cons, List.append_assoc]; rfl
  | case2 i r h =>
    have : bs.data.toList.length ≤ i := by rw [Array.length_toList, ByteArray.size_data]; omega
    rw [List.drop_eq_nil_of_le this, List.append_nil]

theorem byteArray_toList_eq_data (bs : ByteArray) : bs.toList = bs.data.toList := by
  unfold ByteArray.toList; rw [byteArray_toList_loop_eq]; rfl

theorem str_ifdef : str "#ifdef " = [35, 105, 102, 100, 101, 102, 32] := by
  unfold str String.toUTF8; rw [byteArray_toList_eq_data]; rfl
theorem str_ifndef : str "#ifndef " = [35, 105, 102, 110, 100, 101, 102, 32] := by
  unfold str String.toUTF8; rw [byteArray_toList_eq_data]; rfl
theorem str_else : str "#else" = [35, 101, 108, 115, 101] := by
  unfold str String.toUTF8; rw [byteArray_toList_eq_data]; rfl
theorem str_endif : str "#endif" = [35, 101, 110, 100, 105, 102] := by
  unfold str String.toUTF8; rw [byteArray_toList_eq_data]; rfl

theorem dIfndef_ne_dIfdef (sym : Bytes) : dIfndef sym ≠ dIfdef sym := by
  unfold dIfndef dIfdef; rw [str_ifdef, str_ifndef]; simp
theorem dElse_ne_dIfdef (sym : Bytes) : dElse ≠ dIfdef sym := by
  unfold dElse dIfdef; rw [str_ifdef, str_else]; simp
theorem dElse_ne_dIfndef (sym : Bytes) : dElse ≠ dIfndef sym := by
  unfold dElse dIfndef; rw [str_ifndef, str_else]; simp
theorem dEndif_ne_dIfdef (sym : Bytes) : dEndif ≠ dIfdef sym := by
  unfold dEndif dIfdef; rw [str_ifdef, str_endif]; simp
theorem dEndif_ne_dIfndef (sym : Bytes) : dEndif ≠ dIfndef sym := by
  unfold dEndif dIfndef; rw [str_ifndef, str_endif]; simp
theorem dEndif_ne_dElse : dEndif ≠ dElse := by
  unfold dEndif dElse; rw [str_else, str_endif]; simp

/-! ### one step of `cppGo` -/

theorem cppGo_plain_outside (sym : Bytes) (d : Bool) (l : Line) (rest : List Line) (h : notDirective sym l) :
    cppGo sym d .outside (l :: rest) = (cppGo sym d .outside rest).map (l :: ·) := by
  obtain ⟨h1, h2, h3, h4⟩ := h
  rw [cppGo.eq_def]; simp [h1, h2, h3, h4]

theorem cppGo_plain_active (sym : Bytes) (d e : Bool) (l : Line) (rest : List Line) (h : notDirective sym l) :
    cppGo sym d (.inside true e) (l :: rest) = (cppGo sym d (.inside true e) rest).map (l :: ·) := by
  obtain ⟨h1, h2, h3, h4⟩ := h
  rw [cppGo.eq_def]; simp [h1, h2, h3, h4]

theorem cppGo_plain_inactive (sym : Bytes) (d e : Bool) (l : Line) (rest : List Line) (h : notDirective sym l) :
    cppGo sym d (.inside false e) (l :: rest) = cppGo sym d (.inside false e) rest := by
  obtain ⟨h1, h2, h3, h4⟩ := h
  rw [cppGo.eq_def]; simp [h1, h2, h3, h4]

theorem cppGo_ifdef (sym : Bytes) (d : Bool) (t : NewLine) (rest : List Line) :
    cppGo sym d .outside (⟨dIfdef sym, t⟩ :: rest) = cppGo sym d (.inside d false) rest := by
  rw [cppGo.eq_def]; simp

theorem cppGo_ifndef (sym : Bytes) (d : Bool) (t : NewLine) (rest : List Line) :
    cppGo sym d .outside (⟨dIfndef sym, t⟩ :: rest) = cppGo sym d (.inside (!d) false) rest := by
  rw [cppGo.eq_def]; simp [dIfndef_ne_dIfdef]

theorem cppGo_else (sym : Bytes) (d a : Bool) (t : NewLine) (rest : List Line) :
    cppGo sym d (.inside a false) (⟨dElse, t⟩ :: rest) = cppGo sym d (.inside (!a) true) rest := by
  rw [cppGo.eq_def]; simp [dElse_ne_dIfdef, dElse_ne_dIfndef]

theorem cppGo_endif (sym : Bytes) (d a e : Bool) (t : NewLine) (rest : List Line) :
    cppGo sym d (.inside a e) (⟨dEndif, t⟩ :: rest) = cppGo sym d .outside rest := by
  rw [cppGo.eq_def]; simp [dEndif_ne_dIfdef, dEndif_ne_dIfndef, dEndif_ne_dElse]

/-! ### balanced segments -/

/-- `xs` is a balanced segment that evaluates to `ys` -/
def Seg (sym : Bytes) (d : Bool) (xs ys : List Line) : Prop :=
  ∀ tail r, cppGo sym d .outside tail = some r → cppGo sym d .outside (xs ++ tail) = some (ys ++ r)

theorem Seg.nil (sym : Bytes) (d : Bool) : Seg sym d [] [] := by
  intro tail r h; simpa using h

theorem Seg.append {sym : Bytes} {d : Bool} {xs ys xs' ys' : List Line}
    (h1 : Seg sym d xs ys) (h2 : Seg sym d xs' ys') : Seg sym d (xs ++ xs') (ys ++ ys') := by
  intro tail r h
  rw [List.append_assoc, List.append_assoc]
  exact h1 _ _ (h2 _ _ h)

theorem Seg.plain (sym : Bytes) (d : Bool) (xs : List Line) (h : ∀ l ∈ xs, notDirective sym l) :
    Seg sym d xs xs := by
  induction xs with
  | nil => exact Seg.nil sym d
  | cons l xs ih =>
    intro tail r hr
    rw [List.cons_append, cppGo_plain_outside sym d l _ (h l List.mem_cons_self),
      ih (fun l hl => h l (List.mem_cons_of_mem _ hl)) tail r hr]
    rfl

theorem Seg.eval {sym : Bytes} {d : Bool} {xs ys : List Line} (h : Seg sym d xs ys) :
    cppEval sym d xs = some ys := by
  have := h [] [] rfl
  simpa [cppEval] using this

/-! ### old / new side of a hunk body -/

theorem SP_ne_PLUS : (SP != PLUS) = true := by decide
theorem SP_ne_MINUS : (SP != MINUS) = true := by decide
theorem PLUS_ne_MINUS : (PLUS != MINUS) = true := by decide
theorem MINUS_ne_PLUS : (MINUS != PLUS) = true := by decide

theorem oldOf_cons_sp {pl : PatchLine} (rest : List PatchLine) (h : pl.op = SP) :
    oldOf (pl :: rest) = pl.line :: oldOf rest := by simp [oldOf, h, SP_ne_PLUS]
theorem newOf_cons_sp {pl : PatchLine} (rest : List PatchLine) (h : pl.op = SP) :
    newOf (pl :: rest) = pl.line :: newOf rest := by simp [newOf, h, SP_ne_MINUS]
theorem oldOf_cons_plus {pl : PatchLine} (rest : List PatchLine) (h : pl.op = PLUS) :
    oldOf (pl :: rest) = oldOf rest := by simp [oldOf, h]
theorem newOf_cons_plus {pl : PatchLine} (rest : List PatchLine) (h : pl.op = PLUS) :
    newOf (pl :: rest) = pl.line :: newOf rest := by simp [newOf, h, PLUS_ne_MINUS]
theorem oldOf_cons_minus {pl : PatchLine} (rest : List PatchLine) (h : pl.op = MINUS) :
    oldOf (pl :: rest) = pl.line :: oldOf rest := by simp [oldOf, h, MINUS_ne_PLUS]
theorem newOf_cons_minus {pl : PatchLine} (rest : List PatchLine) (h : pl.op = MINUS) :
    newOf (pl :: rest) = newOf rest := by simp [newOf, h]

theorem take_drop_cons {α : Type} (file : List α) (cur k : Nat) (a : α) (as : List α)
    (h : (file.drop cur).take (k + 1) = a :: as) :
    file[cur]? = some a ∧ (file.drop (cur + 1)).take k = as := by
  cases hd : file.drop cur with
  | nil => simp [hd] at h
  | cons x xs =>
    rw [hd] at h
    simp only [List.take_succ_cons, List.cons.injEq] at h
    obtain ⟨rfl, h2⟩ := h
    constructor
    · have := List.getElem?_drop (xs := file) (i := cur) (j := 0)
      rw [hd] at this
      simpa using this.symm
    · have : file.drop (cur + 1) = xs := by
        rw [← List.drop_drop, hd]; rfl
      rw [this]; exact h2

/-! ### the writer of `write_define_hunk` when every line is terminated -/

theorem directive_out (w : DefW) (t : Bytes) (nl : NewLine) (h : w.lastUnterm = false) :
    (w.directive t nl).out = w.out ++ [.directive ⟨t, nl⟩] := by
  simp [DefW.directive, h]

theorem directive_lastUnterm (w : DefW) (t : Bytes) (nl : NewLine) :
    (w.directive t nl).lastUnterm = false := rfl

theorem line_out (w : DefW) (o : Out) (h : w.lastUnterm = false) :
    (w.line o).out = w.out ++ [o] := by
  simp [DefW.line, h]

theorem line_lastUnterm (w : DefW) (o : Out) (h : o.line.newline ≠ .none) :
    (w.line o).lastUnterm = false := by
  simp [DefW.line, h]

/-- the closing `#endif` of `write_define_hunk` -/
def finishDef : DefW × Nat × DefState → List Out × Nat
  | (w, cur, st) => ((if st ≠ .outside then w.directive dEndif w.lastTerm else w).out, cur)

theorem writeDefineHunk_eq (file : List Line) (sym : Bytes) (ls : List PatchLine) (start : Nat) :
    writeDefineHunk file sym ls start = (defineLoop file sym ls start .outside {}).map finishDef := by
  unfold writeDefineHunk
  cases defineLoop file sym ls start .outside {} with
  | none => rfl
  | some r => obtain ⟨w, cur, st⟩ := r; rfl

/-- preprocessor state that corresponds to the writer state (numbered 0..4, see `stOf`) when `sym` is defined = `d` -/
def cs (d : Bool) : Nat → CppState
  | 0 => .outside
  | 1 => .inside (!d) false
  | 2 => .inside d false
  | 3 => .inside d true
  | _ => .inside (!d) true

/-- the writer states, numbered: 0 outside, 1 in `#ifndef` (old lines), 2 in `#ifdef` (new lines),
    3 in the `#else` of `#ifndef` (new lines), 4 in the `#else` of `#ifdef` (old lines) -/
def stOf : Nat → DefState
  | 0 => .outside
  | 1 => .inIfndef
  | 2 => .inIfdef
  | 3 => .inElseOfIfndef
  | _ => .inElseOfIfdef

def plusNext : Nat → Nat
  | 0 => 2 | 1 => 3 | 2 => 2 | 3 => 3 | _ => 2
def minusNext : Nat → Nat
  | 0 => 1 | 1 => 1 | 2 => 4 | 3 => 1 | _ => 4

theorem line_directive_out (w : DefW) (t : Bytes) (nl : NewLine) (o : Out) (h : w.lastUnterm = false) :
    ((w.directive t nl).line o).out = w.out ++ [.directive ⟨t, nl⟩, o] := by
  simp [DefW.line, DefW.directive, h]

theorem line_directive2_out (w : DefW) (t t' : Bytes) (nl nl' : NewLine) (o : Out) (h : w.lastUnterm = false) :
    (((w.directive t nl).directive t' nl').line o).out = w.out ++ [.directive ⟨t, nl⟩, .directive ⟨t', nl'⟩, o] := by
  simp [DefW.line, DefW.directive, h]

theorem PLUS_ne_SP : (PLUS == SP) = false := by decide
theorem MINUS_ne_SP : (MINUS == SP) = false := by decide
theorem MINUS_ne_PLUS' : (MINUS == PLUS) = false := by decide
theorem PLUS_ne_MINUS_p : PLUS ≠ MINUS := by decide

/-- the invariant of `write_define_hunk`: from writer state `g`, with the preprocessor in the corresponding state
    `cs d g`, the rest of the hunk (plus the closing `#endif`) evaluates to the rest of the new side when `sym` is
    defined and to the rest of the old side when it is not. No assumption on the order of '-' and '+' lines. -/
theorem defineLoop_seg (file : List Line) (sym : Bytes) (ls : List PatchLine) :
    ∀ (cur : Nat) (w : DefW) (g : Nat), g ≤ 4 →
    (∀ pl ∈ ls, pl.op = SP ∨ pl.op = PLUS ∨ pl.op = MINUS) →
    (∀ pl ∈ ls, pl.line.newline ≠ .none) →
    (∀ pl ∈ ls, notDirective sym pl.line) →
    (file.drop cur).take (oldOf ls).length = oldOf ls →
    w.lastUnterm = false →
    ∃ outs, (defineLoop file sym ls cur (stOf g) w).map finishDef = some (w.out ++ outs, cur + (oldOf ls).length) ∧
      ∀ d tail r, cppGo sym d .outside tail = some r →
        cppGo sym d (cs d g) (outs.map Out.line ++ tail) = some ((if d then newOf ls else oldOf ls) ++ r) := by
  induction ls with
  | nil =>
    intro cur w g hg _ _ _ _ hw
    rcases g with _|_|_|_|_|g
    · exact ⟨[], by simp [defineLoop, finishDef, stOf, oldOf], by intro d tail r h; simpa [cs, oldOf, newOf] using h⟩
    all_goals first
      | omega
      | exact ⟨[.directive ⟨dEndif, w.lastTerm⟩], by simp [defineLoop, finishDef, stOf, oldOf, directive_out, hw],
          by intro d tail r h; simpa [cs, oldOf, newOf, Out.line, cppGo_endif] using h⟩
  | cons pl rest ih =>
    intro cur w g hg hops hT hD hfile hw
    have hT' : ∀ pl ∈ rest, pl.line.newline ≠ .none := fun q hq => hT q (List.mem_cons_of_mem _ hq)
    have hD' : ∀ pl ∈ rest, notDirective sym pl.line := fun q hq => hD q (List.mem_cons_of_mem _ hq)
    have hops' : ∀ pl ∈ rest, pl.op = SP ∨ pl.op = PLUS ∨ pl.op = MINUS := fun q hq => hops q (List.mem_cons_of_mem _ hq)
    have hTp := hT pl List.mem_cons_self
    have hDp := hD pl List.mem_cons_self
    rcases hops pl List.mem_cons_self with hop | hop | hop
    · -- context line
      rw [oldOf_cons_sp rest hop] at hfile ⊢
      rw [newOf_cons_sp rest hop]
      obtain ⟨hl, hfile'⟩ := take_drop_cons file cur _ _ _ hfile
      obtain ⟨outs, h1, h2⟩ := ih (cur + 1)
        ((if stOf g ≠ .outside then w.directive dEndif (terminatorOf pl.line) else w).line (.fromFile cur pl.line))
        0 (by omega) hops' hT' hD' hfile' (line_lastUnterm _ _ hTp)
      have hstep : defineLoop file sym (pl :: rest) cur (stOf g) w = defineLoop file sym rest (cur + 1) .outside
          ((if stOf g ≠ .outside then w.directive dEndif (terminatorOf pl.line) else w).line (.fromFile cur pl.line)) := by
        have hne : (cur == file.length) = false := by
          have := (List.getElem?_eq_some_iff.1 hl).1
          simp; omega
        rw [defineLoop.eq_def]; simp [hop, hl, hne]
      refine ⟨(if stOf g ≠ .outside then [.directive ⟨dEndif, terminatorOf pl.line⟩] else []) ++
          .fromFile cur pl.line :: outs, ?_, ?_⟩
      · rw [hstep]
        rw [show stOf 0 = DefState.outside from rfl] at h1
        rw [h1]
        rcases g with _|_|_|_|_|g <;> first | omega | (simp [stOf, line_out, line_directive_out, hw]; omega)
      · intro d tail r ht
        have := h2 d tail r ht
        simp only [cs] at this
        rcases g with _|_|_|_|_|g <;> first | omega |
          (cases d <;> simp [stOf, cs, Out.line, cppGo_plain_outside _ _ _ _ hDp, cppGo_endif, this])
    · -- added line
      rw [oldOf_cons_plus rest hop] at hfile ⊢
      rw [newOf_cons_plus rest hop]
      obtain ⟨outs, h1, h2⟩ := ih cur
        ((if g = 0 then w.directive (dIfdef sym) (terminatorOf pl.line)
          else if g = 1 then w.directive dElse (terminatorOf pl.line)
          else if g = 4 then (w.directive dEndif (terminatorOf pl.line)).directive (dIfdef sym) (terminatorOf pl.line)
          else w).line (.fromPatch pl.line))
        (plusNext g) (by unfold plusNext; split <;> omega) hops' hT' hD' hfile (line_lastUnterm _ _ hTp)
      have hstep : defineLoop file sym (pl :: rest) cur (stOf g) w = defineLoop file sym rest cur (stOf (plusNext g))
          ((if g = 0 then w.directive (dIfdef sym) (terminatorOf pl.line)
          else if g = 1 then w.directive dElse (terminatorOf pl.line)
          else if g = 4 then (w.directive dEndif (terminatorOf pl.line)).directive (dIfdef sym) (terminatorOf pl.line)
          else w).line (.fromPatch pl.line)) := by
        rw [defineLoop.eq_def]
        rcases g with _|_|_|_|_|g <;> first | omega | simp [hop, stOf, plusNext, PLUS_ne_SP]
      refine ⟨(if g = 0 then [.directive ⟨dIfdef sym, terminatorOf pl.line⟩]
          else if g = 1 then [.directive ⟨dElse, terminatorOf pl.line⟩]
          else if g = 4 then [.directive ⟨dEndif, terminatorOf pl.line⟩, .directive ⟨dIfdef sym, terminatorOf pl.line⟩]
          else []) ++
          .fromPatch pl.line :: outs, ?_, ?_⟩
      · rw [hstep, h1]
        rcases g with _|_|_|_|_|g <;> first | omega | simp [line_out, line_directive_out, line_directive2_out, hw]
      · intro d tail r ht
        have := h2 d tail r ht
        rcases g with _|_|_|_|_|g <;> first | omega |
          (cases d <;> simp [cs, plusNext] at this <;> simp [cs, Out.line, cppGo_plain_active _ _ _ _ _ hDp, cppGo_plain_inactive _ _ _ _ _ hDp,
             cppGo_ifdef, cppGo_else, cppGo_endif, this])
    · -- deleted line
      rw [oldOf_cons_minus rest hop] at hfile ⊢
      rw [newOf_cons_minus rest hop]
      obtain ⟨hl, hfile'⟩ := take_drop_cons file cur _ _ _ hfile
      obtain ⟨outs, h1, h2⟩ := ih (cur + 1)
        ((if g = 0 then w.directive (dIfndef sym) (terminatorOf pl.line)
          else if g = 2 then w.directive dElse (terminatorOf pl.line)
          else if g = 3 then (w.directive dEndif (terminatorOf pl.line)).directive (dIfndef sym) (terminatorOf pl.line)
          else w).line (.fromFile cur pl.line))
        (minusNext g) (by unfold minusNext; split <;> omega) hops' hT' hD' hfile' (line_lastUnterm _ _ hTp)
      have hstep : defineLoop file sym (pl :: rest) cur (stOf g) w = defineLoop file sym rest (cur + 1) (stOf (minusNext g))
          ((if g = 0 then w.directive (dIfndef sym) (terminatorOf pl.line)
          else if g = 2 then w.directive dElse (terminatorOf pl.line)
          else if g = 3 then (w.directive dEndif (terminatorOf pl.line)).directive (dIfndef sym) (terminatorOf pl.line)
          else w).line (.fromFile cur pl.line)) := by
        rw [defineLoop.eq_def]
        rcases g with _|_|_|_|_|g <;> first | omega | simp [hop, hl, stOf, minusNext, MINUS_ne_SP, MINUS_ne_PLUS']
      refine ⟨(if g = 0 then [.directive ⟨dIfndef sym, terminatorOf pl.line⟩]
          else if g = 2 then [.directive ⟨dElse, terminatorOf pl.line⟩]
          else if g = 3 then [.directive ⟨dEndif, terminatorOf pl.line⟩, .directive ⟨dIfndef sym, terminatorOf pl.line⟩]
          else []) ++
          .fromFile cur pl.line :: outs, ?_, ?_⟩
      · rw [hstep, h1]
        rcases g with _|_|_|_|_|g <;> first | omega | (simp [line_out, line_directive_out, line_directive2_out, hw]; omega)
      · intro d tail r ht
        have := h2 d tail r ht
        rcases g with _|_|_|_|_|g <;> first | omega |
          (cases d <;> simp [cs, minusNext] at this <;> simp [cs, Out.line, cppGo_plain_active _ _ _ _ _ hDp, cppGo_plain_inactive _ _ _ _ _ hDp,
             cppGo_ifndef, cppGo_else, cppGo_endif, this])

/-- `write_define_hunk` on a hunk whose old side is in the file at `p`: the emitted lines form a balanced segment
    that evaluates to the new side with `sym` defined and to the old side without — for ANY order of '-'/'+' lines. -/
theorem writeDefineHunk_seg' (file : List Line) (sym : Bytes) (ls : List PatchLine) (p : Nat)
    (hops : ∀ pl ∈ ls, pl.op = SP ∨ pl.op = PLUS ∨ pl.op = MINUS)
    (hT : ∀ pl ∈ ls, pl.line.newline ≠ .none)
    (hD : ∀ pl ∈ ls, notDirective sym pl.line)
    (hfile : (file.drop p).take (oldOf ls).length = oldOf ls) :
    ∃ outs, writeDefineHunk file sym ls p = some (outs, p + (oldOf ls).length) ∧
      ∀ d, Seg sym d (outs.map Out.line) (if d then newOf ls else oldOf ls) := by
  obtain ⟨outs, h1, h2⟩ := defineLoop_seg file sym ls p {} 0 (by omega) hops hT hD hfile rfl
  refine ⟨outs, ?_, ?_⟩
  · rw [writeDefineHunk_eq]
    rw [show stOf 0 = DefState.outside from rfl] at h1
    rw [h1]; simp
  · intro d tail r ht
    exact h2 d tail r ht

/-- the old statement (with the now superfluous `grouped` hypothesis), kept for compatibility -/
theorem writeDefineHunk_seg (file : List Line) (sym : Bytes) (ls : List PatchLine) (p : Nat)
    (hops : ∀ pl ∈ ls, pl.op = SP ∨ pl.op = PLUS ∨ pl.op = MINUS)
    (hT : ∀ pl ∈ ls, pl.line.newline ≠ .none)
    (hD : ∀ pl ∈ ls, notDirective sym pl.line)
    (hfile : (file.drop p).take (oldOf ls).length = oldOf ls)
    (_hgr : grouped ls = true) :
    ∃ outs, writeDefineHunk file sym ls p = some (outs, p + (oldOf ls).length) ∧
      ∀ d, Seg sym d (outs.map Out.line) (if d then newOf ls else oldOf ls) :=
  writeDefineHunk_seg' file sym ls p hops hT hD hfile

/-- one iteration of the hunk loop when the hunk was found at `p` with fuzz 0 and offset 0 and `-D sym` is given -/
theorem finishHunk_define (file : List Line) (o : ApplyOpts) (pt : Patch) (s : AState) (num : Nat) (h : Hunk)
    (p n : Nat) (sym : Bytes) (outs : List Out)
    (hsym : sym ≠ []) (hD : o.define = sym) (hskip : s.skip = false) (hoff : s.offErr = 0)
    (hrej : s.rejected = []) (hple : p ≤ file.length)
    (hw : writeDefineHunk file sym h.lines p = some (outs, n)) :
    ∃ s', finishHunk file o pt s num h (some ⟨p, 0, 0⟩) = .ok s' ∧ s'.skip = false ∧ s'.offErr = 0 ∧
      s'.rejected = [] ∧ s'.cursor = n ∧ s'.out = s.out ++ copyRange file s.cursor (p - s.cursor) ++ outs := by
  have hgt : ¬ (p > s.cursor ∧ p > file.length) := by omega
  unfold finishHunk
  simp only [hskip, Bool.false_eq_true, if_false, Int.toNat_natCast, hgt, writeHunkD, hD, hsym, ne_eq,
    not_false_eq_true, if_true, hw]
  refine ⟨_, rfl, ?_⟩
  simp only [isPerfect, Option.isSome, Bool.not_false, Bool.and_true, if_true]
  split <;> simp [hoff, hrej]


end PatchModel.Cpp
