/-
  Lemmas/Frame — helpers for the C16 frame theorems (Props/C16Frame, wip/W2Frame).

  * `Fs.lookup` after `Fs.set` / `Fs.erase` at another path; membership in the node list after `set` / `erase`
  * `FsTrace I`      the invariant `I` only reads the tree and the trace
  * `inv_run_all`    an invariant that only reads tree and trace and is kept by EVERY successful logged operation
                     (`∀ op, OpOk I op`) is kept by the whole of `process_patch`, whatever the outcome — the instance of the
                     invariant framework of Lemmas/DM in which no path condition is needed
-/
import PatchModel.Lemmas.DM
namespace PatchModel.Frame
open PatchModel PatchModel.DM

/-! ### the node list -/

theorem find?_filter_ne (l : List (Bytes × Node)) (p q : Bytes) (h : q ≠ p) :
    (l.filter (·.1 != p)).find? (·.1 == q) = l.find? (·.1 == q) := by
  induction l with
  | nil => rfl
  | cons x l ih =>
    by_cases hx : x.1 = p
    · have h2 : (x.1 == q) = false := beq_false_of_ne (fun h' => h (h'.symm.trans hx))
      have h1 : (x.1 != p) = false := by simp [hx]
      rw [List.filter_cons, List.find?_cons, h1, h2]
      exact ih
    · have h1 : (x.1 != p) = true := by simp [hx]
      rw [List.filter_cons, h1, if_pos rfl, List.find?_cons, List.find?_cons, ih]

theorem lookup_erase_ne (fs : Fs) {p q : Bytes} (h : q ≠ p) : (fs.erase p).lookup q = fs.lookup q := by
  unfold Fs.lookup Fs.erase; rw [find?_filter_ne _ _ _ h]

theorem lookup_set_ne (fs : Fs) {p q : Bytes} (n : Node) (h : q ≠ p) : (fs.set p n).lookup q = fs.lookup q := by
  unfold Fs.lookup Fs.set; simp only [List.find?_append, find?_filter_ne _ _ _ h]
  have : (p == q) = false := beq_false_of_ne (Ne.symm h)
  simp [this]

/-- what `lookup` finds is an entry of the tree -/
theorem mem_of_lookup {fs : Fs} {p : Bytes} {n : Node} (h : fs.lookup p = some n) : (p, n) ∈ fs.nodes := by
  unfold Fs.lookup at h
  cases hf : fs.nodes.find? (·.1 == p) with
  | none => rw [hf] at h; cases h
  | some x =>
    rw [hf] at h
    have hx : x.2 = n := by simpa using h
    have hp : x.1 = p := by simpa using List.find?_some hf
    have hm := List.mem_of_find?_eq_some hf
    rw [← hx, ← hp]; exact hm

theorem mem_erase {fs : Fs} {p q : Bytes} {n : Node} (h : (q, n) ∈ (fs.erase p).nodes) : (q, n) ∈ fs.nodes :=
  (List.mem_filter.1 h).1

theorem mem_set {fs : Fs} {p q : Bytes} {n n' : Node} (h : (q, n') ∈ (fs.set p n).nodes) :
    (q, n') ∈ fs.nodes ∨ n' = n := by
  rcases List.mem_append.1 h with h | h
  · exact Or.inl (List.mem_filter.1 h).1
  · exact Or.inr (by have := List.mem_singleton.1 h; simp only [Prod.mk.injEq] at this; exact this.2)

/-! ### invariants of the tree and the trace alone -/

/-- `I` only reads `fs` and `trace` -/
structure FsTrace (I : DState → Prop) : Prop where
  frame : ∀ s s', I s → s'.fs = s.fs → s'.trace = s.trace → I s'

section all
variable {I : DState → Prop}

theorem FsTrace.framed (h : FsTrace I) : Framed I :=
  ⟨fun s s' hs h1 h2 _ _ _ _ _ => h.frame s s' hs h1 h2⟩

theorem FsTrace.stable (h : FsTrace I) {f : DState → DState} (hf : ∀ s, (f s).fs = s.fs ∧ (f s).trace = s.trace) :
    Stable I f := ⟨fun s hs => h.frame s (f s) hs (hf s).1 (hf s).2⟩

theorem pathOk_all (hop : ∀ op, OpOk I op) (p : Bytes) : PathOk I p :=
  ⟨fun _ _ => hop _, fun _ _ _ => hop _, fun _ _ => hop _, fun _ _ _ => hop _, fun _ _ _ => hop _,
   fun _ _ _ _ => hop _, fun _ _ _ _ => hop _⟩

theorem renameOk_all (hop : ∀ op, OpOk I op) (a b : Bytes) : RenameOk I a b := ⟨fun _ _ => hop _⟩

theorem secOk_all (hT : FsTrace I) (hop : ∀ op, OpOk I op) (o : Options) (a b : Bytes) : SecOk I o a b :=
  ⟨pathOk_all hop _, pathOk_all hop _, pathOk_all hop _, pathOk_all hop _, renameOk_all hop _ _,
   fun _ _ => hT.stable (fun _ => ⟨rfl, rfl⟩), fun _ => hT.stable (fun _ => ⟨rfl, rfl⟩)⟩

theorem inv_createTemp_all (hT : FsTrace I) (hop : ∀ op, OpOk I op) : Inv I createTemp :=
  inv_createTemp hT.framed.tick (hop _) (hop _)

theorem inv_processSection_all (hT : FsTrace I) (hop : ∀ op, OpOk I op) (o : Options) (format : Format) :
    Inv I (processSection o format) :=
  inv_processSection (I' := fun _ _ => I) format hT.framed (fun _ _ => hT.framed) (fun _ _ => inv_createTemp_all hT hop)
    (fun _ _ s hs => hT.frame s _ hs rfl rfl) (fun _ _ _ h => h) (fun _ a b => secOk_all hT hop o a b)

theorem inv_finalizeDeferred_all (hT : FsTrace I) (hop : ∀ op, OpOk I op) (o : Options) : Inv I (finalizeDeferred o) :=
  tr_finalizeDeferred fun _ hs0 =>
    ⟨I, hT.framed, hs0, fun _ _ => ⟨pathOk_all hop _, pathOk_all hop _, renameOk_all hop _ _⟩,
      fun _ _ => ⟨pathOk_all hop _, fun _ => ⟨pathOk_all hop _, renameOk_all hop _ _⟩⟩, fun _ h => h⟩

/-- an invariant of tree and trace that every successful logged operation keeps is kept by the whole of `process_patch`,
    also when it aborts (at any point, by any exception, with or without an injected fault) -/
theorem inv_run_all (hT : FsTrace I) (hop : ∀ op, OpOk I op) (o : Options) : Inv I (processPatchM o) :=
  tr_processPatchM hT.framed (fun _ h => h) (fun s hs => hT.frame s _ hs rfl rfl)
    (inv_createTemp_all hT hop) (inv_processSection_all hT hop o) (inv_finalizeDeferred_all hT hop o)

/-- … and so holds of the final state of `main` -/
theorem runPatch_all (hT : FsTrace I) (hop : ∀ op, OpOk I op) (o : Options) (s0 : DState) (h0 : I s0) :
    I (runPatch o s0).2 :=
  runPatch_of_tr (inv_run_all hT hop o) h0 h0
end all

end PatchModel.Frame
