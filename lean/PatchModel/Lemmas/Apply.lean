/-
  Lemmas/Apply — the hunk loop of `apply_patch` (`finishHunk`, `applyRest`, `applyPatch`):
  what one iteration does, totality of the reject formatter for well-formed hunks, the reduction of
  `applyPatch` to one run of the loop, and the loop invariants behind C02 / C04.
  The locator enters only through the hypothesis `LocatorSound`.
-/
import PatchModel.Lemmas.Splice
namespace PatchModel.Apply
open PatchModel.Splice

/-! ### well-formedness under shifting and reversal -/

/-- the hunk as `apply_patch` hands it to the reject writer -/
def shiftHunk (h : Hunk) (d : Int) : Hunk :=
  { h with new := { h.new with start := h.new.start + d }, old := { h.old with start := h.old.start + d } }

theorem shiftHunk_WF {h : Hunk} (d : Int) (hwf : h.WF) : (shiftHunk h d).WF := hwf

def swapOp (pl : PatchLine) : PatchLine :=
  if pl.op == PLUS then { pl with op := MINUS }
  else if pl.op == MINUS then { pl with op := PLUS }
  else pl

theorem reverseHunk_lines (h : Hunk) : (reverseHunk h).lines = h.lines.map swapOp := rfl

theorem oldOf_map_swapOp (ls : List PatchLine) : oldOf (ls.map swapOp) = newOf ls := by
  induction ls with
  | nil => rfl
  | cons pl rest ih =>
    rw [List.map_cons]
    by_cases h1 : pl.op = PLUS
    · have : swapOp pl = { pl with op := MINUS } := by simp [swapOp, h1]
      rw [this, oldOf_cons_not_plus (by simp), newOf_cons_not_minus (by simp [h1]), ih]
    · by_cases h2 : pl.op = MINUS
      · have : swapOp pl = { pl with op := PLUS } := by simp [swapOp, h2]
        rw [this, oldOf_cons_plus rfl, newOf_cons_minus h2, ih]
      · have : swapOp pl = pl := by simp [swapOp, h1, h2]
        rw [this, oldOf_cons_not_plus (by simpa using h1), newOf_cons_not_minus (by simpa using h2), ih]

theorem newOf_map_swapOp (ls : List PatchLine) : newOf (ls.map swapOp) = oldOf ls := by
  induction ls with
  | nil => rfl
  | cons pl rest ih =>
    rw [List.map_cons]
    by_cases h1 : pl.op = PLUS
    · have : swapOp pl = { pl with op := MINUS } := by simp [swapOp, h1]
      rw [this, newOf_cons_minus rfl, oldOf_cons_plus h1, ih]
    · by_cases h2 : pl.op = MINUS
      · have : swapOp pl = { pl with op := PLUS } := by simp [swapOp, h2]
        rw [this, newOf_cons_not_minus (by simp), oldOf_cons_not_plus (by simp [h2]), ih]
      · have : swapOp pl = pl := by simp [swapOp, h1, h2]
        rw [this, oldOf_cons_not_plus (by simpa using h1), newOf_cons_not_minus (by simpa using h2), ih]

theorem swapOp_ops {pl : PatchLine} (h : pl.op = SP ∨ pl.op = PLUS ∨ pl.op = MINUS) :
    (swapOp pl).op = SP ∨ (swapOp pl).op = PLUS ∨ (swapOp pl).op = MINUS := by
  rcases h with h | h | h <;> simp [swapOp, h]

theorem reverseHunk_WF {h : Hunk} (hwf : h.WF) : (reverseHunk h).WF := by
  obtain ⟨hops, ho, hn⟩ := hwf
  refine ⟨?_, ?_, ?_⟩
  · intro pl hpl
    rw [reverseHunk_lines] at hpl
    obtain ⟨pl0, h0, rfl⟩ := List.mem_map.1 hpl
    exact swapOp_ops (hops pl0 h0)
  · rw [reverseHunk_lines, oldOf_map_swapOp]; exact hn
  · rw [reverseHunk_lines, newOf_map_swapOp]; exact ho

theorem map_reverseHunk_WF {hs : List Hunk} (hwf : ∀ h ∈ hs, h.WF) : ∀ h ∈ hs.map reverseHunk, h.WF := by
  intro h hh
  obtain ⟨h0, hm, rfl⟩ := List.mem_map.1 hh
  exact reverseHunk_WF (hwf h0 hm)

/-! ### the reject formatter never throws on a well-formed hunk -/

theorem sizeEqCount_iff (n : Nat) (c : Int) : sizeEqCount n c = true ↔ (n : Int) = c := by
  unfold sizeEqCount
  split
  · constructor
    · intro h; cases h
    · intro h; omega
  · simp

theorem sizeEqCount_false {n : Nat} {c : Int} (h : (n : Int) ≠ c) : sizeEqCount n c = false := by
  rw [Bool.eq_false_iff, ne_eq, sizeEqCount_iff]; exact h

theorem relabelFrom_length (ls : List PatchLine) (i : Nat) : (relabelFrom ls i).length = ls.length := by
  simp [relabelFrom]; omega

theorem makeChange_lengths (s : CtxState) (op : UInt8) :
    (s.makeChange op).oldLines.length = s.oldLines.length ∧
    (s.makeChange op).newLines.length = s.newLines.length := by
  unfold CtxState.makeChange
  split
  · simp [relabelFrom_length]
  · simp

theorem ctxPre_lengths (s : CtxState) (op : UInt8) :
    (if s.operation != SP then s.makeChange op else { s with operation := op }).oldLines.length = s.oldLines.length ∧
    (if s.operation != SP then s.makeChange op else { s with operation := op }).newLines.length = s.newLines.length := by
  split
  · exact makeChange_lengths s op
  · simp

/-- one step of the context formatter: no "Corrupt patch" throw while lines of the respective side remain -/
theorem ctxStep_ok (h : Hunk) (s : CtxState) (pl : PatchLine) (rest : List PatchLine)
    (hop : pl.op = SP ∨ pl.op = PLUS ∨ pl.op = MINUS)
    (ho : (s.oldLines.length : Int) + (oldOf (pl :: rest)).length = h.old.count)
    (hn : (s.newLines.length : Int) + (newOf (pl :: rest)).length = h.new.count) :
    ∃ s', ctxStep h s pl = .ok s' ∧
      (s'.oldLines.length : Int) + (oldOf rest).length = h.old.count ∧
      (s'.newLines.length : Int) + (newOf rest).length = h.new.count := by
  unfold ctxStep
  rcases hop with hop | hop | hop
  · rw [oldOf_cons_not_plus (by simp [hop]), List.length_cons] at ho
    rw [newOf_cons_not_minus (by simp [hop]), List.length_cons] at hn
    have h1 : sizeEqCount s.oldLines.length h.old.count = false := sizeEqCount_false (by omega)
    have h2 : sizeEqCount s.newLines.length h.new.count = false := sizeEqCount_false (by omega)
    simp only [hop, beq_self_eq_true, if_true, h1, h2, Bool.false_eq_true, if_false]
    refine ⟨_, rfl, ?_, ?_⟩
    · simp only [List.length_append, List.length_singleton]; omega
    · simp only [List.length_append, List.length_singleton]; omega
  · rw [oldOf_cons_plus hop] at ho
    rw [newOf_cons_not_minus (by simp [hop]), List.length_cons] at hn
    have h2 : sizeEqCount s.newLines.length h.new.count = false := sizeEqCount_false (by omega)
    simp only [hop, PLUS_beq_SP, beq_self_eq_true, if_true, h2, Bool.false_eq_true, if_false]
    refine ⟨_, rfl, ?_, ?_⟩
    · simp only [(ctxPre_lengths s PLUS).1]; exact ho
    · simp only [List.length_append, List.length_singleton, (ctxPre_lengths s PLUS).2]; omega
  · rw [oldOf_cons_not_plus (by simp [hop]), List.length_cons] at ho
    rw [newOf_cons_minus hop] at hn
    have h1 : sizeEqCount s.oldLines.length h.old.count = false := sizeEqCount_false (by omega)
    simp only [hop, MINUS_beq_SP, MINUS_beq_PLUS, beq_self_eq_true, if_true, h1, Bool.false_eq_true, if_false]
    refine ⟨_, rfl, ?_, ?_⟩
    · simp only [List.length_append, List.length_singleton, (ctxPre_lengths s MINUS).1]; omega
    · simp only [(ctxPre_lengths s MINUS).2]; exact hn

theorem ctxFold_ok (h : Hunk) : ∀ (ls : List PatchLine) (s : CtxState), OpsOK ls →
    (s.oldLines.length : Int) + (oldOf ls).length = h.old.count →
    (s.newLines.length : Int) + (newOf ls).length = h.new.count →
    ∃ s', ctxFold h s ls = .ok s' ∧ (s'.oldLines.length : Int) = h.old.count ∧
      (s'.newLines.length : Int) = h.new.count := by
  intro ls
  induction ls with
  | nil =>
    intro s _ ho hn
    refine ⟨s, rfl, ?_, ?_⟩
    · simpa [oldOf] using ho
    · simpa [newOf] using hn
  | cons pl rest ih =>
    intro s hops ho hn
    obtain ⟨s1, hs1, ho1, hn1⟩ := ctxStep_ok h s pl rest hops.head ho hn
    obtain ⟨s2, hs2, ho2, hn2⟩ := ih s1 hops.tail ho1 hn1
    refine ⟨s2, ?_, ho2, hn2⟩
    rw [ctxFold, hs1]; exact hs2

/-- `write_hunk_as_context` does not throw on a well-formed hunk (whatever its start lines) -/
theorem writeHunkContext_ok (h : Hunk) (hwf : h.WF) : ∃ b, writeHunkContext h = .ok b := by
  obtain ⟨hops, hoc, hnc⟩ := hwf
  obtain ⟨s, hs, ho, hn⟩ := ctxFold_ok h h.lines {} hops (by simpa using hoc.symm) (by simpa using hnc.symm)
  unfold writeHunkContext
  rw [hs]
  have h1 : sizeEqCount s.newLines.length h.new.count = true := (sizeEqCount_iff _ _).2 hn
  simp only [h1, Bool.not_true, Bool.false_and, Bool.false_eq_true, if_false]
  split
  · exact ⟨_, rfl⟩
  · split <;> exact ⟨_, rfl⟩

/-- `RejectWriter::write_reject_file` does not throw on a well-formed hunk -/
theorem writeReject_ok (p : Patch) (fmt : RejectFormat) (n : Nat) (h : Hunk) (hwf : h.WF) :
    ∃ b, writeReject p fmt n h = .ok b := by
  unfold writeReject
  split
  · exact ⟨_, rfl⟩
  · obtain ⟨b, hb⟩ := writeHunkContext_ok h hwf
    rw [hb]; exact ⟨_, rfl⟩

/-! ### one loop iteration -/

/-- what a successful `finishHunk` did: either the hunk was written at `loc` (not skipping), or it was
    saved as a reject (skipping, or not located); nothing else of the placement state changes -/
theorem finishHunk_ok {file : List Line} {o : ApplyOpts} {p : Patch} {s s' : AState} {num : Nat} {h : Hunk}
    {loc : Option Location} (hs : finishHunk file o p s num h loc = .ok s') :
    (∃ l emitted cur, s.skip = false ∧ loc = some l ∧
        ¬ (l.line.toNat > s.cursor ∧ l.line.toNat > file.length) ∧
        writeHunkD file o.define h.lines l.line.toNat = some (emitted, cur) ∧
        s'.out = s.out ++ copyRange file s.cursor (l.line.toNat - s.cursor) ++ emitted ∧
        s'.cursor = cur ∧ s'.offErr = s.offErr + l.offset ∧
        s'.applied = s.applied ++ [(num, l)] ∧ s'.rejected = s.rejected ∧ s'.skip = false) ∨
    ((s.skip = true ∨ loc = none) ∧ s'.out = s.out ∧ s'.cursor = s.cursor ∧ s'.offErr = s.offErr ∧
        s'.applied = s.applied ∧ s'.rejected = s.rejected ++ [(num, shiftHunk h s.offNew)] ∧
        s'.skip = s.skip) := by
  unfold finishHunk at hs
  simp only [] at hs
  split at hs
  · cases hs
  · next s1 hs1 =>
    split at hs1
    · next l hl =>
      left
      split at hs1
      · cases hs1
      · next hne =>
        split at hs1
        · cases hs1
        · next emitted cur hw =>
          cases hsk : s.skip
          · simp [hsk] at hl
            subst hl
            cases hs1
            cases hs
            refine ⟨l, emitted, cur, rfl, rfl, hne, hw, ?_⟩
            simp only [hsk]
            (repeat' split) <;> simp
          · simp [hsk] at hl
    · next hl =>
      right
      split at hs1
      · cases hs1
      · next b hb =>
        cases hs1
        cases hs
        have hl' : s.skip = true ∨ loc = none := by
          cases hsk : s.skip
          · simp [hsk] at hl; exact Or.inr hl
          · exact Or.inl rfl
        refine ⟨hl', ?_⟩
        simp only [shiftHunk]
        (repeat' split) <;> simp

/-! ### `applyPatch` is one run of the loop -/

/-- the `finish` closure of `applyPatch` -/
def finishResult (file : List Line) (p : Patch) (s : AState) : ApplyResult :=
  { out := s.out ++ copyRange file s.cursor (file.length - s.cursor), rejBytes := s.rejBytes,
    failed := s.rejected.length, skipped := s.skip, perfect := s.perfect, rejected := s.rejected,
    applied := s.applied, msgs := s.msgs, patch := p, tty := s.tty }

/-- the hunk loop over all hunks of `p`, then `finish` -/
def runLoop (file : List Line) (o : ApplyOpts) (p : Patch) (s : AState) : Except Exn ApplyResult :=
  match applyRest file o p s 0 p.hunks with
  | .error e => .error e
  | .ok s' => .ok (finishResult file p s')

/-- nothing has been placed yet -/
structure InitState (s : AState) : Prop where
  out : s.out = []
  cursor : s.cursor = 0
  offErr : s.offErr = 0
  applied : s.applied = []
  rejected : s.rejected = []

theorem runLoop_cons {file : List Line} {o : ApplyOpts} {p : Patch} {s : AState} {h : Hunk} {rest : List Hunk}
    (hp : p.hunks = h :: rest) (hc : s.cursor = 0) (he : s.offErr = 0) :
    runLoop file o p s =
      match finishHunk file o p s 0 h (locateHunk file h o.ignoreWhitespace 0 o.maxFuzz 0) with
      | .error e => .error e
      | .ok s2 => match applyRest file o p s2 1 rest with
        | .error e => .error e
        | .ok s3 => .ok (finishResult file p s3) := by
  unfold runLoop
  rw [hp, applyRest, hc, he]
  generalize finishHunk file o p s 0 h (locateHunk file h o.ignoreWhitespace 0 o.maxFuzz 0) = r
  cases r <;> rfl

theorem checkReversed_error {o : ApplyOpts} {tty : Option (List Bool)} {e : Exn}
    (h : checkHowToHandleReversed o tty = .error e) :
    e = .systemError ∧ o.ignoreReversed = false ∧ o.batch = false ∧ tty = none := by
  unfold checkHowToHandleReversed at h
  split at h
  · split at h
    · cases h
    · split at h
      · cases h; simp_all
      · cases h
      · split at h
        · cases h
        · split at h
          · cases h
          · split at h <;> cases h
  · cases h

theorem shouldCheckReversed_force {loc : Option Location} {o : ApplyOpts}
    (h : shouldCheckReversed loc o = true) : o.force = false := by
  unfold shouldCheckReversed at h
  split at h
  · split at h
    · cases h
    · simpa using h
  · simpa using h

/-- `applyPatch` either fails because it has to ask and there is no tty, or it is one run of the hunk loop
    from an initial state over the hunks as given, reversed (-R, or "Assume -R"), or reversed twice -/
theorem applyPatch_cases (file : List Line) (p0 : Patch) (o : ApplyOpts) (tty : Option (List Bool)) :
    (applyPatch file p0 o tty = .error .systemError ∧ o.ignoreReversed = false ∧ o.batch = false ∧
        o.force = false ∧ tty = none) ∨
    ∃ p' s1, InitState s1 ∧
      (p'.hunks = p0.hunks ∨ p'.hunks = p0.hunks.map reverseHunk ∨
        p'.hunks = (p0.hunks.map reverseHunk).map reverseHunk) ∧
      applyPatch file p0 o tty = runLoop file o p' s1 := by
  have hp : ∃ p : Patch, (if o.reverse then reversePatch p0 else p0) = p ∧
      (p.hunks = p0.hunks ∨ p.hunks = p0.hunks.map reverseHunk) := by
    refine ⟨_, rfl, ?_⟩
    split
    · right; rfl
    · left; rfl
  obtain ⟨p, hpe, hph⟩ := hp
  suffices H : ∀ res, applyPatch file p0 o tty = res →
      (res = .error .systemError ∧ o.ignoreReversed = false ∧ o.batch = false ∧ o.force = false ∧ tty = none) ∨
      ∃ p' s1, InitState s1 ∧
        (p'.hunks = p0.hunks ∨ p'.hunks = p0.hunks.map reverseHunk ∨
          p'.hunks = (p0.hunks.map reverseHunk).map reverseHunk) ∧ res = runLoop file o p' s1 from H _ rfl
  intro res hres
  unfold applyPatch at hres
  simp only [hpe] at hres
  have hph' : p.hunks = p0.hunks ∨ p.hunks = p0.hunks.map reverseHunk ∨
          p.hunks = (p0.hunks.map reverseHunk).map reverseHunk := by
    rcases hph with h | h
    · exact Or.inl h
    · exact Or.inr (Or.inl h)
  split at hres
  · next hh =>
    right
    refine ⟨p, { tty := tty }, ⟨rfl, rfl, rfl, rfl, rfl⟩, hph', ?_⟩
    rw [← hres]; unfold runLoop; rw [hh]; rfl
  · next h0 rest hh =>
    split at hres
    · next hchk =>
      split at hres
      · next e hdec =>
        left
        split at hdec
        · split at hdec
          · next e' he' =>
            cases hdec
            obtain ⟨h1, h2, h3, h4⟩ := checkReversed_error he'
            subst h1
            exact ⟨hres.symm, h2, h3, shouldCheckReversed_force hchk, h4⟩
          · cases hdec
        · cases hdec
      · next rh ms tty' hdec =>
        right
        split at hres
        · have hrh : (reversePatch p).hunks = reverseHunk h0 :: rest.map reverseHunk := by
            show p.hunks.map reverseHunk = _
            rw [hh, List.map_cons]
          refine ⟨reversePatch p, { msgs := ms, tty := tty' },
            ⟨rfl, rfl, rfl, rfl, rfl⟩, ?_, ?_⟩
          · have hrm : (reversePatch p).hunks = p.hunks.map reverseHunk := rfl
            rcases hph with h | h
            · exact Or.inr (Or.inl (by rw [hrm, h]))
            · exact Or.inr (Or.inr (by rw [hrm, h]))
          · rw [runLoop_cons (h := reverseHunk h0) (rest := rest.map reverseHunk) hrh rfl rfl]
            exact hres.symm
        · refine ⟨p, { skip := true, msgs := ms, tty := tty' }, ⟨rfl, rfl, rfl, rfl, rfl⟩, hph', ?_⟩
          rw [runLoop_cons hh rfl rfl]
          exact hres.symm
        · refine ⟨p, { msgs := ms, tty := tty' }, ⟨rfl, rfl, rfl, rfl, rfl⟩, hph', ?_⟩
          rw [runLoop_cons hh rfl rfl]
          exact hres.symm
    · right
      refine ⟨p, { tty := tty }, ⟨rfl, rfl, rfl, rfl, rfl⟩, hph', ?_⟩
      rw [runLoop_cons hh rfl rfl]
      exact hres.symm

/-! ### what the applier needs from the locator -/

/-- a location handed to `finishHunk` is usable: a natural number at or after `minLine` and not beyond the end of the
    file, whatever of the old side lies beyond the end of the file is context (D99: fuzz may ignore context at the end of
    a hunk which the file does not have), and (for hunks with an old side) the placement is admissible -/
def LocOK (file : List Line) (h : Hunk) (iw : Bool) (maxFuzz : Int) (minLine : Nat) (loc : Option Location) : Prop :=
  ∀ l, loc = some l → ∃ p : Nat, l.line = (p : Int) ∧ minLine ≤ p ∧ p ≤ file.length ∧
    (∀ k, file.length ≤ p + k → delAt h.lines k = false) ∧
    (h.old.count ≠ 0 → ∃ f : Nat, admissibleB file h iw maxFuzz p f = true)

/-- every result of `locateHunk` on a well-formed hunk is usable (C02 at the locator level) -/
def LocatorSound (file : List Line) (iw : Bool) (maxFuzz : Int) : Prop :=
  ∀ (h : Hunk) (off : Int) (minLine : Nat), h.WF →
    LocOK file h iw maxFuzz minLine (locateHunk file h iw off maxFuzz minLine)

theorem LocOK_none (file : List Line) (h : Hunk) (iw : Bool) (maxFuzz : Int) (minLine : Nat) :
    LocOK file h iw maxFuzz minLine none := by intro l hl; cases hl

theorem writeHunkD_nil (file : List Line) (ls : List PatchLine) (start : Nat) :
    writeHunkD file [] ls start = writeHunk file ls start := by simp [writeHunkD]

/-- with a usable location (and without -D) an iteration never throws -/
theorem finishHunk_total {file : List Line} {o : ApplyOpts} {p : Patch} {s : AState} {num : Nat} {h : Hunk}
    {loc : Option Location} {iw : Bool} {mf : Int} {m : Nat}
    (hwf : h.WF) (hD : o.define = []) (hloc : LocOK file h iw mf m loc) :
    ∃ s', finishHunk file o p s num h loc = .ok s' := by
  unfold finishHunk
  simp only []
  have hloc' : LocOK file h iw mf m (if s.skip then none else loc) := by
    split
    · exact LocOK_none file h iw mf m
    · exact hloc
  generalize (if s.skip then none else loc) = loc' at hloc'
  cases loc' with
  | none =>
    obtain ⟨b, hb⟩ := writeReject_ok p o.rejectFormat s.rejected.length (shiftHunk h s.offNew) (shiftHunk_WF _ hwf)
    simp only [shiftHunk] at hb
    simp only [hb]
    exact ⟨_, rfl⟩
  | some l =>
    obtain ⟨q, hq, _, hle, htail, _⟩ := hloc' l rfl
    have hq' : l.line.toNat = q := by omega
    have hne : ¬ (q > s.cursor ∧ q > file.length) := by omega
    simp only [hne, if_false, hD, writeHunkD_nil, hq', writeHunk_eq_min file h.lines q hwf.1 hle htail]
    exact ⟨_, rfl⟩


/-! ### C02: the output is a splice -/

/-- loop invariant: what has been written so far, followed by any continuation from the cursor, is the
    splice of a list of admissible, increasing placements followed by that continuation -/
def SpliceInv (file : List Line) (iw : Bool) (maxFuzz : Int) (hunks : List Hunk) (s : AState) : Prop :=
  ∃ pls : List (Hunk × Nat),
    (∀ tail, s.out ++ spliceAt file s.cursor tail = spliceAt file 0 (pls ++ tail)) ∧
    (∀ tail, increasingB file s.cursor tail = true → increasingB file 0 (pls ++ tail) = true) ∧
    s.cursor ≤ file.length ∧
    pls.length = s.applied.length ∧
    (∀ hp ∈ pls, hp.1 ∈ hunks ∧ hp.1.WF) ∧
    (∀ hp ∈ pls, hp.1.old.count ≠ 0 → ∃ f : Nat, admissibleB file hp.1 iw maxFuzz hp.2 f = true)

theorem SpliceInv_init {file : List Line} {iw : Bool} {maxFuzz : Int} {hunks : List Hunk} {s : AState}
    (hs : InitState s) : SpliceInv file iw maxFuzz hunks s := by
  refine ⟨[], ?_, ?_, ?_, ?_, ?_, ?_⟩
  · intro tail; rw [hs.out, hs.cursor]; rfl
  · intro tail h; rw [hs.cursor] at h; exact h
  · rw [hs.cursor]; omega
  · rw [hs.applied]; rfl
  · intro hp h; cases h
  · intro hp h; cases h

theorem finishHunk_spliceInv {file : List Line} {o : ApplyOpts} {p : Patch} {s s' : AState} {num : Nat} {h : Hunk}
    {loc : Option Location} {hunks : List Hunk}
    (hmem : h ∈ hunks) (hwf : h.WF) (hD : o.define = [])
    (hloc : LocOK file h o.ignoreWhitespace o.maxFuzz s.cursor loc)
    (hinv : SpliceInv file o.ignoreWhitespace o.maxFuzz hunks s)
    (hs : finishHunk file o p s num h loc = .ok s') :
    SpliceInv file o.ignoreWhitespace o.maxFuzz hunks s' := by
  obtain ⟨pls, h1, h2, h3, h4, h5, h6⟩ := hinv
  rcases finishHunk_ok hs with ⟨l, emitted, cur, _, hl, _, hw, hout, hcur, _, happ, _, _⟩ |
      ⟨_, hout, hcur, _, happ, _, _⟩
  · obtain ⟨q, hq, hge, hfit, htail, hadm⟩ := hloc l hl
    have hq' : l.line.toNat = q := by omega
    rw [hD, writeHunkD_nil, hq', writeHunk_eq_min file h.lines q hwf.1 hfit htail] at hw
    cases hw
    rw [hq'] at hout
    refine ⟨pls ++ [(h, q)], ?_, ?_, ?_, ?_, ?_, ?_⟩
    · intro tail
      rw [hout, hcur, List.append_assoc pls, List.singleton_append, ← h1, spliceAt_cons]
      simp only [List.append_assoc, nextCursor]
    · intro tail ht
      rw [hcur] at ht
      rw [List.append_assoc pls, List.singleton_append]
      exact h2 _ (increasingB_cons.2 ⟨hge, hfit, ht⟩)
    · rw [hcur]; exact Nat.min_le_right _ _
    · rw [happ]; simp [h4]
    · intro hp hhp
      rcases List.mem_append.1 hhp with hhp | hhp
      · exact h5 hp hhp
      · rw [List.mem_singleton.1 hhp]; exact ⟨hmem, hwf⟩
    · intro hp hhp
      rcases List.mem_append.1 hhp with hhp | hhp
      · exact h6 hp hhp
      · rw [List.mem_singleton.1 hhp]; exact hadm
  · refine ⟨pls, ?_, ?_, ?_, ?_, h5, h6⟩
    · rw [hout, hcur]; exact h1
    · rw [hcur]; exact h2
    · rw [hcur]; exact h3
    · rw [happ]; exact h4

theorem applyRest_spliceInv {file : List Line} {o : ApplyOpts} {p : Patch} {hunks : List Hunk}
    (hsound : LocatorSound file o.ignoreWhitespace o.maxFuzz) (hD : o.define = []) :
    ∀ (hs : List Hunk) (s : AState) (num : Nat) (s' : AState), (∀ h ∈ hs, h ∈ hunks ∧ h.WF) →
      SpliceInv file o.ignoreWhitespace o.maxFuzz hunks s → applyRest file o p s num hs = .ok s' →
      SpliceInv file o.ignoreWhitespace o.maxFuzz hunks s' := by
  intro hs
  induction hs with
  | nil => intro s num s' _ hinv hr; rw [applyRest] at hr; cases hr; exact hinv
  | cons h rest ih =>
    intro s num s' hall hinv hr
    rw [applyRest] at hr
    split at hr
    · cases hr
    · next s1 hs1 =>
      obtain ⟨hm, hwf⟩ := hall h (List.mem_cons_self ..)
      exact ih s1 _ s' (fun x hx => hall x (List.mem_cons_of_mem _ hx))
        (finishHunk_spliceInv hm hwf hD (hsound h s.offErr s.cursor hwf) hinv hs1) hr

/-- the hunks the loop runs over are well formed if those of the input patch are -/
theorem hunks_WF_of_cases {p0 p' : Patch} (hwf : ∀ h ∈ p0.hunks, h.WF)
    (hp : p'.hunks = p0.hunks ∨ p'.hunks = p0.hunks.map reverseHunk ∨
        p'.hunks = (p0.hunks.map reverseHunk).map reverseHunk) : ∀ h ∈ p'.hunks, h.WF := by
  rcases hp with hp | hp | hp <;> rw [hp]
  · exact hwf
  · exact map_reverseHunk_WF hwf
  · exact map_reverseHunk_WF (map_reverseHunk_WF hwf)

theorem hunks_length_of_cases {p0 p' : Patch}
    (hp : p'.hunks = p0.hunks ∨ p'.hunks = p0.hunks.map reverseHunk ∨
        p'.hunks = (p0.hunks.map reverseHunk).map reverseHunk) : p'.hunks.length = p0.hunks.length := by
  rcases hp with hp | hp | hp <;> rw [hp] <;> simp

/-- what a successful `applyPatch` returned -/
theorem applyPatch_ok_cases {file : List Line} {p0 : Patch} {o : ApplyOpts} {tty : Option (List Bool)} {r : ApplyResult}
    (hr : applyPatch file p0 o tty = .ok r) :
    ∃ p' s1 s3, InitState s1 ∧
      (p'.hunks = p0.hunks ∨ p'.hunks = p0.hunks.map reverseHunk ∨
        p'.hunks = (p0.hunks.map reverseHunk).map reverseHunk) ∧
      applyRest file o p' s1 0 p'.hunks = .ok s3 ∧ r = finishResult file p' s3 := by
  rcases applyPatch_cases file p0 o tty with ⟨he, _⟩ | ⟨p', s1, hi, hp, he⟩
  · rw [he] at hr; cases hr
  · rw [he] at hr
    unfold runLoop at hr
    split at hr
    · cases hr
    · next s3 h3 => cases hr; exact ⟨p', s1, s3, hi, hp, h3, rfl⟩

/-- C02 at the level of `apply_patch`, relative to soundness of the locator -/
theorem applyPatch_splice {file : List Line} {p0 : Patch} {o : ApplyOpts} {tty : Option (List Bool)} {r : ApplyResult}
    (hsound : LocatorSound file o.ignoreWhitespace o.maxFuzz)
    (hwf : ∀ h ∈ p0.hunks, h.WF) (hD : o.define = [])
    (hr : applyPatch file p0 o tty = .ok r) :
    ∃ pls : List (Hunk × Nat),
      r.out = spliceAt file 0 pls ∧ increasingB file 0 pls = true ∧
      pls.length = r.applied.length ∧
      (∀ hp ∈ pls, hp.1 ∈ r.patch.hunks ∧ hp.1.WF) ∧
      (∀ hp ∈ pls, hp.1.old.count ≠ 0 →
        ∃ f : Nat, admissibleB file hp.1 o.ignoreWhitespace o.maxFuzz hp.2 f = true) := by
  obtain ⟨p', s1, s3, hi, hp, h3, rfl⟩ := applyPatch_ok_cases hr
  have hwf' := hunks_WF_of_cases hwf hp
  obtain ⟨pls, h1, h2, hc, h4, h5, h6⟩ :=
    applyRest_spliceInv (hunks := p'.hunks) hsound hD p'.hunks s1 0 s3 (fun h hh => ⟨hh, hwf' h hh⟩)
      (SpliceInv_init hi) h3
  refine ⟨pls, ?_, ?_, h4, h5, h6⟩
  · have := h1 []
    rw [List.append_nil, spliceAt_nil] at this
    exact this
  · have := h2 [] (increasingB_nil.2 hc)
    rw [List.append_nil] at this
    exact this

/-! ### C04: totality -/

theorem applyRest_total {file : List Line} {o : ApplyOpts} {p : Patch}
    (hsound : LocatorSound file o.ignoreWhitespace o.maxFuzz) (hD : o.define = []) :
    ∀ (hs : List Hunk) (s : AState) (num : Nat), (∀ h ∈ hs, h.WF) → ∃ s', applyRest file o p s num hs = .ok s' := by
  intro hs
  induction hs with
  | nil => intro s num _; exact ⟨s, rfl⟩
  | cons h rest ih =>
    intro s num hall
    obtain ⟨s1, hs1⟩ := finishHunk_total (p := p) (s := s) (num := num) (hall h (List.mem_cons_self ..)) hD
      (hsound h s.offErr s.cursor (hall h (List.mem_cons_self ..)))
    obtain ⟨s2, hs2⟩ := ih s1 (num + 1) (fun x hx => hall x (List.mem_cons_of_mem _ hx))
    refine ⟨s2, ?_⟩
    rw [applyRest]
    simp only [hs1]
    exact hs2

theorem applyPatch_total {file : List Line} {p0 : Patch} {o : ApplyOpts} {tty : Option (List Bool)}
    (hsound : LocatorSound file o.ignoreWhitespace o.maxFuzz)
    (hwf : ∀ h ∈ p0.hunks, h.WF) (hD : o.define = [])
    (hnoprompt : o.ignoreReversed = true ∨ o.batch = true ∨ o.force = true ∨ tty ≠ none) :
    ∃ r, applyPatch file p0 o tty = .ok r := by
  rcases applyPatch_cases file p0 o tty with ⟨_, h1, h2, h3, h4⟩ | ⟨p', s1, _, hp, he⟩
  · rcases hnoprompt with h | h | h | h
    · rw [h1] at h; cases h
    · rw [h2] at h; cases h
    · rw [h3] at h; cases h
    · exact absurd h4 h
  · obtain ⟨s3, h3⟩ := applyRest_total (p := p') hsound hD p'.hunks s1 0 (hunks_WF_of_cases hwf hp)
    refine ⟨finishResult file p' s3, ?_⟩
    rw [he]; unfold runLoop; rw [h3]

/-! ### C04: every hunk index is applied or rejected, exactly once -/

theorem finishHunk_partition {file : List Line} {o : ApplyOpts} {p : Patch} {s s' : AState} {num : Nat} {h : Hunk}
    {loc : Option Location} (hs : finishHunk file o p s num h loc = .ok s')
    (hperm : (s.applied.map (·.1) ++ s.rejected.map (·.1)).Perm (List.range num)) :
    (s'.applied.map (·.1) ++ s'.rejected.map (·.1)).Perm (List.range (num + 1)) := by
  rw [List.range_succ]
  rcases finishHunk_ok hs with ⟨l, _, _, _, _, _, _, _, _, _, happ, hrej, _⟩ | ⟨_, _, _, _, happ, hrej, _⟩
  · rw [happ, hrej, List.map_append, List.map_singleton, List.append_assoc, List.singleton_append]
    exact (List.perm_middle.trans (List.Perm.cons _ hperm)).trans (List.perm_append_singleton _ _).symm
  · rw [happ, hrej, List.map_append, List.map_singleton, ← List.append_assoc]
    exact List.Perm.append_right _ hperm

theorem applyRest_partition {file : List Line} {o : ApplyOpts} {p : Patch} :
    ∀ (hs : List Hunk) (s : AState) (num : Nat) (s' : AState), applyRest file o p s num hs = .ok s' →
      (s.applied.map (·.1) ++ s.rejected.map (·.1)).Perm (List.range num) →
      (s'.applied.map (·.1) ++ s'.rejected.map (·.1)).Perm (List.range (num + hs.length)) := by
  intro hs
  induction hs with
  | nil => intro s num s' hr hperm; rw [applyRest] at hr; cases hr; exact hperm
  | cons h rest ih =>
    intro s num s' hr hperm
    rw [applyRest] at hr
    split at hr
    · cases hr
    · next s1 hs1 =>
      have := ih s1 (num + 1) s' hr (finishHunk_partition hs1 hperm)
      rw [List.length_cons, ← Nat.add_assoc, Nat.add_right_comm]
      exact this

theorem applyPatch_partition {file : List Line} {p0 : Patch} {o : ApplyOpts} {tty : Option (List Bool)} {r : ApplyResult}
    (hr : applyPatch file p0 o tty = .ok r) :
    (r.applied.map (·.1) ++ r.rejected.map (·.1)).Perm (List.range p0.hunks.length) ∧
      r.failed = r.rejected.length ∧ r.patch.hunks.length = p0.hunks.length := by
  obtain ⟨p', s1, s3, hi, hp, h3, rfl⟩ := applyPatch_ok_cases hr
  refine ⟨?_, rfl, hunks_length_of_cases hp⟩
  have := applyRest_partition p'.hunks s1 0 s3 h3 (by rw [hi.applied, hi.rejected]; exact List.Perm.refl _)
  rw [Nat.zero_add, hunks_length_of_cases hp] at this
  exact this

/-! ### C04: rejects are the shifted hunks -/

def RejInv (all : List Hunk) (s : AState) : Prop :=
  ∀ ih ∈ s.rejected, ∃ h d, all[ih.1]? = some h ∧ ih.2 = shiftHunk h d

theorem finishHunk_rejInv {file : List Line} {o : ApplyOpts} {p : Patch} {s s' : AState} {num : Nat} {h : Hunk}
    {loc : Option Location} {all : List Hunk} (hs : finishHunk file o p s num h loc = .ok s')
    (hnum : all[num]? = some h) (hinv : RejInv all s) : RejInv all s' := by
  rcases finishHunk_ok hs with ⟨l, _, _, _, _, _, _, _, _, _, _, hrej, _⟩ | ⟨_, _, _, _, _, hrej, _⟩
  · intro ih hih; rw [hrej] at hih; exact hinv ih hih
  · intro ih hih
    rw [hrej] at hih
    rcases List.mem_append.1 hih with hih | hih
    · exact hinv ih hih
    · rw [List.mem_singleton.1 hih]; exact ⟨h, s.offNew, hnum, rfl⟩

theorem applyRest_rejInv {file : List Line} {o : ApplyOpts} {p : Patch} {all : List Hunk} :
    ∀ (hs : List Hunk) (s : AState) (num : Nat) (s' : AState), applyRest file o p s num hs = .ok s' →
      all.drop num = hs → RejInv all s → RejInv all s' := by
  intro hs
  induction hs with
  | nil => intro s num s' hr _ hinv; rw [applyRest] at hr; cases hr; exact hinv
  | cons h rest ih =>
    intro s num s' hr hdrop hinv
    rw [applyRest] at hr
    split at hr
    · cases hr
    · next s1 hs1 =>
      have hnum : all[num]? = some h := by
        have := List.getElem?_drop (xs := all) (i := num) (j := 0)
        rw [hdrop] at this
        simpa using this.symm
      have hdrop' : all.drop (num + 1) = rest := by
        rw [← List.drop_drop, hdrop]; rfl
      exact ih s1 (num + 1) s' hr hdrop' (finishHunk_rejInv hs1 hnum hinv)

theorem applyPatch_rejected_shifted {file : List Line} {p0 : Patch} {o : ApplyOpts} {tty : Option (List Bool)}
    {r : ApplyResult} (hr : applyPatch file p0 o tty = .ok r) :
    ∀ ih ∈ r.rejected, ∃ h d, r.patch.hunks[ih.1]? = some h ∧ ih.2 = shiftHunk h d := by
  obtain ⟨p', s1, s3, hi, hp, h3, rfl⟩ := applyPatch_ok_cases hr
  exact applyRest_rejInv (all := p'.hunks) p'.hunks s1 0 s3 h3 rfl
    (by intro ih hih; rw [hi.rejected] at hih; cases hih)


end PatchModel.Apply
