/-
  Lemmas/Progress — the section loop of `process_patch` (Model/Driver `sectionLoop`) always has fuel left (C08 at the
  level of the whole program).

  * `NLE x`                 the pure computation `x : Except Exn α` does not end in `Exn.logicError`; proved for every
                            parser (`parseHeader_nle`, `parseBody_nle`: the `logicError` branch of `unifiedLoop` is dead
                            code), for the applier and the reject writer (`applyPatch_nle`, `allRejectBytes_nle`);
  * `parseHeader_binary`    a header scan only returns `Operation.binary` for a git section (which consumes ≥ 1 line);
  * `KP m`                  the driver program `m` leaves the parser (`DState.par`) alone and never throws `logicError`;
                            proved for every program `processSection` calls, except `parseBodyM`;
  * `Mono m`                `m` never un-reads a line (`len s' ≤ len s`) and never throws `logicError`:
                            `processSection_mono`;
  * `processSection_progress`  every pass that makes the loop go on leaves the stream strictly shorter or at eof;
  * `sectionLoop_safe`      with `unread lines + 2` fuel (or any positive fuel at eof) `sectionLoop` never takes its
                            `| 0 => throw Exn.logicError` branch, and never ends in `logicError` at all;
  * `processPatchM_noLE`    `process_patch` never ends in `logicError`.
-/
import PatchModel.Lemmas.Cost
import PatchModel.Lemmas.DriverFacts
namespace PatchModel.Progress
open PatchModel PatchModel.DriverFacts

/-! ### pure computations that never end in `logicError` -/

/-- `x` does not end in `Exn.logicError` -/
def NLE {α} (x : Except Exn α) : Prop := x ≠ .error .logicError

theorem nle_ok {α} (a : α) : NLE (.ok a : Except Exn α) := fun h => by cases h
theorem nle_err {α} {e : Exn} (h : e ≠ .logicError) : NLE (.error e : Except Exn α) :=
  fun h' => h (Except.error.inj h')
theorem nle_map {α β} {x : Except Exn α} (f : α → β) (h : NLE x) : NLE (x.map f) := by
  cases x with
  | ok a => exact nle_ok _
  | error e => exact fun h' => h (by simpa [Except.map] using h')
/-- a failed sub-computation passed on (`| .error e => .error e`) -/
theorem nle_of_eq {α β} {x : Except Exn α} {e : Exn} (h : NLE x) (he : x = .error e) : NLE (.error e : Except Exn β) :=
  nle_err (fun hl => h (by rw [he, hl]))

/-- closes the leaves of a case analysis of a pure computation: results, explicit errors other than `logicError`,
    recursive calls / calls of functions whose `NLE` lemma is in the context, errors passed on -/
syntax "nle_leaf" : tactic
macro_rules | `(tactic| nle_leaf) => `(tactic| with_reducible first
  | exact nle_ok _
  | exact nle_err (by decide)
  | assumption
  | apply_assumption -exfalso -symm only [*])

/-- case analysis of a pure computation; an error passed on (`match x with | .error e => .error e | …`) is traced back to
    the computation `x` it came from -/
syntax "nle_walk" : tactic
macro_rules | `(tactic| nle_walk) => `(tactic| repeat' (first
  | nle_leaf
  | with_reducible refine nle_map _ ?_
  | refine nle_of_eq (x := _) ?_ ‹_ = Except.error _›
  | split
  | dsimp only))

theorem parseQuotedGo_nle (fuel : Nat) (r acc : Bytes) : NLE (parseQuotedGo fuel r acc) := by
  fun_induction parseQuotedGo fuel r acc <;> nle_leaf

theorem parseQuotedString_nle (r : Bytes) : NLE (parseQuotedString r) := by
  have := parseQuotedGo_nle
  unfold parseQuotedString
  nle_walk

theorem parseFileLine_nle (r : Bytes) (strip : Int) : NLE (parseFileLine r strip) := by
  have := parseQuotedString_nle
  unfold parseFileLine
  nle_walk

theorem parseGitHeaderName_nle (r : Bytes) (strip : Int) : NLE (parseGitHeaderName r strip) := by
  have := parseQuotedString_nle
  unfold parseGitHeaderName
  nle_walk

theorem parseGitExtendedInfo_nle (r : Bytes) (p : Patch) (strip : Int) : NLE (parseGitExtendedInfo r p strip) := by
  have := parseQuotedString_nle
  unfold parseGitExtendedInfo
  nle_walk

/-! #### the header scan -/

theorem hdrContext_nle (last : Format) (st : HState) (p : Patch) (line : Bytes) : NLE (Cost.hdrContext last st p line) := by
  unfold Cost.hdrContext
  nle_walk

theorem hdrTail_nle (last : Format) (st : HState) (line : Bytes) (strip : Int) : NLE (Cost.hdrTail last st line strip) := by
  have := parseGitExtendedInfo_nle
  have := hdrContext_nle
  unfold Cost.hdrTail
  nle_walk

theorem headerStep_nle (st : HState) (line : Bytes) (strip : Int) : NLE (headerStep st line strip) := by
  have := parseFileLine_nle
  have := parseGitHeaderName_nle
  have := hdrTail_nle
  rw [Cost.headerStep_eq]
  dsimp only
  split
  · exact nle_ok _
  split
  · nle_walk
  split
  · nle_walk
  split
  · nle_walk
  split
  · nle_walk
  split
  · nle_walk
  · nle_walk

theorem headerLoop_nle (strip : Int) (fuel : Nat) (st : HState) : NLE (headerLoop strip fuel st) := by
  have := headerStep_nle
  fun_induction headerLoop strip fuel st <;> nle_walk

theorem skipLines_nle (n : Nat) (p : Parser) : NLE (skipLines n p) := by
  fun_induction skipLines n p <;> nle_walk

theorem parseHeader_nle (par : Parser) (patch : Patch) (strip : Int) : NLE (parseHeader par patch strip) := by
  have := headerLoop_nle
  have := skipLines_nle
  unfold parseHeader
  nle_walk

/-! #### the body parsers -/

/-- the `logicError` branch of `unifiedLoop` is dead code: the line it looks at is never empty -/
theorem unifiedLoop_nle (fuel : Nat) (st : UState) : NLE (unifiedLoop fuel st) := by
  fun_induction unifiedLoop fuel st
  case case5 =>
    rename_i line hl
    exfalso
    simp only [line] at hl
    split at hl <;> simp_all
  all_goals nle_walk

theorem parseUnifiedBody_nle (par : Parser) : NLE (parseUnifiedBody par) := by
  have := unifiedLoop_nle
  unfold parseUnifiedBody
  nle_walk

theorem ctxAppendLine_nle (ls : List PatchLine) (c : Bytes) (nl : NewLine) : NLE (ctxAppendLine ls c nl) := by
  unfold ctxAppendLine
  nle_walk

theorem ctxAppendContent_nle (fuel : Nat) (par : Parser) (ls : List PatchLine) (a b : Int) :
    NLE (ctxAppendContent fuel par ls a b) := by
  have := ctxAppendLine_nle
  fun_induction ctxAppendContent fuel par ls a b <;> nle_walk

theorem ctxParseNewRange_nle (line : Bytes) (s e : Int) : NLE (ctxParseNewRange line s e) := by
  unfold ctxParseNewRange
  nle_walk

theorem ctxSkipToOldRange_nle (fuel : Nat) (par : Parser) (s e : Int) : NLE (ctxSkipToOldRange fuel par s e) := by
  fun_induction ctxSkipToOldRange fuel par s e <;> nle_walk

theorem parseContextHunk_nle (par : Parser) : NLE (parseContextHunk par) := by
  have := ctxAppendLine_nle
  have := ctxAppendContent_nle
  have := ctxParseNewRange_nle
  have := ctxSkipToOldRange_nle
  unfold parseContextHunk
  nle_walk

theorem hunkFromContextParts_go_nle (fuel : Nat) (ol nl : List PatchLine) (h : Hunk) :
    NLE (hunkFromContextParts.go fuel ol nl h) := by
  induction fuel generalizing ol nl h with
  | zero => rw [hunkFromContextParts.go]; exact nle_ok _
  | succ fuel ih => unfold hunkFromContextParts.go; nle_walk

theorem hunkFromContextParts_nle (os : Int) (ol : List PatchLine) (ns : Int) (nl : List PatchLine) :
    NLE (hunkFromContextParts os ol ns nl) := by
  unfold hunkFromContextParts
  exact hunkFromContextParts_go_nle _ _ _ _

theorem parseContextBody_nle (fuel : Nat) (par : Parser) (hs : List Hunk) : NLE (parseContextBody fuel par hs) := by
  have := parseContextHunk_nle
  have := hunkFromContextParts_nle
  fun_induction parseContextBody fuel par hs <;> nle_walk

theorem normalReadSide_nle (fuel : Nat) (par : Parser) (count : Int) (m op : UInt8) (acc : List PatchLine) :
    NLE (normalReadSide fuel par count m op acc) := by
  fun_induction normalReadSide fuel par count m op acc <;> nle_walk

theorem parseNormalBody_nle (fuel : Nat) (par : Parser) (hs : List Hunk) : NLE (parseNormalBody fuel par hs) := by
  have := normalReadSide_nle
  fun_induction parseNormalBody fuel par hs <;> nle_walk

/-- **no body parser ends in `logicError`** -/
theorem parseBody_nle (par : Parser) (p : Patch) : NLE (parseBody par p) := by
  have := parseUnifiedBody_nle
  have := parseContextBody_nle
  have := parseNormalBody_nle
  unfold parseBody
  nle_walk

/-! #### the applier and the reject writer -/

theorem applyPatch_nle (file : List Line) (p : Patch) (o : ApplyOpts) (tty : Option (List Bool)) :
    NLE (applyPatch file p o tty) := by
  intro h
  rcases applyPatch_error h with e | e | e <;> cases e

theorem allRejectBytes_nle (p : Patch) (fmt : RejectFormat) (n : Nat) (hs : List Hunk) : NLE (allRejectBytes p fmt n hs) := by
  intro h
  cases allRejectBytes_error h

theorem diffFormatFromOptions_nle (o : Options) : NLE (diffFormatFromOptions o) := by
  unfold diffFormatFromOptions
  nle_walk

/-! ### a binary patch is a git patch

`Operation.binary` is only ever set by `parseGitExtendedInfo` ("GIT binary patch"), which the header scan only calls after a
`diff --git` line: so the section of a binary patch is a git section, whose header consumes at least the `diff --git` line. -/

/-- the operation recorded in a scan state -/
def OpIs (op : Operation) (x : HState) : Prop := x.patch.operation = op

theorem hdrUnified_op {op} (last : Format) (st : HState) (p : Patch) (line : Bytes) (hg : OpIs op st) :
    OpIs op (Cost.hdrUnified last st p line).2 ∧ ∀ res, (Cost.hdrUnified last st p line).1 = some res → OpIs op res.1 := by
  unfold Cost.hdrUnified
  simp only []
  split
  · split
    · refine ⟨hg, ?_⟩
      intro res hr; simp only [Option.some.injEq] at hr; subst hr; exact hg
    · exact ⟨hg, by intro res hr; simp at hr⟩
  · exact ⟨hg, by intro res hr; simp at hr⟩

theorem hdrNormal_op {op} (last : Format) (st : HState) (p : Patch) (line : Bytes) (hg : OpIs op st) (hp : p.operation = op) :
    OpIs op (Cost.hdrNormal last st p line).2 ∧ ∀ res, (Cost.hdrNormal last st p line).1 = some res → OpIs op res.1 := by
  unfold Cost.hdrNormal
  simp only []
  split
  · split
    · refine ⟨hg, ?_⟩
      intro res hr; simp only [Option.some.injEq] at hr; subst hr; exact hp
    · split
      · refine ⟨hg, ?_⟩
        intro res hr; simp only [Option.some.injEq] at hr; subst hr; exact hg
      · exact ⟨hg, by intro res hr; simp at hr⟩
  · exact ⟨hg, by intro res hr; simp at hr⟩

theorem hdrContext_op {op} (last : Format) (st : HState) (p : Patch) (line : Bytes) (hg : OpIs op st) (hp : p.operation = op)
    (res : HState × Bool) (h : Cost.hdrContext last st p line = .ok res) : OpIs op res.1 := by
  unfold Cost.hdrContext at h
  simp only [] at h
  split at h
  · split at h
    · simp only [Except.ok.injEq] at h; subst h; exact hp
    · split at h
      · simp only [Except.ok.injEq] at h; subst h; exact hg
      · simp only [Except.ok.injEq] at h; subst h; exact hg
  · simp only [Except.ok.injEq] at h; subst h; exact hg

theorem hdrTail_op (last : Format) (st : HState) (line : Bytes) (strip : Int) (res : HState × Bool)
    (h : Cost.hdrTail last st line strip = .ok res) (hg : st.isGit = false) :
    res.1.patch.operation = st.patch.operation := by
  unfold Cost.hdrTail at h
  have hext : (if st.isGit = true then parseGitExtendedInfo line st.patch strip else .ok (false, st.patch)) =
      .ok (false, st.patch) := by rw [hg]; rfl
  simp only [] at h
  rw [hext] at h
  simp only [] at h
  have h1 := hdrUnified_op (op := st.patch.operation) last { st with patch := st.patch } st.patch line rfl
  revert h h1
  generalize Cost.hdrUnified last { st with patch := st.patch } st.patch line = r1
  rcases r1 with ⟨_ | res1, st1⟩
  · intro h h1
    simp only [] at h h1
    have h2 := hdrNormal_op (op := st.patch.operation) last st1 st.patch line h1.1 rfl
    revert h h2
    generalize Cost.hdrNormal last st1 st.patch line = r2
    rcases r2 with ⟨_ | res2, st2⟩
    · intro h h2
      simp only [] at h h2
      exact hdrContext_op last st2 st.patch line h2.1 rfl res h
    · intro h h2
      simp only [Except.ok.injEq] at h; subst h
      exact h2.2 _ rfl
  · intro h h1
    simp only [Except.ok.injEq] at h; subst h
    exact h1.2 _ rfl

/-- outside a git section one step of the header scan leaves the operation alone -/
theorem headerStep_op (st : HState) (line : Bytes) (strip : Int) (st' : HState) (c : Bool)
    (h : headerStep st line strip = .ok (st', c)) (hg : st.isGit = false) :
    st'.patch.operation = st.patch.operation := by
  rw [Cost.headerStep_eq] at h
  simp only [] at h
  split at h
  · simp only [Except.ok.injEq, Prod.mk.injEq] at h
    obtain ⟨rfl, rfl⟩ := h
    rfl
  split at h
  · obtain ⟨a, _, ha⟩ := Cost.map_ok h
    simp only [Prod.mk.injEq] at ha
    obtain ⟨rfl, rfl⟩ := ha
    rfl
  split at h
  · obtain ⟨a, _, ha⟩ := Cost.map_ok h
    simp only [Prod.mk.injEq] at ha
    obtain ⟨rfl, rfl⟩ := ha
    rfl
  split at h
  · obtain ⟨a, _, ha⟩ := Cost.map_ok h
    simp only [Prod.mk.injEq] at ha
    obtain ⟨rfl, rfl⟩ := ha
    rfl
  split at h
  · simp only [Except.ok.injEq, Prod.mk.injEq] at h
    obtain ⟨rfl, rfl⟩ := h
    rfl
  split at h
  · split at h
    · simp only [Except.ok.injEq, Prod.mk.injEq] at h
      obtain ⟨rfl, rfl⟩ := h
      rfl
    · obtain ⟨a, _, ha⟩ := Cost.map_ok h
      simp only [Prod.mk.injEq] at ha
      obtain ⟨rfl, rfl⟩ := ha
      rfl
  · exact hdrTail_op _ _ _ _ _ h hg

/-- the scan invariant: outside a git section the operation is still the one the scan started with -/
theorem headerLoop_op (strip : Int) (op : Operation) : ∀ (fuel : Nat) (st st' : HState),
    (st.isGit = false → st.patch.operation = op) → headerLoop strip fuel st = .ok st' →
      (st'.isGit = false → st'.patch.operation = op) := by
  intro fuel
  induction fuel with
  | zero => intro st st' hi h; simp [headerLoop] at h; subst h; exact hi
  | succ fuel ih =>
    intro st st' hi h
    rw [headerLoop] at h
    split at h
    · simp only [Except.ok.injEq] at h; subst h; exact hi
    · rename_i l par1 _
      have key : ∀ st1 c, headerStep { st with par := par1 } l.content strip = .ok (st1, c) →
          (st1.isGit = false → st1.patch.operation = op) := by
        intro st1 c hstep hg1
        have hg0 : st.isGit = false := by
          rcases (Cost.headerStep_inv2 _ _ _ _ _ hstep).2.1 with ⟨e, _⟩ | ⟨_, e, _⟩
          · rw [← hg1, e]
          · rw [e] at hg1; cases hg1
        rw [headerStep_op _ _ _ _ _ hstep hg0]
        exact hi hg0
      split at h
      · simp at h
      · rename_i st1 hstep
        exact ih st1 st' (key st1 _ hstep) h
      · rename_i st1 hstep
        simp only [Except.ok.injEq] at h; subst h
        exact key _ _ hstep

theorem opAdjust_binary (p : Patch) (a b : Prop) [Decidable a] [Decidable b]
    (h : (if p.operation = .change then
        (if a then { p with operation := .delete } else if b then { p with operation := .add } else p)
      else p).operation = .binary) : p.operation = .binary := by
  split at h
  · rename_i hc
    split at h
    · cases h
    · split at h
      · cases h
      · exact h
  · exact h

/-- **a binary patch is a git patch**: a header scan started with any operation but `binary` (the driver starts it with
    `change`) returns `binary` only for a git section -/
theorem parseHeader_binary (par : Parser) (patch : Patch) (strip : Int) (body : Bool) (p : Patch) (info : HeaderInfo) (par' : Parser)
    (h : parseHeader par patch strip = .ok (body, p, info, par')) (h0 : patch.operation = .change)
    (hb : p.operation = .binary) : p.format = .git := by
  obtain ⟨st, hl, _, _, _, _, hfmt⟩ := Cost.parseHeader_state par patch strip body p info par' h
  have hop := headerLoop_op strip .change _ _ _ (fun _ => h0) hl
  cases hg : st.isGit with
  | true => rw [hfmt, hg]; rfl
  | false =>
    exfalso
    have hop := hop hg
    unfold parseHeader at h
    simp only [] at h
    rw [hl] at h
    simp only [] at h
    split at h
    · simp at h
    · simp only [Except.ok.injEq, Prod.mk.injEq] at h
      obtain ⟨_, hp, _, _⟩ := h
      rw [← hp] at hb
      have := opAdjust_binary _ _ _ hb
      have h2 : (if st.isGit then { st.patch with format := Format.git }
             else if !st.foundFirstHunk then { st.patch with format := Format.unknown } else st.patch).operation
             = st.patch.operation := by
        split
        · rfl
        · split <;> rfl
      rw [h2, hop] at this
      cases this

/-! ### `KP`: the parser is left alone and no `logicError` is thrown -/

/-- the measure of the section loop: the number of lines of the patch not read yet -/
abbrev len (s : DState) : Nat := s.par.s.rest.length

def ParEq (s s' : DState) : Prop := s'.par = s.par
/-- the exception is not the one that stands for "out of fuel" -/
def NotLE (e : Exn) (_ _ : DState) : Prop := e ≠ .logicError

abbrev KP {α} (m : DM α) : Prop := Spec ParEq NotLE m

theorem good_kp : Good ParEq NotLE :=
  ⟨fun _ => rfl, fun h1 h2 => h2.trans h1, fun _ h => h⟩

section
variable {α : Type}
theorem KP.throw (e : Exn) (h : e ≠ .logicError) : KP (throw e : DM α) := Spec.throw e (fun _ => h)
theorem KP.modify (f : DState → DState) (h : ∀ s, (f s).par = s.par) : KP (modify f : DM Unit) := Spec.modify f h
theorem KP.set_par {s0 : DState} (s1 : DState) (h : s1.par = s0.par) :
    Spec (fun s s' => s = s0 → s'.par = s.par) NotLE (set s1 : DM Unit) := Spec.set s1 (fun _ hs => hs ▸ h)
theorem KP.emit (ev : DEv) : KP (emit ev) := Spec.emit ev (fun _ => rfl)
theorem KP.failNow : KP failNow := Spec.failNow (fun _ => rfl)
theorem KP.liftE (x : Except Exn α) (h : NLE x) : KP (liftE x) :=
  Spec.liftE good_kp x (fun e he _ hl => h (by rw [he, hl]))
theorem sys_ne_le : Exn.systemError ≠ Exn.logicError := by decide
theorem KP.doOp (op : FsOp) : KP (doOp op) := Spec.doOp op (fun _ _ _ => rfl) (fun _ => sys_ne_le)
theorem KP.tryOp (op : FsOp) (tol : Errno → Bool) : KP (tryOp op tol) :=
  Spec.tryOp op tol (fun _ _ _ => rfl) (fun _ => rfl) (fun _ => sys_ne_le)
end

macro_rules | `(tactic| spec_leaf $_) => `(tactic| with_reducible first
  | exact KP.throw _ (by decide)
  | exact KP.emit _
  | exact KP.failNow
  | exact KP.modify _ (fun _ => rfl)
  | exact KP.doOp _
  | exact KP.tryOp _ _)

theorem readTty_kp : KP readTty := by
  constructor
  · intro s a s' h
    unfold readTty at h
    rw [run_bind, run_get] at h
    simp only [] at h
    split at h
    · cases h
    · cases h; rfl
    · rw [run_bind, run_set] at h; cases h; rfl
  · intro s e s' h
    unfold readTty at h
    rw [run_bind, run_get] at h
    simp only [] at h
    split at h
    · cases h; exact sys_ne_le
    · cases h
    · rw [run_bind, run_set] at h; cases h

theorem createTemp_kp : KP createTemp := by unfold createTemp; spec_walk good_kp
theorem opCreat_kp (p : Bytes) : KP (opCreat p) := by unfold opCreat; spec_walk good_kp
theorem opWrite_kp (p b : Bytes) : KP (opWrite p b) := by unfold opWrite; spec_walk good_kp
theorem opChmod_kp (p : Bytes) (m : Nat) : KP (opChmod p m) := Spec.opChmod p m (fun _ => KP.doOp _) (fun _ => rfl)
theorem opRename_kp (a b : Bytes) : KP (opRename a b) := by unfold opRename; spec_walk good_kp

macro_rules | `(tactic| spec_leaf $_) => `(tactic| with_reducible first
  | exact readTty_kp | exact createTemp_kp | exact opCreat_kp _ | exact opWrite_kp _ _
  | exact opChmod_kp _ _ | exact opRename_kp _ _)

theorem writeFile_kp (p b : Bytes) : KP (writeFile p b) := by unfold writeFile; spec_walk good_kp
theorem ensureParentDirs_kp (p : Bytes) : KP (ensureParentDirs p) := by
  unfold ensureParentDirs; spec_walk good_kp
theorem permissionCallback_kp (nm : Nat) (perm : PermResult) (p : Bytes) : KP (permissionCallback nm perm p) := by
  unfold permissionCallback; spec_walk good_kp
theorem removeFileAndEmptyParents_kp (p : Bytes) : KP (removeFileAndEmptyParents p) := by
  unfold removeFileAndEmptyParents; spec_walk good_kp
theorem fixPermissionsIfNeeded_kp (o : Options) (p : Bytes) : KP (fixPermissionsIfNeeded o p) := by
  unfold fixPermissionsIfNeeded; spec_walk good_kp
theorem guessFilepath_kp (p : Patch) (r : Bool) : KP (guessFilepath p r) := by
  unfold guessFilepath; spec_walk good_kp
theorem checkWithUser_kp (q : String) (d : Bool) : KP (checkWithUser q d) := by
  unfold checkWithUser; spec_walk good_kp
theorem makeWritable_kp (perm : PermResult) (p : Bytes) : KP (makeWritable perm p) := by
  unfold makeWritable; spec_walk good_kp

macro_rules | `(tactic| spec_leaf $_) => `(tactic| with_reducible first
  | exact writeFile_kp _ _ | exact ensureParentDirs_kp _ | exact permissionCallback_kp _ _ _
  | exact removeFileAndEmptyParents_kp _ | exact fixPermissionsIfNeeded_kp _ _
  | exact guessFilepath_kp _ _ | exact checkWithUser_kp _ _ | exact makeWritable_kp _ _)

theorem promptForFilepath_kp : ∀ n, KP (promptForFilepath n)
  | 0 => by unfold promptForFilepath; spec_walk good_kp
  | n + 1 => by
    have ih := promptForFilepath_kp n
    unfold promptForFilepath; spec_walk good_kp

theorem makeBackupFor_kp (o : Options) (p : Bytes) : KP (makeBackupFor o p) :=
  makeBackupFor_spec good_kp o p (fun _ _ => rfl) (ensureParentDirs_kp _) (fun _ _ => KP.doOp _) (fun _ => KP.doOp _)
    (fun _ => KP.doOp _)
theorem openRejects_kp (o : Options) (rej : Bytes) : KP (openRejects o rej) :=
  openRejects_spec good_kp o rej (fun _ _ => rfl) (fun _ => KP.doOp _) (fun _ => KP.doOp _)
theorem writeRejects_kp (o : Options) (rej b : Bytes) : KP (writeRejects o rej b) := by
  have := openRejects_kp
  unfold writeRejects; spec_walk good_kp

macro_rules | `(tactic| spec_leaf $_) => `(tactic| with_reducible first
  | exact promptForFilepath_kp _ | exact makeBackupFor_kp _ _ | exact openRejects_kp _ _ | exact writeRejects_kp _ _ _)

theorem writePatchedResult_kp (o : Options) (p : Patch) (f : Bytes) (perm : PermResult) (sb : Bool) (c : Bytes) :
    KP (writePatchedResult o p f perm sb c) := by
  unfold writePatchedResult; spec_walk good_kp

theorem refuseToPatch_kp (o : Options) (f : Bytes) (p : Patch) : KP (refuseToPatch o f p) := by
  unfold refuseToPatch; spec_walk good_kp
  next e h => exact KP.throw _ (fun hl => allRejectBytes_nle _ _ _ _ (by rw [h, hl]))

theorem finalizeDeferred_kp (o : Options) : KP (finalizeDeferred o) := by
  unfold finalizeDeferred; spec_walk good_kp

macro_rules | `(tactic| spec_leaf $_) => `(tactic| with_reducible first
  | exact writePatchedResult_kp _ _ _ _ _ _ | exact refuseToPatch_kp _ _ _ | exact finalizeDeferred_kp _)

/-- the `KP` facts, as a tactic -/
syntax "kp_leaf" : tactic
macro_rules | `(tactic| kp_leaf) => `(tactic| with_reducible first
  | exact Spec.get good_kp
  | exact Spec.pure good_kp _
  | exact KP.throw _ (by decide)
  | exact KP.emit _
  | exact KP.failNow
  | exact KP.modify _ (fun _ => rfl)
  | exact KP.doOp _
  | exact KP.tryOp _ _
  | exact KP.liftE _ (applyPatch_nle _ _ _ _)
  | exact readTty_kp | exact createTemp_kp | exact opCreat_kp _ | exact opWrite_kp _ _
  | exact opChmod_kp _ _ | exact opRename_kp _ _
  | exact writeFile_kp _ _ | exact ensureParentDirs_kp _ | exact permissionCallback_kp _ _ _
  | exact removeFileAndEmptyParents_kp _ | exact fixPermissionsIfNeeded_kp _ _
  | exact guessFilepath_kp _ _ | exact checkWithUser_kp _ _ | exact makeWritable_kp _ _
  | exact promptForFilepath_kp _ | exact makeBackupFor_kp _ _ | exact openRejects_kp _ _ | exact writeRejects_kp _ _ _
  | exact writePatchedResult_kp _ _ _ _ _ _ | exact refuseToPatch_kp _ _ _ | exact finalizeDeferred_kp _
  | exact Spec.fsExists good_kp _
  | exact Spec.fsIsRegular good_kp _
  | exact Spec.fsIsSymlink good_kp _
  | exact Spec.fsGetPerms good_kp _
  | (refine ReadOnly.spec good_kp ?_; readonly_walk; done))

/-! ### `Mono`: no line is un-read and no `logicError` is thrown -/

def LenLe (s s' : DState) : Prop := len s' ≤ len s

abbrev Mono {α} (m : DM α) : Prop := Spec LenLe NotLE m

theorem good_mono : Good LenLe NotLE :=
  ⟨fun _ => Nat.le_refl _, fun h1 h2 => Nat.le_trans h2 h1, fun _ h => h⟩

theorem Mono.of_kp {α} {m : DM α} (h : KP m) : Mono m :=
  Spec.weaken h (fun s s' (h : s'.par = s.par) => by unfold LenLe len; rw [h]; exact Nat.le_refl _) (fun _ _ _ h => h)

theorem Mono.liftE {α} (x : Except Exn α) (h : NLE x) : Mono (liftE x) := Mono.of_kp (KP.liftE x h)

/-- `parseBodyM`, exactly -/
theorem parseBodyM_run (b : Bool) (p : Patch) (s : DState) : (parseBodyM b p).run s =
    if b = true then
      match parseBody s.par p with
      | .ok (p', par') => (.ok p', { s with par := par' })
      | .error e => (.error e, s)
    else (.ok p, s) := by
  unfold parseBodyM
  cases b with
  | false => rfl
  | true =>
    simp only [if_true]
    rw [run_bind, run_get]
    simp only []
    rw [run_bind, run_liftE]
    cases parseBody s.par p with
    | error e => rfl
    | ok r => rfl

/-- the body parser only moves forward -/
theorem parseBodyM_mono (b : Bool) (p : Patch) : Mono (parseBodyM b p) := by
  constructor
  · intro s a s' h
    rw [parseBodyM_run] at h
    split at h
    · split at h
      · next p' par' hb =>
        cases h
        exact (Cost.parseBody_le _ _ _ _ hb).1
      · cases h
    · cases h; exact Nat.le_refl _
  · intro s e s' h
    rw [parseBodyM_run] at h
    split at h
    · split at h
      · cases h
      · next e' hb =>
        cases h
        exact fun hl => parseBody_nle _ _ (by rw [hb, hl])
    · cases h

/-- the leaves of a `Mono` walk -/
macro_rules | `(tactic| spec_leaf $_) => `(tactic| with_reducible first
  | exact parseBodyM_mono _ _
  | exact Mono.liftE _ (applyPatch_nle _ _ _ _)
  | exact Mono.of_kp (by kp_leaf))

/-! ### running a program from a given state -/

/-- `m`, run from `s0`, ends with a result and in a state satisfying `Q` -/
def From {α} (s0 : DState) (m : DM α) (Q : Except Exn α → DState → Prop) : Prop := Q (m.run s0).1 (m.run s0).2

section
variable {α β : Type} {s0 : DState} {Q : Except Exn β → DState → Prop}

theorem From.get_bind {f : DState → DM β} (h : From s0 (f s0) Q) : From s0 (get >>= f) Q := by
  unfold From at *
  rw [run_bind, run_get]
  exact h

theorem From.liftE_bind {x : Except Exn α} {g : α → DM β} (herr : ∀ e, x = .error e → Q (.error e) s0)
    (hok : ∀ a, x = .ok a → From s0 (g a) Q) : From s0 (liftE x >>= g) Q := by
  unfold From at *
  rw [run_bind, run_liftE]
  cases x with
  | error e => exact herr e rfl
  | ok a => exact hok a rfl

theorem From.modify_bind {F : DState → DState} {k : Unit → DM β} (h : From (F s0) (k ()) Q) :
    From s0 (modify F >>= k) Q := by
  unfold From at *
  rw [run_bind, run_modify]
  exact h

theorem From.ite {c : Prop} [Decidable c] {a b : DM β} (ht : c → From s0 a Q) (hf : ¬ c → From s0 b Q) :
    From s0 (if c then a else b) Q := by
  split
  · exact ht ‹_›
  · exact hf ‹_›

theorem From.of_spec {R : DState → DState → Prop} {E : Exn → DState → DState → Prop} {m : DM β} (h : Spec R E m)
    (hok : ∀ a s', R s0 s' → Q (.ok a) s') (herr : ∀ e s', E e s0 s' → Q (.error e) s') : From s0 m Q := by
  unfold From
  rcases hr : m.run s0 with ⟨r, s'⟩
  cases r with
  | ok a => exact hok a s' (h.ok _ _ _ hr)
  | error e => exact herr e s' (h.err _ _ _ hr)

theorem Spec.and {R1 R2 : DState → DState → Prop} {E1 E2 : Exn → DState → DState → Prop} {m : DM β}
    (h1 : Spec R1 E1 m) (h2 : Spec R2 E2 m) : Spec (fun s s' => R1 s s' ∧ R2 s s') (fun e s s' => E1 e s s' ∧ E2 e s s') m :=
  ⟨fun s a s' h => ⟨h1.ok s a s' h, h2.ok s a s' h⟩, fun s e s' h => ⟨h1.err s e s' h, h2.err s e s' h⟩⟩
end

/-! ### progress of one section -/

/-- relative to a section that started with `L` unread lines: a line has been consumed, or the input is at its end -/
def Done (L : Nat) (s : DState) : Prop := len s < L ∨ s.par.s.eof = true
/-- … what holds between the header and the body of the section: a line has been consumed, or the body is still to be
    parsed, from clear flags -/
def Pre (L : Nat) (should : Bool) (s : DState) : Prop :=
  len s < L ∨ (should = true ∧ len s ≤ L ∧ s.par.s.eof = false ∧ s.par.s.bad = false)

/-- a property of the parser alone -/
def ParStable (P : DState → Prop) : Prop := ∀ s s', s'.par = s.par → P s → P s'

theorem stable_done (L : Nat) : ParStable (Done L) := fun s s' h hp => by unfold Done len at *; rw [h]; exact hp
theorem stable_pre (L : Nat) (b : Bool) : ParStable (Pre L b) := fun s s' h hp => by unfold Pre len at *; rw [h]; exact hp

theorem Tr.of_kp {α} {P : DState → Prop} {m : DM α} (hP : ParStable P) (h : KP m) : Tr P P m :=
  Spec.weaken h (fun s s' hq => hP s s' hq) (fun _ _ _ _ => trivial)

/-- **the body parser makes the progress the header left to it** -/
theorem parseBodyM_tr (L : Nat) (b : Bool) (p : Patch) : Tr (Pre L b) (Done L) (parseBodyM b p) := by
  constructor
  · intro s a s' h hpre
    rw [parseBodyM_run] at h
    split at h
    · split at h
      · next p' par' hb =>
        cases h
        have hle := Cost.parseBody_le _ _ _ _ hb
        simp only [Cost.len] at hle
        unfold Done len
        simp only []
        rcases hpre with h1 | ⟨_, h2, h3, h4⟩
        · left; unfold len at h1; omega
        · unfold len at h2
          rcases hle.2 h3 h4 with h5 | h5
          · left; omega
          · right; exact h5
      · cases h
    · next hb =>
      cases h
      rcases hpre with h1 | ⟨h2, _⟩
      · exact Or.inl h1
      · exact absurd h2 hb
  · intros; trivial

syntax "prog_leaf" : tactic
macro_rules | `(tactic| prog_leaf) => `(tactic| with_reducible first
  | exact parseBodyM_tr _ _ _
  | (refine Tr.of_kp ?_ ?_ <;> first | exact stable_pre _ _ | exact stable_done _ | kp_leaf))

/-- the walk for `Tr (Pre L b) (Done L)`: every statement but `parseBodyM` keeps the current assertion -/
syntax "prog_step" : tactic
syntax "prog_walk" : tactic
macro_rules | `(tactic| prog_step) => `(tactic| (
  first
  | (extract_lets -underBinder +onlyGivenNames jp
     first
     | (refine Spec.cutRO jp (fun x => ?_) (fun hjp => ?_)
        rotate_left; focus (clear_value jp)
        rotate_right; focus (dsimp -zeta only [jp]; readonly_walk; done))
     | (refine Spec.cut2 jp (fun x y => ?_) (fun hjp => ?_)
        rotate_left; focus (clear_value jp)
        rotate_right; focus (dsimp -zeta only [jp]))
     | (refine Spec.cut1 jp (fun x => ?_) (fun hjp => ?_)
        rotate_left; focus (clear_value jp)
        rotate_right; focus (dsimp -zeta only [jp]))
     | (clear_value jp))
  | ((with_reducible refine Tr.bind (Q := ?_) ?_ (fun _ => ?_)); rotate_left; focus (prog_leaf; done))
  | (with_reducible refine Spec.ite ?_ ?_)
  | (with_reducible first
      | exact Tr.pure_self _
      | exact Tr.throw _
      | assumption
      | apply_assumption -exfalso -symm only [*])
  | prog_leaf
  | split))
macro_rules | `(tactic| prog_walk) => `(tactic| repeat' prog_step)

/-- **one pass of the section loop**, run from `s`: it does not end in `logicError`; it does not un-read a line; and if
    it makes the loop go on (`.ok true`) it has consumed a line or left the stream at eof — whichever branch it took:
    a binary patch (a git section: the header alone consumes the `diff --git` line), a patch skipped for want of a file,
    a target that is not a regular file, a read-only target refused, or a patch applied (with or without rejects) -/
theorem processSection_from (o : Options) (fmt : Format) (s : DState) :
    From s (processSection o fmt) (fun r s' =>
      match r with
      | .error e => e ≠ .logicError
      | .ok b => len s' ≤ len s ∧ (b = true → len s' < len s ∨ s'.par.s.eof = true)) := by
  unfold processSection
  refine From.get_bind ?_
  refine From.liftE_bind ?_ ?_
  · intro e he
    exact fun hl => parseHeader_nle _ _ _ (by rw [he, hl])
  intro x hx
  obtain ⟨should, patch0, info, par1⟩ := x
  have hprog := (Cost.parseHeader_progress _ _ _ _ _ _ _ hx).2
  have hle := (Cost.parseHeader_le _ _ _ _ _ _ _ hx).1
  have hbin := parseHeader_binary _ _ _ _ _ _ _ hx rfl
  have hgit := Cost.parseHeader_git _ _ _ _ _ _ _ hx
  simp only [Cost.len] at hprog hle hgit
  have hle' : par1.s.rest.length ≤ s.par.s.rest.length := by omega
  refine From.modify_bind ?_
  refine From.ite (fun hu => ?_) (fun hu => ?_)
  · -- nothing recognisable: the loop is left (`return false`), or this is the first section (`invalid_argument`)
    unfold From
    simp only [run_bind, run_throw, run_emit, run_pure, run_ite]
    by_cases hfp : s.firstPatch = true
    · simp only [hfp, ↓reduceIte]
      exact (by decide : Exn.invalidArgument ≠ .logicError)
    · by_cases hv : o.verbose = true
      · simp only [hfp, hv, ↓reduceIte]
        exact ⟨hle', fun h => by cases h⟩
      · simp only [hfp, hv]
        exact ⟨hle', fun h => by cases h⟩
  · refine From.modify_bind ?_
    refine From.ite (fun hb => ?_) (fun hb => ?_)
    · -- a binary patch: nothing but the header is read, and that is a git header
      unfold From
      simp only [run_bind, run_emit, run_failNow, run_pure]
      have hg : patch0.format = .git := hbin (by simpa using hb)
      exact ⟨hle', fun _ => Or.inl (hgit hg).2.2⟩
    · -- every other way through the section: all of them go through `parseBodyM`
      refine From.of_spec (Spec.and (R1 := LenLe) (E1 := NotLE)
        (R2 := fun a b => Pre (len s) should a → Done (len s) b) (E2 := fun _ _ _ => True) ?_ ?_) ?_ ?_
      · spec_walk good_mono
      · prog_walk
      · intro a s' ⟨h1, h2⟩
        have h1 : len s' ≤ par1.s.rest.length := h1
        refine ⟨by unfold len at *; omega, fun _ => ?_⟩
        refine h2 ?_
        rcases hprog with hp | ⟨hp1, hp2, hp3, _⟩
        · exact Or.inl hp
        · exact Or.inr ⟨hp3, hle', hp1, hp2⟩
      · intro e s' ⟨h1, _⟩
        exact h1

/-- a pass of the section loop never un-reads a line and never throws `logicError` -/
theorem processSection_mono (o : Options) (fmt : Format) : Mono (processSection o fmt) := by
  constructor
  · intro s a s' h
    have := processSection_from o fmt s
    unfold From at this
    rw [h] at this
    exact this.1
  · intro s e s' h
    have := processSection_from o fmt s
    unfold From at this
    rw [h] at this
    exact this

/-- **the progress lemma**: a pass of the section loop that makes the loop go on leaves the stream strictly shorter than
    it found it, or at eof -/
theorem processSection_progress (o : Options) (fmt : Format) (s s' : DState)
    (h : (processSection o fmt).run s = (.ok true, s')) : len s' < len s ∨ s'.par.s.eof = true := by
  have := processSection_from o fmt s
  unfold From at this
  rw [h] at this
  exact this.2 rfl

/-! ### the section loop -/

/-- **the section loop never runs out of fuel**: started with at least `unread lines + 2` fuel (or any positive fuel when
    the stream is at eof), `sectionLoop` does not end in `logicError` — neither by its own `| 0 => throw Exn.logicError`,
    nor by an exception of a section -/
theorem sectionLoop_safe (o : Options) (fmt : Format) : ∀ (fuel : Nat) (s : DState),
    ((s.par.s.eof = true ∧ 1 ≤ fuel) ∨ len s + 2 ≤ fuel) →
      ∀ s', (sectionLoop o fmt fuel).run s ≠ (.error .logicError, s') := by
  intro fuel
  induction fuel with
  | zero => intro s hf; omega
  | succ fuel ih =>
    intro s hf s'
    unfold sectionLoop
    rw [run_bind, run_get]
    simp only []
    split
    · intro h; cases h
    · rename_i heof
      have hf : len s + 2 ≤ fuel + 1 := by
        rcases hf with hf | hf
        · exact absurd hf.1 heof
        · exact hf
      rw [run_bind]
      rcases hps : (processSection o fmt).run s with ⟨r, s1⟩
      cases r with
      | error e =>
        simp only []
        intro h
        cases h
        exact (processSection_mono o fmt).err _ _ _ hps rfl
      | ok b =>
        simp only []
        cases b with
        | false => intro h; cases h
        | true =>
          simp only [if_true]
          refine ih s1 ?_ s'
          rcases processSection_progress o fmt s s1 hps with h | h
          · right; omega
          · left; exact ⟨h, by omega⟩

/-- **the fuel is immaterial**: any two amounts of fuel of at least `unread lines + 2` give the same result and the same final
    state — the bounded loop of the model is the unbounded `while (!parser.is_eof())` loop of the code -/
theorem sectionLoop_fuel_irrelevant (o : Options) (fmt : Format) : ∀ (fuel1 fuel2 : Nat) (s : DState),
    ((s.par.s.eof = true ∧ 1 ≤ fuel1) ∨ len s + 2 ≤ fuel1) →
    ((s.par.s.eof = true ∧ 1 ≤ fuel2) ∨ len s + 2 ≤ fuel2) →
      (sectionLoop o fmt fuel1).run s = (sectionLoop o fmt fuel2).run s := by
  intro fuel1
  induction fuel1 with
  | zero => intro fuel2 s hf; omega
  | succ fuel1 ih =>
    intro fuel2 s hf1 hf2
    cases fuel2 with
    | zero => omega
    | succ fuel2 =>
      unfold sectionLoop
      rw [run_bind, run_bind, run_get]
      simp only []
      split
      · rfl
      · rename_i heof
        have hf1 : len s + 2 ≤ fuel1 + 1 := by
          rcases hf1 with hf | hf
          · exact absurd hf.1 heof
          · exact hf
        have hf2 : len s + 2 ≤ fuel2 + 1 := by
          rcases hf2 with hf | hf
          · exact absurd hf.1 heof
          · exact hf
        rw [run_bind, run_bind]
        rcases hps : (processSection o fmt).run s with ⟨r, s1⟩
        cases r with
        | error e => rfl
        | ok b =>
          simp only []
          cases b with
          | false => rfl
          | true =>
            simp only [if_true]
            refine ih fuel2 s1 ?_ ?_
            · rcases processSection_progress o fmt s s1 hps with h | h
              · right; omega
              · left; exact ⟨h, by omega⟩
            · rcases processSection_progress o fmt s s1 hps with h | h
              · right; omega
              · left; exact ⟨h, by omega⟩

/-! ### the whole of `process_patch` -/

/-- no `logicError`, whatever the start state -/
abbrev NoLE {α} (m : DM α) : Prop := Spec (fun _ _ => True) NotLE m

theorem good_noLE : Good (fun _ _ => True) NotLE := ⟨fun _ => trivial, fun _ _ => trivial, fun _ h => h⟩

theorem NoLE.of_kp {α} {m : DM α} (h : KP m) : NoLE m := Spec.weaken h (fun _ _ _ => trivial) (fun _ _ _ h => h)
theorem NoLE.liftE {α} (x : Except Exn α) (h : NLE x) : NoLE (liftE x) := NoLE.of_kp (KP.liftE x h)

macro_rules | `(tactic| spec_leaf $_) => `(tactic| with_reducible first
  | exact NoLE.of_kp (by kp_leaf)
  | exact Spec.set _ (fun _ => trivial))

/-- the loop as `process_patch` starts it: a fresh parser on the `lines` of the patch, `lines.length + 2` fuel -/
theorem loop_noLE {β} (o : Options) (fmt : Format) (lines : List Line) (k : Unit → DM β) (hk : ∀ u, NoLE (k u)) :
    NoLE (modify (fun s => { s with par := { s := { rest := lines } } }) >>= fun _ =>
      sectionLoop o fmt (lines.length + 2) >>= k) := by
  have hfu : ∀ s : DState, len { s with par := { s := { rest := lines } } } + 2 ≤ lines.length + 2 :=
    fun _ => Nat.le_refl _
  revert hfu
  generalize lines.length + 2 = fuel
  intro hfu
  constructor
  · intros; trivial
  · intro s e s' h
    rw [run_bind, run_modify] at h
    simp only [] at h
    rw [run_bind] at h
    rcases hl : (sectionLoop o fmt fuel).run { s with par := { s := { rest := lines } } } with ⟨r, s2⟩
    have hsafe := sectionLoop_safe o fmt fuel _ (Or.inr (hfu s)) s2
    rw [hl] at h hsafe
    cases r with
    | error e' =>
      cases h
      intro hle
      subst hle
      exact hsafe rfl
    | ok a =>
      exact (hk a).err s2 e s' h

/-- **`process_patch` never ends in `logicError`** -/
theorem processPatchM_noLE (o : Options) : NoLE (processPatchM o) := by
  unfold processPatchM
  extract_lets -underBinder +onlyGivenNames jp
  refine Spec.cut1 jp (fun x => ?_) (fun hjp => ?_)
  · dsimp -zeta only [jp]
    refine Spec.bind good_noLE (Spec.get good_noLE) (fun s => ?_)
    extract_lets -underBinder +onlyGivenNames jp2
    refine Spec.cut1 jp2 (fun bytes => ?_) (fun hjp2 => ?_)
    · dsimp -zeta only [jp2]
      refine Spec.bind good_noLE (NoLE.liftE _ (diffFormatFromOptions_nle o)) (fun format => ?_)
      exact loop_noLE o format (splitLines bytes) _ (fun _ => NoLE.of_kp (finalizeDeferred_kp o))
    · clear_value jp2
      spec_walk good_noLE
  · clear_value jp
    spec_walk good_noLE

end PatchModel.Progress

#print axioms PatchModel.Progress.processSection_from
#print axioms PatchModel.Progress.sectionLoop_safe
#print axioms PatchModel.Progress.processPatchM_noLE
