/-
  Lemmas/RunC — the pieces needed to run the whole modelled program (`runPatch`) on the text of a CONTEXT diff
  (the analogue of Lemmas/Run.lean + Header.parseHeader_unified' for the context format):

  * stream flags: `FlagInv` (the `bad` flag is only ever set together with `eof`), kept by every reader of the context
    body parser; `parseContextBody_eof`: a context body that was read to the end of the input leaves the end-of-file flag
    SET (what stops the section loop of `process_patch`);
  * `GoodOps`: every hunk `hunk_from_context_parts` builds has only ' ', '+', '-' lines (`parseContextBody_goodOps`);
  * `valid_sameSides`: `Valid` and `splice` depend on a hunk only through its two sides and its ranges (plus `GoodOps`) — a
    context diff does not say how the '-' and '+' lines of a hunk were interleaved, and it does not matter;
  * `lookahead_halves`: the look-ahead of the header scan (`ctxLookahead`) over the old half of a written hunk finds the new range;
  * `headerLoop_context`, `parseHeader_context`: the header `*** old`, `--- new`, `***************`, `*** s,e ****`;
  * text: `ctxDiffText`, `splitLines_ctxDiffText`, `hunk_shape`, `ctxRejectBody_shape`;
  * `parse_ctxLines`: header scan + body parse of a whole context diff as one statement.
-/
import PatchModel.Lemmas.Run
import PatchModel.Lemmas.Context
namespace PatchModel.RunC
open PatchModel PatchModel.Context

/-! ### the stream flags: `bad` is never set without `eof` -/

/-- `File::get_line` sets the fail bit only at the end of the input -/
def FlagInv (p : Parser) : Prop := p.s.bad = true → p.s.eof = true

theorem FlagInv.of_clear {p : Parser} (h : p.s.bad = false) : FlagInv p := by
  intro hb; rw [h] at hb; cases hb

theorem pstream_getLine_flag (s : PStream) (h : s.bad = true → s.eof = true) :
    s.getLine.2.bad = true → s.getLine.2.eof = true := by
  unfold PStream.getLine
  split
  · intro _; assumption
  · split
    · exact h
    · split
      · intro _; rfl
      · split <;> simp_all

theorem getLine_snd_s (p : Parser) : p.getLine.2.s = p.s.getLine.2 := by
  unfold Parser.getLine
  split <;> simp_all

theorem getLine_flag (p : Parser) (h : FlagInv p) : FlagInv p.getLine.2 := by
  unfold FlagInv
  rw [getLine_snd_s]
  exact pstream_getLine_flag p.s h

theorem getLine_flag' {p p' : Parser} {x : Option Line} (hg : p.getLine = (x, p')) (h : FlagInv p) : FlagInv p' := by
  have := getLine_flag p h
  rw [hg] at this
  exact this

/-- a failed read at the very end of the input leaves the end-of-file flag set -/
theorem getLine_eof_of_nil (p : Parser) (h : FlagInv p) (hr : p.s.rest = []) : p.getLine.2.s.eof = true := by
  rw [getLine_snd_s]
  unfold PStream.getLine
  split
  · assumption
  · split
    · rename_i h1 h2
      have := h h2
      simp_all
    · rw [hr]

theorem ctxAppendContent_flag : ∀ (fuel : Nat) (par : Parser) (ls : List PatchLine) (a b : Int) (ls' : List PatchLine)
    (par' : Parser), FlagInv par → ctxAppendContent fuel par ls a b = .ok (ls', par') → FlagInv par' := by
  intro fuel
  induction fuel with
  | zero => intro par ls a b ls' par' _ h; simp [ctxAppendContent] at h
  | succ fuel ih =>
    intro par ls a b ls' par' hp h
    rw [ctxAppendContent] at h
    split at h
    · split at h
      · simp at h
      · rename_i l p1 hg
        split at h
        · simp at h
        · exact ih _ _ _ _ _ _ (getLine_flag' hg hp) h
    · simp only [Except.ok.injEq, Prod.mk.injEq] at h
      rw [← h.2]; exact hp

theorem ctxCheckNoNewline_flag (par : Parser) (ls : List PatchLine) (hp : FlagInv par) :
    FlagInv (ctxCheckNoNewline par ls).2 := by
  unfold ctxCheckNoNewline
  split
  · exact getLine_flag par hp
  · exact hp

theorem ctxSkipToOldRange_flag : ∀ (fuel : Nat) (par : Parser) (s e : Int) (par' : Parser) (s' e' : Int),
    FlagInv par → ctxSkipToOldRange fuel par s e = .ok (par', s', e') → FlagInv par' := by
  intro fuel
  induction fuel with
  | zero => intro par s e par' s' e' hp h; simp [ctxSkipToOldRange] at h; rw [← h.1]; exact hp
  | succ fuel ih =>
    intro par s e par' s' e' hp h
    rw [ctxSkipToOldRange] at h
    split at h
    · rename_i p1 hg
      simp only [Except.ok.injEq, Prod.mk.injEq] at h
      rw [← h.1]; exact getLine_flag' hg hp
    · rename_i l p1 hg
      have hp1 := getLine_flag' hg hp
      split at h
      · split at h
        rename_i ok s1 e1 _
        split at h
        · simp only [Except.ok.injEq, Prod.mk.injEq] at h
          rw [← h.1]; exact hp1
        · simp at h
      · exact ih _ _ _ _ _ _ hp1 h

theorem parseContextHunk_flag (par : Parser) (ol : List PatchLine) (os : Int) (nl : List PatchLine) (ns : Int) (par' : Parser)
    (hp : FlagInv par) (h : parseContextHunk par = .ok (ol, os, nl, ns, par')) : FlagInv par' := by
  unfold parseContextHunk at h
  simp only [] at h
  split at h
  · simp at h
  · rename_i par1 oldStart oldEnd h1
    have h1 := ctxSkipToOldRange_flag _ _ _ _ _ _ _ hp h1
    split at h
    · simp at h
    · rename_i l1 par2 h2
      have h2 := getLine_flag' h2 h1
      split at h
      · simp at h
      · rename_i ns ne _
        split at h
        · simp at h
        · rename_i newLines par3 h3
          have h3 := ctxAppendContent_flag _ _ _ _ _ _ _ h2 h3
          have h4 := ctxCheckNoNewline_flag par3 newLines h3
          simp only [Except.ok.injEq, Prod.mk.injEq] at h
          rw [← h.2.2.2.2]
          exact h4
      · split at h
        · simp at h
        · rename_i old1 _
          split at h
          · simp at h
          · rename_i oldLines par3 h3
            have h3 := ctxAppendContent_flag _ _ _ _ _ _ _ h2 h3
            have h4 := ctxCheckNoNewline_flag par3 oldLines h3
            generalize (ctxCheckNoNewline par3 oldLines).2 = par4 at h h4
            have h5 := getLine_flag par4 h4
            generalize par4.getLine.2 = par5 at h h5
            split at h
            · simp at h
            · simp at h
            · have h6 := getLine_flag par5 h5
              generalize hg6 : par5.getLine = g6 at h h6
              rcases g6 with ⟨l3o, par6⟩
              simp only [] at h h6
              rcases l3o with _ | l3 <;> simp only [] at h <;> (
              split at h
              · simp only [Except.ok.injEq, Prod.mk.injEq] at h
                rw [← h.2.2.2.2]; exact h6
              · split at h
                · simp only [Except.ok.injEq, Prod.mk.injEq] at h
                  rw [← h.2.2.2.2]; exact h6
                · split at h
                  · simp only [Except.ok.injEq, Prod.mk.injEq] at h
                    rw [← h.2.2.2.2]; exact h6
                  · split at h
                    · simp at h
                    · split at h
                      · simp at h
                      · rename_i newLines par7 h7
                        have h7 := ctxAppendContent_flag _ _ _ _ _ _ _ h6 h7
                        have h8 := ctxCheckNoNewline_flag par7 newLines h7
                        simp only [Except.ok.injEq, Prod.mk.injEq] at h
                        rw [← h.2.2.2.2]; exact h8)

/-- where the context body parser stops: the flags are consistent, and if nothing is left unread the end-of-file flag is set -/
def AtEnd (p : Parser) : Prop := FlagInv p ∧ (p.s.rest = [] → p.s.eof = true)

theorem parseContextBody_atEnd : ∀ (fuel : Nat) (par : Parser) (hs hs' : List Hunk) (par' : Parser),
    FlagInv par → (fuel = 0 → AtEnd par) → parseContextBody fuel par hs = .ok (hs', par') → AtEnd par' := by
  intro fuel
  induction fuel with
  | zero =>
    intro par hs hs' par' _ h0 h
    simp [parseContextBody] at h
    rw [← h.2]; exact h0 rfl
  | succ fuel ih =>
    intro par hs hs' par' hp _ h
    rw [parseContextBody] at h
    split at h
    · simp at h
    · rename_i ol os nl ns par1 h1
      have h1 := parseContextHunk_flag _ _ _ _ _ _ hp h1
      split at h
      · simp at h
      split at h
      · simp at h
      · simp only [] at h
        have hp2 : FlagInv par1.getLine.2 := getLine_flag par1 h1
        have hend : AtEnd { par1.getLine.2 with s := par1.getLine.2.s.seek par1.s.rest } := by
          refine ⟨hp2, ?_⟩
          intro hr
          exact getLine_eof_of_nil par1 h1 hr
        split at h <;> (
        split at h
        · simp only [Except.ok.injEq, Prod.mk.injEq] at h
          rw [← h.2]; exact hend
        · exact ih _ _ _ _ hend.1 (fun _ => hend) h)

/-- **a context body read to the end of the input leaves the end-of-file flag set** -/
theorem parseContextBody_eof (fuel : Nat) (par : Parser) (hs hs' : List Hunk) (par' : Parser) (hf : 0 < fuel)
    (hb : par.s.bad = false) (h : parseContextBody fuel par hs = .ok (hs', par')) (hr : par'.s.rest = []) :
    par'.s.eof = true :=
  (parseContextBody_atEnd fuel par hs hs' par' (FlagInv.of_clear hb) (fun h0 => by omega) h).2 hr

/-! ### the hunks `hunk_from_context_parts` builds have only ' ', '+', '-' lines -/

def GoodOps (h : Hunk) : Prop := ∀ pl ∈ h.lines, pl.op = SP ∨ pl.op = PLUS ∨ pl.op = MINUS

theorem goodOps_add {h h2 : Hunk} {pl : PatchLine} (hl : h2.lines = h.lines ++ [pl]) (hg : GoodOps h)
    (hp : pl.op = SP ∨ pl.op = PLUS ∨ pl.op = MINUS) : GoodOps h2 := by
  intro x hx
  rw [hl] at hx
  rcases List.mem_append.mp hx with hx | hx
  · exact hg x hx
  · simp only [List.mem_singleton] at hx
    subst hx; exact hp

theorem go_goodOps : ∀ (fuel : Nat) (ol nl : List PatchLine) (h h' : Hunk), GoodOps h →
    hunkFromContextParts.go fuel ol nl h = .ok h' → GoodOps h' := by
  intro fuel
  induction fuel with
  | zero =>
    intro ol nl h h' hg he
    simp [hunkFromContextParts.go] at he
    subst he; exact hg
  | succ fuel ih =>
    intro ol nl h h' hg he
    unfold hunkFromContextParts.go at he
    split at he
    · cases he; exact hg
    · simp only [] at he
      repeat' split at he
      all_goals first
        | (cases he; done)
        | (cases he; exact hg)
        | (refine ih _ _ _ _ (goodOps_add rfl hg ?_) he; simp_all)

theorem hunkFromContextParts_goodOps (os ns : Int) (ol nl : List PatchLine) (h : Hunk)
    (he : hunkFromContextParts os ol ns nl = .ok h) : GoodOps h :=
  go_goodOps _ _ _ _ _ (by intro pl hpl; cases hpl) he

theorem parseContextBody_goodOps : ∀ (fuel : Nat) (par : Parser) (acc hs' : List Hunk) (par' : Parser),
    (∀ h ∈ acc, GoodOps h) → parseContextBody fuel par acc = .ok (hs', par') → ∀ h ∈ hs', GoodOps h := by
  intro fuel
  induction fuel with
  | zero =>
    intro par acc hs' par' hacc h
    simp [parseContextBody] at h
    rw [← h.1]; exact hacc
  | succ fuel ih =>
    intro par acc hs' par' hacc h
    rw [parseContextBody] at h
    split at h
    · simp at h
    · rename_i ol os nl ns par1 h1
      split at h
      · simp at h
      split at h
      · simp at h
      · rename_i hk hhk
        have hgk := hunkFromContextParts_goodOps _ _ _ _ _ hhk
        have hacc' : ∀ x ∈ acc ++ [hk], GoodOps x := by
          intro x hx
          rcases List.mem_append.mp hx with hx | hx
          · exact hacc x hx
          · simp only [List.mem_singleton] at hx
            subst hx; exact hgk
        simp only [] at h
        split at h <;> (
        split at h
        · simp only [Except.ok.injEq, Prod.mk.injEq] at h
          rw [← h.1]; exact hacc'
        · exact ih _ _ _ _ hacc' h)

/-! ### `Valid` and `splice` see a hunk only through its sides and ranges -/

theorem pos0_sameSides {a b : Hunk} (h : sameSides a b) : a.pos0 = b.pos0 := by
  unfold Hunk.pos0 expectedLine
  rw [h.2.2.1]

theorem newPos0_sameSides {a b : Hunk} (h : sameSides a b) : a.newPos0 = b.newPos0 := by
  unfold Hunk.newPos0
  rw [h.2.2.2]

theorem valid_sameSides (file : List Line) : ∀ (hs' hs : List Hunk) (c : Nat) (d : Int),
    Forall2 sameSides hs' hs → (∀ h ∈ hs', GoodOps h) → Valid file c d hs →
    Valid file c d hs' ∧ splice file c hs' = splice file c hs
  | [], [], c, d, _, _, hv => ⟨hv, rfl⟩
  | [], _ :: _, _, _, hf, _, _ => hf.elim
  | _ :: _, [], _, _, hf, _, _ => hf.elim
  | a :: hs', b :: hs, c, d, hf, hg, hv => by
    obtain ⟨hab, hf'⟩ := hf
    obtain ⟨e1, e2, e3, e4⟩ := hab
    cases hv with
    | cons _ _ _ _ p hwf hpos hcp htake hfit hnew hd2 hrest =>
      have ih := valid_sameSides file hs' hs (p + (oldOf b.lines).length) (d + (b.new.count - b.old.count)) hf'
        (fun h hh => hg h (List.mem_cons_of_mem _ hh)) hrest
      have hp0 : a.pos0 = b.pos0 := pos0_sameSides ⟨e1, e2, e3, e4⟩
      constructor
      · refine Valid.cons c d a hs' p ⟨hg a List.mem_cons_self, ?_, ?_⟩ (by rw [hp0]; exact hpos) hcp
          (by rw [e1]; exact htake) (by rw [e1]; exact hfit)
          (by rw [newPos0_sameSides ⟨e1, e2, e3, e4⟩]; exact hnew) (by rw [e3]; exact hd2)
          (by rw [e1, e3, e4]; exact ih.1)
        · rw [e3, e1]; exact hwf.2.1
        · rw [e4, e2]; exact hwf.2.2
      · simp only [splice]
        rw [hp0, e1, e2, hpos, Int.toNat_natCast, ih.2]

/-! ### the look-ahead of the header scan over the old half of a written hunk -/

theorem str_m2 : str "- " = [45, 32] := by
  unfold str String.toUTF8; rw [Cpp.byteArray_toList_eq_data]; rfl
theorem str_s2 : str "  " = [32, 32] := by
  unfold str String.toUTF8; rw [Cpp.byteArray_toList_eq_data]; rfl
theorem str_b2 : str "! " = [33, 32] := by
  unfold str String.toUTF8; rw [Cpp.byteArray_toList_eq_data]; rfl
theorem str_bs : str "\\" = [92] := by
  unfold str String.toUTF8; rw [Cpp.byteArray_toList_eq_data]; rfl
theorem str_atat : str "@@ -" = [64, 64, 32, 45] := by
  unfold str String.toUTF8; rw [Cpp.byteArray_toList_eq_data]; rfl

/-- a line the look-ahead passes over: no new range line, and it starts like a line of an old half or like the marker -/
def Skippable (a : Bytes) : Prop :=
  (startsWith a "--- " && endsWith a " ----") = false ∧
  (!(startsWith a "- ") && !(startsWith a "  ") && !(startsWith a "! ") && !(startsWith a "\\")) = false

theorem skippable_half (l : PatchLine) (h : l.op = SP ∨ l.op = MINUS ∨ l.op = BANG) : Skippable (halfLine l).content := by
  have e : (halfLine l).content = l.op :: SP :: (Unified.wire l.line).content := rfl
  rw [e]
  constructor
  · rw [startsWith_half_new]; rfl
  · unfold startsWith
    rw [str_m2, str_s2, str_b2, str_bs]
    rcases h with h | h | h <;> rw [h] <;> simp [List.isPrefixOf, SP, MINUS, BANG]

theorem skippable_marker : Skippable markerText := by
  constructor
  · unfold startsWith; rw [Context.str_new4]; rfl
  · unfold startsWith
    rw [str_m2, str_s2, str_b2, str_bs]
    rfl

theorem lookahead_skip (NR : NumberRoundtrip) (nR : Range) (hnR : RangeOK nR) (rest : List Line) :
    ∀ (ls : List Line), (∀ l ∈ ls, Skippable l.content ∧ l.newline ≠ .none) →
    ∀ (fuel n : Nat) (hk : Hunk), ls.length < fuel →
      ctxLookahead fuel (mkPar (ls ++ lfLine (newRangeText nR) :: rest) n) hk
        = { hk with new := { hk.new with start := nR.start } } := by
  intro ls
  induction ls with
  | nil =>
    intro _ fuel n hk hf
    cases fuel with
    | zero => simp at hf
    | succ fuel =>
      rw [List.nil_append, ctxLookahead, getLine_lf]
      simp only
      have h1 : startsWith (lfLine (newRangeText nR)).content "--- " = true := by
        simp only [lfLine, newRangeText, List.append_assoc]; exact startsWith_new _
      have h2 : endsWith (lfLine (newRangeText nR)).content " ----" = true := by
        simp only [lfLine, newRangeText]; exact endsWith_new _
      have h3 : (lfLine (newRangeText nR)).content = newRangeText nR := rfl
      rw [h1, h2, h3, ctxRangeText_new, parseContextRange_mid NR nR hnR]
      simp
  | cons l ls ih =>
    intro hl fuel n hk hf
    cases fuel with
    | zero => simp at hf
    | succ fuel =>
      obtain ⟨⟨hs1, hs2⟩, hnl⟩ := hl l List.mem_cons_self
      rw [List.cons_append, ctxLookahead, getLine_plain _ hnl]
      simp only [hs1, hs2, Bool.false_eq_true, if_false]
      exact ih (fun x hx => hl x (List.mem_cons_of_mem _ hx)) fuel (n + 1) hk (by simpa using hf)

/-- **the look-ahead over the old half of a written hunk finds the start of the new range** -/
theorem lookahead_halves (NR : NumberRoundtrip) (O : List PatchLine) (hO : OldOps O) (nR : Range) (hnR : RangeOK nR)
    (rest : List Line) (fuel n : Nat) (hk : Hunk) (hf : (halfLines O).length < fuel) :
    ctxLookahead fuel (mkPar (halfLines O ++ lfLine (newRangeText nR) :: rest) n) hk
      = { hk with new := { hk.new with start := nR.start } } := by
  apply lookahead_skip NR nR hnR rest (halfLines O) _ fuel n hk hf
  intro l hl
  unfold halfLines halfTexts at hl
  rcases List.mem_append.mp hl with hl | hl
  · obtain ⟨pl, hpl, rfl⟩ := List.mem_map.mp hl
    exact ⟨skippable_half pl (hO pl hpl), halfLine_newline_ne_none pl⟩
  · split at hl
    · simp only [List.mem_singleton] at hl
      subst hl
      exact ⟨skippable_marker, by simp [lfLine]⟩
    · cases hl

/-! ### the header scan over the header of a context diff -/

open Header in
/-- a `*** name` line (not directly after the stars line: there it is the old range of the first hunk) is stored as the OLD name -/
theorem headerStep_star (st : HState) (r : Bytes) (strip : Int) (hl : ¬ firstBodyLine st (str "*** " ++ r))
    (hc : st.thisLooks ≠ .context) :
    headerStep st (str "*** " ++ r) strip =
      (parseFileLine r strip).map fun res =>
        ({ entered st with patch := { st.patch with oldPath := res.1,
                                                     oldTime := (match res.2 with | some t => t | none => st.patch.oldTime) } }, true) := by
  have hne : (st.thisLooks != .context) = true := by simpa using hc
  rw [headerStep_late _ _ _ hl]
  simp only [hne, if_true, Unified.consumeStr_append]
  rfl

theorem starsText_head : starsText.head? = some 42 := rfl

theorem noKeyword_stars : Header.NoKeyword starsText :=
  ⟨startsWith_stars_old,
   Header.startsWith_false_of_head _ _ _ _ Header.str_plus4 (by rw [starsText_head]; decide),
   Header.startsWith_false_of_head _ _ _ _ Header.str_new4 (by rw [starsText_head]; decide),
   Header.startsWith_false_of_head _ _ _ _ Header.str_index (by rw [starsText_head]; decide),
   Header.startsWith_false_of_head _ _ _ _ Header.str_prereq (by rw [starsText_head]; decide),
   Header.startsWith_false_of_head _ _ _ _ Header.str_git (by rw [starsText_head]; decide)⟩

theorem oldRangeText_head (r : Range) : (oldRangeText r).head? = some 42 := by
  simp [oldRangeText]

open Header in
/-- the stars line, format not yet known or forced to context: remembered as "looks like context" -/
theorem headerStep_stars (st : HState) (strip : Int) (hg : st.isGit = false)
    (hf : st.patch.format = .unknown ∨ st.patch.format = .context) (hl : st.thisLooks = .unknown) :
    headerStep st starsText strip =
      .ok ({ entered st with thisLooks := .context, ltfh := st.lines + 1 }, true) := by
  rw [headerStep_tail st _ strip noKeyword_stars (not_firstBodyLine_of_looks (by rw [hl]; decide))]
  have hu : ∀ hk, parseUnifiedRange hk starsText = (false, hk) := fun hk =>
    Inert.parseUnifiedRange_none hk starsText
      (startsWith_false_of_head _ _ _ _ str_atat (by rw [starsText_head]; decide))
  have hn : ∀ hk, parseNormalRange hk starsText = (false, hk) := fun hk =>
    Inert.parseNormalRange_noDigit hk starsText rfl
  unfold Cost.hdrTail Cost.hdrUnified Cost.hdrNormal Cost.hdrContext
  rcases hf with hf | hf <;>
    simp [hg, hf, hl, hu, hn, startsWith_stars_stars15]

open Header in
/-- the old range line of the first hunk, after the stars line: the scan stops, the format is context, the start of the old
    range and (through the look-ahead) the start of the new range are kept for the add / delete inference -/
theorem headerStep_oldRange (NR : NumberRoundtrip) (st : HState) (strip : Int) (oR : Range) (hoR : RangeOK oR)
    (hg : st.isGit = false) (hf : st.patch.format = .unknown ∨ st.patch.format = .context)
    (hl : st.thisLooks = .context) (ns : Int)
    (hlook : ∀ hk, ctxLookahead (st.par.s.rest.length + 1) st.par hk = { hk with new := { hk.new with start := ns } }) :
    headerStep st (oldRangeText oR) strip =
      .ok ({ entered st with patch := { st.patch with format := .context },
                             hunk := { st.hunk with old := { st.hunk.old with start := oR.start },
                                                    new := { st.hunk.new with start := ns } },
                             foundFirstHunk := true }, false) := by
  have hh := oldRangeText_head oR
  have k : ∀ (kw : String) (c : UInt8) (bs : Bytes), str kw = c :: bs → c ≠ 42 → consumeStr (str kw) (oldRangeText oR) = none :=
    fun kw c bs hk hc => Inert.consumeStr_none_of_startsWith
      (startsWith_false_of_head _ kw c bs hk (by rw [hh]; intro h; exact hc (Option.some.inj h).symm))
  have hu : ∀ hk, parseUnifiedRange hk (oldRangeText oR) = (false, hk) := fun hk =>
    Inert.parseUnifiedRange_none hk _ (startsWith_false_of_head _ _ _ _ str_atat (by rw [hh]; decide))
  have hn : ∀ hk, parseNormalRange hk (oldRangeText oR) = (false, hk) := fun hk =>
    Inert.parseNormalRange_noDigit hk _ (by simp [Inert.noDigitHead, oldRangeText, isDigit])
  rw [headerStep_late _ _ _ (not_firstBodyLine_of_looks (by rw [hl]; decide))]
  simp only [hl, bne_self_eq_false, Bool.false_eq_true, if_false, k _ _ _ Header.str_plus4 (by decide), k _ _ _ Header.str_new4 (by decide),
    k _ _ _ str_index (by decide), k _ _ _ str_prereq (by decide), k _ _ _ str_git (by decide)]
  unfold Cost.hdrTail Cost.hdrUnified Cost.hdrNormal Cost.hdrContext
  rcases hf with hf | hf <;>
    simp [hg, hf, hu, hn, startsWith_oldRangeText, endsWith_oldRangeText, ctxRangeText_old,
      parseContextRange_mid NR oR hoR, hlook]

open Header in
/-- the header loop over `*** old`, `--- new`, the stars line and the old range line of the first hunk -/
theorem headerLoop_context (NR : NumberRoundtrip) (strip : Int) (st : HState) (old new oldt newt : Bytes) (oR : Range)
    (ns : Int) (more : List Line) (fuel : Nat)
    (hold : plainName old) (hnew : plainName new) (hot : oldt ≠ []) (hnt : newt ≠ []) (hoR : RangeOK oR)
    (hlook : ∀ n hk, ctxLookahead (more.length + 1) (mkPar more n) hk = { hk with new := { hk.new with start := ns } })
    (hg : st.isGit = false) (hf : st.patch.format = .unknown ∨ st.patch.format = .context)
    (hlooks : st.thisLooks = .unknown)
    (heof : st.par.s.eof = false) (hbad : st.par.s.bad = false)
    (hrest : st.par.s.rest = ⟨str "*** " ++ old ++ [TAB] ++ oldt, .lf⟩ :: ⟨str "--- " ++ new ++ [TAB] ++ newt, .lf⟩ ::
                               lfLine starsText :: lfLine (oldRangeText oR) :: more) :
    headerLoop strip (fuel + 4) st =
      .ok { st with par := { s := { st.par.s with rest := more }, lineNo := st.par.lineNo + 4 },
                    patch := { st.patch with format := .context, oldPath := stripped old strip, newPath := stripped new strip,
                                             oldTime := oldt, newTime := newt },
                    lines := st.lines + 4, thisLooks := .unknown,
                    hunk := { st.hunk with old := { st.hunk.old with start := oR.start },
                                           new := { st.hunk.new with start := ns } },
                    ltfh := st.lines + 3, foundFirstHunk := true } := by
  obtain ⟨⟨⟨r0, e0, b0⟩, n0⟩, p, tl, li, g, sb, hk, lt⟩ := st
  simp only at hg hf heof hbad hrest hlooks
  subst hg heof hbad hrest hlooks
  have hfl1 := Names.file_line_plain old oldt strip hold.1 hold.2.2 hold.2.1
  have hfl2 := Names.file_line_plain new newt strip hnew.1 hnew.2.2 hnew.2.1
  simp only [hot, hnt, if_false] at hfl1 hfl2
  -- line 1
  rw [show fuel + 4 = (fuel + 3) + 1 from rfl,
    headerLoop_step strip _ _ _ ⟨_, .lf⟩ _ rfl rfl rfl (by simp) true (by
      simp only []
      rw [show str "*** " ++ old ++ [TAB] ++ oldt = str "*** " ++ (old ++ TAB :: oldt) by simp,
        headerStep_star _ _ _ (not_firstBodyLine_of_looks (by simp)) (by simp), hfl1]
      rfl)]
  simp only [if_true]
  -- line 2
  rw [show fuel + 3 = (fuel + 2) + 1 from rfl,
    headerLoop_step strip _ _ _ ⟨_, .lf⟩ _ rfl rfl rfl (by simp) true (by
      simp only []
      rw [show str "--- " ++ new ++ [TAB] ++ newt = str "--- " ++ (new ++ TAB :: newt) by simp,
        headerStep_minus _ _ _ (not_firstBodyLine_of_looks (by simp)), hfl2]
      rfl)]
  simp only [if_true]
  -- line 3
  rw [show fuel + 2 = (fuel + 1) + 1 from rfl,
    headerLoop_step strip _ _ _ (lfLine starsText) _ rfl rfl rfl (by simp [lfLine]) true
      (headerStep_stars _ strip rfl hf rfl)]
  simp only [if_true]
  -- line 4
  rw [headerLoop_step strip _ _ _ (lfLine (oldRangeText oR)) _ rfl rfl rfl (by simp [lfLine]) false
      (headerStep_oldRange NR _ strip oR hoR rfl hf rfl ns (fun hk => hlook _ hk))]
  simp only [Bool.false_eq_true, if_false, stripped]

/-- the operation the header scan infers from the starts of the two ranges of the first hunk -/
def ctxInferredOp (os ns : Int) : Operation :=
  if ns = 0 then .delete else if os = 0 then .add else .change

open Header Inert in
/-- **the header of a context diff (after inert filler) is read back**: format context, the two names (stripped by `-p`)
    and time stamps, the first hunk on the line of stars, the stream left at that line -/
theorem parseHeader_context (NR : NumberRoundtrip) (strip : Int) (par : Parser) (pt : Patch) (filler : List Line)
    (old new oldt newt : Bytes) (oR : Range) (ns : Int) (more : List Line)
    (hin : ∀ l ∈ filler, inertLine l.content = true) (hft : ∀ l ∈ filler, l.newline ≠ .none)
    (hold : plainName old) (hnew : plainName new) (hot : oldt ≠ []) (hnt : newt ≠ []) (hoR : RangeOK oR)
    (hlook : ∀ n hk, ctxLookahead (more.length + 1) (mkPar more n) hk = { hk with new := { hk.new with start := ns } })
    (hf : pt.format = .unknown ∨ pt.format = .context) (hop : pt.operation = .change)
    (heof : par.s.eof = false) (hbad : par.s.bad = false)
    (hrest : par.s.rest = filler ++ ⟨str "*** " ++ old ++ [TAB] ++ oldt, .lf⟩ :: ⟨str "--- " ++ new ++ [TAB] ++ newt, .lf⟩ ::
                               lfLine starsText :: lfLine (oldRangeText oR) :: more) :
    parseHeader par pt strip =
      .ok (true,
           { pt with format := .context, operation := ctxInferredOp oR.start ns, oldPath := stripped old strip,
                     newPath := stripped new strip, oldTime := oldt, newTime := newt },
           { linesTillFirstHunk := filler.length + 3, format := .context },
           { s := { rest := lfLine starsText :: lfLine (oldRangeText oR) :: more, eof := false, bad := false },
             lineNo := par.lineNo + (filler.length + 2) }) := by
  generalize hT : (⟨str "*** " ++ old ++ [TAB] ++ oldt, .lf⟩ :: ⟨str "--- " ++ new ++ [TAB] ++ newt, .lf⟩ ::
                               lfLine starsText :: lfLine (oldRangeText oR) :: more : List Line) = T at hrest
  have hskip := headerLoop_skip strip filler { par := par, patch := pt } (by simpa [inertFor] using hin) hft
    (Or.inr calm_unknown) heof hbad T hrest (more.length + 2 + 4)
  have hloop := headerLoop_context NR strip
    (advance { par := par, patch := pt } T filler.length (if filler = [] then ({ par := par, patch := pt } : HState).thisLooks else .unknown))
    old new oldt newt oR ns more (more.length + 2) hold hnew hot hnt hoR hlook rfl hf
    (by simp only [advance]; split <;> rfl) heof hbad hT.symm
  have hlen : par.s.rest.length + 2 = (more.length + 2 + 4) + filler.length := by
    rw [hrest, ← hT]; simp only [List.length_append, List.length_cons]; omega
  unfold parseHeader
  rw [hlen, hskip, hloop]
  simp only [advance, PStream.clear, PStream.seek, Bool.not_true, Bool.false_eq_true, if_false, hop, if_true]
  have hsk := skipLines_terminated
    (filler ++ [⟨str "*** " ++ old ++ [TAB] ++ oldt, .lf⟩, ⟨str "--- " ++ new ++ [TAB] ++ newt, .lf⟩])
    (lfLine starsText :: lfLine (oldRangeText oR) :: more) { s := { rest := par.s.rest }, lineNo := par.lineNo } rfl rfl
    (by rw [hrest, ← hT]; simp)
    (by
      intro l hl
      rcases List.mem_append.1 hl with hl | hl
      · exact hft l hl
      · simp only [List.mem_cons, List.not_mem_nil, or_false] at hl
        rcases hl with rfl | rfl <;> simp)
  have e : 0 + filler.length + 3 - 1 =
      (filler ++ [(⟨str "*** " ++ old ++ [TAB] ++ oldt, .lf⟩ : Line), ⟨str "--- " ++ new ++ [TAB] ++ newt, .lf⟩]).length := by
    simp only [List.length_append, List.length_cons, List.length_nil]; omega
  rw [e, hsk]
  simp only [List.length_append, List.length_cons, List.length_nil, Nat.zero_add, ctxInferredOp, Bool.not_false, true_or,
    and_true]
  split
  · rfl
  · split <;> rfl

/-! ### the text of a context diff -/

/-- the text of one hunk of a context diff: the line of stars, then the hunk as `write_hunk_as_context` writes it -/
def ctxHunkText (h : Hunk) : Bytes := starsLine ++ (match writeHunkContext h with | .ok b => b | .error _ => [])

/-- the two header lines of a context diff followed by its hunks, as bytes -/
def ctxDiffText (old new oldt newt : Bytes) (hs : List Hunk) : Bytes :=
  str "*** " ++ old ++ [TAB] ++ oldt ++ [NL] ++ (str "--- " ++ new ++ [TAB] ++ newt ++ [NL] ++ hs.flatMap ctxHunkText)

/-- stars + hunk for every hunk = stars + the body of a context reject file (whose first separator is part of its header) -/
theorem flatMap_ctxHunkText : ∀ (hs : List Hunk) (body : Bytes), hs ≠ [] → ctxRejectBody hs = .ok body →
    hs.flatMap ctxHunkText = starsLine ++ body := by
  intro hs
  induction hs with
  | nil => intro _ h; exact absurd rfl h
  | cons h hs ih =>
    intro body _ hb
    rw [ctxRejectBody] at hb
    split at hb
    · rename_i b rest hb1 hb2
      cases hb
      rw [List.flatMap_cons, ctxHunkText, hb1]
      cases hs with
      | nil =>
        simp only [ctxRejectBody, Except.ok.injEq] at hb2
        subst hb2
        simp
      | cons h2 hs =>
        rw [ih rest (by simp) hb2]
        simp
    · cases hb
    · cases hb

theorem oldOps_nil : OldOps [] := fun _ hl => by cases hl

/-- the text of one written hunk, with its shape: range line, old half (only ' ', '-', '!' lines), range line, new half -/
theorem hunk_shape (NR : NumberRoundtrip) (h : Hunk) (hw : Unified.writableCR h = true) (b : Bytes)
    (hb : writeHunkContext h = .ok b) :
    ∃ O N, OldOps O ∧ b = unlines (halvesTexts O h.old N h.new) ∧ HunkRT (halvesTexts O h.old N h.new) h := by
  obtain ⟨ts, hbt, hrt⟩ := hunk_roundtrip NR h hw b hb
  obtain ⟨hops, hoc, hnc, hne, hplain, hnl, hos, hns, hob, hnb⟩ := writableCR_spec h hw
  obtain ⟨s, hi, _, hbs⟩ := writeHunkContext_texts h hops b hb
  have hoR : RangeOK h.old := ⟨hos, by omega, hob⟩
  have hnR : RangeOK h.new := ⟨hns, by omega, hnb⟩
  have hOp : ∀ l ∈ s.oldLines, HalfOp l.op ∧ Unified.okLine l.line = true := by
    intro l hl
    refine ⟨halfOp_of_oldOps hi.oldOps l hl, ?_⟩
    have : l.line ∈ oldOf h.lines := by rw [← hi.oldLine]; exact List.mem_map.mpr ⟨l, hl, rfl⟩
    obtain ⟨pl, hpl, he⟩ := mem_oldOf_line this
    rw [← he]; exact hplain pl hpl
  have hNp : ∀ l ∈ s.newLines, HalfOp l.op ∧ Unified.okLine l.line = true := by
    intro l hl
    refine ⟨halfOp_of_newOps hi.newOps l hl, ?_⟩
    have : l.line ∈ newOf h.lines := by rw [← hi.newLine]; exact List.mem_map.mpr ⟨l, hl, rfl⟩
    obtain ⟨pl, hpl, he⟩ := mem_newOf_line this
    rw [← he]; exact hplain pl hpl
  have key : ∀ O N, (∀ l ∈ O, HalfOp l.op ∧ Unified.okLine l.line = true) →
      (∀ l ∈ N, HalfOp l.op ∧ Unified.okLine l.line = true) → b = unlines (halvesTexts O h.old N h.new) →
      ts = halvesTexts O h.old N h.new := by
    intro O N hO hN hbb
    have h1 := splitLines_unlines ts hrt.1
    have h2 := splitLines_unlines _ (plain_halvesTexts O N h.old h.new hoR hnR hO hN)
    rw [← h1, ← hbt, hbb, h2]
  by_cases hIns : s.allIns = true
  · rw [if_pos hIns] at hbs
    have := key [] s.newLines (by simp) hNp hbs
    exact ⟨[], s.newLines, oldOps_nil, hbs, this ▸ hrt⟩
  · rw [if_neg hIns] at hbs
    by_cases hDel : s.allDel = true
    · rw [if_pos hDel] at hbs
      have := key s.oldLines [] hOp (by simp) hbs
      exact ⟨s.oldLines, [], hi.oldOps, hbs, this ▸ hrt⟩
    · rw [if_neg hDel] at hbs
      have := key s.oldLines s.newLines hOp hNp hbs
      exact ⟨s.oldLines, s.newLines, hi.oldOps, hbs, this ▸ hrt⟩

/-- `Context.ctxRejectBody_texts` with the shape of the first hunk's text -/
theorem ctxRejectBody_shape (NR : NumberRoundtrip) (h : Hunk) (hs : List Hunk)
    (hw : ∀ x ∈ h :: hs, Unified.writableCR x = true) (bytes : Bytes) (hb : ctxRejectBody (h :: hs) = .ok bytes) :
    ∃ O N tss, OldOps O ∧ Forall2 HunkRT (halvesTexts O h.old N h.new :: tss) (h :: hs) ∧
      bytes = unlines (bodyTexts (halvesTexts O h.old N h.new :: tss)) := by
  rw [ctxRejectBody] at hb
  split at hb
  · rename_i b rest hb1 hb2
    cases hb
    obtain ⟨O, N, hO, rfl, hrt⟩ := hunk_shape NR h (hw h (by simp)) b hb1
    obtain ⟨tss, hf, rfl⟩ := ctxRejectBody_texts NR hs (fun h' hh' => hw h' (by simp [hh'])) rest hb2
    refine ⟨O, N, tss, hO, ⟨hrt, hf⟩, ?_⟩
    cases hs with
    | nil =>
      cases tss with
      | nil => simp [bodyTexts]
      | cons _ _ => exact hf.elim
    | cons h2 hs =>
      cases tss with
      | nil => exact hf.elim
      | cons ts2 tss =>
        simp only [List.isEmpty_cons, Bool.false_eq_true, if_false, bodyTexts]
        rw [unlines_append, unlines_cons, starsLine_eq]
        simp [lfLine, lineEnd]
  · cases hb
  · cases hb

theorem bodyTexts_halves (O N : List PatchLine) (oR nR : Range) (tss : List (List Line)) :
    ∃ rest, bodyTexts (halvesTexts O oR N nR :: tss) =
      lfLine (oldRangeText oR) :: (halfLines O ++ lfLine (newRangeText nR) :: rest) := by
  cases tss with
  | nil => exact ⟨halfTexts N, by simp [bodyTexts, halvesTexts, halfLines]⟩
  | cons ts' tss =>
    exact ⟨halfTexts N ++ lfLine starsText :: bodyTexts (ts' :: tss), by simp [bodyTexts, halvesTexts, halfLines]⟩

theorem bodyTexts_length : ∀ (tss : List (List Line)), (∀ ts ∈ tss, ts ≠ []) → tss.length ≤ (bodyTexts tss).length
  | [], _ => by simp
  | [ts], h => by
    have : ts ≠ [] := h ts (by simp)
    have := List.length_pos_iff.mpr this
    simp only [bodyTexts, List.length_cons, List.length_nil]; omega
  | ts :: ts' :: rest, h => by
    have ih := bodyTexts_length (ts' :: rest) (fun x hx => h x (by simp [hx]))
    simp only [bodyTexts, List.length_append, List.length_cons] at ih ⊢
    omega

theorem hunkRT_ne_nil {tss : List (List Line)} {hs : List Hunk} (hf : Forall2 HunkRT tss hs) : ∀ ts ∈ tss, ts ≠ [] := by
  intro ts hts
  obtain ⟨i, hi, rfl⟩ := List.getElem_of_mem hts
  obtain ⟨r, rest, he⟩ := (hf.get i hi (by rw [← hf.length_eq]; exact hi)).2.1
  rw [he]; simp

/-- the lines of a context diff: filler, the two header lines, and for every hunk the line of stars and the hunk's lines -/
def ctxLines (filler : List Line) (old new oldt newt : Bytes) (tss : List (List Line)) : List Line :=
  filler ++ ⟨str "*** " ++ old ++ [TAB] ++ oldt, .lf⟩ :: ⟨str "--- " ++ new ++ [TAB] ++ newt, .lf⟩ ::
    lfLine starsText :: bodyTexts tss

theorem splitLines_ctxDiffText (old new oldt newt : Bytes) (hs : List Hunk) (tss : List (List Line)) (body : Bytes)
    (ho : NL ∉ old) (hn : NL ∉ new) (hot : NL ∉ oldt) (hnt : NL ∉ newt) (hote : oldt ≠ []) (hnte : newt ≠ [])
    (hoc : oldt.getLast? ≠ some CR) (hnc : newt.getLast? ≠ some CR) (hne : hs ≠ [])
    (hb : ctxRejectBody hs = .ok body) (hrt : Forall2 HunkRT tss hs) (hbt : body = unlines (bodyTexts tss)) :
    splitLines (ctxDiffText old new oldt newt hs) = ctxLines [] old new oldt newt tss := by
  have hplain : ∀ t ∈ lfLine starsText :: bodyTexts tss, PlainL t := by
    intro t ht
    rcases List.mem_cons.mp ht with rfl | ht
    · exact plainL_lf plain_starsText
    · refine plain_bodyTexts tss ?_ t ht
      intro ts hts
      obtain ⟨i, hi, rfl⟩ := List.getElem_of_mem hts
      exact (hrt.get i hi (by rw [← hrt.length_eq]; exact hi)).1
  have htext : hs.flatMap ctxHunkText = unlines (lfLine starsText :: bodyTexts tss) := by
    rw [flatMap_ctxHunkText hs body hne hb, hbt, unlines_cons, starsLine_eq]
    simp [lfLine, lineEnd]
  unfold ctxDiffText ctxLines
  rw [Run.headerLine_split "*** " old oldt _ (by rw [Header.str_old4]; decide) ho hot hote hoc,
    Run.headerLine_split "--- " new newt _ (by rw [Header.str_new4]; decide) hn hnt hnte hnc,
    htext, splitLines_unlines _ hplain]
  rfl

/-! ### header scan + body parse of a whole context diff -/

theorem parse_ctxLines (strip : Int) (fmt : Format) (hfmt : fmt = .unknown ∨ fmt = .context)
    (filler : List Line) (old new oldt newt : Bytes) (h : Hunk) (hs : List Hunk) (O N : List PatchLine)
    (tss : List (List Line)) (lineNo : Nat)
    (hin : ∀ l ∈ filler, inertLine l.content = true) (hft : ∀ l ∈ filler, l.newline ≠ .none)
    (hold : Header.plainName old) (hnew : Header.plainName new) (hot : oldt ≠ []) (hnt : newt ≠ [])
    (hw : h.writable = true) (hchg : Run.changeStart (h :: hs) = true)
    (hO : OldOps O) (hrt : Forall2 HunkRT (halvesTexts O h.old N h.new :: tss) (h :: hs)) :
    ∃ patch0 info par1 par2 hs',
      parseHeader { s := { rest := ctxLines filler old new oldt newt (halvesTexts O h.old N h.new :: tss) }, lineNo := lineNo }
        { format := fmt } strip = .ok (true, patch0, info, par1) ∧
      patch0.format = .context ∧ patch0.operation = .change ∧ patch0.prerequisite = [] ∧ patch0.hunks = [] ∧
      patch0.newMode = 0 ∧ patch0.oldPath = Header.stripped old strip ∧
      parseBody par1 patch0 = .ok ({ patch0 with hunks := hs' }, par2) ∧ par2.s.eof = true ∧
      Forall2 sameSides hs' (h :: hs) ∧ ∀ x ∈ hs', GoodOps x := by
  obtain ⟨_, hoc, hnc, _, _, _, hos, hns, hob, hnb⟩ := Context.writable_spec h hw
  have hoR : RangeOK h.old := ⟨hos, by omega, hob⟩
  have hnR : RangeOK h.new := ⟨hns, by omega, hnb⟩
  have NR : NumberRoundtrip := Unified.number_roundtrip
  obtain ⟨rest, hbt⟩ := bodyTexts_halves O N h.old h.new tss
  have hchg' : h.old.start ≠ 0 ∧ h.new.start ≠ 0 := by simpa [Run.changeStart] using hchg
  have hlook : ∀ n hk,
      ctxLookahead ((halfLines O ++ lfLine (newRangeText h.new) :: rest).length + 1)
        (mkPar (halfLines O ++ lfLine (newRangeText h.new) :: rest) n) hk
        = { hk with new := { hk.new with start := h.new.start } } :=
    fun n hk => lookahead_halves NR O hO h.new hnR rest _ n hk (by simp only [List.length_append, List.length_cons]; omega)
  have hp := parseHeader_context NR strip
    { s := { rest := ctxLines filler old new oldt newt (halvesTexts O h.old N h.new :: tss) }, lineNo := lineNo }
    { format := fmt } filler old new oldt newt h.old h.new.start (halfLines O ++ lfLine (newRangeText h.new) :: rest)
    hin hft hold hnew hot hnt hoR hlook hfmt rfl rfl rfl (by simp only [ctxLines]; rw [hbt])
  have hinf : ctxInferredOp h.old.start h.new.start = .change := by
    unfold ctxInferredOp; rw [if_neg hchg'.2, if_neg hchg'.1]
  have hlen : (h :: hs).length < ([lfLine starsText] ++ bodyTexts (halvesTexts O h.old N h.new :: tss)).length + 2 := by
    have := bodyTexts_length _ (hunkRT_ne_nil hrt)
    rw [hrt.length_eq] at this
    simp only [List.length_append] at this ⊢
    omega
  obtain ⟨hs', par', hb, hfs, hr⟩ := parseBody_rt _ (h :: hs) hrt (by simp) _ [lfLine starsText]
    (lineNo + (filler.length + 2)) [] hlen (.inr rfl)
  have heof := parseContextBody_eof _ _ _ _ _ (by omega) rfl hb hr
  have hgood := parseContextBody_goodOps _ _ _ _ _ (by simp) hb
  refine ⟨_, _, _, par', hs', hp, rfl, hinf, rfl, rfl, rfl, rfl, ?_, heof, hfs, hgood⟩
  rw [← hbt]
  rw [List.nil_append] at hb
  cases hs' with
  | nil => exact hfs.elim
  | cons h' hs'' =>
    have hns' : h'.new.start ≠ 0 := by rw [hfs.1.2.2.2]; exact hchg'.2
    simp only [parseBody]
    have hb' : parseContextBody ((lfLine starsText :: bodyTexts (halvesTexts O h.old N h.new :: tss)).length + 2)
        { s := { rest := lfLine starsText :: bodyTexts (halvesTexts O h.old N h.new :: tss), eof := false, bad := false },
          lineNo := lineNo + (filler.length + 2) } [] = .ok (h' :: hs'', par') := hb
    rw [hb']
    simp [Except.map, hns']

end PatchModel.RunC
