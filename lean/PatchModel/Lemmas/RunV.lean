/-
  Lemmas/RunV — what the end-to-end theorems about a READ-ONLY target (Props/C17Run), about `-D SYM` (Props/C20Run) and about
  running an applied patch again (Props/C06Run) need on top of Lemmas/Section, Lemmas/Run, Lemmas/RunR and Lemmas/RunB:

  * the permission check on a read-only regular file, closed form (`run_fixPermissions_readonly`, `roEvents`); `make_writable`
    (`run_makeWritable_fix`); `write_patched_result_to_file` for a read-only target (`run_writePatchedResult_readonly`,
    `roResultOps`: `chmod (m ||| writeMask)`, `creat`, `write`, `chmod m`; with a backup `run_writePatchedResult_readonly_backup`,
    `roBackupOps`: `rename`, `creat`, `write`, `chmod m` — no `chmod` before, the backup keeps the mode); `refuse_to_patch`, closed form
    (`run_refuseToPatch_new`), `allRejectBytes` for unified rejects (`allRejectBytes_unified`);
  * `-D`: `GoodW`, `SymOk`, `defineLoop_good`, `writeDefineHunk_good` (what `write_define_hunk` writes is LF-plain when the file,
    the patch and the four directive lines are), `finishHunk_define_full`, `applyRest_define_full`, `applyPatch_define_full`
    (`C20.C20_merge` with the whole verdict of the applier and with "every line written is LF-plain");
  * `-N` / `-t`: `finishHunk_skip_full`, `applyRest_skip_full` (the skipped hunks go unshifted to the unified rejects), `C06_N_full`,
    `C06_t_full` (`C06.C06_N` / `C06.C06_t` with the reject bytes, the failure count, "perfect" and the patch handed back);
  * `VSection` (= `RunB.BaseSection` without `writable`; the patch the applier hands back, `patch3`, need not be the parsed one),
    tactic `v_run [extra simp lemmas]`, `processSection_readonly` (a clean section over a read-only target),
    `processSection_refused` (`--read-only=fail`), `processSection_vclean` (a clean section over a writable target, for an
    applier's verdict given separately — used for `-D` and for the "assume -R" branch), `processSection_vrejected`
    (`RunB.processSection_rejected` for a `VSection`).
-/
import PatchModel.Lemmas.RunB
import PatchModel.Lemmas.RunR
import PatchModel.Props.C20
import PatchModel.Props.C06
namespace PatchModel.RunV
open PatchModel PatchModel.DriverFacts PatchModel.Section PatchModel.RunB

/-! ### the permission check on a read-only file -/

/-- what `fix_permissions_if_needed` prints for a read-only target -/
def roEvents (o : Options) : List DEv := if o.readOnly = .ignore then [] else [.readOnly]

/-- `fix_permissions_if_needed` on a regular file without any write bit: the mode is remembered, a fix is due; the warning is
    printed unless `--read-only=ignore`; with `--read-only=fail` the failure is reported.  No operation. -/
theorem run_fixPermissions_readonly (o : Options) {s : DState} {p b : Bytes} {m : Nat} (hcwd : s.cwd = [])
    (h : s.fs.lookup p = some (.file b m)) (hro : m &&& writeMask = 0) :
    (fixPermissionsIfNeeded o p).run s =
      (.ok { oldPerms := some m, needFix := true, hadFailure := (o.readOnly == .fail) },
        { s with out := s.out ++ roEvents o }) := by
  have hst : s.fs.stat (absPath s p) = some (.file b m) := by rw [absPath_nil hcwd]; exact Fs.stat_of_file h
  unfold fixPermissionsIfNeeded
  rw [run_bind, Section.run_fsGetPerms, hst]
  simp only [Modes.needFix_true hro, if_true, roEvents]
  cases hr : o.readOnly
  · rfl
  · simp only [↓reduceIte, List.append_nil]
    rfl
  · rfl

/-- `make_writable` when a fix is due and the file is there: one `chmod` that adds the write bit of the owner -/
theorem run_makeWritable_fix {s : DState} {p b : Bytes} {m0 : Nat} (perm : PermResult) (m : Nat)
    (hnf : perm.needFix = true) (hperm : perm.oldPerms = some m) (hcwd : s.cwd = [])
    (h : s.fs.lookup p = some (.file b m0)) (hf : s.faultAt = none) :
    (makeWritable perm p).run s =
      (.ok (), { s with fs := s.fs.set p (.file b (m ||| writeMask)), trace := s.trace ++ [.chmod p (m ||| writeMask)],
                        opCount := s.opCount + 1 }) := by
  unfold makeWritable
  rw [run_bind, run_fsExists_file hcwd h]
  simp only [hnf, hperm, Bool.and_self, if_true]
  have := Modes.run_opChmod_file (p := p) (s := s) (m ||| writeMask) (by rw [absPath_nil hcwd]; exact h) hf
  rw [absPath_nil hcwd] at this
  exact this

/-- `make_writable` when the file is not there (any more: it has just been moved to its backup name): nothing happens -/
theorem run_makeWritable_gone {s : DState} {p : Bytes} (perm : PermResult) (hcwd : s.cwd = [])
    (h : s.fs.lookup p = none) : (makeWritable perm p).run s = (.ok (), s) := by
  have hst : s.fs.stat p = none := by unfold Fs.stat; rw [h]
  unfold makeWritable
  rw [run_bind, DriverFacts.run_fsExists, absPath_nil hcwd, hst]
  simp only [Option.isSome_none, Bool.and_false, Bool.false_eq_true, if_false]
  rfl

/-- the operations of the immediate write over a read-only target -/
def roResultOps (p content : Bytes) (m : Nat) : List FsOp :=
  .chmod p (m ||| writeMask) :: (writeOps p content ++ [.chmod p m])

/-- `write_patched_result_to_file` for a non-git "change" patch without a mode line over an existing READ-ONLY regular file, no
    backup: `chmod` to `m ||| writeMask` right before the write, new content, `chmod` back to the remembered mode -/
theorem run_writePatchedResult_readonly {s : DState} {p b : Bytes} {m0 : Nat} (o : Options) (pt : Patch) (content : Bytes) (m : Nat)
    (perm : PermResult) (hfmt : (pt.format == .git) = false) (hop : (pt.operation == .add) = false)
    (hnm : pt.newMode = 0) (hperm : perm.oldPerms = some m) (hnf : perm.needFix = true) (hcwd : s.cwd = [])
    (h : s.fs.lookup p = some (.file b m0)) (hroot : s.fs.isRoot = true)
    (hdir : s.fs.dirExists (parentOf p) = true) (hf : s.faultAt = none) :
    (writePatchedResult o pt p perm false content).run s =
      (.ok (), { s with fs := s.fs.set p (.file content m), trace := s.trace ++ roResultOps p content m,
                        opCount := s.opCount + (roResultOps p content m).length }) := by
  have hpp : parentOf p ≠ p ∨ p = [] := by
    by_cases hp : p = []
    · exact Or.inr hp
    · exact Or.inl (fun e => by have := parentOf_length_lt hp; rw [e] at this; omega)
  have hdir' : ∀ n, (s.fs.set p n).dirExists (parentOf p) = true := by
    intro n
    rcases hpp with hne | he
    · rw [Fs.dirExists_set_ne _ _ _ _ hne]; exact hdir
    · subst he; rfl
  unfold writePatchedResult
  simp only [hfmt, hop, Bool.false_eq_true, if_false, Bool.false_and, hnm]
  rw [run_bind, run_makeWritable_fix perm m hnf hperm hcwd h hf]
  simp only []
  rw [run_bind, run_writeFile_existing content (by exact hcwd) (Fs.lookup_set_self _ _ _) (by exact hroot) (hdir' _)
    (by exact hf)]
  simp only []
  rw [run_permissionCallback_old m perm hperm (by exact hcwd) (Fs.lookup_set_self _ _ _) (by exact hf)]
  simp [roResultOps, Fs.set_set, List.append_assoc, Nat.add_assoc, Nat.add_comm, Nat.add_left_comm]

/-- setting a node and erasing it again: as erasing it -/
theorem Fs.erase_set (fs : Fs) (p : Bytes) (n : Node) : (fs.set p n).erase p = fs.erase p := by
  unfold Fs.set Fs.erase
  simp only [List.filter_append, List.filter_filter, Bool.and_self]
  simp

theorem dirsThere_set {fs : Fs} {q p : Bytes} (n : Node) (h : DirsThere fs q) : DirsThere (fs.set p n) q := by
  intro d hd
  by_cases e : d = p
  · rw [e, Fs.lookup_set_self]; rfl
  · rw [Fs.lookup_set_ne _ _ _ _ e]; exact h d hd

/-- a directory that exists is still one after a regular file's node has been replaced -/
theorem dirExists_set_file {fs : Fs} {p d b : Bytes} {m0 : Nat} (n : Node) (h : fs.lookup p = some (.file b m0))
    (hd : fs.dirExists d = true) : (fs.set p n).dirExists d = true := by
  by_cases e : d = p
  · subst e
    unfold Fs.dirExists at hd
    rw [h] at hd
    simp only [Bool.or_false] at hd
    unfold Fs.dirExists; rw [hd]; rfl
  · rw [Fs.dirExists_set_ne _ _ _ _ e]; exact hd

/-- the operations of the immediate write over a read-only target with a backup: as over a writable one (`RunB.backupOps`) — there
    is no `chmod` before the write, since the file is gone (moved to its backup name) when `make_writable` looks for it -/
def roBackupOps (o : Options) (p content : Bytes) (m : Nat) : List FsOp :=
  .rename p (backupName o p) :: resultOps p content m

theorem roBackupOps_eq (o : Options) (p content : Bytes) (m : Nat) : roBackupOps o p content m = backupOps o p content m := rfl

/-- `write_patched_result_to_file` with a backup due over an existing READ-ONLY regular file: the file is moved to its backup name
    AS IT IS — the backup keeps the mode `m0` of the file —; nothing is left to be made writable; the target is re-created, written,
    and set to the remembered mode -/
theorem run_writePatchedResult_readonly_backup {s : DState} {p b : Bytes} {m0 : Nat} (o : Options) (pt : Patch) (content : Bytes)
    (m : Nat) (perm : PermResult) (hfmt : (pt.format == .git) = false) (hop : (pt.operation == .add) = false)
    (hnm : pt.newMode = 0) (hperm : perm.oldPerms = some m) (hcwd : s.cwd = [])
    (h : s.fs.lookup p = some (.file b m0)) (hpne : p ≠ [])
    (hdir : s.fs.dirExists (parentOf p) = true)
    (hnot : s.backedUp.contains (backupName o p) = false)
    (hdirs : DirsThere s.fs (backupName o p)) (hbdir : s.fs.dirExists (parentOf (backupName o p)) = true)
    (hnd : NotDir s.fs (backupName o p)) (hf : s.faultAt = none) :
    (writePatchedResult o pt p perm true content).run s =
      (.ok (), { s with backedUp := s.backedUp ++ [backupName o p],
                        fs := ((s.fs.erase p).set (backupName o p) (.file b m0)).set p (.file content m),
                        trace := s.trace ++ roBackupOps o p content m,
                        opCount := s.opCount + (dirPrefixes (backupName o p)).length + (roBackupOps o p content m).length }) := by
  have hne : p ≠ backupName o p := fun e => backupName_ne o p e.symm
  have hgone : ((s.fs.erase p).set (backupName o p) (.file b m0)).lookup p = none := by
    rw [Fs.lookup_set_ne _ _ _ _ hne, Fs.lookup_erase_self]
  unfold writePatchedResult
  simp only [hfmt, hop, Bool.false_eq_true, if_false, Bool.false_and, hnm, if_true]
  rw [run_bind, run_makeBackupFor_file o hcwd h hnot hdirs hbdir hnd hf]
  simp only []
  rw [run_bind, run_makeWritable_gone perm (by exact hcwd) (by exact hgone)]
  simp only []
  rw [run_bind, run_writeFile_new content (by exact hcwd) (by exact hgone)
    (by show Fs.dirExists (Fs.set _ _ _) _ = true
        rw [Fs.dirExists_set_ne _ _ _ _ (parentOf_ne_backupName o hpne),
          Fs.dirExists_erase_ne _ _ _ (fun e => by have := parentOf_length_lt hpne; rw [e] at this; omega)]
        exact hdir)
    (by exact hf)]
  simp only []
  rw [run_permissionCallback_old m perm hperm (by exact hcwd) (Fs.lookup_set_self _ _ _) (by exact hf)]
  simp [roBackupOps, resultOps, Fs.set_set, List.append_assoc, Nat.add_assoc, Nat.add_comm, Nat.add_left_comm]

/-! ### `refuse_to_patch` -/

/-- all hunks of a patch whose rejects are written as unified: the header, then the hunks as `write_hunk_as_unified` writes them -/
theorem allRejectBytes_unified (p : Patch) (fmt : RejectFormat) (hu : rejectAsUnified fmt p.format = true) :
    ∀ (hs : List Hunk) (n : Nat),
      allRejectBytes p fmt n hs = .ok ((if n = 0 ∧ hs ≠ [] then writeHeaderUnified p else []) ++ hs.flatMap writeHunkUnified)
  | [], n => by simp [allRejectBytes]
  | h :: hs, n => by
    rw [allRejectBytes, writeReject, if_pos hu]
    simp only []
    rw [allRejectBytes_unified p fmt hu hs (n + 1)]
    by_cases hn : n = 0 <;> simp [hn, Except.map]

/-- `refuse_to_patch`, real run, the patch has hunks, the rejects go to a path where nothing is and which has not been written
    in this run: `refusing`, `failed n n` with the name, a new file (mode `0666 & ~umask`) with the bytes -/
theorem run_refuseToPatch_new {s : DState} (o : Options) (p : Bytes) (pt : Patch) (b : Bytes)
    (hreal : o.dryRun = false) (hne : pt.hunks ≠ []) (hrf : o.rejectFile = [])
    (hb : allRejectBytes pt o.rejectFormat 0 pt.hunks = .ok b)
    (hcwd : s.cwd = []) (hnot : s.rejWritten.contains (p ++ str ".rej") = false)
    (hfree : s.fs.lookup (p ++ str ".rej") = none) (hdirs : DirsThere s.fs (p ++ str ".rej"))
    (hdir : s.fs.dirExists (parentOf (p ++ str ".rej")) = true) (hf : s.faultAt = none) :
    (refuseToPatch o p pt).run s =
      (.ok (), { s with out := s.out ++ [.refusing] ++ [.failed pt.hunks.length pt.hunks.length true (some (p ++ str ".rej"))],
                        rejWritten := s.rejWritten ++ [p ++ str ".rej"],
                        fs := s.fs.set (p ++ str ".rej") (.file b (0o666 - (0o666 &&& s.fs.umask))),
                        trace := s.trace ++ writeOps (p ++ str ".rej") b,
                        opCount := s.opCount + (dirPrefixes (p ++ str ".rej")).length + (writeOps (p ++ str ".rej") b).length }) := by
  have hrne : p ++ str ".rej" ≠ [] := by rw [str_rej]; simp
  have hhe : pt.hunks.isEmpty = false := by
    cases hh : pt.hunks with
    | nil => exact absurd hh hne
    | cons _ _ => rfl
  unfold refuseToPatch
  rw [run_bind, run_emit]
  simp only [hreal, hhe, Bool.not_false, Bool.and_self, if_true, rejectPath_default o p hrf, hb]
  rw [run_bind, run_emit]
  simp only []
  rw [run_bind, run_ensureParentDirs_there hrne (by exact hcwd) (by exact hdirs) (by exact hf)]
  simp only []
  have hw := run_writeRejects_new o (s := { s with
      out := s.out ++ [DEv.refusing] ++ [DEv.failed pt.hunks.length pt.hunks.length true (some (p ++ str ".rej"))]
      opCount := s.opCount + (dirPrefixes (p ++ str ".rej")).length }) (rej := p ++ str ".rej") b hcwd hnot hfree hdir hf
  unfold writeRejects at hw
  rw [hw]

/-! ### one section, the mode of the target and the applier's verdict left open -/

/-- the part of a section up to the body parse: what a REFUSED section needs (the applier is not called) -/
structure HeadSection (o : Options) (fmt : Format) (s : DState) (p bytes : Bytes) (m : Nat)
    (patch0 patch2 : Patch) (info : HeaderInfo) (par1 par2 : Parser) : Prop where
  operand : o.fileToPatch = p
  noOut : o.outFile = []
  pathNe : p ≠ []
  cwd : s.cwd = []
  hdr : parseHeader s.par { format := fmt } o.strip = .ok (true, patch0, info, par1)
  fmt : patch0.format = .unified ∨ patch0.format = .context ∨ patch0.format = .normal
  op : patch0.operation = .change
  body : parseBody par1 patch0 = .ok (patch2, par2)
  file : s.fs.lookup p = some (.file bytes m)
  noFault : s.faultAt = none

/-- `RunB.BaseSection` without `writable`, and with the patch which the applier hands back (`patch3`) not tied to the parsed one
    (`patch2`), as in `RunR.ChangeSection` -/
structure VSection (o : Options) (fmt : Format) (s : DState) (p bytes : Bytes) (m : Nat)
    (patch0 patch2 patch3 : Patch) (info : HeaderInfo) (par1 par2 : Parser) (r : ApplyResult) : Prop where
  operand : o.fileToPatch = p
  noOut : o.outFile = []
  pathNe : p ≠ []
  cwd : s.cwd = []
  hdr : parseHeader s.par { format := fmt } o.strip = .ok (true, patch0, info, par1)
  fmt : patch0.format = .unified ∨ patch0.format = .context ∨ patch0.format = .normal
  op : patch0.operation = .change
  pre : patch0.prerequisite = []
  body : parseBody par1 patch0 = .ok (patch2, par2)
  file : s.fs.lookup p = some (.file bytes m)
  root : s.fs.isRoot = true
  noFault : s.faultAt = none
  apply : applyPatch (splitLines bytes) patch2 (applyOptsOf o)
      (Option.map (fun l => List.map (fun a => !List.isEmpty a && List.head? a != some 110) l) s.tty) = .ok r
  ttyLeft : r.tty = Option.map (fun l => List.map (fun a => !List.isEmpty a && List.head? a != some 110) l) s.tty
  patch : r.patch = patch3
  fmt3 : patch3.format = patch0.format
  op3 : patch3.operation = .change
  newMode3 : patch3.newMode = 0

/-- a `BaseSection` is a `VSection` whose applier hands the parsed patch back -/
theorem VSection.of_base {o : Options} {fmt : Format} {s : DState} {p bytes : Bytes} {m : Nat}
    {patch0 patch2 : Patch} {info : HeaderInfo} {par1 par2 : Parser} {r : ApplyResult}
    (H : BaseSection o fmt s p bytes m patch0 patch2 info par1 par2 r) :
    VSection o fmt s p bytes m patch0 patch2 patch2 info par1 par2 r :=
  { operand := H.operand, noOut := H.noOut, pathNe := H.pathNe, cwd := H.cwd, hdr := H.hdr, fmt := H.fmt, op := H.op,
    pre := H.pre, body := H.body, file := H.file, root := H.root, noFault := H.noFault, apply := H.apply,
    ttyLeft := H.ttyLeft, patch := H.patch, fmt3 := H.fmt2, op3 := H.op2, newMode3 := H.newMode2 }

theorem VSection.head {o : Options} {fmt : Format} {s : DState} {p bytes : Bytes} {m : Nat}
    {patch0 patch2 patch3 : Patch} {info : HeaderInfo} {par1 par2 : Parser} {r : ApplyResult}
    (H : VSection o fmt s p bytes m patch0 patch2 patch3 info par1 par2 r) :
    HeadSection o fmt s p bytes m patch0 patch2 info par1 par2 :=
  { operand := H.operand, noOut := H.noOut, pathNe := H.pathNe, cwd := H.cwd, hdr := H.hdr, fmt := H.fmt, op := H.op,
    body := H.body, file := H.file, noFault := H.noFault }

section
variable {o : Options} {fmt : Format} {s : DState} {p bytes : Bytes} {m : Nat}
  {patch0 patch2 patch3 : Patch} {info : HeaderInfo} {par1 par2 : Parser} {r : ApplyResult}

/-- the symbolic run of `processSection` up to a refusal, for `H : HeadSection …` -/
syntax "h_run " "[" Lean.Parser.Tactic.simpLemma,* "]" : tactic
set_option hygiene false in
macro_rules | `(tactic| h_run [$ls,*]) => `(tactic| (
  have hfu : (patch0.format == Format.unknown) = false := by
    rcases H.fmt with h | h | h <;> rw [h] <;> rfl
  have hob : (patch0.operation == Operation.binary) = false := by rw [H.op]; rfl
  have hor : (patch0.operation == Operation.rename) = false := by rw [H.op]; rfl
  have hoc : (patch0.operation == Operation.copy) = false := by rw [H.op]; rfl
  have hpe : List.isEmpty p = false := by
    cases p with
    | nil => exact absurd rfl H.pathNe
    | cons _ _ => rfl
  have hout : outputPath o patch0 p = p := by
    unfold outputPath; simp [H.noOut, hor, hoc]
  unfold processSection
  simp only [↓run_bind, ↓run_get, ↓run_liftE, ↓run_modify, ↓run_pure, ↓run_emit,
    H.hdr, hfu, hob, H.operand, hpe, hout, hor,
    Bool.false_eq_true, ↓reduceIte, Bool.false_and, Bool.and_false, Bool.not_true, Bool.not_false,
    Bool.or_false, Bool.false_or, Bool.and_true, Bool.true_and, Bool.true_or, Bool.or_true,
    run_createTemp, H.noFault, H.cwd,
    run_fsExists_file (b := bytes) (m := m), run_fsIsRegular_file (b := bytes) (m := m),
    run_fsIsSymlink_file (b := bytes) (m := m), H.file,
    ne_eq, not_false_eq_true, absPath_nil,
    run_parseBodyM_true (pt' := patch2) (par' := par2), H.body,
    bne_self_eq_false, beq_self_eq_true, $ls,*]))

/-- the symbolic run of `processSection` (as `RunB.base_run`, for `H : VSection …`); the closed form of the permission check, the
    verdict of the applier and the facts about the options that matter for the run at hand go into the list -/
syntax "v_run " "[" Lean.Parser.Tactic.simpLemma,* "]" : tactic
set_option hygiene false in
macro_rules | `(tactic| v_run [$ls,*]) => `(tactic| (
  have hfu : (patch0.format == Format.unknown) = false := by
    rcases H.fmt with h | h | h <;> rw [h] <;> rfl
  have hfg : (patch3.format == Format.git) = false := by
    rw [H.fmt3]; rcases H.fmt with h | h | h <;> rw [h] <;> rfl
  have hob : (patch0.operation == Operation.binary) = false := by rw [H.op]; rfl
  have hor : (patch0.operation == Operation.rename) = false := by rw [H.op]; rfl
  have hoc : (patch0.operation == Operation.copy) = false := by rw [H.op]; rfl
  have hoa3 : (patch3.operation == Operation.add) = false := by rw [H.op3]; rfl
  have hor3 : (patch3.operation == Operation.rename) = false := by rw [H.op3]; rfl
  have hoc3 : (patch3.operation == Operation.copy) = false := by rw [H.op3]; rfl
  have hod3 : (patch3.operation == Operation.delete) = false := by rw [H.op3]; rfl
  have hpe : List.isEmpty p = false := by
    cases p with
    | nil => exact absurd rfl H.pathNe
    | cons _ _ => rfl
  have hout : outputPath o patch0 p = p := by
    unfold outputPath; simp [H.noOut, hor, hoc]
  have hdash : (o.outFile == [45]) = false := by rw [H.noOut]; rfl
  unfold processSection
  simp only [↓run_bind, ↓run_get, ↓run_liftE, ↓run_modify, ↓run_pure, ↓run_emit,
    H.hdr, hfu, hob, H.operand, hpe, hout, hor, hdash,
    Bool.false_eq_true, ↓reduceIte, Bool.false_and, Bool.and_false, Bool.not_true, Bool.not_false,
    Bool.or_false, Bool.false_or, Bool.and_true, Bool.true_and, Bool.true_or, Bool.or_true,
    run_createTemp, H.noFault, H.cwd,
    run_fsExists_file (b := bytes) (m := m), run_fsIsRegular_file (b := bytes) (m := m),
    run_fsIsSymlink_file (b := bytes) (m := m), H.file,
    ne_eq, not_false_eq_true,
    absPath_nil, readFile_root (b := bytes) (m := m), H.root,
    H.pre, List.isEmpty_nil,
    run_parseBodyM_true (pt' := patch2) (par' := par2), H.body,
    H.apply, H.patch, hoa3, hor3, hoc3, hod3,
    bne_self_eq_false, beq_self_eq_true, H.ttyLeft, hfg, H.newMode3, $ls,*]))

/-- **a clean section over a READ-ONLY target, real run, no backup, the check does not refuse** (`--read-only=warn`, the default,
    or `=ignore`): the target gets the rendered output and HAS ITS OLD MODE AGAIN — `chmod (m ||| writeMask)` right before the
    write, `chmod m` after it —; the warning is printed unless `=ignore`; no failure is recorded -/
theorem processSection_readonly (H : VSection o fmt s p bytes m patch0 patch2 patch3 info par1 par2 r)
    (hro : m &&& writeMask = 0) (hnf : o.readOnly ≠ .fail)
    (hfail : r.failed = 0) (hmsgs : r.msgs = []) (hperf : r.perfect = true)
    (hnb : o.saveBackup = false) (hreal : o.dryRun = false) (hdir : s.fs.dirExists (parentOf p) = true) :
    ∃ s', (processSection o fmt).run s = (.ok true, s') ∧
      s'.fs = s.fs.set p (.file (render o.newlineOutput r.out) m) ∧
      s'.trace = s.trace ++ [.tmpCreate, .tmpUnlink] ++ [.tmpCreate, .tmpUnlink] ++
        roResultOps p (render o.newlineOutput r.out) m ∧
      s'.backedUp = s.backedUp ∧ s'.rejWritten = s.rejWritten ∧
      s'.hadFailure = s.hadFailure ∧ s'.out = s.out ++ roEvents o ++ [.file p false] ∧
      SectionEnd s s' p par2 := by
  have hnf' : (o.readOnly == ReadOnlyHandling.fail) = false := by
    cases hx : o.readOnly <;> first | rfl | exact absurd hx hnf
  v_run [(fun s' => @run_fixPermissions_readonly o s' p bytes m), hro, hnf', hfail, hmsgs, hperf, hnb, hreal,
    (fun s' pt c perm => @run_writePatchedResult_readonly s' p bytes m o pt c m perm), hdir]
  refine ⟨_, rfl, rfl, ?_, rfl, rfl, rfl, ?_, ⟨rfl, rfl, rfl, ?_, H.cwd.symm, H.noFault.symm, rfl, rfl, rfl, rfl⟩⟩
  · simp [List.append_assoc]
  · simp [List.append_assoc]
  · generalize s.tty = t
    cases t <;> simp

/-- **a clean section over a READ-ONLY target with `-b`, real run**: the target gets the rendered output and has its old mode
    again; the backup holds the old bytes WITH THE OLD MODE `m` (the file is moved before `make_writable` runs, which then finds
    nothing to make writable: no `chmod` before the write); `hnd`: the backup name is not that of a directory -/
theorem processSection_readonly_backup (H : VSection o fmt s p bytes m patch0 patch2 patch3 info par1 par2 r)
    (hro : m &&& writeMask = 0) (hnf : o.readOnly ≠ .fail)
    (hfail : r.failed = 0) (hmsgs : r.msgs = [])
    (hb : o.saveBackup = true) (hreal : o.dryRun = false) (hdir : s.fs.dirExists (parentOf p) = true)
    (hnot : s.backedUp.contains (backupName o p) = false)
    (hdirs : DirsThere s.fs (backupName o p)) (hbdir : s.fs.dirExists (parentOf (backupName o p)) = true)
    (hnd : NotDir s.fs (backupName o p)) :
    ∃ s', (processSection o fmt).run s = (.ok true, s') ∧
      s'.fs = ((s.fs.erase p).set (backupName o p) (.file bytes m)).set p
                (.file (render o.newlineOutput r.out) m) ∧
      s'.trace = s.trace ++ [.tmpCreate, .tmpUnlink] ++ [.tmpCreate, .tmpUnlink] ++
        roBackupOps o p (render o.newlineOutput r.out) m ∧
      s'.backedUp = s.backedUp ++ [backupName o p] ∧
      s'.hadFailure = s.hadFailure ∧ s'.out = s.out ++ roEvents o ++ [.file p false] ∧
      SectionEnd s s' p par2 := by
  have hnf' : (o.readOnly == ReadOnlyHandling.fail) = false := by
    cases hx : o.readOnly <;> first | rfl | exact absurd hx hnf
  v_run [(fun s' => @run_fixPermissions_readonly o s' p bytes m), hro, hnf', hfail, hmsgs, hb, hreal,
    (fun s' pt c perm => @run_writePatchedResult_readonly_backup s' p bytes m o pt c m perm), hdir, hnot, hdirs, hbdir, hnd,
    H.pathNe]
  refine ⟨_, rfl, rfl, ?_, rfl, rfl, ?_, ⟨rfl, rfl, rfl, ?_, H.cwd.symm, H.noFault.symm, rfl, rfl, rfl, rfl⟩⟩
  · simp [List.append_assoc]
  · simp [List.append_assoc]
  · generalize s.tty = t
    cases t <;> simp

/-- **a section refused because its target is read-only** (`--read-only=fail`), real run: the rest of the patch is read, the
    refusal is reported, ALL hunks go to `p.rej` (a new file), the failure flag is set — the target is not touched at all
    (neither its bytes nor its mode: no `chmod`) -/
theorem processSection_refused (H : HeadSection o fmt s p bytes m patch0 patch2 info par1 par2)
    (hro : m &&& writeMask = 0) (hfl : o.readOnly = .fail) (b : Bytes)
    (hne : patch2.hunks ≠ []) (hb : allRejectBytes patch2 o.rejectFormat 0 patch2.hunks = .ok b)
    (hrf : o.rejectFile = []) (hreal : o.dryRun = false)
    (hnot : s.rejWritten.contains (p ++ str ".rej") = false) (hfree : s.fs.lookup (p ++ str ".rej") = none)
    (hdirs : DirsThere s.fs (p ++ str ".rej")) (hrdir : s.fs.dirExists (parentOf (p ++ str ".rej")) = true) :
    ∃ s', (processSection o fmt).run s = (.ok true, s') ∧
      s'.fs = s.fs.set (p ++ str ".rej") (.file b (0o666 - (0o666 &&& s.fs.umask))) ∧
      s'.trace = s.trace ++ [.tmpCreate, .tmpUnlink] ++ writeOps (p ++ str ".rej") b ∧
      s'.backedUp = s.backedUp ∧ s'.rejWritten = s.rejWritten ++ [p ++ str ".rej"] ∧
      s'.hadFailure = true ∧
      s'.out = s.out ++ [.readOnly, .refusing, .failed patch2.hunks.length patch2.hunks.length true (some (p ++ str ".rej"))] ∧
      SectionEnd s s' p par2 := by
  have hfl' : (o.readOnly == ReadOnlyHandling.fail) = true := by rw [hfl]; rfl
  have hre : roEvents o = [.readOnly] := by unfold roEvents; rw [hfl]; rfl
  h_run [(fun s' => @run_fixPermissions_readonly o s' p bytes m), hro, hfl', hre, ↓run_failNow,
    (fun s' => @run_refuseToPatch_new s' o p patch2 b hreal hne hrf hb), hnot, hfree, hdirs, hrdir]
  refine ⟨_, rfl, rfl, ?_, rfl, rfl, rfl, ?_, ⟨rfl, rfl, rfl, rfl, H.cwd.symm, H.noFault.symm, rfl, rfl, rfl, rfl⟩⟩
  · simp [List.append_assoc]
  · simp [List.append_assoc]

/-- **a clean section over a writable target, no backup, real run**, the applier's verdict given separately (`failed = 0`;
    whatever it said goes to the log): `Section.processSection_clean` for a `VSection` — used for the "assume -R" branch, where
    the applier hands back the reversed patch and reports that it did -/
theorem processSection_vclean (H : VSection o fmt s p bytes m patch0 patch2 patch3 info par1 par2 r)
    (hw : m &&& writeMask ≠ 0) (hfail : r.failed = 0)
    (hsb : (!r.perfect && !r.skipped && o.backupIfMismatch == .yes) = false)
    (hnb : o.saveBackup = false) (hreal : o.dryRun = false) (hdir : s.fs.dirExists (parentOf p) = true) :
    ∃ s', (processSection o fmt).run s = (.ok true, s') ∧
      s'.fs = s.fs.set p (.file (render o.newlineOutput r.out) m) ∧
      s'.trace = s.trace ++ [.tmpCreate, .tmpUnlink] ++ [.tmpCreate, .tmpUnlink] ++
        resultOps p (render o.newlineOutput r.out) m ∧
      s'.backedUp = s.backedUp ∧ s'.rejWritten = s.rejWritten ∧
      s'.hadFailure = s.hadFailure ∧ s'.out = s.out ++ [.file p false] ++ r.msgs.map DEv.msg ∧
      SectionEnd s s' p par2 := by
  v_run [(fun s' => @run_fixPermissions_writable o s' p bytes m), hw, hfail, hsb, hnb, hreal,
    (fun s' pt c perm => @run_writePatchedResult_plain s' p bytes m o pt c m perm), hdir]
  refine ⟨_, rfl, rfl, ?_, rfl, rfl, rfl, rfl, ⟨rfl, rfl, rfl, ?_, H.cwd.symm, H.noFault.symm, rfl, rfl, rfl, rfl⟩⟩
  · simp [List.append_assoc]
  · generalize s.tty = t
    cases t <;> simp

/-- **a section whose hunks are (partly or all) rejected, writable target, no backup, real run**
    (`RunB.processSection_rejected` for a `VSection`, with "no backup" as what the driver computes) -/
theorem processSection_vrejected (H : VSection o fmt s p bytes m patch0 patch2 patch3 info par1 par2 r)
    (hw : m &&& writeMask ≠ 0) (hfail : r.failed ≠ 0)
    (hsb : (!r.perfect && !r.skipped && o.backupIfMismatch == .yes) = false)
    (hnb : o.saveBackup = false) (hrf : o.rejectFile = [])
    (hreal : o.dryRun = false) (hdir : s.fs.dirExists (parentOf p) = true)
    (hnot : s.rejWritten.contains (p ++ str ".rej") = false) (hfree : s.fs.lookup (p ++ str ".rej") = none)
    (hdirs : DirsThere s.fs (p ++ str ".rej")) (hrdir : s.fs.dirExists (parentOf (p ++ str ".rej")) = true) :
    ∃ s', (processSection o fmt).run s = (.ok true, s') ∧
      s'.fs = (s.fs.set (p ++ str ".rej") (.file r.rejBytes (0o666 - (0o666 &&& s.fs.umask)))).set p
                (.file (render o.newlineOutput r.out) m) ∧
      s'.trace = s.trace ++ [.tmpCreate, .tmpUnlink] ++ [.tmpCreate, .tmpUnlink] ++ writeOps (p ++ str ".rej") r.rejBytes ++
        resultOps p (render o.newlineOutput r.out) m ∧
      s'.backedUp = s.backedUp ∧ s'.rejWritten = s.rejWritten ++ [p ++ str ".rej"] ∧
      s'.hadFailure = true ∧
      s'.out = s.out ++ [.file p false] ++ r.msgs.map DEv.msg ++
        [.failed r.failed patch3.hunks.length r.skipped (some (p ++ str ".rej"))] ∧
      SectionEnd s s' p par2 := by
  have hfb : (r.failed != 0) = true := by simpa using hfail
  have hfe : (r.failed == 0) = false := by simpa using hfail
  have hrne : p ++ str ".rej" ≠ [] := by rw [str_rej]; simp
  have hpr : p ≠ p ++ str ".rej" := by
    intro e
    have := congrArg List.length e
    rw [str_rej] at this; simp at this
  have hlk : ∀ n, (s.fs.set (p ++ str ".rej") n).lookup p = some (.file bytes m) := by
    intro n; rw [Fs.lookup_set_ne _ _ _ _ hpr]; exact H.file
  have hde : ∀ n, (s.fs.set (p ++ str ".rej") n).dirExists (parentOf p) = true := by
    intro n
    rw [Fs.dirExists_set_ne _ _ _ _ (by
      intro e
      have h1 := parentOf_length_lt H.pathNe
      rw [e, str_rej] at h1; simp at h1; omega)]
    exact hdir
  v_run [(fun s' => @run_fixPermissions_writable o s' p bytes m), hw, hfb, hfe, hsb, hnb, hreal, ↓run_failNow,
    rejectPath_default o p hrf,
    (fun s' => @run_ensureParentDirs_there s' (p ++ str ".rej") hrne), hdirs,
    (fun s' b => @run_writeRejects_new o s' (p ++ str ".rej") b), hnot, hfree, hrdir,
    (fun s' pt c perm => @run_writePatchedResult_plain s' p bytes m o pt c m perm), hlk, hde, Section.Fs.isRoot_set]
  refine ⟨_, rfl, rfl, ?_, rfl, rfl, rfl, ?_, ⟨rfl, rfl, rfl, ?_, H.cwd.symm, H.noFault.symm, rfl, rfl, rfl, rfl⟩⟩
  · simp [List.append_assoc]
  · simp [List.append_assoc]
  · generalize s.tty = t
    cases t <;> simp

end

section
open PatchModel.Script

/-! ### `-N`: the hunk loop when the rest of the patch is skipped, unified rejects -/

theorem shift_zero (h : Hunk) :
    ({ h with new := { h.new with start := h.new.start + 0 }, old := { h.old with start := h.old.start + 0 } } : Hunk) = h := by
  rcases h with ⟨⟨a, b⟩, ⟨c, d⟩, ls⟩
  simp

/-- one skipped hunk (no hunk was applied before: the shift is 0): it goes to the rejects as it is -/
theorem finishHunk_skip_full (file : List Line) (o : ApplyOpts) (pt : Patch) (s : AState) (num : Nat)
    (h : Hunk) (loc : Option Location) (hskip : s.skip = true) (hoff : s.offNew = 0)
    (hu : rejectAsUnified o.rejectFormat pt.format = true) :
    ∃ s', finishHunk file o pt s num h loc = .ok s' ∧ s'.out = s.out ∧ s'.cursor = s.cursor ∧
      s'.skip = true ∧ s'.offNew = 0 ∧ s'.applied = s.applied ∧ s'.rejected = s.rejected ++ [(num, h)] ∧
      s'.rejBytes = s.rejBytes ++ ((if s.rejected.length = 0 then writeHeaderUnified pt else []) ++ writeHunkUnified h) ∧
      s.msgs <+: s'.msgs ∧ (o.verbose = false → s'.msgs = s.msgs) ∧ s'.tty = s.tty := by
  unfold finishHunk
  simp only [hskip, if_true, writeReject, hu, hoff, shift_zero, Bool.not_true, Bool.false_and, Bool.and_false, Bool.or_false,
    Bool.false_eq_true, if_false]
  cases hv : o.verbose
  · refine ⟨_, rfl, ?_⟩
    simp
  · refine ⟨_, rfl, ?_⟩
    simp

theorem applyRest_skip_full (file : List Line) (o : ApplyOpts) (pt : Patch)
    (hu : rejectAsUnified o.rejectFormat pt.format = true) :
    ∀ (hs : List Hunk) (s : AState) (num : Nat), s.skip = true → s.offNew = 0 →
    ∃ s', applyRest file o pt s num hs = .ok s' ∧ s'.out = s.out ∧ s'.cursor = s.cursor ∧
      s'.skip = true ∧ s'.applied = s.applied ∧
      s'.rejected.length = s.rejected.length + hs.length ∧
      s'.rejBytes = s.rejBytes ++ ((if s.rejected.length = 0 ∧ hs ≠ [] then writeHeaderUnified pt else []) ++
        hs.flatMap writeHunkUnified) ∧
      s.msgs <+: s'.msgs ∧ (o.verbose = false → s'.msgs = s.msgs) ∧ s'.tty = s.tty := by
  intro hs
  induction hs with
  | nil => intro s num hsk _; exact ⟨s, rfl, rfl, rfl, hsk, rfl, by simp, by simp, List.prefix_refl _, fun _ => rfl, rfl⟩
  | cons h hs ih =>
    intro s num hsk hoff
    obtain ⟨s1, e, a1, a2, a3, a4, a5, a6, a7, a8, a10, a9⟩ :=
      finishHunk_skip_full file o pt s num h
        (locateHunk file h o.ignoreWhitespace s.offErr o.maxFuzz s.cursor) hsk hoff hu
    obtain ⟨s2, e2, b1, b2, b3, b4, b5, b6, b7, b9, b8⟩ := ih s1 (num + 1) a3 a4
    refine ⟨s2, ?_, b1.trans a1, b2.trans a2, b3, b4.trans a5, ?_, ?_, a8.trans b7, fun hq => (b9 hq).trans (a10 hq),
      b8.trans a9⟩
    · simp only [applyRest, e, e2]
    · rw [b5, a6]; simp; omega
    · rw [b6, a7, a6]
      by_cases h0 : s.rejected.length = 0 <;> simp [h0, List.append_assoc]

/-- **`C06.C06_N` with the reject bytes and the patch handed back**: run again with `-N` on its own result, the patch is
    recognised as applied; the output is the input, EVERY hunk goes — unshifted — to the rejects after the header, the patch
    handed back is the one given -/
theorem C06_N_full (file : List Line) (h1 : Hunk) (rest : List Hunk) (p0 : Patch) (o : ApplyOpts) (tty : Option (List Bool))
    (hv : Valid file 0 0 (h1 :: rest)) (hx : C06.NoReversedD2 file (h1 :: rest)) (hp : p0.hunks = h1 :: rest)
    (hamb : C06.FirstHunkNoLongerFits (splice file 0 (h1 :: rest)) h1 o)
    (hN : o.ignoreReversed = true) (hf : o.force = false) (hR : o.reverse = false) (hF : 0 ≤ o.maxFuzz)
    (hu : rejectAsUnified o.rejectFormat p0.format = true) :
    ∃ r, applyPatch (splice file 0 (h1 :: rest)) p0 o tty = .ok r ∧
      r.out.map Out.line = splice file 0 (h1 :: rest) ∧
      r.skipped = true ∧ r.applied = [] ∧ r.failed = (h1 :: rest).length ∧
      r.rejBytes = writeHeaderUnified p0 ++ (h1 :: rest).flatMap writeHunkUnified ∧
      Msg.reversedDetected false ∈ r.msgs ∧ Msg.skippingPatch ∈ r.msgs ∧
      (o.verbose = false → r.msgs = [Msg.reversedDetected false, Msg.skippingPatch]) ∧ r.tty = tty ∧ r.patch = p0 := by
  obtain ⟨_, _, q, hq⟩ := C06.reversed_perfect file h1 rest o hv hx hF
  have hsc := C06.forward_not_perfect _ h1 o hamb hf
  have hsus := C06.probe_suspicious _ h1 o q hamb hq
  generalize splice file 0 (h1 :: rest) = B at *
  unfold applyPatch
  simp only [hR, Bool.false_eq_true, if_false, hp, hsc, if_true, hsus]
  simp only [checkHowToHandleReversed, hN, Bool.not_true, Bool.false_eq_true, if_false]
  obtain ⟨s3, e, a1, a2, a3, a4, a5, a6, a7, a9, a8⟩ := applyRest_skip_full B o p0 hu (h1 :: rest)
    ({ skip := true, msgs := [Msg.reversedDetected false, Msg.skippingPatch], tty := tty } : AState) 0 rfl rfl
  have hfold := C01.first_then_rest B o p0
    ({ skip := true, msgs := [Msg.reversedDetected false, Msg.skippingPatch], tty := tty } : AState) h1 rest
    (C01.finishRes B p0)
  refine ⟨C01.finishRes B p0 s3, ?_, ?_, a3, a4, ?_, ?_, ?_, ?_, a9, a8, rfl⟩
  · refine Eq.trans hfold ?_
    rw [e]
  · simp [C01.finishRes, a1, a2, copyRange_map_line]
  · simpa [C01.finishRes] using a5
  · simpa [C01.finishRes] using a6
  · exact a7.subset (by simp)
  · exact a7.subset (by simp)

/-- **`C06.C06_t` with the rest of the verdict**: run again with `-t` on its own result, the patch is applied in reverse; the
    output is the old file, nothing fails, the run is perfect, the patch handed back is the reversed one -/
theorem C06_t_full (file : List Line) (h1 : Hunk) (rest : List Hunk) (p0 : Patch) (o : ApplyOpts) (tty : Option (List Bool))
    (hv : Valid file 0 0 (h1 :: rest)) (hx : C06.NoReversedD2 file (h1 :: rest)) (hp : p0.hunks = h1 :: rest)
    (hamb : C06.FirstHunkNoLongerFits (splice file 0 (h1 :: rest)) h1 o)
    (hN : o.ignoreReversed = false) (ht : o.batch = true) (hf : o.force = false) (hR : o.reverse = false)
    (hD : o.define = []) (hF : 0 ≤ o.maxFuzz) :
    ∃ r, applyPatch (splice file 0 (h1 :: rest)) p0 o tty = .ok r ∧
      r.out.map Out.line = file ∧ r.failed = 0 ∧ r.perfect = true ∧ r.skipped = false ∧
      (o.verbose = false → r.msgs = [Msg.reversedDetected false, Msg.assumingR]) ∧ r.tty = tty ∧
      r.patch = reversePatch p0 := by
  obtain ⟨hv', hs', q, hq⟩ := C06.reversed_perfect file h1 rest o hv hx hF
  have hsc := C06.forward_not_perfect _ h1 o hamb hf
  have hsus := C06.probe_suspicious _ h1 o q hamb hq
  generalize splice file 0 (h1 :: rest) = B at *
  unfold applyPatch
  simp only [hR, Bool.false_eq_true, if_false, hp, hsc, if_true, hsus]
  simp only [hq, checkHowToHandleReversed, hN, ht, Bool.not_false, if_true]
  obtain ⟨s3, e, b1, b2, _, b4, b5, _, b7, _, b9⟩ :=
    C01.applyRest_valid B o (reversePatch p0) hD hF 0 0 _ hv'
      ({ msgs := [Msg.reversedDetected false, Msg.assumingR], tty := tty } : AState) 0 rfl rfl rfl
  have hfold := C01.first_then_rest B o (reversePatch p0)
    ({ msgs := [Msg.reversedDetected false, Msg.assumingR], tty := tty } : AState) (reverseHunk h1)
    (rest.map reverseHunk) (C01.finishRes B (reversePatch p0))
  simp only [hq] at hfold
  refine ⟨C01.finishRes B (reversePatch p0) s3, ?_, ?_, ?_, b4, b5, b7, b9, rfl⟩
  · refine Eq.trans hfold ?_
    rw [e]
  · have : (C01.finishRes B (reversePatch p0) s3).out =
        s3.out ++ copyRange B s3.cursor (B.length - s3.cursor) := rfl
    rw [this, b1, hs']; rfl
  · show s3.rejected.length = 0
    rw [b2]; rfl

end

open PatchModel.Cpp PatchModel.Run

/-! ### `-D`: what `write_define_hunk` writes is LF-plain when its inputs are -/

/-- the writer state of `write_define_hunk` holds LF-plain lines only, and the last one was terminated by LF -/
def GoodW (w : DefW) : Prop := (∀ o ∈ w.out, lfPlain o.line = true) ∧ w.lastUnterm = false ∧ w.lastTerm = .lf

theorem lfPlain_nl {l : Line} (h : lfPlain l = true) : l.newline = .lf := by
  unfold lfPlain at h
  simp only [Bool.and_eq_true, beq_iff_eq] at h
  exact h.1

theorem terminatorOf_lfPlain {l : Line} (h : lfPlain l = true) : terminatorOf l = .lf := by
  unfold terminatorOf; rw [lfPlain_nl h]; rfl

theorem goodW_directive {w : DefW} (t : Bytes) (hw : GoodW w) (ht : lfPlain ⟨t, .lf⟩ = true) : GoodW (w.directive t .lf) := by
  obtain ⟨h1, h2, h3⟩ := hw
  refine ⟨?_, rfl, h3⟩
  intro o ho
  simp only [DefW.directive, h2, Bool.false_eq_true, if_false, List.mem_append, List.mem_singleton] at ho
  rcases ho with ho | ho
  · exact h1 o ho
  · rw [ho]; exact ht

theorem goodW_line {w : DefW} (o : Out) (hw : GoodW w) (ho : lfPlain o.line = true) : GoodW (w.line o) := by
  obtain ⟨h1, h2, h3⟩ := hw
  refine ⟨?_, ?_, terminatorOf_lfPlain ho⟩
  · intro o' ho'
    simp only [DefW.line, h2, Bool.false_eq_true, if_false, List.mem_append, List.mem_singleton] at ho'
    rcases ho' with ho' | ho'
    · exact h1 o' ho'
    · rw [ho']; exact ho
  · simp [DefW.line, lfPlain_nl ho]

/-- the four directive lines for `sym` are LF-plain -/
structure SymOk (sym : Bytes) : Prop where
  ifdef : lfPlain ⟨dIfdef sym, .lf⟩ = true
  ifndef : lfPlain ⟨dIfndef sym, .lf⟩ = true
  else_ : lfPlain ⟨dElse, .lf⟩ = true
  endif : lfPlain ⟨dEndif, .lf⟩ = true

theorem symOk_of {sym : Bytes} (hnl : NL ∉ sym) (hcr : sym.getLast? ≠ some CR) : SymOk sym := by
  have key : ∀ pre : Bytes, NL ∉ pre → pre.getLast? ≠ some CR → pre ≠ [] → lfPlain ⟨pre ++ sym, .lf⟩ = true := by
    intro pre h1 h2 h3
    unfold lfPlain plainLine
    simp only [beq_self_eq_true, Bool.true_and, Bool.and_eq_true, Bool.not_eq_true', bne_iff_ne, ne_eq]
    refine ⟨?_, ?_⟩
    · simpa using ⟨h1, hnl⟩
    · rw [List.getLast?_append]
      cases hs : sym.getLast? with
      | none => simpa using h2
      | some c => rw [hs] at hcr; simpa using hcr
  refine ⟨?_, ?_, ?_, ?_⟩
  · unfold dIfdef; rw [str_ifdef]; exact key _ (by decide) (by decide) (by decide)
  · unfold dIfndef; rw [str_ifndef]; exact key _ (by decide) (by decide) (by decide)
  · unfold dElse; rw [str_else]; decide
  · unfold dEndif; rw [str_endif]; decide

theorem defineLoop_good (file : List Line) (sym : Bytes) (hsym : SymOk sym) (hfile : ∀ l ∈ file, lfPlain l = true) :
    ∀ (ls : List PatchLine) (cur : Nat) (st : DefState) (w : DefW) (r : DefW × Nat × DefState),
      (∀ pl ∈ ls, lfPlain pl.line = true) → GoodW w → defineLoop file sym ls cur st w = some r → GoodW r.1 := by
  intro ls
  induction ls with
  | nil =>
    intro cur st w r _ hw h
    simp only [defineLoop] at h
    cases h; exact hw
  | cons pl rest ih =>
    intro cur st w r hpl hw h
    have hrest : ∀ q ∈ rest, lfPlain q.line = true := fun q hq => hpl q (List.mem_cons_of_mem _ hq)
    have hp := hpl pl List.mem_cons_self
    have htp := terminatorOf_lfPlain hp
    rw [defineLoop] at h
    split at h
    · split at h
      · exact ih _ _ _ r hrest hw h
      split at h
      · cases h
      · next l hl =>
        have hlf := hfile l (List.mem_of_getElem? hl)
        refine ih _ _ _ r hrest (goodW_line (.fromFile cur l) ?_ hlf) h
        rw [terminatorOf_lfPlain hlf]
        split
        · exact goodW_directive _ hw hsym.endif
        · exact hw
    · split at h
      · generalize hx : (if st = DefState.outside then _ else _ : DefW × DefState) = x at h
        obtain ⟨w1, st1⟩ := x
        refine ih _ _ _ r hrest (goodW_line (.fromPatch pl.line) ?_ hp) h
        rw [htp] at hx
        split at hx
        · cases hx; exact goodW_directive _ hw hsym.ifdef
        · split at hx
          · cases hx; exact goodW_directive _ hw hsym.else_
          · split at hx
            · cases hx; exact goodW_directive _ (goodW_directive _ hw hsym.endif) hsym.ifdef
            · cases hx; exact hw
      · split at h
        · split at h
          · cases h
          · next l hl =>
            have hlf := hfile l (List.mem_of_getElem? hl)
            generalize hx : (if st = DefState.outside then _ else _ : DefW × DefState) = x at h
            obtain ⟨w1, st1⟩ := x
            refine ih _ _ _ r hrest (goodW_line (.fromFile cur l) ?_ hlf) h
            rw [terminatorOf_lfPlain hlf] at hx
            split at hx
            · cases hx; exact goodW_directive _ hw hsym.ifndef
            · split at hx
              · cases hx; exact goodW_directive _ hw hsym.else_
              · split at hx
                · cases hx; exact goodW_directive _ (goodW_directive _ hw hsym.endif) hsym.ifndef
                · cases hx; exact hw
        · exact ih _ _ _ r hrest hw h

/-- what `write_define_hunk` emits is LF-plain -/
theorem writeDefineHunk_good (file : List Line) (sym : Bytes) (hsym : SymOk sym) (hfile : ∀ l ∈ file, lfPlain l = true)
    (ls : List PatchLine) (hls : ∀ pl ∈ ls, lfPlain pl.line = true) (p n : Nat) (outs : List Out)
    (h : writeDefineHunk file sym ls p = some (outs, n)) : ∀ o ∈ outs, lfPlain o.line = true := by
  unfold writeDefineHunk at h
  split at h
  · cases h
  · next w cur st hd =>
    have hg := defineLoop_good file sym hsym hfile ls p .outside {} (w, cur, st) hls ⟨by simp, rfl, rfl⟩ hd
    simp only [Option.some.injEq, Prod.mk.injEq] at h
    obtain ⟨h1, _⟩ := h
    rw [← h1]
    split
    · exact (by have := goodW_directive dEndif hg hsym.endif; rw [← hg.2.2] at this; exact this.1)
    · exact hg.1

theorem copyRange_good (file : List Line) (hfile : ∀ l ∈ file, lfPlain l = true) (i n : Nat) :
    ∀ o ∈ copyRange file i n, lfPlain o.line = true := by
  intro o ho
  have : o.line ∈ (copyRange file i n).map Out.line := List.mem_map_of_mem ho
  rw [Render.copyRange_map_line] at this
  exact hfile _ (List.mem_of_mem_drop (List.mem_of_mem_take this))

/-- `Cpp.finishHunk_define` with the rest of the state: a hunk placed exactly under `-D`, not verbose — nothing is said, the
    run stays perfect -/
theorem finishHunk_define_full (file : List Line) (o : ApplyOpts) (pt : Patch) (s : AState) (num : Nat) (h : Hunk)
    (p n : Nat) (sym : Bytes) (outs : List Out)
    (hsym : sym ≠ []) (hD : o.define = sym) (hq : o.verbose = false) (hskip : s.skip = false) (hoff : s.offErr = 0)
    (hrej : s.rejected = []) (hple : p ≤ file.length)
    (hw : writeDefineHunk file sym h.lines p = some (outs, n)) :
    ∃ s', finishHunk file o pt s num h (some ⟨p, 0, 0⟩) = .ok s' ∧ s'.skip = false ∧ s'.offErr = 0 ∧
      s'.rejected = [] ∧ s'.cursor = n ∧ s'.out = s.out ++ copyRange file s.cursor (p - s.cursor) ++ outs ∧
      s'.perfect = s.perfect ∧ s'.msgs = s.msgs ∧ s'.tty = s.tty ∧ s'.rejBytes = s.rejBytes := by
  have hgt : ¬ (p > s.cursor ∧ p > file.length) := by omega
  unfold finishHunk
  simp only [hskip, Bool.false_eq_true, if_false, Int.toNat_natCast, hgt, writeHunkD, hD, hsym, ne_eq,
    not_false_eq_true, if_true, hw]
  refine ⟨_, rfl, ?_⟩
  simp only [isPerfect, Option.isSome, Bool.not_false, Bool.and_true, if_true]
  simp [hoff, hrej, hq]

/-- the hunk loop under `-D sym` on a valid script of LF-plain lines: `C20.applyRest_define` with the rest of the state and
    with what is written being LF-plain -/
theorem applyRest_define_full (file : List Line) (o : ApplyOpts) (pt : Patch) (sym : Bytes)
    (hsym : sym ≠ []) (hok : SymOk sym) (hD : o.define = sym) (hq : o.verbose = false) (hF : 0 ≤ o.maxFuzz)
    (hfileLF : ∀ l ∈ file, lfPlain l = true) (hfileD : ∀ l ∈ file, notDirective sym l) :
    ∀ (hs : List Hunk) (s : AState) (num c : Nat) (d0 : Int), Valid file c d0 hs →
      s.skip = false → s.offErr = 0 → s.rejected = [] → s.cursor = c →
      (∀ h ∈ hs, ∀ pl ∈ h.lines, lfPlain pl.line = true) →
      (∀ h ∈ hs, ∀ pl ∈ h.lines, notDirective sym pl.line) →
      ∃ s' outs, applyRest file o pt s num hs = .ok s' ∧ s'.rejected = [] ∧ s'.cursor ≤ file.length ∧
        s'.out = s.out ++ outs ∧
        (∀ d, Seg sym d (outs.map Out.line ++ file.drop s'.cursor) (if d then splice file c hs else file.drop c)) ∧
        (∀ o ∈ outs, lfPlain o.line = true) ∧
        s'.perfect = s.perfect ∧ s'.msgs = s.msgs ∧ s'.tty = s.tty ∧ s'.rejBytes = s.rejBytes ∧ s'.skip = false := by
  intro hs
  induction hs with
  | nil =>
    intro s num c d0 hv hskip hoff hrej hcur _ _
    cases hv with
    | nil _ _ hc =>
      refine ⟨s, [], rfl, hrej, by omega, by simp, ?_, by simp, rfl, rfl, rfl, rfl, hskip⟩
      intro d
      have hpl : Seg sym d (file.drop c) (file.drop c) :=
        Seg.plain sym d _ (fun l hl => hfileD l (List.mem_of_mem_drop hl))
      cases d <;> simpa [splice, hcur] using hpl
  | cons h hs ih =>
    intro s num c d0 hv hskip hoff hrej hcur hLF hDir
    have hT : ∀ pl ∈ h.lines, pl.line.newline ≠ .none := by
      intro pl hpl; rw [lfPlain_nl (hLF h List.mem_cons_self pl hpl)]; simp
    cases hv with
    | cons _ _ _ _ p hwf hpos hcp hfile hle hnew hD2 hv' =>
      have hloc := C20.locate_valid file h o.ignoreWhitespace o.maxFuzz c p hF hwf hpos hcp hfile hle hD2
      obtain ⟨outsH, hw, hsegH⟩ := writeDefineHunk_seg' file sym h.lines p hwf.1 hT (hDir h List.mem_cons_self) hfile
      have hgH := writeDefineHunk_good file sym hok hfileLF h.lines (hLF h List.mem_cons_self) p _ outsH hw
      obtain ⟨s1, hfin, h1skip, h1off, h1rej, h1cur, h1out, h1p, h1m, h1t, h1b⟩ :=
        finishHunk_define_full file o pt s num h p _ sym outsH hsym hD hq hskip hoff hrej (by omega) hw
      obtain ⟨s', outsR, hrest, hrej', hcur', hout', hsegR, hgR, h2p, h2m, h2t, h2b, h2s⟩ :=
        ih s1 (num + 1) (p + (oldOf h.lines).length) _ hv' h1skip h1off h1rej h1cur
          (fun h' hh => hLF h' (List.mem_cons_of_mem _ hh)) (fun h' hh => hDir h' (List.mem_cons_of_mem _ hh))
      refine ⟨s', copyRange file c (p - c) ++ outsH ++ outsR, ?_, hrej', hcur', ?_, ?_, ?_, h2p.trans h1p, h2m.trans h1m,
        h2t.trans h1t, h2b.trans h1b, h2s⟩
      · rw [applyRest, hoff, hcur, hloc]
        simp only [hfin, hrest]
      · rw [hout', h1out, hcur]; simp
      · intro d
        have hA : Seg sym d ((file.drop c).take (p - c)) ((file.drop c).take (p - c)) :=
          Seg.plain sym d _ (fun l hl => hfileD l (List.mem_of_mem_drop (List.mem_of_mem_take hl)))
        have hall := Seg.append hA (Seg.append (hsegH d) (hsegR d))
        have hpos' : h.pos0.toNat = p := by rw [hpos]; rfl
        have hsplit := C20.drop_split file c p _ _ hcp hfile
        simp only [List.map_append, Render.copyRange_map_line, List.append_assoc]
        cases d
        · simp only [Bool.false_eq_true, if_false] at hall ⊢
          rw [← hsplit] at hall; exact hall
        · simp only [if_true] at hall ⊢
          simp only [splice, hpos', List.append_assoc]; exact hall
      · intro o' ho'
        rcases List.mem_append.1 ho' with ho' | ho'
        · rcases List.mem_append.1 ho' with ho' | ho'
          · exact copyRange_good file hfileLF _ _ o' ho'
          · exact hgH o' ho'
        · exact hgR o' ho'

/-- **`C20.C20_merge` with the whole verdict**, for LF-plain text: `apply_patch` under `-D sym` on a valid script returns; the
    output evaluates to the new file with `sym` defined and to the old one without; nothing is rejected, nothing is said (not
    verbose), no question is asked, the patch handed back is the one given; and every line written is LF-plain -/
theorem applyPatch_define_full (file : List Line) (hs : List Hunk) (p0 : Patch) (o : ApplyOpts) (tty : Option (List Bool))
    (sym : Bytes) (hv : Valid file 0 0 hs) (hp : p0.hunks = hs)
    (hsym : sym ≠ []) (hok : SymOk sym) (hD : o.define = sym) (hR : o.reverse = false) (hq : o.verbose = false)
    (hF : 0 ≤ o.maxFuzz)
    (hfileLF : ∀ l ∈ file, lfPlain l = true) (hpatchLF : ∀ h ∈ hs, ∀ pl ∈ h.lines, lfPlain pl.line = true)
    (hfileD : ∀ l ∈ file, notDirective sym l) (hpatchD : ∀ h ∈ hs, ∀ pl ∈ h.lines, notDirective sym pl.line) :
    ∃ r, applyPatch file p0 o tty = .ok r ∧
      cppEval sym true (r.out.map Out.line) = some (splice file 0 hs) ∧
      cppEval sym false (r.out.map Out.line) = some file ∧
      (∀ l ∈ r.out.map Out.line, lfPlain l = true) ∧
      r.failed = 0 ∧ r.perfect = true ∧ r.skipped = false ∧ r.msgs = [] ∧ r.tty = tty ∧ r.patch = p0 := by
  subst hp
  obtain ⟨s', outs, hrest, hrej', hcur', hout', hseg, hgood, hp', hm', ht', _, hs'⟩ :=
    applyRest_define_full file o p0 sym hsym hok hD hq hF hfileLF hfileD p0.hunks { tty := tty } 0 0 0 hv rfl rfl rfl rfl
      hpatchLF hpatchD
  have hcopy : (copyRange file s'.cursor (file.length - s'.cursor)).map Out.line = file.drop s'.cursor := by
    rw [Render.copyRange_map_line]
    apply List.take_of_length_le
    rw [List.length_drop]; omega
  have hres : applyPatch file p0 o tty = .ok (C01.finishRes file p0 s') := by
    unfold applyPatch
    simp only [hR, Bool.false_eq_true, if_false]
    cases hhs : p0.hunks with
    | nil =>
      rw [hhs, applyRest] at hrest
      cases hrest; rfl
    | cons h0 rest =>
      simp only []
      rw [hhs] at hv hrest
      cases hv with
      | cons _ _ _ _ p hwf hpos hcp hfile hle hnew hD2 hv' =>
        have hloc := C20.locate_valid file h0 o.ignoreWhitespace o.maxFuzz 0 p hF hwf hpos hcp hfile hle hD2
        have hsc : shouldCheckReversed (some ⟨(p : Int), 0, 0⟩) o = false := by simp [shouldCheckReversed]
        rw [hloc, hsc]
        simp only [Bool.false_eq_true, if_false]
        have := C01.first_then_rest file o p0 ({ tty := tty } : AState) h0 rest (C01.finishRes file p0)
        simp only [hloc] at this
        refine Eq.trans this ?_
        rw [hrest]
  refine ⟨_, hres, ?_, ?_, ?_, ?_, hp', hs', hm', ht', rfl⟩
  · show cppEval sym true ((s'.out ++ copyRange file s'.cursor (file.length - s'.cursor)).map Out.line) = _
    rw [List.map_append, hcopy, hout']
    simpa using (hseg true).eval
  · show cppEval sym false ((s'.out ++ copyRange file s'.cursor (file.length - s'.cursor)).map Out.line) = _
    rw [List.map_append, hcopy, hout']
    simpa using (hseg false).eval
  · show ∀ l ∈ (s'.out ++ copyRange file s'.cursor (file.length - s'.cursor)).map Out.line, _
    intro l hl
    rw [List.map_append, hcopy, hout'] at hl
    rcases List.mem_append.1 hl with hl | hl
    · simp only [List.nil_append, List.mem_map] at hl
      obtain ⟨o', ho', rfl⟩ := hl
      exact hgood o' ho'
    · exact hfileLF l (List.mem_of_mem_drop hl)
  · show s'.rejected.length = 0
    rw [hrej']; rfl

end PatchModel.RunV
