/-
  Lemmas/Cmdline — helper lemmas about the command line model (`parseArgs`, `parseShort`, `parseLong`, `stoi`,
  `processOption`, `foldCalls`, `commandLine`) used by C19.
-/
import PatchModel.Model.Cmdline
namespace PatchModel.Cmdline
open PatchModel

/-! ### `Except` -/

theorem toOption_bind_congr {ε α β : Type} {x y : Except ε α} (f : α → Except ε β)
    (h : x.toOption = y.toOption) : (x.bind f).toOption = (y.bind f).toOption := by
  cases x <;> cases y <;> simp [Except.toOption, Except.bind] at h ⊢
  subst h; rfl

theorem toOption_error {ε α : Type} (e : ε) : (Except.error e : Except ε α).toOption = none := rfl

/-! ### lists -/

/-- `find?` on a key that is injective on the list returns the element itself -/
theorem find?_key {α β : Type} [BEq β] [LawfulBEq β] (f : α → β) :
    ∀ (l : List α), (l.map f).Nodup → ∀ a ∈ l, l.find? (fun x => f x == f a) = some a
  | [], _, a, ha => by simp at ha
  | b :: l, hnd, a, ha => by
    rw [List.map_cons, List.nodup_cons] at hnd
    rw [List.find?_cons]
    by_cases hba : f b = f a
    · simp only [hba, beq_self_eq_true]
      rcases List.mem_cons.1 ha with rfl | hal
      · rfl
      · exact absurd (hba ▸ List.mem_map_of_mem hal) hnd.1
    · have : (f b == f a) = false := by simpa using hba
      simp only [this]
      rcases List.mem_cons.1 ha with rfl | hal
      · exact absurd rfl hba
      · exact find?_key f l hnd.2 a hal

theorem nodup_of_nodup_map {α β : Type} (f : α → β) : ∀ (l : List α), (l.map f).Nodup → l.Nodup
  | [], _ => List.nodup_nil
  | a :: l, h => by
    rw [List.map_cons, List.nodup_cons] at h
    rw [List.nodup_cons]
    exact ⟨fun ha => h.1 (List.mem_map_of_mem ha), nodup_of_nodup_map f l h.2⟩

/-- a filter that only one element of a duplicate-free list passes returns exactly that element -/
theorem filter_eq_singleton {α : Type} (p : α → Bool) :
    ∀ (l : List α) (a : α), l.Nodup → a ∈ l → p a = true → (∀ b ∈ l, p b = true → b = a) → l.filter p = [a]
  | [], a, _, ha, _, _ => by simp at ha
  | b :: l, a, hnd, ha, hp, hu => by
    rw [List.nodup_cons] at hnd
    by_cases hpb : p b = true
    · have hba : b = a := hu b (List.mem_cons_self) hpb
      subst hba
      rw [List.filter_cons_of_pos hpb]
      congr 1
      rw [List.filter_eq_nil_iff]
      intro c hc hpc
      have : c = b := hu c (List.mem_cons_of_mem _ hc) hpc
      exact hnd.1 (this ▸ hc)
    · rw [List.filter_cons_of_neg hpb]
      have hal : a ∈ l := by
        rcases List.mem_cons.1 ha with rfl | h
        · exact absurd hp hpb
        · exact h
      exact filter_eq_singleton p l a hnd.2 hal hp (fun c hc => hu c (List.mem_cons_of_mem _ hc))

theorem isPrefixOf_self {α : Type} [BEq α] [LawfulBEq α] (l : List α) : l.isPrefixOf l = true := by
  induction l with
  | nil => rfl
  | cons a l ih => simp [List.isPrefixOf, ih]

/-! ### `charVal` -/

theorem charVal_ofNat (n : Int) (h0 : 0 ≤ n) (h : n < 128) : charVal (UInt8.ofNat n.toNat) = n := by
  have : (UInt8.ofNat n.toNat).toNat = n.toNat := by
    rw [UInt8.toNat_ofNat']; omega
  unfold charVal
  rw [this]
  have : n.toNat < 128 := by omega
  simp only [this, if_true]
  omega

theorem charVal_MINUS : charVal MINUS = 45 := by decide

theorem charVal_ge (c : UInt8) : -128 ≤ charVal c := by
  unfold charVal
  have := c.toNat_lt
  split <;> omega

theorem charVal_inj (c d : UInt8) (h : charVal c = charVal d) : c = d := by
  unfold charVal at h
  have hc := c.toNat_lt
  have hd := d.toNat_lt
  apply UInt8.toNat_inj.1
  split at h <;> split at h <;> omega

/-! ### the argument loop -/

/-- each step consumes at least one argument, so any fuel above the length gives the same result -/
theorem parseArgs_fuel (t : List Opt) : ∀ (fuel fuel' : Nat) (argv : List Bytes),
    argv.length < fuel → argv.length < fuel' → parseArgs t fuel argv = parseArgs t fuel' argv := by
  intro fuel
  induction fuel with
  | zero => intro _ _ h; omega
  | succ n ih =>
    intro fuel' argv h h'
    cases fuel' with
    | zero => omega
    | succ m =>
      cases argv with
      | nil => simp [parseArgs]
      | cons arg rest =>
        simp only [List.length_cons] at h h'
        simp only [parseArgs]
        rw [ih m rest (by omega) (by omega)]
        split
        · rfl
        · split
          · rfl
          · split
            · rfl
            · rename_i calls used _
              rw [ih m (rest.drop used) (by rw [List.length_drop]; omega) (by rw [List.length_drop]; omega)]

/-- `CmdLineParser::parse` with enough fuel -/
def parse (t : List Opt) (argv : List Bytes) : List OptCall × Option Exn := parseArgs t (argv.length + 1) argv

/-- the option branch of one loop iteration -/
def parseStep (t : List Opt) (arg : Bytes) (rest : List Bytes) : Except Exn (List OptCall × Nat) :=
  if arg[1]? == some MINUS then parseLong t arg rest else parseShort t (arg.drop 1) rest

theorem parse_nil (t : List Opt) : parse t [] = ([], none) := rfl

theorem parse_cons (t : List Opt) (arg : Bytes) (rest : List Bytes) :
    parse t (arg :: rest) =
      if arg.head? != some MINUS || arg == [MINUS] then ((OPERAND, arg) :: (parse t rest).1, (parse t rest).2)
      else if arg == [MINUS, MINUS] then (rest.map fun a => (OPERAND, a), none)
      else match parseStep t arg rest with
        | .error e => ([], some e)
        | .ok (calls, used) => (calls ++ (parse t (rest.drop used)).1, (parse t (rest.drop used)).2) := by
  unfold parse parseStep
  simp only [List.length_cons, parseArgs]
  split
  · rfl
  · split
    · rfl
    · split
      · rename_i h; rw [h]
      · rename_i calls used h
        rw [h]
        simp only
        rw [parseArgs_fuel t (rest.length + 1) ((rest.drop used).length + 1) (rest.drop used)
          (by rw [List.length_drop]; omega) (by omega)]

theorem parse_operand (t : List Opt) (arg : Bytes) (rest : List Bytes) (h : arg.head? ≠ some MINUS ∨ arg = [MINUS]) :
    parse t (arg :: rest) = ((OPERAND, arg) :: (parse t rest).1, (parse t rest).2) := by
  rw [parse_cons]
  have : (arg.head? != some MINUS || arg == [MINUS]) = true := by
    rcases h with h | h
    · simp [h]
    · simp [h]
  rw [if_pos this]

theorem parse_operands (t : List Opt) (pre : List Bytes) (rest : List Bytes) (h : ∀ a ∈ pre, a.head? ≠ some MINUS) :
    parse t (pre ++ rest) = (pre.map (fun a => (OPERAND, a)) ++ (parse t rest).1, (parse t rest).2) := by
  induction pre with
  | nil => rfl
  | cons a pre ih =>
    rw [List.cons_append, parse_operand t a _ (.inl (h a List.mem_cons_self)),
      ih (fun b hb => h b (List.mem_cons_of_mem _ hb))]
    rfl

theorem parse_dashdash (t : List Opt) (rest : List Bytes) :
    parse t ([MINUS, MINUS] :: rest) = (rest.map fun a => (OPERAND, a), none) := by
  rw [parse_cons]
  rfl

/-- an argument `-c…` with `c ≠ '-'` goes to `parseShort` -/
theorem parse_short (t : List Opt) (c : UInt8) (more : Bytes) (rest : List Bytes) (hc : c ≠ MINUS) :
    parse t ((MINUS :: c :: more) :: rest) =
      match parseShort t (c :: more) rest with
      | .error e => ([], some e)
      | .ok (calls, used) => (calls ++ (parse t (rest.drop used)).1, (parse t (rest.drop used)).2) := by
  rw [parse_cons]
  have h1 : ((MINUS :: c :: more).head? != some MINUS || (MINUS :: c :: more) == [MINUS]) = false := by simp
  have h2 : ((MINUS :: c :: more) == [MINUS, MINUS]) = false := by simp [hc]
  have h3 : parseStep t (MINUS :: c :: more) rest = parseShort t (c :: more) rest := by
    simp [parseStep, hc]
  rw [h1, h2, h3]
  rfl

/-- an argument `--x…` goes to `parseLong` -/
theorem parse_long (t : List Opt) (arg : Bytes) (rest : List Bytes) (h2 : [MINUS, MINUS].isPrefixOf arg = true)
    (hlen : arg.length > 2) :
    parse t (arg :: rest) =
      match parseLong t arg rest with
      | .error e => ([], some e)
      | .ok (calls, used) => (calls ++ (parse t (rest.drop used)).1, (parse t (rest.drop used)).2) := by
  match arg, h2, hlen with
  | a :: b :: c :: more, h2, _ =>
    simp only [List.isPrefixOf, Bool.and_true, Bool.and_eq_true, beq_iff_eq] at h2
    obtain ⟨rfl, rfl⟩ := h2
    rw [parse_cons]
    have h1 : ((MINUS :: MINUS :: c :: more).head? != some MINUS || (MINUS :: MINUS :: c :: more) == [MINUS]) = false := by
      simp
    have h2 : ((MINUS :: MINUS :: c :: more) == [MINUS, MINUS]) = false := by simp
    have h3 : parseStep t (MINUS :: MINUS :: c :: more) rest = parseLong t (MINUS :: MINUS :: c :: more) rest := by
      simp [parseStep]
    rw [h1, h2, h3]
    rfl

/-! ### short options -/

theorem find?_short (t : List Opt) (hnd : (t.map (·.shortName)).Nodup) (o : Opt) (ho : o ∈ t) (c : UInt8)
    (hc : o.shortName = charVal c) : t.find? (fun o => o.shortName == charVal c) = some o := by
  rw [← hc]; exact find?_key (·.shortName) t hnd o ho

theorem parseShort_flag (t : List Opt) (hnd : (t.map (·.shortName)).Nodup) (o : Opt) (ho : o ∈ t) (c : UInt8)
    (hc : o.shortName = charVal c) (hflag : o.hasArg = false) (more : Bytes) (next : List Bytes) :
    parseShort t (c :: more) next =
      match parseShort t more next with
      | .error e => .error e
      | .ok (calls, n) => .ok ((o.shortName, []) :: calls, n) := by
  rw [parseShort, find?_short t hnd o ho c hc]
  simp only [hflag]
  rfl

theorem parseShort_arg (t : List Opt) (hnd : (t.map (·.shortName)).Nodup) (o : Opt) (ho : o ∈ t) (c : UInt8)
    (hc : o.shortName = charVal c) (harg : o.hasArg = true) (more : Bytes) (next : List Bytes) :
    parseShort t (c :: more) next =
      if more.isEmpty then
        match next with
        | [] => .error .cmdlineError
        | a :: _ => .ok ([(o.shortName, a)], 1)
      else .ok ([(o.shortName, more)], 0) := by
  rw [parseShort, find?_short t hnd o ho c hc]
  simp only [harg, if_true]
  rfl

theorem parseShort_unknown (t : List Opt) (c : UInt8) (hc : ∀ o ∈ t, o.shortName ≠ charVal c) (more : Bytes)
    (next : List Bytes) : parseShort t (c :: more) next = .error .cmdlineError := by
  have : t.find? (fun o => o.shortName == charVal c) = none := by
    rw [List.find?_eq_none]; intro o ho; simpa using hc o ho
  rw [parseShort, this]

/-- a bundle of flags makes one call per flag and consumes nothing -/
theorem parseShort_flags (t : List Opt) (hnd : (t.map (·.shortName)).Nodup) (next : List Bytes) :
    ∀ (cs : Bytes), (∀ c ∈ cs, ∃ o ∈ t, o.shortName = charVal c ∧ o.hasArg = false) →
      parseShort t cs next = .ok (cs.map (fun c => (charVal c, [])), 0)
  | [], _ => by simp [parseShort]
  | c :: cs, h => by
    obtain ⟨o, ho, hc, hflag⟩ := h c List.mem_cons_self
    rw [parseShort_flag t hnd o ho c hc hflag,
      parseShort_flags t hnd next cs (fun d hd => h d (List.mem_cons_of_mem _ hd))]
    simp [hc]

/-! ### long options -/

/-- `handle` of `parseLong` -/
def handleLong (hasSep : Bool) (value : Bytes) (next : List Bytes) (o : Opt) : Except Exn (List OptCall × Nat) :=
  if !o.hasArg then
    if hasSep then .error .cmdlineError else .ok ([(o.shortName, [])], 0)
  else if hasSep then .ok ([(o.shortName, value)], 0)
  else match next with
    | [] => .error .cmdlineError
    | a :: _ => .ok ([(o.shortName, a)], 1)

theorem handleLong_flag (value : Bytes) (next : List Bytes) (o : Opt) (h : o.hasArg = false) :
    handleLong false value next o = .ok ([(o.shortName, [])], 0) := by simp [handleLong, h]

theorem handleLong_flag_sep (value : Bytes) (next : List Bytes) (o : Opt) (h : o.hasArg = false) :
    handleLong true value next o = .error .cmdlineError := by simp [handleLong, h]

theorem handleLong_arg_sep (value : Bytes) (next : List Bytes) (o : Opt) (h : o.hasArg = true) :
    handleLong true value next o = .ok ([(o.shortName, value)], 0) := by simp [handleLong, h]

theorem handleLong_arg_next (value a : Bytes) (next : List Bytes) (o : Opt) (h : o.hasArg = true) :
    handleLong false value (a :: next) o = .ok ([(o.shortName, a)], 1) := by simp [handleLong, h]

theorem handleLong_arg_nil (value : Bytes) (o : Opt) (h : o.hasArg = true) :
    handleLong false value [] o = .error .cmdlineError := by simp [handleLong, h]

/-- `parseLong` once the key, the presence of `=` and the value have been split off -/
def parseLongKey (t : List Opt) (key : Bytes) (hasSep : Bool) (value : Bytes) (next : List Bytes) :
    Except Exn (List OptCall × Nat) :=
  match t.find? (fun o => o.longName == key) with
  | some o => handleLong hasSep value next o
  | none =>
    match t.filter (fun o => key.isPrefixOf o.longName) with
    | [] => .error .cmdlineError
    | [o] => handleLong hasSep value next o
    | _ => .error .cmdlineError

theorem parseLong_eq (t : List Opt) (arg : Bytes) (next : List Bytes) :
    parseLong t arg next =
      parseLongKey t (arg.takeWhile (· != EQ)) (decide ((arg.takeWhile (· != EQ)).length < arg.length))
        (arg.drop ((arg.takeWhile (· != EQ)).length + 1)) next := by
  unfold parseLong parseLongKey handleLong
  simp only [decide_eq_true_eq]
  rfl

theorem takeWhile_key (k suffix : Bytes) (hk : EQ ∉ k) (hs : suffix = [] ∨ suffix.head? = some EQ) :
    (k ++ suffix).takeWhile (· != EQ) = k := by
  induction k with
  | nil =>
    rcases hs with rfl | hs
    · rfl
    · cases suffix with
      | nil => rfl
      | cons a s => simp at hs; subst hs; simp
  | cons a k ih =>
    rw [List.mem_cons, not_or] at hk
    have : (a != EQ) = true := by simpa using fun h => hk.1 h.symm
    rw [List.cons_append, List.takeWhile_cons, this, if_pos rfl, ih hk.2]

/-- `key` or `key=value` where the key contains no '=' -/
theorem parseLong_key (t : List Opt) (k suffix : Bytes) (next : List Bytes) (hk : EQ ∉ k)
    (hs : suffix = [] ∨ suffix.head? = some EQ) :
    parseLong t (k ++ suffix) next = parseLongKey t k (!suffix.isEmpty) (suffix.drop 1) next := by
  rw [parseLong_eq, takeWhile_key k suffix hk hs]
  congr 1
  · cases suffix <;> simp
  · rw [← List.drop_drop, List.drop_left]

theorem parseLongKey_exact (t : List Opt) (hnd : (t.map (·.longName)).Nodup) (o : Opt) (ho : o ∈ t)
    (hasSep : Bool) (value : Bytes) (next : List Bytes) :
    parseLongKey t o.longName hasSep value next = handleLong hasSep value next o := by
  rw [parseLongKey, find?_key (·.longName) t hnd o ho]

theorem parseLongKey_unique (t : List Opt) (hnd : (t.map (·.longName)).Nodup) (o : Opt) (ho : o ∈ t) (pre : Bytes)
    (hp : pre.isPrefixOf o.longName = true) (huniq : ∀ o' ∈ t, pre.isPrefixOf o'.longName = true → o' = o)
    (hasSep : Bool) (value : Bytes) (next : List Bytes) :
    parseLongKey t pre hasSep value next = handleLong hasSep value next o := by
  unfold parseLongKey
  cases hf : t.find? (fun o => o.longName == pre) with
  | some o' =>
    have h1 := List.find?_some hf
    have h2 := List.mem_of_find?_eq_some hf
    simp only [beq_iff_eq] at h1
    have : o' = o := huniq o' h2 (by rw [h1]; exact isPrefixOf_self pre)
    rw [this]
  | none =>
    simp only
    rw [filter_eq_singleton _ t o (nodup_of_nodup_map _ t hnd) ho hp huniq]

theorem parseLongKey_ambiguous (t : List Opt) (o1 o2 : Opt) (h1 : o1 ∈ t) (h2 : o2 ∈ t) (hne : o1 ≠ o2) (pre : Bytes)
    (hp1 : pre.isPrefixOf o1.longName = true) (hp2 : pre.isPrefixOf o2.longName = true)
    (hno : ∀ o ∈ t, o.longName ≠ pre) (hasSep : Bool) (value : Bytes) (next : List Bytes) :
    parseLongKey t pre hasSep value next = .error .cmdlineError := by
  unfold parseLongKey
  have hf : t.find? (fun o => o.longName == pre) = none := by
    rw [List.find?_eq_none]; intro o ho; simpa using hno o ho
  rw [hf]
  simp only
  have m1 : o1 ∈ t.filter (fun o => pre.isPrefixOf o.longName) := List.mem_filter.2 ⟨h1, hp1⟩
  have m2 : o2 ∈ t.filter (fun o => pre.isPrefixOf o.longName) := List.mem_filter.2 ⟨h2, hp2⟩
  split
  · rfl
  · rename_i o h
    rw [h] at m1 m2
    simp only [List.mem_singleton] at m1 m2
    exact absurd (m1.trans m2.symm) hne
  · rfl

theorem parseLongKey_none (t : List Opt) (pre : Bytes) (hnone : ∀ o ∈ t, pre.isPrefixOf o.longName = false)
    (hasSep : Bool) (value : Bytes) (next : List Bytes) :
    parseLongKey t pre hasSep value next = .error .cmdlineError := by
  unfold parseLongKey
  have hf : t.find? (fun o => o.longName == pre) = none := by
    rw [List.find?_eq_none]; intro o ho h
    simp only [beq_iff_eq] at h
    have := hnone o ho
    rw [h, isPrefixOf_self] at this
    exact absurd this (by simp)
  have hfl : t.filter (fun o => pre.isPrefixOf o.longName) = [] := by
    rw [List.filter_eq_nil_iff]; intro o ho; simp [hnone o ho]
  rw [hf, hfl]

/-- a prefix of a list without '=' has no '=' -/
theorem not_mem_of_isPrefixOf (pre l : Bytes) (h : pre.isPrefixOf l = true) (hl : EQ ∉ l) : EQ ∉ pre := by
  rw [List.isPrefixOf_iff_prefix] at h
  exact fun hm => hl (h.subset hm)

/-! ### `stoi` -/

theorem foldl_digits_bound (ds : Bytes) (hd : ∀ c ∈ ds, 48 ≤ c ∧ c ≤ 57) :
    ∀ (acc : Int), 0 ≤ acc →
      0 ≤ ds.foldl (fun acc c => acc * 10 + ((c.toNat - 48 : Nat) : Int)) acc ∧
      ds.foldl (fun acc c => acc * 10 + ((c.toNat - 48 : Nat) : Int)) acc < (acc + 1) * 10 ^ ds.length := by
  induction ds with
  | nil => intro acc h; simp; omega
  | cons c ds ih =>
    intro acc h
    have hc := hd c List.mem_cons_self
    have hc2 : c.toNat ≤ 57 := by have := UInt8.le_iff_toNat_le.1 hc.2; simpa using this
    rw [List.foldl_cons]
    have := ih (fun d hd' => hd d (List.mem_cons_of_mem _ hd')) (acc * 10 + ((c.toNat - 48 : Nat) : Int)) (by omega)
    refine ⟨this.1, Int.lt_of_lt_of_le this.2 ?_⟩
    rw [List.length_cons, Int.pow_succ, Int.mul_comm (10 ^ ds.length) 10, ← Int.mul_assoc]
    apply Int.mul_le_mul_of_nonneg_right
    · omega
    · exact Int.pow_nonneg (by omega)

theorem takeWhile_all {α : Type} (p : α → Bool) (l : List α) (h : ∀ a ∈ l, p a = true) : l.takeWhile p = l := by
  induction l with
  | nil => rfl
  | cons a l ih =>
    rw [List.takeWhile_cons, h a List.mem_cons_self, if_pos rfl, ih (fun b hb => h b (List.mem_cons_of_mem _ hb))]

theorem takeWhile_all_append {α : Type} (p : α → Bool) (l : List α) (c : α) (h : ∀ a ∈ l, p a = true)
    (hc : p c = false) : (l ++ [c]).takeWhile p = l := by
  induction l with
  | nil => simp [hc]
  | cons a l ih =>
    rw [List.cons_append, List.takeWhile_cons, h a List.mem_cons_self, if_pos rfl,
      ih (fun b hb => h b (List.mem_cons_of_mem _ hb))]

/-- `stoi` after white space and sign have been removed -/
def stoiDigits (s2 : Bytes) (neg : Bool) : Except Exn Int :=
  let digits := s2.takeWhile (fun c => 48 ≤ c && c ≤ 57)
  if digits.isEmpty then .error .cmdlineError
  else
    let v : Int := digits.foldl (fun acc c => acc * 10 + ((c.toNat - 48 : Nat) : Int)) 0
    let v := if neg then -v else v
    if v < -2147483648 ∨ v > 2147483647 then .error .outOfRange
    else if digits.length ≠ s2.length then .error .cmdlineError
    else .ok v

theorem stoi_digit_head (d : UInt8) (r : Bytes) (f1 : isSpaceC d = false) (f2 : (d == 43) = false)
    (f3 : (d == 45) = false) : stoi (d :: r) = stoiDigits (d :: r) false := by
  unfold stoi stoiDigits
  simp only [List.dropWhile_cons, f1, f2, f3, Bool.false_eq_true, if_false]

theorem digit_facts (d : UInt8) (h : 48 ≤ d ∧ d ≤ 57) :
    isSpaceC d = false ∧ (d == 43) = false ∧ (d == 45) = false ∧ (48 ≤ d && d ≤ 57) = true := by
  have h1 := UInt8.le_iff_toNat_le.1 h.1
  have e : ∀ n : Nat, n < 48 → d ≠ UInt8.ofNat n := by
    intro n hn hd
    rw [hd, UInt8.toNat_ofNat'] at h1
    have : n % 2 ^ 8 = n := Nat.mod_eq_of_lt (by omega)
    rw [this] at h1
    have : (48 : UInt8).toNat = 48 := rfl
    omega
  refine ⟨?_, ?_, ?_, by simp [h.1, h.2]⟩
  · simp only [isSpaceC, Bool.or_eq_false_iff, Bool.and_eq_false_iff, beq_eq_false_iff_ne, ne_eq, decide_eq_false_iff_not]
    refine ⟨e 32 (by omega), .inr ?_⟩
    intro h3
    have := UInt8.le_iff_toNat_le.1 h3
    have : (48 : UInt8).toNat = 48 := rfl
    have : (13 : UInt8).toNat = 13 := rfl
    omega
  · simpa using e 43 (by omega)
  · simpa using e 45 (by omega)

theorem stoiDigits_digits (ds : Bytes) (hne : ds ≠ []) (hd : ∀ c ∈ ds, 48 ≤ c ∧ c ≤ 57) (hsmall : ds.length ≤ 9) :
    ∃ n : Int, stoiDigits ds false = .ok n ∧ 0 ≤ n := by
  have htw : ds.takeWhile (fun c => 48 ≤ c && c ≤ 57) = ds :=
    takeWhile_all _ _ (fun c hc => (digit_facts c (hd c hc)).2.2.2)
  have hb := foldl_digits_bound ds hd 0 (by omega)
  have hp : (10 : Int) ^ ds.length ≤ 10 ^ 9 := by
    have : (10 : Nat) ^ ds.length ≤ 10 ^ 9 := Nat.pow_le_pow_right (by omega) hsmall
    exact_mod_cast this
  have he : ds.isEmpty = false := by cases ds <;> simp at hne ⊢
  refine ⟨_, ?_, hb.1⟩
  unfold stoiDigits
  simp only [htw, he, Bool.false_eq_true, if_false, ne_eq, not_true_eq_false]
  rw [if_neg]
  have h9 : (10 : Int) ^ 9 = 1000000000 := by decide
  omega

theorem stoiDigits_trailing (s : Bytes) (c : UInt8) (hc : ¬ (48 ≤ c ∧ c ≤ 57))
    (hd : ∀ d ∈ s, 48 ≤ d ∧ d ≤ 57) (neg : Bool) : (stoiDigits (s ++ [c]) neg).toOption = none := by
  have hc' : (48 ≤ c && c ≤ 57) = false := by simpa using hc
  have htw : (s ++ [c]).takeWhile (fun c => 48 ≤ c && c ≤ 57) = s :=
    takeWhile_all_append _ _ _ (fun c hc => (digit_facts c (hd c hc)).2.2.2) hc'
  have key : ∀ v : Int, (if v < -2147483648 ∨ v > 2147483647 then (.error .outOfRange : Except Exn Int)
      else if s.length ≠ (s ++ [c]).length then .error .cmdlineError else .ok v).toOption = none := by
    intro v
    split
    · rfl
    · rw [if_pos (by simp)]; rfl
  unfold stoiDigits
  simp only [htw]
  split
  · rfl
  · exact key _

/-- a string that starts with white space is refused before anything else -/
theorem stoi_space_head (c : UInt8) (r : Bytes) (h : isSpaceC c = true) : stoi (c :: r) = .error .cmdlineError := by
  unfold stoi
  simp only [h, if_true]

theorem stoi_nil : stoi [] = .error .cmdlineError := by
  unfold stoi
  simp

theorem stoi_plus_head (r : Bytes) : stoi (43 :: r) = stoiDigits r false := by
  have f1 : isSpaceC 43 = false := by decide
  unfold stoi stoiDigits
  simp only [List.dropWhile_cons, f1, Bool.false_eq_true, if_false, beq_self_eq_true, if_true]

theorem stoi_minus_head (r : Bytes) : stoi (45 :: r) = stoiDigits r true := by
  have f1 : isSpaceC 45 = false := by decide
  have f2 : ((45 : UInt8) == 43) = false := by decide
  unfold stoi stoiDigits
  simp only [List.dropWhile_cons, f1, f2, Bool.false_eq_true, if_false, beq_self_eq_true, if_true]

theorem takeWhile_length_eq {α : Type} (p : α → Bool) (l : List α) (h : (l.takeWhile p).length = l.length) :
    ∀ a ∈ l, p a = true := by
  induction l with
  | nil => intro a ha; cases ha
  | cons b l ih =>
    rw [List.takeWhile_cons] at h
    cases hb : p b
    · rw [hb] at h; simp at h
    · rw [hb] at h
      simp only [if_true, List.length_cons, Nat.add_right_cancel_iff] at h
      intro a ha
      rcases List.mem_cons.1 ha with rfl | ha
      · exact hb
      · exact ih h a ha

/-- what `stoiDigits` accepts: a non-empty string of digits, the value within the 32-bit range -/
theorem stoiDigits_ok_shape (s2 : Bytes) (neg : Bool) (n : Int) (h : stoiDigits s2 neg = .ok n) :
    s2 ≠ [] ∧ (∀ c ∈ s2, 48 ≤ c ∧ c ≤ 57) ∧ -2147483648 ≤ n ∧ n ≤ 2147483647 := by
  have key : ∀ v : Int, (if (s2.takeWhile (fun c => 48 ≤ c && c ≤ 57)).isEmpty = true then (.error .cmdlineError : Except Exn Int)
      else if v < -2147483648 ∨ v > 2147483647 then .error .outOfRange
      else if (s2.takeWhile (fun c => 48 ≤ c && c ≤ 57)).length ≠ s2.length then .error .cmdlineError else .ok v) = .ok n →
      s2 ≠ [] ∧ (∀ c ∈ s2, 48 ≤ c ∧ c ≤ 57) ∧ -2147483648 ≤ n ∧ n ≤ 2147483647 := by
    intro v h
    by_cases hne : (s2.takeWhile (fun c => 48 ≤ c && c ≤ 57)).isEmpty = true
    · rw [if_pos hne] at h; cases h
    · rw [if_neg hne] at h
      by_cases hr : v < -2147483648 ∨ v > 2147483647
      · rw [if_pos hr] at h; cases h
      · rw [if_neg hr] at h
        by_cases hl : (s2.takeWhile (fun c => 48 ≤ c && c ≤ 57)).length ≠ s2.length
        · rw [if_pos hl] at h; cases h
        · rw [if_neg hl] at h
          cases h
          have hl : (s2.takeWhile (fun c => 48 ≤ c && c ≤ 57)).length = s2.length := by simpa using hl
          refine ⟨?_, ?_, by omega, by omega⟩
          · rintro rfl
            simp at hne
          · intro c hc
            have := takeWhile_length_eq _ s2 hl c hc
            simpa using this
  exact key _ h

/-- **what counts as a number for -F / -p**: an optional sign and then digits, at least one, nothing before (no white space: `std::stoi`
    would skip it), nothing after; the value within the 32-bit range -/
theorem stoi_ok_shape (v : Bytes) (n : Int) (h : stoi v = .ok n) :
    ∃ sign ds, v = sign ++ ds ∧ (sign = [] ∨ sign = [43] ∨ sign = [45]) ∧ ds ≠ [] ∧ (∀ c ∈ ds, 48 ≤ c ∧ c ≤ 57) ∧
      -2147483648 ≤ n ∧ n ≤ 2147483647 := by
  cases v with
  | nil => rw [stoi_nil] at h; cases h
  | cons c r =>
    cases hsp : isSpaceC c
    · by_cases h43 : c = 43
      · subst h43
        rw [stoi_plus_head] at h
        obtain ⟨h1, h2, h3⟩ := stoiDigits_ok_shape _ _ _ h
        exact ⟨[43], r, rfl, .inr (.inl rfl), h1, h2, h3⟩
      · by_cases h45 : c = 45
        · subst h45
          rw [stoi_minus_head] at h
          obtain ⟨h1, h2, h3⟩ := stoiDigits_ok_shape _ _ _ h
          exact ⟨[45], r, rfl, .inr (.inr rfl), h1, h2, h3⟩
        · rw [stoi_digit_head c r hsp (by simpa using h43) (by simpa using h45)] at h
          obtain ⟨h1, h2, h3⟩ := stoiDigits_ok_shape _ _ _ h
          exact ⟨[], c :: r, rfl, .inl rfl, h1, h2, h3⟩
    · rw [stoi_space_head c r hsp] at h; cases h

/-! ### the option handler -/

/-- `process_operand` -/
def operand (st : HandlerState) (v : Bytes) : Except Exn HandlerState :=
  if st.positional = 2 then .error .cmdlineError
  else if st.positional = 0 then .ok { o := { st.o with fileToPatch := v }, positional := 1 }
  else .ok { o := { st.o with patchFile := v }, positional := st.positional + 1 }

theorem processOption_operand (st : HandlerState) (v : Bytes) : processOption st (OPERAND, v) = operand st v := rfl

/-- the codes `processOption` treats as options (everything else falls through to `process_operand`) -/
def handled (code : Int) : Bool :=
  [66, 68, 69, 70, 78, 82, 98, 99, 100, 101, 102, 104, 105, 108, 110, 111, 112, 114, 116, 117, 118, 122,
   128, 129, 130, 131, 132, 133, 134, 135, 136].contains code

def setFtp (x : Bytes) (p : Nat) (s : HandlerState) : HandlerState :=
  { o := { s.o with fileToPatch := x }, positional := p }
def setPf (x : Bytes) (p : Nat) (s : HandlerState) : HandlerState :=
  { o := { s.o with patchFile := x }, positional := p }

/-- the call `(code, v)` neither reads nor writes `fileToPatch` and `positional` -/
def IsOptF (code : Int) (v : Bytes) : Prop :=
  ∀ st x p, processOption (setFtp x p st) (code, v) = (processOption st (code, v)).map (setFtp x p)

/-- the call `(code, v)` neither reads nor writes `patchFile` and `positional` -/
def IsOptP (code : Int) (v : Bytes) : Prop :=
  ∀ st x p, processOption (setPf x p st) (code, v) = (processOption st (code, v)).map (setPf x p)

/-- the call `(code, v)` neither reads nor writes the operand slots (`fileToPatch`, `patchFile`, `positional`) -/
def IsOpt (code : Int) (v : Bytes) : Prop := IsOptF code v ∧ IsOptP code v

/-- every option code except `-i` (105, which writes `patchFile`) is independent of the operand slots -/
theorem handled_isOpt (code : Int) (v : Bytes) (h : handled code = true) (h105 : code ≠ 105) : IsOpt code v := by
  simp only [handled, List.contains_iff_mem, List.mem_cons, List.not_mem_nil, or_false] at h
  rcases h with rfl | rfl | rfl | rfl | rfl | rfl | rfl | rfl | rfl | rfl | rfl | rfl | rfl | rfl | rfl | rfl
    | rfl | rfl | rfl | rfl | rfl | rfl | rfl | rfl | rfl | rfl | rfl | rfl | rfl | rfl | rfl
  all_goals first
    | (exfalso; exact h105 rfl)
    | (constructor <;> intro st x p <;> rfl)
    | (constructor <;> intro st x p <;> simp only [processOption] <;> cases stoi v <;> rfl)
    | (constructor <;> intro st x p <;> simp only [processOption] <;> (repeat' split) <;> rfl)

/-- every option code (including `-i`) is independent of `fileToPatch` and the operand count -/
theorem handled_isOptF (code : Int) (v : Bytes) (h : handled code = true) : IsOptF code v := by
  by_cases h105 : code = 105
  · subst h105; intro st x p; rfl
  · exact (handled_isOpt code v h h105).1

theorem IsOptF.positional {code : Int} {v : Bytes} (h : IsOptF code v) {st s : HandlerState}
    (hs : processOption st (code, v) = .ok s) : s.positional = st.positional := by
  have := h st st.o.fileToPatch st.positional
  have e : setFtp st.o.fileToPatch st.positional st = st := rfl
  rw [e, hs] at this
  simp only [Except.map] at this
  injection this with this
  rw [this]; rfl

theorem IsOpt.positional {code : Int} {v : Bytes} (h : IsOpt code v) {st s : HandlerState}
    (hs : processOption st (code, v) = .ok s) : s.positional = st.positional := h.1.positional hs

/-- the first operand and an option call commute (as far as success and the resulting state are concerned) -/
theorem operand_comm0 {code : Int} {v : Bytes} (h : IsOptF code v) (st : HandlerState) (h0 : st.positional = 0)
    (x : Bytes) :
    ((operand st x).bind (processOption · (code, v))).toOption
      = ((processOption st (code, v)).bind (operand · x)).toOption := by
  unfold operand
  have h2 : st.positional ≠ 2 := by omega
  rw [if_neg h2, if_pos h0]
  have := h st x 1
  simp only [Except.bind, setFtp] at this ⊢
  rw [this]
  cases hs : processOption st (code, v) with
  | error e => rfl
  | ok s => simp [Except.map, h.positional hs, h0, setFtp]

/-- an operand call and an option call commute (as far as success and the resulting state are concerned) -/
theorem operand_comm {code : Int} {v : Bytes} (h : IsOpt code v) (st : HandlerState) (x : Bytes) :
    ((operand st x).bind (processOption · (code, v))).toOption
      = ((processOption st (code, v)).bind (operand · x)).toOption := by
  unfold operand
  by_cases h2 : st.positional = 2
  · rw [if_pos h2]
    cases hs : processOption st (code, v) with
    | error e => rfl
    | ok s => simp [Except.bind, h.positional hs, h2, Except.toOption]
  · rw [if_neg h2]
    by_cases h0 : st.positional = 0
    · have := operand_comm0 h.1 st h0 x
      unfold operand at this
      rwa [if_neg h2] at this
    · rw [if_neg h0]
      have := h.2 st x (st.positional + 1)
      simp only [Except.bind, setPf] at this ⊢
      rw [this]
      cases hs : processOption st (code, v) with
      | error e => rfl
      | ok s => simp [Except.map, h.positional hs, h0, h2, setPf]

/-! ### `foldCalls`, `commandLine` -/

theorem foldCalls_cons (st : HandlerState) (c : OptCall) (cs : List OptCall) :
    foldCalls st (c :: cs) = (processOption st c).bind (foldCalls · cs) := by
  rw [foldCalls]; cases processOption st c <;> rfl

theorem foldCalls_append (st : HandlerState) (a b : List OptCall) :
    foldCalls st (a ++ b) = (foldCalls st a).bind (foldCalls · b) := by
  induction a generalizing st with
  | nil => rfl
  | cons c a ih =>
    rw [List.cons_append, foldCalls_cons, foldCalls_cons]
    cases processOption st c with
    | error e => rfl
    | ok s => exact ih s

theorem foldCalls_pair_operand_first (st : HandlerState) (x : Bytes) (c : OptCall) (cs : List OptCall) :
    foldCalls st ((OPERAND, x) :: c :: cs) = ((operand st x).bind (processOption · c)).bind (foldCalls · cs) := by
  rw [foldCalls_cons, processOption_operand]
  cases operand st x with
  | error e => rfl
  | ok s => exact foldCalls_cons s _ _

theorem foldCalls_pair_operand_second (st : HandlerState) (x : Bytes) (c : OptCall) (cs : List OptCall) :
    foldCalls st (c :: (OPERAND, x) :: cs) = ((processOption st c).bind (operand · x)).bind (foldCalls · cs) := by
  rw [foldCalls_cons]
  cases processOption st c with
  | error e => rfl
  | ok s => exact foldCalls_cons s _ _

/-- swapping an operand call with an independent option call in front of a call list -/
theorem foldCalls_swap {code : Int} {v : Bytes} (h : IsOpt code v) (st : HandlerState) (x : Bytes) (cs : List OptCall) :
    (foldCalls st ((OPERAND, x) :: (code, v) :: cs)).toOption = (foldCalls st ((code, v) :: (OPERAND, x) :: cs)).toOption := by
  rw [foldCalls_pair_operand_first, foldCalls_pair_operand_second]
  exact toOption_bind_congr _ (operand_comm h st x)

/-- swapping the first operand call with an option call (`-i` included) in front of a call list -/
theorem foldCalls_swap0 {code : Int} {v : Bytes} (h : IsOptF code v) (st : HandlerState) (h0 : st.positional = 0)
    (x : Bytes) (cs : List OptCall) :
    (foldCalls st ((OPERAND, x) :: (code, v) :: cs)).toOption = (foldCalls st ((code, v) :: (OPERAND, x) :: cs)).toOption := by
  rw [foldCalls_pair_operand_first, foldCalls_pair_operand_second]
  exact toOption_bind_congr _ (operand_comm0 h st h0 x)

/-- the observable result of `commandLine` in terms of the calls and the parse error -/
theorem commandLine_toOption (t : List Opt) (argv : List Bytes) (env : Env) :
    (commandLine t argv env).toOption =
      ((foldCalls { o := defaultOptions } (parse t argv).1).toOption).bind fun st =>
        match (parse t argv).2 with
        | some _ => none
        | none => some (applyDefaults st.o env) := by
  unfold commandLine parse
  rcases parseArgs t (argv.length + 1) argv with ⟨calls, perr⟩
  simp only
  cases foldCalls { o := defaultOptions } calls with
  | error e => rfl
  | ok st => cases perr <;> rfl

/-- a parse error makes `commandLine` fail -/
theorem commandLine_parse_error (t : List Opt) (argv : List Bytes) (env : Env) (e : Exn)
    (h : (parse t argv).2 = some e) : (commandLine t argv env).toOption = none := by
  rw [commandLine_toOption, h]
  cases (foldCalls { o := defaultOptions } (parse t argv).1).toOption <;> rfl

/-- a handler error makes `commandLine` fail -/
theorem commandLine_handler_error (t : List Opt) (argv : List Bytes) (env : Env)
    (h : (foldCalls { o := defaultOptions } (parse t argv).1).toOption = none) :
    (commandLine t argv env).toOption = none := by
  rw [commandLine_toOption, h]; rfl

/-- equal parse errors and call lists with the same fold give interchangeable command lines -/
theorem commandLine_congr (t : List Opt) (a b : List Bytes) (env : Env)
    (hc : (foldCalls { o := defaultOptions } (parse t a).1).toOption
        = (foldCalls { o := defaultOptions } (parse t b).1).toOption)
    (he : (parse t a).2 = (parse t b).2) :
    (commandLine t a env).toOption = (commandLine t b env).toOption := by
  rw [commandLine_toOption, commandLine_toOption, hc, he]

end PatchModel.Cmdline
