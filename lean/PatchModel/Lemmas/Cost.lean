/-
  Lemmas/Cost — step counts and progress of the model's loops (reusable facts behind C08):
  the locator's candidate lists, `get_line` consumes exactly one line, and the parsers never leave more unread
  lines than they found (every rewind only un-reads a look-ahead line); `parseAll_fuel`: the section loop never
  runs out of fuel.
-/
import PatchModel.Model.Driver
namespace PatchModel.Cost
open PatchModel

/-! ### locator -/

theorem candidates_length (s m size : Nat) :
    (candidates s m size).length = (size + 1 - s) + (s - m) := by
  simp [candidates]

/-- (D109: the end of the file is a position too, so a file of `size` lines has up to `size + 1` of them) -/
theorem candidates_length_le (guess : Int) (minLine size : Nat) :
    (candidates (searchStart guess minLine size) minLine size).length ≤ size + 1 := by
  rw [candidates_length]
  unfold searchStart
  omega

/-- the probes made before the one that succeeds are fewer than the candidates -/
theorem takeWhile_not_lt_of_find? {α} (P : α → Bool) : ∀ (l : List α) (a : α), l.find? P = some a →
    (l.takeWhile (fun q => !P q)).length < l.length := by
  intro l
  induction l with
  | nil => intro a h; simp at h
  | cons x l ih =>
    intro a h
    rw [List.find?_cons] at h
    cases hx : P x with
    | true => simp [hx]
    | false =>
      rw [hx] at h
      have := ih a h
      simp only [List.takeWhile_cons, hx, Bool.not_false, if_true, List.length_cons]
      omega

theorem length_takeWhile_le {α} (p : α → Bool) (l : List α) : (l.takeWhile p).length ≤ l.length := by
  induction l with
  | nil => simp
  | cons a l ih => simp only [List.takeWhile_cons]; split <;> simp <;> omega

theorem prefixCtx_le (ls : List PatchLine) : prefixCtx ls ≤ ls.length := by
  unfold prefixCtx; exact length_takeWhile_le _ _

theorem suffixCtx_le (ls : List PatchLine) : suffixCtx ls ≤ ls.length := by
  unfold suffixCtx; have := prefixCtx_le ls.reverse; simpa using this

theorem trimmed_length_le (ls : List PatchLine) (pf sf : Nat) : (trimmed ls pf sf).length ≤ ls.length := by
  simp [trimmed]; omega

/-! ### the stream -/

/-- `PStream.getLine`, the three outcomes -/
theorem PStream.getLine_cases (s : PStream) :
    (∃ l, s.getLine.1 = some l ∧ s.eof = false ∧ s.bad = false ∧ s.rest = l :: s.getLine.2.rest ∧ s.getLine.2.bad = false) ∨
    (s.getLine.1 = none ∧ s.getLine.2.rest = s.rest ∧
      (s.eof = false → s.bad = false → s.getLine.2.eof = true)) := by
  unfold PStream.getLine
  split
  · right; simp_all
  · split
    · right; simp_all
    · split
      · right; simp_all
      · rename_i l r h
        left; refine ⟨l, ?_⟩
        split <;> simp_all

/-- what `Parser::get_line` makes of the line the stream returned: only the last line of a text whose final
    newline is missing comes as `.none`, and it is handed on as an `.lf` line — or, if it ends in a CR (what is left of a
    CR LF, D85), as a `.crlf` line without that CR -/
def fixNl (l : Line) : Line :=
  if l.newline = .none then
    (if l.content.getLast? = some CR then { content := l.content.dropLast, newline := .crlf } else { l with newline := .lf })
  else l

theorem fixNl_content (l : Line) (h : l.newline = .none → l.content.getLast? ≠ some CR) : (fixNl l).content = l.content := by
  unfold fixNl; split
  · rename_i hn; simp [h hn]
  · rfl

theorem fixNl_ne_none (l : Line) : (fixNl l).newline ≠ .none := by
  unfold fixNl; split
  · split <;> simp
  · assumption

theorem fixNl_of_ne_none {l : Line} (h : l.newline ≠ .none) : fixNl l = l := by
  unfold fixNl; simp [h]

/-- (statement changed with the model: the line handed out is `fixNl` of the line consumed, was: the line itself) -/
theorem getLine_some {p : Parser} {l : Line} {p' : Parser} (h : p.getLine = (some l, p')) :
    (∃ l0, p.s.rest = l0 :: p'.s.rest ∧ l = fixNl l0) ∧ p.s.eof = false ∧ p.s.bad = false ∧ p'.s.bad = false := by
  unfold Parser.getLine at h
  rcases PStream.getLine_cases p.s with ⟨l', h1, h2, h3, h4, h5⟩ | ⟨h1, _⟩
  · split at h
    · rename_i heq; rw [heq] at h1; simp at h1
    · rename_i l2 s' heq
      rw [heq] at h1 h4 h5
      simp only [Prod.mk.injEq, Option.some.injEq] at h h1
      obtain ⟨rfl, rfl⟩ := h
      subst h1
      exact ⟨⟨l2, h4, rfl⟩, h2, h3, h5⟩
  · split at h
    · simp at h
    · rename_i l2 s' heq; rw [heq] at h1; simp at h1

/-- every line `Parser::get_line` returns ends in LF or CR LF (never `.none`) -/
theorem getLine_ne_none {p : Parser} {l : Line} {p' : Parser} (h : p.getLine = (some l, p')) :
    l.newline ≠ .none := by
  obtain ⟨⟨l0, _, rfl⟩, _⟩ := getLine_some h
  exact fixNl_ne_none l0

theorem getLine_none {p : Parser} {p' : Parser} (h : p.getLine = (none, p')) :
    p'.s.rest = p.s.rest ∧ (p.s.eof = false → p.s.bad = false → p'.s.eof = true) := by
  unfold Parser.getLine at h
  rcases PStream.getLine_cases p.s with ⟨l', h1, h2, h3, h4, h5⟩ | ⟨h1, h2, h3⟩
  · split at h
    · rename_i heq; rw [heq] at h1; simp at h1
    · simp at h
  · split at h
    · rename_i s' heq
      rw [heq] at h2 h3
      simp only [Prod.mk.injEq, true_and] at h
      subst h
      exact ⟨h2, h3⟩
    · simp at h

/-- one `get_line` consumes exactly one line -/
theorem getLine_length {p : Parser} {l : Line} {p' : Parser} (h : p.getLine = (some l, p')) :
    p'.s.rest.length + 1 = p.s.rest.length := by
  obtain ⟨⟨l0, h0, _⟩, _⟩ := getLine_some h
  rw [h0]; simp

/-- `get_line` never makes the stream longer -/
theorem getLine_snd_le (p : Parser) : p.getLine.2.s.rest.length ≤ p.s.rest.length := by
  rcases h : p.getLine with ⟨_ | l, p'⟩
  · rw [(getLine_none h).1]; exact Nat.le_refl _
  · have := getLine_length h; simp only; omega

theorem skipLines_length {n : Nat} {p p' : Parser} (h : skipLines n p = .ok p') :
    p'.s.rest.length + n = p.s.rest.length := by
  induction n generalizing p with
  | zero => simp [skipLines] at h; subst h; rfl
  | succ n ih =>
    rw [skipLines] at h
    split at h
    · simp at h
    · rename_i l p1 hg
      have := ih h
      have := getLine_length hg
      omega

theorem skipLines_zero_eq {p p' : Parser} (h : skipLines 0 p = .ok p') : p' = p := by
  simp [skipLines] at h; exact h.symm

/-! ### body parsers never un-read more than they read -/

/-- unread lines -/
abbrev len (p : Parser) : Nat := p.s.rest.length

theorem ctxAppendContent_le : ∀ (fuel : Nat) (par : Parser) (ls : List PatchLine) (a b : Int) (ls' : List PatchLine) (par' : Parser),
    ctxAppendContent fuel par ls a b = .ok (ls', par') → len par' ≤ len par := by
  intro fuel
  induction fuel with
  | zero => intro par ls a b ls' par' h; simp [ctxAppendContent] at h
  | succ fuel ih =>
    intro par ls a b ls' par' h
    rw [ctxAppendContent] at h
    split at h
    · split at h
      · simp at h
      · rename_i l p1 hg
        split at h
        · simp at h
        · have := ih _ _ _ _ _ _ h
          have := getLine_length hg
          simp only [len] at *; omega
    · simp only [Except.ok.injEq, Prod.mk.injEq] at h
      rw [h.2]; exact Nat.le_refl _

theorem ctxCheckNoNewline_le (par : Parser) (ls : List PatchLine) : len (ctxCheckNoNewline par ls).2 ≤ len par := by
  unfold ctxCheckNoNewline
  split
  · exact getLine_snd_le par
  · exact Nat.le_refl _

theorem ctxSkipToOldRange_le : ∀ (fuel : Nat) (par : Parser) (s e : Int) (par' : Parser) (s' e' : Int),
    ctxSkipToOldRange fuel par s e = .ok (par', s', e') → len par' ≤ len par := by
  intro fuel
  induction fuel with
  | zero => intro par s e par' s' e' h; simp [ctxSkipToOldRange] at h; rw [h.1]; exact Nat.le_refl _
  | succ fuel ih =>
    intro par s e par' s' e' h
    rw [ctxSkipToOldRange] at h
    split at h
    · rename_i p1 hg
      simp only [Except.ok.injEq, Prod.mk.injEq] at h
      rw [← h.1, len, (getLine_none hg).1]; exact Nat.le_refl _
    · rename_i l p1 hg
      have := getLine_length hg
      split at h
      · split at h
        rename_i ok s1 e1 _
        split at h
        · simp only [Except.ok.injEq, Prod.mk.injEq] at h
          rw [← h.1]; simp only [len]; omega
        · simp at h
      · have := ih _ _ _ _ _ _ h
        simp only [len] at *; omega

theorem parseContextHunk_lt (par : Parser) (ol : List PatchLine) (os : Int) (nl : List PatchLine) (ns : Int) (par' : Parser)
    (h : parseContextHunk par = .ok (ol, os, nl, ns, par')) : len par' < len par := by
  unfold parseContextHunk at h
  simp only [] at h
  split at h
  · simp at h
  · rename_i par1 oldStart oldEnd h1
    have h1 := ctxSkipToOldRange_le _ _ _ _ _ _ _ h1
    split at h
    · simp at h
    · rename_i l1 par2 h2
      have h2 := getLine_length h2
      split at h
      · simp at h
      · rename_i ns ne _
        split at h
        · simp at h
        · rename_i newLines par3 h3
          have h3 := ctxAppendContent_le _ _ _ _ _ _ _ h3
          have h4 := ctxCheckNoNewline_le par3 newLines
          simp only [Except.ok.injEq, Prod.mk.injEq] at h
          rw [← h.2.2.2.2]
          simp only [len] at *; omega
      · split at h
        · simp at h
        · rename_i old1 _
          split at h
          · simp at h
          · rename_i oldLines par3 h3
            have h3 := ctxAppendContent_le _ _ _ _ _ _ _ h3
            have h4 := ctxCheckNoNewline_le par3 oldLines
            generalize (ctxCheckNoNewline par3 oldLines).2 = par4 at h h4
            have h5 := getLine_snd_le par4
            generalize par4.getLine.2 = par5 at h h5
            split at h
            · simp at h
            · simp at h
            · have h6 := getLine_snd_le par5
              generalize hg6 : par5.getLine = g6 at h h6
              rcases g6 with ⟨l3o, par6⟩
              simp only [] at h h6
              rcases l3o with _ | l3 <;> simp only [] at h <;> (
              split at h
              · simp only [Except.ok.injEq, Prod.mk.injEq] at h
                rw [← h.2.2.2.2]; simp only [len] at *; omega
              · split at h
                · simp only [Except.ok.injEq, Prod.mk.injEq] at h
                  rw [← h.2.2.2.2]; simp only [len] at *; omega
                · split at h
                  · simp only [Except.ok.injEq, Prod.mk.injEq] at h
                    rw [← h.2.2.2.2]; simp only [len, PStream.seek] at *; omega
                  · split at h
                    · simp at h
                    · split at h
                      · simp at h
                      · rename_i newLines par7 h7
                        have h7 := ctxAppendContent_le _ _ _ _ _ _ _ h7
                        have h8 := ctxCheckNoNewline_le par7 newLines
                        simp only [Except.ok.injEq, Prod.mk.injEq] at h
                        rw [← h.2.2.2.2]; simp only [len] at *; omega)

theorem parseContextBody_le : ∀ (fuel : Nat) (par : Parser) (hs hs' : List Hunk) (par' : Parser),
    parseContextBody fuel par hs = .ok (hs', par') → len par' ≤ len par ∧ (0 < fuel → len par' < len par) := by
  intro fuel
  induction fuel with
  | zero => intro par hs hs' par' h; simp [parseContextBody] at h; rw [h.2]; simp
  | succ fuel ih =>
    intro par hs hs' par' h
    rw [parseContextBody] at h
    split at h
    · simp at h
    · rename_i ol os nl ns par1 h1
      have h1 := parseContextHunk_lt _ _ _ _ _ _ h1
      split at h
      · simp at h
      split at h
      · simp at h
      · simp only [] at h
        split at h <;> (
        split at h
        · simp only [Except.ok.injEq, Prod.mk.injEq] at h
          rw [← h.2]; simp only [len, PStream.seek] at *; omega
        · have := (ih _ _ _ _ h).1
          simp only [len, PStream.seek] at *; omega)

theorem normalReadSide_le : ∀ (fuel : Nat) (par : Parser) (count : Int) (m op : UInt8) (acc acc' : List PatchLine) (par' : Parser),
    normalReadSide fuel par count m op acc = .ok (acc', par') → len par' ≤ len par := by
  intro fuel
  induction fuel with
  | zero => intro par count m op acc acc' par' h; simp [normalReadSide] at h
  | succ fuel ih =>
    intro par count m op acc acc' par' h
    rw [normalReadSide] at h
    split at h
    · simp only [Except.ok.injEq, Prod.mk.injEq] at h
      rw [h.2]; exact Nat.le_refl _
    · split at h
      · simp at h
      · rename_i l p1 hg
        have := getLine_length hg
        split at h
        · split at h
          · simp at h
          · have := ih _ _ _ _ _ _ _ h
            simp only [len] at *; omega
        · simp at h

theorem noNewline_le (c : Prop) [Decidable c] (a b : List PatchLine) (p : Parser) :
    len (if c then (a, p.getLine.2) else (b, p)).2 ≤ len p := by
  split
  · exact getLine_snd_le p
  · exact Nat.le_refl _

theorem dashes_le (p3 : Parser) :
    len (if p3.s.peek = MINUS then
            match p3.getLine with
            | (some l, p') => if l.content = str "---" then p' else { s := p'.s.seek p3.s.rest, lineNo := p'.lineNo - 1 }
            | (none, p') => { s := p'.s.seek p3.s.rest, lineNo := p'.lineNo - 1 }
          else p3) ≤ len p3 := by
  split
  · split
    · rename_i l p' hg
      have := getLine_length hg
      split
      · simp only [len]; omega
      · simp [len, PStream.seek]
    · simp [len, PStream.seek]
  · exact Nat.le_refl _

theorem parseNormalBody_le : ∀ (fuel : Nat) (par : Parser) (hs hs' : List Hunk) (par' : Parser),
    parseNormalBody fuel par hs = .ok (hs', par') →
      len par' ≤ len par ∧
      (0 < fuel → hs = [] → par.s.eof = false → par.s.bad = false → len par' < len par ∨ par'.s.eof = true) := by
  intro fuel
  induction fuel with
  | zero => intro par hs hs' par' h; simp [parseNormalBody] at h; rw [h.2]; simp
  | succ fuel ih =>
    intro par hs hs' par' h
    rw [parseNormalBody] at h
    simp only [] at h
    split at h
    · rename_i par1 hg
      simp only [Except.ok.injEq, Prod.mk.injEq] at h
      have := getLine_none hg
      rw [← h.2, len, this.1]
      exact ⟨Nat.le_refl _, fun _ _ he hb => Or.inr (this.2 he hb)⟩
    · rename_i l par1 hg
      have hg := getLine_length hg
      split at h
      · simp only [Except.ok.injEq, Prod.mk.injEq] at h
        rw [← h.2]; simp only [len]
        exact ⟨by omega, fun _ _ _ _ => Or.inl (by omega)⟩
      · split at h
        · split at h
          · simp at h
          · rename_i hne
            simp only [Except.ok.injEq, Prod.mk.injEq] at h
            rw [← h.2]; simp only [len, PStream.seek]
            refine ⟨Nat.le_refl _, fun _ hnil => ?_⟩
            subst hnil; simp at hne
        · split at h
          · simp at h
          · rename_i olds par2 h2
            have h2 := normalReadSide_le _ _ _ _ _ _ _ _ h2
            split at h
            · simp at h
            · rename_i ls2 par5 h5
              have h5 := Nat.le_trans (normalReadSide_le _ _ _ _ _ _ _ _ h5) (Nat.le_trans (dashes_le _) (noNewline_le _ _ _ _))
              have h6 := Nat.le_trans (ih _ _ _ _ h).1 (noNewline_le _ _ _ _)
              simp only [len] at *
              exact ⟨by omega, fun _ _ _ _ => Or.inl (by omega)⟩

/-- the new-side bookkeeping of one hunk line -/
def stepNew (st1 : UState) (what : UInt8) : UState :=
  if what != MINUS then
    let ne := st1.newExp - 1
    if ne = 0 ∧ st1.par.s.peek = BACKSLASH then
      { st1 with newExp := ne, hunk := { st1.hunk with lines := markLastNone st1.hunk.lines }, par := (st1.par.getLine).2 }
    else { st1 with newExp := ne }
  else st1

/-- the old-side bookkeeping of one hunk line -/
def stepOld (st2 : UState) (what : UInt8) : UState :=
  if what != PLUS then
    let oe := st2.oldExp - 1
    if oe = 0 ∧ st2.par.s.peek = BACKSLASH then
      { st2 with oldExp := oe, hunk := { st2.hunk with lines := markLastNone st2.hunk.lines }, par := (st2.par.getLine).2 }
    else { st2 with oldExp := oe }
  else st2

/-- what `unifiedLoop` does after the last line of a hunk -/
def afterHunk (fuel : Nat) (st4 : UState) : Except Exn (Bool × UState) :=
  let pos := st4.par.s.rest
  match st4.par.getLine with
  | (none, par5) => .ok (true, { st4 with par := par5 })
  | (some l2, par5) =>
    let (ok, h') := parseUnifiedRange st4.hunk l2.content
    if !ok then
      .ok (true, { st4 with hunk := h', par := { s := par5.s.seek pos, lineNo := par5.lineNo - 1 } })
    else unifiedLoop fuel { st4 with par := par5, hunk := h', content := true, oldExp := h'.old.count, newExp := h'.new.count }

/-- one content line of a hunk -/
def contentStep (fuel : Nat) (st : UState) (nl : NewLine) (line : Bytes) : Except Exn (Bool × UState) :=
  match line with
  | [] => .error .logicError
  | what :: body =>
    if what != SP && what != MINUS && what != PLUS then .error .parserError
    else
      let st3 := stepOld (stepNew { st with hunk := { st.hunk with lines := st.hunk.lines ++ [⟨what, ⟨body, nl⟩⟩] } } what) what
      if st3.oldExp = 0 ∧ st3.newExp = 0 then
        afterHunk fuel { st3 with hunks := st3.hunks ++ [st3.hunk], hunk := { st3.hunk with lines := [] } }
      else unifiedLoop fuel st3

/-- a line read while looking for a range line -/
def rangeStep (fuel : Nat) (st : UState) (line : Bytes) : Except Exn (Bool × UState) :=
  let (ok, h') := parseUnifiedRange st.hunk line
  if ok then unifiedLoop fuel { st with hunk := h', content := true, oldExp := h'.old.count, newExp := h'.new.count }
  else unifiedLoop fuel { st with hunk := h' }

theorem unifiedLoop_succ (fuel : Nat) (st : UState) :
    unifiedLoop (fuel + 1) st =
      match st.par.getLine with
      | (none, par') => .ok (false, { st with par := par' })
      | (some l, par') =>
        if !st.content then rangeStep fuel { st with par := par' } l.content
        else contentStep fuel { st with par := par' } l.newline (if l.content.isEmpty then [SP] else l.content) := by
  rw [unifiedLoop]
  rfl

theorem stepNew_le (st : UState) (w : UInt8) : len (stepNew st w).par ≤ len st.par := by
  unfold stepNew
  split
  · simp only []
    split
    · exact getLine_snd_le _
    · exact Nat.le_refl _
  · exact Nat.le_refl _

theorem stepOld_le (st : UState) (w : UInt8) : len (stepOld st w).par ≤ len st.par := by
  unfold stepOld
  split
  · simp only []
    split
    · exact getLine_snd_le _
    · exact Nat.le_refl _
  · exact Nat.le_refl _

/-- what the recursive calls are assumed to satisfy -/
def LoopLe (fuel : Nat) : Prop :=
  ∀ (st : UState) (b : Bool) (st' : UState), unifiedLoop fuel st = .ok (b, st') → len st'.par ≤ len st.par

theorem afterHunk_le (fuel : Nat) (ih : LoopLe fuel) (st : UState) (b : Bool) (st' : UState)
    (h : afterHunk fuel st = .ok (b, st')) : len st'.par ≤ len st.par := by
  unfold afterHunk at h
  simp only [] at h
  split at h
  · rename_i par5 hg5
    simp only [Except.ok.injEq, Prod.mk.injEq] at h
    rw [← h.2]; simp only [len]; rw [(getLine_none hg5).1]; exact Nat.le_refl _
  · rename_i l2 par5 hg5
    have hg5 := getLine_length hg5
    split at h
    · simp only [Except.ok.injEq, Prod.mk.injEq] at h
      rw [← h.2]; simp only [len, PStream.seek]; exact Nat.le_refl _
    · have := ih _ _ _ h
      simp only [len] at *; omega

theorem contentStep_le (fuel : Nat) (ih : LoopLe fuel) (st : UState) (nl : NewLine) (line : Bytes) (b : Bool) (st' : UState)
    (h : contentStep fuel st nl line = .ok (b, st')) : len st'.par ≤ len st.par := by
  unfold contentStep at h
  split at h
  · simp at h
  · rename_i what body
    split at h
    · simp at h
    · have h3 := Nat.le_trans (stepOld_le (stepNew { st with hunk := { st.hunk with lines := st.hunk.lines ++ [⟨what, ⟨body, nl⟩⟩] } } what) what)
        (stepNew_le _ what)
      revert h h3
      simp only []
      generalize stepOld (stepNew _ what) what = st3
      intro h h3
      split at h
      · exact Nat.le_trans (afterHunk_le fuel ih _ _ _ h) h3
      · exact Nat.le_trans (ih _ _ _ h) h3

theorem rangeStep_le (fuel : Nat) (ih : LoopLe fuel) (st : UState) (line : Bytes) (b : Bool) (st' : UState)
    (h : rangeStep fuel st line = .ok (b, st')) : len st'.par ≤ len st.par := by
  unfold rangeStep at h
  simp only [] at h
  split at h
  · have := ih _ _ _ h; exact this
  · have := ih _ _ _ h; exact this

theorem unifiedLoop_le : ∀ (fuel : Nat) (st : UState) (b : Bool) (st' : UState),
    unifiedLoop fuel st = .ok (b, st') →
      len st'.par ≤ len st.par ∧
      (0 < fuel → st.par.s.eof = false → st.par.s.bad = false → len st'.par < len st.par ∨ st'.par.s.eof = true) := by
  intro fuel
  induction fuel with
  | zero => intro st b st' h; simp [unifiedLoop] at h; rw [h.2]; simp
  | succ fuel ih =>
    intro st b st' h
    have ih' : LoopLe fuel := fun st b st' h => (ih st b st' h).1
    rw [unifiedLoop_succ] at h
    split at h
    · rename_i par1 hg
      simp only [Except.ok.injEq, Prod.mk.injEq] at h
      have := getLine_none hg
      rw [← h.2]; simp only [len]; rw [this.1]
      exact ⟨Nat.le_refl _, fun _ he hb => Or.inr (this.2 he hb)⟩
    · rename_i l par1 hg
      have hg := getLine_length hg
      suffices len st'.par ≤ len par1 by
        simp only [len] at *
        exact ⟨by omega, fun _ _ _ => Or.inl (by omega)⟩
      split at h
      · exact rangeStep_le fuel ih' _ _ _ _ h
      · exact contentStep_le fuel ih' _ _ _ _ _ h

theorem parseUnifiedBody_le (par : Parser) (hs : List Hunk) (par' : Parser) (h : parseUnifiedBody par = .ok (hs, par')) :
    len par' ≤ len par ∧ (par.s.eof = false → par.s.bad = false → len par' < len par ∨ par'.s.eof = true) := by
  unfold parseUnifiedBody at h
  have key : ∀ b st, unifiedLoop (par.s.rest.length + 2) { par := par } = .ok (b, st) →
      len st.par ≤ len par ∧ (par.s.eof = false → par.s.bad = false → len st.par < len par ∨ st.par.s.eof = true) := by
    intro b st hl
    have := unifiedLoop_le _ _ _ _ hl
    exact ⟨this.1, this.2 (by omega)⟩
  split at h
  · simp at h
  · rename_i st hl
    simp only [Except.ok.injEq, Prod.mk.injEq] at h
    rw [← h.2]; exact key _ _ hl
  · rename_i st hl
    have := key _ _ hl
    split at h
    · simp only [Except.ok.injEq, Prod.mk.injEq] at h
      rw [← h.2]; exact this
    · split at h
      · simp at h
      · split at h
        · simp at h
        · simp only [Except.ok.injEq, Prod.mk.injEq] at h
          rw [← h.2]; exact this

/-- **a successful body parse makes progress**: it never leaves more unread lines than it found, and on a stream
    with clear flags it consumes at least one line or sets the eof flag -/
theorem parseBody_le (par : Parser) (p p' : Patch) (par' : Parser) (h : parseBody par p = .ok (p', par')) :
    len par' ≤ len par ∧ (par.s.eof = false → par.s.bad = false → len par' < len par ∨ par'.s.eof = true) := by
  unfold parseBody at h
  simp only [] at h
  split at h
  · cases hb : parseUnifiedBody par with
    | error e => rw [hb] at h; simp [Except.map] at h
    | ok r =>
      rcases r with ⟨hs, q⟩
      rw [hb] at h
      simp only [Except.map, Except.ok.injEq, Prod.mk.injEq] at h
      rw [← h.2]; exact parseUnifiedBody_le _ _ _ hb
  · cases hb : parseUnifiedBody par with
    | error e => rw [hb] at h; simp [Except.map] at h
    | ok r =>
      rcases r with ⟨hs, q⟩
      rw [hb] at h
      simp only [Except.map, Except.ok.injEq, Prod.mk.injEq] at h
      rw [← h.2]; exact parseUnifiedBody_le _ _ _ hb
  · cases hb : parseContextBody (par.s.rest.length + 2) par [] with
    | error e => rw [hb] at h; simp [Except.map] at h
    | ok r =>
      rcases r with ⟨hs, q⟩
      rw [hb] at h
      simp only [Except.map, Except.ok.injEq, Prod.mk.injEq] at h
      rw [← h.2]
      have := parseContextBody_le _ _ _ _ _ hb
      exact ⟨this.1, fun _ _ => Or.inl (this.2 (by omega))⟩
  · cases hb : parseNormalBody (par.s.rest.length + 2) par [] with
    | error e => rw [hb] at h; simp [Except.map] at h
    | ok r =>
      rcases r with ⟨hs, q⟩
      rw [hb] at h
      simp only [Except.map, Except.ok.injEq, Prod.mk.injEq] at h
      rw [← h.2]
      have := parseNormalBody_le _ _ _ _ _ hb
      exact ⟨this.1, this.2 (by omega) rfl⟩
  · simp at h

theorem map_ok {ε α β} {f : α → β} {x : Except ε α} {y : β} (h : x.map f = .ok y) : ∃ a, x = .ok a ∧ f a = y := by
  cases x with
  | error e => simp [Except.map] at h
  | ok a => exact ⟨a, rfl, by simpa [Except.map] using h⟩

/-! ### the header scan: the pieces of `headerStep` -/

/-- the unified part of `headerStep` -/
def hdrUnified (_last : Format) (st : HState) (p : Patch) (line : Bytes) : Option (HState × Bool) × HState :=
  if p.format = .unknown ∨ p.format = .unified then
    let (ok, h') := parseUnifiedRange st.hunk line
    let st' := { st with hunk := h' }
    if ok then (some ({ st' with thisLooks := .unified, ltfh := st.lines }, true), st') else (none, st')
  else (none, st)

/-- the normal part of `headerStep` -/
def hdrNormal (last : Format) (st : HState) (p : Patch) (line : Bytes) : Option (HState × Bool) × HState :=
  if p.format = .unknown ∨ p.format = .normal then
    if last = .normal ∧ (startsWith line "> " ∨ startsWith line "< ") then
      (some ({ st with patch := { p with format := .normal, newPath := [], oldPath := [] }, foundFirstHunk := true }, false), st)
    else
      let (ok, h') := parseNormalRange st.hunk line
      let st' := { st with hunk := h' }
      if ok then (some ({ st' with thisLooks := .normal, ltfh := st.lines }, true), st') else (none, st')
  else (none, st)

/-- the context part of `headerStep` -/
def hdrContext (last : Format) (st : HState) (p : Patch) (line : Bytes) : Except Exn (HState × Bool) :=
  if p.format = .unknown ∨ p.format = .context then
    if last = .context ∧ startsWith line "*** " then
      let hunk' : Hunk :=
        if endsWith line " ****" then
          let (ok, s, _) := parseContextRange (-1) (-1) (ctxRangeText line)
          if ok then { st.hunk with old := { st.hunk.old with start := s } } else st.hunk
        else st.hunk
      let hunk'' := ctxLookahead (st.par.s.rest.length + 1) st.par hunk'
      .ok ({ st with patch := { p with format := .context }, hunk := hunk'', foundFirstHunk := true }, false)
    else if startsWith line "***************" then
      .ok ({ st with thisLooks := .context, ltfh := st.lines }, true)
    else .ok (st, true)
  else .ok (st, true)

/-- `headerStep` after the keyword lines -/
def hdrTail (last : Format) (st : HState) (line : Bytes) (strip : Int) : Except Exn (HState × Bool) :=
  let ext : Except Exn (Bool × Patch) := if st.isGit then parseGitExtendedInfo line st.patch strip else .ok (false, st.patch)
  match ext with
  | .error e => .error e
  | .ok (true, p') => .ok ({ st with patch := p', ltfh := st.lines + 1 }, true)
  | .ok (false, p') =>
    match hdrUnified last { st with patch := p' } p' line with
    | (some res, _) => .ok res
    | (none, st) =>
      match hdrNormal last st p' line with
      | (some res, _) => .ok res
      | (none, st) => hdrContext last st p' line

theorem headerStep_eq (st0 : HState) (line : Bytes) (strip : Int) :
    headerStep st0 line strip =
      (let last := st0.thisLooks
       let st := { st0 with lines := st0.lines + 1, thisLooks := Format.unknown }
       let p := st.patch
       if (p.format = .unknown ∨ p.format = .unified) ∧ last = .unified ∧
           (startsWith line "+" ∨ startsWith line "-" ∨ startsWith line " " ∨
            (line = [] ∧ (0 : Int) < st.hunk.old.count ∧ (0 : Int) < st.hunk.new.count)) then
         .ok ({ st with patch := { p with oldPath := p.newPath, newPath := p.oldPath,
                                          oldTime := p.newTime, newTime := p.oldTime, format := .unified },
                        foundFirstHunk := true }, false)
       else
       match (match (if last != .context then consumeStr (str "*** ") line else none) with
              | some r => some r
              | none => consumeStr (str "+++ ") line) with
       | some r =>
         (parseFileLine r strip).map fun res =>
           let (pa, ti) := assignFileLine res p.oldTime
           ({ st with patch := { p with oldPath := pa, oldTime := ti } }, true)
       | none =>
       match consumeStr (str "--- ") line with
       | some r =>
         (parseFileLine r strip).map fun res =>
           let (pa, ti) := assignFileLine res p.newTime
           ({ st with patch := { p with newPath := pa, newTime := ti } }, true)
       | none =>
       match consumeStr (str "Index: ") line with
       | some r => (parseFileLine r strip).map fun res => ({ st with patch := { p with indexPath := res.1 } }, true)
       | none =>
       match consumeStr (str "Prereq: ") line with
       | some r => .ok ({ st with patch := { p with prerequisite := r.takeWhile fun c => c != SP && c != TAB } }, true)
       | none =>
       match consumeStr (str "diff --git ") line with
       | some r =>
         if st.isGit then .ok ({ st with ltfh := st.lines, shouldParseBody := false }, false)
         else (parseGitHeaderName r strip).map fun name =>
           ({ st with patch := { p with oldPath := name, newPath := name, format := .unified }, isGit := true,
                      ltfh := st.lines + 1 }, true)
       | none => hdrTail last st line strip) := by
  unfold headerStep
  rfl

/-- the fields of the scan state that the tail of `headerStep` leaves alone -/
def Good (L : Nat) (S : Bool) (x : HState) : Prop := x.lines = L ∧ x.shouldParseBody = S

theorem hdrUnified_good {L S} (last : Format) (st : HState) (p : Patch) (line : Bytes) (hg : Good L S st) :
    Good L S (hdrUnified last st p line).2 ∧ ∀ res, (hdrUnified last st p line).1 = some res → Good L S res.1 := by
  unfold hdrUnified
  simp only []
  split
  · split
    · refine ⟨hg, ?_⟩
      intro res hr; simp only [Option.some.injEq] at hr; subst hr; exact hg
    · exact ⟨hg, by intro res hr; simp at hr⟩
  · exact ⟨hg, by intro res hr; simp at hr⟩

theorem hdrNormal_good {L S} (last : Format) (st : HState) (p : Patch) (line : Bytes) (hg : Good L S st) :
    Good L S (hdrNormal last st p line).2 ∧ ∀ res, (hdrNormal last st p line).1 = some res → Good L S res.1 := by
  unfold hdrNormal
  simp only []
  split
  · split
    · refine ⟨hg, ?_⟩
      intro res hr; simp only [Option.some.injEq] at hr; subst hr; exact hg
    · split
      · refine ⟨hg, ?_⟩
        intro res hr; simp only [Option.some.injEq] at hr; subst hr; exact hg
      · exact ⟨hg, by intro res hr; simp at hr⟩
  · exact ⟨hg, by intro res hr; simp at hr⟩

theorem hdrContext_good {L S} (last : Format) (st : HState) (p : Patch) (line : Bytes) (hg : Good L S st)
    (res : HState × Bool) (h : hdrContext last st p line = .ok res) : Good L S res.1 := by
  unfold hdrContext at h
  simp only [] at h
  split at h
  · split at h
    · simp only [Except.ok.injEq] at h; subst h; exact hg
    · split at h
      · simp only [Except.ok.injEq] at h; subst h; exact hg
      · simp only [Except.ok.injEq] at h; subst h; exact hg
  · simp only [Except.ok.injEq] at h; subst h; exact hg

theorem hdrTail_good {L S} (last : Format) (st : HState) (line : Bytes) (strip : Int) (hg : Good L S st)
    (res : HState × Bool) (h : hdrTail last st line strip = .ok res) : Good L S res.1 := by
  unfold hdrTail at h
  simp only [] at h
  split at h
  · simp at h
  · simp only [Except.ok.injEq] at h; subst h; exact hg
  · rename_i p' _
    have h1 := hdrUnified_good (L := L) (S := S) last { st with patch := p' } p' line hg
    revert h h1
    generalize hdrUnified last { st with patch := p' } p' line = r1
    rcases r1 with ⟨_ | res1, st1⟩
    · intro h h1
      simp only [] at h h1
      have h2 := hdrNormal_good (L := L) (S := S) last st1 p' line h1.1
      revert h h2
      generalize hdrNormal last st1 p' line = r2
      rcases r2 with ⟨_ | res2, st2⟩
      · intro h h2
        simp only [] at h h2
        exact hdrContext_good last st2 p' line h2.1 res h
      · intro h h2
        simp only [Except.ok.injEq] at h; subst h
        exact h2.2 _ rfl
    · intro h h1
      simp only [Except.ok.injEq] at h; subst h
      exact h1.2 _ rfl

/-- what one step of the header scan does to the line count and to `should_parse_body` -/
def StepInv (st st' : HState) (c : Bool) : Prop :=
  st'.lines = st.lines + 1 ∧
    (st'.shouldParseBody = st.shouldParseBody ∨ (st.isGit = true ∧ st'.ltfh = st.lines + 1 ∧ c = false))

theorem headerStep_inv (st : HState) (line : Bytes) (strip : Int) (st' : HState) (c : Bool)
    (h : headerStep st line strip = .ok (st', c)) : StepInv st st' c := by
  rw [headerStep_eq] at h
  simp only [] at h
  split at h
  · simp only [Except.ok.injEq, Prod.mk.injEq] at h
    obtain ⟨rfl, rfl⟩ := h
    exact ⟨rfl, Or.inl rfl⟩
  split at h
  · obtain ⟨a, _, ha⟩ := map_ok h
    simp only [Prod.mk.injEq] at ha
    obtain ⟨rfl, rfl⟩ := ha
    exact ⟨rfl, Or.inl rfl⟩
  · split at h
    · obtain ⟨a, _, ha⟩ := map_ok h
      simp only [Prod.mk.injEq] at ha
      obtain ⟨rfl, rfl⟩ := ha
      exact ⟨rfl, Or.inl rfl⟩
    · split at h
      · obtain ⟨a, _, ha⟩ := map_ok h
        simp only [Prod.mk.injEq] at ha
        obtain ⟨rfl, rfl⟩ := ha
        exact ⟨rfl, Or.inl rfl⟩
      · split at h
        · simp only [Except.ok.injEq, Prod.mk.injEq] at h
          obtain ⟨rfl, rfl⟩ := h
          exact ⟨rfl, Or.inl rfl⟩
        · split at h
          · split at h
            · rename_i hgit
              simp only [Except.ok.injEq, Prod.mk.injEq] at h
              obtain ⟨rfl, rfl⟩ := h
              exact ⟨rfl, Or.inr ⟨hgit, rfl, rfl⟩⟩
            · obtain ⟨a, _, ha⟩ := map_ok h
              simp only [Prod.mk.injEq] at ha
              obtain ⟨rfl, rfl⟩ := ha
              exact ⟨rfl, Or.inl rfl⟩
          · have := hdrTail_good (L := st.lines + 1) (S := st.shouldParseBody) _ _ _ _ (by exact ⟨rfl, rfl⟩) _ h
            exact ⟨this.1, Or.inl this.2⟩

/-- the header scan leaves `should_parse_body` set unless it stopped at a second `diff --git` line, which is at least
    the second line of the section -/
theorem headerLoop_inv (strip : Int) : ∀ (fuel : Nat) (st st' : HState),
    (st.isGit = true → 1 ≤ st.lines) → st.shouldParseBody = true → headerLoop strip fuel st = .ok st' →
      st'.shouldParseBody = true ∨ 2 ≤ st'.ltfh := by
  intro fuel
  induction fuel with
  | zero => intro st st' _ hs h; simp [headerLoop] at h; subst h; exact Or.inl hs
  | succ fuel ih =>
    intro st st' hgit hs h
    rw [headerLoop] at h
    split at h
    · simp only [Except.ok.injEq] at h; subst h; exact Or.inl hs
    · rename_i l par1 _
      split at h
      · simp at h
      · rename_i st1 hstep
        have := headerStep_inv _ _ _ _ _ hstep
        simp only [StepInv] at this
        refine ih st1 st' (fun _ => by omega) ?_ h
        rcases this.2 with h2 | h2
        · rw [h2]; exact hs
        · simp at h2
      · rename_i st1 hstep
        simp only [Except.ok.injEq] at h; subst h
        have := headerStep_inv _ _ _ _ _ hstep
        simp only [StepInv] at this
        rcases this.2 with h2 | h2
        · left; rw [h2]; exact hs
        · right; have := hgit h2.1; omega

/-- **`parse_patch_header` re-reads within what it scanned**: the stream is left at most where it started; and either at
    least one line is consumed, or nothing is consumed, the flags are clear and the body is to be parsed -/
theorem parseHeader_le (par : Parser) (patch : Patch) (strip : Int) (body : Bool) (p : Patch) (info : HeaderInfo) (par' : Parser)
    (h : parseHeader par patch strip = .ok (body, p, info, par')) :
    len par' + (info.linesTillFirstHunk - 1) = len par ∧
    (len par' < len par ∨ (par'.s.eof = false ∧ par'.s.bad = false ∧ body = true)) := by
  unfold parseHeader at h
  simp only [] at h
  split at h
  · simp at h
  · rename_i st hl
    have hinv := headerLoop_inv strip _ _ _ (by simp) rfl hl
    split at h
    · simp at h
    · rename_i par2 hsk
      simp only [Except.ok.injEq, Prod.mk.injEq] at h
      obtain ⟨hb, _, hi, hp⟩ := h
      subst hb hi hp
      have hlen := skipLines_length hsk
      simp only [PStream.seek, PStream.clear] at hlen
      refine ⟨hlen, ?_⟩
      by_cases h2 : 2 ≤ st.ltfh
      · left; simp only [len]; omega
      · right
        have h0 : st.ltfh - 1 = 0 := by omega
        rw [h0] at hsk
        have := skipLines_zero_eq hsk
        subst this
        refine ⟨rfl, rfl, ?_⟩
        rcases hinv with h | h
        · exact h
        · omega

/-! ### the header scan: git sections and the first hunk -/

/-- the fields the pass-through states of the tail of `headerStep` leave alone -/
def Good2 (L : Nat) (G : Bool) (lt : Nat) (F : Bool) (x : HState) : Prop :=
  x.lines = L ∧ x.isGit = G ∧ x.ltfh = lt ∧ x.foundFirstHunk = F ∧ x.thisLooks = .unknown

/-- … and a result of the tail (`last`: what the line before looked like): line count and git flag stay; the first-hunk
    line is the old one or — this line being a range line or a git extended header — this line or the next; the
    "looks like" marker is set only together with "first hunk on this line"; the first-hunk flag is set only by a result
    that leaves the loop with one of the three hunk formats, after a line that looked like a range -/
def Res2 (last : Format) (L : Nat) (G : Bool) (lt : Nat) (F : Bool) (r : HState × Bool) : Prop :=
  r.1.lines = L ∧ r.1.isGit = G ∧ (r.1.ltfh = lt ∨ r.1.ltfh = L ∨ r.1.ltfh = L + 1) ∧
    (r.1.thisLooks = .unknown ∨ r.1.ltfh = L) ∧
    (r.1.foundFirstHunk = F ∨
      (r.2 = false ∧ r.1.foundFirstHunk = true ∧ last ≠ .unknown ∧ r.1.ltfh = lt ∧
        (r.1.patch.format = .unified ∨ r.1.patch.format = .normal ∨ r.1.patch.format = .context)))

theorem Good2.res {last L G lt F} {x : HState} (h : Good2 L G lt F x) (c : Bool) : Res2 last L G lt F (x, c) :=
  ⟨h.1, h.2.1, Or.inl h.2.2.1, Or.inl h.2.2.2.2, Or.inl h.2.2.2.1⟩

theorem hdrUnified_good2 {L G lt F} (last : Format) (st : HState) (p : Patch) (line : Bytes) (hg : Good2 L G lt F st) :
    Good2 L G lt F (hdrUnified last st p line).2 ∧
      ∀ res, (hdrUnified last st p line).1 = some res → Res2 last L G lt F res := by
  unfold hdrUnified
  simp only []
  split
  · split
    · refine ⟨hg, ?_⟩
      intro res hr; simp only [Option.some.injEq] at hr; subst hr
      exact ⟨hg.1, hg.2.1, Or.inr (Or.inl hg.1), Or.inr hg.1, Or.inl hg.2.2.2.1⟩
    · exact ⟨hg, by intro res hr; simp at hr⟩
  · exact ⟨hg, by intro res hr; simp at hr⟩

theorem hdrNormal_good2 {L G lt F} (last : Format) (st : HState) (p : Patch) (line : Bytes) (hg : Good2 L G lt F st) :
    Good2 L G lt F (hdrNormal last st p line).2 ∧
      ∀ res, (hdrNormal last st p line).1 = some res → Res2 last L G lt F res := by
  unfold hdrNormal
  simp only []
  split
  · split
    · rename_i hl
      refine ⟨hg, ?_⟩
      intro res hr; simp only [Option.some.injEq] at hr; subst hr
      exact ⟨hg.1, hg.2.1, Or.inl hg.2.2.1, Or.inl hg.2.2.2.2,
        Or.inr ⟨rfl, rfl, by rw [hl.1]; decide, hg.2.2.1, Or.inr (Or.inl rfl)⟩⟩
    · split
      · refine ⟨hg, ?_⟩
        intro res hr; simp only [Option.some.injEq] at hr; subst hr
        exact ⟨hg.1, hg.2.1, Or.inr (Or.inl hg.1), Or.inr hg.1, Or.inl hg.2.2.2.1⟩
      · exact ⟨hg, by intro res hr; simp at hr⟩
  · exact ⟨hg, by intro res hr; simp at hr⟩

theorem hdrContext_good2 {L G lt F} (last : Format) (st : HState) (p : Patch) (line : Bytes) (hg : Good2 L G lt F st)
    (res : HState × Bool) (h : hdrContext last st p line = .ok res) : Res2 last L G lt F res := by
  unfold hdrContext at h
  simp only [] at h
  split at h
  · split at h
    · rename_i hl
      simp only [Except.ok.injEq] at h; subst h
      exact ⟨hg.1, hg.2.1, Or.inl hg.2.2.1, Or.inl hg.2.2.2.2,
        Or.inr ⟨rfl, rfl, by rw [hl.1]; decide, hg.2.2.1, Or.inr (Or.inr rfl)⟩⟩
    · split at h
      · simp only [Except.ok.injEq] at h; subst h
        exact ⟨hg.1, hg.2.1, Or.inr (Or.inl hg.1), Or.inr hg.1, Or.inl hg.2.2.2.1⟩
      · simp only [Except.ok.injEq] at h; subst h; exact hg.res _
  · simp only [Except.ok.injEq] at h; subst h; exact hg.res _

theorem hdrTail_good2 {L G lt F} (last : Format) (st : HState) (line : Bytes) (strip : Int) (hg : Good2 L G lt F st)
    (res : HState × Bool) (h : hdrTail last st line strip = .ok res) : Res2 last L G lt F res := by
  unfold hdrTail at h
  simp only [] at h
  split at h
  · simp at h
  · simp only [Except.ok.injEq] at h; subst h
    exact ⟨hg.1, hg.2.1, Or.inr (Or.inr (by rw [← hg.1])), Or.inl hg.2.2.2.2, Or.inl hg.2.2.2.1⟩
  · rename_i p' _
    have h1 := hdrUnified_good2 (L := L) (G := G) (lt := lt) (F := F) last { st with patch := p' } p' line hg
    revert h h1
    generalize hdrUnified last { st with patch := p' } p' line = r1
    rcases r1 with ⟨_ | res1, st1⟩
    · intro h h1
      simp only [] at h h1
      have h2 := hdrNormal_good2 (L := L) (G := G) (lt := lt) (F := F) last st1 p' line h1.1
      revert h h2
      generalize hdrNormal last st1 p' line = r2
      rcases r2 with ⟨_ | res2, st2⟩
      · intro h h2
        simp only [] at h h2
        exact hdrContext_good2 last st2 p' line h2.1 res h
      · intro h h2
        simp only [Except.ok.injEq] at h; subst h
        exact h2.2 _ rfl
    · intro h h1
      simp only [Except.ok.injEq] at h; subst h
      exact h1.2 _ rfl

/-- what one step of the header scan does to the line count, the git flag, the first-hunk line, the "looks like" marker
    and the first-hunk flag: either the git flag stays and the first-hunk line is the old one, this line or the next;
    or this is the first `diff --git` line of the section and the first-hunk line is the line after it -/
def StepInv2 (st st' : HState) (c : Bool) : Prop :=
  st'.lines = st.lines + 1 ∧
  ((st'.isGit = st.isGit ∧ (st'.ltfh = st.ltfh ∨ st'.ltfh = st.lines + 1 ∨ st'.ltfh = st.lines + 2)) ∨
   (st.isGit = false ∧ st'.isGit = true ∧ st'.ltfh = st.lines + 2)) ∧
  (st'.thisLooks = .unknown ∨ st'.ltfh = st.lines + 1) ∧
  (st'.foundFirstHunk = st.foundFirstHunk ∨
    (c = false ∧ st'.foundFirstHunk = true ∧ st.thisLooks ≠ .unknown ∧ st'.ltfh = st.ltfh ∧
      (st'.patch.format = .unified ∨ st'.patch.format = .normal ∨ st'.patch.format = .context)))

theorem headerStep_inv2 (st : HState) (line : Bytes) (strip : Int) (st' : HState) (c : Bool)
    (h : headerStep st line strip = .ok (st', c)) : StepInv2 st st' c := by
  rw [headerStep_eq] at h
  simp only [] at h
  split at h
  · rename_i hl
    simp only [Except.ok.injEq, Prod.mk.injEq] at h
    obtain ⟨rfl, rfl⟩ := h
    exact ⟨rfl, Or.inl ⟨rfl, Or.inl rfl⟩, Or.inl rfl,
      Or.inr ⟨rfl, rfl, by rw [hl.2.1]; decide, rfl, Or.inl rfl⟩⟩
  split at h
  · obtain ⟨a, _, ha⟩ := map_ok h
    simp only [Prod.mk.injEq] at ha
    obtain ⟨rfl, rfl⟩ := ha
    exact ⟨rfl, Or.inl ⟨rfl, Or.inl rfl⟩, Or.inl rfl, Or.inl rfl⟩
  · split at h
    · obtain ⟨a, _, ha⟩ := map_ok h
      simp only [Prod.mk.injEq] at ha
      obtain ⟨rfl, rfl⟩ := ha
      exact ⟨rfl, Or.inl ⟨rfl, Or.inl rfl⟩, Or.inl rfl, Or.inl rfl⟩
    · split at h
      · obtain ⟨a, _, ha⟩ := map_ok h
        simp only [Prod.mk.injEq] at ha
        obtain ⟨rfl, rfl⟩ := ha
        exact ⟨rfl, Or.inl ⟨rfl, Or.inl rfl⟩, Or.inl rfl, Or.inl rfl⟩
      · split at h
        · simp only [Except.ok.injEq, Prod.mk.injEq] at h
          obtain ⟨rfl, rfl⟩ := h
          exact ⟨rfl, Or.inl ⟨rfl, Or.inl rfl⟩, Or.inl rfl, Or.inl rfl⟩
        · split at h
          · split at h
            · simp only [Except.ok.injEq, Prod.mk.injEq] at h
              obtain ⟨rfl, rfl⟩ := h
              exact ⟨rfl, Or.inl ⟨rfl, Or.inr (Or.inl rfl)⟩, Or.inl rfl, Or.inl rfl⟩
            · rename_i hgit
              obtain ⟨a, _, ha⟩ := map_ok h
              simp only [Prod.mk.injEq] at ha
              obtain ⟨rfl, rfl⟩ := ha
              exact ⟨rfl, Or.inr ⟨by simpa using hgit, rfl, rfl⟩, Or.inl rfl, Or.inl rfl⟩
          · have := hdrTail_good2 (L := st.lines + 1) (G := st.isGit) (lt := st.ltfh) (F := st.foundFirstHunk)
              _ _ _ _ (by exact ⟨rfl, rfl, rfl, rfl, rfl⟩) _ h
            exact ⟨this.1, Or.inl ⟨this.2.1, this.2.2.1⟩, this.2.2.2.1, this.2.2.2.2⟩

/-- the invariant of the header scan: inside a git section at least the `diff --git` line has been counted and belongs
    to the header (`ltfh ≥ 2`, so the re-read skips at least that line); a line that looks like a range is the candidate
    for the first-hunk line; and the first-hunk flag is set only together with one of the three hunk formats and a
    first-hunk line -/
def ScanInv (st : HState) : Prop :=
  (st.isGit = true → 1 ≤ st.lines ∧ 2 ≤ st.ltfh) ∧
  (st.thisLooks ≠ .unknown → st.ltfh = st.lines ∧ 1 ≤ st.lines) ∧
  (st.foundFirstHunk = true →
    1 ≤ st.ltfh ∧ (st.patch.format = .unified ∨ st.patch.format = .normal ∨ st.patch.format = .context))

theorem headerStep_scanInv (st : HState) (line : Bytes) (strip : Int) (st' : HState) (c : Bool)
    (h : headerStep st line strip = .ok (st', c)) (hi : ScanInv st) (hf : st.foundFirstHunk = false) :
    ScanInv st' ∧ (c = true → st'.foundFirstHunk = false) := by
  obtain ⟨h1, h2, h3, h4⟩ := headerStep_inv2 st line strip st' c h
  refine ⟨⟨?_, ?_, ?_⟩, ?_⟩
  · intro hg
    rcases h2 with ⟨e, hl⟩ | ⟨_, _, hl⟩
    · have := hi.1 (e ▸ hg); omega
    · omega
  · intro hl
    rcases h3 with e | e
    · exact absurd e hl
    · omega
  · intro hfound
    rcases h4 with e | ⟨_, _, hlast, hlt, hfmt⟩
    · rw [e, hf] at hfound; cases hfound
    · have := hi.2.1 hlast
      exact ⟨by omega, hfmt⟩
  · intro hc
    rcases h4 with e | ⟨e, _⟩
    · rw [e, hf]
    · rw [hc] at e; cases e

theorem headerLoop_scanInv (strip : Int) : ∀ (fuel : Nat) (st st' : HState),
    ScanInv st → st.foundFirstHunk = false → headerLoop strip fuel st = .ok st' → ScanInv st' := by
  intro fuel
  induction fuel with
  | zero => intro st st' hi _ h; simp [headerLoop] at h; subst h; exact hi
  | succ fuel ih =>
    intro st st' hi hf h
    rw [headerLoop] at h
    split at h
    · simp only [Except.ok.injEq] at h; subst h; exact hi
    · rename_i l par1 _
      split at h
      · simp at h
      · rename_i st1 hstep
        have := headerStep_scanInv _ _ _ _ _ hstep hi hf
        exact ih st1 st' this.1 (this.2 rfl) h
      · rename_i st1 hstep
        simp only [Except.ok.injEq] at h; subst h
        exact (headerStep_scanInv _ _ _ _ _ hstep hi hf).1

theorem opAdjust_format (p : Patch) (a b : Prop) [Decidable a] [Decidable b] :
    (if p.operation = .change then
        (if a then { p with operation := .delete } else if b then { p with operation := .add } else p)
      else p).format = p.format := by
  split
  · split
    · rfl
    · split <;> rfl
  · rfl

/-- **a git header is consumed**: when the header scan returns a git patch, the first hunk (or the next section) is at
    least on the second line of the section — the `diff --git` line always belongs to the header — so the parser is left
    strictly after the start of the section -/
theorem parseHeader_git (par : Parser) (patch : Patch) (strip : Int) (body : Bool) (p : Patch) (info : HeaderInfo) (par' : Parser)
    (h : parseHeader par patch strip = .ok (body, p, info, par')) (hg : p.format = .git) :
    info.format = .git ∧ 2 ≤ info.linesTillFirstHunk ∧ len par' < len par := by
  have hle := (parseHeader_le par patch strip body p info par' h).1
  unfold parseHeader at h
  simp only [] at h
  split at h
  · simp at h
  · rename_i st hl
    have hinv := headerLoop_scanInv strip _ _ _ ⟨by simp, by simp, by simp⟩ rfl hl
    split at h
    · simp at h
    · rename_i par2 hsk
      simp only [Except.ok.injEq, Prod.mk.injEq] at h
      obtain ⟨_, hp, hi, _⟩ := h
      subst hi
      have hfmt : p.format = (if st.isGit then { st.patch with format := .git }
             else if !st.foundFirstHunk then { st.patch with format := .unknown } else st.patch).format := by
        rw [← hp]; exact opAdjust_format _ _ _
      rw [hg] at hfmt
      have hgit : st.isGit = true := by
        cases hgi : st.isGit with
        | true => rfl
        | false =>
          exfalso
          rw [hgi] at hfmt
          cases hff : st.foundFirstHunk with
          | false => rw [hff] at hfmt; simp at hfmt
          | true =>
            rw [hff] at hfmt
            have := (hinv.2.2 hff).2
            simp only [Bool.false_eq_true, if_false, Bool.not_true] at hfmt
            rw [← hfmt] at this; simp at this
      have h2 := (hinv.1 hgit).2
      simp only at hle ⊢
      refine ⟨by simp [hgit], h2, ?_⟩
      omega

/-- the git flag, once set, stays set to the end of the scan -/
theorem headerLoop_isGit (strip : Int) : ∀ (fuel : Nat) (st st' : HState),
    st.isGit = true → headerLoop strip fuel st = .ok st' → st'.isGit = true := by
  intro fuel
  induction fuel with
  | zero => intro st st' hg h; simp [headerLoop] at h; subst h; exact hg
  | succ fuel ih =>
    intro st st' hg h
    rw [headerLoop] at h
    split at h
    · simp only [Except.ok.injEq] at h; subst h; exact hg
    · split at h
      · simp at h
      · rename_i st1 hstep
        refine ih st1 st' ?_ h
        rcases (headerStep_inv2 _ _ _ _ _ hstep).2.1 with ⟨e, _⟩ | ⟨_, e, _⟩
        · rw [e]; exact hg
        · exact e
      · rename_i st1 hstep
        simp only [Except.ok.injEq] at h; subst h
        rcases (headerStep_inv2 _ _ _ _ _ hstep).2.1 with ⟨e, _⟩ | ⟨_, e, _⟩
        · rw [e]; exact hg
        · exact e

/-- the format the header scan returns, in terms of the final scan state -/
theorem parseHeader_state (par : Parser) (patch : Patch) (strip : Int) (body : Bool) (p : Patch) (info : HeaderInfo) (par' : Parser)
    (h : parseHeader par patch strip = .ok (body, p, info, par')) :
    ∃ st, headerLoop strip (par.s.rest.length + 2) { par := par, patch := patch } = .ok st ∧ ScanInv st ∧
      info.linesTillFirstHunk = st.ltfh ∧ info.format = p.format ∧ body = st.shouldParseBody ∧
      p.format = (if st.isGit then Format.git else if !st.foundFirstHunk then Format.unknown else st.patch.format) := by
  unfold parseHeader at h
  simp only [] at h
  split at h
  · simp at h
  · rename_i st hl
    have hinv := headerLoop_scanInv strip _ _ _ ⟨by simp, by simp, by simp⟩ rfl hl
    split at h
    · simp at h
    · simp only [Except.ok.injEq, Prod.mk.injEq] at h
      obtain ⟨hb, hp, hi, _⟩ := h
      subst hi
      have hfmt : p.format = (if st.isGit then { st.patch with format := .git }
             else if !st.foundFirstHunk then { st.patch with format := .unknown } else st.patch).format := by
        rw [← hp]; exact opAdjust_format _ _ _
      refine ⟨st, hl, hinv, rfl, ?_, hb.symm, ?_⟩
      · exact hfmt.symm
      · rw [hfmt]; split
        · rfl
        · split <;> rfl

/-- **a header that found something has a first-hunk line**: the format returned is `unknown` (trailing garbage, whatever
    format was given by option) unless a `diff --git` line or a range line followed by a body line was seen; so a format
    other than `unknown` comes with `linesTillFirstHunk ≥ 1`, and a git format with `≥ 2` -/
theorem parseHeader_found (par : Parser) (patch : Patch) (strip : Int) (body : Bool) (p : Patch) (info : HeaderInfo) (par' : Parser)
    (h : parseHeader par patch strip = .ok (body, p, info, par')) :
    info.format = p.format ∧
    (p.format = .git ∨ p.format = .unknown ∨ p.format = .unified ∨ p.format = .normal ∨ p.format = .context) ∧
    (p.format ≠ .unknown → 1 ≤ info.linesTillFirstHunk) ∧ (p.format = .git → 2 ≤ info.linesTillFirstHunk) := by
  obtain ⟨st, _, hinv, hlt, hif, _, hfmt⟩ := parseHeader_state par patch strip body p info par' h
  rw [hlt]
  refine ⟨hif, ?_, ?_, ?_⟩
  · rw [hfmt]
    split
    · exact Or.inl rfl
    · split
      · exact Or.inr (Or.inl rfl)
      · rename_i hf
        have := (hinv.2.2 (by simpa using hf)).2
        rcases this with e | e | e <;> simp [e]
  · intro hne
    rw [hfmt] at hne
    split at hne
    · rename_i hg; have := (hinv.1 hg).2; omega
    · split at hne
      · exact absurd rfl hne
      · rename_i hf
        exact (hinv.2.2 (by simpa using hf)).1
  · intro hg
    rw [← hlt]; exact (parseHeader_git par patch strip body p info par' h hg).2.1

/-- `parseHeader_le`, sharpened by the rule that the `diff --git` line belongs to the header: a pass that consumes nothing
    is not a git section, is to be followed by the body parser from clear flags, and — unless it found nothing at all (format
    `unknown`: the section loop stops) — its first hunk starts on the very first line of the section -/
theorem parseHeader_progress (par : Parser) (patch : Patch) (strip : Int) (body : Bool) (p : Patch) (info : HeaderInfo) (par' : Parser)
    (h : parseHeader par patch strip = .ok (body, p, info, par')) :
    len par' + (info.linesTillFirstHunk - 1) = len par ∧
    (len par' < len par ∨
      (par'.s.eof = false ∧ par'.s.bad = false ∧ body = true ∧ p.format ≠ .git ∧
        (p.format = .unknown ∨ info.linesTillFirstHunk = 1))) := by
  obtain ⟨h1, h2⟩ := parseHeader_le par patch strip body p info par' h
  refine ⟨h1, ?_⟩
  rcases h2 with h2 | ⟨h2, h3, h4⟩
  · exact Or.inl h2
  · by_cases hlt : len par' < len par
    · exact Or.inl hlt
    · refine Or.inr ⟨h2, h3, h4, ?_, ?_⟩
      · intro hg
        exact hlt (parseHeader_git par patch strip body p info par' h hg).2.2
      · by_cases hu : p.format = .unknown
        · exact Or.inl hu
        · have := (parseHeader_found par patch strip body p info par' h).2.2.1 hu
          right; omega

/-- **the section loop never runs out of fuel**: each pass consumes a line, or sets the eof flag (and the next pass stops) -/
theorem parseAll_fuel (format : Format) (strip : Int) : ∀ (fuel : Nat) (par : Parser) (acc acc' : List Patch) (par' : Parser) (b : Bool),
    ((par.s.eof = true ∧ 1 ≤ fuel) ∨ len par + 2 ≤ fuel) →
    parseAll format strip fuel par acc = .ok (acc', par', b) → b = false := by
  intro fuel
  induction fuel with
  | zero => intro par acc acc' par' b hf; omega
  | succ fuel ih =>
    intro par acc acc' par' b hf h
    rw [parseAll] at h
    split at h
    · simp only [Except.ok.injEq, Prod.mk.injEq] at h; exact h.2.2.symm
    · rename_i heof
      have hf : len par + 2 ≤ fuel + 1 := by
        rcases hf with hf | hf
        · exact absurd hf.1 heof
        · exact hf
      split at h
      · simp at h
      · rename_i body p info par1 hh
        have hh := parseHeader_le _ _ _ _ _ _ _ hh
        split at h
        · simp only [Except.ok.injEq, Prod.mk.injEq] at h; exact h.2.2.symm
        · split at h
          · split at h
            · simp at h
            · rename_i p' par2 hb
              have hb := parseBody_le _ _ _ _ hb
              refine ih _ _ _ _ _ ?_ h
              rcases hh.2 with h1 | ⟨h1, h2, _⟩
              · right; omega
              · rcases hb.2 h1 h2 with h3 | h3
                · right; omega
                · left; exact ⟨h3, by omega⟩
          · rename_i hbody
            refine ih _ _ _ _ _ ?_ h
            rcases hh.2 with h1 | ⟨_, _, h3⟩
            · right; omega
            · exact absurd h3 hbody

end PatchModel.Cost
