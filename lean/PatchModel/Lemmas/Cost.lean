import PatchModel.Model.Driver
namespace PatchModel.Cost
open PatchModel

/-! ### locator -/

theorem candidates_length (s m size : Nat) :
    (candidates s m size).length = (size - s) + (s - m) := by
  simp [candidates]

theorem candidates_length_le (guess : Int) (minLine size : Nat) :
    (candidates (searchStart guess minLine size) minLine size).length ≤ size := by
  rw [candidates_length]
  unfold searchStart
  omega

theorem length_takeWhile_le {α} (p : α → Bool) (l : List α) : (l.takeWhile p).length ≤ l.length := by
  induction l with
  | nil => simp
  | cons a l ih => simp only [List.takeWhile_cons]; split <;> simp <;> omega

theorem prefixCtx_le (ls : List PatchLine) : prefixCtx ls ≤ ls.length := by
  unfold prefixCtx; exact length_takeWhile_le _ _

theorem suffixCtx_le (ls : List PatchLine) : suffixCtx ls ≤ ls.length := by
  unfold suffixCtx; have := prefixCtx_le ls.reverse; simpa using this

theorem trimmed_length_le (ls : List PatchLine) (pf sf : Nat) : (trimmed ls pf sf).length ≤ ls.length := by
  simp [trimmed]; omega

/-! ### the stream -/

/-- `PStream.getLine`, the three outcomes -/
theorem PStream.getLine_cases (s : PStream) :
    (∃ l, s.getLine.1 = some l ∧ s.eof = false ∧ s.bad = false ∧ s.rest = l :: s.getLine.2.rest ∧ s.getLine.2.bad = false) ∨
    (s.getLine.1 = none ∧ s.getLine.2.rest = s.rest ∧
      (s.eof = false → s.bad = false → s.getLine.2.eof = true)) := by
  unfold PStream.getLine
  split
  · right; simp_all
  · split
    · right; simp_all
    · split
      · right; simp_all
      · rename_i l r h
        left; refine ⟨l, ?_⟩
        split <;> simp_all

theorem getLine_some {p : Parser} {l : Line} {p' : Parser} (h : p.getLine = (some l, p')) :
    p.s.rest = l :: p'.s.rest ∧ p.s.eof = false ∧ p.s.bad = false ∧ p'.s.bad = false := by
  unfold Parser.getLine at h
  rcases PStream.getLine_cases p.s with ⟨l', h1, h2, h3, h4, h5⟩ | ⟨h1, _⟩
  · split at h
    · rename_i heq; rw [heq] at h1; simp at h1
    · rename_i l2 s' heq
      rw [heq] at h1 h4 h5
      simp only [Prod.mk.injEq, Option.some.injEq] at h h1
      obtain ⟨rfl, rfl⟩ := h
      subst h1
      exact ⟨h4, h2, h3, h5⟩
  · split at h
    · simp at h
    · rename_i l2 s' heq; rw [heq] at h1; simp at h1

theorem getLine_none {p : Parser} {p' : Parser} (h : p.getLine = (none, p')) :
    p'.s.rest = p.s.rest ∧ (p.s.eof = false → p.s.bad = false → p'.s.eof = true) := by
  unfold Parser.getLine at h
  rcases PStream.getLine_cases p.s with ⟨l', h1, h2, h3, h4, h5⟩ | ⟨h1, h2, h3⟩
  · split at h
    · rename_i heq; rw [heq] at h1; simp at h1
    · simp at h
  · split at h
    · rename_i s' heq
      rw [heq] at h2 h3
      simp only [Prod.mk.injEq, true_and] at h
      subst h
      exact ⟨h2, h3⟩
    · simp at h

/-- one `get_line` consumes exactly one line -/
theorem getLine_length {p : Parser} {l : Line} {p' : Parser} (h : p.getLine = (some l, p')) :
    p'.s.rest.length + 1 = p.s.rest.length := by
  rw [(getLine_some h).1]; simp

/-- `get_line` never makes the stream longer -/
theorem getLine_snd_le (p : Parser) : p.getLine.2.s.rest.length ≤ p.s.rest.length := by
  rcases h : p.getLine with ⟨_ | l, p'⟩
  · rw [(getLine_none h).1]; exact Nat.le_refl _
  · have := getLine_length h; simp only; omega

theorem skipLines_length {n : Nat} {p p' : Parser} (h : skipLines n p = .ok p') :
    p'.s.rest.length + n = p.s.rest.length := by
  induction n generalizing p with
  | zero => simp [skipLines] at h; subst h; rfl
  | succ n ih =>
    rw [skipLines] at h
    split at h
    · simp at h
    · rename_i l p1 hg
      have := ih h
      have := getLine_length hg
      omega

theorem skipLines_zero_eq {p p' : Parser} (h : skipLines 0 p = .ok p') : p' = p := by
  simp [skipLines] at h; exact h.symm

/-! ### body parsers never un-read more than they read -/

/-- unread lines -/
abbrev len (p : Parser) : Nat := p.s.rest.length

theorem ctxAppendContent_le : ∀ (fuel : Nat) (par : Parser) (ls : List PatchLine) (a b : Int) (ls' : List PatchLine) (par' : Parser),
    ctxAppendContent fuel par ls a b = .ok (ls', par') → len par' ≤ len par := by
  intro fuel
  induction fuel with
  | zero => intro par ls a b ls' par' h; simp [ctxAppendContent] at h
  | succ fuel ih =>
    intro par ls a b ls' par' h
    rw [ctxAppendContent] at h
    split at h
    · split at h
      · simp at h
      · rename_i l p1 hg
        split at h
        · simp at h
        · have := ih _ _ _ _ _ _ h
          have := getLine_length hg
          simp only [len] at *; omega
    · simp only [Except.ok.injEq, Prod.mk.injEq] at h
      rw [h.2]; exact Nat.le_refl _

theorem ctxCheckNoNewline_le (par : Parser) (ls : List PatchLine) : len (ctxCheckNoNewline par ls).2 ≤ len par := by
  unfold ctxCheckNoNewline
  split
  · exact getLine_snd_le par
  · exact Nat.le_refl _

theorem ctxSkipToOldRange_le : ∀ (fuel : Nat) (par : Parser) (s e : Int) (par' : Parser) (s' e' : Int),
    ctxSkipToOldRange fuel par s e = .ok (par', s', e') → len par' ≤ len par := by
  intro fuel
  induction fuel with
  | zero => intro par s e par' s' e' h; simp [ctxSkipToOldRange] at h; rw [h.1]; exact Nat.le_refl _
  | succ fuel ih =>
    intro par s e par' s' e' h
    rw [ctxSkipToOldRange] at h
    split at h
    · rename_i p1 hg
      simp only [Except.ok.injEq, Prod.mk.injEq] at h
      rw [← h.1, len, (getLine_none hg).1]; exact Nat.le_refl _
    · rename_i l p1 hg
      have := getLine_length hg
      split at h
      · split at h
        rename_i ok s1 e1 _
        split at h
        · simp only [Except.ok.injEq, Prod.mk.injEq] at h
          rw [← h.1]; simp only [len]; omega
        · simp at h
      · have := ih _ _ _ _ _ _ h
        simp only [len] at *; omega

theorem parseContextHunk_lt (par : Parser) (ol : List PatchLine) (os : Int) (nl : List PatchLine) (ns : Int) (par' : Parser)
    (h : parseContextHunk par = .ok (ol, os, nl, ns, par')) : len par' < len par := by
  unfold parseContextHunk at h
  simp only [] at h
  split at h
  · simp at h
  · rename_i par1 oldStart oldEnd h1
    have h1 := ctxSkipToOldRange_le _ _ _ _ _ _ _ h1
    split at h
    · simp at h
    · rename_i l1 par2 h2
      have h2 := getLine_length h2
      split at h
      · simp at h
      · rename_i ns ne _
        split at h
        · simp at h
        · rename_i newLines par3 h3
          have h3 := ctxAppendContent_le _ _ _ _ _ _ _ h3
          have h4 := ctxCheckNoNewline_le par3 newLines
          simp only [Except.ok.injEq, Prod.mk.injEq] at h
          rw [← h.2.2.2.2]
          simp only [len] at *; omega
      · split at h
        · simp at h
        · rename_i old1 _
          split at h
          · simp at h
          · rename_i oldLines par3 h3
            have h3 := ctxAppendContent_le _ _ _ _ _ _ _ h3
            have h4 := ctxCheckNoNewline_le par3 oldLines
            generalize (ctxCheckNoNewline par3 oldLines).2 = par4 at h h4
            have h5 := getLine_snd_le par4
            generalize par4.getLine.2 = par5 at h h5
            split at h
            · simp at h
            · simp at h
            · have h6 := getLine_snd_le par5
              generalize hg6 : par5.getLine = g6 at h h6
              rcases g6 with ⟨l3o, par6⟩
              simp only [] at h h6
              rcases l3o with _ | l3 <;> simp only [] at h <;> (
              split at h
              · simp only [Except.ok.injEq, Prod.mk.injEq] at h
                rw [← h.2.2.2.2]; simp only [len] at *; omega
              · split at h
                · simp only [Except.ok.injEq, Prod.mk.injEq] at h
                  rw [← h.2.2.2.2]; simp only [len] at *; omega
                · split at h
                  · simp only [Except.ok.injEq, Prod.mk.injEq] at h
                    rw [← h.2.2.2.2]; simp only [len, PStream.seek] at *; omega
                  · split at h
                    · simp at h
                    · split at h
                      · simp at h
                      · rename_i newLines par7 h7
                        have h7 := ctxAppendContent_le _ _ _ _ _ _ _ h7
                        have h8 := ctxCheckNoNewline_le par7 newLines
                        simp only [Except.ok.injEq, Prod.mk.injEq] at h
                        rw [← h.2.2.2.2]; simp only [len] at *; omega)

theorem parseContextBody_le : ∀ (fuel : Nat) (par : Parser) (hs hs' : List Hunk) (par' : Parser),
    parseContextBody fuel par hs = .ok (hs', par') → len par' ≤ len par ∧ (0 < fuel → len par' < len par) := by
  intro fuel
  induction fuel with
  | zero => intro par hs hs' par' h; simp [parseContextBody] at h; rw [h.2]; simp
  | succ fuel ih =>
    intro par hs hs' par' h
    rw [parseContextBody] at h
    split at h
    · simp at h
    · rename_i ol os nl ns par1 h1
      have h1 := parseContextHunk_lt _ _ _ _ _ _ h1
      split at h
      · simp at h
      · simp only [] at h
        split at h <;> (
        split at h
        · simp only [Except.ok.injEq, Prod.mk.injEq] at h
          rw [← h.2]; simp only [len, PStream.seek] at *; omega
        · have := (ih _ _ _ _ h).1
          simp only [len, PStream.seek] at *; omega)

theorem normalReadSide_le : ∀ (fuel : Nat) (par : Parser) (count : Int) (m op : UInt8) (acc acc' : List PatchLine) (par' : Parser),
    normalReadSide fuel par count m op acc = .ok (acc', par') → len par' ≤ len par := by
  intro fuel
  induction fuel with
  | zero => intro par count m op acc acc' par' h; simp [normalReadSide] at h
  | succ fuel ih =>
    intro par count m op acc acc' par' h
    rw [normalReadSide] at h
    split at h
    · simp only [Except.ok.injEq, Prod.mk.injEq] at h
      rw [h.2]; exact Nat.le_refl _
    · split at h
      · simp at h
      · rename_i l p1 hg
        have := getLine_length hg
        split at h
        · split at h
          · simp at h
          · have := ih _ _ _ _ _ _ _ h
            simp only [len] at *; omega
        · simp at h

end PatchModel.Cost
