/-
  Lemmas/Unified — the unified diff writer (`writeHunkUnified`) read back by the unified parser (`unifiedLoop`):
  decimal numbers, the range line, `splitLines` of emitted text, the hunk loop (helper lemmas for C13).
-/
import PatchModel.Spec.Diff
import PatchModel.Lemmas.Cpp
import PatchModel.Lemmas.Render
import PatchModel.Lemmas.Apply
namespace PatchModel.Unified
open PatchModel

/-! ### literals -/

theorem str_atat_minus : str "@@ -" = [64, 64, 32, 45] := by
  unfold str String.toUTF8; rw [Cpp.byteArray_toList_eq_data]; rfl
theorem str_sp_plus : str " +" = [32, 43] := by
  unfold str String.toUTF8; rw [Cpp.byteArray_toList_eq_data]; rfl
theorem str_sp_atat : str " @@" = [32, 64, 64] := by
  unfold str String.toUTF8; rw [Cpp.byteArray_toList_eq_data]; rfl
theorem str_sp_atat_nl : str " @@\n" = [32, 64, 64, 10] := by
  unfold str String.toUTF8; rw [Cpp.byteArray_toList_eq_data]; rfl

/-- the marker line without its terminator -/
def markerText : Bytes :=
  [92, 32, 78, 111, 32, 110, 101, 119, 108, 105, 110, 101, 32, 97, 116, 32, 101, 110, 100, 32, 111, 102, 32, 102, 105, 108, 101]

theorem noNewlineMarker_eq : noNewlineMarker = markerText ++ [NL] := by
  unfold noNewlineMarker str String.toUTF8; rw [Cpp.byteArray_toList_eq_data]; rfl

/-! ### decimal numbers -/

theorem digitChar_isDigit (d : Nat) (h : d < 10) : isDigit (digitChar d) = true := by
  have : d = 0 ∨ d = 1 ∨ d = 2 ∨ d = 3 ∨ d = 4 ∨ d = 5 ∨ d = 6 ∨ d = 7 ∨ d = 8 ∨ d = 9 := by omega
  rcases this with h|h|h|h|h|h|h|h|h|h <;> subst h <;> decide

theorem digitChar_val (d : Nat) (h : d < 10) : (digitChar d).toNat - 48 = d := by
  have : d = 0 ∨ d = 1 ∨ d = 2 ∨ d = 3 ∨ d = 4 ∨ d = 5 ∨ d = 6 ∨ d = 7 ∨ d = 8 ∨ d = 9 := by omega
  rcases this with h|h|h|h|h|h|h|h|h|h <;> subst h <;> decide

theorem natDigitsAux_eq (n : Nat) (acc : Bytes) : natDigitsAux n acc = natDigitsAux n [] ++ acc := by
  induction n using Nat.strongRecOn generalizing acc with
  | _ n ih =>
    rw [natDigitsAux.eq_def]
    conv => rhs; rw [natDigitsAux.eq_def]
    by_cases h : n < 10
    · simp [h]
    · simp only [h, dite_false]
      rw [ih (n / 10) (by omega), ih (n / 10) (by omega) [digitChar (n % 10)]]
      simp

theorem natDigits_small (n : Nat) (h : n < 10) : natDigits n = [digitChar n] := by
  unfold natDigits; rw [natDigitsAux.eq_def]; simp [h]

theorem natDigits_big (n : Nat) (h : ¬ n < 10) : natDigits n = natDigits (n / 10) ++ [digitChar (n % 10)] := by
  unfold natDigits; rw [natDigitsAux.eq_def]; simp only [h, dite_false]
  rw [natDigitsAux_eq]

theorem natDigits_all_digit (n : Nat) : ∀ c ∈ natDigits n, isDigit c = true := by
  induction n using Nat.strongRecOn with
  | _ n ih =>
    by_cases h : n < 10
    · rw [natDigits_small n h]; intro c hc; simp at hc; subst hc; exact digitChar_isDigit n h
    · rw [natDigits_big n h]; intro c hc
      rcases List.mem_append.1 hc with hc | hc
      · exact ih (n / 10) (by omega) c hc
      · simp at hc; subst hc; exact digitChar_isDigit _ (by omega)

theorem natDigits_ne_nil (n : Nat) : natDigits n ≠ [] := by
  by_cases h : n < 10
  · rw [natDigits_small n h]; simp
  · rw [natDigits_big n h]; simp

theorem stringToLineNumber_append (ds es : Bytes) (acc v : Int)
    (h : stringToLineNumber ds acc = (true, v)) :
    stringToLineNumber (ds ++ es) acc = stringToLineNumber es v := by
  induction ds generalizing acc with
  | nil => simp [stringToLineNumber] at h; subst h; rfl
  | cons c ds ih =>
    rw [List.cons_append, stringToLineNumber]
    rw [stringToLineNumber] at h
    by_cases h1 : i64Max / 10 < acc
    · simp [h1] at h
    · simp only [h1, if_false] at h ⊢
      by_cases h2 : i64Max - ((c.toNat - 48 : Nat) : Int) < acc * 10
      · simp [h2] at h
      · simp only [h2, if_false] at h ⊢
        exact ih _ h

theorem stringToLineNumber_natDigits (n : Nat) (hn : (n : Int) ≤ i64Max) :
    stringToLineNumber (natDigits n) 0 = (true, (n : Int)) := by
  induction n using Nat.strongRecOn with
  | _ n ih =>
    by_cases h : n < 10
    · rw [natDigits_small n h]
      simp only [stringToLineNumber, digitChar_val n h]
      have e : i64Max = 9223372036854775807 := rfl
      rw [if_neg (by omega), if_neg (by omega)]; simp
    · rw [natDigits_big n h]
      have hn' : ((n / 10 : Nat) : Int) ≤ i64Max := by simp only [i64Max] at hn ⊢; omega
      rw [stringToLineNumber_append _ _ _ _ (ih (n / 10) (by omega) hn')]
      simp only [stringToLineNumber, digitChar_val (n % 10) (by omega)]
      have e : i64Max = 9223372036854775807 := rfl
      rw [if_neg (by omega), if_neg (by omega)]
      congr 1; omega

theorem takeWhile_append_of_all {α} (p : α → Bool) (ds rest : List α) (hd : ∀ c ∈ ds, p c = true)
    (hr : ∀ c, rest.head? = some c → p c = false) : (ds ++ rest).takeWhile p = ds := by
  induction ds with
  | nil =>
    cases rest with
    | nil => rfl
    | cons c r => simp [hr c rfl]
  | cons d ds ih =>
    simp only [List.cons_append, List.takeWhile, hd d (by simp)]
    rw [ih (fun c hc => hd c (by simp [hc]))]

theorem dropWhile_append_of_all {α} (p : α → Bool) (ds rest : List α) (hd : ∀ c ∈ ds, p c = true)
    (hr : ∀ c, rest.head? = some c → p c = false) : (ds ++ rest).dropWhile p = rest := by
  induction ds with
  | nil =>
    cases rest with
    | nil => rfl
    | cons c r => simp [hr c rfl]
  | cons d ds ih =>
    simp only [List.cons_append, List.dropWhile, hd d (by simp)]
    rw [ih (fun c hc => hd c (by simp [hc]))]

theorem intDigits_natCast (n : Nat) : intDigits (n : Int) = natDigits n := by
  unfold intDigits; rw [if_neg (by omega)]; simp

theorem number_roundtrip (n : Nat) (hn : (n : Int) ≤ i64Max / 4) (rest : Bytes) (cur : Int)
    (hrest : ∀ c, rest.head? = some c → isDigit c = false) :
    consumeLineNumber (intDigits (n : Int) ++ rest) cur = (true, (n : Int), rest) := by
  rw [intDigits_natCast]
  have hall := natDigits_all_digit n
  have hne := natDigits_ne_nil n
  unfold consumeLineNumber
  rw [takeWhile_append_of_all _ _ _ hall hrest, dropWhile_append_of_all _ _ _ hall hrest]
  have hn1 : (n : Int) ≤ i64Max := by simp only [i64Max] at hn ⊢; omega
  simp only [stringToLineNumber_natDigits n hn1]
  cases hd : natDigits n with
  | nil => exact absurd hd hne
  | cons c ds =>
    have : isDigit c = true := hall c (by simp [hd])
    simp [this, hn]


/-! ### the range line -/



theorem consumeStr_append (s r : Bytes) : consumeStr s (s ++ r) = some r := by
  unfold consumeStr
  have : s.isPrefixOf (s ++ r) = true := by
    rw [List.isPrefixOf_iff_prefix]; exact List.prefix_append s r
  simp [this]

theorem consumeStr_comma_none (r : Bytes) (h : r.head? ≠ some 44) : consumeStr [44] r = none := by
  unfold consumeStr
  cases r with
  | nil => simp [List.isPrefixOf]
  | cons c r =>
    have : c ≠ 44 := by simpa using h
    simp [List.isPrefixOf]
    intro h; exact absurd h.symm this

/-- the `consumeRange` closure of `parseUnifiedRange` -/
def consumeRange (r : Range) (inp : Bytes) : Bool × Range × Bytes :=
    let (ok, v, rest) := consumeLineNumber inp r.start
    let r1 : Range := { r with start := v }
    if !ok then (false, r1, rest)
    else match consumeStr [44] rest with
      | some rest2 =>
        let (ok2, c, rest3) := consumeLineNumber rest2 r1.count
        (ok2, { r1 with count := c }, rest3)
      | none => (true, { r1 with count := 1 }, rest)

theorem parseUnifiedRange_eq (h : Hunk) (line : Bytes) : parseUnifiedRange h line =
  match consumeStr (str "@@ -") line with
  | none => (false, h)
  | some r1 =>
    let (ok, oldR, r2) := consumeRange h.old r1
    let h1 := { h with old := oldR }
    if !ok then (false, h1)
    else match consumeStr (str " +") r2 with
      | none => (false, h1)
      | some r3 =>
        let (ok2, newR, r4) := consumeRange h1.new r3
        let h2 := { h1 with new := newR }
        if !ok2 then (false, h2)
        else match consumeStr (str " @@") r4 with
          | none => (false, h2)
          | some _ => (true, h2) := rfl

theorem consumeRange_roundtrip (r : Range) (s c : Int) (hs : 0 ≤ s) (hc : 0 ≤ c) (hsb : s ≤ i64Max / 4) (hcb : c ≤ i64Max / 4)
    (rest : Bytes) (hd : ∀ x, rest.head? = some x → isDigit x = false) (hcomma : rest.head? ≠ some 44) :
    consumeRange r (intDigits s ++ (if c ≠ 1 then [44] ++ intDigits c else []) ++ rest) = (true, ⟨s, c⟩, rest) := by
  obtain ⟨n, rfl⟩ := Int.eq_ofNat_of_zero_le hs
  obtain ⟨m, rfl⟩ := Int.eq_ofNat_of_zero_le hc
  unfold consumeRange
  by_cases h1 : (m : Int) ≠ 1
  · rw [if_pos h1, List.append_assoc, number_roundtrip n hsb _ _ (by intro x hx; simp at hx; subst hx; decide)]
    simp only [Bool.not_true, Bool.false_eq_true, if_false]
    rw [List.append_assoc, consumeStr_append]
    simp only [number_roundtrip m hcb rest _ hd]
  · rw [if_neg h1, List.append_nil, number_roundtrip n hsb _ _ hd]
    simp only [Bool.not_true, Bool.false_eq_true, if_false]
    rw [consumeStr_comma_none _ hcomma]
    have : (m : Int) = 1 := by omega
    simp [this]

theorem unified_range_roundtrip (h : Hunk) (h0 : Hunk)
    (hos : 0 ≤ h.old.start) (hoc : 0 ≤ h.old.count) (hns : 0 ≤ h.new.start) (hnc : 0 ≤ h.new.count)
    (hob : h.old.start ≤ i64Max / 4) (hocb : h.old.count ≤ i64Max / 4) (hnb : h.new.start ≤ i64Max / 4) (hncb : h.new.count ≤ i64Max / 4) :
    parseUnifiedRange h0
      (str "@@ -" ++ intDigits h.old.start ++ (if h.old.count ≠ 1 then [44] ++ intDigits h.old.count else [])
        ++ str " +" ++ intDigits h.new.start ++ (if h.new.count ≠ 1 then [44] ++ intDigits h.new.count else [])
        ++ str " @@")
    = (true, { h0 with old := h.old, new := h.new }) := by
  rw [parseUnifiedRange_eq]
  have e : ∀ (a b c d e f g : Bytes), a ++ b ++ c ++ d ++ e ++ f ++ g = a ++ ((b ++ c) ++ (d ++ ((e ++ f) ++ g))) := by
    intros; simp
  rw [e, consumeStr_append]
  simp only []
  rw [consumeRange_roundtrip h0.old _ _ hos hoc hob hocb _
    (by rw [str_sp_plus]; intro x hx; simp at hx; subst hx; decide) (by rw [str_sp_plus]; simp)]
  simp only [Bool.not_true, Bool.false_eq_true, if_false]
  rw [consumeStr_append]
  simp only []
  rw [consumeRange_roundtrip _ _ _ hns hnc hnb hncb _
    (by rw [str_sp_atat]; intro x hx; simp at hx; subst hx; decide) (by rw [str_sp_atat]; simp)]
  simp only [Bool.not_true, Bool.false_eq_true, if_false]
  have : consumeStr (str " @@") (str " @@") = some [] := by
    have := consumeStr_append (str " @@") []
    simpa using this
  rw [this]


/-! ### splitLines of emitted text -/





theorem splitLinesGo_line (cur content rest : Bytes) (h : NL ∉ content) :
    splitLinesGo cur (content ++ NL :: rest) = mkLine (cur ++ content) :: splitLinesGo [] rest := by
  induction content generalizing cur with
  | nil => simp [splitLinesGo]
  | cons c cs ih =>
    have hc : (c == NL) = false := by
      simp only [List.mem_cons, not_or] at h
      simpa using fun e => h.1 e.symm
    rw [List.cons_append, splitLinesGo, hc]
    simp only [Bool.false_eq_true, if_false]
    rw [ih _ (fun hm => h (List.mem_cons_of_mem _ hm))]
    simp

theorem mkLine_plain (content : Bytes) (h : content.getLast? ≠ some CR) : mkLine content = ⟨content, .lf⟩ := by
  unfold mkLine; rw [if_neg h]

theorem splitLines_line (content rest : Bytes) (h1 : NL ∉ content) (h2 : content.getLast? ≠ some CR) :
    splitLines (content ++ NL :: rest) = ⟨content, .lf⟩ :: splitLines rest := by
  unfold splitLines
  rw [splitLinesGo_line _ _ _ h1, List.nil_append, mkLine_plain _ h2]

/-- the terminator class a hunk line has in the text of a diff: CR LF for a `.crlf` line, LF otherwise
    (a `.none` line is written with LF and followed by the marker line) -/
def wireNl (l : Line) : NewLine := if l.newline = .crlf then .crlf else .lf

theorem wireNl_ne_none (l : Line) : wireNl l ≠ .none := by
  unfold wireNl; split <;> simp

theorem wireNl_of_ne_none {l : Line} (h : l.newline ≠ .none) : wireNl l = l.newline := by
  rcases l with ⟨c, nl⟩
  cases nl
  · rfl
  · rfl
  · exact absurd rfl h

theorem wireNl_of_none {l : Line} (h : l.newline = .none) : wireNl l = .lf := by
  unfold wireNl; rw [h]; rfl

theorem mkLine_cr (content : Bytes) : mkLine (content ++ [CR]) = ⟨content, .crlf⟩ := by
  unfold mkLine; simp

/-- a line written with its own terminator (`lineEnd`) is read back with its content and its class -/
theorem splitLines_wire (content : Bytes) (l : Line) (rest : Bytes) (h1 : NL ∉ content) (h2 : content.getLast? ≠ some CR) :
    splitLines (content ++ (lineEnd l ++ rest)) = ⟨content, wireNl l⟩ :: splitLines rest := by
  unfold lineEnd wireNl
  split
  · have e : content ++ ([CR, NL] ++ rest) = (content ++ [CR]) ++ NL :: rest := by simp
    have h1' : NL ∉ content ++ [CR] := by
      intro hm
      rcases List.mem_append.1 hm with h | h
      · exact h1 h
      · simp at h; exact absurd h (by decide)
    unfold splitLines
    rw [e, splitLinesGo_line _ _ _ h1', List.nil_append, mkLine_cr]
  · exact splitLines_line content rest h1 h2


/-- `splitLines_wire`, asking for "no CR at the end" only where it matters: of a line that is not written with CR LF -/
theorem splitLines_wire' (content : Bytes) (l : Line) (rest : Bytes) (h1 : NL ∉ content)
    (h2 : l.newline ≠ .crlf → content.getLast? ≠ some CR) :
    splitLines (content ++ (lineEnd l ++ rest)) = ⟨content, wireNl l⟩ :: splitLines rest := by
  unfold lineEnd wireNl
  split
  · have e : content ++ ([CR, NL] ++ rest) = (content ++ [CR]) ++ NL :: rest := by simp
    have h1' : NL ∉ content ++ [CR] := by
      intro hm
      rcases List.mem_append.1 hm with h | h
      · exact h1 h
      · simp at h; exact absurd h (by decide)
    unfold splitLines
    rw [e, splitLinesGo_line _ _ _ h1', List.nil_append, mkLine_cr]
  · next hn => exact splitLines_line content rest h1 (h2 hn)






theorem intDigits_no_NL (i : Int) : NL ∉ intDigits i := by
  have hd : ∀ n, NL ∉ natDigits n := by
    intro n hm
    have := natDigits_all_digit n NL hm
    exact absurd this (by decide)
  unfold intDigits
  split
  · intro hm
    rcases List.mem_cons.1 hm with h | h
    · exact absurd h (by decide)
    · exact hd _ h
  · exact hd _

/-- the text of the range line of a hunk (without terminator) -/
def rangeText (h : Hunk) : Bytes :=
  str "@@ -" ++ intDigits h.old.start ++ (if h.old.count ≠ 1 then [44] ++ intDigits h.old.count else [])
    ++ str " +" ++ intDigits h.new.start ++ (if h.new.count ≠ 1 then [44] ++ intDigits h.new.count else [])
    ++ str " @@"

def markerLine : Line := ⟨markerText, .lf⟩

/-- the lines of the body of an emitted hunk -/
def bodyLines : List PatchLine → List Line
  | [] => []
  | pl :: rest => ⟨pl.op :: pl.line.content, wireNl pl.line⟩ :: ((if pl.line.newline = .none then [markerLine] else []) ++ bodyLines rest)

def hunkLines (h : Hunk) : List Line := ⟨rangeText h, .lf⟩ :: bodyLines h.lines

theorem rangeText_no_NL (h : Hunk) : NL ∉ rangeText h := by
  unfold rangeText
  rw [str_atat_minus, str_sp_plus, str_sp_atat]
  have := intDigits_no_NL
  simp only [List.mem_append, not_or]
  refine ⟨⟨⟨⟨⟨⟨by decide, this _⟩, ?_⟩, by decide⟩, this _⟩, ?_⟩, by decide⟩
  · split
    · simp only [List.mem_append, not_or]; exact ⟨by decide, this _⟩
    · simp
  · split
    · simp only [List.mem_append, not_or]; exact ⟨by decide, this _⟩
    · simp

theorem rangeText_last (h : Hunk) : (rangeText h).getLast? ≠ some CR := by
  unfold rangeText
  rw [str_sp_atat, List.getLast?_append]
  simp
  decide

theorem writeHunkUnified_eq (h : Hunk) :
    writeHunkUnified h = rangeText h ++ NL ::
      (h.lines.flatMap fun pl => [pl.op] ++ pl.line.content ++ lineEnd pl.line
            ++ (if pl.line.newline = NewLine.none then noNewlineMarker else [])) := by
  unfold writeHunkUnified rangeText
  have : str " @@\n" = str " @@" ++ [NL] := by rw [str_sp_atat_nl, str_sp_atat]; rfl
  rw [this]
  simp only [List.append_assoc, List.singleton_append]

theorem splitLines_body (ls : List PatchLine) (rest : Bytes)
    (hops : ∀ pl ∈ ls, pl.op = SP ∨ pl.op = PLUS ∨ pl.op = MINUS)
    (hplain : ∀ pl ∈ ls, plainLine pl.line = true) :
    splitLines ((ls.flatMap fun pl => [pl.op] ++ pl.line.content ++ lineEnd pl.line
            ++ (if pl.line.newline = NewLine.none then noNewlineMarker else [])) ++ rest)
      = bodyLines ls ++ splitLines rest := by
  induction ls with
  | nil => simp [bodyLines]
  | cons pl ls ih =>
    have ih' := ih (fun x hx => hops x (List.mem_cons_of_mem _ hx)) (fun x hx => hplain x (List.mem_cons_of_mem _ hx))
    have hop := hops pl List.mem_cons_self
    have hpl := hplain pl List.mem_cons_self
    unfold plainLine at hpl
    simp only [Bool.and_eq_true, Bool.not_eq_true', bne_iff_ne, ne_eq] at hpl
    have h1 : NL ∉ pl.op :: pl.line.content := by
      intro hm
      rcases List.mem_cons.1 hm with h | h
      · rcases hop with e | e | e <;> rw [e] at h <;> exact absurd h (by decide)
      · have := hpl.1; simp at this; exact this h
    have h2 : (pl.op :: pl.line.content).getLast? ≠ some CR := by
      cases hc : pl.line.content with
      | nil =>
        simp only [List.getLast?_singleton, ne_eq, Option.some.injEq]
        rcases hop with e | e | e <;> rw [e] <;> decide
      | cons c cs =>
        rw [List.getLast?_cons_cons, ← hc]; exact hpl.2
    rw [List.flatMap_cons, bodyLines]
    have e : ∀ (x y : Bytes), ([pl.op] ++ pl.line.content ++ lineEnd pl.line ++ x) ++ y
        = (pl.op :: pl.line.content) ++ (lineEnd pl.line ++ (x ++ y)) := by
      intro x y; simp
    rw [List.append_assoc, e, splitLines_wire _ _ _ h1 h2, List.cons_append]
    congr 1
    revert ih'
    generalize (List.flatMap _ ls ++ rest) = T
    intro ih'
    split
    · rw [noNewlineMarker_eq, List.append_assoc, List.append_assoc, List.singleton_append,
        splitLines_line _ _ (by decide) (by decide), ih']
      rfl
    · simpa using ih'

theorem splitLines_hunk (h : Hunk) (rest : Bytes)
    (hops : ∀ pl ∈ h.lines, pl.op = SP ∨ pl.op = PLUS ∨ pl.op = MINUS)
    (hplain : ∀ pl ∈ h.lines, plainLine pl.line = true) :
    splitLines (writeHunkUnified h ++ rest) = hunkLines h ++ splitLines rest := by
  rw [writeHunkUnified_eq, List.append_assoc, List.cons_append, splitLines_line _ _ (rangeText_no_NL h) (rangeText_last h),
    splitLines_body _ _ hops hplain]
  rfl

theorem splitLines_hunks (hs : List Hunk)
    (hops : ∀ h ∈ hs, ∀ pl ∈ h.lines, pl.op = SP ∨ pl.op = PLUS ∨ pl.op = MINUS)
    (hplain : ∀ h ∈ hs, ∀ pl ∈ h.lines, plainLine pl.line = true) :
    splitLines (hs.flatMap writeHunkUnified) = hs.flatMap hunkLines := by
  induction hs with
  | nil => rfl
  | cons h hs ih =>
    rw [List.flatMap_cons, List.flatMap_cons, splitLines_hunk h _ (hops h List.mem_cons_self) (hplain h List.mem_cons_self),
      ih (fun x hx => hops x (List.mem_cons_of_mem _ hx)) (fun x hx => hplain x (List.mem_cons_of_mem _ hx))]


/-! ### the range parser does not look at the hunk it fills in -/

theorem consumeLineNumber_indep (r : Bytes) (cur cur' : Int) :
    (consumeLineNumber r cur).1 = (consumeLineNumber r cur').1 ∧
    (consumeLineNumber r cur).2.2 = (consumeLineNumber r cur').2.2 := by
  unfold consumeLineNumber
  cases r with
  | nil => exact ⟨rfl, rfl⟩
  | cons c r =>
    simp only
    split
    · exact ⟨rfl, rfl⟩
    · exact ⟨rfl, rfl⟩

theorem consumeRange_indep (r r' : Range) (inp : Bytes) :
    (consumeRange r inp).1 = (consumeRange r' inp).1 ∧ (consumeRange r inp).2.2 = (consumeRange r' inp).2.2 := by
  unfold consumeRange
  obtain ⟨h1, h2⟩ := consumeLineNumber_indep inp r.start r'.start
  generalize consumeLineNumber inp r.start = a at h1 h2
  generalize consumeLineNumber inp r'.start = a' at h1 h2
  rcases a with ⟨ok, v, rest⟩
  rcases a' with ⟨ok', v', rest'⟩
  simp only at h1 h2
  subst h1 h2
  simp only
  cases ok
  · exact ⟨rfl, rfl⟩
  · simp only [Bool.not_true, Bool.false_eq_true, if_false]
    cases consumeStr [44] rest with
    | none => exact ⟨rfl, rfl⟩
    | some rest2 =>
      simp only
      exact consumeLineNumber_indep rest2 _ _

theorem parseUnifiedRange_fst_indep (h h' : Hunk) (line : Bytes) :
    (parseUnifiedRange h line).1 = (parseUnifiedRange h' line).1 := by
  rw [parseUnifiedRange_eq, parseUnifiedRange_eq]
  cases consumeStr (str "@@ -") line with
  | none => rfl
  | some r1 =>
    simp only
    obtain ⟨h1, h2⟩ := consumeRange_indep h.old h'.old r1
    generalize consumeRange h.old r1 = a at h1 h2
    generalize consumeRange h'.old r1 = a' at h1 h2
    rcases a with ⟨ok, v, rest⟩
    rcases a' with ⟨ok', v', rest'⟩
    simp only at h1 h2
    subst h1 h2
    cases ok
    · rfl
    · simp only [Bool.not_true, Bool.false_eq_true, if_false]
      cases consumeStr (str " +") rest with
      | none => rfl
      | some r3 =>
        simp only
        obtain ⟨h1, h2⟩ := consumeRange_indep h.new h'.new r3
        generalize consumeRange h.new r3 = a at h1 h2
        generalize consumeRange h'.new r3 = a' at h1 h2
        rcases a with ⟨ok, v, rest⟩
        rcases a' with ⟨ok', v', rest'⟩
        simp only at h1 h2
        subst h1 h2
        cases ok
        · rfl
        · simp only [Bool.not_true, Bool.false_eq_true, if_false]
          cases consumeStr (str " @@") rest <;> rfl


/-! ### a CR after the text of a range line does not unmake it (D85: `get_line` takes a CR at the very end of the patch away) -/

theorem takeWhile_snoc_false {α} (p : α → Bool) (l : List α) (a : α) (h : p a = false) :
    (l ++ [a]).takeWhile p = l.takeWhile p := by
  induction l with
  | nil => simp [h]
  | cons x l ih =>
    simp only [List.cons_append, List.takeWhile_cons]
    split
    · rw [ih]
    · rfl

theorem dropWhile_snoc_false {α} (p : α → Bool) (l : List α) (a : α) (h : p a = false) :
    (l ++ [a]).dropWhile p = l.dropWhile p ++ [a] := by
  induction l with
  | nil => simp [h]
  | cons x l ih =>
    simp only [List.cons_append, List.dropWhile_cons]
    split
    · rw [ih]
    · rfl

theorem consumeLineNumber_snocCR (r : Bytes) (cur : Int) :
    consumeLineNumber (r ++ [CR]) cur =
      ((consumeLineNumber r cur).1, (consumeLineNumber r cur).2.1, (consumeLineNumber r cur).2.2 ++ [CR]) := by
  have hcr : isDigit CR = false := by decide
  cases r with
  | nil => simp [consumeLineNumber, hcr]
  | cons c r =>
    have e : (c :: r) ++ [CR] = c :: (r ++ [CR]) := rfl
    unfold consumeLineNumber
    rw [e]
    simp only
    split
    · rw [← e, takeWhile_snoc_false _ _ _ hcr, dropWhile_snoc_false _ _ _ hcr]
    · rfl

theorem consumeStr_snoc_some {s r r' : Bytes} (t : Bytes) (h : consumeStr s r = some r') :
    consumeStr s (r ++ t) = some (r' ++ t) := by
  unfold consumeStr at h ⊢
  split at h
  · rename_i hp
    simp only [Option.some.injEq] at h
    subst h
    have hp' : s <+: r := List.isPrefixOf_iff_prefix.1 hp
    obtain ⟨u, rfl⟩ := hp'
    have : s.isPrefixOf (s ++ u ++ t) = true := List.isPrefixOf_iff_prefix.2 ⟨u ++ t, by simp⟩
    rw [if_pos this]
    simp
  · cases h

theorem consumeStr_comma_snocCR (r : Bytes) : consumeStr [44] (r ++ [CR]) = (consumeStr [44] r).map (· ++ [CR]) := by
  cases r with
  | nil => simp [consumeStr, CR]
  | cons c r => simp [consumeStr]

theorem consumeRange_snocCR (r : Range) (inp : Bytes) :
    consumeRange r (inp ++ [CR]) = ((consumeRange r inp).1, (consumeRange r inp).2.1, (consumeRange r inp).2.2 ++ [CR]) := by
  unfold consumeRange
  rw [consumeLineNumber_snocCR]
  generalize consumeLineNumber inp r.start = a
  rcases a with ⟨ok, v, rest⟩
  simp only
  cases ok
  · rfl
  · simp only [Bool.not_true, Bool.false_eq_true, if_false]
    rw [consumeStr_comma_snocCR]
    cases consumeStr [44] rest with
    | none => rfl
    | some rest2 =>
      simp only [Option.map_some]
      rw [consumeLineNumber_snocCR]

/-- a range line followed by a CR is a range line -/
theorem parseUnifiedRange_snocCR (h : Hunk) (line : Bytes) (hp : (parseUnifiedRange h line).1 = true) :
    (parseUnifiedRange h (line ++ [CR])).1 = true := by
  rw [parseUnifiedRange_eq] at hp ⊢
  cases h1 : consumeStr (str "@@ -") line with
  | none => rw [h1] at hp; cases hp
  | some r1 =>
    rw [h1] at hp
    rw [consumeStr_snoc_some [CR] h1]
    simp only at hp ⊢
    rw [consumeRange_snocCR]
    generalize consumeRange h.old r1 = a at hp
    rcases a with ⟨ok, oldR, r2⟩
    simp only at hp ⊢
    cases ok
    · cases hp
    · simp only [Bool.not_true, Bool.false_eq_true, if_false] at hp ⊢
      cases h2 : consumeStr (str " +") r2 with
      | none => rw [h2] at hp; cases hp
      | some r3 =>
        rw [h2] at hp
        rw [consumeStr_snoc_some [CR] h2]
        simp only at hp ⊢
        rw [consumeRange_snocCR]
        generalize consumeRange h.new r3 = b at hp
        rcases b with ⟨ok2, newR, r4⟩
        simp only at hp ⊢
        cases ok2
        · cases hp
        · simp only [Bool.not_true, Bool.false_eq_true, if_false] at hp ⊢
          cases h3 : consumeStr (str " @@") r4 with
          | none => rw [h3] at hp; cases hp
          | some r5 => rw [consumeStr_snoc_some [CR] h3]

/-! ### the hunk loop of the unified parser over emitted text -/

/-- what `unifiedLoop` does after the last line of a hunk -/
def afterHunk (fuel : Nat) (st4 : UState) : Except Exn (Bool × UState) :=
  let pos := st4.par.s.rest
  match st4.par.getLine with
  | (none, par5) => .ok (true, { st4 with par := par5 })
  | (some l2, par5) =>
    let (ok, h') := parseUnifiedRange st4.hunk l2.content
    if !ok then
      .ok (true, { st4 with hunk := h', par := { s := par5.s.seek pos, lineNo := par5.lineNo - 1 } })
    else unifiedLoop fuel { st4 with par := par5, hunk := h', content := true, oldExp := h'.old.count, newExp := h'.new.count }

/-- what may follow an emitted hunk: not a `\` line -/
def AfterOK (after : List Line) : Prop := ∀ l, after.head? = some l → l.content.head? ≠ some BACKSLASH

theorem peek_after (after : List Line) (h : AfterOK after) (e b : Bool) : PStream.peek ⟨after, e, b⟩ ≠ BACKSLASH := by
  cases after with
  | nil => simp only [PStream.peek]; decide
  | cons l r =>
    have := h l rfl
    rcases l with ⟨content, nl⟩
    cases content with
    | nil => cases nl <;> simp only [PStream.peek] <;> decide
    | cons c cs => simp only [PStream.peek]; simpa using this

theorem peek_body (rest : List PatchLine) (after : List Line) (h : AfterOK after)
    (hops : ∀ pl ∈ rest, pl.op = SP ∨ pl.op = PLUS ∨ pl.op = MINUS) (e b : Bool) :
    PStream.peek ⟨bodyLines rest ++ after, e, b⟩ ≠ BACKSLASH := by
  cases rest with
  | nil => exact peek_after after h e b
  | cons pl r =>
    unfold PStream.peek
    simp only [bodyLines, List.cons_append]
    rcases hops pl List.mem_cons_self with h | h | h <;> rw [h] <;> decide

/-- the marker on the last line: the line loses its terminator; the CR of a CR LF terminator stays, as content
    (statement changed with the model, `mark_as_unterminated`; before: `… = L ++ [⟨op, ⟨c, .none⟩⟩]` for every `nl`) -/
theorem markLastNone_snoc (L : List PatchLine) (op : UInt8) (c : Bytes) (nl : NewLine) :
    markLastNone (L ++ [⟨op, ⟨c, nl⟩⟩]) = L ++ [⟨op, ⟨if nl = .crlf then c ++ [CR] else c, .none⟩⟩] := by
  unfold markLastNone; simp

/-- the old form of `markLastNone_snoc`, for a line that does not end in CR LF -/
theorem markLastNone_snoc_of_ne (L : List PatchLine) (op : UInt8) (c : Bytes) (nl : NewLine) (h : nl ≠ .crlf) :
    markLastNone (L ++ [⟨op, ⟨c, nl⟩⟩]) = L ++ [⟨op, ⟨c, .none⟩⟩] := by
  rw [markLastNone_snoc, if_neg h]

theorem markLastNone_snoc_lf (L : List PatchLine) (op : UInt8) (c : Bytes) :
    markLastNone (L ++ [⟨op, ⟨c, .lf⟩⟩]) = L ++ [⟨op, ⟨c, .none⟩⟩] :=
  markLastNone_snoc_of_ne L op c .lf (by decide)

theorem markLastNone_snoc_crlf (L : List PatchLine) (op : UInt8) (c : Bytes) :
    markLastNone (L ++ [⟨op, ⟨c, .crlf⟩⟩]) = L ++ [⟨op, ⟨c ++ [CR], .none⟩⟩] := by
  rw [markLastNone_snoc, if_pos rfl]

theorem sides_ne_nil (rest : List PatchLine) (hne : rest ≠ [])
    (hops : ∀ pl ∈ rest, pl.op = SP ∨ pl.op = PLUS ∨ pl.op = MINUS) :
    ¬ (((oldOf rest).length : Int) = 0 ∧ ((newOf rest).length : Int) = 0) := by
  cases rest with
  | nil => exact absurd rfl hne
  | cons pl r =>
    rintro ⟨h1, h2⟩
    rcases hops pl List.mem_cons_self with h | h | h
    · rw [Splice.oldOf_cons_not_plus (by rw [h]; decide), List.length_cons] at h1; omega
    · rw [Splice.newOf_cons_not_minus (by rw [h]; decide), List.length_cons] at h2; omega
    · rw [Splice.oldOf_cons_not_plus (by rw [h]; decide), List.length_cons] at h1; omega

/-- the new-side bookkeeping of one hunk line -/
def stepNew (st1 : UState) (what : UInt8) : UState :=
  if what != MINUS then
    let ne := st1.newExp - 1
    if ne = 0 ∧ st1.par.s.peek = BACKSLASH then
      { st1 with newExp := ne, hunk := { st1.hunk with lines := markLastNone st1.hunk.lines }, par := (st1.par.getLine).2 }
    else { st1 with newExp := ne }
  else st1

/-- the old-side bookkeeping of one hunk line -/
def stepOld (st2 : UState) (what : UInt8) : UState :=
  if what != PLUS then
    let oe := st2.oldExp - 1
    if oe = 0 ∧ st2.par.s.peek = BACKSLASH then
      { st2 with oldExp := oe, hunk := { st2.hunk with lines := markLastNone st2.hunk.lines }, par := (st2.par.getLine).2 }
    else { st2 with oldExp := oe }
  else st2

theorem unifiedLoop_content (fuel : Nat) (st : UState) (l : Line) (par' : Parser) (what : UInt8) (body : Bytes)
    (hg : st.par.getLine = (some l, par')) (hc : st.content = true) (hl : l.content = what :: body)
    (hw : what = SP ∨ what = PLUS ∨ what = MINUS) :
    unifiedLoop (fuel + 1) st =
      let st3 := stepOld (stepNew { st with par := par', hunk := { st.hunk with lines := st.hunk.lines ++ [⟨what, ⟨body, l.newline⟩⟩] } } what) what
      if st3.oldExp = 0 ∧ st3.newExp = 0 then
        afterHunk fuel { st3 with hunks := st3.hunks ++ [st3.hunk], hunk := { st3.hunk with lines := [] } }
      else unifiedLoop fuel st3 := by
  rcases l with ⟨lc, lnl⟩
  simp only at hl
  subst hl
  rcases st with ⟨par, hunks, hunk, content, oe, ne⟩
  simp only at hc hg
  subst hc
  rcases hw with rfl | rfl | rfl
  · rw [unifiedLoop]
    simp only []
    rw [hg]
    rfl
  · rw [unifiedLoop]
    simp only []
    rw [hg]
    rfl
  · rw [unifiedLoop]
    simp only []
    rw [hg]
    rfl

theorem stepNew_minus (st1 : UState) : stepNew st1 MINUS = st1 := rfl
theorem stepOld_plus (st1 : UState) : stepOld st1 PLUS = st1 := rfl

theorem stepNew_nomark (st1 : UState) (what : UInt8) (hw : what = SP ∨ what = PLUS)
    (hpk : st1.par.s.peek ≠ BACKSLASH) : stepNew st1 what = { st1 with newExp := st1.newExp - 1 } := by
  unfold stepNew
  have : (what != MINUS) = true := by rcases hw with rfl | rfl <;> decide
  simp only [this, if_true]
  rw [if_neg (fun h => hpk h.2)]

theorem stepOld_nomark (st1 : UState) (what : UInt8) (hw : what = SP ∨ what = MINUS)
    (hpk : st1.par.s.peek ≠ BACKSLASH) : stepOld st1 what = { st1 with oldExp := st1.oldExp - 1 } := by
  unfold stepOld
  have : (what != PLUS) = true := by rcases hw with rfl | rfl <;> decide
  simp only [this, if_true]
  rw [if_neg (fun h => hpk h.2)]

theorem stepNew_mark (st1 : UState) (what : UInt8) (hw : what = SP ∨ what = PLUS)
    (h0 : st1.newExp - 1 = 0) (hpk : st1.par.s.peek = BACKSLASH) :
    stepNew st1 what = { st1 with newExp := st1.newExp - 1, hunk := { st1.hunk with lines := markLastNone st1.hunk.lines },
                                   par := (st1.par.getLine).2 } := by
  unfold stepNew
  have : (what != MINUS) = true := by rcases hw with rfl | rfl <;> decide
  simp only [this, if_true]
  rw [if_pos ⟨h0, hpk⟩]

theorem stepOld_mark (st1 : UState) (what : UInt8) (hw : what = SP ∨ what = MINUS)
    (h0 : st1.oldExp - 1 = 0) (hpk : st1.par.s.peek = BACKSLASH) :
    stepOld st1 what = { st1 with oldExp := st1.oldExp - 1, hunk := { st1.hunk with lines := markLastNone st1.hunk.lines },
                                   par := (st1.par.getLine).2 } := by
  unfold stepOld
  have : (what != PLUS) = true := by rcases hw with rfl | rfl <;> decide
  simp only [this, if_true]
  rw [if_pos ⟨h0, hpk⟩]

theorem getLine_lf (content : Bytes) (r : List Line) (n : Nat) :
    Parser.getLine ⟨⟨⟨content, .lf⟩ :: r, false, false⟩, n⟩ = (some ⟨content, .lf⟩, ⟨⟨r, false, false⟩, n + 1⟩) := rfl

/-- a line that has a terminator is handed out as it is -/
theorem getLine_wire (content : Bytes) (nl : NewLine) (hnl : nl ≠ .none) (r : List Line) (n : Nat) :
    Parser.getLine ⟨⟨⟨content, nl⟩ :: r, false, false⟩, n⟩ = (some ⟨content, nl⟩, ⟨⟨r, false, false⟩, n + 1⟩) := by
  cases nl
  · rfl
  · rfl
  · exact absurd rfl hnl

theorem peek_marker (r : List Line) (e b : Bool) : PStream.peek ⟨markerLine :: r, e, b⟩ = BACKSLASH := rfl

/-! ### the hunk loop over any wire form of the lines (a last line that ends in a bare CR)

`Hunk.writable` (Spec/Diff) forbids a trailing CR in the content of EVERY line.  With `mark_as_unterminated` (the marker
keeps the CR of the line before it as content) only a line that ends in LF has to do without one:
* a `.crlf` line `c CR` is written `c CR CR LF` and read back as `c CR` + CR LF;
* a `.none` line `c CR` is written `c CR LF` + marker, read as `c` + CR LF, and the marker gives `c CR` back;
* a `.lf` line `c CR` is written `c CR LF` and read back as `c` + CR LF: the one case that can not come back.
So the lemmas about the hunk loop are proved over an arbitrary "wire form" `w` of a line (`WireOK`): `wireLf`
(`⟨content, wireNl⟩`, the form `bodyLines` / `hunkLines` use: right for `writable` hunks) and `wire` (what `splitLines`
really gives: right for `writableCR` hunks) are instances, and `steps_spec`, `unifiedLoop_body`, `unifiedLoop_hunks`,
`unified_roundtrip` below are the instances for `wireLf` of `steps_specG`, `unifiedLoop_bodyG`, `unifiedLoop_hunksG`,
`unified_roundtrip_cr`. -/

/-- the line as it stands in the text of a diff: a line without newline is written with LF (and followed by the marker), so
    that a CR it ends in is read as part of a CR LF terminator -/
def wire (l : Line) : Line := if l.newline = .none then mkLine l.content else l

/-- what a wire form has to satisfy for the reader to give the line back -/
def WireOK (w : Line → Line) : Prop :=
  ∀ l, (w l).newline ≠ .none ∧ (l.newline ≠ .none → w l = l) ∧
    (l.newline = .none → (if (w l).newline = .crlf then (w l).content ++ [CR] else (w l).content) = l.content)

theorem wireOK_wire : WireOK wire := by
  intro l
  refine ⟨?_, ?_, ?_⟩
  · unfold wire; split
    · exact Render.mkLine_newline_ne_none _
    · assumption
  · intro h; unfold wire; rw [if_neg h]
  · intro h
    unfold wire; rw [if_pos h]
    unfold mkLine
    split
    · next hc => simp only [if_true]; exact Render.dropLast_append_of_getLast? _ _ hc
    · simp

/-- the wire form used above -/
def wireLf (l : Line) : Line := ⟨l.content, wireNl l⟩

theorem wireOK_wireLf : WireOK wireLf := by
  intro l
  refine ⟨wireNl_ne_none l, ?_, ?_⟩
  · intro h; rcases l with ⟨c, nl⟩; simp only [wireLf, wireNl_of_ne_none h]
  · intro h; simp only [wireLf, wireNl_of_none h]; simp

/-- the lines of the body of an emitted hunk, over a wire form -/
def bodyLinesG (w : Line → Line) : List PatchLine → List Line
  | [] => []
  | pl :: rest => ⟨pl.op :: (w pl.line).content, (w pl.line).newline⟩ ::
      ((if pl.line.newline = .none then [markerLine] else []) ++ bodyLinesG w rest)

def hunkLinesG (w : Line → Line) (h : Hunk) : List Line := ⟨rangeText h, .lf⟩ :: bodyLinesG w h.lines

theorem bodyLines_eq : bodyLines = bodyLinesG wireLf := by
  funext ls
  induction ls with
  | nil => rfl
  | cons pl rest ih => simp only [bodyLines, bodyLinesG, ih]; rfl

theorem hunkLines_eq : hunkLines = hunkLinesG wireLf := by
  funext h; simp only [hunkLines, hunkLinesG, bodyLines_eq]

theorem peek_bodyG (w : Line → Line) (rest : List PatchLine) (after : List Line) (h : AfterOK after)
    (hops : ∀ pl ∈ rest, pl.op = SP ∨ pl.op = PLUS ∨ pl.op = MINUS) (e b : Bool) :
    PStream.peek ⟨bodyLinesG w rest ++ after, e, b⟩ ≠ BACKSLASH := by
  cases rest with
  | nil => exact peek_after after h e b
  | cons pl r =>
    unfold PStream.peek
    simp only [bodyLinesG, List.cons_append]
    rcases hops pl List.mem_cons_self with h | h | h <;> rw [h] <;> decide

/-- `steps_spec` for any text line `wl` that the marker (if the line lacks its newline) turns back into the hunk line;
    `body`: the text of the hunk lines that follow -/
theorem steps_specG (pl : PatchLine) (wl : Line) (rest' : List PatchLine) (n : Nat) (hunks : List Hunk) (o nw : Range)
    (L : List PatchLine) (body after : List Line)
    (hop : pl.op = SP ∨ pl.op = PLUS ∨ pl.op = MINUS)
    (hpk : PStream.peek ⟨body ++ after, false, false⟩ ≠ BACKSLASH)
    (hnl : noNlOnlyLast (pl :: rest') = true)
    (h1 : pl.line.newline ≠ .none → wl = pl.line)
    (h2 : pl.line.newline = .none → (if wl.newline = .crlf then wl.content ++ [CR] else wl.content) = pl.line.content) :
    ∃ n', stepOld (stepNew ⟨⟨⟨(if pl.line.newline = .none then [markerLine] else []) ++ body ++ after, false, false⟩, n⟩,
              hunks, ⟨o, nw, L ++ [⟨pl.op, ⟨wl.content, wl.newline⟩⟩]⟩, true,
              (oldOf (pl :: rest')).length, (newOf (pl :: rest')).length⟩ pl.op) pl.op
      = ⟨⟨⟨body ++ after, false, false⟩, n'⟩, hunks, ⟨o, nw, L ++ [pl]⟩, true,
          (oldOf rest').length, (newOf rest').length⟩ := by
  rcases pl with ⟨op, ⟨c, nl⟩⟩
  simp only at hop h1 h2
  by_cases hn : nl = .none
  · subst hn
    have h2' := h2 rfl
    simp only [if_true, List.cons_append, List.nil_append]
    unfold noNlOnlyLast at hnl
    simp only [if_true, Bool.and_eq_true] at hnl
    rcases hop with rfl | rfl | rfl
    · have hr : rest' = [] := by simpa using hnl.1
      subst hr
      refine ⟨n + 1, ?_⟩
      rw [Splice.oldOf_cons_not_plus rfl, Splice.newOf_cons_not_minus rfl]
      simp only [Splice.oldOf_nil, Splice.newOf_nil, List.length_cons, List.length_nil]
      rw [stepNew_mark _ _ (Or.inl rfl) (by simp) (peek_marker _ _ _)]
      simp only [markerLine, getLine_lf, markLastNone_snoc, h2']
      rw [stepOld_nomark _ _ (Or.inl rfl) hpk]
      simp
    · have hr : newOf rest' = [] := by simpa using hnl.1
      refine ⟨n + 1, ?_⟩
      rw [Splice.oldOf_cons_plus rfl, Splice.newOf_cons_not_minus rfl, hr]
      simp only [List.length_cons, List.length_nil]
      rw [stepNew_mark _ _ (Or.inr rfl) (by simp) (peek_marker _ _ _), stepOld_plus]
      simp only [markerLine, getLine_lf, markLastNone_snoc, h2']
      simp
    · have hr : oldOf rest' = [] := by simpa using hnl.1
      refine ⟨n + 1, ?_⟩
      rw [Splice.oldOf_cons_not_plus rfl, Splice.newOf_cons_minus rfl, hr]
      simp only [List.length_cons, List.length_nil]
      rw [stepNew_minus, stepOld_mark _ _ (Or.inr rfl) (by simp) (peek_marker _ _ _)]
      simp only [markerLine, getLine_lf, markLastNone_snoc, h2']
      simp
  · have hw := h1 hn
    subst hw
    simp only [hn, if_false, List.nil_append]
    refine ⟨n, ?_⟩
    rcases hop with rfl | rfl | rfl
    · rw [Splice.oldOf_cons_not_plus rfl, Splice.newOf_cons_not_minus rfl]
      rw [stepNew_nomark _ _ (Or.inl rfl) hpk, stepOld_nomark _ _ (Or.inl rfl) hpk]
      simp
    · rw [Splice.oldOf_cons_plus rfl, Splice.newOf_cons_not_minus rfl]
      rw [stepNew_nomark _ _ (Or.inr rfl) hpk, stepOld_plus]
      simp
    · rw [Splice.oldOf_cons_not_plus rfl, Splice.newOf_cons_minus rfl]
      rw [stepNew_minus, stepOld_nomark _ _ (Or.inr rfl) hpk]
      simp

theorem bodyLinesG_cons_append (w : Line → Line) (pl : PatchLine) (rest' : List PatchLine) (after : List Line) :
    bodyLinesG w (pl :: rest') ++ after = ⟨pl.op :: (w pl.line).content, (w pl.line).newline⟩ ::
      ((if pl.line.newline = .none then [markerLine] else []) ++ bodyLinesG w rest' ++ after) := by
  simp [bodyLinesG]

/-- the loop over the body of one emitted hunk, over a wire form -/
theorem unifiedLoop_bodyG (w : Line → Line) (hw : WireOK w) : ∀ (rest : List PatchLine) (fuel n : Nat) (hunks : List Hunk)
    (o nw : Range) (L : List PatchLine) (after : List Line), rest ≠ [] →
    (∀ pl ∈ rest, pl.op = SP ∨ pl.op = PLUS ∨ pl.op = MINUS) → noNlOnlyLast rest = true → AfterOK after →
    (bodyLinesG w rest ++ after).length + 1 ≤ fuel →
    ∃ fuel' n', after.length + 1 ≤ fuel' ∧
      unifiedLoop fuel ⟨⟨⟨bodyLinesG w rest ++ after, false, false⟩, n⟩, hunks, ⟨o, nw, L⟩, true,
          (oldOf rest).length, (newOf rest).length⟩
        = afterHunk fuel' ⟨⟨⟨after, false, false⟩, n'⟩, hunks ++ [⟨o, nw, L ++ rest⟩], ⟨o, nw, []⟩,
            true, 0, 0⟩ := by
  intro rest
  induction rest with
  | nil => intro _ _ _ _ _ _ _ h; exact absurd rfl h
  | cons pl rest' ih =>
    intro fuel n hunks o nw L after _ hops hnl hafter hfuel
    have hop := hops pl List.mem_cons_self
    have hops' : ∀ x ∈ rest', x.op = SP ∨ x.op = PLUS ∨ x.op = MINUS := fun x hx => hops x (List.mem_cons_of_mem _ hx)
    rw [bodyLinesG_cons_append] at hfuel ⊢
    obtain ⟨f, rfl⟩ : ∃ f, fuel = f + 1 := ⟨fuel - 1, by simp at hfuel; omega⟩
    rw [unifiedLoop_content f _ ⟨pl.op :: (w pl.line).content, (w pl.line).newline⟩ _ pl.op (w pl.line).content
      (getLine_wire _ _ (hw pl.line).1 _ _) rfl rfl hop]
    obtain ⟨n', hn'⟩ := steps_specG pl (w pl.line) rest' (n + 1) hunks o nw L (bodyLinesG w rest') after hop
      (peek_bodyG w rest' after hafter hops' false false) hnl (hw pl.line).2.1 (hw pl.line).2.2
    dsimp only
    rw [hn']
    dsimp only
    by_cases hr : rest' = []
    · subst hr
      refine ⟨f, n', ?_, ?_⟩
      · simp at hfuel ⊢; omega
      · simp [oldOf, newOf, bodyLinesG]
    · rw [if_neg (sides_ne_nil rest' hr hops')]
      have hnl' : noNlOnlyLast rest' = true := by
        unfold noNlOnlyLast at hnl; simp only [Bool.and_eq_true] at hnl; exact hnl.2
      obtain ⟨fuel', n'', h1, h2⟩ := ih f n' hunks o nw (L ++ [pl]) after hr hops' hnl' hafter
        (by simp at hfuel ⊢; omega)
      refine ⟨fuel', n'', h1, ?_⟩
      rw [h2]; simp


/-- the state after the two bookkeeping steps of one emitted hunk line -/
theorem steps_spec (pl : PatchLine) (rest' : List PatchLine) (n : Nat) (hunks : List Hunk) (o nw : Range)
    (L : List PatchLine) (after : List Line)
    (hop : pl.op = SP ∨ pl.op = PLUS ∨ pl.op = MINUS)
    (hops : ∀ pl ∈ rest', pl.op = SP ∨ pl.op = PLUS ∨ pl.op = MINUS)
    (hnl : noNlOnlyLast (pl :: rest') = true) (hafter : AfterOK after) :
    ∃ n', stepOld (stepNew ⟨⟨⟨(if pl.line.newline = .none then [markerLine] else []) ++ bodyLines rest' ++ after, false, false⟩, n⟩,
              hunks, ⟨o, nw, L ++ [⟨pl.op, ⟨pl.line.content, wireNl pl.line⟩⟩]⟩, true,
              (oldOf (pl :: rest')).length, (newOf (pl :: rest')).length⟩ pl.op) pl.op
      = ⟨⟨⟨bodyLines rest' ++ after, false, false⟩, n'⟩, hunks, ⟨o, nw, L ++ [pl]⟩, true,
          (oldOf rest').length, (newOf rest').length⟩ :=
  steps_specG pl (wireLf pl.line) rest' n hunks o nw L (bodyLines rest') after hop
    (peek_body rest' after hafter hops false false) hnl (wireOK_wireLf pl.line).2.1 (wireOK_wireLf pl.line).2.2

theorem bodyLines_cons_append (pl : PatchLine) (rest' : List PatchLine) (after : List Line) :
    bodyLines (pl :: rest') ++ after = ⟨pl.op :: pl.line.content, wireNl pl.line⟩ ::
      ((if pl.line.newline = .none then [markerLine] else []) ++ bodyLines rest' ++ after) := by
  simp [bodyLines]

/-- the loop over the body of one emitted hunk -/
theorem unifiedLoop_body : ∀ (rest : List PatchLine) (fuel n : Nat) (hunks : List Hunk) (o nw : Range)
    (L : List PatchLine) (after : List Line), rest ≠ [] →
    (∀ pl ∈ rest, pl.op = SP ∨ pl.op = PLUS ∨ pl.op = MINUS) → noNlOnlyLast rest = true → AfterOK after →
    (bodyLines rest ++ after).length + 1 ≤ fuel →
    ∃ fuel' n', after.length + 1 ≤ fuel' ∧
      unifiedLoop fuel ⟨⟨⟨bodyLines rest ++ after, false, false⟩, n⟩, hunks, ⟨o, nw, L⟩, true,
          (oldOf rest).length, (newOf rest).length⟩
        = afterHunk fuel' ⟨⟨⟨after, false, false⟩, n'⟩, hunks ++ [⟨o, nw, L ++ rest⟩], ⟨o, nw, []⟩,
            true, 0, 0⟩ := by
  rw [bodyLines_eq]
  exact unifiedLoop_bodyG wireLf wireOK_wireLf

/-! ### writable hunks -/

theorem writable_spec (h : Hunk) (hw : h.writable = true) :
    (∀ pl ∈ h.lines, pl.op = SP ∨ pl.op = PLUS ∨ pl.op = MINUS) ∧
    h.old.count = ((oldOf h.lines).length : Int) ∧ h.new.count = ((newOf h.lines).length : Int) ∧
    h.lines ≠ [] ∧ (∀ pl ∈ h.lines, plainLine pl.line = true) ∧ noNlOnlyLast h.lines = true ∧
    0 ≤ h.old.start ∧ 0 ≤ h.new.start ∧ h.old.start + h.old.count ≤ i64Max / 4 ∧ h.new.start + h.new.count ≤ i64Max / 4 := by
  unfold Hunk.writable Hunk.wfB at hw
  simp only [Bool.and_eq_true, List.all_eq_true, Bool.or_eq_true, beq_iff_eq, decide_eq_true_eq,
    Bool.not_eq_true', List.isEmpty_eq_false_iff] at hw
  obtain ⟨⟨⟨⟨⟨⟨⟨⟨⟨h1, h2⟩, h3⟩, h4⟩, h5⟩, h6⟩, h7⟩, h8⟩, h9⟩, h10⟩ := hw
  refine ⟨?_, h2, h3, h4, h5, h6, h7, h8, h9, h10⟩
  intro pl hpl
  rcases h1 pl hpl with (h | h) | h
  · exact Or.inl h
  · exact Or.inr (Or.inl h)
  · exact Or.inr (Or.inr h)

theorem parseUnifiedRange_rangeText (h0 h : Hunk) (hw : h.writable = true) :
    parseUnifiedRange h0 (rangeText h) = (true, { h0 with old := h.old, new := h.new }) := by
  obtain ⟨_, h2, h3, _, _, _, h7, h8, h9, h10⟩ := writable_spec h hw
  exact unified_range_roundtrip h h0 h7 (by omega) h8 (by omega) (by omega) (by omega) (by omega) (by omega)


theorem unifiedLoop_range (fuel : Nat) (st : UState) (l : Line) (par' : Parser) (h' : Hunk)
    (hg : st.par.getLine = (some l, par')) (hc : st.content = false)
    (hp : parseUnifiedRange st.hunk l.content = (true, h')) :
    unifiedLoop (fuel + 1) st =
      unifiedLoop fuel { st with par := par', hunk := h', content := true, oldExp := h'.old.count, newExp := h'.new.count } := by
  rcases st with ⟨par, hunks, hunk, content, oe, ne⟩
  simp only at hc hg hp
  subst hc
  rw [unifiedLoop]
  simp only []
  rw [hg]
  simp only [Bool.not_false, if_true, hp]

theorem afterOK_tail (tail : List Line) (ht : tailOkUnified tail = true) : AfterOK tail := by
  intro l hl
  cases tail with
  | nil => cases hl
  | cons a r =>
    simp only [List.head?_cons, Option.some.injEq] at hl
    subst hl
    unfold tailOkUnified at ht
    simp only [Bool.and_eq_true, bne_iff_ne, ne_eq] at ht
    exact ht.2

theorem afterOK_hunkLines (h : Hunk) (r : List Line) : AfterOK (hunkLines h ++ r) := by
  intro l hl
  simp only [hunkLines, List.cons_append, List.head?_cons, Option.some.injEq] at hl
  subst hl
  simp only [rangeText, str_atat_minus, List.cons_append, List.head?_cons]
  decide

theorem afterHunk_tail (fuel n : Nat) (hunks : List Hunk) (hk : Hunk) (tail : List Line) (ht : tailOkUnified tail = true) :
    ∃ st', afterHunk fuel ⟨⟨⟨tail, false, false⟩, n⟩, hunks, hk, true, 0, 0⟩ = .ok (true, st') ∧
      st'.hunks = hunks ∧ st'.par.s.rest = tail := by
  unfold afterHunk
  cases tail with
  | nil => exact ⟨_, rfl, rfl, rfl⟩
  | cons l r =>
    have hp : (parseUnifiedRange hk l.content).1 = false := by
      rw [parseUnifiedRange_fst_indep hk defaultHunk]
      unfold tailOkUnified at ht
      simp only [Bool.and_eq_true, Bool.not_eq_true'] at ht
      exact ht.1
    have hg : ∃ l' par5, Parser.getLine ⟨⟨l :: r, false, false⟩, n⟩ = (some l', par5) ∧
        (parseUnifiedRange hk l'.content).1 = false := by
      by_cases hn : l.newline = .none
      · by_cases hcr : l.content.getLast? = some CR
        · -- the CR at the very end of the text is taken away (D85): what is left is no range line either
          refine ⟨⟨l.content.dropLast, .crlf⟩, ⟨⟨r, true, false⟩, n + 1⟩, ?_, ?_⟩
          · simp [Parser.getLine, PStream.getLine, hn, hcr]
          · cases hb : (parseUnifiedRange hk l.content.dropLast).1 with
            | false => rfl
            | true =>
              have := parseUnifiedRange_snocCR hk _ hb
              have e : l.content.dropLast ++ [CR] = l.content := by
                obtain ⟨d, hd⟩ : ∃ d, l.content = d ++ [CR] := by
                  rcases List.eq_nil_or_concat l.content with h0 | ⟨d, b, h0⟩
                  · rw [h0] at hcr; cases hcr
                  · rw [h0] at hcr; simp at hcr; subst hcr; exact ⟨d, by simpa using h0⟩
                rw [hd]; simp
              rw [e, hp] at this
              cases this
        · refine ⟨⟨l.content, .lf⟩, ⟨⟨r, true, false⟩, n + 1⟩, ?_, hp⟩
          simp [Parser.getLine, PStream.getLine, hn, hcr]
      · refine ⟨l, ⟨⟨r, false, false⟩, n + 1⟩, ?_, hp⟩
        simp [Parser.getLine, PStream.getLine, hn]
    clear hp
    obtain ⟨l', par5, hg, hp⟩ := hg
    simp only [hg]
    generalize parseUnifiedRange hk l'.content = res at hp
    rcases res with ⟨ok, h'⟩
    simp only at hp
    subst hp
    exact ⟨_, rfl, rfl, rfl⟩

theorem normNl_eq (h : Hunk) : (⟨h.old, h.new, [] ++ h.lines.map PatchLine.normNl⟩ : Hunk) = h.normNl := rfl

/-- the hunk the body loop hands over is the hunk itself -/
theorem hunk_eq (h : Hunk) : (⟨h.old, h.new, [] ++ h.lines⟩ : Hunk) = h := rfl

/-- what the reader needs of a hunk (everything `Hunk.writable` asks for, except for the bytes of the lines) -/
def Readable (h : Hunk) : Prop :=
  (∀ pl ∈ h.lines, pl.op = SP ∨ pl.op = PLUS ∨ pl.op = MINUS) ∧
  h.old.count = ((oldOf h.lines).length : Int) ∧ h.new.count = ((newOf h.lines).length : Int) ∧
  h.lines ≠ [] ∧ noNlOnlyLast h.lines = true ∧
  0 ≤ h.old.start ∧ 0 ≤ h.new.start ∧ h.old.start + h.old.count ≤ i64Max / 4 ∧ h.new.start + h.new.count ≤ i64Max / 4

theorem readable_of_writable (h : Hunk) (hw : h.writable = true) : Readable h := by
  obtain ⟨h1, h2, h3, h4, _, h6, h7, h8, h9, h10⟩ := writable_spec h hw
  exact ⟨h1, h2, h3, h4, h6, h7, h8, h9, h10⟩

theorem parseUnifiedRange_rangeText' (h0 h : Hunk) (hr : Readable h) :
    parseUnifiedRange h0 (rangeText h) = (true, { h0 with old := h.old, new := h.new }) := by
  obtain ⟨_, h2, h3, _, _, h7, h8, h9, h10⟩ := hr
  exact unified_range_roundtrip h h0 h7 (by omega) h8 (by omega) (by omega) (by omega) (by omega) (by omega)

theorem afterOK_hunkLinesG (w : Line → Line) (h : Hunk) (r : List Line) : AfterOK (hunkLinesG w h ++ r) := by
  intro l hl
  simp only [hunkLinesG, List.cons_append, List.head?_cons, Option.some.injEq] at hl
  subst hl
  simp only [rangeText, str_atat_minus, List.cons_append, List.head?_cons]
  decide

/-- the loop over a list of emitted hunks, entered after the first range line, over a wire form -/
theorem unifiedLoop_hunksG (w : Line → Line) (hw : WireOK w) : ∀ (hs : List Hunk) (h : Hunk) (fuel n : Nat)
    (hunks : List Hunk) (tail : List Line),
    (∀ x ∈ h :: hs, Readable x) → tailOkUnified tail = true →
    (bodyLinesG w h.lines ++ (hs.flatMap (hunkLinesG w) ++ tail)).length + 1 ≤ fuel →
    ∃ st', unifiedLoop fuel ⟨⟨⟨bodyLinesG w h.lines ++ (hs.flatMap (hunkLinesG w) ++ tail), false, false⟩, n⟩, hunks,
          ⟨h.old, h.new, []⟩, true, h.old.count, h.new.count⟩ = .ok (true, st') ∧
      st'.hunks = hunks ++ (h :: hs) ∧ st'.par.s.rest = tail := by
  intro hs
  induction hs with
  | nil =>
    intro h fuel n hunks tail hr ht hfuel
    obtain ⟨hops, hoc, hnc, hne, hnl, _⟩ := hr h List.mem_cons_self
    simp only [List.flatMap_nil, List.nil_append] at hfuel ⊢
    obtain ⟨fuel', n', _, h2⟩ := unifiedLoop_bodyG w hw h.lines fuel n hunks h.old h.new [] tail hne hops hnl
      (afterOK_tail tail ht) hfuel
    rw [hoc, hnc, h2, hunk_eq]
    obtain ⟨st', e1, e2, e3⟩ := afterHunk_tail fuel' n' (hunks ++ [h]) ⟨h.old, h.new, []⟩ tail ht
    exact ⟨st', e1, by rw [e2], e3⟩
  | cons h2 hs ih =>
    intro h fuel n hunks tail hr ht hfuel
    obtain ⟨hops, hoc, hnc, hne, hnl, _⟩ := hr h List.mem_cons_self
    have hr2 : Readable h2 := hr h2 (by simp)
    rw [List.flatMap_cons, List.append_assoc] at hfuel ⊢
    obtain ⟨fuel', n', h1, h2'⟩ := unifiedLoop_bodyG w hw h.lines fuel n hunks h.old h.new []
      (hunkLinesG w h2 ++ (hs.flatMap (hunkLinesG w) ++ tail)) hne hops hnl (afterOK_hunkLinesG _ _ _) hfuel
    rw [hoc, hnc, h2', hunk_eq]
    unfold afterHunk
    simp only [hunkLinesG, List.cons_append, getLine_lf, parseUnifiedRange_rangeText' _ h2 hr2, Bool.not_true,
      Bool.false_eq_true, if_false]
    obtain ⟨st', e1, e2, e3⟩ := ih h2 fuel' (n' + 1) (hunks ++ [h]) tail
      (fun x hx => hr x (List.mem_cons_of_mem _ hx)) ht
      (by simp only [hunkLinesG, List.cons_append, List.length_cons] at h1; omega)
    refine ⟨st', e1, ?_, e3⟩
    rw [e2]; simp

/-- the text lines of readable hunks (in any wire form the marker undoes) are read back as those hunks -/
theorem parse_hunkLinesG (w : Line → Line) (hw : WireOK w) (hs : List Hunk) (hne : hs ≠ []) (hr : ∀ h ∈ hs, Readable h)
    (tail : List Line) (ht : tailOkUnified tail = true) (lineNo : Nat) :
    ∃ par', parseUnifiedBody { s := { rest := hs.flatMap (hunkLinesG w) ++ tail }, lineNo := lineNo }
        = .ok (hs, par') ∧ par'.s.rest = tail := by
  cases hs with
  | nil => exact absurd rfl hne
  | cons h hs =>
    unfold parseUnifiedBody
    simp only [List.flatMap_cons, hunkLinesG, List.cons_append, List.length_cons]
    rw [unifiedLoop_range _ _ ⟨rangeText h, .lf⟩ _ _ (getLine_lf _ _ _) rfl
      (parseUnifiedRange_rangeText' defaultHunk h (hr h List.mem_cons_self))]
    obtain ⟨st', e1, e2, e3⟩ := unifiedLoop_hunksG w hw hs h
      ((bodyLinesG w h.lines ++ (List.flatMap (hunkLinesG w) hs ++ tail)).length + 2)
      (lineNo + 1) [] tail hr ht (by omega)
    simp only [defaultHunk, List.append_assoc]
    rw [e1]
    exact ⟨st'.par, by simp [e2], e3⟩

/-! #### the text the writer emits, in the wire form `wire` -/

/-- a line that comes back: no LF inside, and no CR at the end of a line that ends in LF -/
def okLine (l : Line) : Bool := !l.content.contains NL && (l.newline != .lf || l.content.getLast? != some CR)

/-- `Hunk.writable` with `okLine` in place of `plainLine` -/
def writableCR (h : Hunk) : Bool :=
  h.wfB && !h.lines.isEmpty && h.lines.all (fun pl => okLine pl.line) && noNlOnlyLast h.lines
    && decide (0 ≤ h.old.start) && decide (0 ≤ h.new.start)
    && decide (h.old.start + h.old.count ≤ i64Max / 4) && decide (h.new.start + h.new.count ≤ i64Max / 4)

theorem okLine_of_plainLine {l : Line} (h : plainLine l = true) : okLine l = true := by
  unfold plainLine at h
  unfold okLine
  simp only [Bool.and_eq_true] at h ⊢
  exact ⟨h.1, by rw [h.2]; simp⟩

theorem writableCR_of_writable {h : Hunk} (hw : h.writable = true) : writableCR h = true := by
  unfold Hunk.writable at hw
  unfold writableCR
  simp only [Bool.and_eq_true, List.all_eq_true] at hw ⊢
  obtain ⟨⟨⟨⟨⟨⟨⟨h1, h2⟩, h3⟩, h4⟩, h5⟩, h6⟩, h7⟩, h8⟩ := hw
  exact ⟨⟨⟨⟨⟨⟨⟨h1, h2⟩, fun pl hpl => okLine_of_plainLine (h3 pl hpl)⟩, h4⟩, h5⟩, h6⟩, h7⟩, h8⟩

theorem writableCR_spec (h : Hunk) (hw : writableCR h = true) :
    Readable h ∧ ∀ pl ∈ h.lines, okLine pl.line = true := by
  unfold writableCR Hunk.wfB at hw
  simp only [Bool.and_eq_true, List.all_eq_true, Bool.or_eq_true, beq_iff_eq, decide_eq_true_eq,
    Bool.not_eq_true', List.isEmpty_eq_false_iff] at hw
  obtain ⟨⟨⟨⟨⟨⟨⟨⟨⟨h1, h2⟩, h3⟩, h4⟩, h5⟩, h6⟩, h7⟩, h8⟩, h9⟩, h10⟩ := hw
  refine ⟨⟨?_, h2, h3, h4, h6, h7, h8, h9, h10⟩, h5⟩
  intro pl hpl
  rcases h1 pl hpl with (h | h) | h
  · exact Or.inl h
  · exact Or.inr (Or.inl h)
  · exact Or.inr (Or.inr h)

theorem mkLine_cons (op : UInt8) (c : Bytes) (hop : op ≠ CR) :
    mkLine (op :: c) = ⟨op :: (mkLine c).content, (mkLine c).newline⟩ := by
  cases c with
  | nil =>
    unfold mkLine
    simp only [List.getLast?_singleton, Option.some.injEq, List.getLast?_nil]
    rw [if_neg hop]; simp
  | cons a r =>
    unfold mkLine
    rw [List.getLast?_cons_cons]
    split
    · simp
    · simp

/-- a hunk line written with `lineEnd` is read by `splitLines` in its wire form -/
theorem splitLines_wireW (op : UInt8) (l : Line) (rest : Bytes) (hop : op ≠ NL ∧ op ≠ CR) (h1 : NL ∉ l.content)
    (h2 : l.newline = .lf → l.content.getLast? ≠ some CR) :
    splitLines ((op :: l.content) ++ (lineEnd l ++ rest))
      = ⟨op :: (wire l).content, (wire l).newline⟩ :: splitLines rest := by
  have h1' : NL ∉ op :: l.content := by
    intro hm
    rcases List.mem_cons.1 hm with h | h
    · exact hop.1 h.symm
    · exact h1 h
  rcases l with ⟨c, nl⟩
  cases nl with
  | lf =>
    have hl : (op :: c).getLast? ≠ some CR := by
      cases c with
      | nil => simpa using hop.2
      | cons a r => rw [List.getLast?_cons_cons]; exact h2 rfl
    have : lineEnd ⟨c, .lf⟩ = [NL] := rfl
    rw [this]
    simp only [wire, reduceCtorEq, if_false, List.singleton_append]
    exact splitLines_line _ _ h1' hl
  | crlf =>
    have : lineEnd ⟨c, .crlf⟩ = [CR, NL] := rfl
    rw [this]
    simp only [wire, reduceCtorEq, if_false]
    have e : (op :: c) ++ ([CR, NL] ++ rest) = ((op :: c) ++ [CR]) ++ NL :: rest := by simp
    have h1'' : NL ∉ (op :: c) ++ [CR] := by
      intro hm
      rcases List.mem_append.1 hm with h | h
      · exact h1' h
      · simp at h; exact absurd h (by decide)
    unfold splitLines
    rw [e, splitLinesGo_line _ _ _ h1'', List.nil_append, mkLine_cr]
  | none =>
    have : lineEnd ⟨c, .none⟩ = [NL] := rfl
    rw [this]
    simp only [wire, if_true, List.singleton_append]
    unfold splitLines
    rw [splitLinesGo_line _ _ _ h1', List.nil_append, mkLine_cons _ _ hop.2]

theorem splitLines_bodyW (ls : List PatchLine) (rest : Bytes)
    (hops : ∀ pl ∈ ls, pl.op = SP ∨ pl.op = PLUS ∨ pl.op = MINUS)
    (hok : ∀ pl ∈ ls, okLine pl.line = true) :
    splitLines ((ls.flatMap fun pl => [pl.op] ++ pl.line.content ++ lineEnd pl.line
            ++ (if pl.line.newline = NewLine.none then noNewlineMarker else [])) ++ rest)
      = bodyLinesG wire ls ++ splitLines rest := by
  induction ls with
  | nil => simp [bodyLinesG]
  | cons pl ls ih =>
    have ih' := ih (fun x hx => hops x (List.mem_cons_of_mem _ hx)) (fun x hx => hok x (List.mem_cons_of_mem _ hx))
    have hop := hops pl List.mem_cons_self
    have hpl := hok pl List.mem_cons_self
    unfold okLine at hpl
    simp only [Bool.and_eq_true, Bool.not_eq_true', Bool.or_eq_true, bne_iff_ne, ne_eq] at hpl
    have h1 : NL ∉ pl.line.content := by have := hpl.1; simp at this; exact this
    have h2 : pl.line.newline = .lf → pl.line.content.getLast? ≠ some CR := by
      intro e; rcases hpl.2 with h | h
      · exact absurd e h
      · exact h
    have hop' : pl.op ≠ NL ∧ pl.op ≠ CR := by
      rcases hop with e | e | e <;> rw [e] <;> exact ⟨by decide, by decide⟩
    rw [List.flatMap_cons, bodyLinesG]
    have e : ∀ (x y : Bytes), ([pl.op] ++ pl.line.content ++ lineEnd pl.line ++ x) ++ y
        = (pl.op :: pl.line.content) ++ (lineEnd pl.line ++ (x ++ y)) := by
      intro x y; simp
    rw [List.append_assoc, e, splitLines_wireW _ _ _ hop' h1 h2, List.cons_append]
    congr 1
    revert ih'
    generalize (List.flatMap _ ls ++ rest) = T
    intro ih'
    split
    · rw [noNewlineMarker_eq, List.append_assoc, List.append_assoc, List.singleton_append,
        splitLines_line _ _ (by decide) (by decide), ih']
      rfl
    · simpa using ih'

theorem splitLines_hunksW (hs : List Hunk)
    (hops : ∀ h ∈ hs, ∀ pl ∈ h.lines, pl.op = SP ∨ pl.op = PLUS ∨ pl.op = MINUS)
    (hok : ∀ h ∈ hs, ∀ pl ∈ h.lines, okLine pl.line = true) :
    splitLines (hs.flatMap writeHunkUnified) = hs.flatMap (hunkLinesG wire) := by
  induction hs with
  | nil => rfl
  | cons h hs ih =>
    rw [List.flatMap_cons, List.flatMap_cons, writeHunkUnified_eq, List.append_assoc, List.cons_append,
      splitLines_line _ _ (rangeText_no_NL h) (rangeText_last h),
      splitLines_bodyW _ _ (hops h List.mem_cons_self) (hok h List.mem_cons_self),
      ih (fun x hx => hops x (List.mem_cons_of_mem _ hx)) (fun x hx => hok x (List.mem_cons_of_mem _ hx))]
    rfl

/-- **unified round trip, exact, a last line that ends in a bare CR included**: `unified_roundtrip` for hunks whose lines may
    end in CR unless they end in LF (`writableCR`) -/
theorem unified_roundtrip_cr (hs : List Hunk) (hne : hs ≠ []) (hw : ∀ h ∈ hs, writableCR h = true)
    (tail : List Line) (ht : tailOkUnified tail = true) (lineNo : Nat) :
    ∃ par', parseUnifiedBody { s := { rest := splitLines (hs.flatMap writeHunkUnified) ++ tail }, lineNo := lineNo }
        = .ok (hs, par') ∧ par'.s.rest = tail := by
  rw [splitLines_hunksW hs (fun h hh => (writableCR_spec h (hw h hh)).1.1) (fun h hh => (writableCR_spec h (hw h hh)).2)]
  exact parse_hunkLinesG wire wireOK_wire hs hne (fun h hh => (writableCR_spec h (hw h hh)).1) tail ht lineNo

/-- the loop over a list of emitted hunks, entered after the first range line -/
theorem unifiedLoop_hunks : ∀ (hs : List Hunk) (h : Hunk) (fuel n : Nat) (hunks : List Hunk) (tail : List Line),
    (∀ x ∈ h :: hs, x.writable = true) → tailOkUnified tail = true →
    (bodyLines h.lines ++ (hs.flatMap hunkLines ++ tail)).length + 1 ≤ fuel →
    ∃ st', unifiedLoop fuel ⟨⟨⟨bodyLines h.lines ++ (hs.flatMap hunkLines ++ tail), false, false⟩, n⟩, hunks,
          ⟨h.old, h.new, []⟩, true, h.old.count, h.new.count⟩ = .ok (true, st') ∧
      st'.hunks = hunks ++ (h :: hs) ∧ st'.par.s.rest = tail := by
  intro hs h fuel n hunks tail hw
  rw [bodyLines_eq, hunkLines_eq]
  exact unifiedLoop_hunksG wireLf wireOK_wireLf hs h fuel n hunks tail (fun x hx => readable_of_writable x (hw x hx))

/-- **unified round trip, exact**: what `write_hunk_as_unified` writes for writable hunks is read back by
    `parse_unified_patch` as those very hunks — contents, operations, ranges and the terminator class (LF, CR LF, none)
    of every line.  (Statement changed with the model: the writer now keeps CR LF; before, the hunks came back as
    `hs.map Hunk.normNl`, see `unified_roundtrip_normNl`.)  A special case of `unified_roundtrip_cr`. -/
theorem unified_roundtrip (hs : List Hunk) (hne : hs ≠ []) (hw : ∀ h ∈ hs, h.writable = true)
    (tail : List Line) (ht : tailOkUnified tail = true) (lineNo : Nat) :
    ∃ par', parseUnifiedBody { s := { rest := splitLines (hs.flatMap writeHunkUnified) ++ tail }, lineNo := lineNo }
        = .ok (hs, par') ∧ par'.s.rest = tail :=
  unified_roundtrip_cr hs hne (fun h hh => writableCR_of_writable (hw h hh)) tail ht lineNo

/-- the old form of the round trip (LF/CRLF class forgotten) is a consequence of the exact one -/
theorem unified_roundtrip_normNl (hs : List Hunk) (hne : hs ≠ []) (hw : ∀ h ∈ hs, h.writable = true)
    (tail : List Line) (ht : tailOkUnified tail = true) (lineNo : Nat) :
    ∃ hs' par', parseUnifiedBody { s := { rest := splitLines (hs.flatMap writeHunkUnified) ++ tail }, lineNo := lineNo }
        = .ok (hs', par') ∧ hs'.map Hunk.normNl = hs.map Hunk.normNl ∧ par'.s.rest = tail := by
  obtain ⟨par', h1, h2⟩ := unified_roundtrip hs hne hw tail ht lineNo
  exact ⟨hs, par', h1, rfl, h2⟩


/-! ### only the marker line makes a hunk line `.none` -/

/-- every line `Parser::get_line` hands out ends in LF or CR LF -/
theorem getLine_ne_none {p : Parser} {l : Line} {p' : Parser} (h : p.getLine = (some l, p')) : l.newline ≠ .none := by
  unfold Parser.getLine at h
  split at h
  · simp at h
  · rename_i l0 s' _
    simp only [Prod.mk.injEq, Option.some.injEq] at h
    obtain ⟨rfl, _⟩ := h
    split
    · split <;> simp
    · assumption

/-- `get_line` only ever shortens the list of unread lines -/
theorem getLine_rest_sub (p : Parser) : ∀ x ∈ p.getLine.2.s.rest, x ∈ p.s.rest := by
  intro x hx
  unfold Parser.getLine PStream.getLine at hx
  split at hx <;> rename_i heq
  all_goals
    split at heq
    · simp only [Prod.mk.injEq] at heq; obtain ⟨_, rfl⟩ := heq; exact hx
    · split at heq
      · simp only [Prod.mk.injEq] at heq; obtain ⟨_, rfl⟩ := heq; exact hx
      · split at heq
        · simp only [Prod.mk.injEq] at heq; obtain ⟨_, rfl⟩ := heq; exact hx
        · rename_i a r hr
          split at heq
          all_goals
            simp only [Prod.mk.injEq] at heq; obtain ⟨_, rfl⟩ := heq
            rw [hr]; exact List.mem_cons_of_mem _ hx

/-- no line of the text begins with a backslash -/
def NoBackslashLine (rest : List Line) : Prop := ∀ l ∈ rest, l.content.head? ≠ some BACKSLASH

theorem peek_ne_backslash (s : PStream) (h : NoBackslashLine s.rest) : s.peek ≠ BACKSLASH := by
  unfold PStream.peek
  cases hr : s.rest with
  | nil => simp only; decide
  | cons l r =>
    have := h l (by rw [hr]; exact List.mem_cons_self)
    rcases l with ⟨content, nl⟩
    cases content with
    | nil => cases nl <;> simp only <;> decide
    | cons c cs => simpa using this

theorem parseUnifiedRange_lines (h : Hunk) (line : Bytes) : (parseUnifiedRange h line).2.lines = h.lines := by
  rw [parseUnifiedRange_eq]
  repeat' (first | split | simp only [])
  all_goals rfl

/-- `unifiedLoop_content` for every line of a hunk body, the empty line (taken for a context line) included -/
theorem unifiedLoop_content' (fuel : Nat) (st : UState) (l : Line) (par' : Parser) (what : UInt8) (body : Bytes)
    (hg : st.par.getLine = (some l, par')) (hc : st.content = true)
    (hl : (if l.content.isEmpty then [SP] else l.content) = what :: body)
    (hw : what = SP ∨ what = PLUS ∨ what = MINUS) :
    unifiedLoop (fuel + 1) st =
      let st3 := stepOld (stepNew { st with par := par', hunk := { st.hunk with lines := st.hunk.lines ++ [⟨what, ⟨body, l.newline⟩⟩] } } what) what
      if st3.oldExp = 0 ∧ st3.newExp = 0 then
        afterHunk fuel { st3 with hunks := st3.hunks ++ [st3.hunk], hunk := { st3.hunk with lines := [] } }
      else unifiedLoop fuel st3 := by
  rcases l with ⟨lc, lnl⟩
  rcases st with ⟨par, hunks, hunk, content, oe, ne⟩
  simp only at hc hg hl
  subst hc
  cases lc with
  | nil =>
    simp only [List.isEmpty_nil, if_true, List.cons.injEq] at hl
    obtain ⟨rfl, rfl⟩ := hl
    rw [unifiedLoop]
    simp only []
    rw [hg]
    rfl
  | cons c cs =>
    simp only [List.isEmpty_cons, Bool.false_eq_true, if_false, List.cons.injEq] at hl
    obtain ⟨rfl, rfl⟩ := hl
    rcases hw with rfl | rfl | rfl
    · rw [unifiedLoop]
      simp only []
      rw [hg]
      rfl
    · rw [unifiedLoop]
      simp only []
      rw [hg]
      rfl
    · rw [unifiedLoop]
      simp only []
      rw [hg]
      rfl

/-- a body line that begins with anything but ' ', '+', '-' is refused -/
theorem unifiedLoop_content_bad (fuel : Nat) (st : UState) (l : Line) (par' : Parser) (what : UInt8) (body : Bytes)
    (hg : st.par.getLine = (some l, par')) (hc : st.content = true)
    (hl : (if l.content.isEmpty then [SP] else l.content) = what :: body)
    (hw : ¬ (what = SP ∨ what = PLUS ∨ what = MINUS)) :
    unifiedLoop (fuel + 1) st = .error .parserError := by
  have hb : (what != SP && what != MINUS && what != PLUS) = true := by
    simp only [not_or] at hw
    simp [hw.1, hw.2.1, hw.2.2]
  rw [unifiedLoop]
  simp only []
  rw [hg]
  simp only [hc, Bool.not_true, Bool.false_eq_true, if_false, hl, hb, if_true]

theorem stepNew_of_peek (st1 : UState) (what : UInt8) (hpk : st1.par.s.peek ≠ BACKSLASH) :
    (stepNew st1 what).par = st1.par ∧ (stepNew st1 what).hunk = st1.hunk ∧ (stepNew st1 what).hunks = st1.hunks := by
  unfold stepNew
  split
  · rw [if_neg (fun h => hpk h.2)]; exact ⟨rfl, rfl, rfl⟩
  · exact ⟨rfl, rfl, rfl⟩

theorem stepOld_of_peek (st1 : UState) (what : UInt8) (hpk : st1.par.s.peek ≠ BACKSLASH) :
    (stepOld st1 what).par = st1.par ∧ (stepOld st1 what).hunk = st1.hunk ∧ (stepOld st1 what).hunks = st1.hunks := by
  unfold stepOld
  split
  · rw [if_neg (fun h => hpk h.2)]; exact ⟨rfl, rfl, rfl⟩
  · exact ⟨rfl, rfl, rfl⟩

/-- no line of these hunk lines lacks its newline -/
def NoNone (ls : List PatchLine) : Prop := ∀ pl ∈ ls, pl.line.newline ≠ .none

/-- **only the marker makes a hunk line `.none`**: on a text without any `\` line the unified body loop produces no line
    without newline — whatever the text is, one whose last line lacks its newline included -/
theorem unifiedLoop_noNone : ∀ (fuel : Nat) (st : UState) (b : Bool) (st' : UState),
    unifiedLoop fuel st = .ok (b, st') → NoBackslashLine st.par.s.rest →
    (∀ h ∈ st.hunks, NoNone h.lines) → NoNone st.hunk.lines →
    ∀ h ∈ st'.hunks, NoNone h.lines := by
  intro fuel
  induction fuel with
  | zero =>
    intro st b st' h _ hh _
    simp only [unifiedLoop, Except.ok.injEq, Prod.mk.injEq] at h
    obtain ⟨_, rfl⟩ := h
    exact hh
  | succ fuel ih =>
    intro st b st' h hbs hh hk
    cases hg : st.par.getLine with
    | mk lo par' =>
    have hsub : NoBackslashLine par'.s.rest := by
      intro x hx
      have := getLine_rest_sub st.par x
      rw [hg] at this
      exact hbs x (this hx)
    cases lo with
    | none =>
      rw [unifiedLoop, hg] at h
      simp only [Except.ok.injEq, Prod.mk.injEq] at h
      obtain ⟨_, rfl⟩ := h
      exact hh
    | some l =>
      by_cases hc : st.content = true
      · obtain ⟨what, body, hl⟩ : ∃ what body, (if l.content.isEmpty then [SP] else l.content) = what :: body := by
          cases hlc : l.content with
          | nil => exact ⟨SP, [], by simp⟩
          | cons c cs => exact ⟨c, cs, by simp⟩
        by_cases hw : what = SP ∨ what = PLUS ∨ what = MINUS
        · rw [unifiedLoop_content' fuel st l par' what body hg hc hl hw] at h
          have hk1 : NoNone (st.hunk.lines ++ [⟨what, ⟨body, l.newline⟩⟩]) := by
            intro pl hpl
            rcases List.mem_append.1 hpl with hpl | hpl
            · exact hk pl hpl
            · simp only [List.mem_singleton] at hpl
              subst hpl
              exact (getLine_ne_none hg : l.newline ≠ .none)
          have hpk := peek_ne_backslash par'.s hsub
          obtain ⟨n1, n2, n3⟩ := stepNew_of_peek
            { st with par := par', hunk := { st.hunk with lines := st.hunk.lines ++ [⟨what, ⟨body, l.newline⟩⟩] } } what hpk
          obtain ⟨o1, o2, o3⟩ := stepOld_of_peek (stepNew
            { st with par := par', hunk := { st.hunk with lines := st.hunk.lines ++ [⟨what, ⟨body, l.newline⟩⟩] } } what) what
            (by rw [n1]; exact hpk)
          rw [n1] at o1
          rw [n2] at o2
          rw [n3] at o3
          generalize stepOld (stepNew
            { st with par := par', hunk := { st.hunk with lines := st.hunk.lines ++ [⟨what, ⟨body, l.newline⟩⟩] } } what) what
            = st3 at h o1 o2 o3
          simp only at o1 o2 o3
          dsimp only at h
          have hh3 : ∀ x ∈ st3.hunks ++ [st3.hunk], NoNone x.lines := by
            intro x hx
            rcases List.mem_append.1 hx with hx | hx
            · rw [o3] at hx; exact hh x hx
            · simp only [List.mem_singleton] at hx
              subst hx
              rw [o2]; exact hk1
          split at h
          · -- the hunk is complete
            unfold afterHunk at h
            simp only at h
            cases hg5 : st3.par.getLine with
            | mk lo5 par5 =>
            have hsub5 : NoBackslashLine par5.s.rest := by
              intro x hx
              have := getLine_rest_sub st3.par x
              rw [hg5] at this
              rw [o1] at this
              exact hsub x (this hx)
            rw [hg5] at h
            cases lo5 with
            | none =>
              simp only [Except.ok.injEq, Prod.mk.injEq] at h
              obtain ⟨_, rfl⟩ := h
              exact hh3
            | some l2 =>
              simp only at h
              have hlines := parseUnifiedRange_lines { st3.hunk with lines := [] } l2.content
              generalize parseUnifiedRange { st3.hunk with lines := [] } l2.content = res at h hlines
              rcases res with ⟨ok, h'⟩
              simp only at h hlines
              cases ok
              · simp only [Bool.not_false, if_true, Except.ok.injEq, Prod.mk.injEq] at h
                obtain ⟨_, rfl⟩ := h
                exact hh3
              · simp only [Bool.not_true, Bool.false_eq_true, if_false] at h
                exact ih _ _ _ h hsub5 hh3 (by intro pl hpl; simp only [hlines] at hpl; cases hpl)
          · exact ih _ _ _ h (by rw [o1]; exact hsub) (by rw [o3]; exact hh) (by rw [o2]; exact hk1)
        · rw [unifiedLoop_content_bad fuel st l par' what body hg hc hl hw] at h
          cases h
      · have hc' : st.content = false := by simpa using hc
        rw [unifiedLoop, hg] at h
        simp only [hc', Bool.not_false, if_true] at h
        have hlines := parseUnifiedRange_lines st.hunk l.content
        generalize parseUnifiedRange st.hunk l.content = res at h hlines
        rcases res with ⟨ok, h'⟩
        simp only at h hlines
        cases ok
        · simp only [Bool.false_eq_true, if_false] at h
          exact ih _ _ _ h hsub hh (by intro pl hpl; simp only [hlines] at hpl; exact hk pl hpl)
        · simp only [if_true] at h
          exact ih _ _ _ h hsub hh (by intro pl hpl; simp only [hlines] at hpl; exact hk pl hpl)

theorem parseUnifiedBody_noNone (par : Parser) (hs : List Hunk) (par' : Parser)
    (h : parseUnifiedBody par = .ok (hs, par')) (hnb : NoBackslashLine par.s.rest) :
    ∀ hk ∈ hs, ∀ pl ∈ hk.lines, pl.line.newline ≠ .none := by
  unfold parseUnifiedBody at h
  split at h
  · cases h
  · rename_i st hl
    simp only [Except.ok.injEq, Prod.mk.injEq] at h
    obtain ⟨rfl, _⟩ := h
    exact unifiedLoop_noNone _ _ _ _ hl hnb (by intro x hx; cases hx) (by intro x hx; cases hx)
  · rename_i st hl
    have := unifiedLoop_noNone _ _ _ _ hl hnb (by intro x hx; cases hx) (by intro x hx; cases hx)
    split at h
    · simp only [Except.ok.injEq, Prod.mk.injEq] at h; obtain ⟨rfl, _⟩ := h; exact this
    · split at h
      · cases h
      · split at h
        · cases h
        · simp only [Except.ok.injEq, Prod.mk.injEq] at h; obtain ⟨rfl, _⟩ := h; exact this

/-- in the text of an emitted hunk the marker line follows exactly the lines that lack their newline -/
theorem marker_follows_iff_none (pl : PatchLine) (rest : List PatchLine) (after : List Line)
    (hops : ∀ x ∈ rest, x.op = SP ∨ x.op = PLUS ∨ x.op = MINUS) (hafter : AfterOK after) :
    (∃ l, (bodyLines (pl :: rest) ++ after)[1]? = some l ∧ l.content.head? = some BACKSLASH) ↔
      pl.line.newline = .none := by
  rw [bodyLines_cons_append]
  by_cases hn : pl.line.newline = .none
  · simp only [hn, if_true, iff_true]
    exact ⟨markerLine, rfl, rfl⟩
  · simp only [hn, if_false, iff_false, List.nil_append]
    rintro ⟨l, hl, hb⟩
    simp only [List.getElem?_cons_succ] at hl
    cases rest with
    | nil =>
      simp only [bodyLines, List.nil_append] at hl
      have : after.head? = some l := by rw [← hl]; cases after <;> rfl
      exact hafter l this hb
    | cons y r =>
      simp only [bodyLines, List.cons_append, List.getElem?_cons_zero, Option.some.injEq] at hl
      subst hl
      simp only [List.head?_cons, Option.some.injEq] at hb
      rcases hops y List.mem_cons_self with h | h | h <;> rw [h] at hb <;> exact absurd hb (by decide)

/-! ### the final newline of the patch text does not matter to the unified body parser -/

/-- the last line of a text whose final newline is missing, as `get_line` hands it out: an LF line — or, if it ends in a CR
    (what is left of a CR LF, D85), a CR LF line without that CR -/
def lastLine (c : Bytes) : Line :=
  if c.getLast? = some CR then ⟨c.dropLast, .crlf⟩ else ⟨c, .lf⟩

theorem lastLine_ne_none (c : Bytes) : (lastLine c).newline ≠ .none := by
  unfold lastLine; split <;> simp

theorem lastLine_of_noCR {c : Bytes} (h : c.getLast? ≠ some CR) : lastLine c = ⟨c, .lf⟩ := by
  unfold lastLine; rw [if_neg h]

theorem lastLine_snocCR (c : Bytes) : lastLine (c ++ [CR]) = ⟨c, .crlf⟩ := by
  unfold lastLine; simp

/-- two parsers over the same text, `q`'s text lacking the newline of its last line (`c`; in `p`'s text that line stands
    as `get_line` hands it out, `lastLine c`): either both stand before the same lines, or both have read everything -/
def Sim (c : Bytes) (p q : Parser) : Prop :=
  (∃ suf, (∀ l ∈ suf, l.newline ≠ .none) ∧
      p.s = ⟨suf ++ [lastLine c], false, false⟩ ∧ q.s = ⟨suf ++ [⟨c, .none⟩], false, false⟩) ∨
  (p.s.rest = [] ∧ q.s.rest = [] ∧ q.s.eof = true)

theorem Sim.getLine {c : Bytes} {p q : Parser} (h : Sim c p q) :
    p.getLine.1 = q.getLine.1 ∧ Sim c p.getLine.2 q.getLine.2 := by
  rcases p with ⟨ps, pn⟩
  rcases q with ⟨qs, qn⟩
  rcases h with ⟨suf, hsuf, hp, hq⟩ | ⟨hp, hq, he⟩
  · simp only at hp hq
    subst hp hq
    cases suf with
    | nil =>
      have e1 : Parser.getLine ⟨⟨[] ++ [lastLine c], false, false⟩, pn⟩
          = (some (lastLine c), ⟨⟨[], false, false⟩, pn + 1⟩) := by
        simp [Parser.getLine, PStream.getLine, lastLine_ne_none c]
      have e2 : Parser.getLine ⟨⟨[] ++ [⟨c, .none⟩], false, false⟩, qn⟩
          = (some (lastLine c), ⟨⟨[], true, false⟩, qn + 1⟩) := by
        simp [Parser.getLine, PStream.getLine, lastLine]
      rw [e1, e2]
      exact ⟨rfl, Or.inr ⟨rfl, rfl, rfl⟩⟩
    | cons x suf =>
      have hx : x.newline ≠ .none := hsuf x List.mem_cons_self
      have e1 : Parser.getLine ⟨⟨(x :: suf) ++ [lastLine c], false, false⟩, pn⟩
          = (some x, ⟨⟨suf ++ [lastLine c], false, false⟩, pn + 1⟩) := by
        simp [Parser.getLine, PStream.getLine, hx]
      have e2 : Parser.getLine ⟨⟨(x :: suf) ++ [⟨c, .none⟩], false, false⟩, qn⟩
          = (some x, ⟨⟨suf ++ [⟨c, .none⟩], false, false⟩, qn + 1⟩) := by
        simp [Parser.getLine, PStream.getLine, hx]
      rw [e1, e2]
      exact ⟨rfl, Or.inl ⟨suf, fun l hl => hsuf l (List.mem_cons_of_mem _ hl), rfl, rfl⟩⟩
  · rcases ps with ⟨pr, pe, pb⟩
    rcases qs with ⟨qr, qe, qb⟩
    simp only at hp hq he
    subst hp hq he
    cases pe <;> cases pb <;> exact ⟨rfl, Or.inr ⟨rfl, rfl, rfl⟩⟩

theorem Sim.peek {c : Bytes} {p q : Parser} (h : Sim c p q) : p.s.peek = BACKSLASH ↔ q.s.peek = BACKSLASH := by
  rcases h with ⟨suf, _, hp, hq⟩ | ⟨hp, hq, _⟩
  · rw [hp, hq]
    cases suf with
    | nil =>
      by_cases hcr : c.getLast? = some CR
      · obtain ⟨d, rfl⟩ : ∃ d, c = d ++ [CR] := by
          rcases List.eq_nil_or_concat c with h0 | ⟨d, b, h0⟩
          · rw [h0] at hcr; cases hcr
          · rw [h0] at hcr; simp at hcr; subst hcr; exact ⟨d, by simpa using h0⟩
        rw [lastLine_snocCR]
        cases d with
        | nil => simp only [PStream.peek, List.nil_append]
        | cons a as => simp [PStream.peek]
      · rw [lastLine_of_noCR hcr]
        cases c with
        | nil => simp only [PStream.peek, List.nil_append]; decide
        | cons a as => simp [PStream.peek]
    | cons x suf => simp [PStream.peek]
  · unfold PStream.peek
    rw [hp, hq]

/-- loop states that differ in the parser only -/
def USim (c : Bytes) (s t : UState) : Prop :=
  Sim c s.par t.par ∧ s.hunks = t.hunks ∧ s.hunk = t.hunk ∧ s.content = t.content ∧ s.oldExp = t.oldExp ∧
    s.newExp = t.newExp

/-- results that differ in the parser only -/
def RSim : Except Exn (Bool × UState) → Except Exn (Bool × UState) → Prop
  | .error e1, .error e2 => e1 = e2
  | .ok (b1, s), .ok (b2, t) => b1 = b2 ∧ s.hunks = t.hunks ∧ s.content = t.content ∧ s.oldExp = t.oldExp ∧ s.newExp = t.newExp
  | _, _ => False

theorem stepNew_sim {c : Bytes} {s t : UState} (h : USim c s t) (what : UInt8) : USim c (stepNew s what) (stepNew t what) := by
  obtain ⟨h1, h2, h3, h4, h5, h6⟩ := h
  unfold stepNew
  split
  · simp only [h6]
    by_cases hc : t.newExp - 1 = 0 ∧ s.par.s.peek = BACKSLASH
    · rw [if_pos hc, if_pos ⟨hc.1, h1.peek.1 hc.2⟩]
      exact ⟨h1.getLine.2, h2, by simp only [h3], h4, h5, rfl⟩
    · rw [if_neg hc, if_neg (fun hh => hc ⟨hh.1, h1.peek.2 hh.2⟩)]
      exact ⟨h1, h2, h3, h4, h5, rfl⟩
  · exact ⟨h1, h2, h3, h4, h5, h6⟩

theorem stepOld_sim {c : Bytes} {s t : UState} (h : USim c s t) (what : UInt8) : USim c (stepOld s what) (stepOld t what) := by
  obtain ⟨h1, h2, h3, h4, h5, h6⟩ := h
  unfold stepOld
  split
  · simp only [h5]
    by_cases hc : t.oldExp - 1 = 0 ∧ s.par.s.peek = BACKSLASH
    · rw [if_pos hc, if_pos ⟨hc.1, h1.peek.1 hc.2⟩]
      exact ⟨h1.getLine.2, h2, by simp only [h3], h4, rfl, h6⟩
    · rw [if_neg hc, if_neg (fun hh => hc ⟨hh.1, h1.peek.2 hh.2⟩)]
      exact ⟨h1, h2, h3, h4, rfl, h6⟩
  · exact ⟨h1, h2, h3, h4, h5, h6⟩

theorem Sim.length {c : Bytes} {p q : Parser} (h : Sim c p q) : p.s.rest.length = q.s.rest.length := by
  rcases h with ⟨suf, _, hp, hq⟩ | ⟨hp, hq, _⟩
  · rw [hp, hq]; simp
  · rw [hp, hq]

theorem afterHunk_sim (c : Bytes) (fuel : Nat)
    (ih : ∀ s t : UState, USim c s t → RSim (unifiedLoop fuel s) (unifiedLoop fuel t))
    (s t : UState) (h : USim c s t) : RSim (afterHunk fuel s) (afterHunk fuel t) := by
  obtain ⟨h1, h2, h3, h4, h5, h6⟩ := h
  have hgl := h1.getLine
  unfold afterHunk
  cases hg : s.par.getLine with
  | mk lo p1 =>
  cases hg' : t.par.getLine with
  | mk lo' q1 =>
  rw [hg, hg'] at hgl
  simp only at hgl
  obtain ⟨rfl, hsim1⟩ := hgl
  cases lo with
  | none => exact ⟨rfl, h2, h4, h5, h6⟩
  | some l2 =>
    simp only [← h3]
    generalize parseUnifiedRange s.hunk l2.content = res
    rcases res with ⟨ok, h'⟩
    cases ok
    · exact ⟨rfl, h2, h4, h5, h6⟩
    · exact ih _ _ ⟨hsim1, h2, rfl, rfl, rfl, rfl⟩

/-- the unified body loop does the same on a text and on the same text without the newline of its last line -/
theorem unifiedLoop_sim (c : Bytes) : ∀ (fuel : Nat) (s t : UState), USim c s t →
    RSim (unifiedLoop fuel s) (unifiedLoop fuel t) := by
  intro fuel
  induction fuel with
  | zero =>
    intro s t h
    obtain ⟨h1, h2, h3, h4, h5, h6⟩ := h
    exact ⟨rfl, h2, h4, h5, h6⟩
  | succ fuel ih =>
    intro s t h
    obtain ⟨h1, h2, h3, h4, h5, h6⟩ := h
    have hgl := h1.getLine
    cases hg : s.par.getLine with
    | mk lo p1 =>
    cases hg' : t.par.getLine with
    | mk lo' q1 =>
    rw [hg, hg'] at hgl
    simp only at hgl
    obtain ⟨rfl, hsim1⟩ := hgl
    cases lo with
    | none =>
      rw [unifiedLoop, unifiedLoop, hg, hg']
      exact ⟨rfl, h2, h4, h5, h6⟩
    | some l =>
      by_cases hc : s.content = true
      · have hc' : t.content = true := h4 ▸ hc
        obtain ⟨what, body, hl⟩ : ∃ what body, (if l.content.isEmpty then [SP] else l.content) = what :: body := by
          cases hlc : l.content with
          | nil => exact ⟨SP, [], by simp⟩
          | cons a as => exact ⟨a, as, by simp⟩
        by_cases hw : what = SP ∨ what = PLUS ∨ what = MINUS
        · rw [unifiedLoop_content' fuel s l p1 what body hg hc hl hw,
            unifiedLoop_content' fuel t l q1 what body hg' hc' hl hw]
          have hs1 : USim c
              { s with par := p1, hunk := { s.hunk with lines := s.hunk.lines ++ [⟨what, ⟨body, l.newline⟩⟩] } }
              { t with par := q1, hunk := { t.hunk with lines := t.hunk.lines ++ [⟨what, ⟨body, l.newline⟩⟩] } } :=
            ⟨hsim1, h2, by simp only [h3], h4, h5, h6⟩
          have hs3 := stepOld_sim (stepNew_sim hs1 what) what
          generalize stepOld (stepNew
            { s with par := p1, hunk := { s.hunk with lines := s.hunk.lines ++ [⟨what, ⟨body, l.newline⟩⟩] } } what) what
            = s3 at hs3
          generalize stepOld (stepNew
            { t with par := q1, hunk := { t.hunk with lines := t.hunk.lines ++ [⟨what, ⟨body, l.newline⟩⟩] } } what) what
            = t3 at hs3
          obtain ⟨g1, g2, g3, g4, g5, g6⟩ := hs3
          dsimp only
          by_cases hz : s3.oldExp = 0 ∧ s3.newExp = 0
          · rw [if_pos hz, if_pos (g5 ▸ g6 ▸ hz)]
            exact afterHunk_sim c fuel ih _ _ ⟨g1, by simp only [g2, g3], by simp only [g3], g4, g5, g6⟩
          · rw [if_neg hz, if_neg (g5 ▸ g6 ▸ hz)]
            exact ih _ _ ⟨g1, g2, g3, g4, g5, g6⟩
        · rw [unifiedLoop_content_bad fuel s l p1 what body hg hc hl hw,
            unifiedLoop_content_bad fuel t l q1 what body hg' hc' hl hw]
          exact rfl
      · have hc1 : s.content = false := by simpa using hc
        have hc2 : t.content = false := h4 ▸ hc1
        rw [unifiedLoop, unifiedLoop, hg, hg']
        simp only [hc1, hc2, Bool.not_false, if_true, ← h3]
        generalize parseUnifiedRange s.hunk l.content = res
        rcases res with ⟨ok, h'⟩
        cases ok
        · exact ih _ _ ⟨hsim1, h2, rfl, rfl, h5, h6⟩
        · exact ih _ _ ⟨hsim1, h2, rfl, rfl, rfl, rfl⟩

/-- the unified body parser reads the same hunks (or fails in the same way) from a text whose last line lacks its newline
    and from that text with the last line as `get_line` hands it out (`lastLine`) -/
theorem parseUnifiedBody_lastLine (ls : List Line) (c : Bytes) (n : Nat) (hls : ∀ l ∈ ls, l.newline ≠ .none) :
    (parseUnifiedBody ⟨⟨ls ++ [⟨c, .none⟩], false, false⟩, n⟩).map (·.1)
      = (parseUnifiedBody ⟨⟨ls ++ [lastLine c], false, false⟩, n⟩).map (·.1) := by
  have hsim : Sim c ⟨⟨ls ++ [lastLine c], false, false⟩, n⟩ ⟨⟨ls ++ [⟨c, .none⟩], false, false⟩, n⟩ :=
    Or.inl ⟨ls, hls, rfl, rfl⟩
  have hlen := hsim.length
  have := unifiedLoop_sim c ((ls ++ [lastLine c]).length + 2)
    { par := ⟨⟨ls ++ [lastLine c], false, false⟩, n⟩ } { par := ⟨⟨ls ++ [⟨c, .none⟩], false, false⟩, n⟩ }
    ⟨hsim, rfl, rfl, rfl, rfl, rfl⟩
  unfold parseUnifiedBody
  simp only at hlen ⊢
  rw [← hlen]
  revert this
  generalize unifiedLoop _ { par := ⟨⟨ls ++ [lastLine c], false, false⟩, n⟩ } = r1
  generalize unifiedLoop _ { par := ⟨⟨ls ++ [⟨c, .none⟩], false, false⟩, n⟩ } = r2
  intro hr
  rcases r1 with e1 | ⟨b1, s1⟩ <;> rcases r2 with e2 | ⟨b2, s2⟩
  · simp only [RSim] at hr; subst hr; rfl
  · exact hr.elim
  · exact hr.elim
  · obtain ⟨rfl, k1, k2, k3, k4⟩ := hr
    cases b1
    · simp only [k1, k2, k3, k4]
      repeat' split
      all_goals rfl
    · simp only [k1]
      rfl

/-- **the final newline of the patch text does not matter**: the unified body parser reads the same hunks (or fails in the
    same way) from a text and from that text without the newline of its last line.
    (`hcr`, with the model (D85): unless the text then ends in a bare CR — that case is `parseUnifiedBody_final_cr`) -/
theorem parseUnifiedBody_final_newline (ls : List Line) (c : Bytes) (n : Nat) (hls : ∀ l ∈ ls, l.newline ≠ .none)
    (hcr : c.getLast? ≠ some CR) :
    (parseUnifiedBody ⟨⟨ls ++ [⟨c, .none⟩], false, false⟩, n⟩).map (·.1)
      = (parseUnifiedBody ⟨⟨ls ++ [⟨c, .lf⟩], false, false⟩, n⟩).map (·.1) := by
  rw [parseUnifiedBody_lastLine ls c n hls, lastLine_of_noCR hcr]

/-- a text that ends in a bare CR is read as the text that ends in CR LF: the LF of the last line does not matter -/
theorem parseUnifiedBody_final_cr (ls : List Line) (c : Bytes) (n : Nat) (hls : ∀ l ∈ ls, l.newline ≠ .none) :
    (parseUnifiedBody ⟨⟨ls ++ [⟨c ++ [CR], .none⟩], false, false⟩, n⟩).map (·.1)
      = (parseUnifiedBody ⟨⟨ls ++ [⟨c, .crlf⟩], false, false⟩, n⟩).map (·.1) := by
  rw [parseUnifiedBody_lastLine ls (c ++ [CR]) n hls, lastLine_snocCR]

/-! ### the context writer on writable hunks -/

theorem writable_WF (h : Hunk) (hw : h.writable = true) : h.WF := by
  obtain ⟨h1, h2, h3, _⟩ := writable_spec h hw
  exact ⟨h1, h2, h3⟩

theorem ctxRejectBody_ok (hs : List Hunk) (hwf : ∀ h ∈ hs, h.WF) : ∃ bytes, ctxRejectBody hs = .ok bytes := by
  induction hs with
  | nil => exact ⟨[], rfl⟩
  | cons h hs ih =>
    obtain ⟨b, hb⟩ := Apply.writeHunkContext_ok h (hwf h List.mem_cons_self)
    obtain ⟨rest, hrest⟩ := ih (fun x hx => hwf x (List.mem_cons_of_mem _ hx))
    exact ⟨_, by rw [ctxRejectBody, hb, hrest]⟩

/-- writing never fails for writable hunks -/
theorem context_write_ok (hs : List Hunk) (hw : ∀ h ∈ hs, h.writable = true) : ∃ bytes, ctxRejectBody hs = .ok bytes :=
  ctxRejectBody_ok hs (fun h hh => writable_WF h (hw h hh))

section Reject
open PatchModel.Apply

/-! ### the reject file of a run -/

/-- what a successful `finishHunk` did to the reject file -/
theorem finishHunk_rej {file : List Line} {o : ApplyOpts} {p : Patch} {s s' : AState} {num : Nat} {h : Hunk}
    {loc : Option Location} (hs : finishHunk file o p s num h loc = .ok s') :
    (s'.rejBytes = s.rejBytes ∧ s'.rejected = s.rejected) ∨
    (∃ h' b, writeReject p o.rejectFormat s.rejected.length h' = .ok b ∧ s'.rejBytes = s.rejBytes ++ b ∧
      s'.rejected = s.rejected ++ [(num, h')]) := by
  unfold finishHunk at hs
  simp only [] at hs
  split at hs
  · cases hs
  · next s1 hs1 =>
    split at hs1
    · next l hl =>
      left
      split at hs1
      · cases hs1
      · split at hs1
        · cases hs1
        · cases hs1
          cases hs
          (repeat' split) <;> exact ⟨rfl, rfl⟩
    · next hl =>
      right
      split at hs1
      · cases hs1
      · next b hb =>
        cases hs1
        cases hs
        refine ⟨_, b, hb, ?_⟩
        (repeat' split) <;> exact ⟨rfl, rfl⟩

theorem ctxRejectBody_snoc (hs : List Hunk) (h : Hunk) (body b : Bytes)
    (h1 : ctxRejectBody hs = .ok body) (h2 : writeHunkContext h = .ok b) :
    ctxRejectBody (hs ++ [h]) = .ok (body ++ (if hs.isEmpty then [] else starsLine) ++ b) := by
  induction hs generalizing body with
  | nil =>
    simp only [ctxRejectBody] at h1
    cases h1
    simp [ctxRejectBody, h2]
  | cons x xs ih =>
    rw [ctxRejectBody] at h1
    split at h1
    · next bx rest hx hr =>
      cases h1
      rw [List.cons_append, ctxRejectBody, hx, ih rest hr]
      cases xs with
      | nil => simp only [ctxRejectBody] at hr; cases hr; simp
      | cons y ys => simp
    · cases h1
    · cases h1

/-- the reject bytes written so far, in terms of the hunks rejected so far -/
def RejBytesInv (p : Patch) (fmt : RejectFormat) (s : AState) : Prop :=
  (rejectAsUnified fmt p.format = true →
    s.rejBytes = (if s.rejected = [] then [] else writeHeaderUnified p) ++ (s.rejected.map (·.2)).flatMap writeHunkUnified) ∧
  (rejectAsUnified fmt p.format = false →
    ∃ body, ctxRejectBody (s.rejected.map (·.2)) = .ok body ∧
      s.rejBytes = (if s.rejected = [] then [] else writeHeaderContext p) ++ body)

theorem finishHunk_rejBytesInv {file : List Line} {o : ApplyOpts} {p : Patch} {s s' : AState} {num : Nat} {h : Hunk}
    {loc : Option Location} (hs : finishHunk file o p s num h loc = .ok s')
    (hinv : RejBytesInv p o.rejectFormat s) : RejBytesInv p o.rejectFormat s' := by
  rcases finishHunk_rej hs with ⟨e1, e2⟩ | ⟨h', b, hb, e1, e2⟩
  · unfold RejBytesInv; rw [e1, e2]; exact hinv
  · unfold writeReject at hb
    constructor
    · intro hu
      rw [hu] at hb
      simp only [if_true] at hb
      cases hb
      rw [e1, e2, hinv.1 hu]
      cases hr : s.rejected with
      | nil => simp
      | cons a r => simp
    · intro hu
      rw [hu] at hb
      simp only [Bool.false_eq_true, if_false] at hb
      split at hb
      · cases hb
      · next bb hbb =>
        cases hb
        obtain ⟨body, hbody, hbytes⟩ := hinv.2 hu
        refine ⟨body ++ (if (s.rejected.map (·.2)).isEmpty then [] else starsLine) ++ bb, ?_, ?_⟩
        · rw [e2, List.map_append, List.map_singleton]
          exact ctxRejectBody_snoc _ _ _ _ hbody hbb
        · rw [e1, e2, hbytes]
          cases hr : s.rejected with
          | nil =>
            rw [hr] at hbody
            simp only [List.map_nil, ctxRejectBody] at hbody
            cases hbody
            simp
          | cons a r => simp [starsLine]

theorem applyRest_rejBytesInv {file : List Line} {o : ApplyOpts} {p : Patch} :
    ∀ (hs : List Hunk) (s : AState) (num : Nat) (s' : AState), applyRest file o p s num hs = .ok s' →
      RejBytesInv p o.rejectFormat s → RejBytesInv p o.rejectFormat s' := by
  intro hs
  induction hs with
  | nil => intro s num s' hr hinv; rw [applyRest] at hr; cases hr; exact hinv
  | cons h rest ih =>
    intro s num s' hr hinv
    rw [applyRest] at hr
    split at hr
    · cases hr
    · next s1 hs1 => exact ih s1 (num + 1) s' hr (finishHunk_rejBytesInv hs1 hinv)

/-- rejected hunk numbers increase -/
def RejOrdInv (num : Nat) (s : AState) : Prop :=
  List.Pairwise (· < ·) (s.rejected.map (·.1)) ∧ ∀ i ∈ s.rejected.map (·.1), i < num

theorem finishHunk_rejOrdInv {file : List Line} {o : ApplyOpts} {p : Patch} {s s' : AState} {num : Nat} {h : Hunk}
    {loc : Option Location} (hs : finishHunk file o p s num h loc = .ok s')
    (hinv : RejOrdInv num s) : RejOrdInv (num + 1) s' := by
  rcases finishHunk_rej hs with ⟨_, e2⟩ | ⟨h', b, _, _, e2⟩
  · unfold RejOrdInv; rw [e2]; exact ⟨hinv.1, fun i hi => Nat.lt_succ_of_lt (hinv.2 i hi)⟩
  · unfold RejOrdInv
    rw [e2, List.map_append, List.map_singleton]
    constructor
    · rw [List.pairwise_append]
      refine ⟨hinv.1, List.pairwise_singleton _ _, ?_⟩
      intro a ha b hb
      simp only [List.mem_singleton] at hb
      subst hb
      exact hinv.2 a ha
    · intro i hi
      rcases List.mem_append.1 hi with hi | hi
      · exact Nat.lt_succ_of_lt (hinv.2 i hi)
      · simp only [List.mem_singleton] at hi; omega

theorem applyRest_rejOrdInv {file : List Line} {o : ApplyOpts} {p : Patch} :
    ∀ (hs : List Hunk) (s : AState) (num : Nat) (s' : AState), applyRest file o p s num hs = .ok s' →
      RejOrdInv num s → RejOrdInv (num + hs.length) s' := by
  intro hs
  induction hs with
  | nil => intro s num s' hr hinv; rw [applyRest] at hr; cases hr; exact hinv
  | cons h rest ih =>
    intro s num s' hr hinv
    rw [applyRest] at hr
    split at hr
    · cases hr
    · next s1 hs1 =>
      have := ih s1 (num + 1) s' hr (finishHunk_rejOrdInv hs1 hinv)
      rw [List.length_cons, ← Nat.add_assoc, Nat.add_right_comm]
      exact this

/-- `applyPatch_cases` with the additional fact that the reject file starts empty -/
theorem applyPatch_cases_rej (file : List Line) (p0 : Patch) (o : ApplyOpts) (tty : Option (List Bool)) :
    (applyPatch file p0 o tty = .error .systemError ∧ o.ignoreReversed = false ∧ o.batch = false ∧
        o.force = false ∧ tty = none) ∨
    ∃ p' s1, InitState s1 ∧ s1.rejBytes = [] ∧
      (p'.hunks = p0.hunks ∨ p'.hunks = p0.hunks.map reverseHunk ∨
        p'.hunks = (p0.hunks.map reverseHunk).map reverseHunk) ∧
      applyPatch file p0 o tty = runLoop file o p' s1 := by
  have hp : ∃ p : Patch, (if o.reverse then reversePatch p0 else p0) = p ∧
      (p.hunks = p0.hunks ∨ p.hunks = p0.hunks.map reverseHunk) := by
    refine ⟨_, rfl, ?_⟩
    split
    · right; rfl
    · left; rfl
  obtain ⟨p, hpe, hph⟩ := hp
  suffices H : ∀ res, applyPatch file p0 o tty = res →
      (res = .error .systemError ∧ o.ignoreReversed = false ∧ o.batch = false ∧ o.force = false ∧ tty = none) ∨
      ∃ p' s1, InitState s1 ∧ s1.rejBytes = [] ∧
        (p'.hunks = p0.hunks ∨ p'.hunks = p0.hunks.map reverseHunk ∨
          p'.hunks = (p0.hunks.map reverseHunk).map reverseHunk) ∧ res = runLoop file o p' s1 from H _ rfl
  intro res hres
  unfold applyPatch at hres
  simp only [hpe] at hres
  have hph' : p.hunks = p0.hunks ∨ p.hunks = p0.hunks.map reverseHunk ∨
          p.hunks = (p0.hunks.map reverseHunk).map reverseHunk := by
    rcases hph with h | h
    · exact Or.inl h
    · exact Or.inr (Or.inl h)
  split at hres
  · next hh =>
    right
    refine ⟨p, { tty := tty }, ⟨rfl, rfl, rfl, rfl, rfl⟩, rfl, hph', ?_⟩
    rw [← hres]; unfold runLoop; rw [hh]; rfl
  · next h0 rest hh =>
    split at hres
    · next hchk =>
      split at hres
      · next e hdec =>
        left
        split at hdec
        · split at hdec
          · next e' he' =>
            cases hdec
            obtain ⟨h1, h2, h3, h4⟩ := checkReversed_error he'
            subst h1
            exact ⟨hres.symm, h2, h3, shouldCheckReversed_force hchk, h4⟩
          · cases hdec
        · cases hdec
      · next rh ms tty' hdec =>
        right
        split at hres
        · have hrm : (reversePatch p).hunks = p.hunks.map reverseHunk := rfl
          have hrh : (reversePatch p).hunks = reverseHunk h0 :: rest.map reverseHunk := by
            rw [hrm, hh, List.map_cons]
          refine ⟨reversePatch p, { msgs := ms, tty := tty' },
            ⟨rfl, rfl, rfl, rfl, rfl⟩, rfl, ?_, ?_⟩
          · rcases hph with h | h
            · exact Or.inr (Or.inl (by rw [hrm, h]))
            · exact Or.inr (Or.inr (by rw [hrm, h]))
          · rw [runLoop_cons (h := reverseHunk h0) (rest := rest.map reverseHunk) hrh rfl rfl]
            exact hres.symm
        · refine ⟨p, { skip := true, msgs := ms, tty := tty' }, ⟨rfl, rfl, rfl, rfl, rfl⟩, rfl, hph', ?_⟩
          rw [runLoop_cons hh rfl rfl]
          exact hres.symm
        · refine ⟨p, { msgs := ms, tty := tty' }, ⟨rfl, rfl, rfl, rfl, rfl⟩, rfl, hph', ?_⟩
          rw [runLoop_cons hh rfl rfl]
          exact hres.symm
    · right
      refine ⟨p, { tty := tty }, ⟨rfl, rfl, rfl, rfl, rfl⟩, rfl, hph', ?_⟩
      rw [runLoop_cons hh rfl rfl]
      exact hres.symm


theorem applyPatch_ok_cases_rej {file : List Line} {p0 : Patch} {o : ApplyOpts} {tty : Option (List Bool)} {r : ApplyResult}
    (hr : applyPatch file p0 o tty = .ok r) :
    ∃ p' s1 s3, InitState s1 ∧ s1.rejBytes = [] ∧
      applyRest file o p' s1 0 p'.hunks = .ok s3 ∧ r = finishResult file p' s3 := by
  rcases applyPatch_cases_rej file p0 o tty with ⟨he, _⟩ | ⟨p', s1, hi, hb, _, he⟩
  · rw [he] at hr; cases hr
  · rw [he] at hr
    unfold runLoop at hr
    split at hr
    · cases hr
    · next s3 h3 => cases hr; exact ⟨p', s1, s3, hi, hb, h3, rfl⟩

theorem reject_bytes_layout (file : List Line) (p0 : Patch) (o : ApplyOpts) (tty : Option (List Bool)) (r : ApplyResult)
    (hr : applyPatch file p0 o tty = .ok r) (hne : r.rejected ≠ []) :
    (rejectAsUnified o.rejectFormat r.patch.format = true →
      r.rejBytes = writeHeaderUnified r.patch ++ (r.rejected.map (·.2)).flatMap writeHunkUnified) ∧
    (rejectAsUnified o.rejectFormat r.patch.format = false →
      ∃ body, ctxRejectBody (r.rejected.map (·.2)) = .ok body ∧
        r.rejBytes = str "*** " ++ r.patch.oldPath
            ++ (if r.patch.oldTime ≠ [] ∧ r.patch.oldPath ≠ devNull then [TAB] ++ r.patch.oldTime else []) ++ [NL]
          ++ str "--- " ++ r.patch.newPath
            ++ (if r.patch.newTime ≠ [] ∧ r.patch.newPath ≠ devNull then [TAB] ++ r.patch.newTime else []) ++ [NL]
          ++ starsLine ++ body) ∧
    List.Pairwise (· < ·) (r.rejected.map (·.1)) := by
  obtain ⟨p', s1, s3, hi, hb, h3, rfl⟩ := applyPatch_ok_cases_rej hr
  have hinv1 : RejBytesInv p' o.rejectFormat s1 := by
    constructor
    · intro _; rw [hb, hi.rejected]; rfl
    · intro _; exact ⟨[], by rw [hi.rejected]; rfl, by rw [hb, hi.rejected]; rfl⟩
  have hinv3 := applyRest_rejBytesInv p'.hunks s1 0 s3 h3 hinv1
  have hord3 := applyRest_rejOrdInv p'.hunks s1 0 s3 h3
    ⟨by rw [hi.rejected]; exact List.Pairwise.nil, by rw [hi.rejected]; intro i hi; cases hi⟩
  simp only [finishResult] at hne ⊢
  refine ⟨?_, ?_, hord3.1⟩
  · intro hu
    rw [hinv3.1 hu, if_neg hne]
  · intro hu
    obtain ⟨body, h1, h2⟩ := hinv3.2 hu
    refine ⟨body, h1, ?_⟩
    rw [h2, if_neg hne]
    simp only [writeHeaderContext, headerLine, starsLine, List.append_assoc]
    rfl


end Reject

end PatchModel.Unified
